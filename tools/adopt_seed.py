#!/venv/bin/python
"""Adopt an independently seeded change into /verif/seeded/<ID>-<k>/.

  tools/adopt_seed.py <ID> <k> <srcdir> <validation.json> [--needs "text"] [--props C01 C02 ...]

Copies patch.diff, demo.py, notes.md; runs the listed checks (default: the property itself, quick
tier) against the patched tree (scratch copy, VERIF_REPO) and writes meta.json with: which
property it breaks, what it needs in order to manifest (first paragraph of the sub-agent's notes
unless --needs is given), what was run to validate it (demo on clean/changed tree, repository
suite) and which checks/monitors detect it.
"""
import json
import os
import re
import shutil
import subprocess
import sys

HERE = os.path.dirname(os.path.dirname(os.path.abspath(__file__)))


def extract_needs(notes: str) -> str:
  """The section of the sub-agent's notes that says what the change needs in order to manifest."""
  m = re.search(r'^#+\s*[^\n]*(manifest|trigger|needs)[^\n]*\n(.*?)(?=^#+\s|\Z)', notes, re.S | re.M | re.I)
  if m:
    return ' '.join(m.group(2).split())[:1500]
  paras = [p for p in notes.strip().split('\n\n') if p.strip()]
  return ' '.join((paras[1] if len(paras) > 1 else paras[0] if paras else '').split())[:1500]


def main():
  a = sys.argv[1:]
  pid, k, src, val = a[0], a[1], a[2], a[3]
  needs = None
  props = [pid]
  tier = 'quick'
  if '--needs' in a:
    needs = a[a.index('--needs') + 1]
  if '--tier' in a:
    tier = a[a.index('--tier') + 1]
  if '--props' in a:
    props = [x for x in a[a.index('--props') + 1:] if re.fullmatch(r'C\d\d', x)]
  v = json.load(open(val))
  if not v.get('valid'):
    sys.exit(f'not a valid seeded change: {v}')
  dst = os.path.join(HERE, 'seeded', f'{pid}-{k}')
  os.makedirs(dst, exist_ok=True)
  for f in ('patch.diff', 'demo.py', 'notes.md'):
    if os.path.exists(os.path.join(src, f)):
      shutil.copy(os.path.join(src, f), os.path.join(dst, f))
  notes = open(os.path.join(src, 'notes.md')).read() if os.path.exists(os.path.join(src, 'notes.md')) else ''
  env = dict(os.environ, VP_FAIL_FAST='1')
  r = subprocess.run([os.path.join(HERE, 'tools', 'seedcheck.py'), 'run', pid,
                      os.path.join(dst, 'patch.diff'), tier, *props], capture_output=True, text=True, env=env)
  try:
    det = json.loads(r.stdout)
  except Exception:  # pylint: disable=broad-except
    det = {'error': (r.stdout + r.stderr)[-800:]}
  meta = {
      'property': pid,
      'origin': 'independent sub-agent given only the property text and a scratch worktree of /repo (nothing from /verif)',
      'title': notes.strip().split('\n')[0].lstrip('# ').strip()[:200],
      'needs_to_manifest': needs or extract_needs(notes),
      'validated_by_me': {
          'scratch_worktree': 'git -C /repo worktree add --detach /tmp/seedval-* HEAD; removed afterwards',
          'demo_on_clean_tree_exit': v.get('demo_clean'),
          'demo_on_changed_tree_exit': v.get('demo_changed'),
          'repository_suite_with_change': v.get('suite'),
          'diffstat': v.get('diffstat'),
          'commands': ['tools/seedcheck.py validate', 'tools/seedcheck.py run (patched scratch copy, VERIF_REPO)'],
      },
      'detection': {p: {'exit': d.get('exit'), 'tier': tier, 'first_violation': d.get('first', '')[:400]}
                    for p, d in det.items()} if 'error' not in det else det,
      'detected': any(d.get('exit') == 1 for d in det.values()) if 'error' not in det else False,
  }
  with open(os.path.join(dst, 'meta.json'), 'w') as f:
    json.dump(meta, f, indent=1)
  print(pid, k, 'detected' if meta['detected'] else 'MISSED', {p: d.get('exit') for p, d in det.items()} if 'error' not in det else det)


if __name__ == '__main__':
  main()
