#!/venv/bin/python
"""Regenerates DESIGN.md §8/§9 (between the RESULTS markers) from the recorded results:
notes/selftest_results.json, seeded/*/meta.json (+ seeded/HISTORY.json), notes/audit.json."""
import glob
import json
import os
import re

HERE = os.path.dirname(os.path.dirname(os.path.abspath(__file__)))


def load(p, default):
  try:
    return json.load(open(os.path.join(HERE, p)))
  except Exception:  # pylint: disable=broad-except
    return default


def main():
  st = load('notes/selftest_results.json', {})
  hist = load('seeded/HISTORY.json', {})
  audit = load('notes/audit.json', {})
  out = []
  out.append('## 8. Which checks catch which changes\n')
  out.append('### 8.1 Deliberate breaks (self-test canaries, `./check --selftest <ID>`, quick tier)\n')
  out.append('Every patch in `mutants/<ID>/` is applied to a scratch copy of `/repo`; the quick check run with '
             '`VERIF_REPO=<scratch>` must exit 1 (fail-fast). The independently seeded changes of §8.2 are kept '
             'as `mutants/<ID>/seeded-<k>.diff` too. Results of the last complete pass (per mutant: first monitor '
             'that fired; full table in `notes/selftest_results.json`, break descriptions in `notes/agents/CNN.md`):\n')
  out.append('| property | mutants (deliberate + seeded) | caught | monitors that fired first (count) |')
  out.append('|---|---|---|---|')
  tot = caught = 0
  for pid in sorted(st):
    rows = st[pid]['mutants']
    c = sum(r['status'] == 'caught' for r in rows)
    tot += len(rows)
    caught += c
    nseed = sum(r['mutant'].startswith('seeded-') for r in rows)
    mons = {}
    for r in rows:
      if r.get('first_monitor'):
        mons[r['first_monitor']] = mons.get(r['first_monitor'], 0) + 1
    top = ', '.join(f'{k} ({v})' for k, v in sorted(mons.items(), key=lambda kv: -kv[1])[:6])
    out.append(f'| {pid} | {len(rows) - nseed} + {nseed} | {c} | {top} |')
  out.append(f'| **all** | **{tot}** | **{caught}** | |\n')
  out.append('Mutants that turned out to be *equivalent* for the property they were aimed at were dropped '
             '(reasons in the reports): e.g. `side=\'right\'`→`\'left\'` in continuous interpolants (C17), '
             '`(k > c)`→`(k >= c)` in the exponential filter (C15), `0.5*dt`→`dt` in the CN-RK2 predictor (still '
             'second order, C06), a `d_dlon` sign flip for even m only (still equivariant, C10; C02 sees it), '
             '`k_shifted` row 0 not zeroed (already zero, C03).\n')

  out.append('### 8.2 Independently seeded changes\n')
  out.append('Fresh sub-agents were given only the JSON record of one property and a scratch worktree of `/repo` '
             '(nothing from `/verif`) and asked for three realistic changes each that break the property, keep the '
             'package importable and keep the existing suite passing, with a demonstration program. Each change was '
             're-validated here in a fresh worktree (`tools/seedcheck.py validate`: demo passes on the clean tree, '
             'fails on the changed tree, the full suite gives the baseline 395 passes) and then scored against the '
             'checks on a patched scratch copy (`tools/adopt_seed.py`; `--inplace` applies it to `/repo` and undoes it). '
             'Kept under `seeded/<ID>-<k>/` with `meta.json`.\n')
  out.append('| seeded change | what it needs to manifest (abridged) | detected by (first monitor) | note |')
  out.append('|---|---|---|---|')
  nd = nm = 0
  for d in sorted(glob.glob(os.path.join(HERE, 'seeded', 'C*-*'))):
    sid = os.path.basename(d)
    m = load(os.path.join('seeded', sid, 'meta.json'), None)
    if not m:
      continue
    needs = ' '.join(m.get('needs_to_manifest', '').split())
    needs = re.sub(r'[|]', '/', needs)[:260]
    title = re.sub(r'^C\d\d\s*(seed|/ change|change)?\s*\d*\s*[—-]\s*', '', m.get('title', ''))
    title = re.sub(r'[|]', '/', title)[:110]
    det = []
    for p, r in (m.get('detection') or {}).items():
      if isinstance(r, dict) and r.get('exit') == 1:
        mon = re.search(r'monitor=(\S+)', r.get('first_violation', ''))
        det.append(f"{p}: {mon.group(1) if mon else 'violation'}")
    if m.get('detected'):
      nd += 1
    else:
      nm += 1
    note = hist.get(sid, '')
    note = 'first MISSED, check strengthened, see below' if note else ''
    out.append(f"| {sid}: {title} | {needs} | {'; '.join(det) if det else '**MISSED**'} | {note} |")
  out.append(f'\n{nd} of {nd + nm} kept changes are detected by the quick tier of the check of their own property.\n')
  if hist:
    out.append('Changes that were missed at first and what was strengthened (never by loosening or special-casing):\n')
    for sid, txt in sorted(hist.items()):
      out.append(f'* **{sid}** — {txt}')
    out.append('')

  out.append('## 9. False-alarm audit and budgets (executed)\n')
  if audit:
    out.append('| property | quick: seeds held | thorough: seeds held | quick wall (s) | thorough wall (s) | known findings printed |')
    out.append('|---|---|---|---|---|---|')
    for pid in sorted(audit):
      a = audit[pid]
      out.append(f"| {pid} | {a.get('quick_seeds', '')} | {a.get('thorough_seeds', '')} | {a.get('quick_wall', '')} | "
                 f"{a.get('thorough_wall', '')} | {a.get('known', '')} |")
    out.append('')
  out.append(load('notes/audit_text.json', {}).get('text', ''))
  body = '\n'.join(out)
  p = os.path.join(HERE, 'DESIGN.md')
  s = open(p).read()
  a, b = s.index('<!-- RESULTS-BEGIN -->'), s.index('<!-- RESULTS-END -->')
  s = s[:a] + '<!-- RESULTS-BEGIN -->\n' + body + '\n' + s[b:]
  open(p, 'w').write(s)
  print('DESIGN.md updated:', tot, 'mutants,', nd, 'detected seeds,', nm, 'missed')


if __name__ == '__main__':
  main()
