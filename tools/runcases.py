#!/venv/bin/python
"""Run only the cases of a property whose id contains a substring (development aid; writes no
evidence):  tools/runcases.py <ID> <quick|thorough> <substring> [seed]"""
import os, sys
HERE = os.path.dirname(os.path.dirname(os.path.abspath(__file__)))
sys.path.insert(0, HERE)
os.environ.setdefault('PYTHONHASHSEED', '0')
from vp import orch
import importlib
pid, tier, sub = sys.argv[1].upper(), sys.argv[2], sys.argv[3]
seed = int(sys.argv[4]) if len(sys.argv) > 4 else 0
mod = importlib.import_module(f'vp.props.{pid.lower()}')
cs = [c for c in mod.cases(tier, seed) if sub in c['id']]
print(len(cs), 'cases:', [c['id'] for c in cs][:12])
sys.exit(orch.check(pid, tier, seed, only_cases=cs, write_evidence=False))
