#!/venv/bin/python
"""Regenerates MANIFEST.json from the per-property table below (single source of truth)."""
import importlib, json, os, sys
HERE = os.path.dirname(os.path.dirname(os.path.abspath(__file__)))
sys.path.insert(0, HERE)
TABLE = json.load(open(os.path.join(HERE, 'tools', 'manifest_table.json')))
checks, na = [], []
for pid in [f'C{i:02d}' for i in range(1, 21)]:
  t = TABLE.get(pid)
  have = os.path.exists(os.path.join(HERE, 'vp', 'props', pid.lower() + '.py'))
  if not t or not have or t.get('not_applicable'):
    na.append({'property_id': pid, 'reason': (t or {}).get('not_applicable', 'check not built yet (work in progress); no claim made')})
    continue
  checks.append({
      'property_id': pid,
      'quick_cmd': f'./check {pid} quick',
      'thorough_cmd': f'./check {pid} thorough',
      'evidence_file': f'evidence/{pid}.json',
      'replay_cmd_template': f'./check {pid} --replay {{path}}',
      'engine': 'vp-monitor',
      'level_claimed': {'category': 'exploration', 'text': t['level_text'], 'design_ref': f'DESIGN.md §3 {pid}'},
      'level_note': t['level_note'],
      'technique': t['technique'],
  })
man = {
    'version': 1,
    'setup_cmd': '/venv/bin/pip install -q --no-index --find-links /opt/veriftools/wheels --target /verif/.deps icontract deal || true',
    'hooks': {
        'guard': 'DINOSAUR_VERIF',
        'enable': 'no source hooks in /repo: the harness wraps public attributes of the imported modules (icontract contracts, post_process_fn invariant hooks) when DINOSAUR_VERIF=1 is set by ./check; sources are imported straight from the working tree in fresh processes',
        'baseline_off_cmd': 'cd /repo && /venv/bin/python -m pytest -ra -q -p no:cacheprovider --timeout=900 --continue-on-collection-errors',
        'source_commits': [],
        'add_only': True,
    },
    'engines': [{'name': 'vp-monitor', 'path': 'vp/', 'serves_properties': [c['property_id'] for c in checks],
                 'kind_free_text': 'runtime monitoring: oracles (reference models, metamorphic/differential relations, invariant hooks, contracts, NaN sanitizers) observing executions of the real code imported from the working tree, float64 instrumented build + float32 as-shipped pass, sharded over worker processes'}],
    'checks': checks,
    'not_applicable': na,
    'notes': 'Exit codes of ./check: 0 held on everything explored (KNOWN-FINDING lines possible), 1 VIOLATION (replay written), 2 INCONCLUSIVE (deciding monitor not reached / infrastructure). VERIF_SEED, VERIF_TIER, VERIF_REPO (default /repo), VP_WORKERS (default 14) are honoured. fix: commits in /repo and known findings are recorded in known_findings.json.',
}
json.dump(man, open(os.path.join(HERE, 'MANIFEST.json'), 'w'), indent=1)
print(len(checks), 'checks;', len(na), 'not claimed')
