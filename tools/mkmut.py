#!/venv/bin/python
"""Create a mutant patch:  tools/mkmut.py <ID> <name> <relative file> <old> <new> [occurrence]

Replaces one occurrence (default: must be unique) of the exact string <old> by <new> in
$VERIF_REPO/<file> (in memory) and writes the unified diff to mutants/<ID>/<name>.diff.
Several replacements in one patch: repeat  -- <file> <old> <new> [occurrence].
"""
import difflib, os, sys
HERE = os.path.dirname(os.path.dirname(os.path.abspath(__file__)))
repo = os.environ.get('VERIF_REPO', '/repo')
prop, name = sys.argv[1], sys.argv[2]
groups, cur = [], []
for a in sys.argv[3:]:
  if a == '--':
    groups.append(cur); cur = []
  else:
    cur.append(a)
groups.append(cur)
texts = {}
for g in groups:
  f, old, new = g[0], g[1], g[2]
  occ = int(g[3]) if len(g) > 3 else None
  s = texts.get(f)
  if s is None:
    s = open(os.path.join(repo, f)).read()
    texts[f] = s
    texts[f + ':orig'] = s
  n = s.count(old)
  if n == 0 or (n > 1 and occ is None):
    sys.exit(f'{f}: {n} occurrences of {old!r}')
  if occ is None:
    s = s.replace(old, new)
  else:
    parts = s.split(old)
    s = old.join(parts[:occ + 1]) + new + old.join(parts[occ + 1:])
  texts[f] = s
out = ''
for f in [k for k in texts if not k.endswith(':orig')]:
  out += ''.join(difflib.unified_diff(texts[f + ':orig'].splitlines(True), texts[f].splitlines(True), 'a/' + f, 'b/' + f))
d = os.path.join(HERE, 'mutants', prop)
os.makedirs(d, exist_ok=True)
open(os.path.join(d, name + '.diff'), 'w').write(out)
print(out)
