#!/venv/bin/python
"""tools/parse_selftest.py <selftest log> : rewrite notes/selftest_results.json from a complete
`./check --selftest all` log (one line per mutant)."""
import json, os, re, sys
HERE = os.path.dirname(os.path.dirname(os.path.abspath(__file__)))
res = {}
for line in open(sys.argv[1]):
  m = re.match(r'^(C\d\d) (\S+\.diff)\s+(\S+)\s+(\d+)s\s*(.*)$', line.rstrip())
  if not m:
    continue
  mon = re.search(r'violation monitor=(\S+) case=(\S+)', m.group(5))
  res.setdefault(m.group(1), {'mutants': []})['mutants'].append({
      'mutant': m.group(2), 'status': m.group(3), 'wall_s': int(m.group(4)),
      'first_monitor': mon.group(1) if mon else None, 'case': mon.group(2) if mon else None})
json.dump(res, open(os.path.join(HERE, 'notes', 'selftest_results.json'), 'w'), indent=1)
tot = sum(len(v['mutants']) for v in res.values())
bad = [(p, r['mutant'], r['status']) for p, v in res.items() for r in v['mutants'] if r['status'] != 'caught']
print(tot, 'mutants;', len(bad), 'not caught:', bad)
