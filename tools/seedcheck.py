#!/venv/bin/python
"""Validate and score a seeded change produced by an independent sub-agent.

  tools/seedcheck.py validate <ID> <srcdir> [--no-suite]   # srcdir holds patch.diff, demo.py, notes.md
      1. fresh scratch worktree of /repo HEAD under /tmp; demo must pass on the clean tree
      2. apply patch; demo must fail; package must import
      3. (unless --no-suite) the repository's test-suite must give the baseline set of passes
      prints a JSON verdict; removes the worktree.
  tools/seedcheck.py run <ID> <patch.diff> [tier] [prop ...] [--inplace]
      runs ./check for the listed properties (default: <ID>) against the patched tree with
      VP_NO_EVIDENCE=1: by default a patched scratch copy via VERIF_REPO; with --inplace the patch is
      applied to /repo (git apply) and ALWAYS undone (git checkout -- .).
"""
import json
import os
import shutil
import subprocess
import sys
import tempfile
import time

HERE = os.path.dirname(os.path.dirname(os.path.abspath(__file__)))
PY = '/venv/bin/python'
KNOWN_FAIL = {
    'dinosaur/filtering_test.py::FilteringTest::test_time_filter_variation0',
    'dinosaur/filtering_test.py::FilteringTest::test_time_filter_variation1',
}


def sh(cmd, **kw):
  return subprocess.run(cmd, capture_output=True, text=True, **kw)


def run_demo(wt, demo, timeout=1800):
  env = dict(os.environ, PYTHONPATH=wt, PYTHONDONTWRITEBYTECODE='1', JAX_PLATFORMS='cpu')
  if demo.endswith('_test.py') or 'import pytest' in open(demo).read() and 'def test_' in open(demo).read() and '__main__' not in open(demo).read():
    cmd = [PY, '-m', 'pytest', '-q', '-p', 'no:cacheprovider', demo]
  else:
    cmd = [PY, demo]
  try:
    p = sh(cmd, cwd=wt, env=env, timeout=timeout)
    return p.returncode, (p.stdout + p.stderr)[-1500:]
  except subprocess.TimeoutExpired:
    return 124, 'timeout'


def suite(wt):
  junit = os.path.join(wt, 'junit.xml')
  env = dict(os.environ, PYTHONDONTWRITEBYTECODE='1', JAX_PLATFORMS='cpu')
  p = sh([PY, '-m', 'pytest', '-q', '-p', 'no:cacheprovider', '--timeout=3000',
          '--continue-on-collection-errors', '-n', '8', f'--junitxml={junit}'], cwd=wt, env=env,
         timeout=3600)
  tail = (p.stdout + p.stderr).strip().splitlines()[-1:]
  failed = []
  passed = 0
  import xml.etree.ElementTree as ET
  try:
    for tc in ET.parse(junit).getroot().iter('testcase'):
      if not any(ch.tag in ('failure', 'error', 'skipped') for ch in tc):
        passed += 1
      if any(ch.tag in ('failure', 'error') for ch in tc):
        cls = tc.get('classname', '')
        mod, _, k = cls.rpartition('.')
        failed.append(f"{mod.replace('.', '/')}.py::{k}::{tc.get('name')}")
  except Exception as e:  # pylint: disable=broad-except
    failed.append(f'junit parse error {e}')
  new_fail = [f for f in failed if f not in KNOWN_FAIL and 'regrid_test' not in f]
  dist = [f for f in new_fail if 'test_distributed_simulation_consistency' in f]
  if dist:
    # that test only gets its 8 CPU devices when jax_numpy_utils_test is imported in the same
    # process (the baseline runs serially); under xdist it depends on the distribution. Re-run the
    # two files together in one process.
    q = sh([PY, '-m', 'pytest', '-q', '-p', 'no:cacheprovider', '--timeout=3000',
            'dinosaur/jax_numpy_utils_test.py', 'dinosaur/primitive_equations_integration_test.py'],
           cwd=wt, env=env, timeout=3600)
    if q.returncode == 0:
      new_fail = [f for f in new_fail if f not in dist]
      passed += len(dist)
  if passed < 395:
    new_fail.append(f'only {passed} tests passed (< 395 baseline)')
  return {'summary': tail, 'passed': passed, 'unexpected_failures': new_fail}


def validate(pid, src, with_suite=True):
  wt = tempfile.mkdtemp(prefix=f'seedval-{pid}-')
  os.rmdir(wt)
  out = {'property': pid, 'src': src}
  try:
    r = sh(['git', '-C', '/repo', 'worktree', 'add', '-q', '--detach', wt, 'HEAD'])
    if r.returncode:
      out['error'] = r.stderr
      return out
    demo = os.path.join(src, 'demo.py')
    rc, txt = run_demo(wt, demo)
    out['demo_clean'] = rc
    if rc != 0:
      out['demo_clean_out'] = txt
    r = sh(['git', '-C', wt, 'apply', os.path.join(src, 'patch.diff')])
    out['apply'] = r.returncode
    if r.returncode:
      out['apply_err'] = r.stderr[-500:]
      return out
    out['diffstat'] = sh(['git', '-C', wt, 'diff', '--stat']).stdout.strip().splitlines()[-1:]
    rc, txt = run_demo(wt, demo)
    out['demo_changed'] = rc
    out['demo_changed_out'] = txt[-600:]
    if with_suite:
      out['suite'] = suite(wt)
    out['valid'] = (out['demo_clean'] == 0 and out['demo_changed'] not in (0, 124)
                    and (not with_suite or not out['suite']['unexpected_failures']))
    return out
  finally:
    sh(['git', '-C', '/repo', 'worktree', 'remove', '--force', wt])
    shutil.rmtree(wt, ignore_errors=True)


def run(pid, patch, tier='quick', props=None, inplace=False):
  """inplace=False: patched scratch copy + VERIF_REPO (safe while others use /repo);
  inplace=True: git apply in /repo, run, git checkout -- . (the protocol of the brief)."""
  props = props or [pid]
  res = {}
  env = dict(os.environ, VP_NO_EVIDENCE='1')
  tmp = None
  if inplace:
    st = sh(['git', '-C', '/repo', 'status', '--porcelain', '--untracked-files=no']).stdout.strip()
    if st:
      sys.exit(f'/repo is not clean:\n{st}')
    r = sh(['git', '-C', '/repo', 'apply', patch])
    if r.returncode:
      sys.exit(f'patch does not apply: {r.stderr}')
  else:
    tmp = tempfile.mkdtemp(prefix=f'seedrun-{pid}-')
    dst = os.path.join(tmp, 'repo')
    shutil.copytree('/repo', dst, ignore=shutil.ignore_patterns('.git', '__pycache__', '*.pyc', 'notebooks', '*.png'))
    r = sh(['patch', '-p1', '-s', '--no-backup-if-mismatch', '-i', os.path.abspath(patch)], cwd=dst)
    if r.returncode:
      shutil.rmtree(tmp, ignore_errors=True)
      sys.exit(f'patch does not apply: {r.stdout}{r.stderr}')
    env['VERIF_REPO'] = dst
    env['VP_REPLAY_DIR'] = os.path.join(tmp, 'replays')
  try:
    for p in props:
      t0 = time.time()
      q = sh([os.path.join(HERE, 'check'), p, tier], env=env)
      lines = (q.stdout + q.stderr).splitlines()
      first = next((l.strip()[:300] for l in lines if l.strip().startswith('violation monitor=')), '')
      res[p] = {'exit': q.returncode, 'wall': round(time.time() - t0), 'first': first,
                'tail': lines[-3:]}
  finally:
    if inplace:
      sh(['git', '-C', '/repo', 'checkout', '--', '.'])
    if tmp:
      shutil.rmtree(tmp, ignore_errors=True)
  return res


if __name__ == '__main__':
  if sys.argv[1] == 'validate':
    print(json.dumps(validate(sys.argv[2], sys.argv[3], '--no-suite' not in sys.argv), indent=1))
  elif sys.argv[1] == 'run':
    args = [a for a in sys.argv[2:] if a != '--inplace']
    tier = args[2] if len(args) > 2 else 'quick'
    print(json.dumps(run(args[0], args[1], tier, args[3:] or None, '--inplace' in sys.argv), indent=1))
