from common import *
rng = np.random.default_rng(3)
specs = pe.PrimitiveEquationsSpecs.from_si()
def mk(mesh_shape, nl, M=21, equi=True, seed=0):
  if mesh_shape is None: mesh=None
  else:
    n = int(np.prod(mesh_shape)); devices = np.array(jax.devices()[:n]).reshape(mesh_shape)
    mesh = jax.sharding.Mesh(devices, axis_names=['z','x','y'])
  vert = sc.SigmaCoordinates.equidistant(nl) if equi else rand_sigma(np.random.default_rng(seed), nl)
  grid = sh.Grid.with_wavenumbers(M+1, spherical_harmonics_impl=sh.FastSphericalHarmonics, radius=specs.radius)
  return cs.CoordinateSystem(grid, vert, spmd_mesh=mesh)
def pad(x, c0, c1):
  p = tuple(b-a for a,b in zip(c0.horizontal.modal_shape, c1.horizontal.modal_shape))
  return pu.tree_map_over_nonscalars(lambda a: jnp.pad(a, [(0,0)]*(a.ndim-2)+[(0,p[0]),(0,p[1])]), x)
def trim(x, c0):
  s = c0.horizontal.modal_shape
  return pu.tree_map_over_nonscalars(lambda a: a[..., :s[0], :s[1]], x)
nl=8
c0 = mk(None, nl, equi=False)
st = rand_state(rng, c0, 20, tracers=('specific_humidity',), with_time=True)
tref = 250+20*rng.standard_normal(nl)
oro = rand_modal(rng, c0.horizontal, (), 8, 0.01)
def run(c, st, oro):
  eq = pe.MoistPrimitiveEquations(tref, oro, c, specs)
  dt = specs.nondimensionalize(20*units.minute)
  step = ti.imex_rk_sil3(eq, dt)
  f = jax.jit(ti.repeated(step, 3))
  t0=time.time(); out = f(st); jax.block_until_ready(out); t=time.time()-t0
  return out, t
ref, t = run(c0, st, oro); print('unsharded', t)
for ms in [(2,1,1),(1,2,1),(1,1,2),(1,2,2),(2,2,2),(4,1,2),(8,1,1),(1,4,2),(1,2,4)]:
  try:
    c = mk(ms, nl, equi=False)
    out, t = run(c, pad(st, c0, c), pad(oro, c0, c))
    out = trim(out, c0)
    errs = [float(np.abs(np.asarray(a)-np.asarray(b)).max()/(np.abs(np.asarray(b)).max()+1e-300)) for a,b in zip(jax.tree_util.tree_leaves(out), jax.tree_util.tree_leaves(ref))]
    print(ms, c.horizontal.modal_shape, c.horizontal.nodal_shape, 'max rel err %.2e'%max(errs), 'finite', all(np.isfinite(np.asarray(a)).all() for a in jax.tree_util.tree_leaves(out)), '%.1fs'%t)
  except Exception as e:
    print(ms, 'EXC', type(e).__name__, str(e)[:300])
