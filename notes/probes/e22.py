from common import *
import peref
rng = np.random.default_rng(4)
specs = pe.PrimitiveEquationsSpecs.from_si()
d = 5   # state degree
for impl, moist in [(sh.RealSphericalHarmonics, False), (sh.FastSphericalHarmonics, True)]:
  grid = sh.Grid.T21(radius=specs.radius, spherical_harmonics_impl=impl)
  K=4; vert = rand_sigma(rng, K); coords = cs.CoordinateSystem(grid, vert)
  tref = 250+30*rng.standard_normal(K)
  oro = rand_modal(rng, grid, (), d, 0.01)
  tracers = ('specific_humidity','foo') if moist else ('foo',)
  st = rand_state(rng, coords, d, tracers=tracers, with_time=moist)
  eq = (pe.MoistPrimitiveEquations if moist else pe.PrimitiveEquations)(tref, oro, coords, specs)
  tend = eq.explicit_terms(st) + eq.implicit_terms(st)
  # reference
  Lout = 21   # compare coefficients with l <= L-2
  t0=time.time()
  sr = peref.SphRef(lmax=Lout, nlat=40, nlon=80)
  keys = [k for k in sr.Y.keys()]
  Tabs = np.array(st.temperature_variation); Tabs[:,0,0] += tref*np.sqrt(4*np.pi)
  state = dict(vorticity=np.asarray(st.vorticity), divergence=np.asarray(st.divergence), temperature=Tabs, lsp=np.asarray(st.log_surface_pressure), tracers={n: np.asarray(v) for n,v in st.tracers.items()})
  ref = peref.reference_tendency(sr, grid, vert.boundaries, state, np.asarray(oro), specs.R, specs.kappa, specs.g, specs.angular_velocity, specs.radius, keys,
        moist=dict(Rv=specs.R_vapor, cpv=specs.Cp_vapor) if moist else None)
  print('ref time %.1fs'%(time.time()-t0))
  def cmp(arr, refd):
    worst=0; scale=0
    for i in range(arr.shape[0]):
      for j in range(arr.shape[1]):
        if grid.mask[i,j] and grid.modal_axes[1][j] <= Lout:
          k = peref.key_of_index(grid,i,j)
          if k in refd: worst=max(worst, abs(arr[i,j]-refd[k])); scale=max(scale, abs(refd[k]))
    return worst, scale
  for k in range(K):
    for name, fld in [('vorticity',tend.vorticity),('divergence',tend.divergence),('temperature',tend.temperature_variation)]:
      w,s = cmp(np.asarray(fld[k]), ref[name][k]); print(impl.__name__[:4], 'lev',k,name.ljust(12),'err %.2e scale %.2e'%(w,s))
    for n in st.tracers:
      w,s = cmp(np.asarray(tend.tracers[n][k]), ref['tracers'][n][k]); print('   tracer',n,'err %.2e scale %.2e'%(w,s))
  w,s = cmp(np.asarray(tend.log_surface_pressure[0]), ref['lsp']); print('lsp err %.2e scale %.2e'%(w,s))
