from common import *
from dinosaur import horizontal_interpolation as hi
rng = np.random.default_rng(0)
bad=0; tot=0
for ns in range(2,9):
  for nt in range(2,9):
    for off_s, off_t in [(0,0),(0,1.32),(0.7,0),(2.0,5.5),(3.1,0.1)]:
      s = np.linspace(0,2*np.pi,ns,endpoint=False)+off_s; t = np.linspace(0,2*np.pi,nt,endpoint=False)+off_t
      O = np.asarray(hi._longitude_overlap(t, s))   # (target, source)
      tot+=1
      ok = np.allclose(O.sum(1), 2*np.pi/nt) and np.allclose(O.sum(0), 2*np.pi/ns)
      if not ok:
        bad+=1; print('ns',ns,'nt',nt,off_s,off_t,'row sums',np.round(O.sum(1)/(2*np.pi/nt),3),'col sums',np.round(O.sum(0)/(2*np.pi/ns),3))
print(bad, tot)
