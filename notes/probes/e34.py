from common import *
from dinosaur import vertical_interpolation as vi
rng = np.random.default_rng(5)
# ---- C15
bad=0; n=0
for gkw in [dict(longitude_wavenumbers=8,total_wavenumbers=9,longitude_nodes=25,latitude_nodes=13), dict(longitude_wavenumbers=22,total_wavenumbers=23,longitude_nodes=64,latitude_nodes=32)]:
  for impl in (sh.RealSphericalHarmonics, sh.FastSphericalHarmonics, lambda **kw: sh.FastSphericalHarmonics(base_shape_multiple=8, **kw)):
    g = sh.Grid(spherical_harmonics_impl=impl, radius=rng.uniform(0.5,3), **gkw)
    ones = jnp.ones(g.modal_shape)
    l = g.modal_axes[1]; valid = np.arange(g.modal_shape[1]) < g.total_wavenumbers
    for trial in range(40):
      a = 10**rng.uniform(-1,1.6); p = int(rng.integers(1,20)); c = rng.uniform(0,0.9) if rng.random()<0.7 else 0.0
      dt = 10**rng.uniform(-3,-1); tau = 10**rng.uniform(-3,0); od = int(rng.integers(1,4))
      for name, mk in [('exp', lambda s=1.0: filtering.exponential_filter(g, a*s, p, c)), ('estep', lambda s=1.0: (lambda x: ti.exponential_step_filter(g, dt*s, tau, p, c)(None, x))),
                       ('dstep', lambda s=1.0: (lambda x: ti.horizontal_diffusion_step_filter(g, dt*s, tau, od)(None, x)))]:
        n+=1
        with np.errstate(all='ignore'):
          f = np.asarray(mk()(ones)); 
        fv = f[:, valid]
        rowsame = np.abs(fv - fv[0:1]).max() == 0
        ok = np.isfinite(f).all() and (fv>0).all() and (fv<=1).all() and fv[0,0]==1 and (np.diff(fv[0])<=1e-15).all() and rowsame
        if name != 'exp':
          with np.errstate(all='ignore'):
            h = np.asarray(mk(0.5)(mk(0.5)(ones)))
          ok = ok and np.abs(h-f)[:,valid].max() < 1e-12
        if not ok:
          bad+=1
          if bad<6: print('BAD', name, g.modal_shape, g.modal_padding, dict(a=a,p=p,c=c,dt=dt,tau=tau,od=od), 'finite', np.isfinite(f).all(), 'min', fv.min() if np.isfinite(fv).all() else None)
print('C15 filters', n, 'bad', bad)
# RA filter
ra = ti.robert_asselin_leapfrog_filter(0.07)
p0, c0, f0 = [jnp.asarray(rng.standard_normal(5)) for _ in range(3)]
lin = [jnp.asarray(2.0+0.5*t+np.zeros(3)) for t in (0,1,2)]
out = ra((lin[0],lin[1]), (lin[1],lin[2])); print('RA linear unchanged', float(jnp.abs(out[0]-lin[1]).max()), float(jnp.abs(out[1]-lin[2]).max()))
# ---- C16 vertical
worst=0
for hyb in (vi.HybridCoordinates.ECMWF137(), vi.HybridCoordinates.UFS127()):
  for trial in range(5):
    sig = rand_sigma(rng, int(rng.integers(1,33)))
    sp = rng.uniform(500,1080,(3,4))
    fld = rng.standard_normal((hyb.layers,3,4))
    out = np.asarray(vi.regrid_hybrid_to_sigma(fld, hyb, sig, sp))
    for i in range(3):
      for j in range(4):
        hb = hyb.a_boundaries/sp[i,j]+hyb.b_boundaries; tb = sig.boundaries
        O = np.maximum(np.minimum(tb[1:,None], hb[None,1:]) - np.maximum(tb[:-1,None], hb[None,:-1]), 0)
        cov = O.sum(1); ov = O.sum(0)
        okrows = cov>0
        lhs = (out[okrows,i,j]*cov[okrows]).sum(); rhs = (fld[:,i,j]*ov).sum()
        worst = max(worst, abs(lhs-rhs)/ (abs(rhs)+1e-3))
        assert (out[okrows,i,j] <= fld[:,i,j].max()+1e-12).all() and (out[okrows,i,j] >= fld[:,i,j].min()-1e-12).all()
        if (~okrows).any(): assert np.isnan(out[~okrows,i,j]).all()
print('C16 vertical conservation worst rel %.1e'%worst)
# ---- C17 sigma<->pressure round trip on affine-in-pressure column
sig = rand_sigma(rng, 12); pc = vi.PressureCoordinates(np.array([50.,100,200,300,500,700,850,925,1000]))
sp = rng.uniform(900,1050,(1,3,4))
p_sig = sig.centers[:,None,None]*sp
col = 3.0 + 0.01*p_sig
onp = vi.interp_sigma_to_pressure(col, pc, sig, sp)
ref = 3.0+0.01*pc.centers[:,None,None]*np.ones((1,3,4))
m = ~np.isnan(np.asarray(onp)); print('sigma->pressure affine err %.1e'%np.abs(np.asarray(onp)[m]-np.broadcast_to(ref,onp.shape)[m]).max(), 'nan frac', 1-m.mean())
back = vi.interp_pressure_to_sigma(ref, pc, sig, sp)
m = ~np.isnan(np.asarray(back)); print('pressure->sigma affine err %.1e'%np.abs(np.asarray(back)[m]-col[m]).max(), 'nan frac', 1-m.mean())
# surface pressure
geo = (2.0e4 - 15.0*pc.centers)[:,None,None]*np.ones((1,3,4)); oro = rng.uniform(0,300,(1,3,4)); gacc=9.8
ps = vi.get_surface_pressure(pc, geo, oro, gacc)
print('surface pressure err %.1e'%np.abs(np.asarray(ps) - (2.0e4-oro*gacc)/15.0).max())
