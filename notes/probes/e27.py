from common import *
rng = np.random.default_rng(8)
def f(c, x):
  c2 = {'a': jnp.sin(c['a'])*x['p'] + c['b'], 'b': c['b']*0.9 + x['q'].sum()}
  return c2, {'o': c2['a']*2, 'z': x['q']+c['b']}
n=12
xs = {'p': jnp.asarray(rng.standard_normal((n,3))), 'q': jnp.asarray(rng.standard_normal((n,2)))}
init = {'a': jnp.asarray(rng.standard_normal(3)), 'b': jnp.asarray(0.3)}
def loss(scan):
  def L(init, xs):
    c, out = scan(f, init, xs)
    return jnp.sum(c['a']**2)+c['b'] + jnp.sum(out['o']*out['z'][:, :1])
  return L
flat = lambda f,i,x: jax.lax.scan(f,i,x)
ref_c, ref_o = flat(f, init, xs); gref = jax.grad(loss(flat), argnums=(0,1))(init, xs)
for nl in [(12,),(3,4),(4,3),(2,2,3),(2,3,2),(1,12),(12,1),(2,1,6)]:
  sc_ = lambda f,i,x: ti.nested_checkpoint_scan(f,i,x,nested_lengths=nl)
  c,o = sc_(f, init, xs)
  g = jax.grad(loss(sc_), argnums=(0,1))(init, xs)
  ev = max(float(jnp.abs(a-b).max()) for a,b in zip(jax.tree_util.tree_leaves((c,o)), jax.tree_util.tree_leaves((ref_c,ref_o))))
  eg = max(float(jnp.abs(a-b).max()) for a,b in zip(jax.tree_util.tree_leaves(g), jax.tree_util.tree_leaves(gref)))
  print(nl, 'values %.1e grads %.1e'%(ev, eg))
# trajectory_from_step
step = lambda s: {'x': s['x']*1.1+1, 'k': s['k']+1}
for outer, inner, swi in [(1,1,False),(3,1,True),(2,3,False),(2,3,True),(4,2,True),(1,5,False)]:
  fin, traj = ti.trajectory_from_step(step, outer, inner, start_with_input=swi)({'x': jnp.asarray(2.0), 'k': jnp.asarray(0)})
  print(outer, inner, swi, 'final k', int(fin['k']), 'frames k', np.asarray(traj['k']))
