from common import *
from dinosaur import horizontal_interpolation as hi, vertical_interpolation as vi
rng = np.random.default_rng(7)
def grid(nlon, nlat, spacing, off):
  return sh.Grid(longitude_wavenumbers=0,total_wavenumbers=0,longitude_nodes=nlon, latitude_nodes=nlat, latitude_spacing=spacing, longitude_offset=off)
def cell_areas(g):
  lat = g.latitudes; b = np.concatenate([[-np.pi/2], (lat[:-1]+lat[1:])/2, [np.pi/2]])
  wl = np.diff(np.sin(b)); return np.full(g.longitude_nodes, 2*np.pi/g.longitude_nodes)[:,None]*wl[None,:]
worst = 0
for trial in range(60):
  s = grid(int(rng.integers(3,40)), int(rng.integers(2,30)), rng.choice(['gauss','equiangular','equiangular_with_poles']), float(rng.uniform(0,2*np.pi) if rng.random()<0.6 else 0))
  t = grid(int(rng.integers(3,40)), int(rng.integers(2,30)), rng.choice(['gauss','equiangular','equiangular_with_poles']), float(rng.uniform(0,2*np.pi) if rng.random()<0.6 else 0))
  r = hi.ConservativeRegridder(s, t)
  lw, aw = np.asarray(r.lon_weights), np.asarray(r.lat_weights)
  f = rng.standard_normal(s.nodal_shape)
  out = np.asarray(r(f))
  rows = max(np.abs(lw.sum(1)-1).max(), np.abs(aw.sum(1)-1).max())
  neg = min(lw.min(), aw.min())
  cons = abs((out*cell_areas(t)).sum() - (f*cell_areas(s)).sum())
  bounds = max(out.max()-f.max(), f.min()-out.min())
  const = np.abs(np.asarray(r(np.full(s.nodal_shape, 3.5)))-3.5).max()
  bad = rows>1e-12 or neg<0 or cons>1e-10 or bounds>1e-12 or const>1e-12 or not np.isfinite(out).all()
  if bad: print('BAD', s.nodal_shape, s.latitude_spacing, '%.2f'%s.longitude_offset, '->', t.nodal_shape, t.latitude_spacing, '%.2f'%t.longitude_offset, 'rows %.1e neg %.1e cons %.1e bounds %.1e const %.1e'%(rows,neg,cons,bounds,const))
print('done')
