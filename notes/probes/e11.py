from common import *
rng = np.random.default_rng(5)
for n in (1,2,5):
  c = rand_sigma(rng, n); T = rng.standard_normal((n,3,4)); R=287.
  gd = pe.get_geopotential_diff(T, c, R, 'dense')
  li = R*sc.cumulative_log_sigma_integral(T, c, downward=False)
  print(n, np.abs(gd-li).max(), np.abs(gd).max())
