import os, sys, time
os.environ.setdefault('XLA_FLAGS','--xla_force_host_platform_device_count=8')
import jax
jax.config.update('jax_enable_x64', os.environ.get('X64','1')=='1')
import jax.numpy as jnp, numpy as np
from dinosaur import spherical_harmonic as sh, primitive_equations as pe, sigma_coordinates as sc, coordinate_systems as cs, time_integration as ti, filtering, pytree_utils as pu, scales, shallow_water as sw, layer_coordinates as lc
units = scales.units
DT = np.float64 if jax.config.jax_enable_x64 else np.float32

def rand_sigma(rng, n):
  w = rng.uniform(0.3, 1.7, n); b = np.concatenate([[0], np.cumsum(w)/w.sum()]); b[-1]=1.0
  return sc.SigmaCoordinates(b)

def rand_modal(rng, grid, lead, lmax, amp=1.0, zero_mean=False):
  m, l = grid.modal_mesh
  mask = grid.mask & (l <= lmax)
  x = rng.standard_normal(lead + grid.modal_shape) * mask * amp / (1.0 + l)
  if zero_mean: x[..., 0, 0] = 0; 
  return x.astype(DT)

def rand_state(rng, coords, lmax, tracers=(), amp=1.0, with_time=False):
  g = coords.horizontal; n = coords.vertical.layers
  # amplitudes: vorticity ~ 0.1 (nondim 2Omega=1), divergence ~0.02, T' ~ 10K, lnps ~ 0.05
  kw = dict(
    vorticity=rand_modal(rng, g, (n,), lmax, 0.3*amp, True),
    divergence=rand_modal(rng, g, (n,), lmax, 0.05*amp, True),
    temperature_variation=rand_modal(rng, g, (n,), lmax, 20*amp),
    log_surface_pressure=rand_modal(rng, g, (1,), lmax, 0.1*amp),
    tracers={k: rand_modal(rng, g, (n,), lmax, 0.01*amp) for k in tracers})
  if with_time: return pe.StateWithTime(sim_time=0.0, **kw)
  return pe.State(**kw)
