from common import *
rng = np.random.default_rng(5)
specs = pe.PrimitiveEquationsSpecs.from_si()
a = specs.radius; Om = specs.angular_velocity; R = specs.R; g=specs.g
for impl in (sh.RealSphericalHarmonics, sh.FastSphericalHarmonics):
  grid = sh.Grid.T21(radius=a, spherical_harmonics_impl=impl)
  K=5; vert = rand_sigma(rng, K); coords = cs.CoordinateSystem(grid, vert)
  lon, sinlat = grid.nodal_mesh
  Tk = 250+30*rng.standard_normal(K)          # absolute temperature per level
  qk = 0.01*rng.uniform(0.2,1,K)              # uniform humidity per level
  eps = specs.R_vapor/R - 1
  C = 0.08                                     # lnps = c0 - C/2 sin^2(lat)
  Tv = Tk*(1+eps*qk)
  # a^2 w (w + 2 Om) = R Tv C  -> w
  wk = -Om + np.sqrt(Om**2 + R*Tv*C/a**2)
  zeta_n = np.stack([2*w*sinlat for w in wk]); lsp_n = (0.3 - C/2*sinlat**2)[None]
  tref = 250+20*rng.standard_normal(K)
  Tvar_n = np.stack([np.full_like(sinlat, Tk[k]-tref[k]) for k in range(K)])
  q_n = np.stack([np.full_like(sinlat, qk[k]) for k in range(K)])
  st = pe.StateWithTime(grid.to_modal(zeta_n), 0*grid.to_modal(zeta_n), grid.to_modal(Tvar_n), grid.to_modal(lsp_n), 0.0, {'specific_humidity': grid.to_modal(q_n)})
  eq = pe.MoistPrimitiveEquations(tref, np.zeros(grid.modal_shape), coords, specs)
  t = eq.explicit_terms(st)+eq.implicit_terms(st)
  canc = float(jnp.abs(grid.laplacian(R*Tv[:,None,None]*st.log_surface_pressure)).max())
  print(impl.__name__[:4], {f: '%.1e'%float(jnp.abs(getattr(t,f)).max()) for f in ('vorticity','divergence','temperature_variation','log_surface_pressure')}, 'q %.1e'%float(jnp.abs(t.tracers['specific_humidity']).max()), 'cancelling %.1e'%canc, 'winds m/s', (wk*a*6.37e6*1.458e-4/a).round(1))
  # rest isothermal over orography, moist
  oro = grid.clip_wavenumbers(jnp.asarray(rand_modal(rng, grid, (), 15, 3e-4)))
  T0=270.; q0=0.008; Tv0 = T0*(1+eps*q0)
  lsp = -g*oro/(R*Tv0); lsp = lsp.at[0,0].add(0.2*np.sqrt(4*np.pi))
  one = np.zeros((K,)+grid.modal_shape); one[:,0,0]=np.sqrt(4*np.pi)
  st = pe.StateWithTime(0*one, 0*one, one*(T0-tref)[:,None,None], lsp[None], 0.0, {'specific_humidity': one*q0})
  eq = pe.MoistPrimitiveEquations(tref, oro, coords, specs)
  t = eq.explicit_terms(st)+eq.implicit_terms(st)
  print('   rest', {f: '%.1e'%float(jnp.abs(getattr(t,f)).max()) for f in ('vorticity','divergence','temperature_variation','log_surface_pressure')}, 'cancelling %.1e'%float(jnp.abs(g*grid.laplacian(oro)).max()))
