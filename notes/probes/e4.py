from common import *
rng = np.random.default_rng(1)
specs = pe.PrimitiveEquationsSpecs.from_si()
for impl in (sh.RealSphericalHarmonics, sh.FastSphericalHarmonics):
  grid = sh.Grid.T21(spherical_harmonics_impl=impl, radius=specs.radius)
  vert = rand_sigma(rng, 6)
  coords = cs.CoordinateSystem(grid, vert)
  oro = rand_modal(rng, grid, (), 10, 0.05)
  for lmax in (6, 12, 21):
    st = rand_state(rng, coords, lmax)
    Tabs_mean = 250.
    res = {}
    for name, tref in [('const', np.full(6, 250.)), ('lin', np.linspace(220, 290, 6)), ('rnd', 250+30*rng.standard_normal(6))]:
      eq = pe.PrimitiveEquations(tref, oro, coords, specs)
      # same physical atmosphere: T' = T - tref  -> shift (0,0) coefficient
      T00 = np.sqrt(4*np.pi)   # constant normalisation (radius-independent?) 
      s2 = pe.State(st.vorticity, st.divergence, st.temperature_variation.copy(), st.log_surface_pressure, {})
      tv = np.array(st.temperature_variation); tv[:,0,0] += (Tabs_mean - tref)*np.sqrt(4*np.pi)
      s2 = pe.State(st.vorticity, st.divergence, tv, st.log_surface_pressure, {})
      t0=time.time()
      f = jax.jit(lambda s: eq.explicit_terms(s) + eq.implicit_terms(s))
      out = f(s2); jax.block_until_ready(out); t1=time.time()-t0
      t0=time.time(); out = f(s2); jax.block_until_ready(out); t2=time.time()-t0
      res[name]=out
    for a,b in [('const','lin'),('const','rnd')]:
      for fld in ('vorticity','divergence','temperature_variation','log_surface_pressure'):
        A=np.asarray(getattr(res[a],fld)); B=np.asarray(getattr(res[b],fld))
        print(impl.__name__[:4], 'lmax',lmax, a,b, fld.ljust(22), 'diff %.2e'%np.abs(A-B).max(), 'scale %.2e'%np.abs(A).max())
    print('compile+run %.2fs run %.4fs'%(t1,t2))
