from common import *
rng = np.random.default_rng(2)
specs = pe.PrimitiveEquationsSpecs.from_si()
grid = sh.Grid.T21(radius=specs.radius)
for nl, equi in [(1,True),(2,False),(5,True),(5,False),(9,False)]:
  vert = sc.SigmaCoordinates.equidistant(nl) if equi else rand_sigma(rng, nl)
  coords = cs.CoordinateSystem(grid, vert)
  tref = 250+30*rng.standard_normal(nl)
  eq = pe.PrimitiveEquations(tref, rand_modal(rng, grid, (), 5, 0.01), coords, specs)
  st = rand_state(rng, coords, 21, tracers=('q',))
  for eta in (0.01, -0.02, 0.3, 5.0):
    for mm in ('dense','sparse'):
      eq.vertical_matmul_method = mm
      y = st - eta*eq.implicit_terms(st)
      for meth in ('split','stacked','blockwise'):
        back = eq.implicit_inverse(y, eta, method=meth)
        err = max(np.abs(np.asarray(a)-np.asarray(b)).max()/ (np.abs(np.asarray(b)).max()+1e-300) for a,b in zip(jax.tree_util.tree_leaves(back), jax.tree_util.tree_leaves(st)))
        print(nl, 'equi' if equi else 'rand', 'eta',eta, mm, meth, 'rel err %.2e'%err)
