from common import *
import dataclasses
from dinosaur import xarray_utils as xu, vertical_interpolation as vi
import xarray, tempfile
rng = np.random.default_rng(3)
g = sh.Grid(longitude_wavenumbers=6,total_wavenumbers=8,longitude_nodes=17,latitude_nodes=9,latitude_spacing='equiangular',longitude_offset=0.37,radius=2.5, spherical_harmonics_impl=sh.FastSphericalHarmonics)
for vert in [rand_sigma(rng,4), lc.LayerCoordinates(3), vi.PressureCoordinates([100.,300,850])]:
  c = cs.CoordinateSystem(g, vert)
  d = c.asdict()
  r = xu.coordinate_system_from_attrs(d)
  print(type(vert).__name__, r.horizontal == dataclasses.replace(c.horizontal, spherical_harmonics_impl=sh.RealSphericalHarmonics) if False else '', r.vertical == c.vertical, {k:(getattr(r.horizontal,k)==getattr(c.horizontal,k)) for k in ['longitude_wavenumbers','total_wavenumbers','longitude_nodes','latitude_nodes','latitude_spacing','longitude_offset','radius']})
  # through netcdf
  n = c.vertical.layers
  st = {'vorticity': rng.standard_normal((3,n)+c.horizontal.modal_shape).astype(np.float32), 'divergence': rng.standard_normal((3,n)+c.horizontal.modal_shape).astype(np.float32),
        'temperature_variation': rng.standard_normal((3,n)+c.horizontal.modal_shape).astype(np.float32), 'log_surface_pressure': rng.standard_normal((3,1)+c.horizontal.modal_shape).astype(np.float32),
        'tracers': {'q': rng.standard_normal((3,n)+c.horizontal.modal_shape).astype(np.float32)}}
  try:
    ds = xu.data_to_xarray(st, coords=c, times=np.arange(3.0))
    print({k: ds[k].dims for k in ds})
    back = xu.xarray_to_primitive_eq_data(ds, tracers_to_include=['q'])
    print('bit identical', all(np.array_equal(back[k], st[k]) for k in st if k!='tracers') and np.array_equal(back['tracers']['q'], st['tracers']['q']))
    with tempfile.TemporaryDirectory() as td:
      p = td+'/x.nc'; xu.save_netcdf(ds, p); ds2 = xu.open_netcdf(p)
      r2 = xu.coordinate_system_from_attrs(ds2.attrs)
      print('netcdf attrs roundtrip vertical', r2.vertical == c.vertical, 'radius', r2.horizontal.radius, type(r2.horizontal.longitude_nodes))
      back2 = xu.xarray_to_primitive_eq_data(ds2, tracers_to_include=['q'])
      print('netcdf bit identical', all(np.array_equal(back2[k], st[k]) for k in st if k!='tracers'))
  except Exception as e:
    import traceback; traceback.print_exc()
