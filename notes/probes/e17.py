from common import *
from dinosaur import held_suarez as hs, radiation as rad
rng = np.random.default_rng(3)
specs = pe.PrimitiveEquationsSpecs.from_si()
grid = sh.Grid.T21(radius=specs.radius)
vert = rand_sigma(rng, 7); coords = cs.CoordinateSystem(grid, vert)
tref = 250+20*rng.standard_normal(7)
f = hs.HeldSuarezForcing(coords, specs, tref)
st = rand_state(rng, coords, 20)
out = f.explicit_terms(st)
kv = f.kv()
print('kv', kv.ravel(), 'kt min', f.kt().min())
print('vort drag err %.2e'%np.abs(np.asarray(out.vorticity) + kv*np.asarray(st.vorticity)).max(), 'scale %.2e'%np.abs(kv*np.asarray(st.vorticity)).max())
print('div drag err %.2e'%np.abs(np.asarray(out.divergence) + kv*np.asarray(st.divergence)).max())
print('lsp', np.abs(np.asarray(out.log_surface_pressure)).max())
# temperature relaxation: nodal check
Tn = tref[:,None,None] + np.asarray(grid.to_nodal(st.temperature_variation))
ps = np.exp(np.asarray(grid.to_nodal(st.log_surface_pressure)))
Teq = np.asarray(f.equilibrium_temperature(ps))
print('Teq min', Teq.min(), 'minT', f.minT)
ref = grid.to_modal(-f.kt()*(Tn-Teq))
print('T relax err %.2e'%np.abs(np.asarray(out.temperature_variation)-np.asarray(ref)).max())
# radiation
sr = rad.SolarRadiation(coords, specs, np.datetime64('1979-01-01'))
S0 = sr.total_solar_irradiance; dS = sr.solar_irradiance_variation
for t in [0.0, 10.3, 1234.5, 98765.4]:
  fl = np.asarray(sr.radiation_flux(t))
  ot = sr.time_to_orbital_time(t)
  S = float(rad.get_direct_solar_irradiance(ot.orbital_phase, S0, dS))
  mean = float(grid.integrate(fl))/(4*np.pi*grid.radius**2)
  print(t, 'min', fl.min(), 'max/peri', fl.max()/(S0+dS), 'mean/(S/4)', mean/(S/4))
