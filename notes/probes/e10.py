from common import *
rng = np.random.default_rng(5)
for n in (1,2,3,7):
  for equi in (True, False):
    c = sc.SigmaCoordinates.equidistant(n) if equi else rand_sigma(rng, n)
    x = rng.standard_normal((n,3,4)).astype(DT)
    try:
      tot = sc.sigma_integral(x, c)
      for meth in ('dot','jax'):
        dn = sc.cumulative_sigma_integral(x, c, downward=True, cumsum_method=meth)
        up = sc.cumulative_sigma_integral(x, c, downward=False, cumsum_method=meth)
        loc = x*c.layer_thickness[:,None,None]
        e1 = np.abs(dn[-1:]-tot).max(); e2 = np.abs(dn+up-tot-loc).max()
        print(n, equi, meth, 'end=total %.1e'%e1, 'dn+up-total-local %.1e'%e2)
      # affine exactness of centered_difference
      aff = (2.0+3.0*c.centers)[:,None,None]*np.ones((n,3,4))
      d = sc.centered_difference(aff, c); print('  cdiff affine', d.shape, (np.abs(d-3.0).max() if d.size else 'empty'))
      # summation by parts
      w = rng.standard_normal((n-1,3,4)).astype(DT)
      adv = sc.centered_vertical_advection(w, x, c)
      wpad = np.concatenate([np.zeros((1,3,4)), w, np.zeros((1,3,4))])
      conv = -x*(wpad[1:]-wpad[:-1])/c.layer_thickness[:,None,None]
      col = ((adv+conv)*c.layer_thickness[:,None,None]).sum(0)
      print('  SBP column sum %.1e'%np.abs(col).max(), 'scale %.1e'%np.abs(adv).max() if adv.size else '')
      # geopotential = R * trapezoid in log sigma
      T = rng.standard_normal((n,3,4)).astype(DT)
      R=287.0
      gd = pe.get_geopotential_diff(T, c, R, 'dense'); gs = pe.get_geopotential_diff(T, c, R, 'sparse')
      li = -R*sc.cumulative_log_sigma_integral(T, c, downward=False)   # integral from surface up to centers: Phi = R * int_{sigma}^{1} T dlog sigma
      li2 = -R*sc.cumulative_log_sigma_integral(T, c, downward=False, cumsum_method='jax')
      print('  geopot dense-sparse %.1e'%np.abs(gd-gs).max(), 'dense vs logsigma integral %.1e'%np.abs(gd-li).max(), '%.1e'%np.abs(gd-li2).max())
    except Exception as e:
      print(n, equi, 'EXC', type(e).__name__, str(e)[:200])
for bad in ([0,0.5,0.5,1],[0,0.6,0.4,1],[0.1,0.5,1],[0,0.5,0.9],[0,1e-9,1],[1,0.5,0],[0,1],[0]):
  try: sc.SigmaCoordinates(bad); print(bad,'accepted')
  except Exception as e: print(bad, 'rejected', type(e).__name__)
