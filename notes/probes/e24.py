from common import *
from jax.experimental import checkify
rng = np.random.default_rng(3)
specs = pe.PrimitiveEquationsSpecs.from_si()
grid = sh.Grid.T21(radius=specs.radius, spherical_harmonics_impl=lambda **kw: sh.FastSphericalHarmonics(base_shape_multiple=8, **kw))
vert = rand_sigma(rng, 4); coords = cs.CoordinateSystem(grid, vert)
tref = 250+20*rng.standard_normal(4)
eq = pe.PrimitiveEquations(tref, rand_modal(rng, grid, (), 8, 0.01), coords, specs)
dt = specs.nondimensionalize(20*units.minute)
st = rand_state(rng, coords, 18)
for name, filt in [('exp', [ti.exponential_step_filter(grid, dt)]), ('diff', [ti.horizontal_diffusion_step_filter(grid, dt, tau=0.1, order=2)])]:
  step = ti.step_with_filters(ti.imex_rk_sil3(eq, dt), filt)
  fn = ti.repeated(step, 3)
  t0=time.time()
  err, out = jax.jit(checkify.checkify(fn, errors=checkify.float_checks))(st)
  print(name, 'checkify:', err.get(), '%.1fs'%(time.time()-t0))
  jax.config.update('jax_debug_nans', True)
  try:
    out = jax.jit(fn)(st); jax.block_until_ready(out); print(name, 'debug_nans: clean')
  except FloatingPointError as e:
    print(name, 'debug_nans fired:', str(e)[:150])
  jax.config.update('jax_debug_nans', False)
