from common import *
rng = np.random.default_rng(5)
# ---- C19 pytree utils
def rand_tree(rng, depth=0, shape_rule=None):
  r = rng.random()
  if depth>=3 or r<0.35:
    return shape_rule(rng)
  n = int(rng.integers(1,4))
  if rng.random()<0.5: return {('k%d'%i): rand_tree(rng, depth+1, shape_rule) for i in range(n)}
  return tuple(rand_tree(rng, depth+1, shape_rule) for i in range(n))
bad=0
for trial in range(200):
  # pack/unpack along axis -3 : leaves share all dims except axis
  base = (int(rng.integers(1,4)), int(rng.integers(1,4)))
  t = rand_tree(rng, 0, lambda r: jnp.asarray(r.standard_normal((int(r.integers(1,5)),)+base)))
  packed = pu.pack_pytree(t, axis=-3)
  back = pu.unpack_to_pytree(packed, pu.shape_structure(t), axis=-3)
  ok = jax.tree_util.tree_structure(back)==jax.tree_util.tree_structure(t) and all(np.array_equal(a,b) for a,b in zip(jax.tree_util.tree_leaves(back), jax.tree_util.tree_leaves(t)))
  # stack/unstack: identical shapes
  t2 = rand_tree(rng, 0, lambda r: jnp.asarray(r.standard_normal(base)))
  st = pu.stack_pytree(t2, axis=0); b2 = pu.unstack_to_pytree(st, pu.shape_structure(t2), axis=0)
  ok2 = all(np.array_equal(a,b) and a.shape==b.shape for a,b in zip(jax.tree_util.tree_leaves(b2), jax.tree_util.tree_leaves(t2)))
  # split/concat along axis
  t3 = rand_tree(rng, 0, lambda r: jnp.asarray(r.standard_normal((6,)+base)))
  k = int(rng.integers(0,7)); a_, b_ = pu.split_along_axis(t3, k, 0); c3 = pu.concat_along_axis([a_, b_], 0)
  ok3 = all(np.array_equal(a,b) for a,b in zip(jax.tree_util.tree_leaves(c3), jax.tree_util.tree_leaves(t3)))
  parts = pu.split_axis(t3, 0, keep_dims=True); c4 = pu.concat_along_axis(parts, 0)
  ok4 = all(np.array_equal(a,b) for a,b in zip(jax.tree_util.tree_leaves(c4), jax.tree_util.tree_leaves(t3)))
  if not (ok and ok2 and ok3 and ok4): bad+=1; print('BAD tree', ok, ok2, ok3, ok4, jax.tree_util.tree_structure(t3), k)
print('pytree utils bad', bad)
# flatten/unflatten
def rand_dict(rng, depth=0):
  d={}
  names = ['a','ab','abc','b','ba','a_b','x','xy','time','aa']
  for k in rng.choice(names, size=int(rng.integers(0,5)), replace=False):
    r = rng.random()
    if r<0.25 and depth<3: d[str(k)] = rand_dict(rng, depth+1)
    elif r<0.45: d[str(k)] = {}
    else: d[str(k)] = float(rng.integers(0,100))
  return d
bad=0; exc={}
for trial in range(2000):
  d = rand_dict(rng)
  try:
    f, e = pu.flatten_dict(d); b = pu.unflatten_dict(f, e)
    if b != d: bad+=1; print('MISMATCH', d, f, e, b)
  except Exception as ex:
    key = str(ex)[:40]; exc[key]=exc.get(key,0)+1
    if exc[key]==1: print('EXC', d, ex)
print('flatten bad', bad, exc)
