from common import *
rng = np.random.default_rng(3)
specs = pe.PrimitiveEquationsSpecs.from_si()
grid = sh.Grid.T21(radius=specs.radius, spherical_harmonics_impl=sh.FastSphericalHarmonics)
vert = rand_sigma(rng, 5); coords = cs.CoordinateSystem(grid, vert)
tref = 250+20*rng.standard_normal(5)
eq = pe.MoistPrimitiveEquations(tref, rand_modal(rng, grid, (), 8, 0.01), coords, specs)
dt = specs.nondimensionalize(20*units.minute)
filt = [ti.exponential_step_filter(grid, dt), ti.horizontal_diffusion_step_filter(grid, dt, tau=0.1, order=2)]
step = ti.step_with_filters(ti.imex_rk_sil3(eq, dt), filt)
fn = jax.jit(ti.repeated(step, 2))
st = rand_state(rng, coords, 20, tracers=('specific_humidity',), with_time=True)
v = rand_state(rng, coords, 20, tracers=('specific_humidity',), with_time=True); v.sim_time = 0.3
w = rand_state(rng, coords, 21, tracers=('specific_humidity',), with_time=True); w.sim_time = -0.2
t0=time.time()
y, jv = jax.jvp(fn, (st,), (v,)); jax.block_until_ready(jv); print('jvp %.1fs'%(time.time()-t0))
t0=time.time()
y2, vjp = jax.vjp(fn, st); (wj,) = vjp(w); jax.block_until_ready(wj); print('vjp %.1fs'%(time.time()-t0))
dot = lambda a,b: sum(float(jnp.vdot(x,y)) for x,y in zip(jax.tree_util.tree_leaves(a), jax.tree_util.tree_leaves(b)))
print('<Jv,w>=%.12e  <v,JTw>=%.12e rel %.2e'%(dot(jv,w), dot(v,wj), abs(dot(jv,w)-dot(v,wj))/abs(dot(jv,w))))
for eps in (1e-4,1e-5,1e-6):
  tm = jax.tree_util.tree_map
  fd = tm(lambda a,b: (a-b)/(2*eps), fn(tm(lambda s,d: s+eps*d, st, v)), fn(tm(lambda s,d: s-eps*d, st, v)))
  num = np.sqrt(sum(float(jnp.sum((a-b)**2)) for a,b in zip(jax.tree_util.tree_leaves(fd), jax.tree_util.tree_leaves(jv))))
  den = np.sqrt(sum(float(jnp.sum(b**2)) for b in jax.tree_util.tree_leaves(jv)))
  print('eps',eps,'rel FD err %.2e'%(num/den))
print('finite', all(np.isfinite(np.asarray(a)).all() for a in jax.tree_util.tree_leaves((jv,wj))))
