from common import *
rng = np.random.default_rng(8)
specs = pe.PrimitiveEquationsSpecs.from_si()
def phys_state(rng, coords, lmax, tracers=(), with_time=True):
  g = coords.horizontal; n = coords.vertical.layers
  def rm(lead, amp, zm=False, decay=1.5):
    m, l = g.modal_mesh; mask = g.mask & (l <= lmax)
    x = rng.standard_normal(lead + g.modal_shape) * mask * amp / (1.0 + l)**decay
    if zm: x[..., 0, 0] = 0
    return x
  # nondim: vorticity ~ 2e-5 s^-1 /(2 Omega) ~ 0.14 ; divergence ~ 2e-6 s^-1 -> 0.014 ; T' ~ 10 K ; lnps ~ 0.02
  kw = dict(vorticity=rm((n,), 0.6, True), divergence=rm((n,), 0.05, True), temperature_variation=rm((n,), 30.), log_surface_pressure=rm((1,), 0.05),
            tracers={k: rm((n,), 0.01) for k in tracers})
  return pe.StateWithTime(sim_time=0.0, **kw) if with_time else pe.State(**kw)
for impl in (sh.RealSphericalHarmonics, lambda **kw: sh.FastSphericalHarmonics(base_shape_multiple=8, **kw)):
  grid = sh.Grid.T21(radius=specs.radius, spherical_harmonics_impl=impl)
  K=5; vert = rand_sigma(rng, K); coords = cs.CoordinateSystem(grid, vert)
  tref = 250+20*rng.standard_normal(K)
  oro = grid.clip_wavenumbers(jnp.asarray(rand_modal(rng, grid, (), 12, 3e-4)))
  eq = pe.MoistPrimitiveEquations(tref, oro, coords, specs)
  dt = specs.nondimensionalize(10*units.minute)
  st = phys_state(rng, coords, 21, tracers=('specific_humidity','uniform'))
  u = np.zeros((K,)+grid.modal_shape); u[:,0,0] = 0.7*np.sqrt(4*np.pi); st.tracers['uniform'] = u
  nodal_u = sh.vor_div_to_uv_nodal(grid, st.vorticity, st.divergence)
  print('max wind m/s', float(jnp.abs(nodal_u[0]).max())*6.37e6*1.458e-4)
  filt = [ti.exponential_step_filter(grid, dt)]
  for name in ['backward_forward_euler','crank_nicolson_rk2','crank_nicolson_rk3','crank_nicolson_rk4','imex_rk_sil3']:
    step = jax.jit(ti.step_with_filters(getattr(ti,name)(eq, dt), filt))
    s = st; worst = dict(top=0, masked=0, mean=0, unif=0, time=0)
    l = grid.modal_axes[1]; Ltop = grid.total_wavenumbers-1
    outside = ~grid.mask
    for n in range(1,11):
      s = step(s)
      for leaf in [s.vorticity, s.divergence, s.temperature_variation, s.log_surface_pressure]+list(s.tracers.values()):
        a = np.asarray(leaf)
        worst['top']=max(worst['top'], np.abs(a[..., l>=Ltop]).max())
        worst['masked']=max(worst['masked'], np.abs(a[..., outside]).max())
      worst['mean']=max(worst['mean'], float(np.abs(np.asarray(s.vorticity[:,0,0])).max()), float(np.abs(np.asarray(s.divergence[:,0,0])).max()))
      un = np.array(s.tracers['uniform']); un[:,0,0] -= 0.7*np.sqrt(4*np.pi); worst['unif']=max(worst['unif'], np.abs(un).max())
      worst['time']=max(worst['time'], abs(float(s.sim_time)-n*dt)/dt)
    print(('Real' if impl is sh.RealSphericalHarmonics else 'FastPad'), name.ljust(24), {k:'%.1e'%v for k,v in worst.items()}, 'vort max %.2f'%float(jnp.abs(s.vorticity).max()))
