from common import *
rng = np.random.default_rng(3)
specs = pe.PrimitiveEquationsSpecs.from_si()
tm = jax.tree_util.tree_map
for impl in (sh.RealSphericalHarmonics, sh.FastSphericalHarmonics):
  grid = sh.Grid.T21(radius=specs.radius, spherical_harmonics_impl=impl)
  vert = rand_sigma(rng, 5); coords = cs.CoordinateSystem(grid, vert)
  tref = 250+20*rng.standard_normal(5)
  oro = rand_modal(rng, grid, (), 8, 0.01)
  st = rand_state(rng, coords, 20, tracers=('specific_humidity',), with_time=True)
  def rot(x, k):
    return pu.tree_map_over_nonscalars(lambda a: grid.to_modal(jnp.roll(grid.to_nodal(a), k, axis=-2)), x)
  def mirror(x, pseudo=False):
    f = lambda a: grid.to_modal(jnp.flip(grid.to_nodal(a), axis=-1))
    return pu.tree_map_over_nonscalars(f, x)
  def mirror_state(s):
    out = mirror(s); out.vorticity = -out.vorticity; return out
  def tend(eq, s): return eq.explicit_terms(s) + eq.implicit_terms(s)
  eq = pe.MoistPrimitiveEquations(tref, oro, coords, specs)
  t0 = tend(eq, st)
  for k in (1, 7, 31):
    eqr = pe.MoistPrimitiveEquations(tref, rot(oro,k), coords, specs)
    a = tend(eqr, rot(st,k)); b = rot(t0,k)
    err = max(float(jnp.abs(x-y).max()/(jnp.abs(y).max()+1e-300)) for x,y in zip(jax.tree_util.tree_leaves(a), jax.tree_util.tree_leaves(b)))
    print(impl.__name__[:4],'rot',k,'%.2e'%err)
  eqm = pe.MoistPrimitiveEquations(tref, mirror(oro), coords, specs)
  a = tend(eqm, mirror_state(st)); b = mirror_state(t0)
  err = [float(jnp.abs(x-y).max()/(jnp.abs(y).max()+1e-300)) for x,y in zip(jax.tree_util.tree_leaves(a), jax.tree_util.tree_leaves(b))]
  print(impl.__name__[:4],'mirror', ['%.1e'%e for e in err])
