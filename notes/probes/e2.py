import os, sys, time
os.environ['XLA_FLAGS']='--xla_force_host_platform_device_count=8'
import jax
jax.config.update('jax_enable_x64', True)
import jax.numpy as jnp, numpy as np
from dinosaur import spherical_harmonic as sh, primitive_equations as pe, sigma_coordinates as sc, coordinate_systems as cs, time_integration as ti, filtering, pytree_utils as pu, scales
units = scales.units
# (a) sparse vs dense temperature implicit on non-equidistant levels
rng = np.random.default_rng(0)
for b in [np.linspace(0,1,6), np.array([0,0.1,0.3,0.35,0.7,1.0])]:
  coords = sc.SigmaCoordinates(b)
  tref = np.array([210., 230, 250, 270, 290])
  div = rng.standard_normal((5,3,4))
  d = pe.get_temperature_implicit(div, coords, tref, 0.28, 'dense')
  s = pe.get_temperature_implicit(div, coords, tref, 0.28, 'sparse')
  print('H dense vs sparse', b, np.abs(d-s).max(), np.abs(d).max())
  T = rng.standard_normal((5,3,4))
  d = pe.get_geopotential_diff(T, coords, 287., 'dense'); s = pe.get_geopotential_diff(T, coords, 287., 'sparse')
  print('G dense vs sparse', np.abs(d-s).max())
  tref = np.full(5, 250.)
  d = pe.get_temperature_implicit(div, coords, tref, 0.28, 'dense')
  s = pe.get_temperature_implicit(div, coords, tref, 0.28, 'sparse')
  print('H const Tref dense vs sparse', np.abs(d-s).max(), np.abs(d).max())
# (b) diffusion step filter on padded
g = sh.Grid.T21(spherical_harmonics_impl=lambda **kw: sh.FastSphericalHarmonics(base_shape_multiple=8, **kw))
print(g.modal_shape, g.modal_padding, g.laplacian_eigenvalues[-3:])
f = ti.horizontal_diffusion_step_filter(g, dt=0.01, tau=0.1, order=2)
x = jnp.ones(g.modal_shape)
with np.errstate(all='ignore'):
  out = f(None, x)
print('diffusion filter padded: nan count', int(np.isnan(np.asarray(out)).sum()))
# (c) array attenuation
g2 = sh.Grid.T21()
try:
  fl = filtering.exponential_filter(g2, attenuation=np.array([1.,2.,3.])[:,None,None], order=np.array([2,3,4])[:,None,None])
  y = fl(jnp.ones((3,)+g2.modal_shape)); print('array filter ok', y.shape)
except Exception as e: print('array filter EXC', type(e).__name__, str(e)[:200])
try:
  fl = filtering.horizontal_diffusion_filter(g2, scale=np.array([1.,2.,3.])[:,None,None]*1e-3, order=1)
  y = fl(jnp.ones((3,)+g2.modal_shape)); print('array diffusion ok', y.shape)
except Exception as e: print('array diffusion EXC', type(e).__name__, str(e)[:200])
# (d) preserves_shape with unrelated leaf
fl = filtering.exponential_filter(g2)
for leaf in [jnp.float64(3.0), jnp.ones((2,)), jnp.ones((5,)), jnp.ones((23,)), jnp.ones((1,)), jnp.ones((7,3))]:
  try:
    y = fl({'a': jnp.ones(g2.modal_shape), 'b': leaf}); print('leaf', leaf.shape, 'ok changed=', not np.array_equal(y['b'], leaf))
  except Exception as e: print('leaf', leaf.shape, 'EXC', type(e).__name__, str(e)[:100])
# (e) timedelta
specs = pe.PrimitiveEquationsSpecs.from_si()
bad=[]
for s in range(0, 2000):
  td = np.timedelta64(s,'s')
  back = specs.dimensionalize_timedelta64(specs.nondimensionalize_timedelta64(td))
  if back != td: bad.append(s)
print('timedelta bad', len(bad), bad[:10])
# (f) flatten_dict
for d in [{'ab': {}, 'ac': {}, 'x': 1}, {'a': {}, 'b': {}}, {'': {'a':1}}, {'a': {'': 2}}, {'a':{'b':{}}, 'c':{'b':{}}}]:
  try:
    fd, ek = pu.flatten_dict(d); back = pu.unflatten_dict(fd, ek); print(d, '->', fd, ek, 'roundtrip', back==d)
  except Exception as e: print(d, 'EXC', type(e).__name__, e)
# (g) chained comparison
eq = ti.ImplicitExplicitODE.from_functions(lambda x: x, lambda x: 0*x, lambda x, s: x)
for (a,b,c) in [([0,.5,1],[0,0],[.5,.5]), ([0,.5,1],[0,0],[.5,.5,.1]), ([0,.5,1],[0,0,0],[.5,.5]), ([0,.5,1,1],[0,0],[.5,.5]), ([0,.5],[0,0],[.5,.5]), ([0,.5,1],[0],[.5,.5])]:
  try:
    st = ti.low_storage_runge_kutta_crank_nicolson(a,b,c,eq,0.1); r = st(jnp.ones(2)); print(len(a),len(b),len(c),'accepted', r)
  except Exception as e: print(len(a),len(b),len(c),'EXC', type(e).__name__, e)
