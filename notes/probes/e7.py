from common import *
import scipy.special as sps
def basis_nodal(grid, with_dtheta=False):
  """Independent evaluation of Y_{m,l} (code layout for RealSH) at grid nodes: returns dict (mi,l)->array[lon,lat]."""
  lon, sinlat = grid.nodal_axes
  lon = lon - grid.longitude_offset
  colat = np.arccos(sinlat)
  return lon, colat
def check(grid):
  Mw, L = grid.longitude_wavenumbers, grid.total_wavenumbers
  m_axis, l_axis = grid.modal_axes
  lon, colat = basis_nodal(grid)
  a = grid.radius
  worst = dict(val=0, dlon=0, dlat=0, lap=0, dlat2=0)
  # batch of all basis vectors
  idx = [(i,j) for i in range(grid.modal_shape[0]) for j in range(grid.modal_shape[1]) if grid.mask[i,j]]
  E = np.zeros((len(idx),)+grid.modal_shape)
  for k,(i,j) in enumerate(idx): E[k,i,j]=1
  nod = np.asarray(grid.to_nodal(E))
  dl = np.asarray(grid.to_nodal(grid.d_dlon(E)))
  dt = np.asarray(grid.to_nodal(grid.cos_lat_d_dlat(E)))
  d2 = np.asarray(grid.to_nodal(grid.sec_lat_d_dlat_cos2(E)))
  isfast = grid.modal_shape[0] % 2 == 0
  for k,(i,j) in enumerate(idx):
    m = int(m_axis[i]); l = int(l_axis[j]); am = abs(m)
    if isfast: is_sin = (i % 2 == 1)
    else: is_sin = (i % 2 == 0 and i>0)
    P, dP = sps.sph_legendre_p(l, am, colat, diff_n=1)   # derivative wrt colatitude
    norm = np.sqrt(2*np.pi)
    if am == 0: Fl = np.full_like(lon, 1/np.sqrt(2*np.pi)); dFl = 0*lon
    elif not is_sin: Fl = np.cos(am*lon)/np.sqrt(np.pi); dFl = -am*np.sin(am*lon)/np.sqrt(np.pi)
    else: Fl = np.sin(am*lon)/np.sqrt(np.pi); dFl = am*np.cos(am*lon)/np.sqrt(np.pi)
    Y = Fl[:,None]*(norm*P)[None,:]
    worst['val']=max(worst['val'], np.abs(nod[k]-Y).max())
    worst['dlon']=max(worst['dlon'], np.abs(dl[k]-dFl[:,None]*(norm*P)[None,:]).max()/max(1,am))
    if l <= L-2:
      coslat = np.sin(colat)
      dY_dlat = Fl[:,None]*(-norm*dP)[None,:]      # d/dlat = -d/dcolat
      worst['dlat']=max(worst['dlat'], np.abs(dt[k]-coslat*dY_dlat).max()/max(1,l))
      # sec d/dlat (cos^2 Y) = cos dY/dlat - 2 sin Y
      ref = coslat*dY_dlat - 2*np.cos(colat)*Y
      worst['dlat2']=max(worst['dlat2'], np.abs(d2[k]-ref).max()/max(1,l))
  return worst
for impl in (sh.RealSphericalHarmonics, sh.FastSphericalHarmonics):
  for args in [dict(longitude_wavenumbers=8,total_wavenumbers=9,longitude_nodes=25,latitude_nodes=13),
               dict(longitude_wavenumbers=22,total_wavenumbers=23,longitude_nodes=64,latitude_nodes=32),
               dict(longitude_wavenumbers=5,total_wavenumbers=12,longitude_nodes=16,latitude_nodes=12, latitude_spacing='equiangular', longitude_offset=0.3),
               dict(longitude_wavenumbers=43,total_wavenumbers=44,longitude_nodes=128,latitude_nodes=64)]:
    g = sh.Grid(spherical_harmonics_impl=impl, radius=3.0, **args)
    t0=time.time(); w = check(g); print(impl.__name__[:4], list(args.values())[:4], {k:'%.1e'%v for k,v in w.items()}, '%.1fs'%(time.time()-t0))
