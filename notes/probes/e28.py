from common import *
rng = np.random.default_rng(0)
n=4
A = jnp.asarray(rng.standard_normal((n,n))*0.7); B = jnp.asarray(rng.standard_normal((n,n,n))*0.4); C = jnp.asarray(rng.standard_normal((n,n))*0.5)
Gm = jnp.asarray(rng.standard_normal((n,n))*0.8)
def F(u): return A@u + jnp.einsum('ijk,j,k->i',B,u,u) + jnp.sin(C@u)
def G(u): return Gm@u
def make_eq(F, G, Gm):
  return ti.ImplicitExplicitODE.from_functions(F, G, lambda u, eta: jnp.linalg.solve(jnp.eye(n)-eta*Gm, u))
u0 = jnp.asarray(rng.standard_normal(n))
def flow_derivs(N, u0, kmax):
  # u^(k) via Lie derivatives
  fs = [lambda u: u]
  ders=[u0]
  cur = N
  ders.append(cur(u0))
  for k in range(2, kmax+1):
    prev = cur
    cur = (lambda prev: (lambda u: jax.jvp(prev, (u,), (N(u),))[1]))(prev)
    ders.append(cur(u0))
  return ders
def step_derivs(factory, eq, u0, kmax):
  f = lambda h: factory(eq, h)(u0)
  ders=[f(0.0)]; cur=f
  for k in range(1,kmax+1):
    cur = jax.jacfwd(cur); ders.append(cur(0.0))
  return ders
cases = {'general': (F, G, Gm), 'G=0': (F, lambda u: 0*u, 0*Gm), 'linF,G=0': (lambda u: A@u, lambda u: 0*u, 0*Gm), 'F=0': (lambda u: 0*u, G, Gm)}
for name in ['backward_forward_euler','crank_nicolson_rk2','crank_nicolson_rk3','crank_nicolson_rk4','imex_rk_sil3']:
  for cname,(Fc,Gc,Gmc) in cases.items():
    eq = make_eq(Fc,Gc,Gmc); N = lambda u: Fc(u)+Gc(u)
    t0=time.time()
    fd = flow_derivs(N, u0, 5); sd = step_derivs(getattr(ti,name), eq, u0, 5)
    errs = [float(jnp.abs(a-b).max()/(1e-300+jnp.abs(a).max())) for a,b in zip(fd, sd)]
    order = 0
    for k in range(1,6):
      if errs[k] < 1e-9: order=k
      else: break
    print(name.ljust(24), cname.ljust(9), 'order', order, ['%.0e'%e for e in errs[1:]], '%.1fs'%(time.time()-t0))
