from common import *
from dinosaur import radiation as rad, primitive_equations_states as pes, xarray_utils as xu, held_suarez as hs
rng = np.random.default_rng(5)
u = units
# ---- C18 pint homomorphism
base = {'length':[u.m,u.km,u.mm], 'time':[u.s,u.hour,u.day,u.minute], 'mass':[u.kg,u.g], 'temperature':[u.degK]}
scs = [scales.DEFAULT_SCALE, scales.ATMOSPHERIC_SCALE, scales.Scale(1.7e5*u.m, 411*u.s, 3.3*u.kg, 2.5*u.degK), scales.Scale(2*u.km, 3*u.hour, 5*u.g, 0.1*u.degK)]
def rq(rng):
  un = u.dimensionless; alt = u.dimensionless
  for dim, opts in base.items():
    e = int(rng.integers(-3,4)) if rng.random()<0.6 else 0
    un = un * rng.choice(opts)**e; alt = alt*rng.choice(opts)**e
  mag = 10**rng.uniform(-12,12) * (1 if rng.random()<0.8 else -1)
  if rng.random()<0.3: mag = mag*rng.standard_normal(3)
  return mag*un, alt
worst=0; n=0
for sc_ in scs:
  for t in range(300):
    q, alt = rq(rng); q2, _ = rq(rng)
    nd = sc_.nondimensionalize(q)
    back = sc_.dimensionalize(nd, alt if isinstance(alt, u.Unit) else alt.units)
    ref = q.to(back.units)
    e1 = np.max(np.abs(back.m/ref.m - 1))
    e2 = np.max(np.abs(sc_.nondimensionalize(q.to(alt if isinstance(alt, u.Unit) else alt.units))/nd - 1))
    e3 = np.max(np.abs(sc_.nondimensionalize(q*q2)/(nd*sc_.nondimensionalize(q2)) - 1))
    e4 = np.max(np.abs(sc_.nondimensionalize(q**2)/(nd**2) - 1)); e5 = np.max(np.abs(sc_.nondimensionalize(1/q)*nd - 1))
    worst=max(worst,e1,e2,e3,e4,e5); n+=1
print('pint relations', n, 'worst rel %.1e'%worst)
# ---- C12: radiation + state builders under two scales, compared in SI
def si_of(scale):
  specs = pe.PrimitiveEquationsSpecs.from_si(scale=scale)
  grid = sh.Grid.T21(radius=specs.radius); coords = cs.CoordinateSystem(grid, sc.SigmaCoordinates.equidistant(6))
  out={}
  sr = rad.SolarRadiation(coords, specs, np.datetime64('1979-01-01'))
  for hrs in (0., 7.5, 1000.25, 50000.):
    t = specs.nondimensionalize(hrs*u.hour)
    out['flux%g'%hrs] = specs.dimensionalize(np.asarray(sr.radiation_flux(t)), u.W/u.m**2).m
  fn, aux = pes.steady_state_jw(coords, specs); st = fn()
  out['jw_vort'] = specs.dimensionalize(np.asarray(st.vorticity), 1/u.s).m
  out['jw_T'] = specs.dimensionalize(np.asarray(st.temperature_variation), u.degK).m
  out['jw_tref'] = specs.dimensionalize(np.asarray(aux[xu.REF_TEMP_KEY]), u.degK).m
  out['jw_oro'] = specs.dimensionalize(np.asarray(aux[xu.OROGRAPHY]), u.m).m
  out['jw_geo'] = specs.dimensionalize(np.asarray(aux[xu.GEOPOTENTIAL_KEY]), u.m**2/u.s**2).m
  pert = pes.baroclinic_perturbation_jw(coords, specs)
  out['pert_vort'] = specs.dimensionalize(np.asarray(pert.vorticity), 1/u.s).m; out['pert_div'] = specs.dimensionalize(np.asarray(pert.divergence), 1/u.s).m
  gs = pes.gaussian_scalar(coords, specs); out['gauss'] = np.asarray(gs)
  fn2, aux2 = pes.isothermal_rest_atmosphere(coords, specs, p1=500*u.pascal, surface_height=np.abs(np.sin(2*grid.nodal_mesh[0]))*800*u.m)
  s2 = fn2(jax.random.PRNGKey(0))
  ps = np.exp(np.asarray(grid.to_nodal(s2.log_surface_pressure))); out['iso_ps'] = specs.dimensionalize(ps, u.pascal).m
  out['iso_oro'] = specs.dimensionalize(np.asarray(aux2[xu.OROGRAPHY]), u.m).m
  return out
A = si_of(scs[0]); B = si_of(scs[2])
for k in A: print(k.ljust(10), 'rel diff %.1e'%(np.abs(A[k]-B[k]).max()/(np.abs(A[k]).max()+1e-300)))
