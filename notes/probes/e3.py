import numpy as np, scipy.special as sps
from dinosaur import associated_legendre as al
print([n for n in dir(sps) if 'legendre' in n.lower()])
x, w = al.gauss_legendre_nodes(32)
p = al.evaluate(n_m=22, n_l=23, x=x)   # (m, j, l)
theta = np.arccos(x)  # colatitude
worst=0
for m in range(22):
  for l in range(m,23):
    v = sps.sph_legendre_p(l, m, theta)*np.sqrt(2*np.pi)
    worst=max(worst, np.abs(v-p[m,:,l]).max())
print('max diff vs scipy', worst)
v, dv = sps.sph_legendre_p(5, 2, theta, diff_n=1)
print(v.shape, dv.shape)
