from common import *
for spacing in ('gauss','equiangular','equiangular_with_poles'):
  for (M,L,nlon,nlat) in [(6,7,16,13),(6,7,16,14),(12,13,40,27),(22,23,64,32),(22,23,64,47),(31,33,128,64),(40,41,128,90)]:
    g = sh.Grid(M,L,nlon,nlat,latitude_spacing=spacing, spherical_harmonics_impl=sh.FastSphericalHarmonics)
    D = 2*nlat-1 if spacing=='gauss' else nlat-1
    idx = [(i,j) for i in range(g.modal_shape[0]) for j in range(g.modal_shape[1]) if g.mask[i,j]]
    E = np.zeros((len(idx),)+g.modal_shape)
    for k,(i,j) in enumerate(idx): E[k,i,j]=1
    Gm = np.asarray(g.to_modal(g.to_nodal(E)))   # [k, i', j']
    l = g.modal_axes[1]
    worst=0; worst_un=0; npairs=0
    for k,(i,j) in enumerate(idx):
      res = Gm[k].copy(); res[i,j]-=1
      ok = (l[j] + l[None,:] <= D) & g.mask
      worst = max(worst, np.abs(res[ok]).max()) ; npairs += ok.sum()
      if (~ok & g.mask).any(): worst_un = max(worst_un, np.abs(res[~ok & g.mask]).max())
    w = g.spherical_harmonics.basis.w
    print(spacing[:12].ljust(12), (M,L,nlon,nlat), 'D',D,'resolved-pairs err %.1e'%worst, 'unresolved %.1e'%worst_un, 'min w %.1e'%w.min(), 'pairs', npairs)
