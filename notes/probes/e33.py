from common import *
import itertools
rng = np.random.default_rng(5)
def to_fast(x, gr, gf):
  """Real layout -> Fast layout (with padding)."""
  out = np.zeros(x.shape[:-2]+gf.modal_shape, x.dtype)
  Mr, Lr = gr.modal_shape
  out[..., 0, :Lr] = x[..., 0, :]
  out[..., 2:2+Mr-1, :Lr] = x[..., 1:, :]
  return out
def to_real(y, gr, gf):
  Mr, Lr = gr.modal_shape
  out = np.zeros(y.shape[:-2]+gr.modal_shape, y.dtype)
  out[..., 0, :] = y[..., 0, :Lr]; out[..., 1:, :] = y[..., 2:2+Mr-1, :Lr]
  return out
worst=0; n=0
for (M,L,nlon,nlat) in [(8,9,25,13),(5,7,16,9),(12,13,36,18),(1,2,4,3),(2,2,5,3)]:
  gr = sh.Grid(M,L,nlon,nlat, radius=2.0, longitude_offset=0.2)
  x = rand_modal(rng, gr, (3,), L, 1.0) * (1+gr.modal_mesh[1])   # non-decaying
  for bsm, stk, rev, prec in itertools.product([None,1,2,4,8],[None,True,False],[None,True,False],['tensorfloat32','float32','highest']):
    impl = lambda **kw: sh.FastSphericalHarmonics(base_shape_multiple=bsm, stacked_fourier_transforms=stk, reverse_einsum_arg_order=rev, transform_precision=prec, **kw)
    gf = sh.Grid(M,L,nlon,nlat, radius=2.0, longitude_offset=0.2, spherical_harmonics_impl=impl)
    xf = to_fast(x, gr, gf)
    ns = gr.nodal_shape
    errs = []
    nr = np.asarray(gr.to_nodal(x)); nf = np.asarray(gf.to_nodal(xf))[..., :ns[0], :ns[1]]
    errs.append(np.abs(nr-nf).max()/np.abs(nr).max())
    nodal_pad = np.zeros(nr.shape[:-2]+gf.nodal_shape); nodal_pad[..., :ns[0], :ns[1]] = nr
    errs.append(np.abs(to_real(np.asarray(gf.to_modal(nodal_pad)), gr, gf) - np.asarray(gr.to_modal(nr))).max())
    for op in ('d_dlon','cos_lat_d_dlat','sec_lat_d_dlat_cos2','laplacian','inverse_laplacian','clip_wavenumbers'):
      a = np.asarray(getattr(gr,op)(x)); b = to_real(np.asarray(getattr(gf,op)(xf)), gr, gf)
      errs.append(np.abs(a-b).max()/(np.abs(a).max()+1e-300))
    # mask consistent
    mf = gf.mask; mr = gr.mask
    okmask = np.array_equal(to_real(mf.astype(float), gr, gf), mr.astype(float)) and mf.sum()==mr.sum()
    n+=1; worst=max(worst, max(errs))
    if max(errs)>1e-10 or not okmask: print('BAD', (M,L,nlon,nlat), bsm, stk, rev, prec, ['%.1e'%e for e in errs], okmask)
print('configs', n, 'worst %.1e'%worst)
