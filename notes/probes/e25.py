from common import *
rng = np.random.default_rng(8)
specs = pe.PrimitiveEquationsSpecs.from_si()
tm = jax.tree_util.tree_map
for impl in (sh.RealSphericalHarmonics, lambda **kw: sh.FastSphericalHarmonics(base_shape_multiple=8, **kw)):
  grid = sh.Grid.T21(radius=specs.radius, spherical_harmonics_impl=impl)
  K=5; vert = rand_sigma(rng, K); coords = cs.CoordinateSystem(grid, vert)
  tref = 250+20*rng.standard_normal(K)
  oro = grid.clip_wavenumbers(jnp.asarray(rand_modal(rng, grid, (), 12, 0.01)))
  eq = pe.MoistPrimitiveEquations(tref, oro, coords, specs)
  dt = specs.nondimensionalize(15*units.minute)
  st = rand_state(rng, coords, 21, tracers=('specific_humidity','uniform'), with_time=True)   # lmax=21 = L-2
  u = np.zeros((K,)+grid.modal_shape); u[:,0,0] = 0.7*np.sqrt(4*np.pi); st.tracers['uniform'] = u
  filt = [ti.exponential_step_filter(grid, dt)]
  for name in ['backward_forward_euler','crank_nicolson_rk2','crank_nicolson_rk3','crank_nicolson_rk4','imex_rk_sil3']:
    step = jax.jit(ti.step_with_filters(getattr(ti,name)(eq, dt), filt))
    s = st; worst = dict(top=0, masked=0, mean=0, unif=0, time=0)
    l = grid.modal_axes[1]; Ltop = grid.total_wavenumbers-1
    outside = ~grid.mask
    for n in range(1,6):
      s = step(s)
      for leaf in [s.vorticity, s.divergence, s.temperature_variation, s.log_surface_pressure]+list(s.tracers.values()):
        a = np.asarray(leaf)
        worst['top']=max(worst['top'], np.abs(a[..., l>=Ltop]).max() if True else 0)
        worst['masked']=max(worst['masked'], np.abs(a[..., outside]).max())
      worst['mean']=max(worst['mean'], abs(float(s.vorticity[:,0,0].max())), abs(float(np.abs(np.asarray(s.divergence[:,0,0])).max())))
      un = np.array(s.tracers['uniform']); un[:,0,0] -= 0.7*np.sqrt(4*np.pi); worst['unif']=max(worst['unif'], np.abs(un).max())
      worst['time']=max(worst['time'], abs(float(s.sim_time)-n*dt)/dt)
    print(('Real' if impl is sh.RealSphericalHarmonics else 'FastPad'), name.ljust(24), {k:'%.1e'%v for k,v in worst.items()})
