"""Independent pointwise reference for the sigma-coordinate primitive equations (prototype)."""
import numpy as np, scipy.special as sps

class SphRef:
  """Real orthonormal spherical harmonics + analytic derivatives on a fine Gauss grid (unit-sphere normalisation)."""
  def __init__(self, lmax, nlat, nlon):
    self.lmax=lmax
    x, w = sps.roots_legendre(nlat)
    self.mu = x; self.wlat = w
    self.colat = np.arccos(x); self.lat = np.arcsin(x)
    self.lon = np.linspace(0, 2*np.pi, nlon, endpoint=False); self.wlon = 2*np.pi/nlon
    self.cos = np.sqrt(1-x*x)
    # keys: (m, l, kind) kind in {'c','s'}; m>=0
    self.Y={}; self.dYlon={}; self.dYlat={}
    for l in range(lmax+1):
      for m in range(0, l+1):
        P, dP = sps.sph_legendre_p(l, m, self.colat, diff_n=1)
        P = P*np.sqrt(2*np.pi); dPlat = -dP*np.sqrt(2*np.pi)
        kinds = ['c'] if m==0 else ['c','s']
        for k in kinds:
          if m==0: F = np.full_like(self.lon, 1/np.sqrt(2*np.pi)); dF = 0*self.lon
          elif k=='c': F = np.cos(m*self.lon)/np.sqrt(np.pi); dF = -m*np.sin(m*self.lon)/np.sqrt(np.pi)
          else: F = np.sin(m*self.lon)/np.sqrt(np.pi); dF = m*np.cos(m*self.lon)/np.sqrt(np.pi)
          self.Y[(m,l,k)] = F[:,None]*P[None,:]
          self.dYlon[(m,l,k)] = dF[:,None]*P[None,:]
          self.dYlat[(m,l,k)] = F[:,None]*dPlat[None,:]
  def synth(self, coef, which='Y'):
    tab = getattr(self, which); out = 0
    for key, c in coef.items():
      if c != 0: out = out + c*tab[key]
    return out if not np.isscalar(out) else np.zeros((len(self.lon), len(self.mu)))
  def integrate(self, f):  # over unit sphere
    return (f*self.wlat[None,:]).sum()*self.wlon
  def project(self, f, keys):
    return {k: self.integrate(f*self.Y[k]) for k in keys}
  def project_div(self, Ex, Ey, keys, a):
    # coefficient of div(E) on sphere radius a : -int E . grad Y
    return {k: -self.integrate(Ex*self.dYlon[k]/(a*self.cos[None,:]) + Ey*self.dYlat[k]/a) for k in keys}
  def project_curl(self, Ex, Ey, keys, a):
    return {k: self.integrate(Ex*self.dYlat[k]/a - Ey*self.dYlon[k]/(a*self.cos[None,:])) for k in keys}

def key_of_index(grid, i, j):
  """map code modal index -> (m,l,kind)."""
  m_axis, l_axis = grid.modal_axes
  m = int(m_axis[i]); l = int(l_axis[j])
  fast = grid.modal_shape[0] % 2 == 0
  if fast: kind = 's' if (i%2==1) else 'c'
  else: kind = 's' if (i%2==0 and i>0) else 'c'
  return (abs(m), l, kind)

def coef_dict(grid, arr, tol=0.0):
  d={}
  for i in range(arr.shape[0]):
    for j in range(arr.shape[1]):
      if grid.mask[i,j] and arr[i,j]!=0: d[key_of_index(grid,i,j)] = float(arr[i,j])
  return d

def reference_tendency(sr, grid, sigma_bounds, state, orography, R, kappa, g, omega, a, keys, moist=None):
  """state: dict of arrays vorticity[K,M,L], divergence, temperature (ABSOLUTE, modal), lsp[1,M,L]; tracers dict. returns dict of coefficient dicts per level."""
  b = np.asarray(sigma_bounds); K = len(b)-1
  dsig = np.diff(b); cen = (b[1:]+b[:-1])/2; dcen = np.diff(cen)
  alpha = np.zeros(K); alpha[:-1] = np.diff(np.log(cen))/2; alpha[-1] = -np.log(cen[-1])
  cos = sr.cos[None,:]
  f_cor = 2*omega*sr.mu[None,:]
  def fields(arr):
    c = coef_dict(grid, arr); return sr.synth(c,'Y'), sr.synth(c,'dYlon'), sr.synth(c,'dYlat')
  def invlap(arr):
    out = np.zeros_like(arr); l = grid.modal_axes[1]
    for j in range(arr.shape[1]):
      if 0 < l[j]: out[:,j] = -arr[:,j]*a*a/(l[j]*(l[j]+1))
    return out
  lsp, lsp_x, lsp_y = fields(state['lsp'][0]); lsp_x = lsp_x/(a*cos); lsp_y = lsp_y/a
  u=[];v=[];zeta=[];delta=[];T=[];Tx=[];Ty=[]
  tr = {n: [] for n in state.get('tracers',{})}
  for k in range(K):
    z,_,_ = fields(state['vorticity'][k]); d,_,_ = fields(state['divergence'][k])
    _, psx, psy = fields(invlap(state['vorticity'][k])); _, chx, chy = fields(invlap(state['divergence'][k]))
    u.append(chx/(a*cos) - psy/a); v.append(chy/a + psx/(a*cos))
    zeta.append(z); delta.append(d)
    t, tx, ty = fields(state['temperature'][k]); T.append(t); Tx.append(tx/(a*cos)); Ty.append(ty/a)
    for n in tr:
      q,qx,qy = fields(state['tracers'][n][k]); tr[n].append((q,qx/(a*cos),qy/a))
  vgl = [u[k]*lsp_x + v[k]*lsp_y for k in range(K)]
  G = [delta[k] + vgl[k] for k in range(K)]
  S = np.cumsum([G[k]*dsig[k] for k in range(K)], axis=0)   # S[k] = sum_{j<=k}
  sdot = [b[k+1]*S[K-1] - S[k] for k in range(K-1)]          # at interface k+1/2
  def vadv(x):   # list over levels -> -(sigma_dot dx/dsigma) centered average
    out=[]
    for k in range(K):
      up = sdot[k]*(x[k+1]-x[k])/dcen[k] if k < K-1 else 0
      dn = sdot[k-1]*(x[k]-x[k-1])/dcen[k-1] if k > 0 else 0
      out.append(-0.5*(up+dn))
    return out
  # thermodynamic
  omega_p = []
  for k in range(K):
    gp = alpha[k]*S[k] + (alpha[k-1]*S[k-1] if k>0 else 0)
    omega_p.append(vgl[k] - gp/dsig[k])
  Tv_fac = [1.0]*K; kap_fac=[1.0]*K
  if moist:
    eps = moist['Rv']/R - 1; cr = moist['cpv']/(R/kappa)
    q = [tr['specific_humidity'][k][0] for k in range(K)]
    cl = [0*q[k] for k in range(K)]
    Tv_fac = [1+eps*q[k] for k in range(K)]
    kap_fac = [(1+eps*q[k])/(1+(cr-1)*q[k]) for k in range(K)]
  Tadv = vadv(T)
  dT = [-(u[k]*Tx[k]+v[k]*Ty[k]) + Tadv[k] + kappa*kap_fac[k]*T[k]*omega_p[k] for k in range(K)]
  dlsp = -S[K-1]
  # geopotential (full T virtual)
  oro,_,_ = fields(orography)
  Tvirt = [T[k]*Tv_fac[k] for k in range(K)]
  Phi=[]
  for k in range(K):
    acc = g*oro + R*alpha[k]*Tvirt[k]
    for j in range(k+1,K): acc = acc + R*(alpha[j]+alpha[j-1])*Tvirt[j]
    Phi.append(acc)
  uadv = vadv(u); vadv_ = vadv(v)
  out = dict(vorticity=[],divergence=[],temperature=[],tracers={n:[] for n in tr})
  for k in range(K):
    # E = (zeta+f) k x v + sdot dv/dsigma + R Tv grad lnps ;  k x v = (-v, u); note vadv returns -(sdot dx/dsigma)
    Ex = -(zeta[k]+f_cor)*v[k] - uadv[k] + R*Tvirt[k]*lsp_x
    Ey =  (zeta[k]+f_cor)*u[k] - vadv_[k] + R*Tvirt[k]*lsp_y
    curl = sr.project_curl(Ex, Ey, keys, a); div = sr.project_div(Ex, Ey, keys, a)
    ke = sr.project(Phi[k] + 0.5*(u[k]**2+v[k]**2), keys)
    out['vorticity'].append({kk: -curl[kk] for kk in keys})
    out['divergence'].append({kk: -div[kk] + kk[1]*(kk[1]+1)/(a*a)*ke[kk] for kk in keys})
    out['temperature'].append(sr.project(dT[k], keys))
  for n in tr:
    qs = [tr[n][k][0] for k in range(K)]; qadv = vadv(qs)
    for k in range(K):
      out['tracers'][n].append(sr.project(-(u[k]*tr[n][k][1]+v[k]*tr[n][k][2]) + qadv[k], keys))
  out['lsp'] = sr.project(dlsp, keys)
  return out
