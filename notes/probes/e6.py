from common import *
from dinosaur import jax_numpy_utils
def fixed(divergence, coordinates, reference_temperature, kappa=pe.KAPPA, method='dense', sharding=None):
  weights = -pe.get_temperature_implicit_weights(coordinates, reference_temperature, kappa)
  if method == 'dense':
    return pe._vertical_matvec(weights, divergence)
  thickness = coordinates.layer_thickness
  weights = weights / thickness
  diag_weights = np.diag(weights)
  up_weights = np.concatenate([[0], weights[1:, 0]])
  down_weights = np.concatenate([weights[:-1, -1], [0]])
  divergence = thickness[:, np.newaxis, np.newaxis] * divergence
  up_divergence = jax_numpy_utils.cumsum(divergence, axis=0, sharding=sharding) - divergence
  result = up_weights[:, np.newaxis, np.newaxis] * up_divergence + diag_weights[:, np.newaxis, np.newaxis] * divergence
  if (down_weights != 0).any():
    down_divergence = jax_numpy_utils.reverse_cumsum(divergence, axis=0, sharding=sharding) - divergence
    result += down_weights[:, np.newaxis, np.newaxis] * down_divergence
  return result
pe.get_temperature_implicit = fixed
exec(open('e5.py').read().split("rng = np.random.default_rng(2)")[1].join(["rng = np.random.default_rng(2)",""]) if False else "")
