import os, sys, time
os.environ['XLA_FLAGS']='--xla_force_host_platform_device_count=8'
import jax
X64 = len(sys.argv)>1 and sys.argv[1]=='64'
jax.config.update('jax_enable_x64', X64)
import jax.numpy as jnp, numpy as np
from dinosaur import spherical_harmonic as sh
print(jax.devices())
dt = np.float64 if X64 else np.float32
for impl in (sh.RealSphericalHarmonics, sh.FastSphericalHarmonics):
  for spacing in ('gauss','equiangular','equiangular_with_poles'):
    for (M,L,nlon,nlat) in [(8,9,25,13),(8,9,24,12),(16,17,64,32),(22,23,64,32),(5,7,16,9)]:
      g = sh.Grid(M,L,nlon,nlat,latitude_spacing=spacing, spherical_harmonics_impl=impl, radius=2.5)
      mask = g.mask
      rng = np.random.default_rng(0)
      x = (rng.standard_normal(g.modal_shape)*mask).astype(dt)
      t0=time.time()
      y = g.to_modal(g.to_nodal(x))
      err = np.abs(np.asarray(y)-x).max()
      # integral
      integ = float(g.integrate(g.to_nodal(x)))
      i00 = 2.5**2*np.sqrt(4*np.pi)*x[0,0]
      print(impl.__name__[:4], spacing[:14].ljust(14), (M,L,nlon,nlat), 'rt err %.2e'%err, 'int err %.2e'%abs(integ-i00), y.dtype, '%.2fs'%(time.time()-t0))
