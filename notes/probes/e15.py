from common import *
from dinosaur import xarray_utils as xu, radiation as rad
import datetime
rng = np.random.default_rng(3)
for scale in [scales.DEFAULT_SCALE, scales.Scale(1e3*units.m, 37*units.s, 2.5*units.kg, 3*units.degK), scales.ATMOSPHERIC_SCALE]:
  specs = pe.PrimitiveEquationsSpecs.from_si(scale=scale)
  ref = np.datetime64('1979-01-01T00:00:00')
  mins = rng.integers(-30*365*1440, 60*365*1440, 20000)
  t = ref + mins.astype('timedelta64[m]')
  nd = xu.datetime64_to_nondim_time(t, specs, ref)
  back = xu.nondim_time_to_datetime64(nd, specs, ref)
  print('datetime roundtrip mismatches', int((back != t).sum()), nd.dtype)
  # timedelta whole seconds
  secs = np.concatenate([np.arange(0,5000), rng.integers(0, 10**8, 5000)])
  bad = 0
  for s in secs[:3000]:
    td = np.timedelta64(int(s),'s')
    if specs.dimensionalize_timedelta64(specs.nondimensionalize_timedelta64(td)) != td: bad+=1
  arr = secs.astype('timedelta64[s]')
  nda = specs.nondimensionalize_timedelta64(arr)
  backa = specs.dimensionalize_timedelta64(np.asarray(nda))
  print('timedelta scalar bad', bad, 'array bad', int((backa!=arr).sum()), type(nda))
  # orbital time
  coords = cs.CoordinateSystem(sh.Grid.T21(), sc.SigmaCoordinates.equidistant(2))
  sr = rad.SolarRadiation(coords, specs, ref)
  for tt in [0.0, 1e-3, 5.0, 1234.5, 1e5, -3.0, -1e4, 3e6]:
    ot = sr.time_to_orbital_time(tt)
    print('  t', tt, float(ot.orbital_phase), float(ot.synodic_phase), 0<=float(ot.orbital_phase)<2*np.pi, 0<=float(ot.synodic_phase)<2*np.pi)
  break
