from common import *
rng = np.random.default_rng(1)
specs = pe.PrimitiveEquationsSpecs.from_si()
grid = sh.Grid.T21(radius=specs.radius)
vert = rand_sigma(rng, 6); coords = cs.CoordinateSystem(grid, vert)
oro = rand_modal(rng, grid, (), 10, 0.01)
names = ('specific_humidity','specific_cloud_liquid_water_content','specific_cloud_ice_water_content','other')
for cls, cloud_amp in [(pe.PrimitiveEquationsWithTime,1),(pe.MoistPrimitiveEquations,1),(pe.MoistPrimitiveEquationsWithCloudMoisture,1),(pe.MoistPrimitiveEquationsWithCloudMoisture,0)]:
  st = rand_state(np.random.default_rng(5), coords, 12, tracers=names, with_time=True)
  if cloud_amp==0:
    st.tracers['specific_cloud_liquid_water_content']*=0; st.tracers['specific_cloud_ice_water_content']*=0
  res=[]
  for tref in [np.full(6,250.), 250+30*np.random.default_rng(2).standard_normal(6)]:
    eq = cls(tref, oro, coords, specs)
    tv = np.array(st.temperature_variation); tv[:,0,0] += (250.-tref)*np.sqrt(4*np.pi)
    s2 = pe.StateWithTime(st.vorticity, st.divergence, tv, st.log_surface_pressure, 0.0, st.tracers)
    res.append(eq.explicit_terms(s2)+eq.implicit_terms(s2))
  errs = {f: float(np.abs(np.asarray(getattr(res[0],f))-np.asarray(getattr(res[1],f))).max()/ (np.abs(np.asarray(getattr(res[0],f))).max()+1e-300)) for f in ('vorticity','divergence','temperature_variation','log_surface_pressure')}
  print(cls.__name__, 'cloud' if cloud_amp else 'nocloud', {k:'%.1e'%v for k,v in errs.items()})
