from common import *
# complex scalar as 2x2 real
def amp(factory, z):
  lam = z  # h=1
  G = jnp.array([[lam.real, -lam.imag],[lam.imag, lam.real]])
  eq = ti.ImplicitExplicitODE.from_functions(lambda u: 0*u, lambda u: G@u, lambda u, eta: jnp.linalg.solve(jnp.eye(2)-eta*G, u))
  step = factory(eq, 1.0)
  u1 = step(jnp.array([1.0,0.0]))
  return float(jnp.linalg.norm(u1))
worst = {}
rng = np.random.default_rng(0)
for name in ['backward_forward_euler','crank_nicolson_rk2','crank_nicolson_rk3','crank_nicolson_rk4','imex_rk_sil3']:
  f = getattr(ti, name); w=0; wz=None
  for _ in range(400):
    r = 10**rng.uniform(-3,6); th = rng.uniform(np.pi/2, 3*np.pi/2)
    if rng.random()<0.3: th = np.pi/2 if rng.random()<0.5 else 3*np.pi/2
    z = r*np.exp(1j*th); z = complex(min(z.real,0.0), z.imag)
    a = amp(f, z)
    if a>w: w=a; wz=z
  print(name, 'max amp-1 = %.3e'%(w-1), wz)
