from common import *
from dinosaur import vertical_interpolation as vi
rng = np.random.default_rng(11)
worst = dict(dot_vs_ref=0, interp_vs_ref=0, linlin=0, safe=0)
def ref_interp(x, xp, fp):  # piecewise linear, constant extrapolation
  return np.interp(x, xp, fp)
for trial in range(300):
  n = int(rng.integers(2,9))
  xp = np.sort(rng.uniform(0,1,n)); 
  if (np.diff(xp)<1e-3).any(): continue
  fp = rng.standard_normal(n)
  xs = np.concatenate([xp, (xp[:-1]+xp[1:])/2, rng.uniform(-0.5,1.5,6), [xp[0]-1e-12, xp[-1]+1e-12, xp[0], xp[-1]]])
  for x in xs:
    r = ref_interp(x, xp, fp)
    d = float(vi._dot_interp(x, jnp.asarray(xp), jnp.asarray(fp)))
    i = float(vi.interp(x, jnp.asarray(xp), jnp.asarray(fp)))
    worst['dot_vs_ref']=max(worst['dot_vs_ref'], abs(d-r)); worst['interp_vs_ref']=max(worst['interp_vs_ref'], abs(i-r))
    # linear extrap
    ll = float(vi.linear_interp_with_linear_extrap(x, jnp.asarray(xp), jnp.asarray(fp)))
    if x < xp[0]: rr = fp[0]+(x-xp[0])*(fp[1]-fp[0])/(xp[1]-xp[0])
    elif x > xp[-1]: rr = fp[-1]+(x-xp[-1])*(fp[-1]-fp[-2])/(xp[-1]-xp[-2])
    else: rr = r
    worst['linlin']=max(worst['linlin'], abs(ll-rr)/(1+abs(rr)))
    # safe extrap n=1
    s = float(vi._linear_interp_with_safe_extrap(x, jnp.asarray(xp), jnp.asarray(fp)))
    lo = xp[0]-(xp[1]-xp[0]); hi = xp[-1]+(xp[-1]-xp[-2])
    if x < lo or x > hi: ok = np.isnan(s)
    else: ok = abs(s-rr) < 1e-9*(1+abs(rr))
    if not ok: worst['safe']+=1; print('safe mismatch', x, xp, fp, s, rr, lo, hi)
print(worst)
