from common import *
from dinosaur import held_suarez as hs
rng = np.random.default_rng(3)
tm = jax.tree_util.tree_map
scA = scales.DEFAULT_SCALE
scB = scales.Scale(1.7e5*units.m, 411*units.s, 3.3*units.kg, 2.5*units.degK)
nl=5
b = rand_sigma(rng, nl).boundaries
# physical (SI) description of state: nodal fields in SI generated via DEFAULT grid then converted
def build(scale):
  specs = pe.PrimitiveEquationsSpecs.from_si(scale=scale)
  grid = sh.Grid.T21(radius=specs.radius)
  coords = cs.CoordinateSystem(grid, sc.SigmaCoordinates(b))
  return specs, grid, coords
r = np.random.default_rng(9)
specsA, gridA, coordsA = build(scA)
# SI modal coefficients defined on unit sphere basis: modal coefficient of field f is \int f Y dOmega (radius-independent since basis normalised on unit sphere)
def rm(lead, lmax, amp, zm=False): return rand_modal(r, gridA, lead, lmax, amp, zm)
SI = dict(vort=rm((nl,),20,3e-5,True), div=rm((nl,),20,5e-6,True), T=rm((nl,),20,20.), lsp=rm((1,),20,0.1), q=rm((nl,),20,0.01), oro=rm((),8,2000.), tref=250+20*r.standard_normal(nl))
U = dict(vort=1/units.s, div=1/units.s, T=units.degK, lsp=units.dimensionless, q=units.dimensionless, oro=units.m)
def run(scale):
  specs, grid, coords = build(scale)
  nd = lambda k: np.asarray(specs.nondimensionalize(SI[k]*U[k]))
  lsp_nd = np.array(SI['lsp']); lsp_nd[0,0,0] += np.sqrt(4*np.pi)*np.log(float(specs.nondimensionalize(1e5*units.pascal)))
  st = pe.StateWithTime(vorticity=nd('vort'), divergence=nd('div'), temperature_variation=nd('T'), log_surface_pressure=lsp_nd, sim_time=0.0, tracers={'specific_humidity': SI['q']})
  pass
  tref = np.asarray(specs.nondimensionalize(SI['tref']*units.degK))
  eq = pe.MoistPrimitiveEquations(tref, nd('oro'), coords, specs)
  t = eq.explicit_terms(st) + eq.implicit_terms(st)
  dim = lambda x, u: np.asarray(specs.dimensionalize(np.asarray(x), u).m)
  out = dict(vort=dim(t.vorticity, units('1/s^2')), div=dim(t.divergence, units('1/s^2')), T=dim(t.temperature_variation, units('K/s')), lsp=dim(t.log_surface_pressure, units('1/s')), q=dim(t.tracers['specific_humidity'], units('1/s')))
  # step
  dt = specs.nondimensionalize(600*units.s)
  step = ti.imex_rk_sil3(eq, dt); s2 = step(step(st))
  out['step_T'] = dim(s2.temperature_variation, units('K')); out['step_vort'] = dim(s2.vorticity, units('1/s')); out['time'] = dim(s2.sim_time, units('s'))
  # held suarez
  f = hs.HeldSuarezForcing(coords, specs, tref)
  h = f.explicit_terms(pe.State(st.vorticity, st.divergence, st.temperature_variation, st.log_surface_pressure))
  out['hs_T'] = dim(h.temperature_variation, units('K/s')); out['hs_vort'] = dim(h.vorticity, units('1/s^2'))
  Tn = tref[:,None,None]+np.asarray(grid.to_nodal(st.temperature_variation)); Teq=np.asarray(f.equilibrium_temperature(np.exp(np.asarray(grid.to_nodal(st.log_surface_pressure)))))
  print('Teq clamped fraction', (Teq<=f.minT).mean(), 'ps nondim', float(np.exp(lsp_nd[0,0,0]/np.sqrt(4*np.pi))))
  return out
A = run(scA); B = run(scB)
for k in A: print(k.ljust(10), 'rel diff %.2e'%(np.abs(A[k]-B[k]).max()/np.abs(A[k]).max()))
