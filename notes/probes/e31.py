from common import *
from dinosaur import vertical_interpolation as vi
import types
calls = {'dot':0}
orig = vi._dot_interp
def counting(x, xp, fp):
  calls['dot']+=1; return orig(x, xp, fp)
vi._dot_interp = counting
real_local = jax.local_devices
class FakeDev:  platform='tpu'
xp = jnp.asarray([0.1,0.4,0.7,0.9]); fp = jnp.asarray([1.,3.,2.,5.])
print('cpu path', float(vi.interp(0.5, xp, fp)), calls)
jax.local_devices = lambda *a, **k: [FakeDev()]
try:
  vi.interp.clear_cache() if hasattr(vi.interp,'clear_cache') else jax.clear_caches()
  print('tpu path', float(vi.interp(0.5, xp, fp)), calls)
finally:
  jax.local_devices = real_local
