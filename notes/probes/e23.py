from common import *
from dinosaur import shallow_water_states as sws
rng = np.random.default_rng(4)
specs = sw.ShallowWaterSpecs.from_si(densities=np.array([900., 1000., 1100.])*units.kg/units.m**3)
grid = sh.Grid.T21(radius=specs.radius)
coords = cs.CoordinateSystem(grid, lc.LayerCoordinates(3))
lat = grid.latitudes
# band-limited zonal jets: u = cos(lat) * polynomial in sin(lat)
mu = np.sin(lat)
u = np.stack([np.cos(lat)*(0.05+0.03*mu**2), np.cos(lat)*(0.02*mu+0.04*mu**3), np.cos(lat)*0.03*(1-mu**4)])
st = sws.multi_layer(jnp.asarray(u), specs.densities, coords)
ref_pot = np.array([3.0, 2.0, 1.0])*specs.g*specs.nondimensionalize(5000*units.m)
eq = sw.ShallowWaterEquations(coords, specs, None, ref_pot)
t = eq.explicit_terms(st) + eq.implicit_terms(st)
for n in ('vorticity','divergence','potential'):
  print(n, 'tend max %.2e'%float(jnp.abs(getattr(t,n)).max()), 'state max %.2e'%float(jnp.abs(getattr(st,n)).max()))
# scale of cancelling terms: laplacian of potential
print('lap(potential) max %.2e'%float(jnp.abs(grid.laplacian(st.potential)).max()))
# implicit inverse
x = sw.State(*(jnp.asarray(rand_modal(rng, grid, (3,), 21)) for _ in range(3)))
for eta in (0.01,-0.3,7.0):
  y = x - eta*eq.implicit_terms(x); b = eq.implicit_inverse(y, eta)
  print('eta',eta,'inv err %.2e'%max(float(jnp.abs(p-q).max()) for p,q in zip(jax.tree_util.tree_leaves(b), jax.tree_util.tree_leaves(x))))
