from common import *
rng = np.random.default_rng(3)
specs = pe.PrimitiveEquationsSpecs.from_si()
def mk(ms, nl, M=15):
  mesh=None
  if ms is not None:
    n = int(np.prod(ms)); mesh = jax.sharding.Mesh(np.array(jax.devices()[:n]).reshape(ms), ['z','x','y'])
  grid = sh.Grid.with_wavenumbers(M+1, spherical_harmonics_impl=sh.FastSphericalHarmonics, radius=specs.radius)
  return cs.CoordinateSystem(grid, sc.SigmaCoordinates.equidistant(nl), spmd_mesh=mesh)
def pad(x, c0, c1):
  p = tuple(b-a for a,b in zip(c0.horizontal.modal_shape, c1.horizontal.modal_shape))
  return pu.tree_map_over_nonscalars(lambda a: jnp.pad(a, [(0,0)]*(a.ndim-2)+[(0,p[0]),(0,p[1])]), x)
def trim(x, c0):
  s = c0.horizontal.modal_shape
  return pu.tree_map_over_nonscalars(lambda a: a[..., :s[0], :s[1]], x)
for ms, nl in [((3,1,1),6),((1,6,1),4),((1,1,6),4),((5,1,1),5),((3,2,1),6),((1,2,3),4),((7,1,1),7)]:
  try:
    c0 = mk(None, nl); c = mk(ms, nl)
    x = rand_modal(rng, c0.horizontal, (nl,), 14)
    f0 = c0.horizontal.to_nodal(x); f1 = c.horizontal.to_nodal(pad(x,c0,c))
    ns = c0.horizontal.nodal_shape
    e1 = float(jnp.abs(f1[..., :ns[0], :ns[1]]-f0).max())
    b1 = trim(c.horizontal.to_modal(f1), c0); e2 = float(jnp.abs(b1-x).max())
    # odd number of levels not divisible
    y = rand_modal(rng, c0.horizontal, (nl+1,), 14)
    g1 = c.horizontal.to_nodal(pad(y,c0,c)); e3 = float(jnp.abs(g1[..., :ns[0], :ns[1]]-c0.horizontal.to_nodal(y)).max())
    # cumsum sharded z
    shd = c.dycore_sharding
    z = jnp.asarray(rng.standard_normal((nl,)+c.horizontal.nodal_shape))
    cs1 = __import__('dinosaur.jax_numpy_utils', fromlist=['x']).cumsum(z, 0, sharding=shd); e4 = float(jnp.abs(cs1-jnp.cumsum(z,0)).max())
    print(ms, 'nodal', c.horizontal.nodal_shape, 'to_nodal %.1e to_modal %.1e nondiv %.1e cumsum %.1e'%(e1,e2,e3,e4))
  except Exception as e:
    print(ms, 'EXC', type(e).__name__, str(e)[:200].replace('\n',' '))
