"""Workload generators shared by the property modules.

Descriptors are plain JSON-able dicts (so that a replay file can carry them); `make_*` turn a
descriptor into objects of the repository under test.  Functions that need the repository import
it lazily, so that the orchestrator can enumerate cases without importing jax.
"""
from __future__ import annotations

import functools
import math

import numpy as np

SPACINGS = ('gauss', 'equiangular', 'equiangular_with_poles')


# ------------------------------------------------------------------------------------ grids
def grid_cfg(M, L, nlon, nlat, spacing='gauss', offset=0.0, radius=1.0, impl='real',
             bsm=None, stk=None, rev=None, prec=None) -> dict:
  return dict(M=int(M), L=int(L), nlon=int(nlon), nlat=int(nlat), spacing=spacing,
              offset=float(offset), radius=float(radius), impl=impl, bsm=bsm, stk=stk, rev=rev,
              prec=prec)


def exactness_degree(cfg: dict) -> int:
  """Largest polynomial degree (in sin lat, after the longitude integral) the latitude rule integrates exactly."""
  return 2 * cfg['nlat'] - 1 if cfg['spacing'] == 'gauss' else cfg['nlat'] - 1


def lon_exactness(cfg: dict) -> int:
  """Trapezoid rule on nlon nodes integrates e^{ikx} exactly for |k| <= nlon-1."""
  return cfg['nlon'] - 1


def grid_tag(cfg: dict) -> str:
  t = f"{cfg['impl'][0]}{cfg['M']}.{cfg['L']}.{cfg['nlon']}x{cfg['nlat']}{cfg['spacing'][0]}"
  if cfg['spacing'] == 'equiangular_with_poles':
    t += 'p'
  if cfg.get('offset'):
    t += 'o'
  if cfg.get('radius', 1.0) != 1.0:
    t += 'r'
  for k in ('bsm', 'stk', 'rev', 'prec'):
    if cfg.get(k) is not None:
      t += f"-{k[0]}{str(cfg[k])[:2]}"
  return t


def make_grid(cfg: dict, mesh=None):
  """Builds a dinosaur Grid from a descriptor."""
  from dinosaur import spherical_harmonic as sh  # pylint: disable=import-outside-toplevel
  if cfg['impl'] == 'real':
    impl = sh.RealSphericalHarmonics
  else:
    opts = {}
    if cfg.get('bsm') is not None:
      opts['base_shape_multiple'] = cfg['bsm']
    if cfg.get('stk') is not None:
      opts['stacked_fourier_transforms'] = cfg['stk']
    if cfg.get('rev') is not None:
      opts['reverse_einsum_arg_order'] = cfg['rev']
    if cfg.get('prec') is not None:
      opts['transform_precision'] = cfg['prec']
    if opts:
      impl = functools.partial(sh.FastSphericalHarmonics, **opts)
      # Grid.asdict() reads impl.__name__
      impl.__name__ = 'FastSphericalHarmonics'  # type: ignore[attr-defined]
    else:
      impl = sh.FastSphericalHarmonics
  if cfg.get('factory'):
    fk = dict(latitude_spacing=cfg['spacing'], longitude_offset=cfg['offset'],
              radius=cfg['radius'], spherical_harmonics_impl=impl)
    if mesh is not None:
      raise ValueError('factory grids take no mesh')
    if cfg['factory'].startswith('wn:'):
      return sh.Grid.with_wavenumbers(cfg['M'], dealiasing=cfg['factory'][3:], **fk)
    return getattr(sh.Grid, cfg['factory'])(**fk)
  kw = dict(longitude_wavenumbers=cfg['M'], total_wavenumbers=cfg['L'],
            longitude_nodes=cfg['nlon'], latitude_nodes=cfg['nlat'],
            latitude_spacing=cfg['spacing'], longitude_offset=cfg['offset'],
            radius=cfg['radius'], spherical_harmonics_impl=impl)
  if mesh is not None:
    kw['spmd_mesh'] = mesh
  return sh.Grid(**kw)


def random_grid_cfg(rng: np.random.Generator, max_M=16, impl=None, spacing=None,
                    resolved=True, allow_options=True, min_M=1) -> dict:
  """A random explicit grid.  With resolved=True the quadrature resolves the truncation
  (2(L-1) <= D and 2(M-1) <= nlon-1), i.e. analysis inverts synthesis for every coefficient."""
  M = int(rng.integers(min_M, max_M + 1))
  L = M + int(rng.choice([0, 1, 1, 1, 3]))
  spacing = spacing or str(rng.choice(SPACINGS, p=[0.5, 0.3, 0.2]))
  # minimal node counts for exactness of products of two basis functions
  nlon_min = 2 * M - 1
  if spacing == 'gauss':
    nlat_min = L          # 2(L-1) <= 2n-1
  else:
    nlat_min = 2 * L - 1  # 2(L-1) <= n-1
  if spacing == 'equiangular_with_poles':
    nlat_min = max(nlat_min, 2)
  if resolved:
    nlon = nlon_min + int(rng.choice([0, 0, 1, 2, 5, M + 2]))
    nlat = nlat_min + int(rng.choice([0, 0, 1, 2, 3, L]))
  else:
    nlon = max(M, nlon_min - int(rng.integers(0, M + 1)))
    if M >= 2 and rng.random() < 0.3:
      nlon = max(M, 2 * (M - 1))     # the top zonal wavenumber sits exactly at the Nyquist frequency
    nlat = max(2, nlat_min - int(rng.integers(0, max(1, L // 2) + 1)))
  nlon = max(nlon, 1)
  nlat = max(nlat, 1)
  impl = impl or str(rng.choice(['real', 'fast']))
  cfg = grid_cfg(M, L, nlon, nlat, spacing,
                 offset=float(rng.choice([0.0, rng.uniform(-3, 3)])),
                 radius=float(rng.choice([1.0, rng.uniform(0.1, 10.0)])), impl=impl)
  if impl == 'fast' and allow_options and rng.random() < 0.6:
    cfg['bsm'] = [None, 1, 2, 4, 8][int(rng.integers(5))]
    cfg['stk'] = [None, True, False][int(rng.integers(3))]
    cfg['rev'] = [None, True, False][int(rng.integers(3))]
    cfg['prec'] = [None, 'tensorfloat32', 'float32', 'highest'][int(rng.integers(4))]
  return cfg


FACTORY_GRIDS = {
    # name: (max_wavenumber, gaussian_nodes)
    'T21': (21, 16), 'T31': (31, 24), 'T42': (42, 32), 'T85': (85, 64), 'T106': (106, 80),
    'T119': (119, 90), 'T170': (170, 128),
    'TL31': (31, 16), 'TL47': (47, 24), 'TL63': (63, 32), 'TL95': (95, 48), 'TL127': (127, 64),
    'TL159': (159, 80), 'TL179': (179, 90), 'TL255': (255, 128),
}


def factory_cfg(name: str, impl='fast', spacing='gauss', offset=0.0, radius=1.0) -> dict:
  mw, gn = FACTORY_GRIDS[name]
  c = grid_cfg(mw + 1, mw + 2, 4 * gn, 2 * gn, spacing, offset, radius, impl)
  c['factory'] = name
  return c


def with_wavenumbers_cfg(M: int, dealiasing='quadratic', **kw) -> dict:
  order = {'linear': 2, 'quadratic': 3, 'cubic': 4}[dealiasing]
  nlon = order * M + 1
  c = grid_cfg(M, M + 1, nlon, math.ceil(nlon / 2), **kw)
  c['factory'] = 'wn:' + dealiasing
  return c


# ------------------------------------------------------------------------------------ layouts
def independent_mask(grid) -> np.ndarray:
  """Degrees of freedom of the modal layout, computed from the DOCUMENTED layouts (Real rows
  [0,+1,-1,...], Fast rows [0,(0),+1,-1,...,padding]; |m| <= l < total_wavenumbers), not from
  `grid.mask`: workloads must not inherit a defect of the mask under test."""
  ms = tuple(grid.modal_shape)
  Mw, Lw = grid.longitude_wavenumbers, grid.total_wavenumbers
  i, j = np.meshgrid(np.arange(ms[0]), np.arange(ms[1]), indexing='ij')
  if is_fast(grid):
    return (i < 2 * Mw) & (j < Lw) & (i != 1) & ((i // 2) <= j)
  return (((i + 1) // 2) <= j) & (j < Lw) & (i < 2 * Mw - 1)


def basis_indices(grid) -> list[tuple[int, int]]:
  """(i, j) positions of all unmasked coefficients of a grid."""
  mask = independent_mask(grid)
  ii, jj = np.nonzero(mask)
  return list(zip(ii.tolist(), jj.tolist()))


def is_fast(grid) -> bool:
  from dinosaur import spherical_harmonic as sh  # pylint: disable=import-outside-toplevel
  return isinstance(grid.spherical_harmonics, sh.FastSphericalHarmonics)


def row_kind(grid, i: int) -> tuple[int, str]:
  """(|m|, 'c'|'s') for modal row i under the documented layouts."""
  if is_fast(grid):
    return i // 2, ('s' if i % 2 == 1 else 'c')
  if i == 0:
    return 0, 'c'
  return (i + 1) // 2, ('c' if i % 2 == 1 else 's')


def real_to_fast(x: np.ndarray, gr, gf) -> np.ndarray:
  """Re-index Real-layout coefficients into the (possibly padded) Fast layout."""
  out = np.zeros(x.shape[:-2] + tuple(gf.modal_shape), x.dtype)
  Mr, Lr = gr.modal_shape
  out[..., 0, :Lr] = x[..., 0, :]
  out[..., 2:2 + Mr - 1, :Lr] = x[..., 1:, :]
  return out


def fast_to_real(y: np.ndarray, gr, gf) -> np.ndarray:
  Mr, Lr = gr.modal_shape
  out = np.zeros(y.shape[:-2] + tuple(gr.modal_shape), y.dtype)
  out[..., 0, :] = y[..., 0, :Lr]
  out[..., 1:, :] = y[..., 2:2 + Mr - 1, :Lr]
  return out


def pad_nodal(z: np.ndarray, grid) -> np.ndarray:
  """Zero-pad unpadded nodal values (nlon, nlat) to grid.nodal_shape."""
  ns = tuple(grid.nodal_shape)
  out = np.zeros(z.shape[:-2] + ns, z.dtype)
  out[..., :z.shape[-2], :z.shape[-1]] = z
  return out


def crop_nodal(z: np.ndarray, cfg: dict) -> np.ndarray:
  return z[..., :cfg['nlon'], :cfg['nlat']]


# ------------------------------------------------------------------------------------ vertical
def sigma_boundaries(rng: np.random.Generator, n: int, uneven=True, ratio=6.0) -> np.ndarray:
  if not uneven or n == 1:
    return np.linspace(0.0, 1.0, n + 1)
  w = np.exp(rng.uniform(0, math.log(ratio), n))
  b = np.concatenate([[0.0], np.cumsum(w) / w.sum()])
  b[-1] = 1.0
  return b


def make_sigma(boundaries):
  from dinosaur import sigma_coordinates as sc  # pylint: disable=import-outside-toplevel
  return sc.SigmaCoordinates(np.asarray(boundaries, dtype=np.float64))


# ------------------------------------------------------------------------------------ spectra
def rand_modal(rng, grid, lead=(), lmax=None, amp=1.0, decay=0.0, zero_mean=False,
               dtype=np.float64, lmin=0):
  """Random coefficients on the unmasked entries with l in [lmin, lmax]; spectrum ~ (1+l)^-decay."""
  ms = tuple(grid.modal_shape)
  l = np.broadcast_to(np.arange(ms[1])[None, :], ms)
  mask = independent_mask(grid)
  if lmax is None:
    lmax = grid.total_wavenumbers - 1
  sel = mask & (l <= lmax) & (l >= lmin)
  x = rng.standard_normal(tuple(lead) + tuple(grid.modal_shape)) * sel * amp
  if decay:
    x = x / (1.0 + l) ** decay
  if zero_mean:
    x[..., 0, 0] = 0.0
  return x.astype(dtype)


def np_dtype(M) -> type:
  return np.float64 if getattr(M, 'env', 'f64').startswith('f64') or getattr(M, 'env', '') == 'np' else np.float32
