"""Shared builders for dynamics workloads (primitive equations / shallow water).

Everything is specified in SI units and non-dimensionalised through the `specs` under test, so
the same descriptor describes the same physical problem under any `Scale`.  Amplitudes are
physical (wind, temperature perturbation, orography, humidity) because arbitrary amplitudes make
explicit steps CFL-unstable, which is not a violation of any property.

Descriptors are JSON-able dicts so that replays can carry them.
"""
from __future__ import annotations

import numpy as np

from vp import gen

SQ4PI = float(np.sqrt(4 * np.pi))


# ------------------------------------------------------------------------------------ scales/specs
def make_scale(desc=None):
  """desc: None|'default'|'atmospheric'|{'length_m','time_s','mass_kg','temperature_K'}."""
  from dinosaur import scales  # pylint: disable=import-outside-toplevel
  u = scales.units
  if desc in (None, 'default'):
    return scales.DEFAULT_SCALE
  if desc == 'atmospheric':
    return scales.ATMOSPHERIC_SCALE
  return scales.Scale(desc['length_m'] * u.m, desc['time_s'] * u.s, desc['mass_kg'] * u.kg,
                      desc['temperature_K'] * u.degK)


def random_scale_desc(rng) -> dict:
  return {'length_m': float(10 ** rng.uniform(2, 8)), 'time_s': float(10 ** rng.uniform(0, 5)),
          'mass_kg': float(10 ** rng.uniform(-3, 19)), 'temperature_K': float(10 ** rng.uniform(-1, 1))}


def make_specs(scale_desc=None, consts: dict | None = None):
  """PrimitiveEquationsSpecs from SI constants; consts may override radius_m, omega, g, R, kappa."""
  from dinosaur import primitive_equations as pe, scales  # pylint: disable=import-outside-toplevel
  u = scales.units
  kw = {}
  c = consts or {}
  if 'radius_m' in c:
    kw['radius_si'] = c['radius_m'] * u.m
  if 'omega' in c:
    kw['angular_velocity_si'] = c['omega'] / u.s
  if 'g' in c:
    kw['gravity_acceleration_si'] = c['g'] * u.m / u.s ** 2
  if 'R' in c:
    kw['ideal_gas_constant_si'] = c['R'] * u.J / u.kg / u.degK
  if 'kappa' in c:
    kw['kappa_si'] = c['kappa'] * u.dimensionless
  return pe.PrimitiveEquationsSpecs.from_si(scale=make_scale(scale_desc), **kw)


def make_coords(grid_cfg: dict, boundaries, specs=None, mesh=None, radius_from_specs=True):
  """CoordinateSystem(grid, SigmaCoordinates); grid radius = specs.radius unless told otherwise."""
  from dinosaur import coordinate_systems as cs  # pylint: disable=import-outside-toplevel
  cfg = dict(grid_cfg)
  if specs is not None and radius_from_specs:
    cfg['radius'] = float(specs.radius)
  grid = gen.make_grid(cfg, mesh=mesh)
  vert = gen.make_sigma(boundaries)
  if mesh is not None:
    return cs.CoordinateSystem(grid, vert, spmd_mesh=mesh)
  return cs.CoordinateSystem(grid, vert)


# ------------------------------------------------------------------------------------ states
def _scaled_field(rng, grid, lead, lmax, decay, target_nodal_max, zero_mean=False, lmin=0):
  x = gen.rand_modal(rng, grid, lead, lmax=lmax, decay=decay, zero_mean=zero_mean, lmin=lmin)
  nod = np.asarray(grid.to_nodal(x))
  mx = float(np.abs(nod).max())
  if mx > 0:
    x = x * (target_nodal_max / mx)
  return x


def phys_state_si(rng, grid, layers: int, lmax=None, decay=1.0, wind=40.0, div_wind=4.0, dT=10.0,
                  dlnps=0.03, q_mean=0.008, dq=0.006, tracers=(), radius_m=6.371e6) -> dict:
  """Random admissible state in SI units on `grid` (modal coefficients, unit-sphere basis).

  vorticity/divergence in 1/s with zero mean, scaled so that the rotational (divergent) wind is
  at most `wind` (`div_wind`) m/s *for a sphere of the Earth's radius*; temperature deviation in
  K; log surface pressure deviation (dimensionless, mean added by `to_state`); tracers
  dimensionless.  The top total wavenumber is left empty ("clipped").
  """
  L = grid.total_wavenumbers
  if lmax is None:
    lmax = L - 2
  lmax = min(lmax, L - 2)
  a_earth = radius_m
  # scale vorticity so that |u| <= wind on the Earth's sphere: u ~ a * zeta / l
  from dinosaur import spherical_harmonic as sh  # pylint: disable=import-outside-toplevel
  unit_grid = grid if grid.radius == 1.0 else None
  def wind_of(vor, div):
    g = unit_grid or _unit_radius_copy(grid)
    u, v = sh.vor_div_to_uv_nodal(g, vor, div)
    return float(max(np.abs(np.asarray(u)).max(), np.abs(np.asarray(v)).max())) * a_earth
  vor = gen.rand_modal(rng, grid, (layers,), lmax=lmax, decay=decay, zero_mean=True, lmin=1)
  div = gen.rand_modal(rng, grid, (layers,), lmax=lmax, decay=decay, zero_mean=True, lmin=1)
  w = wind_of(vor, 0 * div)
  if w > 0:
    vor = vor * (wind / w)
  w = wind_of(0 * vor, div)
  if w > 0:
    div = div * (div_wind / w)
  out = {
      'vorticity': vor, 'divergence': div,
      'temperature': _scaled_field(rng, grid, (layers,), lmax, decay, dT),
      'lnps': _scaled_field(rng, grid, (1,), lmax, decay, dlnps),
      'tracers': {},
  }
  for name in tracers:
    if name == 'uniform':
      t = np.zeros((layers,) + tuple(grid.modal_shape))
      t[:, 0, 0] = 0.7 * SQ4PI
    elif name in ('specific_cloud_liquid_water_content', 'specific_cloud_ice_water_content'):
      t = _scaled_field(rng, grid, (layers,), lmax, decay, 2e-4)
      t[:, 0, 0] += 3e-4 * SQ4PI
    else:
      t = _scaled_field(rng, grid, (layers,), lmax, decay, dq)
      t[:, 0, 0] += q_mean * SQ4PI
    out['tracers'][name] = t
  return out


_UNIT_CACHE: dict = {}


def _unit_radius_copy(grid):
  import dataclasses  # pylint: disable=import-outside-toplevel
  key = id(grid)
  if key not in _UNIT_CACHE:
    _UNIT_CACHE[key] = (dataclasses.replace(grid, radius=1.0), grid)  # keep grid alive: id stays unique
  return _UNIT_CACHE[key][0]


def to_state(si: dict, specs, with_time=False, p0_pa=1.0e5, dtype=np.float64, sim_time=0.0):
  """Non-dimensionalise an SI state description for `specs` and build State / StateWithTime."""
  from dinosaur import primitive_equations as pe, scales  # pylint: disable=import-outside-toplevel
  u = scales.units
  nd = lambda x, unit: np.asarray(specs.nondimensionalize(x * unit))
  lsp = np.array(si['lnps'], dtype=np.float64)
  lsp[..., 0, 0] += SQ4PI * float(np.log(specs.nondimensionalize(p0_pa * u.pascal)))
  kw = dict(
      vorticity=nd(si['vorticity'], 1 / u.s).astype(dtype),
      divergence=nd(si['divergence'], 1 / u.s).astype(dtype),
      temperature_variation=nd(si['temperature'], u.degK).astype(dtype),
      log_surface_pressure=lsp.astype(dtype),
      tracers={k: np.asarray(v).astype(dtype) for k, v in si['tracers'].items()})
  if with_time:
    return pe.StateWithTime(sim_time=dtype(sim_time) if dtype is not np.float64 else float(sim_time), **kw)
  return pe.State(**kw)


def orography_si(rng, grid, lmax=8, height=3000.0, decay=1.0):
  """Band-limited random orography [m] (modal)."""
  if height == 0:
    return np.zeros(tuple(grid.modal_shape))
  return _scaled_field(rng, grid, (), min(lmax, grid.total_wavenumbers - 2), decay, height)


def nondim_orography(oro_si, specs, dtype=np.float64):
  from dinosaur import scales  # pylint: disable=import-outside-toplevel
  return np.asarray(specs.nondimensionalize(oro_si * scales.units.m)).astype(dtype)


def tref_profile(rng, layers: int, kind='random', centers=None) -> np.ndarray:
  """Reference temperature profiles [K]."""
  if centers is None:
    centers = (np.arange(layers) + 0.5) / layers
  centers = np.asarray(centers)
  if kind == 'constant':
    return np.full(layers, 288.0)
  if kind == 'linear':
    return 210.0 + 80.0 * centers
  if kind == 'tropopause':
    return np.maximum(215.0, 288.0 * centers ** 0.19)
  if kind == 'cooling':            # monotonically colder towards the surface (no warming step)
    return 300.0 - 75.0 * centers
  if kind == 'isothermal_top':     # the two uppermost layers equal, varying below
    t = 215.0 + 70.0 * np.maximum(centers - centers[min(1, layers - 1)], 0.0) + 8.0 * rng.standard_normal(layers) * (np.arange(layers) > 1)
    return t
  if kind == 'bump':               # non-constant with EQUAL top and bottom values (symmetric bump)
    c_ = (np.arange(layers) + 0.5) / layers        # symmetric in the layer index, whatever the spacing
    return 230.0 + 240.0 * c_ * (1.0 - c_)
  if kind == 'plateau_cooling':    # a plateau on top, then monotonically colder
    return 290.0 - 60.0 * np.maximum(centers - 0.4, 0.0)
  return 250.0 + 25.0 * rng.standard_normal(layers)


EQ_CLASSES = {'dry': 'PrimitiveEquations', 'time': 'PrimitiveEquationsWithTime',
              'moist': 'MoistPrimitiveEquations', 'cloud': 'MoistPrimitiveEquationsWithCloudMoisture'}
EQ_TRACERS = {'dry': (), 'time': (), 'moist': ('specific_humidity',),
              'cloud': ('specific_humidity', 'specific_cloud_liquid_water_content',
                        'specific_cloud_ice_water_content')}


def make_eq(kind: str, tref_K, oro_nd, coords, specs, **kw):
  from dinosaur import primitive_equations as pe, scales  # pylint: disable=import-outside-toplevel
  tref = np.asarray(specs.nondimensionalize(np.asarray(tref_K) * scales.units.degK))
  return getattr(pe, EQ_CLASSES[kind])(tref, oro_nd, coords, specs, **kw)


def absolute_shift(state, tref_old_nd, tref_new_nd):
  """Same physical atmosphere expressed against another reference profile (shifts the (0,0)
  coefficient of the temperature deviation per level)."""
  import dataclasses  # pylint: disable=import-outside-toplevel
  tv = np.array(state.temperature_variation)
  tv[:, 0, 0] += (np.asarray(tref_old_nd) - np.asarray(tref_new_nd)) * SQ4PI
  return dataclasses.replace(state, temperature_variation=tv.astype(np.asarray(state.temperature_variation).dtype))


# ------------------------------------------------------------------------------------ integrators
INTEGRATORS = ('backward_forward_euler', 'crank_nicolson_rk2', 'crank_nicolson_rk3',
               'crank_nicolson_rk4', 'imex_rk_sil3')


def make_step(eq, dt, integrator: str):
  from dinosaur import time_integration as ti  # pylint: disable=import-outside-toplevel
  return getattr(ti, integrator)(eq, dt)


def make_filters(grid, dt, stack: str, specs=None):
  """stack in {'none','exp','diff','exp+diff'} -> list of runge-kutta style step filters."""
  from dinosaur import time_integration as ti  # pylint: disable=import-outside-toplevel
  out = []
  if 'exp' in stack:
    out.append(ti.exponential_step_filter(grid, dt))
  if 'diff' in stack:
    out.append(ti.horizontal_diffusion_step_filter(grid, dt, tau=dt * 8.0, order=2))
  return out


def tree_leaves_with_names(state) -> list:
  """[(name, array)] for State / StateWithTime / shallow-water State objects."""
  d = state.asdict() if hasattr(state, 'asdict') else dict(state)
  out = []
  for k, v in d.items():
    if isinstance(v, dict):
      for kk, vv in v.items():
        out.append((f'{k}.{kk}', vv))
    else:
      out.append((k, v))
  return out


def state_norm(state) -> float:
  return float(max(np.abs(np.asarray(v)).max() for _, v in tree_leaves_with_names(state)
                   if np.asarray(v).size))
