"""Harness-side contracts on the real functions of the repository under test (DESIGN.md §2.4).

Nothing in /repo is edited: when the guard `DINOSAUR_VERIF=1` is set (the orchestrator sets it
for every worker, the pytest plugin `vp.pytest_contracts` for the repository's own test-suite),
`install()` replaces a handful of public class / module attributes of the imported `dinosaur`
modules by icontract-decorated versions of themselves.  Every contract is a *structural
postcondition that holds for any (finite) input*:

  to_modal_zero_outside_mask       Grid.to_modal: entries outside Grid.mask are exactly 0.0
  clip_wavenumbers_top_zero        Grid.clip_wavenumbers(x, n): the top n total wavenumbers (and the
                                   padding behind them) of every non-scalar leaf are exactly 0.0
  explicit_terms_clipped           {PrimitiveEquations*, MoistPrimitiveEquations*, ShallowWaterEquations}
                                   .explicit_terms: top total wavenumber of every spectral leaf is 0.0
  implicit_inverse_passthrough     *.implicit_inverse: vorticity, tracers, sim_time returned bit-identical
  filter_scaling_in_unit_interval  filtering.exponential_filter / horizontal_diffusion_filter: the
                                   returned filter, read off on the all-ones spectrum, has finite
                                   factors in (0, 1]
  sigma_boundaries_increasing      SigmaCoordinates.__init__: boundaries strictly increasing, from 0 to 1

Conditions are *named functions* and every decorator carries an explicit `error=` (icontract
re-parses the source of a condition to build its message; lambdas written in call form make that
fail with a SyntaxError that masks the violation).  Conditions evaluate only on concrete arrays:
a call whose arguments or result contain a jax Tracer (inside jit / scan / vmap / grad) is counted
as "traced, skipped"; calls with non-finite *inputs* are counted as "nonfinite, skipped".  Every
contract counts its evaluations, and a contract with zero evaluations is reported as inconclusive
by the property modules, never as held.

References bound before `install()` (e.g. `tree_math.unwrap(eq.explicit_terms)` taken from an
equation object is fine - it is looked up on the class at call time - but `f = Grid.to_modal`
stored earlier is not) bypass the contract; `install()` therefore has to run before the workload
builds anything, and the property modules call it first thing in `run`.
"""
from __future__ import annotations

import os
import sys
from typing import Any, Callable

import numpy as np

GUARD = 'DINOSAUR_VERIF'

CONTRACTS = ('to_modal_zero_outside_mask', 'clip_wavenumbers_top_zero', 'explicit_terms_clipped',
             'implicit_inverse_passthrough', 'filter_scaling_in_unit_interval',
             'sigma_boundaries_increasing')
OPTIONAL_CONTRACTS = ()


class ContractViolation(Exception):
  """A harness-side contract on a repository function does not hold."""


def _new_counter() -> dict:
  return {'evaluated': 0, 'traced_skipped': 0, 'nonfinite_skipped': 0, 'failed': 0,
          'first_failure': None, 'sites': {}}


STATS: dict[str, dict] = {n: _new_counter() for n in CONTRACTS + OPTIONAL_CONTRACTS}
_STATE = {'installed': False, 'unavailable': [], 'wrapped': []}


def enabled() -> bool:
  return os.environ.get(GUARD) == '1'


# ------------------------------------------------------------------------------------ helpers
def _leaves(tree) -> list:
  import jax  # pylint: disable=import-outside-toplevel
  return jax.tree_util.tree_leaves(tree)


def _traced(*trees) -> bool:
  import jax  # pylint: disable=import-outside-toplevel
  for t in trees:
    for leaf in _leaves(t):
      if isinstance(leaf, jax.core.Tracer):
        return True
  return False


def _finite(*trees) -> bool:
  for t in trees:
    for leaf in _leaves(t):
      try:
        a = np.asarray(leaf)
      except Exception:  # pylint: disable=broad-except
        continue
      if a.dtype.kind in 'fc' and not np.all(np.isfinite(a)):
        return False
  return True


def _begin(name: str, site: str, args_trees, result_tree, need_finite_input=True) -> bool:
  """Common gate: returns True if the condition should be evaluated now."""
  st = STATS[name]
  if _traced(*args_trees, result_tree):
    st['traced_skipped'] += 1
    return False
  if need_finite_input and not _finite(*args_trees):
    st['nonfinite_skipped'] += 1
    return False
  st['evaluated'] += 1
  st['sites'][site] = st['sites'].get(site, 0) + 1
  return True


def _fail(name: str, site: str, **details) -> bool:
  st = STATS[name]
  st['failed'] += 1
  if st['first_failure'] is None:
    d = {'site': site, 'test': os.environ.get('PYTEST_CURRENT_TEST')}
    for k, v in details.items():
      try:
        d[k] = v if isinstance(v, (int, float, str, bool, type(None), list, tuple)) else repr(v)[:200]
      except Exception:  # pylint: disable=broad-except
        d[k] = '?'
    st['first_failure'] = d
  return False


def _first_bad(a: np.ndarray, bad: np.ndarray):
  idx = tuple(int(i) for i in np.argwhere(bad)[0])
  return idx, float(np.asarray(a)[idx])


# ------------------------------------------------------------------------------------ conditions
def to_modal_zero_outside_mask(self, z, result) -> bool:
  """Grid.to_modal: every entry of the result outside `self.mask` is exactly 0.0."""
  name, site = 'to_modal_zero_outside_mask', 'Grid.to_modal'
  if not _begin(name, site, [z], result):
    return True
  mask = np.asarray(self.mask)
  n_arrays = 0
  for leaf in _leaves(result):
    a = np.asarray(leaf)
    if a.ndim < 2 or a.shape[-2:] != mask.shape:
      continue
    n_arrays += 1
    bad = (a != 0) & ~mask
    if bad.any():
      idx, val = _first_bad(a, bad)
      return _fail(name, site, index=idx, value=val, count=int(bad.sum()),
                   modal_shape=list(mask.shape))
  if n_arrays == 0:  # nothing of modal shape came back (scalars only): nothing was decided
    STATS[name]['evaluated'] -= 1
    STATS[name]['sites'][site] -= 1
  return True


def clip_wavenumbers_top_zero(self, x, n, result) -> bool:
  """Grid.clip_wavenumbers: the top n total wavenumbers (+ padding) of each non-scalar leaf are 0.0."""
  name, site = 'clip_wavenumbers_top_zero', 'Grid.clip_wavenumbers'
  if not _begin(name, site, [x], result):
    return True
  size = int(self.modal_shape[-1])
  first = max(0, int(self.total_wavenumbers) - int(n))
  n_arrays = 0
  for leaf in _leaves(result):
    a = np.asarray(leaf)
    if a.ndim < 1 or a.shape[-1] != size:
      continue
    n_arrays += 1
    bad = a[..., first:] != 0
    if bad.any():
      idx, val = _first_bad(a[..., first:], bad)
      return _fail(name, site, index=idx, value=val, n=int(n), first_zeroed_wavenumber=first)
  if n_arrays == 0:
    STATS[name]['evaluated'] -= 1
    STATS[name]['sites'][site] -= 1
  return True


def _spectral_leaves(tree, grid):
  size = tuple(int(s) for s in grid.modal_shape)
  out = []
  for leaf in _leaves(tree):
    a = np.asarray(leaf)
    if a.ndim >= 2 and tuple(a.shape[-2:]) == size:
      out.append(a)
  return out


def explicit_terms_clipped(self, state, result) -> bool:
  """explicit_terms: the top total wavenumber (and padding) of every spectral leaf is exactly 0.0."""
  name = 'explicit_terms_clipped'
  site = type(self).__name__ + '.explicit_terms'
  if not _begin(name, site, [state], result):
    return True
  grid = self.coords.horizontal
  first = int(grid.total_wavenumbers) - 1
  arrays = _spectral_leaves(result, grid)
  if not arrays:
    return _fail(name, site, reason='no spectral leaf in the tendency')
  for k, a in enumerate(arrays):
    bad = a[..., first:] != 0
    if bad.any():
      idx, val = _first_bad(a[..., first:], bad)
      return _fail(name, site, leaf=k, index=idx, value=val, top_wavenumber=first)
  return True


def _identical(a, b) -> bool:
  if a is b:
    return True
  x, y = np.asarray(a), np.asarray(b)
  if x.shape != y.shape or x.dtype != y.dtype:
    return False
  return bool(np.array_equal(x, y, equal_nan=x.dtype.kind in 'fc'))


def implicit_inverse_passthrough(self, state, result) -> bool:
  """implicit_inverse: vorticity, tracers and sim_time come back bit-identical."""
  name = 'implicit_inverse_passthrough'
  site = type(self).__name__ + '.implicit_inverse'
  if not _begin(name, site, [state], result, need_finite_input=False):
    return True
  if not _identical(state.vorticity, result.vorticity):
    return _fail(name, site, field='vorticity')
  if hasattr(state, 'tracers'):
    tin, tout = state.tracers, getattr(result, 'tracers', None)
    if tout is None or set(tin.keys()) != set(tout.keys()):
      return _fail(name, site, field='tracers', reason='key set changed')
    for k in tin:
      if not _identical(tin[k], tout[k]):
        return _fail(name, site, field=f'tracers[{k}]')
  if hasattr(state, 'sim_time'):
    if not hasattr(result, 'sim_time') or not _identical(state.sim_time, result.sim_time):
      return _fail(name, site, field='sim_time', got=repr(getattr(result, 'sim_time', None)),
                   want=repr(state.sim_time))
  return True


def _scaling_ok(name, site, f: np.ndarray) -> bool:
  """finite, <= 1, >= 0, and > 0 at total wavenumber 0.

  The mathematical factors exp(-x) are in (0, 1]; an exact 0.0 can only be floating-point
  underflow of exp (x > 745 in float64, > 103 in float32), which is not a defect of the code, so
  exact zeros above l = 0 are tolerated and counted ('underflow_zero_factors'); the property
  check C15 asserts strict positivity on parameter ranges where the exact factor is representable.
  """
  if not np.all(np.isfinite(f)):
    bad = ~np.isfinite(f)
    idx, val = _first_bad(f, bad)
    return _fail(name, site, reason='non-finite factor', index=idx, value=repr(val),
                 count=int(bad.sum()))
  bad = ~((f >= 0) & (f <= 1))
  if bad.any():
    idx, val = _first_bad(f, bad)
    return _fail(name, site, reason='factor outside (0, 1]', index=idx, value=val,
                 count=int(bad.sum()))
  bad = ~(f[..., 0] > 0)
  if bad.any():
    idx, val = _first_bad(f[..., 0], bad)
    return _fail(name, site, reason='factor at total wavenumber 0 is not positive', index=idx,
                 value=val)
  nz = int((f == 0).sum())
  if nz:
    STATS[name]['underflow_zero_factors'] = STATS[name].get('underflow_zero_factors', 0) + nz
  return True


def _filter_factors(result, grid, params):
  """Reads the factors of a returned filter off the all-ones spectrum (public API only)."""
  lead = ()
  try:
    shapes = [np.shape(p) for p in params]
    full = np.broadcast_shapes(*shapes) if shapes else ()
    if len(full) > 2:
      lead = tuple(full[:-2])
    elif len(full) in (1, 2):  # unusual, let broadcasting against the modal shape decide
      lead = tuple(np.broadcast_shapes(full, tuple(grid.modal_shape))[:-2])
  except ValueError:
    lead = ()
  ones = np.ones(lead + tuple(grid.modal_shape), np.float64 if _x64() else np.float32)
  return np.asarray(result(ones))


def _x64() -> bool:
  import jax  # pylint: disable=import-outside-toplevel
  return bool(jax.config.jax_enable_x64)


def exponential_filter_scaling_in_unit_interval(grid, attenuation, order, cutoff, result) -> bool:
  """filtering.exponential_filter: the returned filter's factors are finite and in (0, 1]."""
  name, site = 'filter_scaling_in_unit_interval', 'filtering.exponential_filter'
  if not _begin(name, site, [attenuation, order, cutoff], None):
    return True
  return _scaling_ok(name, site, _filter_factors(result, grid, (attenuation, order, cutoff)))


def diffusion_filter_scaling_in_unit_interval(grid, scale, order, result) -> bool:
  """filtering.horizontal_diffusion_filter: the returned filter's factors are finite and in (0, 1]."""
  name, site = 'filter_scaling_in_unit_interval', 'filtering.horizontal_diffusion_filter'
  if not _begin(name, site, [scale, order], None, need_finite_input=False):
    return True
  return _scaling_ok(name, site, _filter_factors(result, grid, (scale, order)))


def sigma_boundaries_increasing(self) -> bool:
  """SigmaCoordinates.__init__: boundaries strictly increasing from 0 to 1."""
  name, site = 'sigma_boundaries_increasing', 'SigmaCoordinates.__init__'
  b = getattr(self, 'boundaries', None)
  if not _begin(name, site, [b], None, need_finite_input=False):
    return True
  b = np.asarray(b, dtype=np.float64)
  if b.ndim != 1 or b.size < 2:
    return _fail(name, site, reason='fewer than two boundaries', shape=list(b.shape))
  if not np.all(np.diff(b) > 0):
    return _fail(name, site, reason='not strictly increasing', boundaries=b.tolist()[:20])
  if not (abs(b[0]) <= 1e-6 and abs(b[-1] - 1) <= 1e-6):
    return _fail(name, site, reason='does not run from 0 to 1', first=float(b[0]), last=float(b[-1]))
  return True


# ------------------------------------------------------------------------------------ installation
def _wrap_attr(owner: Any, attr: str, condition: Callable, what: str):
  """owner.attr := icontract.ensure(condition, error=ContractViolation)(owner.attr)."""
  import icontract  # pylint: disable=import-outside-toplevel
  original = owner.__dict__[attr] if isinstance(owner, type) else getattr(owner, attr)
  if getattr(original, '__vp_contract__', None):
    return
  description = f'[{what}] {condition.__doc__ or condition.__name__}'

  def error():  # explicit error factory: no source re-parsing of the condition
    st = STATS.get(what, {})
    return ContractViolation(f'{description} :: {st.get("first_failure")}')

  wrapped = icontract.ensure(condition, description=description, error=error)(original)
  try:
    wrapped.__vp_contract__ = what
  except Exception:  # pylint: disable=broad-except
    pass
  setattr(owner, attr, wrapped)
  _STATE['wrapped'].append(f'{getattr(owner, "__name__", owner)}.{attr}')


def install(force: bool = False) -> bool:
  """Attach the contracts (idempotent).  Returns True if they are installed after the call."""
  if _STATE['installed']:
    return True
  if not (enabled() or force):
    return False
  here = os.path.dirname(os.path.dirname(os.path.abspath(__file__)))
  deps = os.path.join(here, '.deps')
  if os.path.isdir(deps) and deps not in sys.path:
    sys.path.append(deps)
  import icontract  # noqa: F401  pylint: disable=import-outside-toplevel,unused-import
  from dinosaur import filtering, primitive_equations as pe, shallow_water as sw  # pylint: disable=import-outside-toplevel
  from dinosaur import sigma_coordinates as sc, spherical_harmonic as sh  # pylint: disable=import-outside-toplevel

  _wrap_attr(sh.Grid, 'to_modal', to_modal_zero_outside_mask, 'to_modal_zero_outside_mask')
  _wrap_attr(sh.Grid, 'clip_wavenumbers', clip_wavenumbers_top_zero, 'clip_wavenumbers_top_zero')
  for cls in (pe.PrimitiveEquations, pe.PrimitiveEquationsWithTime, pe.MoistPrimitiveEquations,
              pe.MoistPrimitiveEquationsWithCloudMoisture, sw.ShallowWaterEquations):
    if 'explicit_terms' in cls.__dict__:
      _wrap_attr(cls, 'explicit_terms', explicit_terms_clipped, 'explicit_terms_clipped')
    if 'implicit_inverse' in cls.__dict__:
      _wrap_attr(cls, 'implicit_inverse', implicit_inverse_passthrough,
                 'implicit_inverse_passthrough')
  _wrap_attr(filtering, 'exponential_filter', exponential_filter_scaling_in_unit_interval,
             'filter_scaling_in_unit_interval')
  _wrap_attr(filtering, 'horizontal_diffusion_filter', diffusion_filter_scaling_in_unit_interval,
             'filter_scaling_in_unit_interval')
  # NOTE: no contract on the private helper filtering._make_filter_fn: it is a generic "scale the
  # leaves of matching shape" combinator and the repository's own test feeds it an all-zero
  # scaling, so "factors in (0, 1]" is a property of the two public filter factories only.
  _wrap_attr(sc.SigmaCoordinates, '__init__', sigma_boundaries_increasing,
             'sigma_boundaries_increasing')
  _STATE['installed'] = True
  return True


def installed() -> bool:
  return _STATE['installed']


def unavailable() -> list:
  return list(_STATE['unavailable'])


def snapshot() -> dict:
  """A deep-enough copy of the counters (for computing per-case deltas)."""
  return {k: {'evaluated': v['evaluated'], 'traced_skipped': v['traced_skipped'],
              'nonfinite_skipped': v['nonfinite_skipped'], 'failed': v['failed'],
              'first_failure': v['first_failure'], 'sites': dict(v['sites']),
              'underflow_zero_factors': v.get('underflow_zero_factors', 0)}
          for k, v in STATS.items()}


def report_to_monitor(M, before: dict | None = None, prefix: str = 'contract_') -> None:
  """Turns the counters accumulated since `before` into oracle evaluations of Monitor `M`.

  One `M.check` per contract that was evaluated at least once (so a contract never evaluated
  has no monitor entry and the property's REQUIRED_MONITORS makes the run inconclusive), the
  evaluation counts go to coverage tables.
  """
  for name, st in STATS.items():
    b = (before or {}).get(name, _new_counter())
    d_eval = st['evaluated'] - b['evaluated']
    d_fail = st['failed'] - b['failed']
    d_tr = st['traced_skipped'] - b['traced_skipped']
    d_nf = st['nonfinite_skipped'] - b['nonfinite_skipped']
    if d_tr:
      M.cover('contract_traced_skipped', name, d_tr)
    if d_nf:
      M.cover('contract_nonfinite_input_skipped', name, d_nf)
    d_uz = st.get('underflow_zero_factors', 0) - b.get('underflow_zero_factors', 0)
    if d_uz:
      M.cover('contract_underflow_zero_factors(tolerated)', name, d_uz)
    if d_eval > 0 or d_fail > 0:
      M.cover('contract_evaluations', name, d_eval)
      for site, n in st['sites'].items():
        dn = n - b['sites'].get(site, 0)
        if dn:
          M.cover('contract_evaluations_by_site', f'{name} @ {site}', dn)
      M.check(prefix + name, d_fail == 0,
              info={'failures': d_fail, 'evaluations': d_eval, 'first_failure': st['first_failure']})
  for name in _STATE['unavailable']:
    M.unavailable(prefix + name)
