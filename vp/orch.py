"""Orchestrator: ./check <ID> <quick|thorough> [--replay path] / --selftest <ID> / --list.

Splits a property's case list into shards, runs each shard in a fresh worker process against
VERIF_REPO (default /repo), merges what the monitors observed, classifies failures against
known_findings.json, writes evidence/<ID>.json and replays/…, prints the verdict.

Exit codes: 0 held (possibly with KNOWN-FINDING lines), 1 violated, 2 inconclusive.
"""
from __future__ import annotations

import concurrent.futures as cf
import importlib
import json
import os
import shutil
import subprocess
import sys
import tempfile
import time

HERE = os.path.dirname(os.path.dirname(os.path.abspath(__file__)))
PY = '/venv/bin/python'
PROPS = [f'C{i:02d}' for i in range(1, 21)]


def repo_path() -> str:
  return os.path.realpath(os.environ.get('VERIF_REPO', '/repo'))


def ensure_deps():
  """icontract / deal beside the repository's interpreter (offline wheelhouse)."""
  deps = os.path.join(HERE, '.deps')
  if os.path.isdir(os.path.join(deps, 'icontract')):
    return
  os.makedirs(deps, exist_ok=True)
  subprocess.run([PY, '-m', 'pip', 'install', '-q', '--no-index', '--find-links',
                  '/opt/veriftools/wheels', '--target', deps, 'icontract', 'deal'],
                 check=False, stdout=subprocess.DEVNULL, stderr=subprocess.DEVNULL)


def load_known(prop: str) -> dict:
  path = os.path.join(HERE, 'known_findings.json')
  if not os.path.exists(path):
    return {}
  with open(path) as f:
    data = json.load(f)
  return {e['id']: e for e in data.get('findings', []) if prop in e.get('properties', [])}


def git_state(repo: str) -> dict:
  def run(*a):
    try:
      return subprocess.run(['git', '-C', repo, *a], capture_output=True, text=True,
                            timeout=20).stdout.strip()
    except Exception:  # pylint: disable=broad-except
      return ''
  return {'head': run('rev-parse', 'HEAD')[:12], 'dirty': run('diff', '--stat')[-400:]}


def lpt_split(cases: list[dict], n: int) -> list[list[dict]]:
  """Longest-processing-time-first split by the cases' 'cost' (default 1)."""
  bins = [[] for _ in range(n)]
  load = [0.0] * n
  for c in sorted(cases, key=lambda c: -float(c.get('cost', 1.0))):
    i = load.index(min(load))
    bins[i].append(c)
    load[i] += float(c.get('cost', 1.0))
  return [b for b in bins if b]


import threading
_STOP = threading.Event()


def _has_unknown_violation(out_path, prop) -> bool:
  """Fail-fast helper (self-test only): has this shard already recorded a non-known violation?"""
  try:
    with open(out_path) as f:
      r = json.load(f)
  except Exception:  # pylint: disable=broad-except
    return False
  ex = r.get('export') or {}
  known = load_known(prop)
  for v in ex.get('violations', []):
    k = v.get('known')
    if not (k and k in known and known[k].get('status') == 'known'):
      return True
  return False


def run_shard(prop, tier, seed, env, cases, repo, timeout, workdir, idx, attempt=0):
  shard_path = os.path.join(workdir, f'shard-{idx}.json')
  out_path = os.path.join(workdir, f'out-{idx}.json')
  log_path = os.path.join(workdir, f'log-{idx}.txt')
  if os.path.exists(out_path):
    os.remove(out_path)
  with open(shard_path, 'w') as f:
    json.dump({'prop': prop, 'tier': tier, 'seed': seed, 'env': env, 'cases': cases,
               'repo': repo}, f)
  penv = dict(os.environ)
  penv.update({'PYTHONHASHSEED': '0', 'PYTHONDONTWRITEBYTECODE': '1', 'DINOSAUR_VERIF': '1',
               'PYTHONPATH': HERE, 'JAX_PLATFORMS': 'cpu',
               'TF_CPP_MIN_LOG_LEVEL': '3'})
  penv.pop('XLA_FLAGS', None)
  t0 = time.time()
  status = 'ok'
  fail_fast = os.environ.get('VP_FAIL_FAST') == '1'
  with open(log_path, 'w') as log:
    p = subprocess.Popen([PY, '-m', 'vp.worker', shard_path, out_path], cwd=HERE, env=penv,
                         stdout=log, stderr=subprocess.STDOUT)
    while True:
      try:
        p.wait(timeout=2.0)
        break
      except subprocess.TimeoutExpired:
        pass
      if time.time() - t0 > timeout:
        p.kill()
        p.wait()
        status = 'timeout'
        break
      if fail_fast:
        if _STOP.is_set():
          p.kill()
          p.wait()
          status = 'stopped'
          break
        if _has_unknown_violation(out_path, prop):
          _STOP.set()
    if status == 'ok' and p.returncode != 0:
      status = f'exit{p.returncode}'
  res = None
  if os.path.exists(out_path):
    try:
      with open(out_path) as f:
        res = json.load(f)
    except Exception:  # pylint: disable=broad-except
      res = None
  tail = ''
  try:
    with open(log_path) as f:
      tail = f.read()[-1500:]
  except Exception:  # pylint: disable=broad-except
    pass
  out = {'idx': idx, 'env': env, 'status': status, 'result': res, 'wall': time.time() - t0,
         'n_cases': len(cases), 'log_tail': tail, 'attempt': attempt}
  crashed = (status.startswith('exit') and (res is None or res.get('status') not in ('done', 'wrong_repo')))
  if crashed and attempt == 0 and not _STOP.is_set():
    # a worker that died without a Python-level verdict (native abort inside jaxlib/XLA, OOM kill):
    # infrastructure, not the repository; run the shard once more before calling it inconclusive
    again = run_shard(prop, tier, seed, env, cases, repo, timeout, workdir, idx, attempt=1)
    again['first_attempt'] = {'status': status, 'log_tail': tail[-300:]}
    return again
  return out


def write_json(path, obj):
  os.makedirs(os.path.dirname(path), exist_ok=True)
  tmp = path + '.tmp'
  with open(tmp, 'w') as f:
    json.dump(obj, f, indent=1, sort_keys=False, default=str)
    f.write('\n')
  os.replace(tmp, path)


def check(prop: str, tier: str, seed: int, only_cases: list[dict] | None = None,
          write_evidence: bool = True) -> int:
  from vp import core  # pylint: disable=import-outside-toplevel
  t0 = time.time()
  repo = repo_path()
  ensure_deps()
  sys.path.insert(0, HERE)
  mod = importlib.import_module(f'vp.props.{prop.lower()}')
  if only_cases is None:
    cases = mod.cases(tier, seed)
  else:
    cases = only_cases
  ids = [c['id'] for c in cases]
  if len(ids) != len(set(ids)):
    dup = sorted({i for i in ids if ids.count(i) > 1})[:5]
    print(f'INCONCLUSIVE property={prop} reason=duplicate case ids {dup}')
    return 2
  nworkers = int(os.environ.get('VP_WORKERS', '14'))
  by_env: dict[str, list[dict]] = {}
  for c in cases:
    by_env.setdefault(c.get('env', 'f64'), []).append(c)
  # workers are shared among environments in proportion to cost
  total_cost = sum(float(c.get('cost', 1.0)) for c in cases) or 1.0
  shards = []
  for env, cs in by_env.items():
    cost = sum(float(c.get('cost', 1.0)) for c in cs)
    per = 2 if env.endswith('x8') else 1   # 8 virtual devices use several threads
    n = max(1, min(len(cs), round(nworkers * cost / total_cost / per) or 1))
    for part in lpt_split(cs, n):
      shards.append((env, part))
  timeout = float(os.environ.get('VP_SHARD_TIMEOUT', getattr(mod, 'TIMEOUT', {}).get(tier, 1500 if tier == 'quick' else 7200)))
  workdir = tempfile.mkdtemp(prefix=f'vp-{prop}-')
  outs = []
  try:
    with cf.ThreadPoolExecutor(max_workers=max(1, nworkers)) as ex:
      futs = [ex.submit(run_shard, prop, tier, seed, env, part, repo, timeout, workdir, i)
              for i, (env, part) in enumerate(shards)]
      for fu in cf.as_completed(futs):
        outs.append(fu.result())
  finally:
    shutil.rmtree(workdir, ignore_errors=True)
  outs.sort(key=lambda o: o['idx'])

  # ------------------------------------------------------------------ merge
  exports, infra = [], []
  case_errors = []
  cases_done = 0
  for o in outs:
    r = o['result']
    if (r is None or r.get('export') is None) and o['status'] == 'stopped':
      continue
    if r is None or r.get('export') is None:
      infra.append(f"shard {o['idx']} ({o['env']}) {o['status']}: no result; log: {o['log_tail'][-400:]!r}")
      continue
    exports.append(r['export'])
    cases_done += len(r['cases_done'])
    case_errors.extend(r.get('case_errors', []))
    if r.get('status') == 'wrong_repo':
      infra.append(r.get('detail', 'wrong repo'))
    elif o['status'] == 'stopped':
      pass  # fail-fast: another shard already found a violation
    elif o['status'] != 'ok' or r.get('status') != 'done':
      infra.append(f"shard {o['idx']} ({o['env']}) {o['status']}/{r.get('status')} while running "
                   f"case {r.get('running')}; log: {o['log_tail'][-400:]!r}")
  merged = core.merge_exports(exports) if exports else None

  known = load_known(prop)
  violations, known_hits = [], {}
  if merged:
    for v in merged['violations']:
      k = v.get('known')
      if k and k in known and known[k].get('status') == 'known':
        known_hits.setdefault(k, []).append(v)
      else:
        violations.append(v)

  # ------------------------------------------------------------------ verdict
  min_nt = getattr(mod, 'MIN_NONTRIVIAL', {}).get(tier, 2)
  required = getattr(mod, 'REQUIRED_MONITORS', {}).get(tier, getattr(mod, 'REQUIRED_MONITORS', {}).get('all', []))
  reasons = list(infra)
  if case_errors:
    reasons.append(f'{len(case_errors)} case(s) failed inside the harness, first: '
                   f"{case_errors[0]['case'].get('id')}: {case_errors[0]['error'][:200]}")
  n_nt = len(merged['nontrivial']) if merged else 0
  if only_cases is None:
    if merged is None or merged['evaluations'] == 0:
      reasons.append('no oracle evaluations')
    if n_nt < min_nt:
      reasons.append(f'only {n_nt} distinct non-trivial cases (< {min_nt})')
    for name in required:
      if not merged or merged['monitors'].get(name, {}).get('n', 0) == 0:
        reasons.append(f'deciding monitor {name} never evaluated')

  replay_paths = []
  if violations:
    verdict = 'violated'
    rdir = os.environ.get('VP_REPLAY_DIR') or os.path.join(HERE, 'replays')
    os.makedirs(rdir, exist_ok=True)
    seen = set()
    for v in violations:
      cid = (v['case'] or {}).get('id', 'unknown')
      if cid in seen:
        continue
      seen.add(cid)
      if len(replay_paths) >= 10:
        break
      safe = ''.join(ch if ch.isalnum() or ch in '-_.' else '_' for ch in cid)[:80]
      path = os.path.join(rdir, f'{prop}-{seed}-{safe}.json')
      write_json(path, {'property': prop, 'tier': tier, 'seed': seed, 'case': v['case'],
                        'violations': [w for w in violations if (w['case'] or {}).get('id') == cid][:20],
                        'repo': git_state(repo), 'repo_path': repo})
      replay_paths.append(path)
  elif reasons:
    verdict = 'inconclusive'
  else:
    verdict = 'held'

  wall = time.time() - t0
  # ------------------------------------------------------------------ evidence
  if write_evidence and only_cases is None and os.environ.get('VP_NO_EVIDENCE') != '1':
    cov = {
        'evaluations': int(merged['evaluations']) if merged else 0,
        'distinct_nontrivial': int(n_nt),
        'rule': getattr(mod, 'RULE', ''),
        'samples': (merged['samples'] if merged and merged['samples'] else [c for c in cases[:2]]),
        'exhaustive': False,
        'cases_generated': len(cases),
        'cases_executed': cases_done,
        'shards': [{'env': o['env'], 'cases': o['n_cases'], 'status': o['status'],
                    'wall_s': round(o['wall'], 1),
                    **({'retried_after': o['first_attempt']['status']} if o.get('first_attempt') else {})}
                   for o in outs],
        'observed': {
            'monitors': {k: {'evaluations': m['n'], 'failures': m['fail'],
                             'worst_margin_residual_over_threshold': _r(m['worst_margin']),
                             'worst_residual': _r(m['worst_residual']),
                             'log10_residual_histogram': dict(sorted(m['hist'].items(), key=_hk))}
                         for k, m in sorted(merged['monitors'].items())} if merged else {},
            'coverage_tables': merged['coverage'] if merged else {},
            'notes': {k: _r(v) for k, v in merged['notes'].items()} if merged else {},
            'discarded_workloads': merged['discards'] if merged else {},
            'unavailable_submonitors': merged['unavailable'] if merged else {},
            'sanitizer_and_warning_events': (merged['events'][:30] if merged else []),
            'memoised_constants_watched': merged['watched'] if merged else 0,
            'known_findings_hit': {k: len(v) for k, v in known_hits.items()},
        },
        'verdict': verdict,
        'inconclusive_reasons': reasons,
        'repo': {'path': repo, **git_state(repo)},
    }
    ev = {
        'property_id': prop, 'tier': tier, 'seed': int(seed), 'level': 'exploration',
        'coverage': cov,
        'assumptions': getattr(mod, 'ASSUMPTIONS', []) + [
            'verdict is "held on the executions listed", never "verified"',
            'jax/jaxlib/XLA, numpy, scipy are trusted; CPU backend only'],
        'wall_s': round(wall, 2),
        'violations': len(violations),
    }
    write_json(os.path.join(HERE, 'evidence', f'{prop}.json'), ev)

  # ------------------------------------------------------------------ report
  nmon = len(merged['monitors']) if merged else 0
  print(f'[{prop} {tier} seed={seed}] cases={cases_done}/{len(cases)} evaluations='
        f"{merged['evaluations'] if merged else 0} monitors={nmon} nontrivial={n_nt} "
        f'wall={wall:.0f}s repo={repo}')
  if merged:
    worst = sorted(merged['monitors'].items(), key=lambda kv: -kv[1]['worst_margin'])[:5]
    for k, m in worst:
      print(f"  monitor {k}: n={m['n']} worst residual/threshold={m['worst_margin']:.2e}")
    if merged['discards']:
      print(f"  discarded workloads: {merged['discards']}")
  for k, vs in known_hits.items():
    print(f"KNOWN-FINDING: property={prop} {k}: {known[k].get('what', '')} "
          f'[{len(vs)} observation(s) this run]')
  if verdict == 'violated':
    for v in violations[:8]:
      d = v.get('details', {})
      print(f"  violation monitor={v['monitor']} case={(v['case'] or {}).get('id')} "
            f"{json.dumps(d)[:600]}")
    for p in replay_paths[:1]:
      print(f'VIOLATION property={prop} replay={p}')
    for p in replay_paths[1:]:
      print(f'  further replay: {p}')
    return 1
  if verdict == 'inconclusive':
    print(f"INCONCLUSIVE property={prop} reason={'; '.join(reasons)[:1500]}")
    return 2
  print(f'HELD property={prop} (on the executions described in evidence/{prop}.json)')
  return 0


def _r(x):
  try:
    return float(f'{float(x):.3e}')
  except Exception:  # pylint: disable=broad-except
    return None


def _hk(kv):
  k = kv[0]
  try:
    return (0, int(k))
  except ValueError:
    return (1 if k == 'zero' else 2, 0)


def replay(prop: str, path: str) -> int:
  with open(path) as f:
    r = json.load(f)
  prop = r.get('property', prop)
  return check(prop, r.get('tier', 'quick'), int(r.get('seed', 0)), only_cases=[r['case']],
               write_evidence=False)


def main(argv):
  args = argv[1:]
  if not args or args[0] in ('-h', '--help'):
    print(__doc__)
    return 2
  if args[0] == '--list':
    print(' '.join(PROPS))
    return 0
  if args[0] == '--selftest':
    from vp import selftest  # pylint: disable=import-outside-toplevel
    return selftest.main(args[1:])
  prop = args[0].upper()
  if '--replay' in args:
    return replay(prop, args[args.index('--replay') + 1])
  tier = os.environ.get('VERIF_TIER') or 'quick'
  if len(args) > 1 and args[1] in ('quick', 'thorough'):
    tier = args[1]
  seed = int(os.environ.get('VERIF_SEED', '0') or 0)
  return check(prop, tier, seed)


if __name__ == '__main__':
  sys.exit(main(sys.argv))
