"""Reference models for the vertical calculus / interpolation properties (C13, C17).

Plain numpy / python loops, float64, written from the docstrings of the routines under test and
from the property statements, not from the repository's code:

* `interp1(x, xp, fp, mode, n)` — the piecewise-linear interpolant through strictly increasing
  nodes with the three documented behaviours outside the node range
    'constant'  the end value                     (vertical_interpolation: "constant extrapolation")
    'linear'    the end cell's line, unlimited    ("unlimited linear extrapolation at each end")
    'safe'      the end cell's line for `n` end-cell widths beyond the end node, missing (NaN)
                beyond that                        ("extrapolation for n grid cells at each end")
* `classify(x, xp, n)` — where a query sits relative to the nodes / the safe limits, with the
  distance (in units of spacing) to the nearest point where the documented behaviour switches;
  the monitors use it to leave un-asserted what the documentation does not pin down (a query
  within rounding of the NaN limit).
* midpoint-rule and log-sigma trapezoid integrals, centred differences / advection and the
  geopotential weight matrix of the sigma calculus, as explicit loops over layers.
"""
from __future__ import annotations

import math

import numpy as np


# ------------------------------------------------------------------------------------------
# piecewise-linear interpolant
# ------------------------------------------------------------------------------------------
def _cell(x: float, xp) -> int:
  """Index i of a cell [xp[i], xp[i+1]] containing x (x inside the node range)."""
  n = len(xp)
  lo, hi = 0, n - 1
  # bisection on the python floats; any containing cell is fine (the interpolant is continuous)
  while hi - lo > 1:
    mid = (lo + hi) // 2
    if x >= xp[mid]:
      lo = mid
    else:
      hi = mid
  return lo


def _line(x: float, x0: float, x1: float, f0: float, f1: float) -> float:
  return f0 + (x - x0) * ((f1 - f0) / (x1 - x0))


def safe_limits(xp, n: int = 1) -> tuple[float, float]:
  """The outermost coordinates still served by 'safe' extrapolation over n end cells."""
  xp = [float(v) for v in xp]
  return xp[0] - n * (xp[1] - xp[0]), xp[-1] + n * (xp[-1] - xp[-2])


def _check_nodes(xp, fp):
  xp = [float(v) for v in xp]
  fp = [float(v) for v in fp]
  if len(xp) < 2 or len(fp) != len(xp):
    raise ValueError('need >= 2 nodes and as many values')
  for i in range(len(xp) - 1):
    if not xp[i + 1] > xp[i]:
      raise ValueError('nodes must be strictly increasing')
  return xp, fp


def _eval(x: float, xp: list, fp: list, mode: str, n: int) -> float:
  if xp[0] <= x <= xp[-1]:
    i = _cell(x, xp)
    return _line(x, xp[i], xp[i + 1], fp[i], fp[i + 1])
  if x != x:
    return math.nan
  left = x < xp[0]
  if mode == 'constant':
    return fp[0] if left else fp[-1]
  if mode == 'safe':
    lo, hi = xp[0] - n * (xp[1] - xp[0]), xp[-1] + n * (xp[-1] - xp[-2])
    if x < lo or x > hi:
      return math.nan
  elif mode != 'linear':
    raise ValueError(mode)
  if left:
    return _line(x, xp[0], xp[1], fp[0], fp[1])
  return _line(x, xp[-2], xp[-1], fp[-2], fp[-1])


def interp1(x: float, xp, fp, mode: str = 'constant', n: int = 1) -> float:
  """Value at scalar `x` of the piecewise-linear interpolant of (xp, fp)."""
  xp, fp = _check_nodes(xp, fp)
  return _eval(float(x), xp, fp, mode, n)


def interp(xs, xp, fp, mode: str = 'constant', n: int = 1) -> np.ndarray:
  """`interp1` over an array of queries."""
  xp, fp = _check_nodes(xp, fp)
  xs = np.asarray(xs, dtype=np.float64)
  out = np.empty(xs.shape, dtype=np.float64)
  flat = xs.ravel()
  o = out.reshape(-1)
  for k in range(flat.size):
    o[k] = _eval(float(flat[k]), xp, fp, mode, n)
  return out


def interp_columns(x, xp, fp, mode: str = 'constant', n: int = 1) -> np.ndarray:
  """Column-wise interpolation of fields `[..., level, i, j]`.

  x:  targets, shape (a, i, j) (or (a,) broadcast to every column)
  xp: source coordinates, shape (b,) or (b, i, j)
  fp: source values, shape (..., b, i, j)
  Returns (..., a, i, j).
  """
  fp = np.asarray(fp, dtype=np.float64)
  ni, nj = fp.shape[-2:]
  x = np.asarray(x, dtype=np.float64)
  xp = np.asarray(xp, dtype=np.float64)
  if x.ndim == 1:
    x = np.broadcast_to(x[:, None, None], (x.shape[0], ni, nj))
  if xp.ndim == 1:
    xp = np.broadcast_to(xp[:, None, None], (xp.shape[0], ni, nj))
  lead = fp.shape[:-3]
  out = np.empty(lead + (x.shape[0], ni, nj))
  for idx in np.ndindex(*lead):
    for i in range(ni):
      for j in range(nj):
        out[idx + (slice(None), i, j)] = interp(x[:, i, j], xp[:, i, j], fp[idx + (slice(None), i, j)],
                                                mode, n)
  return out


def weight_scale(xs, xp, mode: str = 'constant', n: int = 1) -> float:
  """Largest |interpolation weight| any of the queries uses (growth factor of rounding errors).

  1 inside the nodes / for constant extrapolation; 1 + 2*distance/cell for linear extrapolation.
  """
  xp = [float(v) for v in xp]
  w = 1.0
  if mode == 'constant':
    return w
  for x in np.asarray(xs, dtype=np.float64).ravel():
    if x < xp[0]:
      t = (xp[0] - x) / (xp[1] - xp[0])
    elif x > xp[-1]:
      t = (x - xp[-1]) / (xp[-1] - xp[-2])
    else:
      continue
    if mode == 'safe':
      t = min(t, n + 1.0)
    if math.isfinite(t):
      w = max(w, 1.0 + 2.0 * t)
  return w


def classify(xs, xp, n: int = 1, band: float = 64.0) -> dict:
  """Boolean masks over the queries.

  inside     xp[0] <= x <= xp[-1]
  outside    not inside
  safe_in    outside, and closer to the nodes than the safe limit by more than `band` ulps
  safe_out   beyond the safe limit by more than `band` ulps
  safe_edge  within `band` ulps of a safe limit: whether the routine still answers there
             depends on rounding of the limit itself, which no documentation pins down
  The ulp is taken at the magnitude of the largest coordinate involved.
  """
  xs = np.asarray(xs, dtype=np.float64)
  xp = np.asarray(xp, dtype=np.float64)
  lo, hi = safe_limits(xp, n)
  mag = max(abs(lo), abs(hi), float(np.max(np.abs(xp))))
  tol = band * np.spacing(mag) * (1 + n)
  inside = (xs >= xp[0]) & (xs <= xp[-1])
  edge = (np.abs(xs - lo) <= tol) | (np.abs(xs - hi) <= tol)
  safe_out = ((xs < lo) | (xs > hi)) & ~edge
  safe_in = ~inside & ~safe_out & ~edge
  return {'inside': inside, 'outside': ~inside, 'safe_in': safe_in, 'safe_out': safe_out,
          'safe_edge': edge & ~inside}


def neighbour_bounds(xs, xp, fp) -> tuple[np.ndarray, np.ndarray]:
  """(min, max) of the two node values bracketing each inside query (NaN for outside ones)."""
  xs = np.asarray(xs, dtype=np.float64)
  xpl = [float(v) for v in xp]
  lo = np.full(xs.shape, np.nan)
  hi = np.full(xs.shape, np.nan)
  fl, hl = lo.ravel(), hi.ravel()
  for k, x in enumerate(xs.ravel()):
    if xpl[0] <= x <= xpl[-1]:
      i = _cell(float(x), xpl)
      a, b = float(fp[i]), float(fp[i + 1])
      fl[k], hl[k] = min(a, b), max(a, b)
      # a query equal to a node may be served from either adjacent cell: both give the node value
      if x == xpl[i]:
        fl[k] = hl[k] = a
      elif x == xpl[i + 1]:
        fl[k] = hl[k] = b
  return lo, hi


# ------------------------------------------------------------------------------------------
# sigma calculus (layers indexed from the top, sigma=0, to the surface, sigma=1)
# ------------------------------------------------------------------------------------------
def _move(x, axis):
  return np.moveaxis(np.asarray(x, dtype=np.float64), axis, 0)


def sigma_centers(boundaries) -> np.ndarray:
  b = [float(v) for v in boundaries]
  return np.array([(b[k] + b[k + 1]) / 2 for k in range(len(b) - 1)])


def sigma_thickness(boundaries) -> np.ndarray:
  b = [float(v) for v in boundaries]
  return np.array([b[k + 1] - b[k] for k in range(len(b) - 1)])


def midpoint_integral(x, boundaries, axis) -> np.ndarray:
  """sum_k x_k * thickness_k, the layer axis removed."""
  xm = _move(x, axis)
  d = sigma_thickness(boundaries)
  tot = np.zeros(xm.shape[1:])
  for k in range(xm.shape[0]):
    tot = tot + xm[k] * d[k]
  return tot


def midpoint_cumulative(x, boundaries, axis, downward: bool) -> np.ndarray:
  """Midpoint rule from sigma=0 to each layer's lower boundary (downward) or from sigma=1 to
  each layer's upper boundary (upward); the measure is positive in both directions."""
  xm = _move(x, axis)
  d = sigma_thickness(boundaries)
  K = xm.shape[0]
  out = np.zeros_like(xm)
  for k in range(K):
    rng = range(0, k + 1) if downward else range(k, K)
    acc = np.zeros(xm.shape[1:])
    for j in rng:
      acc = acc + xm[j] * d[j]
    out[k] = acc
  return np.moveaxis(out, 0, axis)


def log_sigma_trapezoid_upward(x, boundaries, axis) -> np.ndarray:
  """Trapezoid rule for the integral of x d(log sigma) between each layer centre and the surface.

  x is taken piecewise linear in log(sigma) between layer centres and constant (= the lowest
  layer's value) between the lowest centre and sigma = 1.  Positive measure: the result for
  x = 1 is -log(centre_k) > 0.
  """
  xm = _move(x, axis)
  c = sigma_centers(boundaries)
  K = xm.shape[0]
  ls = [math.log(v) for v in c]
  out = np.zeros_like(xm)
  for k in range(K):
    acc = xm[K - 1] * (0.0 - ls[K - 1])
    for j in range(k, K - 1):
      acc = acc + 0.5 * (xm[j] + xm[j + 1]) * (ls[j + 1] - ls[j])
    out[k] = acc
  return np.moveaxis(out, 0, axis)


def centered_difference(x, boundaries, axis) -> np.ndarray:
  """(x[k+1]-x[k]) / (centre[k+1]-centre[k]) on the K-1 internal boundaries."""
  xm = _move(x, axis)
  c = sigma_centers(boundaries)
  K = xm.shape[0]
  out = np.zeros((max(K - 1, 0),) + xm.shape[1:])
  for k in range(K - 1):
    out[k] = (xm[k + 1] - xm[k]) / (c[k + 1] - c[k])
  return np.moveaxis(out, 0, axis)


def centered_advection(w, x, boundaries, axis, w_bc=None, dx_bc=None) -> np.ndarray:
  """-(w dx/dsigma) at centres: minus the mean of the two adjacent boundary products, with `w`
  and dx/dsigma padded by their (top, bottom) boundary values (zero by default)."""
  xm = _move(x, axis)
  wm = _move(w, axis)
  K = xm.shape[0]
  dx = _move(centered_difference(x, boundaries, axis), axis)
  zero = np.zeros(xm.shape[1:])
  wt, wb = (zero, zero) if w_bc is None else (_move(w_bc[0], axis)[0], _move(w_bc[1], axis)[0])
  dt, db = (zero, zero) if dx_bc is None else (_move(dx_bc[0], axis)[0], _move(dx_bc[1], axis)[0])
  wpad = [wt + zero] + [wm[k] for k in range(K - 1)] + [wb + zero]
  dpad = [dt + zero] + [dx[k] for k in range(K - 1)] + [db + zero]
  out = np.zeros_like(xm)
  for k in range(K):
    out[k] = -0.5 * (wpad[k + 1] * dpad[k + 1] + wpad[k] * dpad[k])
  return np.moveaxis(out, 0, axis)


def sigma_ratios(boundaries) -> np.ndarray:
  """alpha[K-1] = -log(centre[K-1]);  alpha[j] = log(centre[j+1]/centre[j]) / 2 for j < K-1."""
  c = sigma_centers(boundaries)
  K = len(c)
  a = np.zeros(K)
  for j in range(K - 1):
    a[j] = math.log(c[j + 1] / c[j]) / 2
  a[K - 1] = -math.log(c[K - 1])
  return a


def geopotential_weights_over_r(boundaries) -> np.ndarray:
  """The documented matrix G/R: diagonal alpha[j]; above it, column k holds alpha[k-1]+alpha[k]."""
  a = sigma_ratios(boundaries)
  K = len(a)
  g = np.zeros((K, K))
  for j in range(K):
    g[j, j] = a[j]
    for k in range(j + 1, K):
      g[j, k] = a[k - 1] + a[k]
  return g
