"""Independent pointwise reference of the sigma-coordinate primitive equations.

Written from the documentation (the equations quoted in the docstrings of
`dinosaur/primitive_equations.py`, Durran, "Numerical Methods for Fluid Dynamics", §8.6, and the
IFS formulation of the moist thermodynamic equation), not from the repository's implementation:

* Horizontal structure: every field is a finite sum of real orthonormal spherical harmonics whose
  values **and analytic derivatives** come from scipy (`vp.refs.sph_ref`).  Winds are obtained
  from stream function / velocity potential by analytic differentiation.  Nothing is transformed
  back and forth: all products are formed pointwise on a set of points of the sphere.
* Spectral coefficients of a pointwise field are its L2 projections, computed by Gauss-Legendre x
  trapezoid quadrature on a grid of the reference's own choosing.  Divergence and curl of a
  vector field are projected after integration by parts,
      <div E, Y> = -<E, grad Y>,      <k.curl E, Y> = <E, k x grad Y>   (k x grad Y = (-Y_y, Y_x))
  so no derivative of a product is ever taken.
* Vertical structure: the finite differences of Durran §8.6 are written as explicit Python loops
  over levels (k = 0 is the top layer).

Continuous equations (sigma = p / p_s, G = div v + v.grad ln p_s):

    d zeta / dt = -k . curl E                      E = (zeta + f) k x v + sigma_dot dv/dsigma
    d delta / dt = -div E - lap(Phi + |v|^2 / 2)          + R T_v grad ln p_s
    d T / dt    = -v . grad T - sigma_dot dT/dsigma + kappa_m T omega / p
    d ln p_s/dt = -int_0^1 G dsigma
    d q / dt    = -v . grad q - sigma_dot dq/dsigma         (any tracer)
    d Phi / d ln sigma = -R T_v,    Phi(sigma = 1) = g * orography

with T_v = T (1 + (R_v/R - 1) q - q_liquid - q_ice) and, for the moist classes,
kappa_m = kappa (1 + (R_v/R - 1) q) / (1 + (c_pv/c_p - 1) q); the dry classes use T_v = T,
kappa_m = kappa.

Vertical discretisation (layer k between boundaries b[k], b[k+1]; centre s[k]; thickness D[k]):

    S[k]            = sum_{j<=k} G[j] D[j]
    sigma_dot[k+1/2] = b[k+1] S[K-1] - S[k]                       (zero at top and bottom)
    (sigma_dot dx/dsigma)[k] = 1/2 ( sigma_dot[k+1/2] (x[k+1]-x[k]) / (s[k+1]-s[k])
                                   + sigma_dot[k-1/2] (x[k]-x[k-1]) / (s[k]-s[k-1]) )
    (omega/p)[k]    = v[k].grad ln p_s - ( a[k] S[k] + a[k-1] S[k-1] ) / D[k]
    a[k] = 1/2 ln(s[k+1]/s[k])  (k < K-1),   a[K-1] = -ln s[K-1]
    Phi[K-1] = Phi_s + R T_v[K-1] a[K-1],   Phi[k] = Phi[k+1] + R a[k] (T_v[k] + T_v[k+1])
"""
from __future__ import annotations

import numpy as np
import scipy.special as sps

from vp.refs import sph_ref

SQ4PI = float(np.sqrt(4 * np.pi))


# ==================================================================================== horizontal
class Sphere:
  """A set of points lon[i] x sin_lat[j] on a sphere of radius `radius`, with tables of the
  real orthonormal harmonics (0 <= m < M, m <= l < L) and their analytic derivatives.

  Coefficient arrays use the *canonical* layout c[..., m, k, l] with k = 0 (cos m lon) and
  k = 1 (sin m lon); entries with l < m or (m = 0, k = 1) are meaningless and kept at zero.
  If latitude weights are given the object can also project pointwise fields.
  """

  def __init__(self, lon, sin_lat, M: int, L: int, radius: float = 1.0, lat_weights=None):
    self.lon = np.asarray(lon, dtype=np.float64)
    self.mu = np.asarray(sin_lat, dtype=np.float64)
    self.M, self.L, self.a = int(M), int(L), float(radius)
    self.cos = np.sqrt(1.0 - self.mu ** 2)
    self.P, self.dP = sph_ref.legendre_table(self.L, self.M, self.mu)     # [m, j, l]
    nlon = self.lon.size
    self.F = np.zeros((self.M, 2, nlon))
    self.dF = np.zeros((self.M, 2, nlon))
    for m in range(self.M):
      for k, kind in enumerate('cs'):
        self.F[m, k], self.dF[m, k] = sph_ref.fourier(m, kind, self.lon)
    self.w = None
    if lat_weights is not None:
      self.w = (2 * np.pi / nlon) * np.asarray(lat_weights, dtype=np.float64)   # per latitude

  @classmethod
  def gauss(cls, nlon: int, nlat: int, M: int, L: int, radius: float = 1.0) -> 'Sphere':
    x, w = sps.roots_legendre(nlat)
    lon = 2 * np.pi * np.arange(nlon) / nlon
    return cls(lon, x, M, L, radius, lat_weights=w)

  # ------------------------------------------------------------------ synthesis
  def _sub(self, c):
    c = np.asarray(c, dtype=np.float64)
    Mc, Lc = c.shape[-3], c.shape[-1]
    if Mc > self.M or Lc > self.L:
      raise ValueError(f'coefficients ({Mc},{Lc}) exceed the tables ({self.M},{self.L})')
    return c, Mc, Lc

  def values(self, c) -> np.ndarray:
    """f(lon_i, lat_j) for canonical coefficients c[..., m, 2, l]."""
    c, Mc, Lc = self._sub(c)
    A = np.einsum('...mkl,mjl->...mkj', c, self.P[:Mc, :, :Lc])
    return np.einsum('...mkj,mki->...ij', A, self.F[:Mc])

  def gradient(self, c):
    """Physical components (eastward, northward) of grad f on the sphere of radius a."""
    c, Mc, Lc = self._sub(c)
    A = np.einsum('...mkl,mjl->...mkj', c, self.P[:Mc, :, :Lc])
    B = np.einsum('...mkl,mjl->...mkj', c, self.dP[:Mc, :, :Lc])
    fx = np.einsum('...mkj,mki->...ij', A, self.dF[:Mc]) / (self.a * self.cos)
    fy = np.einsum('...mkj,mki->...ij', B, self.F[:Mc]) / self.a
    return fx, fy

  # ------------------------------------------------------------------ projection
  def _need_w(self):
    if self.w is None:
      raise ValueError('this Sphere has no quadrature weights')

  def project(self, f) -> np.ndarray:
    """Canonical coefficients <f, Y> of a pointwise field f[..., i, j] (unit-sphere L2 product)."""
    self._need_w()
    A = np.einsum('...ij,mki->...mkj', np.asarray(f) * self.w, self.F)
    return self._mask(np.einsum('...mkj,mjl->...mkl', A, self.P))

  def project_div(self, Ex, Ey) -> np.ndarray:
    """Coefficients of div E by parts:  -< E, grad Y >."""
    self._need_w()
    A = np.einsum('...ij,mki->...mkj', np.asarray(Ex) * (self.w / (self.a * self.cos)), self.dF)
    B = np.einsum('...ij,mki->...mkj', np.asarray(Ey) * (self.w / self.a), self.F)
    return self._mask(-(np.einsum('...mkj,mjl->...mkl', A, self.P)
                        + np.einsum('...mkj,mjl->...mkl', B, self.dP)))

  def project_curl(self, Ex, Ey) -> np.ndarray:
    """Coefficients of k . curl E by parts:  < Ex, Y_y > - < Ey, Y_x >."""
    self._need_w()
    A = np.einsum('...ij,mki->...mkj', np.asarray(Ey) * (self.w / (self.a * self.cos)), self.dF)
    B = np.einsum('...ij,mki->...mkj', np.asarray(Ex) * (self.w / self.a), self.F)
    return self._mask(np.einsum('...mkj,mjl->...mkl', B, self.dP)
                      - np.einsum('...mkj,mjl->...mkl', A, self.P))

  def _mask(self, c):
    c[..., 0, 1, :] = 0.0
    for m in range(1, self.M):
      c[..., m, :, :min(m, self.L)] = 0.0
    return c

  # ------------------------------------------------------------------ spectral helpers
  def laplacian(self, c) -> np.ndarray:
    c = np.asarray(c, dtype=np.float64)
    l = np.arange(c.shape[-1])
    return -c * (l * (l + 1)) / self.a ** 2

  def inverse_laplacian(self, c) -> np.ndarray:
    c = np.asarray(c, dtype=np.float64)
    out = np.zeros_like(c)
    for l in range(1, c.shape[-1]):
      out[..., l] = -c[..., l] * self.a ** 2 / (l * (l + 1))
    return out

  def wind(self, vorticity, divergence):
    """(u, v) with  v = k x grad psi + grad chi,  lap psi = zeta,  lap chi = delta."""
    psi_x, psi_y = self.gradient(self.inverse_laplacian(vorticity))
    chi_x, chi_y = self.gradient(self.inverse_laplacian(divergence))
    return chi_x - psi_y, chi_y + psi_x


# ==================================================================================== vertical
class Sigma:
  """Level geometry of Durran §8.6 from the layer boundaries (0 = top, 1 = surface)."""

  def __init__(self, boundaries):
    b = np.asarray(boundaries, dtype=np.float64)
    self.b = b
    self.K = K = b.size - 1
    self.D = np.array([b[k + 1] - b[k] for k in range(K)])
    self.s = np.array([0.5 * (b[k + 1] + b[k]) for k in range(K)])
    self.alpha = np.zeros(K)
    for k in range(K - 1):
      self.alpha[k] = 0.5 * np.log(self.s[k + 1] / self.s[k])
    self.alpha[K - 1] = -np.log(self.s[K - 1])


def running_sums(sig: Sigma, G: list) -> list:
  """S[k] = sum_{j<=k} G[j] D[j]."""
  out, acc = [], 0.0
  for k in range(sig.K):
    acc = acc + G[k] * sig.D[k]
    out.append(acc)
  return out


def sigma_dot(sig: Sigma, G: list) -> list:
  """sigma_dot at the K-1 interior interfaces (entry k sits between layers k and k+1)."""
  S = running_sums(sig, G)
  return [sig.b[k + 1] * S[sig.K - 1] - S[k] for k in range(sig.K - 1)]


def vertical_advection(sig: Sigma, sdot: list, x: list) -> list:
  """(sigma_dot dx/dsigma)[k] by the centred average of the two interface values."""
  out = []
  for k in range(sig.K):
    acc = 0.0 * x[k]
    if k < sig.K - 1:
      acc = acc + 0.5 * sdot[k] * (x[k + 1] - x[k]) / (sig.s[k + 1] - sig.s[k])
    if k > 0:
      acc = acc + 0.5 * sdot[k - 1] * (x[k] - x[k - 1]) / (sig.s[k] - sig.s[k - 1])
    out.append(acc)
  return out


def omega_over_p(sig: Sigma, G: list, v_grad_lnps: list) -> list:
  S = running_sums(sig, G)
  out = []
  for k in range(sig.K):
    acc = sig.alpha[k] * S[k]
    if k > 0:
      acc = acc + sig.alpha[k - 1] * S[k - 1]
    out.append(v_grad_lnps[k] - acc / sig.D[k])
  return out


def geopotential(sig: Sigma, Tv: list, phi_surface, R: float) -> list:
  """Hydrostatic integration upward from the surface (trapezoid rule in ln sigma)."""
  K = sig.K
  phi = [None] * K
  phi[K - 1] = phi_surface + R * Tv[K - 1] * (-np.log(sig.s[K - 1]))
  for k in range(K - 2, -1, -1):
    phi[k] = phi[k + 1] + R * 0.5 * (Tv[k] + Tv[k + 1]) * np.log(sig.s[k + 1] / sig.s[k])
  return phi


# ==================================================================================== equations
HUMIDITY = 'specific_humidity'
CLOUD_LIQUID = 'specific_cloud_liquid_water_content'
CLOUD_ICE = 'specific_cloud_ice_water_content'


def evaluate(sph: Sphere, boundaries, state: dict, orography, consts: dict, kind: str = 'dry',
             project: bool = True) -> dict:
  """Pointwise evaluation of the primitive equations on the points of `sph`.

  state: canonical coefficients  vorticity[K,m,2,l], divergence[K,..], temperature[K,..]
  (ABSOLUTE temperature), lnps[m,2,l], tracers {name: [K,..]}.  orography: canonical [m,2,l].
  consts: radius is taken from `sph`; needs omega, g, R, kappa and, for kind in {'moist','cloud'},
  R_vapor, cp_vapor.  Returns pointwise fields (lists over levels) and, if `project`, the
  canonical coefficients of every tendency under key 'tendency'.
  """
  sig = Sigma(boundaries)
  K = sig.K
  R, kappa, g, omega = consts['R'], consts['kappa'], consts['g'], consts['omega']
  moist = kind in ('moist', 'cloud')
  f_cor = 2.0 * omega * sph.mu[None, :]

  lnps = sph.values(state['lnps'])
  lnps_x, lnps_y = sph.gradient(state['lnps'])
  u, v, zeta, delta, T, Tx, Ty = [], [], [], [], [], [], []
  for k in range(K):
    uk, vk = sph.wind(state['vorticity'][k], state['divergence'][k])
    u.append(uk)
    v.append(vk)
    zeta.append(sph.values(state['vorticity'][k]))
    delta.append(sph.values(state['divergence'][k]))
    T.append(sph.values(state['temperature'][k]))
    gx, gy = sph.gradient(state['temperature'][k])
    Tx.append(gx)
    Ty.append(gy)
  tracers = {}
  for name, c in state.get('tracers', {}).items():
    vals, gxs, gys = [], [], []
    for k in range(K):
      vals.append(sph.values(c[k]))
      gx, gy = sph.gradient(c[k])
      gxs.append(gx)
      gys.append(gy)
    tracers[name] = (vals, gxs, gys)

  v_grad_lnps = [u[k] * lnps_x + v[k] * lnps_y for k in range(K)]
  G = [delta[k] + v_grad_lnps[k] for k in range(K)]
  sdot = sigma_dot(sig, G)
  sdot_pressure_gradient_part = sigma_dot(sig, v_grad_lnps)
  w_over_p = omega_over_p(sig, G, v_grad_lnps)

  # moisture factors
  if moist:
    eps = consts['R_vapor'] / R - 1.0
    cpr = consts['cp_vapor'] / (R / kappa)
    q = tracers[HUMIDITY][0]
    load = [0.0 * q[k] for k in range(K)]
    if kind == 'cloud':
      load = [tracers[CLOUD_LIQUID][0][k] + tracers[CLOUD_ICE][0][k] for k in range(K)]
    Tv = [T[k] * (1.0 + eps * q[k] - load[k]) for k in range(K)]
    kappa_m = [kappa * (1.0 + eps * q[k]) / (1.0 + (cpr - 1.0) * q[k]) for k in range(K)]
  else:
    Tv = [T[k] for k in range(K)]
    kappa_m = [kappa for _ in range(K)]

  phi_s = g * sph.values(orography)
  phi = geopotential(sig, Tv, phi_s, R)

  sd_u = vertical_advection(sig, sdot, u)
  sd_v = vertical_advection(sig, sdot, v)
  sd_T = vertical_advection(sig, sdot, T)
  dT = [-(u[k] * Tx[k] + v[k] * Ty[k]) - sd_T[k] + kappa_m[k] * T[k] * w_over_p[k]
        for k in range(K)]
  S = running_sums(sig, G)
  dlnps = -S[K - 1]
  dq = {}
  for name, (vals, gxs, gys) in tracers.items():
    sd_q = vertical_advection(sig, sdot, vals)
    dq[name] = [-(u[k] * gxs[k] + v[k] * gys[k]) - sd_q[k] for k in range(K)]

  # E = (zeta + f) k x v + sigma_dot dv/dsigma + R T_v grad ln p_s,   k x v = (-v, u)
  Ex = [-(zeta[k] + f_cor) * v[k] + sd_u[k] + R * Tv[k] * lnps_x for k in range(K)]
  Ey = [(zeta[k] + f_cor) * u[k] + sd_v[k] + R * Tv[k] * lnps_y for k in range(K)]
  bernoulli = [phi[k] + 0.5 * (u[k] ** 2 + v[k] ** 2) for k in range(K)]

  out = dict(u=u, v=v, vorticity=zeta, divergence=delta, temperature=T, lnps=lnps,
             grad_lnps=(lnps_x, lnps_y), v_grad_lnps=v_grad_lnps, sigma_dot_full=sdot,
             sigma_dot_explicit=sdot_pressure_gradient_part, omega_over_p=w_over_p,
             geopotential=phi, virtual_temperature=Tv, tracers={n: t[0] for n, t in tracers.items()},
             dT=dT, dlnps=dlnps, dq=dq, Ex=Ex, Ey=Ey, bernoulli=bernoulli, sigma=sig)
  if project:
    tend = {'vorticity': [], 'divergence': [], 'temperature': [], 'tracers': {n: [] for n in dq}}
    for k in range(K):
      tend['vorticity'].append(-sph.project_curl(Ex[k], Ey[k]))
      # the Laplacian annihilates constants: remove the (large) mean first to keep the
      # quadrature sums well conditioned
      tend['divergence'].append(-sph.project_div(Ex[k], Ey[k])
                                - sph.laplacian(sph.project(bernoulli[k] - bernoulli[k].mean())))
      tend['temperature'].append(sph.project(dT[k]))
      for n in dq:
        tend['tracers'][n].append(sph.project(dq[n][k]))
    tend['vorticity'] = np.stack(tend['vorticity'])
    tend['divergence'] = np.stack(tend['divergence'])
    tend['temperature'] = np.stack(tend['temperature'])
    tend['tracers'] = {n: np.stack(x) for n, x in tend['tracers'].items()}
    tend['lnps'] = sph.project(dlnps)
    out['tendency'] = tend
  return out


def geopotential_coefficients(boundaries, temperature, orography, g: float, R: float) -> np.ndarray:
  """Dry geopotential in coefficient space (the hydrostatic relation is linear in T):
  temperature[K, ...] absolute temperature coefficients, orography[...] -> Phi[K, ...]."""
  sig = Sigma(boundaries)
  T = [np.asarray(temperature[k], dtype=np.float64) for k in range(sig.K)]
  return np.stack(geopotential(sig, T, g * np.asarray(orography, dtype=np.float64), R))
