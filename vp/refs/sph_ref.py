"""Independent reference for real orthonormal spherical harmonics on the sphere.

Written from the documentation of the coefficient layouts, not from the repository's code: it
uses scipy's `sph_legendre_p` (a different recurrence, different normalisation bookkeeping) and
closed-form trigonometric factors.  Normalisation: every basis function has unit L2 norm on the
unit sphere,  Y = F_m(lon) * Pbar_l^m(sin lat)  with

   F_0 = 1/sqrt(2 pi),  F_m^c = cos(m lon)/sqrt(pi),  F_m^s = sin(m lon)/sqrt(pi)
   Pbar_l^m = sqrt(2 pi) * sph_legendre_p(l, m, colat)     (unit L2([-1,1]) norm in sin lat)
"""
from __future__ import annotations

import numpy as np
import scipy.special as sps

SQ2PI = np.sqrt(2 * np.pi)


def legendre(l: int, m: int, sin_lat: np.ndarray):
  """(Pbar, dPbar/dlat) at the given sin(latitude)."""
  colat = np.arccos(np.clip(sin_lat, -1.0, 1.0))
  p, dp = sps.sph_legendre_p(l, m, colat, diff_n=1)
  return SQ2PI * p, -SQ2PI * dp   # d/dlat = - d/dcolat


def fourier(m: int, kind: str, lon: np.ndarray):
  """(F, dF/dlon)."""
  if m == 0:
    if kind == 's':
      return np.zeros_like(lon), np.zeros_like(lon)
    return np.full_like(lon, 1 / SQ2PI), np.zeros_like(lon)
  if kind == 'c':
    return np.cos(m * lon) / np.sqrt(np.pi), -m * np.sin(m * lon) / np.sqrt(np.pi)
  return np.sin(m * lon) / np.sqrt(np.pi), m * np.cos(m * lon) / np.sqrt(np.pi)


def basis_fields(l: int, m: int, kind: str, lon: np.ndarray, sin_lat: np.ndarray):
  """Nodal values [lon, lat] of Y, dY/dlon, cos(lat) dY/dlat, sec(lat) d/dlat(cos^2 lat Y)."""
  F, dF = fourier(m, kind, lon)
  P, dP = legendre(l, m, sin_lat)
  cos_lat = np.sqrt(1 - sin_lat ** 2)
  Y = F[:, None] * P[None, :]
  dlon = dF[:, None] * P[None, :]
  cdlat = F[:, None] * (cos_lat * dP)[None, :]
  # sec d/dlat (cos^2 Y) = cos dY/dlat - 2 sin Y
  sdlat = cdlat - 2 * sin_lat[None, :] * Y
  return Y, dlon, cdlat, sdlat


def synthesis(coeffs: dict, lon: np.ndarray, sin_lat: np.ndarray) -> np.ndarray:
  """Sum of coeff * Y for a dict {(l, m, kind): coeff}."""
  out = np.zeros((lon.size, sin_lat.size))
  for (l, m, kind), c in coeffs.items():
    F, _ = fourier(m, kind, lon)
    P, _ = legendre(l, m, sin_lat)
    out += c * F[:, None] * P[None, :]
  return out


def legendre_table(L: int, M: int, sin_lat: np.ndarray):
  """P[m, j, l] and dP/dlat[m, j, l] for 0<=m<M, 0<=l<L (zero where l<m)."""
  n = sin_lat.size
  P = np.zeros((M, n, L))
  dP = np.zeros((M, n, L))
  for m in range(M):
    for l in range(m, L):
      p, d = legendre(l, m, sin_lat)
      P[m, :, l] = p
      dP[m, :, l] = d
  return P, dP
