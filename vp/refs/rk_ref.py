"""Independent references for time integrators (C06) and scan combinators (C14).

Written from the textbook definitions, not from the repository's code:

* exact-flow Taylor coefficients of  du/dt = N(u) = F(u) + G u  by Lie derivatives
  (u^(k) = L_N^k id, nested forward-mode AD in float64) and Taylor coefficients in the step
  size of an arbitrary one-step map (nested forward-mode AD in h);
* additive Runge-Kutta bookkeeping in numpy: conversion of 2N-storage (Williamson) coefficient
  lists and of the repository's ragged tableau lists into full Butcher matrices, order
  conditions up to order 3 (additive) / 4 (explicit) / k (linear), stability functions
  R(z) = 1 + z b^T (I - zA)^-1 1 for scalars and matrices;
* plain reference loops (forward/backward Euler, Heun, Crank-Nicolson, low-storage RK, Butcher
  RK, product of Crank-Nicolson sub-steps) with dense numpy solves;
* a tight reference flow (classical RK4 with many sub-steps in extended precision);
* python-loop definitions of the stepping / scan combinators (trajectory, repeated, filters,
  scan, weighted accumulation, Lanczos weights, digital filter initialisation).

Nothing here imports jax at module import time.
"""
from __future__ import annotations

import itertools
import math
from fractions import Fraction

import numpy as np


# =====================================================================================
#  Taylor coefficients by forward-mode AD (jax imported lazily)
# =====================================================================================
def lie_derivatives(N, u0, kmax: int):
  """[u0, u', u'', ..., u^(kmax)] of the solution of du/dt = N(u) through u0.

  u^(k) = L_k(u0) with L_0 = id and L_k(u) = D L_{k-1}(u) . N(u)   (Lie derivative along N).
  """
  import jax  # pylint: disable=import-outside-toplevel

  def tower(k):
    if k == 0:
      return lambda u: (u,)
    prev = tower(k - 1)

    def g(u):
      vals, tans = jax.jvp(prev, (u,), (N(u),))
      return tuple(vals) + (tans[-1],)
    return g
  return list(tower(kmax)(u0))


def derivatives_in_h(f, kmax: int, h0=0.0):
  """[f(h0), f'(h0), ..., f^(kmax)(h0)] for a (pytree-valued) function of one scalar."""
  import jax  # pylint: disable=import-outside-toplevel
  import jax.numpy as jnp  # pylint: disable=import-outside-toplevel

  def tower(k):
    if k == 0:
      return lambda h: (f(h),)
    prev = tower(k - 1)

    def g(h):
      vals, tans = jax.jvp(prev, (h,), (jnp.ones_like(h),))
      return tuple(vals) + (tans[-1],)
    return g
  return list(tower(kmax)(jnp.asarray(h0, dtype=jnp.result_type(float))))


def taylor_polynomial(derivs, t):
  """sum_k derivs[k] t^k / k!  (derivs are arrays; t may be traced)."""
  out = derivs[0]
  for k in range(1, len(derivs)):
    out = out + derivs[k] * (t ** k / math.factorial(k))
  return out


# ---- closed-form u', u'', u''' for the random ODE family used by C06 (harness self-check)
def family_rhs_np(p, u):
  """N(u) = A u + B(u,u) + sin(C u) + G u   for numpy arrays (any float dtype)."""
  A, B, C, G = p['A'], p['B'], p['C'], p['G']
  return A @ u + (B @ u) @ u + np.sin(C @ u) + G @ u


def family_explicit_np(p, u):
  return p['A'] @ u + (p['B'] @ u) @ u + np.sin(p['C'] @ u)


def family_derivs_closed_form(p, u):
  """(u', u'', u''') from the analytic Jacobian / Hessian of the family (numpy)."""
  A, B, C, G = p['A'], p['B'], p['C'], p['G']
  n = family_rhs_np(p, u)
  cu = C @ u
  J = A + G + np.einsum('ijk,k->ij', B, u) + np.einsum('ijk,j->ik', B, u) + np.cos(cu)[:, None] * C

  def hess(v, w):
    return (np.einsum('ijk,j,k->i', B, v, w) + np.einsum('ijk,j,k->i', B, w, v)
            - np.sin(cu) * (C @ v) * (C @ w))
  u1 = n
  u2 = J @ n
  u3 = J @ u2 + hess(n, n)
  return u1, u2, u3


# =====================================================================================
#  Additive Runge-Kutta bookkeeping (numpy)
# =====================================================================================
def lowstorage_to_ark(alphas, betas, gammas):
  """Full additive tableau of the 2N-storage RK + Crank-Nicolson sub-step scheme.

  Definition (Williamson 2N storage with an implicit trapezoidal sub-step, Canuto et al. D.3):
     h_k = F(U_k) + beta_k h_{k-1},   h_{-1} = 0
     U_{k+1} = U_k + gamma_k dt h_k + (alpha_{k+1}-alpha_k)/2 dt (G U_k + G U_{k+1})
  Stages U_0..U_s (s = len(gammas)); the step result is U_s.
  Returns (A_ex, b_ex, A_im, b_im) with s+1 stages (last stage = result, b = last row).
  """
  s = len(gammas)
  a = [float(x) for x in alphas]
  be = [float(x) for x in betas]
  ga = [float(x) for x in gammas]
  coef_ex = np.zeros((s + 1, s + 1))
  coef_im = np.zeros((s + 1, s + 1))
  w = np.zeros(s + 1)
  for k in range(s):
    e = np.zeros(s + 1)
    e[k] = 1.0
    w = e + be[k] * w
    coef_ex[k + 1] = coef_ex[k] + ga[k] * w
    mu = 0.5 * (a[k + 1] - a[k])
    coef_im[k + 1] = coef_im[k]
    coef_im[k + 1, k] += mu
    coef_im[k + 1, k + 1] += mu
  return coef_ex, coef_ex[s].copy(), coef_im, coef_im[s].copy()


def lowstorage_to_butcher(betas, gammas):
  """(A, b, c) of the explicit s-stage method defined by 2N-storage coefficients."""
  s = len(gammas)
  A_ex, b_ex, _, _ = lowstorage_to_ark([0.0] * (s + 1), betas, gammas)
  A = A_ex[:s, :s].copy()
  b = b_ex[:s].copy()
  return A, b, A.sum(1)


def ragged_to_ark(a_ex, a_im, b_ex, b_im):
  """Full matrices from the ragged row lists of an IMEX tableau.

  Row i-1 of a_ex holds the i coefficients of stage i (i = 1..s-1), row i-1 of a_im its i+1
  coefficients (diagonal last); stage 0 is the initial value.
  """
  s = len(b_ex)
  A_ex = np.zeros((s, s))
  A_im = np.zeros((s, s))
  for i in range(1, s):
    A_ex[i, :i] = np.asarray(a_ex[i - 1], float)[:i]
    A_im[i, :i + 1] = np.asarray(a_im[i - 1], float)[:i + 1]
  return A_ex, np.asarray(b_ex, float), A_im, np.asarray(b_im, float)


def stability_function(A, b, z):
  """R(z) = 1 + z b^T (I - zA)^-1 1, elementwise for an array of complex z."""
  A = np.asarray(A, float)
  b = np.asarray(b, float)
  z = np.asarray(z, complex)
  s = len(b)
  out = np.empty(z.shape, complex)
  one = np.ones(s)
  for idx in np.ndindex(z.shape):
    zz = z[idx]
    out[idx] = 1.0 + zz * (b @ np.linalg.solve(np.eye(s) - zz * A, one))
  return out


def stability_matrix_apply(A, b, Mh, u0):
  """R(Mh) u0 for a matrix argument Mh = h G (Kronecker solve; no diagonalisation)."""
  A = np.asarray(A, float)
  b = np.asarray(b, float)
  s, n = len(b), len(u0)
  big = np.eye(s * n) - np.kron(A, Mh)
  Y = np.linalg.solve(big, np.tile(u0, s)).reshape(s, n)
  return u0 + sum(b[j] * (Mh @ Y[j]) for j in range(s))


def order_conditions(A_ex, b_ex, A_im, b_im, upto: int = 3):
  """Residuals of the additive RK order conditions (all colourings) up to order `upto` <= 3."""
  parts = {'ex': (np.asarray(A_ex, float), np.asarray(b_ex, float)),
           'im': (np.asarray(A_im, float), np.asarray(b_im, float))}
  c = {k: v[0].sum(1) for k, v in parts.items()}
  res = {1: [], 2: [], 3: []}
  for s_, (_, b) in parts.items():
    res[1].append(abs(b.sum() - 1.0))
    for t in parts:
      res[2].append(abs(b @ c[t] - 0.5))
      for u in parts:
        res[3].append(abs(b @ (c[t] * c[u]) - 1.0 / 3))
        res[3].append(abs(b @ (parts[t][0] @ c[u]) - 1.0 / 6))
  return {k: max(v) for k, v in res.items() if k <= upto}


def additive_order(A_ex, b_ex, A_im, b_im, tol: float = 1e-12, upto: int = 3) -> int:
  r = order_conditions(A_ex, b_ex, A_im, b_im, upto)
  p = 0
  for k in range(1, upto + 1):
    if r[k] <= tol:
      p = k
    else:
      break
  return p


def explicit_order(A, b, tol: float = 1e-12, upto: int = 4) -> int:
  """Classical order (nonlinear problems) of a single Butcher tableau, up to 4."""
  A = np.asarray(A, float)
  b = np.asarray(b, float)
  c = A.sum(1)
  conds = {
      1: [b.sum() - 1],
      2: [b @ c - 1 / 2],
      3: [b @ c ** 2 - 1 / 3, b @ (A @ c) - 1 / 6],
      4: [b @ c ** 3 - 1 / 4, b @ (c * (A @ c)) - 1 / 8, b @ (A @ c ** 2) - 1 / 12,
          b @ (A @ (A @ c)) - 1 / 24],
  }
  p = 0
  for k in range(1, upto + 1):
    if max(abs(x) for x in conds[k]) <= tol:
      p = k
    else:
      break
  return p


def linear_order(A, b, tol: float = 1e-12, upto: int = 6) -> int:
  """Order on linear constant-coefficient problems: b^T A^(k-1) 1 = 1/k!."""
  A = np.asarray(A, float)
  b = np.asarray(b, float)
  v = np.ones(len(b))
  p = 0
  for k in range(1, upto + 1):
    if abs(b @ v - 1.0 / math.factorial(k)) <= tol:
      p = k
    else:
      break
    v = A @ v
  return p


# ---- published coefficient sets (transcribed from the literature, exact rationals) ------
def williamson_rk3():
  """Williamson (1980) 3-stage third-order 2N-storage scheme; alphas = abscissae."""
  return dict(alphas=[0.0, 1 / 3, 3 / 4, 1.0], betas=[0.0, -5 / 9, -153 / 128],
              gammas=[1 / 3, 15 / 16, 8 / 15])


def carpenter_kennedy_rk4():
  """Carpenter & Kennedy (1994) 5-stage fourth-order 2N-storage scheme, full rationals."""
  Fr = Fraction
  A = [Fr(0), Fr(-567301805773, 1357537059087), Fr(-2404267990393, 2016746695238),
       Fr(-3550918686646, 2091501179385), Fr(-1275806237668, 842570457699)]
  B = [Fr(1432997174477, 9575080441755), Fr(5161836677717, 13612068292357),
       Fr(1720146321549, 2090206949498), Fr(3134564353537, 4481467310338),
       Fr(2277821191437, 14882151754819)]
  c = [Fr(0), Fr(1432997174477, 9575080441755), Fr(2526269341429, 6820363962896),
       Fr(2006345519317, 3224310063776), Fr(2802321613138, 2924317926251), Fr(1)]
  return dict(alphas=[float(x) for x in c], betas=[float(x) for x in A],
              gammas=[float(x) for x in B])


def ars222():
  """Ascher, Ruuth & Spiteri (1997) IMEX (2,2,2): second order, L-stable implicit part."""
  g = 1 - 1 / math.sqrt(2)
  d = 1 - 1 / (2 * g)
  return dict(a_ex=[[g], [d, 1 - d]], a_im=[[0.0, g], [0.0, 1 - g, g]],
              b_ex=[d, 1 - d, 0.0], b_im=[0.0, 1 - g, g])


def ars232():
  """Ascher, Ruuth & Spiteri (1997) IMEX (2,3,2): the implicit part is stiffly accurate
  (b_im equals the last row of a_im) while the explicit part is NOT (b_ex differs from the last
  row of a_ex) -- the class on which a "return the last stage" shortcut keyed on the implicit
  half alone goes wrong."""
  g = (2 - math.sqrt(2)) / 2
  d = -2 * math.sqrt(2) / 3
  return dict(a_ex=[[g], [d, 1 - d]], a_im=[[0.0, g], [0.0, 1 - g, g]],
              b_ex=[0.0, 1 - g, g], b_im=[0.0, 1 - g, g])


def imex_euler():
  """Forward/backward Euler pair as a 2-stage IMEX tableau (first order)."""
  return dict(a_ex=[[1.0]], a_im=[[0.0, 1.0]], b_ex=[1.0, 0.0], b_im=[0.0, 1.0])


def imex_sparse3():
  """A first-order consistent 3-stage tableau whose stage 1 has zero weights b but non-zero
  couplings into stage 2 (exercises "is this stage's tendency needed later?" bookkeeping)."""
  return dict(a_ex=[[0.5], [0.25, 0.5]], a_im=[[0.2, 0.3], [0.1, 0.4, 0.25]],
              b_ex=[0.4, 0.0, 0.6], b_im=[0.7, 0.0, 0.3])


# ---- random coefficient sets -------------------------------------------------------------
def random_lowstorage_set(rng, stages: int, order: int):
  """Random 2N-storage + CN coefficient lists, consistent to `order` (1 or 2).

  order 1: sum b = 1 and alpha_s - alpha_0 = 1 (alpha_0 and beta_0 arbitrary: neither may
  influence the result).  order 2: additionally alpha_k = c_k (explicit abscissae), alpha_0 = 0
  and b.c = 1/2 (found by a one-parameter search; needs >= 2 stages).
  alphas are increasing so that every implicit sub-step has a non-negative weight.
  """
  s = int(stages)
  for _ in range(200):
    betas = list(rng.uniform(-1.2, 0.3, s))
    betas[0] = float(rng.uniform(-2, 2))       # multiplies the zero initial register
    gammas = rng.uniform(0.2, 1.0, s)
    if order == 1 or s == 1:
      _, b, _ = lowstorage_to_butcher(betas, gammas)
      if abs(b.sum()) < 0.2:
        continue
      gammas = gammas / b.sum()
      a0 = float(rng.uniform(-1, 1))
      inc = rng.uniform(0.1, 1.0, s)
      alphas = a0 + np.concatenate([[0.0], np.cumsum(inc) / inc.sum()])
      return dict(alphas=[float(x) for x in alphas], betas=[float(x) for x in betas],
                  gammas=[float(x) for x in gammas], order=1)

    # order 2: scale the last gamma by t, renormalise, look for b.c = 1/2
    def resid(t, betas=betas, gammas=gammas):
      g = gammas.copy()
      g[-1] *= t
      _, b, _ = lowstorage_to_butcher(betas, g)
      if abs(b.sum()) < 1e-3:
        return None, None
      g = g / b.sum()
      _, b, c = lowstorage_to_butcher(betas, g)
      return b @ c - 0.5, g
    ts = np.linspace(0.05, 6.0, 120)
    vals = [resid(t)[0] for t in ts]
    root = None
    for i in range(len(ts) - 1):
      if vals[i] is None or vals[i + 1] is None:
        continue
      if vals[i] == 0 or vals[i] * vals[i + 1] < 0:
        lo, hi = ts[i], ts[i + 1]
        flo = vals[i]
        for _ in range(200):
          mid = 0.5 * (lo + hi)
          fm = resid(mid)[0]
          if fm is None:
            break
          if flo * fm <= 0:
            hi = mid
          else:
            lo, flo = mid, fm
        root = 0.5 * (lo + hi)
        break
    if root is None:
      continue
    r, g = resid(root)
    if r is None or abs(r) > 1e-14:
      continue
    _, b, c = lowstorage_to_butcher(betas, g)
    alphas = np.concatenate([c, [1.0]])
    if np.any(np.diff(alphas) <= 1e-3) or np.abs(g).max() > 20:
      continue
    return dict(alphas=[float(x) for x in alphas], betas=[float(x) for x in betas],
                gammas=[float(x) for x in g], order=2)
  raise RuntimeError('could not generate a low-storage coefficient set')


def random_imex_tableau(rng, stages: int, zero_fraction: float = 0.25, structure: str = 'none'):
  """Random first-order consistent ragged IMEX tableau with some exact zeros.

  structure: 'none' | 'sa_im' (b_im equals the last row of a_im, explicit half generic) |
  'sa_ex' (b_ex equals the last row of a_ex padded with 0, implicit half generic) | 'sa_both' |
  'b_equal' (b_ex == b_im).  These are the coincidences an implementation may be tempted to
  special-case (stiffly accurate / FSAL shortcuts)."""
  s = int(stages)
  if structure != 'none':
    base = random_imex_tableau(rng, stages, zero_fraction=0.0)
    a_ex, a_im = base['a_ex'], base['a_im']
    b_ex, b_im = np.array(base['b_ex']), np.array(base['b_im'])
    if structure in ('sa_im', 'sa_both'):
      row = np.array(a_im[-1], dtype=float)
      if abs(row.sum()) < 0.2:
        row[-1] += 1.0
      row = row / row.sum()
      a_im[-1] = list(map(float, row))
      b_im = row.copy()
    if structure in ('sa_ex', 'sa_both'):
      row = np.array(a_ex[-1], dtype=float)
      if abs(row.sum()) < 0.2:
        row[-1] += 1.0
      row = row / row.sum()
      a_ex[-1] = list(map(float, row))
      b_ex = np.concatenate([row, [0.0]])
    if structure == 'b_equal':
      b_im = b_ex.copy()
    return dict(a_ex=a_ex, a_im=a_im, b_ex=list(map(float, b_ex)), b_im=list(map(float, b_im)))

  def draw(n):
    v = rng.uniform(-0.6, 0.9, n)
    v[rng.random(n) < zero_fraction] = 0.0
    return v
  a_ex = [list(map(float, draw(i))) for i in range(1, s)]
  a_im = []
  for i in range(1, s):
    row = draw(i + 1)
    row[-1] = float(rng.uniform(0.0, 0.8)) if rng.random() > 0.2 else 0.0   # diagonal >= 0
    a_im.append(list(map(float, row)))
  while True:
    b_ex, b_im = draw(s), draw(s)
    if abs(b_ex.sum()) > 0.2 and abs(b_im.sum()) > 0.2:
      break
  b_ex = b_ex / b_ex.sum()
  b_im = b_im / b_im.sum()
  return dict(a_ex=a_ex, a_im=a_im, b_ex=list(map(float, b_ex)), b_im=list(map(float, b_im)))


# =====================================================================================
#  Plain reference loops (numpy; F is a callable on flat vectors, G a dense matrix)
# =====================================================================================
def _I(n):
  return np.eye(n)


def ref_forward_euler(F, u, h):
  return u + h * F(u)


def ref_heun(F, u, h):
  k1 = F(u)
  k2 = F(u + h * k1)
  return u + 0.5 * h * (k1 + k2)


def ref_backward_euler(G, u, h):
  return np.linalg.solve(_I(len(u)) - h * G, u)


def ref_crank_nicolson(G, u, h):
  return np.linalg.solve(_I(len(u)) - 0.5 * h * G, u + 0.5 * h * (G @ u))


def ref_theta_two_level(G, prev, h2, theta):
  """(I - theta h2 G) x = (I + (1-theta) h2 G) prev   (theta weights the new level)."""
  return np.linalg.solve(_I(len(prev)) - theta * h2 * G, prev + (1 - theta) * h2 * (G @ prev))


def ref_cn_product(G, u, h, alphas):
  """Product of Crank-Nicolson sub-steps of lengths (alpha_{k+1}-alpha_k) h."""
  for k in range(len(alphas) - 1):
    u = ref_crank_nicolson(G, u, (alphas[k + 1] - alphas[k]) * h)
  return u


def ref_lowstorage_explicit(F, u, h, betas, gammas):
  """Williamson 2N-storage loop:  dU = h F(U) + beta_k dU;  U = U + gamma_k dU."""
  dU = np.zeros_like(u)
  for k in range(len(gammas)):
    dU = h * F(u) + betas[k] * dU
    u = u + gammas[k] * dU
  return u


def ref_butcher_explicit(F, u, h, A, b):
  s = len(b)
  ks = []
  for i in range(s):
    y = u + h * sum((A[i][j] * ks[j] for j in range(i)), np.zeros_like(u))
    ks.append(F(y))
  return u + h * sum((b[j] * ks[j] for j in range(s)), np.zeros_like(u))


def ref_flow(N, u0, h, substeps: int = 128):
  """Tight reference flow over [0, h]: classical RK4, `substeps` sub-steps, extended precision.

  Error ~ C h^5 / substeps^4, i.e. a fixed factor substeps^-4 (4e-9 for 128) below the local
  error of any fourth-order one-step method with the same h; rounding at 1e-19.
  """
  ld = np.longdouble
  u = np.asarray(u0, ld)
  dt = ld(h) / ld(substeps)
  for _ in range(substeps):
    k1 = N(u)
    k2 = N(u + dt / 2 * k1)
    k3 = N(u + dt / 2 * k2)
    k4 = N(u + dt * k3)
    u = u + dt / 6 * (k1 + 2 * k2 + 2 * k3 + k4)
  return u


def fit_slope(hs, errs):
  """Least-squares slope of log(err) against log(h)."""
  x = np.log(np.asarray(hs, float))
  y = np.log(np.asarray(errs, float))
  x = x - x.mean()
  return float((x * (y - y.mean())).sum() / (x * x).sum())


def neville_zero(hs, vals):
  """Value at h = 0 of the polynomial interpolating (hs[i], vals[i]) (Neville's scheme).

  With m nodes the terms h^1..h^(m-1) of a smooth function are eliminated exactly."""
  hs = [float(h) for h in hs]
  T = [np.asarray(v, float) for v in vals]
  m = len(hs)
  for k in range(1, m):
    for i in range(m - k):
      T[i] = (hs[i] * T[i + 1] - hs[i + k] * T[i]) / (hs[i] - hs[i + k])
  return T[0]


# =====================================================================================
#  Python-loop definitions of the stepping / scan combinators
# =====================================================================================
def _tu():
  import jax  # pylint: disable=import-outside-toplevel
  return jax.tree_util


def tree_stack(trees):
  """Stack a list of identically structured pytrees leafwise along a new leading axis."""
  tu = _tu()
  return tu.tree_map(lambda *xs: np.stack([np.asarray(x) for x in xs]), *trees)


def ref_repeated(step, n: int):
  def f(x):
    for _ in range(n):
      x = step(x)
    return x
  return f


def ref_trajectory(step, x0, outer: int, inner: int, start_with_input: bool,
                   post=lambda x: x):
  """(final state, stacked frames): frame j is the state after (j+1)*inner steps, or after
  j*inner steps when start_with_input; the final state is the state after outer*inner steps."""
  x = x0
  frames = []
  for _ in range(outer):
    if start_with_input:
      frames.append(post(x))
    for _ in range(inner):
      x = step(x)
    if not start_with_input:
      frames.append(post(x))
  return x, tree_stack(frames)


def ref_step_with_filters(step, filters):
  def f(u):
    u_next = step(u)
    for flt in filters:
      u_next = flt(u, u_next)
    return u_next
  return f


def ref_scan(f, init, xs, length=None):
  """lax.scan semantics as a python loop (outputs stacked leafwise; None stays None)."""
  tu = _tu()
  if xs is None:
    n = length
  else:
    leaves = tu.tree_leaves(xs)
    n = leaves[0].shape[0] if leaves else length
  carry = init
  outs = []
  for i in range(n):
    x = None if xs is None else tu.tree_map(lambda a, i=i: a[i], xs)
    carry, y = f(carry, x)
    outs.append(y)
  if not outs or all(o is None for o in outs):
    return carry, None
  return carry, tree_stack(outs)


def ref_accumulate(step, weights, state):
  """sum_i weights[i] * step^(i+1)(state)  (the weight multiplies the state AFTER the step)."""
  tu = _tu()
  acc = tu.tree_map(lambda s: np.zeros_like(np.asarray(s)), state)
  x = state
  for w in np.asarray(weights):
    x = step(x)
    acc = tu.tree_map(lambda a, s, w=w: a + w * np.asarray(s), acc, x)
  return acc


def lanczos_weights(time_span: float, cutoff_period: float, dt: float):
  """Lynch & Huang (1992) low-pass weights with a Lanczos window, relative to h_0 = 1.

  N = round(time_span / (2 dt)); with theta_c = 2 pi (time_span / 2N) / cutoff_period,
     w_n = [sin(n theta_c) / (n theta_c)] * [sin(n pi/(N+1)) / (n pi/(N+1))],  n = 1..N.
  """
  N = int(round(time_span / (2 * dt)))
  theta_c = 2 * math.pi * (time_span / (2 * N)) / cutoff_period if N else 0.0
  out = []
  for n in range(1, N + 1):
    a = n * theta_c
    b = n * math.pi / (N + 1)
    sa = 1.0 if a == 0 else math.sin(a) / a
    sb = 1.0 if b == 0 else math.sin(b) / b
    out.append(sa * sb)
  return np.asarray(out, float)


def ref_dfi(forward_step, backward_step, weights, state):
  """[state + sum_n w_n (forward^n(state) + backward^n(state))] / (1 + 2 sum_n w_n)."""
  tu = _tu()
  w = np.asarray(weights, float)
  total = 1.0 + 2.0 * w.sum()
  acc = tu.tree_map(lambda s: np.asarray(s) / total, state)
  for stepf in (forward_step, backward_step):
    x = state
    for wn in w:
      x = stepf(x)
      acc = tu.tree_map(lambda a, s, wn=wn: a + (wn / total) * np.asarray(s), acc, x)
  return acc


def ordered_factorisations(n: int, min_factor: int = 2):
  """All tuples of integers >= min_factor whose product is n, order significant ((n,) included)."""
  if n == 1:
    return [(1,)]
  out = []

  def rec(m, pre):
    if m == 1:
      out.append(tuple(pre))
      return
    for d in range(max(2, min_factor), m + 1):
      if m % d == 0:
        rec(m // d, pre + [d])
  rec(n, [])
  return out


def with_unit_factors(fact, how: str = 'edges'):
  """Variants of a factorisation with factors 1 inserted."""
  fact = tuple(fact)
  if fact == (1,):
    return [(1, 1), (1, 1, 1)]
  out = [(1,) + fact, fact + (1,)]
  if how == 'all':
    for i in range(1, len(fact)):
      out.append(fact[:i] + (1,) + fact[i:])
    out.append((1,) + fact + (1,))
  return out


def all_length_tuples(k: int, lo: int, hi: int):
  return list(itertools.product(range(lo, hi + 1), repeat=k))
