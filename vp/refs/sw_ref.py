"""Independent pointwise reference of the layered (stacked) rotating shallow-water equations.

Layers are numbered from the top (lightest) layer 0.  With Phi_i = g h_i the thickness potential
of layer i (total = reference value + deviation), rho_i the densities and Phi_b = g * (height of
the bottom topography):

    d zeta_i / dt = -div( (zeta_i + f) v_i )
    d delta_i/ dt =  k . curl( (zeta_i + f) v_i ) - lap( p_i + |v_i|^2 / 2 )
    d Phi_i  / dt = -div( Phi_i v_i )
    p_i = Phi_b + sum_{j >= i} Phi_j + sum_{j < i} (rho_j / rho_i) Phi_j

(p_i is the Montgomery potential: everything below layer i lifts it, everything above weighs on
it in proportion to the density ratio).  The horizontal treatment is the one of `pe_ref`:
analytic derivatives of scipy harmonics, pointwise products, projection by quadrature with
integration by parts for div and curl.  The implementation in the repository is not consulted.
"""
from __future__ import annotations

import numpy as np

from vp.refs.pe_ref import Sphere  # horizontal machinery only (scipy based)


def montgomery_weights(densities) -> np.ndarray:
  """W[i, j] such that p_i = Phi_b + sum_j W[i, j] Phi_j."""
  rho = np.asarray(densities, dtype=np.float64)
  n = rho.size
  W = np.zeros((n, n))
  for i in range(n):
    for j in range(n):
      W[i, j] = 1.0 if j >= i else rho[j] / rho[i]
  return W


def evaluate(sph: Sphere, state: dict, orography_potential, densities, reference_potential,
             omega: float, project: bool = True) -> dict:
  """state: canonical coefficients vorticity[n,m,2,l], divergence[n,..], potential[n,..]
  (deviation from `reference_potential[n]`); orography_potential: canonical [m,2,l] or None."""
  n = np.asarray(densities).size
  W = montgomery_weights(densities)
  f_cor = 2.0 * omega * sph.mu[None, :]
  u, v, zeta, phi = [], [], [], []
  for i in range(n):
    ui, vi = sph.wind(state['vorticity'][i], state['divergence'][i])
    u.append(ui)
    v.append(vi)
    zeta.append(sph.values(state['vorticity'][i]))
    phi.append(reference_potential[i] + sph.values(state['potential'][i]))
  phi_b = 0.0 if orography_potential is None else sph.values(orography_potential)
  p = []
  for i in range(n):
    acc = phi_b + 0.0 * phi[0]
    for j in range(n):
      acc = acc + W[i, j] * phi[j]
    p.append(acc)
  out = dict(u=u, v=v, vorticity=zeta, potential=phi, montgomery=p)
  if project:
    tz, td, tp = [], [], []
    for i in range(n):
      ax = (zeta[i] + f_cor) * u[i]
      ay = (zeta[i] + f_cor) * v[i]
      b = p[i] + 0.5 * (u[i] ** 2 + v[i] ** 2)
      tz.append(-sph.project_div(ax, ay))
      td.append(sph.project_curl(ax, ay) - sph.laplacian(sph.project(b - b.mean())))
      tp.append(-sph.project_div(phi[i] * u[i], phi[i] * v[i]))
    out['tendency'] = dict(vorticity=np.stack(tz), divergence=np.stack(td), potential=np.stack(tp))
  return out


# ------------------------------------------------------------------------------------ zonal jets
def balanced_zonal_jet(poly_p, radius: float, omega: float):
  """Geostrophically (gradient-wind) balanced zonal flow  u = cos(lat) p(mu),  mu = sin(lat).

  poly_p: numpy.polynomial.Polynomial.  Returns (zeta, P) as Polynomials in mu with
      zeta = -(1/a) d[(1 - mu^2) p]/dmu
      d(P + u^2/2)/dlat = -a (zeta + f) u   =>   P = -a int (zeta + 2 Omega mu) p dmu - (1-mu^2) p^2 / 2
  P is the Montgomery potential the layer needs (defined up to a constant).
  """
  from numpy.polynomial import Polynomial  # pylint: disable=import-outside-toplevel
  mu = Polynomial([0.0, 1.0])
  one_minus = Polynomial([1.0, 0.0, -1.0])
  zeta = -(one_minus * poly_p).deriv() / radius
  integrand = (zeta + 2.0 * omega * mu) * poly_p
  P = -radius * integrand.integ() - 0.5 * one_minus * poly_p * poly_p
  return zeta, P


def zonal_coefficients(poly, L: int) -> np.ndarray:
  """Coefficients on the orthonormal zonal harmonics Y_l0 = sqrt((2l+1)/(4 pi)) P_l(mu) of a
  polynomial in mu (degree must be < L)."""
  from numpy.polynomial import legendre  # pylint: disable=import-outside-toplevel
  leg = legendre.poly2leg(np.asarray(poly.coef, dtype=np.float64))
  if leg.size > L:
    if np.abs(leg[L:]).max() > 0:
      raise ValueError('polynomial degree exceeds the truncation')
    leg = leg[:L]
  out = np.zeros(L)
  for l in range(leg.size):
    out[l] = leg[l] / np.sqrt((2 * l + 1) / (4 * np.pi))
  return out
