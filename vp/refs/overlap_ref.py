"""Brute-force reference for cell overlaps of conservative regridding (numpy float64).

Written from the documented cell-bound conventions, not from the code under test:

* latitude  - cells are centred at strictly increasing latitudes (radians); the bound between two
              neighbouring cells is the midpoint of their centres, the outermost bounds are the
              poles -pi/2 and +pi/2; the measure of a band [a, b] is its normalised area
              int_a^b cos = sin b - sin a.
* longitude - cells are centred at points of the circle (period 2 pi); the bound between two
              cyclic neighbours is the midpoint of the arc between them; measure = arc length.
              (A single node owns the whole circle, two nodes own a half circle each.)
* interval  - cells are given by explicitly listed, strictly increasing bounds (sigma or
              pressure); measure = length.  Parts of a target cell not covered by any source
              cell overlap with nothing.

Algorithm: the *common refinement*.  All bounds of both grids are merged; every elementary piece
between two consecutive break points lies in exactly one target cell and (at most) one source
cell.  The owner of a piece is found by locating the piece's midpoint: cells bounded by midpoints
between centres are exactly the nearest-centre (Voronoi) cells, so for latitude/longitude the
owner is the nearest centre (great-circle / absolute distance); for explicit bounds it is the
bracketing pair.  The piece's measure is added to that (target, source) entry.  Nothing here uses
the min(upper)-max(lower) formula or any phase alignment, so it shares no mechanism with
`_latitude_overlap`, `_longitude_overlap`, `_interval_overlap`.

All results have shape (target, source) like the weight matrices of the library.
"""
from __future__ import annotations

import numpy as np

TWO_PI = 2.0 * np.pi


# ----------------------------------------------------------------------------------- helpers
def _circ_dist(x, c, period):
  """Distance on the circle between points x[:, None] and centres c[None, :]."""
  d = np.abs(x[:, None] - c[None, :]) % period
  return np.minimum(d, period - d)


def normalise_rows(overlap: np.ndarray) -> tuple[np.ndarray, np.ndarray]:
  """(weights, coverage): weights = overlap / row sum (rows with zero coverage -> NaN row)."""
  cov = overlap.sum(axis=1)
  with np.errstate(invalid='ignore', divide='ignore'):
    w = overlap / cov[:, None]
  return w, cov


# ----------------------------------------------------------------------------------- latitude
def latitude_bounds(centres) -> np.ndarray:
  c = np.asarray(centres, dtype=np.float64)
  return np.concatenate([[-np.pi / 2], 0.5 * (c[:-1] + c[1:]), [np.pi / 2]])


def latitude_cell_areas(centres) -> np.ndarray:
  """Normalised area (int cos) of each latitude band; sums to 2."""
  return np.diff(np.sin(latitude_bounds(centres)))


def latitude_overlap(source_centres, target_centres) -> np.ndarray:
  s = np.asarray(source_centres, dtype=np.float64)
  t = np.asarray(target_centres, dtype=np.float64)
  brk = np.unique(np.concatenate([latitude_bounds(s), latitude_bounds(t)]))
  lo, hi = brk[:-1], brk[1:]
  mid = 0.5 * (lo + hi)
  own_s = np.argmin(np.abs(mid[:, None] - s[None, :]), axis=1)
  own_t = np.argmin(np.abs(mid[:, None] - t[None, :]), axis=1)
  out = np.zeros((t.size, s.size))
  np.add.at(out, (own_t, own_s), np.sin(hi) - np.sin(lo))
  return out


def latitude_touching(source_centres, target_centres, eps=1e-9) -> np.ndarray:
  """True where the closed cells overlap or share a bound (up to eps)."""
  bs, bt = latitude_bounds(source_centres), latitude_bounds(target_centres)
  return _touching(latitude_overlap(source_centres, target_centres), bs, bt, eps, None)


# ----------------------------------------------------------------------------------- longitude
def longitude_breaks(centres, period=TWO_PI) -> np.ndarray:
  """Cell bounds on the circle (values in [0, period)); empty for a single node."""
  c = np.sort(np.asarray(centres, dtype=np.float64) % period)
  if c.size < 2:
    return np.zeros(0)
  nxt = np.concatenate([c[1:], [c[0] + period]])
  return (0.5 * (c + nxt)) % period


def longitude_cell_widths(centres, period=TWO_PI) -> np.ndarray:
  """Arc length owned by each centre (in the order given); sums to the period."""
  c = np.asarray(centres, dtype=np.float64) % period
  n = c.size
  if n == 1:
    return np.array([period])
  order = np.argsort(c)
  cs = c[order]
  nxt = np.concatenate([cs[1:], [cs[0] + period]])
  prv = np.concatenate([[cs[-1] - period], cs[:-1]])
  w = np.empty(n)
  w[order] = 0.5 * (nxt - cs) + 0.5 * (cs - prv)
  return w


def _circle_pieces(brk, period):
  brk = np.unique(brk)
  if brk.size == 0:
    return np.array([0.0]), np.array([period])
  lo = brk
  hi = np.concatenate([brk[1:], [brk[0] + period]])
  return lo, hi


def longitude_overlap(source_centres, target_centres, period=TWO_PI) -> np.ndarray:
  s = np.asarray(source_centres, dtype=np.float64) % period
  t = np.asarray(target_centres, dtype=np.float64) % period
  lo, hi = _circle_pieces(np.concatenate([longitude_breaks(s, period),
                                          longitude_breaks(t, period)]), period)
  mid = (0.5 * (lo + hi)) % period
  own_s = np.argmin(_circ_dist(mid, s, period), axis=1)
  own_t = np.argmin(_circ_dist(mid, t, period), axis=1)
  out = np.zeros((t.size, s.size))
  np.add.at(out, (own_t, own_s), hi - lo)
  return out


def _cell_bounds_on_circle(centres, period):
  """(lower, upper) bound of each cell in the order given, values mod period."""
  c = np.asarray(centres, dtype=np.float64) % period
  n = c.size
  if n == 1:
    return np.array([c[0] - period / 2]) % period, np.array([c[0] + period / 2]) % period
  order = np.argsort(c)
  cs = c[order]
  nxt = np.concatenate([cs[1:], [cs[0] + period]])
  prv = np.concatenate([[cs[-1] - period], cs[:-1]])
  lo, up = np.empty(n), np.empty(n)
  lo[order] = (0.5 * (cs + prv)) % period
  up[order] = (0.5 * (cs + nxt)) % period
  return lo, up


def longitude_touching(source_centres, target_centres, period=TWO_PI, eps=1e-9) -> np.ndarray:
  O = longitude_overlap(source_centres, target_centres, period)
  ls, us = _cell_bounds_on_circle(source_centres, period)
  lt, ut = _cell_bounds_on_circle(target_centres, period)
  touch = O > 0
  for a in (lt, ut):
    for b in (ls, us):
      d = np.abs(a[:, None] - b[None, :]) % period
      touch |= np.minimum(d, period - d) <= eps
  return touch


# ----------------------------------------------------------------------------------- intervals
def interval_overlap(source_bounds, target_bounds) -> np.ndarray:
  sb = np.asarray(source_bounds, dtype=np.float64)
  tb = np.asarray(target_bounds, dtype=np.float64)
  brk = np.unique(np.concatenate([sb, tb]))
  lo, hi = brk[:-1], brk[1:]
  mid = 0.5 * (lo + hi)
  out = np.zeros((tb.size - 1, sb.size - 1))
  for k in range(mid.size):
    x = mid[k]
    i = j = -1
    for a in range(tb.size - 1):
      if tb[a] <= x < tb[a + 1]:
        i = a
        break
    for b in range(sb.size - 1):
      if sb[b] <= x < sb[b + 1]:
        j = b
        break
    if i >= 0 and j >= 0:
      out[i, j] += hi[k] - lo[k]
  return out


def interval_overlap_fast(source_bounds, target_bounds) -> np.ndarray:
  """Same refinement as `interval_overlap`, bracket search by np.searchsorted (used for maps
  with many columns; the loop version cross-checks it on every case)."""
  sb = np.asarray(source_bounds, dtype=np.float64)
  tb = np.asarray(target_bounds, dtype=np.float64)
  brk = np.unique(np.concatenate([sb, tb]))
  lo, hi = brk[:-1], brk[1:]
  mid = 0.5 * (lo + hi)
  i = np.searchsorted(tb, mid, side='right') - 1
  j = np.searchsorted(sb, mid, side='right') - 1
  ok = (i >= 0) & (i < tb.size - 1) & (j >= 0) & (j < sb.size - 1)
  out = np.zeros((tb.size - 1, sb.size - 1))
  np.add.at(out, (i[ok], j[ok]), (hi - lo)[ok])
  return out


def _touching(O, bs, bt, eps, period):
  touch = O > 0
  for a in (bt[:-1], bt[1:]):
    for b in (bs[:-1], bs[1:]):
      touch |= np.abs(a[:, None] - b[None, :]) <= eps
  return touch


# ----------------------------------------------------------------------------------- fields
def regrid_2d(field, w_lon, w_lat):
  """out[..., a, c] = sum_bd w_lon[a, b] w_lat[c, d] field[..., b, d]  (float64, two matmuls)."""
  f = np.asarray(field, dtype=np.float64)
  return np.matmul(np.matmul(w_lon, f), np.asarray(w_lat).T)
