"""C15 — spectral filters: mean-preserving, non-amplifying, step-size consistent.

Decided by a complete-basis monitor on the (diagonal) filter operators - the filter applied to the
all-ones spectrum reads off every factor - plus a pytree non-interference monitor and the
three-level Robert-Asselin relations.  See DESIGN.md §3 C15.  The contracts of vp/contracts.py
(filter scalings in (0,1]) are installed and reported as well.
"""
from __future__ import annotations

import numpy as np

from vp import core, gen

RULE = ('cases = grid layouts (Real, Fast, padded Fast with base_shape_multiple 1/2/4/8; M 3..44, '
        'L in {M, M+1, M+3}; radius 1 / Earth / random) x seeded parameter draws (attenuation 0.1..40, '
        'order 1..20, cutoff 0..0.9 incl. cutoffs that coincide with a wavenumber, dt/tau 1e-3..40, '
        'diffusion order 1..4, scalar and (T,1,1,1)/(K,1,1) array parameters); every filter is read '
        'off on the all-ones spectrum and applied to mixed pytrees (scalars, clocks, (2,) PRNG keys, '
        '(5,), (7,3), 0-d arrays) eagerly and under jit; Robert-Asselin cases = random pytrees x r in '
        '[0, 0.5].  A (layout, filter, parameter) draw is non-trivial if the filter actually damps '
        '(top factor < 0.999) and the factors are not all underflowed; distinct = content hash.')
MIN_NONTRIVIAL = {'quick': 150, 'thorough': 1500}
_REQ = [
    'factor_in_unit_interval', 'factor_depends_on_l_only', 'factor_one_at_l0_and_below_cutoff',
    'factor_nonincreasing_in_l', 'factor_finite_on_padding', 'factor_equals_documented_formula',
    'half_step_twice_equals_full_step', 'array_parameter_equals_scalar_per_slice',
    'nonspectral_leaf_identical', 'spectral_leaf_scaled', 'filter_accepts_mixed_pytree',
    'step_filter_adapter_semantics', 'ra_newest_level_untouched', 'ra_linear_sequence_unchanged',
    'ra_three_point_formula', 'contract_filter_scaling_in_unit_interval']
REQUIRED_MONITORS = {'all': _REQ, 'quick': _REQ,
                     'thorough': _REQ + ['suite_contract_filter_scaling_in_unit_interval']}
ASSUMPTIONS = [
    'exact factors are representable: parameter ranges keep the exponent below 80 (no underflow in '
    'float32), so strict positivity is asserted',
    'a leaf whose trailing dimension equals the (padded) total-wavenumber count is spectral by design '
    '(DESIGN 2.8) - non-spectral test leaves are generated with other trailing sizes',
    'documented formulas: exponential_filter docstring; horizontal_diffusion_step_filter docstring '
    '(rate (1/tau)(l(l+1)/(Lmax(Lmax+1)))^order, Lmax the largest total wavenumber); '
    'horizontal_diffusion_filter = exp(-scale (l(l+1)/r^2)^order)',
    'order 0 is outside the stated domain (order 1..20): `(k > c)` vs `(k >= c)` is then '
    'unobservable (0**(2p) = 0) and is not a canary',
]
TIMEOUT = {'quick': 3600, 'thorough': 14400}   # watchdog only
TOL64, TOL32 = 1e-12, 2e-6


# ------------------------------------------------------------------------------------ cases
def _structured():
  g = gen.grid_cfg
  return [
      g(8, 9, 25, 13), g(8, 9, 25, 13, impl='fast'), g(8, 9, 25, 13, impl='fast', bsm=8),
      g(8, 11, 25, 13, impl='fast', bsm=4), g(5, 7, 16, 9, impl='fast', bsm=2, radius=3.0),
      g(12, 13, 37, 19, radius=0.25), g(12, 12, 37, 19, impl='fast', bsm=8, radius=6.371e6 / 1e5),
      g(3, 6, 10, 6), g(3, 6, 10, 6, impl='fast', bsm=8), g(7, 7, 22, 11, impl='fast', bsm=1),
      gen.factory_cfg('T21', 'real'), gen.factory_cfg('T21', 'fast'),
      dict(gen.factory_cfg('T21', 'fast'), bsm=8, factory=None),
      gen.factory_cfg('TL31', 'fast'), dict(gen.factory_cfg('T31', 'fast', radius=2.0), bsm=8, factory=None),
      gen.with_wavenumbers_cfg(10, 'linear'), gen.with_wavenumbers_cfg(15, 'quadratic', impl='fast'),
  ]


def cases(tier, seed):
  cfgs = _structured()
  rng = np.random.default_rng([seed, 1515])
  n_rand = 12 if tier == 'quick' else 120
  for _ in range(n_rand):
    c = gen.random_grid_cfg(rng, max_M=20 if tier == 'quick' else 44, min_M=3, spacing='gauss',
                            resolved=True)
    if c['impl'] == 'fast' and rng.random() < 0.5:
      c['bsm'] = int(rng.choice([2, 4, 8]))
    cfgs.append(c)
  ntrial = 10 if tier == 'quick' else 24
  out = []
  for i, c in enumerate(cfgs):
    c = {k: v for k, v in c.items() if not (k == 'factory' and v is None)}
    out.append({'id': f'g{i}-{gen.grid_tag(c)}', 'kind': 'grid', 'grid': c, 'env': 'f64',
                'ntrial': ntrial, 'cost': 1.0 + c['M'] * c['L'] / 400.0})
  for i, c in enumerate(cfgs[::3 if tier == 'quick' else 2]):
    c = {k: v for k, v in c.items() if not (k == 'factory' and v is None)}
    out.append({'id': f'f32-{i}-{gen.grid_tag(c)}', 'kind': 'grid', 'grid': c, 'env': 'f32',
                'ntrial': max(4, ntrial // 2), 'cost': 0.7 + c['M'] * c['L'] / 600.0})
  for i in range(3 if tier == 'quick' else 12):
    out.append({'id': f'ra{i}', 'kind': 'ra', 'env': 'f64' if i % 3 else 'f32', 'ntrial': 12,
                'cost': 0.5})
  if tier == 'thorough':
    # the repository's own filter / integrator tests with the contracts installed (guard on)
    out.append({'id': 'suite-filters', 'kind': 'suite', 'env': 'f32', 'cost': 8.0,
                'files': ['filtering_test.py', 'time_integration_test.py']})
  return out


# ------------------------------------------------------------------------------------ helpers
def _ref_exponential(l_axis, lmax, a, p, c):
  """exp(-a ((k-c)/(1-c))^(2p)) for k > c, 1 otherwise; k = l / lmax   (docstring of exponential_filter)."""
  k = np.asarray(l_axis, np.float64) / float(lmax)
  a, p = np.asarray(a, np.float64), np.asarray(p, np.float64)
  with np.errstate(all='ignore'):
    body = np.exp(-a * (np.abs((k - c) / (1 - c)) ** (2 * p)))
  return np.where(k > c, body, 1.0)


def _ref_diffusion_step(l_axis, lmax, dt_over_tau, order):
  l = np.asarray(l_axis, np.float64)
  return np.exp(-np.asarray(dt_over_tau, np.float64) * (l * (l + 1) / (lmax * (lmax + 1.0))) ** order)


def _ref_diffusion(l_axis, radius, scale, order):
  l = np.asarray(l_axis, np.float64)
  return np.exp(-np.asarray(scale, np.float64) * (l * (l + 1) / radius ** 2) ** order)


class _G:
  def __init__(self, grid, cfg):
    self.grid = grid
    self.ms = tuple(int(s) for s in grid.modal_shape)
    self.L = int(cfg['L'])
    self.Mrows = (2 * cfg['M']) if gen.is_fast(grid) else (2 * cfg['M'] - 1)
    self.l_axis = np.asarray(grid.modal_axes[1])
    self.lmax = self.L - 1
    self.radius = float(grid.radius)
    self.padded = self.ms[1] > self.L or self.ms[0] > self.Mrows


def _check_factors(M, G, f, name, tol, info, cutoff=None, ref=None, strict=True):
  """All oracles on a factor table f (modal shape) read off the all-ones spectrum."""
  f = np.asarray(f)
  L = G.L
  fin = bool(np.all(np.isfinite(f)))
  M.check('factor_finite_on_padding', fin, info={**info, 'filter': name,
                                                  'nonfinite': int((~np.isfinite(f)).sum())})
  if not fin:
    # everything below would only repeat the same defect
    M.check('factor_in_unit_interval', False, info={**info, 'filter': name, 'reason': 'non-finite factors'})
    return False
  res = f[..., :L]
  ok_pos = bool(np.all(res > 0)) if strict else bool(np.all(res >= 0))
  M.check('factor_in_unit_interval', ok_pos and bool(np.all(res <= 1)),
          info={**info, 'filter': name, 'min': float(res.min()), 'max': float(res.max())})
  M.check('factor_depends_on_l_only', bool(np.all(res == res[..., :1, :])),
          info={**info, 'filter': name})
  row = res[..., 0, :].astype(np.float64)
  one = np.zeros(L, bool)
  one[0] = True
  if cutoff is not None:
    k = G.l_axis[:L] / G.l_axis.max()
    one |= k <= cutoff
  M.check('factor_one_at_l0_and_below_cutoff', bool(np.all(row[..., one] == 1.0)),
          info={**info, 'filter': name, 'cutoff': cutoff,
                'values': row[..., one].ravel()[:6].tolist()})
  M.le('factor_nonincreasing_in_l', np.diff(row, axis=-1), 0.0, slack=tol, info={**info, 'filter': name})
  if ref is not None:
    M.close('factor_equals_documented_formula', row, np.broadcast_to(ref, row.shape), tol, scale=1.0,
            info={**info, 'filter': name})
  return True


def _mixed_tree(rng, G, dt, lead=()):
  """A pytree with spectral leaves and leaves of unrelated shapes (none with trailing size = modal L)."""
  import jax  # pylint: disable=import-outside-toplevel
  Lp = G.ms[1]
  def odd(n):   # a size different from the padded total-wavenumber count (and from 1)
    while n == Lp or n == 1:
      n += 1
    return n
  spec = {'vorticity': rng.standard_normal(lead + (3,) + G.ms).astype(dt),
          'surface': rng.standard_normal(lead + (1,) + G.ms).astype(dt),
          'plain': rng.standard_normal(G.ms).astype(dt)}
  other = {'py_float': 3.25, 'py_int': 7, 'np_scalar': dt(1.5), 'zero_d': np.asarray(2.5, dt),
           'sim_time': np.asarray(12345.678, dt), 'step_count': np.asarray(17, np.int32),
           'clock': np.datetime64('2001-02-03T04:05:06'), 'delta': np.timedelta64(90, 's'),
           'key': np.asarray(jax.random.PRNGKey(int(rng.integers(1 << 30)))),
           'vec5': rng.standard_normal(odd(5)).astype(dt), 'mat73': rng.standard_normal((7, odd(3))).astype(dt),
           'col': rng.standard_normal((odd(4), 1)).astype(dt), 'one': np.ones((1,), dt),
           'ints': np.arange(odd(6)), 'empty': np.zeros((0,), dt)}
  return spec, other


def _same_leaf(M, name, got, want, info):
  ok_type = True
  if isinstance(want, (float, int)) and not isinstance(want, np.generic):
    ok_type = type(got) is type(want)  # python scalars must come back as python scalars
  if isinstance(want, (np.datetime64, np.timedelta64)):
    M.check(name, (got is want) or (type(got) is type(want) and got == want), info=info)
    return
  M.same(name, got, want, info=info)
  if not ok_type:
    M.check(name, False, info={**info, 'reason': f'type changed to {type(got).__name__}'})


# ------------------------------------------------------------------------------------ run: grid case
def _run_grid(case, M):
  import jax  # pylint: disable=import-outside-toplevel
  import jax.numpy as jnp  # pylint: disable=import-outside-toplevel
  from dinosaur import filtering, time_integration as ti  # pylint: disable=import-outside-toplevel
  cfg = case['grid']
  f64 = M.env.startswith('f64')
  tol = TOL64 if f64 else TOL32
  dt_ = np.float64 if f64 else np.float32
  rng = M.rng()
  grid = gen.make_grid(cfg)
  G = _G(grid, cfg)
  ones = np.ones(G.ms, dt_)
  info0 = {'grid': gen.grid_tag(cfg), 'modal_shape': list(G.ms)}
  M.cover('layout', f"{cfg['impl']}{'-padded' if G.padded else ''}")
  lam_max = G.lmax * (G.lmax + 1) / G.radius ** 2

  for t in range(case['ntrial']):
    a = float(10 ** rng.uniform(-1, np.log10(40.0)))
    p = int(rng.integers(1, 21))
    r = rng.random()
    if r < 0.25:
      c = 0.0
    elif r < 0.5 and G.lmax >= 2:        # a cutoff that coincides exactly with a wavenumber
      c = float(G.l_axis[int(rng.integers(1, max(2, int(0.9 * G.lmax))))] / G.l_axis.max())
      c = min(c, 0.9)
    else:
      c = float(rng.uniform(0, 0.9))
    dt = float(10 ** rng.uniform(-3, -1))
    ratio = float(10 ** rng.uniform(-3, np.log10(40.0)))      # dt / tau
    tau = dt / ratio
    od = int(rng.integers(1, 5))
    info = {**info0, 'a': a, 'p': p, 'c': c, 'dt': dt, 'tau': tau, 'diffusion_order': od}

    def rk(flt):
      return lambda x, _f=flt: _f(None, x)
    def lf(flt):
      return lambda x, _f=flt: _f(None, (x, x))[1]
    makers = {
        'exponential_filter': (lambda s=1.0: filtering.exponential_filter(grid, a * s, p, c),
                               _ref_exponential(G.l_axis[:G.L], G.lmax, a, p, c), c),
        'exponential_step_filter': (lambda s=1.0: rk(ti.exponential_step_filter(grid, dt * s, tau, p, c)),
                                    _ref_exponential(G.l_axis[:G.L], G.lmax, dt / tau, p, c), c),
        'exponential_leapfrog_step_filter': (
            lambda s=1.0: lf(ti.exponential_leapfrog_step_filter(grid, dt * s, tau, p, c)),
            _ref_exponential(G.l_axis[:G.L], G.lmax, dt / tau, p, c), c),
        'horizontal_diffusion_filter': (
            lambda s=1.0: filtering.horizontal_diffusion_filter(grid, s * ratio / lam_max ** od, od),
            _ref_diffusion(G.l_axis[:G.L], G.radius, ratio / lam_max ** od, od), None),
        'horizontal_diffusion_step_filter': (
            lambda s=1.0: rk(ti.horizontal_diffusion_step_filter(grid, dt * s, tau, od)),
            _ref_diffusion_step(G.l_axis[:G.L], G.lmax, dt / tau, od), None),
    }
    for name, (mk, ref, cut) in makers.items():
      with np.errstate(all='ignore'):
        ok, f = M.no_raise('filter_constructs_and_applies', lambda mk=mk: np.asarray(mk()(ones)),
                           info={**info, 'filter': name})
      if not ok:
        continue
      if f.shape != G.ms or f.dtype != ones.dtype:
        M.check('spectral_leaf_scaled', False, info={**info, 'filter': name, 'reason': 'shape/dtype changed',
                                                      'shape': list(f.shape), 'dtype': str(f.dtype)})
        continue
      good = _check_factors(M, G, f, name, tol, info, cutoff=cut, ref=ref)
      if not good:
        continue
      # semigroup: two half steps = one full step
      with np.errstate(all='ignore'):
        half = mk(0.5)
        h = np.asarray(half(half(ones)))
      M.close('half_step_twice_equals_full_step', h[..., :G.L], f[..., :G.L], tol, scale=1.0,
              info={**info, 'filter': name})
      M.check('factor_finite_on_padding', bool(np.all(np.isfinite(h))), info={**info, 'filter': name + ' (half step)'})
      top = float(f[0, G.L - 1])
      if top < 0.999 and float(f[0, :G.L].max()) == 1.0:
        M.nontrivial_global(cfg['impl'], G.ms, G.L, name, round(a, 6), p, round(c, 6), round(ratio, 9), od, M.env)
      M.cover('filter', name)
    M.cover('cutoff', 'zero' if c == 0 else ('on a wavenumber' if r < 0.5 else 'generic'))

    # -------------------------------------------------- array-valued parameters
    if t % 2 == 0:
      K, T = int(rng.integers(2, 5)), int(rng.integers(2, 4))
      for lead, shape in (((K,), (K, 1, 1)), ((T, K), (T, 1, 1, 1)), ((T, K), (1, K, 1, 1))):
        n = int(np.prod(shape))
        a_arr = (10 ** rng.uniform(-1, np.log10(40.0), n)).reshape(shape)
        p_arr = rng.integers(1, 21, n).reshape(shape)
        s_arr = (10 ** rng.uniform(-3, np.log10(40.0), n)).reshape(shape)   # dt/tau per slice
        x = rng.standard_normal(lead + G.ms).astype(dt_)
        x[..., 0, 0] = 1.0
        full = lead + (1, 1)
        a_full, p_full, s_full = (np.broadcast_to(v, full) for v in (a_arr, p_arr, s_arr))
        variants = {
            'exponential_filter[a,p arrays]': (
                lambda: filtering.exponential_filter(grid, a_arr, p_arr, c),
                lambda ai, pi, si: filtering.exponential_filter(grid, ai, pi, c)),
            'exponential_filter[a array]': (
                lambda: filtering.exponential_filter(grid, a_arr, p, c),
                lambda ai, pi, si: filtering.exponential_filter(grid, ai, p, c)),
            'horizontal_diffusion_filter[scale array]': (
                lambda: filtering.horizontal_diffusion_filter(grid, s_arr / lam_max ** od, od),
                lambda ai, pi, si: filtering.horizontal_diffusion_filter(grid, si / lam_max ** od, od)),
            'exponential_step_filter[tau array]': (
                lambda: rk(ti.exponential_step_filter(grid, dt, dt / s_arr, p, c)),
                lambda ai, pi, si: rk(ti.exponential_step_filter(grid, dt, dt / si, p, c))),
            'horizontal_diffusion_step_filter[tau array]': (
                lambda: rk(ti.horizontal_diffusion_step_filter(grid, dt, dt / s_arr, od)),
                lambda ai, pi, si: rk(ti.horizontal_diffusion_step_filter(grid, dt, dt / si, od))),
        }
        for vname, (mk_arr, mk_one) in variants.items():
          with np.errstate(all='ignore'):
            ok, y = M.no_raise('filter_constructs_and_applies', lambda mk_arr=mk_arr: np.asarray(mk_arr()(x)),
                               info={**info, 'filter': vname, 'param_shape': list(shape)})
          if not ok:
            continue
          if y.shape != x.shape:
            M.check('array_parameter_equals_scalar_per_slice', False,
                    info={**info, 'filter': vname, 'reason': 'shape changed', 'shape': list(y.shape)})
            continue
          for idx in np.ndindex(*lead):
            j = idx + (0, 0)
            want = np.asarray(mk_one(float(a_full[j]), int(p_full[j]), float(s_full[j]))(x[idx]))
            M.close('array_parameter_equals_scalar_per_slice', y[idx], want, tol,
                    scale=max(1.0, float(np.abs(x[idx]).max())),
                    info={**info, 'filter': vname, 'slice': list(idx), 'param_shape': list(shape)})
          M.check('factor_finite_on_padding', bool(np.all(np.isfinite(y))), info={**info, 'filter': vname})
          M.cover('array_parameter', f'{vname} {len(shape)}-d')
          # leaves of LOWER rank than the array-valued strength travelling in the same pytree (a
          # static [m,l] field, an [l] diagnostic, a scalar clock): there is no slice of the strength
          # to pair them with; a filter never changes the shape of a leaf, and these come back as is
          low = {'x': x, 'static_ml': rng.standard_normal(G.ms).astype(dt_),
                 'diag_l': rng.standard_normal(G.ms[1:]).astype(dt_), 'clock': np.asarray(3.5, dt_)}
          with np.errstate(all='ignore'):
            ok2, out2 = M.no_raise('filter_accepts_mixed_pytree', lambda mk_arr=mk_arr: mk_arr()(low),
                                   info={**info, 'filter': vname, 'param_shape': list(shape), 'tree': 'lower-rank leaves'})
          if ok2:
            for kname, leaf in low.items():
              got = np.asarray(out2[kname])
              M.check('filter_preserves_leaf_shape', got.shape == np.shape(leaf),
                      info={**info, 'filter': vname, 'leaf': kname, 'in': list(np.shape(leaf)),
                            'out': list(got.shape), 'param_shape': list(shape)})
              if kname != 'x' and got.shape == np.shape(leaf):
                M.same('array_parameter_keeps_lower_rank_leaves', got, np.asarray(leaf),
                       info={**info, 'filter': vname, 'leaf': kname, 'param_shape': list(shape)})

    # -------------------------------------------------- mixed pytrees
    if t % 3 == 0 and G.ms[1] >= 4:
      spec, other = _mixed_tree(rng, G, dt_, lead=())
      tree = {'spec': spec, 'other': other, 'nested': ({'t': other['sim_time']}, [other['key'], spec['plain']])}
      flt_defs = {
          'exponential_filter': filtering.exponential_filter(grid, a, p, c),
          'horizontal_diffusion_filter': filtering.horizontal_diffusion_filter(grid, ratio / lam_max ** od, od),
      }
      for fname, flt in flt_defs.items():
        fac = np.asarray(flt(ones))
        ok, out = M.no_raise('filter_accepts_mixed_pytree', lambda flt=flt: flt(tree),
                             info={**info, 'filter': fname})
        if not ok:
          continue
        for k, v in other.items():
          _same_leaf(M, 'nonspectral_leaf_identical', out['other'][k], v, {**info, 'filter': fname, 'leaf': k})
        _same_leaf(M, 'nonspectral_leaf_identical', out['nested'][0]['t'], other['sim_time'], {**info, 'leaf': 'nested.t'})
        _same_leaf(M, 'nonspectral_leaf_identical', out['nested'][1][0], other['key'], {**info, 'leaf': 'nested.key'})
        for k, v in list(spec.items()) + [('nested.plain', spec['plain'])]:
          got = out['spec'][k] if k in spec else out['nested'][1][1]
          M.close('spectral_leaf_scaled', np.asarray(got), fac * v, tol, scale=max(1.0, float(np.abs(v).max())),
                  info={**info, 'filter': fname, 'leaf': k})
          M.check('spectral_leaf_scaled', np.asarray(got).dtype == v.dtype and np.asarray(got).shape == v.shape,
                  info={**info, 'filter': fname, 'leaf': k, 'reason': 'dtype/shape'})
        # under jit (array leaves only)
        arr_tree = {'spec': spec, 'other': {k: v for k, v in other.items()
                                             if isinstance(v, np.ndarray) or isinstance(v, np.generic)
                                             and not isinstance(v, (np.datetime64, np.timedelta64))}}
        ok, outj = M.no_raise('filter_accepts_mixed_pytree', lambda flt=flt: jax.jit(flt)(arr_tree),
                              info={**info, 'filter': fname, 'mode': 'jit'})
        if ok:
          for k, v in arr_tree['other'].items():
            M.same('nonspectral_leaf_identical', np.asarray(outj['other'][k]), np.asarray(jnp.asarray(v)),
                   info={**info, 'filter': fname, 'leaf': k, 'mode': 'jit'})
          for k, v in spec.items():
            M.close('spectral_leaf_scaled', np.asarray(outj['spec'][k]), fac * v, tol,
                    scale=max(1.0, float(np.abs(v).max())), info={**info, 'filter': fname, 'leaf': k, 'mode': 'jit'})
      # step-filter adapters on state-like pytrees
      state = {'vorticity': spec['vorticity'], 'log_sp': spec['surface'], 'sim_time': other['sim_time'],
               'rng': other['key'], 'diag': other['vec5']}
      garbage = jax.tree_util.tree_map(lambda v: np.full_like(v, 99), state)
      base = filtering.exponential_filter(grid, dt / tau, p, c)
      want = base(state)
      for sname, sflt in (('exponential_step_filter', ti.exponential_step_filter(grid, dt, tau, p, c)),
                          ('runge_kutta_step_filter', ti.runge_kutta_step_filter(base))):
        for u_prev, lbl in ((None, 'u=None'), (garbage, 'u=garbage'), (state, 'u=state')):
          ok, got = M.no_raise('filter_accepts_mixed_pytree', lambda sflt=sflt, u_prev=u_prev: sflt(u_prev, state),
                               info={**info, 'filter': sname, 'u': lbl})
          if ok:
            _tree_same(M, 'step_filter_adapter_semantics', got, want, {**info, 'filter': sname, 'u': lbl})
      cur = jax.tree_util.tree_map(lambda v: v.copy(), state)
      cur['vorticity'] = cur['vorticity'] * dt_(0.5)
      for sname, sflt in (('exponential_leapfrog_step_filter', ti.exponential_leapfrog_step_filter(grid, dt, tau, p, c)),
                          ('leapfrog_step_filter', ti.leapfrog_step_filter(base))):
        for u_prev, lbl in ((None, 'u=None'), ((garbage, garbage), 'u=garbage')):
          ok, got = M.no_raise('filter_accepts_mixed_pytree', lambda sflt=sflt, u_prev=u_prev: sflt(u_prev, (cur, state)),
                               info={**info, 'filter': sname, 'u': lbl})
          if ok:
            M.check('step_filter_adapter_semantics', isinstance(got, tuple) and len(got) == 2,
                    info={**info, 'filter': sname, 'reason': 'leapfrog filter must return a pair'})
            if isinstance(got, tuple) and len(got) == 2:
              _tree_same(M, 'step_filter_adapter_semantics', got[0], cur, {**info, 'filter': sname, 'member': 'current (untouched)'})
              _tree_same(M, 'step_filter_adapter_semantics', got[1], want, {**info, 'filter': sname, 'member': 'future (filtered)'})
      # the diffusion step filter on the state-like pytree: non-spectral leaves identical
      ok, got = M.no_raise('filter_accepts_mixed_pytree',
                           lambda: ti.horizontal_diffusion_step_filter(grid, dt, tau, od)(None, state),
                           info={**info, 'filter': 'horizontal_diffusion_step_filter'})
      if ok:
        for k in ('sim_time', 'rng', 'diag'):
          _same_leaf(M, 'nonspectral_leaf_identical', got[k], state[k], {**info, 'filter': 'horizontal_diffusion_step_filter', 'leaf': k})
      M.cover('mixed_pytree', 'applied')
  M.sample({'grid': cfg, 'modal_shape': list(G.ms), 'padded': G.padded, 'trials': case['ntrial']})


def _tree_same(M, name, got, want, info):
  import jax  # pylint: disable=import-outside-toplevel
  lg, tg = jax.tree_util.tree_flatten(got)
  lw, tw = jax.tree_util.tree_flatten(want)
  if tg != tw:
    M.check(name, False, info={**info, 'reason': 'tree structure differs'})
    return
  for a, b in zip(lg, lw):
    M.same(name, np.asarray(a), np.asarray(b), info=info)


# ------------------------------------------------------------------------------------ run: Robert-Asselin
def _run_ra(case, M):
  from dinosaur import time_integration as ti  # pylint: disable=import-outside-toplevel
  f64 = M.env.startswith('f64')
  dt_ = np.float64 if f64 else np.float32
  tol = 1e-12 if f64 else 2e-6
  rng = M.rng()
  for t in range(case['ntrial']):
    r = float(rng.choice([0.0, 0.5, rng.uniform(0.0, 0.5), rng.uniform(0.01, 0.05)]))
    shapes = [(), (5,), (3, 4), (2, 6, 7)]
    def tree(scale=1.0):
      return {'a': (rng.standard_normal(shapes[2]) * scale).astype(dt_),
              'b': [(rng.standard_normal(shapes[1]) * scale).astype(dt_), dt_(rng.standard_normal() * scale)],
              'c': {'d': (rng.standard_normal(shapes[3]) * scale).astype(dt_), 'sim_time': dt_(rng.uniform(0, 100))}}
    import jax  # pylint: disable=import-outside-toplevel
    tm = jax.tree_util.tree_map
    p, c, f, junk = tree(), tree(), tree(), tree(50.0)
    flt = ti.robert_asselin_leapfrog_filter(r)
    info = {'r': r}
    ok, out = M.no_raise('ra_filter_applies', lambda: flt((p, c), (junk, f)), info=info)
    if not ok:
      continue
    M.check('ra_three_point_formula', isinstance(out, tuple) and len(out) == 2, info={**info, 'reason': 'must return a pair'})
    if not (isinstance(out, tuple) and len(out) == 2):
      continue
    _tree_same(M, 'ra_newest_level_untouched', out[1], f, info)
    want = tm(lambda pp, cc, ff: cc + r * (pp.astype(np.float64) - 2 * cc.astype(np.float64) + ff.astype(np.float64))
              if isinstance(cc, np.ndarray) else float(cc) + r * (float(pp) - 2 * float(cc) + float(ff)), p, c, f)
    for g, w_, pp, cc, ff in zip(jax.tree_util.tree_leaves(out[0]), jax.tree_util.tree_leaves(want),
                                 jax.tree_util.tree_leaves(p), jax.tree_util.tree_leaves(c), jax.tree_util.tree_leaves(f)):
      sc = max(float(np.abs(pp).max()), float(np.abs(cc).max()), float(np.abs(ff).max()), 1e-30)
      M.close('ra_three_point_formula', np.asarray(g), np.asarray(w_), tol, scale=sc, info=info)
      M.check('ra_three_point_formula', np.asarray(g).shape == np.shape(cc), info={**info, 'reason': 'shape'})
    # independent of the (ignored) older slot of u_next
    out2 = flt((p, c), (tree(1e3), f))
    _tree_same(M, 'ra_three_point_formula', out2[0], out[0], {**info, 'reason': 'must not depend on u_next[0]'})
    # sequences linear in time
    a0, b0 = tree(), tree(0.3)
    lin = [tm(lambda a, b, k=k: (a + dt_(k) * b).astype(dt_) if isinstance(a, np.ndarray) else dt_(a + dt_(k) * b), a0, b0)
           for k in range(3)]
    o = flt((lin[0], lin[1]), (lin[1], lin[2]))
    for g, w_, z in zip(jax.tree_util.tree_leaves(o[0]), jax.tree_util.tree_leaves(lin[1]), jax.tree_util.tree_leaves(lin[2])):
      sc = max(float(np.abs(z).max()), float(np.abs(w_).max()), 1e-30)
      M.close('ra_linear_sequence_unchanged', np.asarray(g), np.asarray(w_), 1e-12 if f64 else 1e-5, scale=sc, info=info)
    _tree_same(M, 'ra_newest_level_untouched', o[1], lin[2], {**info, 'sequence': 'linear'})
    M.nontrivial_global('ra', round(r, 9), t, case['id'], M.env) if r > 0 else None
    M.cover('ra_strength', 'r=0' if r == 0 else ('r=0.5' if r == 0.5 else 'generic'))


def run(case, M):
  from vp import contracts  # pylint: disable=import-outside-toplevel
  contracts.install()
  snap = contracts.snapshot()
  try:
    if case['kind'] == 'suite':
      from vp.props import c11  # pylint: disable=import-outside-toplevel
      c11._run_suite(case, M)  # pylint: disable=protected-access
    elif case['kind'] == 'ra':
      _run_ra(case, M)
    else:
      _run_grid(case, M)
  except contracts.ContractViolation as e:
    M.event('contract_violation_raised', message=str(e)[:400])
  finally:
    if contracts.installed():
      contracts.report_to_monitor(M, snap)
    else:
      M.unavailable('contracts (guard DINOSAUR_VERIF not set)')
