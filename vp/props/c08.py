"""C08 — forward- and reverse-mode derivatives are finite, mutually adjoint and correct.

AD-consistency monitors on executions of jax.jvp / jax.vjp of the real entry points (transforms,
filters, explicit/implicit terms, complete filtered multi-step functions of every integrator,
Held-Suarez forcing, vertical interpolation) and gradient-equality monitors for the scan
combinators (flat lax.scan, `repeated`, `trajectory_from_step`, `nested_checkpoint_scan`, with and
without jax.checkpoint).  See DESIGN.md §3 C08 and §2.5 (finite-difference retry protocol).

Oracles
  (a) every jvp / vjp output is finite (on a non-finite one the call is repeated eagerly under
      jax_debug_nans/jax_debug_infs and the first offending primitive goes into the witness);
  (b) <J v_i, w_j> = <v_i, J^T w_j> for every (input leaf i, output leaf j) block and in total;
  (c) J v equals the central difference (three step sizes, best one counts; fresh direction and
      smaller steps before a violation is declared); the same difference quotient also checks the
      reverse-mode product <FD, w> = <v, J^T w>;
  (d) gradients of a scalar loss through lax.scan, `repeated`, `nested_checkpoint_scan` for several
      factorisations, with / without jax.checkpoint, agree.
"""
from __future__ import annotations

import functools
import math

import numpy as np

from vp import gen

RULE = ('cases = (entry point, configuration, evaluation points). Entry points: Grid.to_nodal/'
        'to_modal and the two spectral filters; explicit_terms / implicit_terms / implicit_inverse '
        'of dry, dry+time, moist, cloud primitive equations and layered shallow water; '
        'HeldSuarezForcing.explicit_terms; filtered 1-3(4)-step functions of every integrator built '
        'with repeated / trajectory_from_step / nested_checkpoint_scan / jax.checkpoint; the five '
        'vertical-interpolation routines. Configurations: T5..T21 (Real/Fast, padded), 1-6 uneven '
        'sigma levels, random reference temperature and orography. Evaluation points: random states '
        'at physical amplitudes plus all-zero state, zero wind, clamped Held-Suarez equilibrium, '
        'interpolation queries on nodes / in the extrapolation zones. An (entry point, '
        'configuration, point) triple is non-trivial if all its jvp/vjp outputs were produced, the '
        'tangent had components in every input leaf and either the function is genuinely nonlinear '
        'at the point (J(x)v != J(x/2)v) or it is one of the declared linear / hostile members '
        '(counted separately in coverage_tables.point_kind); for (d) a nesting is non-trivial if '
        'it has >= 2 levels with lengths > 1 or toggles jax.checkpoint.')
MIN_NONTRIVIAL = {'quick': 40, 'thorough': 250}
REQUIRED_MONITORS = {'all': [
    'jvp_outputs_finite', 'vjp_outputs_finite', 'adjoint_identity_blocks',
    'adjoint_identity_total', 'jvp_matches_central_difference', 'vjp_matches_central_difference',
    'scan_nesting_gradients_agree', 'scan_nesting_values_agree',
    'checkpoint_does_not_change_gradients']}
ASSUMPTIONS = [
    'float64 build decides; the float32 pass checks finiteness and adjointness only (1e-4)',
    'a finite difference across a kink of maximum/interp is legitimately wrong: evaluation points '
    'sitting exactly on a kink (interpolation query on a node, equilibrium temperature exactly at '
    'the clamp) are checked for finiteness and adjointness only',
    'finite-difference tolerance 1e-6 relative per output leaf in L2 plus a rounding allowance of '
    '1e3*eps_machine*|f|/step; best of three step sizes, up to two retries with fresh directions '
    'and smaller steps',
    'tangents/cotangents are random (physical amplitude per leaf / unit normal), not a basis']
TIMEOUT = {'quick': 5400, 'thorough': 14400}

TOL_ADJ64, TOL_ADJ32 = 1e-10, 1e-4
TOL_FD = 1e-6
TOL_GRAD = 1e-12
FD_ALLOW = 1e3          # rounding allowance factor: FD_ALLOW * eps_machine * |f| / step
BLOCK_FLOOR = 1e-3      # blocks smaller than this fraction of their row/column maximum are
                        # compared on the row/column scale (rounding of the larger terms)
EPS_SETS = ((1e-4, 1e-5, 1e-6), (3e-5, 3e-6, 3e-7), (1e-5, 1e-6, 1e-7))

RK_INTEGRATORS = ('backward_forward_euler', 'crank_nicolson_rk2', 'crank_nicolson_rk3',
                  'crank_nicolson_rk4', 'imex_rk_sil3')
ALL_INTEGRATORS = RK_INTEGRATORS + ('semi_implicit_leapfrog',)
PE_KINDS = ('dry', 'time', 'moist', 'cloud')
# rough single-core seconds (idle machine) of the jvp+vjp compiles of one step function
_INT_COST = {'backward_forward_euler': 3.0, 'crank_nicolson_rk2': 5.0, 'crank_nicolson_rk3': 8.0,
             'crank_nicolson_rk4': 13.0, 'imex_rk_sil3': 9.0, 'semi_implicit_leapfrog': 3.5}
_EQ_COST = {'dry': 1.0, 'time': 1.0, 'moist': 1.6, 'cloud': 1.9, 'sw': 0.6, 'dry+hs': 1.5}


# ------------------------------------------------------------------------------------ case lists
def _g(M, impl='fast', **kw):
  return gen.with_wavenumbers_cfg(M, 'quadratic', impl=impl, **kw)


def _step_case(eq, integrator, filters, comb, M, layers, impl='fast', point='random', dt_s=600.0,
               uneven=True, env='f64', **kw):
  cost = 1.5 * _INT_COST[integrator] * _EQ_COST[eq] * (1.0 + (M / 22.0) ** 2 * layers / 6.0)
  if comb['type'] in ('traj_nested', 'repeated_nested'):
    cost *= 1.5
  c = {'kind': 'step', 'eq': eq, 'integrator': integrator, 'filters': filters, 'comb': comb,
       'grid': _g(M, impl, **kw), 'layers': layers, 'uneven': uneven, 'point': point,
       'dt_s': dt_s, 'env': env, 'cost': cost}
  return c


def _terms_case(eq, M, layers, impl='fast', points=('random', 'zero', 'zero_wind'), uneven=True,
                env='f64', fns=('explicit', 'implicit', 'inverse'), **kw):
  cost = 2.5 * _EQ_COST.get(eq, 1.0) * (1.0 + (M / 22.0) ** 2 * layers / 6.0) * (
      0.6 + 0.4 * len(fns))
  return {'kind': 'terms', 'eq': eq, 'grid': _g(M, impl, **kw), 'layers': layers,
          'uneven': uneven, 'points': list(points), 'fns': list(fns), 'env': env, 'cost': cost}


def _structured(tier):
  q = tier == 'quick'
  out = []
  # ---- transforms and filters
  out += [
      {'kind': 'transform', 'grid': gen.grid_cfg(6, 7, 19, 10), 'lead': [2], 'cost': 2.0},
      {'kind': 'transform', 'grid': gen.grid_cfg(8, 9, 25, 13, impl='fast', bsm=8), 'lead': [],
       'cost': 2.0},
      {'kind': 'transform', 'grid': gen.grid_cfg(5, 8, 16, 17, 'equiangular', offset=0.4,
                                                 radius=3.0, impl='fast'), 'lead': [3, 2],
       'cost': 2.0},
      {'kind': 'transform', 'grid': gen.factory_cfg('T21', 'fast'), 'lead': [3], 'cost': 3.0},
      {'kind': 'transform', 'grid': gen.grid_cfg(6, 7, 19, 10), 'lead': [2], 'cost': 2.0,
       'env': 'f32'},
  ]
  # ---- tendencies
  out += [
      _terms_case('dry', 6, 3, impl='real'),
      _terms_case('time', 8, 1, fns=('explicit', 'implicit', 'inverse', 'inverse_blockwise',
                                     'inverse_stacked')),
      # implicit_terms / implicit_inverse of the moist classes are inherited from ...WithTime
      _terms_case('moist', 11, 4, fns=('explicit', 'inverse') if q else
                  ('explicit', 'implicit', 'inverse')),
      _terms_case('cloud', 8, 3, fns=('explicit',) if q else ('explicit', 'implicit', 'inverse')),
      _terms_case('sw', 9, 2),
      _terms_case('hs', 8, 5, points=('random', 'zero', 'zero_wind', 'all_clamped', 'tie'),
                  fns=('explicit',)),
      _terms_case('moist', 6, 2, env='f32', points=('random', 'zero'), fns=('explicit', 'inverse')),
      _terms_case('hs', 6, 3, env='f32', points=('random', 'all_clamped'), fns=('explicit',)),
  ]
  if not q:
    out += [
        _terms_case('dry', 22, 6), _terms_case('moist', 22, 5, impl='real'),
        _terms_case('cloud', 16, 6, bsm=8), _terms_case('sw', 22, 4, impl='real'),
        _terms_case('hs', 22, 6, points=('random', 'zero', 'zero_wind', 'all_clamped', 'tie'),
                    fns=('explicit',)),
        _terms_case('dry', 11, 2, uneven=False), _terms_case('cloud', 6, 1),
        _terms_case('sw', 6, 1), _terms_case('dry', 8, 3, env='f32'),
        _terms_case('sw', 8, 2, env='f32', points=('random', 'zero')),
    ]
  # ---- step functions: every integrator, every combinator, every filter stack at least once
  S = _step_case
  out += [
      S('dry', 'backward_forward_euler', 'none', {'type': 'single'}, 6, 2, impl='real'),
      S('dry', 'backward_forward_euler', 'exp+diff', {'type': 'repeated', 'n': 3, 'ckpt': True},
        8, 3, point='zero'),
      S('time', 'crank_nicolson_rk2', 'exp', {'type': 'traj', 'outer': 2, 'inner': 1,
                                               'swi': False, 'post': 'full'}, 8, 2),
      S('moist', 'crank_nicolson_rk2', 'diff',
        {'type': 'traj_nested', 'lengths': [2, 2], 'inner': 1, 'swi': True, 'post': 'reduced'},
        6, 3, point='zero_wind'),
      S('dry', 'crank_nicolson_rk3', 'exp', {'type': 'repeated', 'n': 2, 'ckpt': False}, 6, 2),
      S('time', 'crank_nicolson_rk4', 'diff', {'type': 'single'}, 6, 1),
      S('moist', 'imex_rk_sil3', 'exp+diff', {'type': 'repeated', 'n': 2, 'ckpt': False}, 11, 4),
      S('cloud', 'imex_rk_sil3', 'exp', {'type': 'single'}, 6, 2, point='zero_wind'),
      S('dry+hs', 'imex_rk_sil3', 'exp', {'type': 'repeated', 'n': 2, 'ckpt': True}, 8, 4),
      S('sw', 'semi_implicit_leapfrog', 'leapfrog',
        {'type': 'traj', 'outer': 3, 'inner': 1, 'swi': False, 'post': 'first'}, 9, 2),
      S('dry', 'semi_implicit_leapfrog', 'leapfrog', {'type': 'repeated', 'n': 2, 'ckpt': False},
        6, 3, point='zero_wind'),
      S('sw', 'imex_rk_sil3', 'exp+diff',
        {'type': 'repeated_nested', 'lengths': [3, 1], 'ckpt': True}, 6, 3, point='zero'),
      S('sw', 'crank_nicolson_rk2', 'exp', {'type': 'repeated', 'n': 3, 'ckpt': False}, 8, 1,
        impl='real'),
      # float32 "as shipped"
      S('moist', 'imex_rk_sil3', 'exp+diff', {'type': 'repeated', 'n': 2, 'ckpt': False}, 8, 3,
        env='f32'),
      S('sw', 'semi_implicit_leapfrog', 'leapfrog', {'type': 'repeated', 'n': 3, 'ckpt': False},
        8, 2, env='f32'),
  ]
  if not q:
    out += [
        S('dry', 'crank_nicolson_rk3', 'exp', {'type': 'single'}, 6, 2, env='f32', point='zero'),
        S('cloud', 'crank_nicolson_rk4', 'exp+diff', {'type': 'repeated', 'n': 2, 'ckpt': False},
          22, 4),
        S('moist', 'imex_rk_sil3', 'exp+diff', {'type': 'traj', 'outer': 3, 'inner': 1,
                                                 'swi': True, 'post': 'full'}, 22, 6),
        S('dry', 'crank_nicolson_rk3', 'diff',
          {'type': 'traj_nested', 'lengths': [3, 1], 'inner': 1, 'swi': False, 'post': 'full'},
          16, 5, bsm=8),
        S('cloud', 'backward_forward_euler', 'exp', {'type': 'repeated', 'n': 3, 'ckpt': True},
          11, 3, point='zero'),
        S('time', 'semi_implicit_leapfrog', 'leapfrog',
          {'type': 'traj', 'outer': 2, 'inner': 1, 'swi': False, 'post': 'first'}, 11, 4),
        S('dry+hs', 'crank_nicolson_rk2', 'exp+diff', {'type': 'repeated', 'n': 3, 'ckpt': False},
          16, 6, point='zero_wind'),
        S('sw', 'crank_nicolson_rk4', 'diff', {'type': 'traj', 'outer': 1, 'inner': 2,
                                               'swi': False, 'post': 'full'}, 16, 4),
        S('moist', 'crank_nicolson_rk3', 'none',
          {'type': 'repeated_nested', 'lengths': [2, 2], 'ckpt': True}, 8, 2, impl='real'),
    ]
  # ---- scan nesting / checkpoint gradient equality
  out += [
      {'kind': 'ckpt', 'program': 'toy', 'n': 12,
       'fact': [[3, 4], [4, 3], [2, 3, 2], [12], [1, 12], [2, 1, 6]] if q else
               [[3, 4], [4, 3], [2, 2, 3], [2, 3, 2], [12], [1, 12], [12, 1], [2, 1, 6]],
       'cost': 14.0 if q else 18.0},
      {'kind': 'ckpt', 'program': 'model', 'eq': 'dry', 'integrator': 'backward_forward_euler',
       'filters': 'exp', 'grid': _g(6), 'layers': 2, 'n': 6, 'fact': [[2, 3], [3, 2]],
       'cost': 45.0},
  ]
  if not q:
    out += [
        {'kind': 'ckpt', 'program': 'model', 'eq': 'sw', 'integrator': 'crank_nicolson_rk2',
         'filters': 'none', 'grid': _g(6, 'real'), 'layers': 2, 'n': 4, 'fact': [[2, 2], [4, 1]],
         'cost': 45.0},
        {'kind': 'ckpt', 'program': 'toy', 'n': 24,
         'fact': [[2, 12], [24], [4, 6], [6, 4], [2, 3, 4], [4, 3, 2], [2, 2, 2, 3], [3, 1, 8]],
         'cost': 20.0},
        {'kind': 'ckpt', 'program': 'model', 'eq': 'moist', 'integrator': 'imex_rk_sil3',
         'filters': 'exp+diff', 'grid': _g(8), 'layers': 3, 'n': 6,
         'fact': [[2, 3], [3, 2], [6, 1], [1, 6]], 'cost': 150.0},
        {'kind': 'ckpt', 'program': 'model', 'eq': 'dry', 'integrator': 'semi_implicit_leapfrog',
         'filters': 'leapfrog', 'grid': _g(6), 'layers': 3, 'n': 8,
         'fact': [[2, 4], [4, 2], [2, 2, 2]], 'cost': 70.0},
    ]
  # ---- vertical interpolation
  out += [
      {'kind': 'interp', 'fn': 'interp', 'nodes': 5, 'cost': 3.0},
      {'kind': 'interp', 'fn': 'linear_extrap', 'nodes': 4, 'cost': 3.0},
      {'kind': 'interp', 'fn': 'sigma_to_pressure', 'grid': gen.grid_cfg(4, 5, 13, 7),
       'layers': 5, 'cost': 4.0},
      {'kind': 'interp', 'fn': 'pressure_to_sigma', 'grid': gen.grid_cfg(4, 5, 13, 7),
       'layers': 4, 'cost': 4.0},
      {'kind': 'interp', 'fn': 'surface_pressure', 'grid': gen.grid_cfg(4, 5, 13, 7),
       'layers': 6, 'cost': 4.0},
      {'kind': 'interp', 'fn': 'interp', 'nodes': 2, 'cost': 3.0},
      {'kind': 'interp', 'fn': 'linear_extrap', 'nodes': 2, 'cost': 3.0},
      {'kind': 'interp', 'fn': 'sigma_to_pressure', 'grid': gen.grid_cfg(3, 4, 10, 5),
       'layers': 3, 'cost': 4.0, 'env': 'f32'},
      {'kind': 'interp', 'fn': 'surface_pressure', 'grid': gen.grid_cfg(3, 4, 10, 5),
       'layers': 4, 'cost': 4.0, 'env': 'f32'},
  ]
  return out


_COMB_POOL = (
    {'type': 'single'},
    {'type': 'repeated', 'n': 2, 'ckpt': False}, {'type': 'repeated', 'n': 3, 'ckpt': False},
    {'type': 'repeated', 'n': 2, 'ckpt': True}, {'type': 'repeated', 'n': 3, 'ckpt': True},
    {'type': 'traj', 'outer': 2, 'inner': 1, 'swi': False, 'post': 'full'},
    {'type': 'traj', 'outer': 1, 'inner': 2, 'swi': True, 'post': 'reduced'},
    {'type': 'traj', 'outer': 3, 'inner': 1, 'swi': True, 'post': 'reduced'},
    {'type': 'traj_nested', 'lengths': [2, 2], 'inner': 1, 'swi': False, 'post': 'reduced'},
    {'type': 'traj_nested', 'lengths': [1, 3], 'inner': 1, 'swi': False, 'post': 'full'},
    {'type': 'repeated_nested', 'lengths': [2, 2], 'ckpt': True},
    {'type': 'repeated_nested', 'lengths': [3, 1], 'ckpt': False},
)


def _random_cases(tier, seed):
  rng = np.random.default_rng([seed, 108])
  out = []
  n_step = 2 if tier == 'quick' else 48
  n_terms = 1 if tier == 'quick' else 12
  n_interp = 2 if tier == 'quick' else 16
  max_m = 11 if tier == 'quick' else 22
  for _ in range(n_step):
    eq = str(rng.choice(['dry', 'time', 'moist', 'cloud', 'sw', 'dry+hs'],
                        p=[0.2, 0.1, 0.25, 0.15, 0.2, 0.1]))
    integ = str(rng.choice(ALL_INTEGRATORS, p=[0.2, 0.2, 0.15, 0.1, 0.2, 0.15]))
    if tier == 'quick' and integ == 'crank_nicolson_rk4':
      integ = 'crank_nicolson_rk2'
    leap = integ == 'semi_implicit_leapfrog'
    filt = 'leapfrog' if leap else str(rng.choice(['none', 'exp', 'diff', 'exp+diff']))
    if leap and rng.random() < 0.3:
      filt = 'none'
    comb = dict(_COMB_POOL[int(rng.integers(len(_COMB_POOL)))])
    if leap and comb.get('post') == 'reduced':
      comb['post'] = 'first'
    M = int(rng.integers(6, max_m + 1))
    layers = int(rng.integers(1, 7 if tier == 'thorough' else 5))
    impl = str(rng.choice(['fast', 'real']))
    kw = {}
    if impl == 'fast' and rng.random() < 0.25:
      kw['bsm'] = int(rng.choice([2, 4, 8]))
    point = str(rng.choice(['random', 'random', 'random', 'zero', 'zero_wind']))
    out.append(_step_case(eq, integ, filt, comb, M, layers, impl=impl, point=point,
                          dt_s=float(rng.choice([300.0, 600.0, 1200.0])),
                          uneven=bool(rng.random() < 0.85), **kw))
  for _ in range(n_terms):
    eq = str(rng.choice(['dry', 'time', 'moist', 'cloud', 'sw', 'hs']))
    M = int(rng.integers(6, max_m + 1))
    layers = int(rng.integers(1, 7))
    pts = ('random', 'zero', 'zero_wind') + (('all_clamped', 'tie') if eq == 'hs' else ())
    out.append(_terms_case(eq, M, layers, impl=str(rng.choice(['fast', 'real'])), points=pts,
                           fns=('explicit',) if eq == 'hs' else ('explicit', 'implicit', 'inverse'),
                           uneven=bool(rng.random() < 0.85)))
  for _ in range(n_interp):
    fn = str(rng.choice(['interp', 'linear_extrap', 'sigma_to_pressure', 'pressure_to_sigma',
                         'surface_pressure']))
    c = {'kind': 'interp', 'fn': fn, 'cost': 4.0}
    if fn in ('interp', 'linear_extrap'):
      c['nodes'] = int(rng.integers(2, 9))
    else:
      c['grid'] = gen.grid_cfg(4, 5, 13, 7) if rng.random() < 0.5 else gen.grid_cfg(3, 4, 10, 6)
      c['layers'] = int(rng.integers(2 if fn != 'surface_pressure' else 2, 7))
    out.append(c)
  return out


def _tag(c):
  k = c['kind']
  if k == 'transform':
    return f"tr-{gen.grid_tag(c['grid'])}-{'x'.join(map(str, c['lead'])) or 's'}"
  if k == 'terms':
    return f"terms-{c['eq']}-{gen.grid_tag(c['grid'])}-{c['layers']}{'u' if c['uneven'] else 'e'}"
  if k == 'step':
    cb = c['comb']
    t = cb['type'] + ''.join(str(cb.get(a, '')) for a in ('n', 'outer', 'inner')) + \
        ''.join(map(str, cb.get('lengths', []))) + ('c' if cb.get('ckpt') else '')
    return (f"step-{c['eq']}-{c['integrator']}-{c['filters']}-{t}-{gen.grid_tag(c['grid'])}-"
            f"{c['layers']}-{c['point']}")
  if k == 'ckpt':
    return f"ckpt-{c['program']}-{c.get('eq', '')}-{c.get('integrator', '')}-{c['n']}"
  return f"interp-{c['fn']}-{c.get('nodes', c.get('layers'))}"


def cases(tier, seed):
  out = []
  for i, c in enumerate(_structured(tier) + _random_cases(tier, seed)):
    c = dict(c)
    c.setdefault('env', 'f64')
    c['id'] = f"{i:03d}-{_tag(c)}" + ('-f32' if c['env'] == 'f32' else '')
    out.append(c)
  return out


# ------------------------------------------------------------------------------------ AD harness
class _Ctx:
  """jax handles + numeric settings of the current worker environment."""

  def __init__(self, M):
    import jax  # pylint: disable=import-outside-toplevel
    import jax.numpy as jnp  # pylint: disable=import-outside-toplevel
    self.jax, self.jnp, self.M = jax, jnp, M
    self.f64 = M.env.startswith('f64')
    self.dtype = np.float64 if self.f64 else np.float32
    self.u = float(np.finfo(self.dtype).eps)
    self.tol_adj = TOL_ADJ64 if self.f64 else TOL_ADJ32
    self.sfx = '' if self.f64 else '_f32'     # f32 residuals are kept apart in the evidence
    self.tm = jax.tree_util.tree_map

  def arr(self, tree):
    """Every leaf as a jax array of the working dtype."""
    return self.tm(lambda a: self.jnp.asarray(np.asarray(a), dtype=self.dtype), tree)

  def leaves(self, tree):
    return [np.asarray(a) for a in self.jax.tree_util.tree_leaves(tree)]

  def names(self, tree):
    paths = self.jax.tree_util.tree_flatten_with_path(tree)[0]
    return [self.jax.tree_util.keystr(p) or 'arg' for p, _ in paths]

  def only_leaf(self, tree, i):
    leaves, treedef = self.jax.tree_util.tree_flatten(tree)
    new = [l if k == i else self.jnp.zeros_like(l) for k, l in enumerate(leaves)]
    return self.jax.tree_util.tree_unflatten(treedef, new)

  def axpy(self, x, a, v):
    return self.tm(lambda p, q: p + self.jnp.asarray(a, p.dtype) * q, x, v)

  def normal_like(self, rng, tree):
    return self.tm(lambda a: self.jnp.asarray(rng.standard_normal(np.shape(a)), dtype=a.dtype),
                   tree)


def _all_finite(ctx, tree):
  return all(np.all(np.isfinite(a)) for a in ctx.leaves(tree) if a.dtype.kind in 'fc')


def _localise(ctx, thunk):
  """Re-run eagerly under jax_debug_nans / jax_debug_infs; returns the sanitizer's message."""
  jax = ctx.jax
  prev = (jax.config.jax_debug_nans, jax.config.jax_debug_infs)
  jax.config.update('jax_debug_nans', True)
  jax.config.update('jax_debug_infs', True)
  try:
    out = thunk()
    jax.block_until_ready(out)
    return 'jax_debug_nans/infs re-run: no primitive reported'
  except FloatingPointError as e:
    return ('jax_debug_nans: ' + str(e).strip().splitlines()[0])[:400]
  except Exception as e:  # pylint: disable=broad-except
    return f'sanitizer re-run raised {type(e).__name__}: {e}'[:400]
  finally:
    jax.config.update('jax_debug_nans', prev[0])
    jax.config.update('jax_debug_infs', prev[1])


def _norm(a):
  return float(np.sqrt(np.sum(np.square(np.asarray(a, dtype=np.float64)))))


def _vdot(a, b):
  return float(np.sum(np.asarray(a, dtype=np.float64) * np.asarray(b, dtype=np.float64)))


class ADProbe:
  """jvp / vjp of one function, compiled once, evaluated at several points."""

  def __init__(self, ctx, label, fn, info=None):
    jax = ctx.jax
    self.ctx, self.label, self.fn = ctx, label, fn
    self.info = dict(info or {}, entry=label)
    self.jvp = jax.jit(lambda x, v: jax.jvp(fn, (x,), (v,)))

    def _vjp(x, w):
      y, pull = jax.vjp(fn, x)
      return y, pull(w)[0]
    self.vjp = jax.jit(_vjp)
    self.jvp_ok = True

  # -- helpers
  def _primal(self, x, v0):
    if self.jvp_ok:
      return self.jvp(x, v0)[0]
    y = self.fn(x)
    return y

  def coarse_fd(self, x, make_v, rng, h=0.5):
    """Macroscopic slope: Richardson-extrapolated central difference at COARSE steps h, h/2 along a
    fresh tangent, for points where the harness guarantees that x +- h*v stays inside one smooth
    piece of the function (caller's responsibility).  The tiny-step difference quotient cannot see
    a primal that was made piecewise constant at the 1e-7 level (a rounding / snapping / narrow
    cast inside a differentiable routine): its a.e. derivative is zero and so is the quotient at
    steps below the quantum.  The coarse quotient measures the slope the user means."""
    ctx, M = self.ctx, self.ctx.M
    if not ctx.f64:
      return
    x = ctx.arr(x)
    v = ctx.arr(make_v(rng))
    _, Jv = self.jvp(x, v)
    Jvl = ctx.leaves(Jv)
    names = ctx.names(Jv)

    def fd(step):
      yp = ctx.leaves(self._primal(ctx.axpy(x, step, v), v))
      ym = ctx.leaves(self._primal(ctx.axpy(x, -step, v), v))
      return [(np.asarray(p, np.float64) - np.asarray(q, np.float64)) / (2 * step) for p, q in zip(yp, ym)]
    f1, f2 = fd(h), fd(h / 2)
    worst, leaf = 0.0, None
    for j, (p, a, b) in enumerate(zip(Jvl, f1, f2)):
      rich = (4 * b - a) / 3
      trunc = _norm(b - a)            # size of the h^2 term that Richardson removed
      den = max(_norm(p), _norm(rich)) + 1e-3 * trunc / TOL_FD
      r = _norm(np.asarray(p, np.float64) - rich) / den if den > 0 else 0.0
      if r >= worst:
        worst, leaf = r, names[j]
    M.small('jvp_matches_coarse_richardson_difference', worst, 1.0, TOL_FD,
            info=dict(self.info, h=h, leaf=leaf))

  def point(self, x, make_v, rng, kind='random', fd=True, nonlinear=True, linear_fn=False):
    """All oracles at one evaluation point.  make_v(rng) -> tangent pytree like x."""
    ctx, M, jax = self.ctx, self.ctx.M, self.ctx.jax
    info = dict(self.info, point=kind)
    x = ctx.arr(x)
    v = ctx.arr(make_v(rng))
    M.cover('point_kind', f'{self.label.split(":")[0]}:{kind}')
    # ---------------------------------------------------------------- (a) forward mode
    ok, res = M.no_raise('jvp_defined', lambda: jax.block_until_ready(self.jvp(x, v)), info=info)
    y = Jv = None
    if ok:
      y, Jv = res
      if not _all_finite(ctx, (y, Jv)):
        where = 'primal' if not _all_finite(ctx, y) else 'tangent'
        loc = _localise(ctx, lambda: jax.jvp(self.fn, (x,), (v,)))
        M.event('sanitizer', entry=self.label, mode='jvp', report=loc)
        M.finite('jvp_outputs_finite', (y, Jv), info=dict(info, first_nonfinite=where,
                                                          sanitizer=loc))
        return False
      M.finite('jvp_outputs_finite', (y, Jv), info=info)
    else:
      self.jvp_ok = False
    # ---------------------------------------------------------------- (a) reverse mode
    y_struct = y if y is not None else jax.eval_shape(self.fn, x)
    w = ctx.tm(lambda a: ctx.jnp.asarray(rng.standard_normal(a.shape), dtype=a.dtype), y_struct)
    ok_r, res = M.no_raise('vjp_defined', lambda: jax.block_until_ready(self.vjp(x, w)),
                           info=info)
    if not ok_r:
      return False
    y2, JTw = res
    if not _all_finite(ctx, (y2, JTw)):
      loc = _localise(ctx, lambda: jax.vjp(self.fn, x)[1](w))
      M.event('sanitizer', entry=self.label, mode='vjp', report=loc)
      M.finite('vjp_outputs_finite', (y2, JTw), info=dict(info, sanitizer=loc))
      return False
    M.finite('vjp_outputs_finite', (y2, JTw), info=info)
    if y is None:
      y = y2
    out_names = ctx.names(y2)
    in_names = ctx.names(x)
    vl, wl = ctx.leaves(v), ctx.leaves(w)
    nin, nout = len(vl), len(wl)
    M.check('tangent_has_components_in_every_input_leaf',
            all(_norm(a) > 0 for a in vl if a.size), info=info)
    # ---------------------------------------------------------------- (b) adjoint identity
    if ok:
      Jvl, JTwl = ctx.leaves(Jv), ctx.leaves(JTw)
      a_tot = sum(_vdot(p, q) for p, q in zip(Jvl, wl))
      b_tot = sum(_vdot(p, q) for p, q in zip(vl, JTwl))
      s_tot = max(sum(_norm(p) * _norm(q) for p, q in zip(Jvl, wl)),
                  sum(_norm(p) * _norm(q) for p, q in zip(vl, JTwl)))
      M.close('adjoint_identity_total' + ctx.sfx, a_tot, b_tot, ctx.tol_adj,
              scale=s_tot if s_tot > 0 else 1.0, info=info)
      # blocks: J v_i for every input leaf, J^T w_j for every output leaf
      cols = [ctx.leaves(self.jvp(x, ctx.only_leaf(v, i))[1]) for i in range(nin)]
      rows = [ctx.leaves(self.vjp(x, ctx.only_leaf(w, j))[1]) for j in range(nout)]
      A = np.zeros((nin, nout))
      B = np.zeros((nin, nout))
      SA = np.zeros((nin, nout))
      SB = np.zeros((nin, nout))
      for i in range(nin):
        for j in range(nout):
          A[i, j] = _vdot(cols[i][j], wl[j])
          B[i, j] = _vdot(vl[i], rows[j][i])
          SA[i, j] = _norm(cols[i][j]) * _norm(wl[j])
          SB[i, j] = _norm(vl[i]) * _norm(rows[j][i])
      S = np.maximum(SA, SB)
      floor = BLOCK_FLOOR if ctx.f64 else 1.0
      Sf = np.maximum(S, floor * np.maximum(S.max(axis=0, keepdims=True),
                                            S.max(axis=1, keepdims=True)))
      Sf = np.where(Sf > 0, Sf, 1.0)
      R = np.abs(A - B) / Sf
      worst = np.unravel_index(int(np.argmax(R)), R.shape) if R.size else (0, 0)
      M.small('adjoint_identity_blocks' + ctx.sfx, R, 1.0, ctx.tol_adj,
              info=dict(info, block=(in_names[worst[0]], out_names[worst[1]]) if R.size else None))
      M.cover('adjoint_blocks', 'nonzero', int((S > 0).sum()))
      M.cover('adjoint_blocks', 'exactly_zero_in_both_modes', int((S == 0).sum()))
      if linear_fn:
        # J v of a linear map is the map itself (minus its value at 0)
        f0 = ctx.leaves(self._primal(ctx.tm(ctx.jnp.zeros_like, x), v))
        fv = ctx.leaves(self._primal(v, v))
        for p, q, r, nm in zip(Jvl, fv, f0, out_names):
          M.close('jvp_of_linear_map_is_the_map', p, q - r, 1e-12 if ctx.f64 else 1e-4,
                  scale=max(float(np.abs(q).max()) if q.size else 0.0, 1e-300),
                  info=dict(info, leaf=nm))
    # ---------------------------------------------------------------- non-triviality
    nl = None
    if ok and nonlinear:
      Jh = ctx.leaves(self.jvp(ctx.tm(lambda a: 0.5 * a, x), v)[1])
      num = math.sqrt(sum(_norm(p - q) ** 2 for p, q in zip(Jvl, Jh)))
      den = math.sqrt(sum(_norm(p) ** 2 for p in Jvl))
      nl = num / den if den > 0 else 0.0
      M.note('nonlinearity |J(x)v-J(x/2)v|/|J(x)v| (min over non-hostile points)_min',
             nl if kind == 'random' else 1.0, how='min')
    # ---------------------------------------------------------------- (c) finite differences
    if fd and ctx.f64:
      self._fd(x, v, Jv if ok else None, w, JTw, make_v, rng, info, out_names)
    elif not ctx.f64:
      M.cover('finite_difference', 'skipped:f32')
    else:
      M.cover('finite_difference', f'skipped:on_kink:{kind}')
    if ok and (linear_fn or kind != 'random' or (nl is not None and nl > 1e-9)
               or not nonlinear):
      M.nontrivial(self.label, kind)
    return True

  def _fd(self, x, v, Jv, w, JTw, make_v, rng, info, out_names):
    ctx, M = self.ctx, self.ctx.M
    attempts = []
    best = math.inf
    best_rev = math.inf
    for attempt, eps_set in enumerate(EPS_SETS if Jv is not None else EPS_SETS[:1]):
      if attempt > 0:
        v = ctx.arr(make_v(rng))
        Jv = self.jvp(x, v)[1]
        w = ctx.normal_like(rng, w)
        JTw = self.vjp(x, w)[1]
      Jvl = ctx.leaves(Jv) if Jv is not None else None
      wl, vl, JTwl = ctx.leaves(w), ctx.leaves(v), ctx.leaves(JTw)
      b_rev = sum(_vdot(p, q) for p, q in zip(vl, JTwl))
      # finite-amplitude response |f(x + v/2) - f(x)| / (1/2): the natural size of a derivative
      # of output leaf j along v.  Where J v vanishes identically (e.g. a purely quadratic term at
      # the all-zero state) the central difference is O(step^2 * third derivative) instead of 0,
      # which is truncation error of the oracle, not an error of J.
      y0 = ctx.leaves(self._primal(x, v))
      yh = ctx.leaves(self._primal(ctx.axpy(x, 0.5, v), v))
      resp = [2.0 * _norm(p - q) for p, q in zip(yh, y0)]
      resp = [r if math.isfinite(r) else 0.0 for r in resp]
      per_eps = []
      for eps in eps_set:
        yp = ctx.leaves(self._primal(ctx.axpy(x, eps, v), v))
        ym = ctx.leaves(self._primal(ctx.axpy(x, -eps, v), v))
        fd = [(p - q) / (2 * eps) for p, q in zip(yp, ym)]
        allow = [FD_ALLOW * ctx.u * max(_norm(p), _norm(q)) / eps for p, q in zip(yp, ym)]
        r = 0.0
        worst_leaf = None
        if Jvl is not None:
          for j, (p, q) in enumerate(zip(Jvl, fd)):
            den = max(_norm(p), _norm(q), resp[j]) + allow[j] / TOL_FD
            rj = _norm(p - q) / den if den > 0 else 0.0
            if rj >= r:
              r, worst_leaf = rj, out_names[j]
        # reverse mode against the same difference quotient
        a_rev = sum(_vdot(p, q) for p, q in zip(fd, wl))
        s_rev = max(sum(max(_norm(p), r) * _norm(q) for p, r, q in zip(fd, resp, wl)),
                    sum(_norm(p) * _norm(q) for p, q in zip(vl, JTwl)))
        s_rev += sum(al * _norm(q) for al, q in zip(allow, wl)) / TOL_FD
        rr = abs(a_rev - b_rev) / s_rev if s_rev > 0 else 0.0
        per_eps.append({'eps': eps, 'fwd': r, 'rev': rr, 'leaf': worst_leaf})
      attempts.append(per_eps)
      b_f = min(e['fwd'] for e in per_eps)
      b_r = min(e['rev'] for e in per_eps)
      best, best_rev = min(best, b_f), min(best_rev, b_r)
      if b_f <= TOL_FD and b_r <= TOL_FD:
        break
    M.cover('finite_difference', f'attempts={len(attempts)}')
    detail = dict(info, attempts=attempts)
    if Jv is not None:
      M.small('jvp_matches_central_difference', best, 1.0, TOL_FD, info=detail)
    M.small('vjp_matches_central_difference', best_rev, 1.0, TOL_FD, info=detail)


# ------------------------------------------------------------------------------------ workloads
def _sub(a, b, ctx):
  return ctx.tm(lambda p, q: np.asarray(p) - np.asarray(q), a, b)


class _PE:
  """Primitive-equation workload: equation object, state / tangent generators."""

  def __init__(self, ctx, case, rng):
    from vp import model  # pylint: disable=import-outside-toplevel
    self.ctx, self.model = ctx, model
    kind = case['eq']
    self.hs = kind in ('hs', 'dry+hs')
    self.kind = 'dry' if self.hs else kind
    n = self.n = case['layers']
    self.specs = model.make_specs()
    self.bounds = gen.sigma_boundaries(rng, n, uneven=case.get('uneven', True))
    self.coords = model.make_coords(case['grid'], self.bounds, self.specs)
    self.grid = self.coords.horizontal
    self.tref_K = model.tref_profile(rng, n, 'random', centers=self.coords.vertical.centers)
    oro = model.nondim_orography(model.orography_si(rng, self.grid, height=2000.0), self.specs,
                                 ctx.dtype)
    self.eq = model.make_eq(self.kind, self.tref_K, oro, self.coords, self.specs)
    self.with_time = self.kind != 'dry'
    self.tracers = model.EQ_TRACERS[self.kind]
    self._zero_si = None

  def _si(self, rng, **kw):
    return self.model.phys_state_si(rng, self.grid, self.n, tracers=self.tracers, **kw)

  def state(self, rng, point='random', dlnps=0.03):
    si = self._si(rng, dlnps=dlnps)
    if point == 'zero_wind':
      si['vorticity'] = 0 * si['vorticity']
      si['divergence'] = 0 * si['divergence']
    st = self.model.to_state(si, self.specs, with_time=self.with_time, dtype=self.ctx.dtype,
                             sim_time=0.37)
    if point == 'zero':
      st = self.ctx.tm(lambda a: np.zeros_like(np.asarray(a)), st)
    return st

  def tangent(self, rng):
    """Random direction with physical amplitude in every leaf (incl. the top total wavenumber)."""
    L = self.grid.total_wavenumbers
    si = self._si(rng, lmax=L - 1)
    # phys_state_si clips at L-2: refill the last wavenumber with the same spectrum
    for k in ('vorticity', 'divergence', 'temperature', 'lnps'):
      top = gen.rand_modal(rng, self.grid, si[k].shape[:-2], lmin=L - 1)
      si[k] = si[k] + top * (np.abs(si[k]).max() / max(L, 1))
    zero = {k: (0 * v if not isinstance(v, dict) else {kk: 0 * vv for kk, vv in v.items()})
            for k, v in si.items()}
    a = self.model.to_state(si, self.specs, with_time=self.with_time, dtype=np.float64,
                            sim_time=0.3)
    b = self.model.to_state(zero, self.specs, with_time=self.with_time, dtype=np.float64,
                            sim_time=0.0)
    return _sub(a, b, self.ctx)

  def dt(self, dt_s):
    from dinosaur import scales  # pylint: disable=import-outside-toplevel
    return float(self.specs.nondimensionalize(dt_s * scales.units.s))

  def forcing(self, **kw):
    from dinosaur import held_suarez, scales  # pylint: disable=import-outside-toplevel
    tref = np.asarray(self.specs.nondimensionalize(self.tref_K * scales.units.degK))
    return held_suarez.HeldSuarezForcing(self.coords, self.specs, tref, **kw)


class _SW:
  """Layered shallow-water workload (default scale: radius 1, 2*Omega 1)."""

  def __init__(self, ctx, case, rng):
    from dinosaur import coordinate_systems as cs  # pylint: disable=import-outside-toplevel
    from dinosaur import layer_coordinates as lc  # pylint: disable=import-outside-toplevel
    from dinosaur import scales, shallow_water as sw  # pylint: disable=import-outside-toplevel
    self.ctx, self.sw = ctx, sw
    n = self.n = case['layers']
    self.grid = gen.make_grid(case['grid'])
    self.coords = cs.CoordinateSystem(self.grid, lc.LayerCoordinates(n))
    dens = np.sort(rng.uniform(0.6, 1.0, n)) * scales.WATER_DENSITY
    self.specs = sw.ShallowWaterSpecs.from_si(densities=dens)
    self.ref = rng.uniform(0.05, 0.15, n).astype(ctx.dtype)
    oro = gen.rand_modal(rng, self.grid, (), lmax=min(6, self.grid.total_wavenumbers - 2),
                         decay=1.0, amp=0.003).astype(ctx.dtype)
    self.eq = sw.ShallowWaterEquations(self.coords, self.specs, oro, self.ref)
    self.with_time = False
    self.hs = False

  def _field(self, rng, amp, zero_mean=False, lmax=None):
    g = self.grid
    L = g.total_wavenumbers
    x = gen.rand_modal(rng, g, (self.n,), lmax=L - 2 if lmax is None else lmax, decay=1.0,
                       zero_mean=zero_mean, lmin=1 if zero_mean else 0)
    mx = float(np.abs(np.asarray(g.to_nodal(x))).max())
    return x * (amp / mx) if mx > 0 else x

  def state(self, rng, point='random', lmax=None, **_):
    # vorticity ~ 0.3 <-> wind ~ 0.05 (46 m/s), potential fluctuation 10% of the mean
    vor = self._field(rng, 0.3, True, lmax)
    div = self._field(rng, 0.03, True, lmax)
    pot = self._field(rng, 0.01, False, lmax)
    if point == 'zero_wind':
      vor, div = 0 * vor, 0 * div
    st = self.sw.State(vor.astype(self.ctx.dtype), div.astype(self.ctx.dtype),
                       pot.astype(self.ctx.dtype))
    if point == 'zero':
      st = self.ctx.tm(lambda a: np.zeros_like(np.asarray(a)), st)
    return st

  def tangent(self, rng):
    return self.state(rng, lmax=self.grid.total_wavenumbers - 1)

  def dt(self, dt_s):
    return 0.01 * dt_s / 600.0


def _workload(ctx, case, rng):
  return _SW(ctx, case, rng) if case['eq'] == 'sw' else _PE(ctx, case, rng)


def _filters(wl, dt, stack):
  from dinosaur import time_integration as ti  # pylint: disable=import-outside-toplevel
  g = wl.grid
  if stack == 'leapfrog':
    return [ti.exponential_leapfrog_step_filter(g, dt), ti.robert_asselin_leapfrog_filter(0.05)]
  out = []
  if 'exp' in stack:
    out.append(ti.exponential_step_filter(g, dt))
  if 'diff' in stack:
    out.append(ti.horizontal_diffusion_step_filter(g, dt, tau=dt * 8.0, order=2))
  return out


def _make_step(wl, case):
  from dinosaur import time_integration as ti  # pylint: disable=import-outside-toplevel
  dt = wl.dt(case.get('dt_s', 600.0))
  eq = wl.eq
  if case['eq'] == 'dry+hs':
    eq = ti.compose_equations([wl.eq, wl.forcing()])
  step = getattr(ti, case['integrator'])(eq, dt)
  return ti.step_with_filters(step, _filters(wl, dt, case['filters'])), dt


# ------------------------------------------------------------------------------------ kinds
def _run_transform(case, M, ctx):
  from dinosaur import filtering  # pylint: disable=import-outside-toplevel
  rng = M.rng()
  grid = gen.make_grid(case['grid'])
  lead = tuple(case['lead'])
  ms, ns = tuple(grid.modal_shape), tuple(grid.nodal_shape)
  modal = lambda r: gen.rand_modal(r, grid, lead, dtype=ctx.dtype)
  nodal = lambda r: r.standard_normal(lead + ns).astype(ctx.dtype)
  tree = lambda r: {'a': modal(r), 'b': (modal(r)[..., :1, :, :] if lead else modal(r), 2.5)}
  entries = [
      ('to_nodal', grid.to_nodal, modal),
      ('to_modal', grid.to_modal, nodal),
      ('to_modal_of_to_nodal', lambda x: grid.to_modal(grid.to_nodal(x)), modal),
      ('exponential_filter', filtering.exponential_filter(grid, 2.0, 4, 0.3), tree),
      ('horizontal_diffusion_filter', filtering.horizontal_diffusion_filter(grid, 0.01, 2), tree),
  ]
  for name, fn, mk in entries:
    P = ADProbe(ctx, f'{name}', fn, info={'grid': case['grid'], 'lead': list(lead)})
    P.point(mk(rng), mk, rng, kind='random', nonlinear=False, linear_fn=True)
    P.point(ctx.tm(lambda a: np.zeros_like(np.asarray(a)), mk(rng)), mk, rng, kind='zero',
            nonlinear=False, linear_fn=True)
    M.cover('entry_point', name)
  M.sample({'kind': 'transform', 'grid': case['grid'], 'modal_shape': lead + ms,
            'nodal_shape': lead + ns})


def _hs_points(ctx, wl, case, rng, points):
  """(label, forcing, state, fd?) for the Held-Suarez evaluation points."""
  from dinosaur import scales  # pylint: disable=import-outside-toplevel
  M = ctx.M
  out = []
  base = wl.forcing()
  for p in points:
    if p in ('random', 'zero', 'zero_wind'):
      st = wl.state(rng, p)
      if p != 'zero':
        ps = np.exp(np.asarray(wl.grid.to_nodal(np.asarray(st.log_surface_pressure,
                                                           dtype=np.float64))))
        teq = np.asarray(base.equilibrium_temperature(ps))
        frac = float(np.mean(teq <= base.minT))
        M.note('held_suarez clamp active fraction (random points)', frac)
        M.cover('held_suarez_clamp', 'active at 5-95% of points' if 0.05 <= frac <= 0.95
                else f'active fraction {frac:.2f}')
      out.append((p, base, st, True))
    elif p == 'all_clamped':
      f = wl.forcing(minT=400.0 * scales.units.degK)
      out.append((p, f, wl.state(rng, 'random'), True))
    elif p == 'tie':
      st = wl.state(rng, 'random')
      free = wl.forcing(minT=0.0 * scales.units.degK)
      lsp = ctx.arr(st.log_surface_pressure)
      ps = ctx.jnp.exp(wl.grid.to_nodal(lsp))
      teq = np.asarray(free.equilibrium_temperature(ps))
      cand = teq[(teq > 200) & (teq < 280)]
      if not cand.size:
        M.discard('held-suarez tie: no candidate temperature')
        continue
      tval = float(cand[int(rng.integers(cand.size))])
      f = wl.forcing(minT=tval * scales.units.degK)
      hit = int(np.sum(np.asarray(f.equilibrium_temperature(ps)) == f.minT)
                - np.sum(teq < f.minT))
      M.cover('held_suarez_clamp', 'exact tie constructed (eager)' if hit > 0 and f.minT == tval
              else 'tie within 1 ulp (not exact)')
      out.append((p, f, st, False))
  return out


def _run_terms(case, M, ctx):
  rng = M.rng()
  wl = _workload(ctx, case, rng)
  info = {'eq': case['eq'], 'grid': case['grid'], 'sigma_boundaries': getattr(wl, 'bounds', None)}
  mk = wl.tangent
  if case['eq'] == 'hs':
    probes = {}
    for p, forcing, st, fd in _hs_points(ctx, wl, case, rng, case['points']):
      key = float(forcing.minT)
      if key not in probes:
        probes[key] = ADProbe(ctx, 'HeldSuarezForcing.explicit_terms', forcing.explicit_terms,
                              info=dict(info, minT=key))
      probes[key].point(st, mk, rng, kind=p, fd=fd)
    M.cover('entry_point', 'HeldSuarezForcing.explicit_terms')
    M.sample({'kind': 'terms', **info, 'points': case['points']})
    return
  eq = wl.eq
  eta = wl.dt(600.0) * 0.5
  cls = type(eq).__name__
  fns = {
      'explicit': (eq.explicit_terms, True),
      'implicit': (eq.implicit_terms, False),
      'inverse': (lambda s: eq.implicit_inverse(s, eta), False),
      'inverse_neg': (lambda s: eq.implicit_inverse(s, -eta), False),
  }
  if cls == 'PrimitiveEquations' or case['eq'] in ('dry',):
    fns['inverse_blockwise'] = (lambda s: eq.implicit_inverse(s, eta, 'blockwise'), False)
    fns['inverse_stacked'] = (lambda s: eq.implicit_inverse(s, eta, 'stacked'), False)
  elif case['eq'] == 'time':
    # the time-aware wrapper hides `method`; go through the parent on the stripped state
    from dinosaur import primitive_equations as pe  # pylint: disable=import-outside-toplevel
    def _via_parent(method):
      def f(s):
        t, s0 = eq._time_and_state(s)  # pylint: disable=protected-access
        out = pe.PrimitiveEquations.implicit_inverse(eq, s0, eta, method)
        return pe.StateWithTime(**out.asdict(), sim_time=t)
      return f
    if hasattr(eq, '_time_and_state'):
      fns['inverse_blockwise'] = (_via_parent('blockwise'), False)
      fns['inverse_stacked'] = (_via_parent('stacked'), False)
    else:
      M.unavailable('PrimitiveEquationsWithTime._time_and_state')
  for name in case['fns']:
    if name not in fns:
      continue
    fn, nonlinear = fns[name]
    label = f'{cls}.{name}'
    P = ADProbe(ctx, label, fn, info=info)
    for p in case['points']:
      P.point(wl.state(rng, p), mk, rng, kind=p, nonlinear=nonlinear, linear_fn=not nonlinear)
    M.cover('entry_point', label)
  M.sample({'kind': 'terms', **info, 'class': cls, 'fns': case['fns'], 'points': case['points']})


def _combinator(ctx, wl, case, step):
  """Builds the differentiated program from the step function."""
  from dinosaur import time_integration as ti  # pylint: disable=import-outside-toplevel
  jax = ctx.jax
  cb = case['comb']
  leap = case['integrator'] == 'semi_implicit_leapfrog'

  def post(kind):
    if kind == 'full':
      return lambda s: s
    if kind == 'first':      # leapfrog convention of shallow_water_leapfrog_trajectory
      return lambda s: s[0]
    def reduced(s):
      s = s[1] if leap else s
      leaves = jax.tree_util.tree_leaves(s)
      return {'a': leaves[0], 'b': leaves[min(2, len(leaves) - 1)][..., :3]}
    return reduced

  t = cb['type']
  if t == 'single':
    return step, 1
  if t == 'repeated':
    return ti.repeated(jax.checkpoint(step) if cb.get('ckpt') else step, cb['n']), cb['n']
  if t == 'repeated_nested':
    n = int(np.prod(cb['lengths']))
    scan = functools.partial(ti.nested_checkpoint_scan, nested_lengths=tuple(cb['lengths']),
                             **({} if cb.get('ckpt', True) else {'checkpoint_fn': lambda f: f}))
    return ti.repeated(step, n, scan_fn=scan), n
  if t == 'traj':
    f = ti.trajectory_from_step(step, cb['outer'], cb['inner'], start_with_input=cb['swi'],
                                post_process_fn=post(cb['post']))
    return f, cb['outer'] * cb['inner']
  if t == 'traj_nested':
    n = int(np.prod(cb['lengths']))
    scan = functools.partial(ti.nested_checkpoint_scan, nested_lengths=tuple(cb['lengths']))
    f = ti.trajectory_from_step(step, n, cb['inner'], start_with_input=cb['swi'],
                                post_process_fn=post(cb['post']), outer_scan_fn=scan)
    return f, n * cb['inner']
  raise ValueError(t)


def _run_step(case, M, ctx):
  from vp import core, model  # pylint: disable=import-outside-toplevel
  rng = M.rng()
  wl = _workload(ctx, case, rng)
  step, dt = _make_step(wl, case)
  fn, nsteps = _combinator(ctx, wl, case, step)
  leap = case['integrator'] == 'semi_implicit_leapfrog'
  if leap:
    def mk_state(r, p):
      a = wl.state(r, p)
      if p == 'zero':
        return (a, a)
      # second time level: the same state slightly evolved (one explicit Euler nudge)
      b = ctx.tm(lambda u, d: np.asarray(u) + 1e-3 * np.asarray(d), a, wl.state(r, p))
      return (a, b)
    mk_tan = lambda r: (wl.tangent(r), wl.tangent(r))
  else:
    mk_state = wl.state
    mk_tan = wl.tangent
  x = mk_state(rng, case['point'])
  info = {'eq': case['eq'], 'integrator': case['integrator'], 'filters': case['filters'],
          'comb': case['comb'], 'grid': case['grid'], 'dt': dt, 'steps': nsteps,
          'sigma_boundaries': getattr(wl, 'bounds', None)}
  label = f"step:{case['integrator']}"
  P = ADProbe(ctx, label, fn, info=info)
  # CFL sanity of the workload itself (not a property violation)
  try:
    y = P.jvp(ctx.arr(x), ctx.arr(mk_tan(rng)))[0]
  except Exception:  # pylint: disable=broad-except
    y = None         # reported by the jvp_defined oracle below
  if y is not None and _all_finite(ctx, y) and case['point'] == 'random':
    fin = y[0] if isinstance(y, tuple) and case['comb']['type'].startswith('traj') else y
    n0 = max(float(np.abs(a).max()) for a in ctx.leaves(x) if a.size)
    n1 = max(float(np.abs(a).max()) for a in ctx.leaves(fin) if a.size)
    if n1 > 10 * n0:
      raise core.Discard('state norm grew >10x within the run (CFL)')
  P.point(x, mk_tan, rng, kind=case['point'])
  if case['point'] != 'random' and M.tier == 'thorough':
    P.point(mk_state(rng, 'random'), mk_tan, rng, kind='random')
  M.cover('integrator x filters', f"{case['integrator']} | {case['filters']}")
  M.cover('combinator', json_key(case['comb']))
  M.cover('equation x integrator', f"{case['eq']} | {case['integrator']}")
  M.cover('levels', f"{case['layers']}{' uneven' if case['uneven'] and case['layers'] > 1 else ''}")
  M.cover('entry_point', label)
  M.sample({'kind': 'step', **info, 'point': case['point']})
  del model


def json_key(d):
  return ','.join(f'{k}={d[k]}' for k in sorted(d))


# ---- (d) scan nesting / checkpointing ------------------------------------------------------
def _pos_weights(jnp, leaf, k):
  """Position-sensitive weights built from the leaf's own shape (so a loss is defined for any
  output shape, and a permuted / re-concatenated output changes it)."""
  n = int(np.prod(leaf.shape)) if leaf.shape else 1
  w = jnp.cos(0.37 * jnp.arange(n, dtype=leaf.dtype) + 1.0 + k)
  return w.reshape(leaf.shape)


def _loss_of(jax, jnp, scale_tree=None):
  def loss(out):
    leaves = jax.tree_util.tree_leaves(out)
    scales = jax.tree_util.tree_leaves(scale_tree) if scale_tree is not None else [1.0] * len(leaves)
    if len(scales) != len(leaves):
      scales = [1.0] * len(leaves)
    tot = 0.0
    for k, (l, s) in enumerate(zip(leaves, scales)):
      z = l / s
      tot = tot + jnp.sum(_pos_weights(jnp, l, k) * (z + 0.5 * z * z))
    return tot
  return loss


def _compare_variants(ctx, M, ref_name, results, info):
  """results: name -> (value_tree, grad_tree).  A variant `X|nockpt` / `X|ckpt-step` is compared
  with its sibling `X` (same nesting, checkpointing toggled); everything else with `ref_name`."""
  tol = TOL_GRAD if ctx.f64 else 1e-4
  amax = lambda a: max(float(np.abs(a).max()) if a.size else 0.0, 1e-300)
  for name, (v, g) in results.items():
    if name == ref_name:
      continue
    ref, mon = ref_name, 'scan_nesting_gradients_agree'
    for suffix in ('|nockpt', '|ckpt-step'):
      if name.endswith(suffix) and name[:-len(suffix)] in results:
        ref, mon = name[:-len(suffix)], 'checkpoint_does_not_change_gradients'
    ref_v, ref_g = results[ref]
    rvl, rgl = ctx.leaves(ref_v), ctx.leaves(ref_g)
    vl, gl = ctx.leaves(v), ctx.leaves(g)
    inf = dict(info, variant=name, reference=ref)
    ok_fin = M.finite('scan_gradients_finite', g, info=inf)
    if len(vl) != len(rvl) or len(gl) != len(rgl):
      M.check('scan_nesting_values_agree', False, info=dict(inf, reason='tree structure differs'))
      continue
    for a, b in zip(vl, rvl):
      M.close('scan_nesting_values_agree', a, b, tol, scale=amax(b), info=inf)
    if ok_fin:
      for a, b in zip(gl, rgl):
        M.close(mon, a, b, tol, scale=amax(b), info=inf)


def _run_ckpt_toy(case, M, ctx):
  from dinosaur import time_integration as ti  # pylint: disable=import-outside-toplevel
  jax, jnp = ctx.jax, ctx.jnp
  rng = M.rng()
  n = case['n']
  d = 3

  def f(c, x):
    a = jnp.sin(c['a']) * x['p'] + c['b'] + 0.1 * jnp.roll(c['a'], 1) ** 2
    b = c['b'] * 0.9 + jnp.sum(x['q']) * 0.1 + 0.05 * jnp.sum(c['a'])
    c2 = {'a': a, 'b': b}
    return c2, {'o': a * 2.0 + x['q'][:1], 'z': jnp.outer(x['q'], a) + c['b']}

  xs = {'p': ctx.arr(rng.standard_normal((n, d))), 'q': ctx.arr(rng.standard_normal((n, 2)))}
  init = {'a': ctx.arr(rng.standard_normal(d)), 'b': ctx.arr(0.3)}
  loss = _loss_of(jax, jnp)

  def variant(scan):
    def L(init, xs):
      out = scan(f, init, xs)
      return loss(out), out
    (val, out), g = jax.jit(jax.value_and_grad(L, argnums=(0, 1), has_aux=True))(init, xs)
    return (out, val), g

  results = {'lax.scan': variant(lambda f, i, x: jax.lax.scan(f, i, x))}
  for nl in case['fact']:
    nl = tuple(nl)
    results[f'nested{nl}'] = variant(
        lambda f, i, x, nl=nl: ti.nested_checkpoint_scan(f, i, x, nested_lengths=nl))
    if nl == tuple(case['fact'][0]):
      results[f'nested{nl}|len'] = variant(
          lambda f, i, x, nl=nl: ti.nested_checkpoint_scan(f, i, x, length=n, nested_lengths=nl))
    results[f'nested{nl}|nockpt'] = variant(
        lambda f, i, x, nl=nl: ti.nested_checkpoint_scan(f, i, x, nested_lengths=nl,
                                                         checkpoint_fn=lambda g: g))
    M.cover('nested_lengths', str(nl))
    if sum(1 for k in nl if k > 1) >= 2:
      M.nontrivial('toy', nl)
    M.nontrivial('toy-ckpt-toggle', nl)
  _compare_variants(ctx, M, 'lax.scan', results, {'program': 'toy', 'n': n})
  # forward mode through the nested scan as well
  nl = tuple(case['fact'][min(1, len(case['fact']) - 1)])
  P = ADProbe(ctx, 'nested_checkpoint_scan:toy',
              lambda a: ti.nested_checkpoint_scan(f, a[0], a[1], nested_lengths=nl),
              info={'program': 'toy', 'nested_lengths': nl})
  mk = lambda r: ({'a': r.standard_normal(d), 'b': r.standard_normal()},
                  {'p': r.standard_normal((n, d)), 'q': r.standard_normal((n, 2))})
  P.point((init, xs), mk, rng, kind='random')
  M.cover('entry_point', 'nested_checkpoint_scan')
  M.sample({'kind': 'ckpt', 'program': 'toy', 'n': n, 'factorisations': case['fact']})


def _run_ckpt_model(case, M, ctx):
  from dinosaur import time_integration as ti  # pylint: disable=import-outside-toplevel
  jax, jnp = ctx.jax, ctx.jnp
  rng = M.rng()
  wl = _workload(ctx, case, rng)
  step, dt = _make_step(wl, case)
  leap = case['integrator'] == 'semi_implicit_leapfrog'
  n = case['n']
  x0 = wl.state(rng, 'random')
  if leap:
    x0 = (x0, ctx.tm(lambda u, d: np.asarray(u) + 1e-3 * np.asarray(d), x0,
                     wl.state(rng, 'random')))
  x0 = ctx.arr(x0)
  scale = ctx.tm(lambda a: float(max(np.abs(np.asarray(a)).max(), 1e-30)), x0)
  # per-step forcing increments (xs) so that the scanned-over inputs matter too
  incr = ctx.arr([ctx.tm(lambda a: 1e-3 * np.asarray(a), wl.tangent(rng) if not leap
                         else (wl.tangent(rng), wl.tangent(rng))) for _ in range(n)])
  xs = ctx.tm(lambda *a: jnp.stack(a), *incr)

  def diag(s):
    s = s[1] if leap else s
    l = jax.tree_util.tree_leaves(s)
    return {'first': l[0][..., :2, :], 'mean': jnp.stack([jnp.sum(a * a) for a in l])}

  def f(c, x):
    c = ctx.tm(lambda a, b: a + b, c, x)
    c2 = step(c)
    return c2, diag(c2)

  def loss_fn(final, ys):
    lf = _loss_of(jax, jnp, scale)(final)
    return lf + _loss_of(jax, jnp)(ys) * 1e-3

  def variant(run):
    def L(x0, xs):
      final, ys = run(x0, xs)
      return loss_fn(final, ys), (final, ys)
    (val, out), g = jax.jit(jax.value_and_grad(L, argnums=(0, 1), has_aux=True))(x0, xs)
    return (out, val), g

  info = {'program': 'model', 'eq': case['eq'], 'integrator': case['integrator'], 'n': n,
          'grid': case['grid']}
  # --- scans with inputs and outputs
  results = {'lax.scan': variant(lambda a, b: jax.lax.scan(f, a, b))}
  for nl in case['fact']:
    nl = tuple(nl)
    results[f'nested{nl}'] = variant(
        lambda a, b, nl=nl: ti.nested_checkpoint_scan(f, a, b, nested_lengths=nl))
    M.cover('nested_lengths', str(nl))
    if sum(1 for k in nl if k > 1) >= 2:
      M.nontrivial('model', case['eq'], nl)
  nl0 = tuple(case['fact'][0])
  results[f'nested{nl0}|nockpt'] = variant(
      lambda a, b: ti.nested_checkpoint_scan(f, a, b, nested_lengths=nl0,
                                             checkpoint_fn=lambda g: g))
  M.nontrivial('model-ckpt-toggle', case['eq'], nl0)
  _compare_variants(ctx, M, 'lax.scan', results, info)
  # --- `repeated` / `trajectory_from_step` (no scanned inputs): python loop is the reference
  def variant0(run):
    def L(x0):
      out = run(x0)
      return _loss_of(jax, jnp)(jax.tree_util.tree_map(lambda a: a, out)), out
    (val, out), g = jax.jit(jax.value_and_grad(L, has_aux=True))(x0)
    return (out, val), g

  m = min(n, 4)
  nlm = tuple(case['fact'][0]) if int(np.prod(case['fact'][0])) == m else (2, m // 2)
  def loop(x):
    for _ in range(m):
      x = step(x)
    return x
  res2 = {
      'repeated': variant0(ti.repeated(step, m)),
      'repeated|ckpt-step': variant0(ti.repeated(jax.checkpoint(step), m)),
      f'repeated|nested{nlm}': variant0(ti.repeated(
          step, m, scan_fn=functools.partial(ti.nested_checkpoint_scan, nested_lengths=nlm))),
  }
  if M.tier == 'thorough':      # the unrolled loop costs as much to compile as all scans together
    res2['python-loop'] = variant0(loop)
  _compare_variants(ctx, M, 'repeated', res2, dict(info, steps=m))
  traj = lambda **kw: ti.trajectory_from_step(step, m, 1, post_process_fn=diag, **kw)
  res3 = {
      'trajectory_from_step': variant0(traj()),
      f'trajectory_from_step|nested{nlm}': variant0(traj(outer_scan_fn=functools.partial(
          ti.nested_checkpoint_scan, nested_lengths=nlm))),
  }
  if M.tier == 'thorough':
    res3[f'trajectory_from_step|nested{nlm}|nockpt'] = variant0(traj(
        outer_scan_fn=functools.partial(ti.nested_checkpoint_scan, nested_lengths=nlm,
                                        checkpoint_fn=lambda g: g)))
  _compare_variants(ctx, M, 'trajectory_from_step', res3, dict(info, steps=m))
  # the trajectory's final state is the one `repeated` returns
  fin_t = ctx.leaves(res3['trajectory_from_step'][0][0][0])
  fin_l = ctx.leaves(res2['repeated'][0][0])
  for a, b in zip(fin_t, fin_l):
    M.close('scan_nesting_values_agree', a, b, TOL_GRAD if ctx.f64 else 1e-4,
            scale=max(float(np.abs(b).max()) if b.size else 0.0, 1e-300),
            info=dict(info, variant='trajectory final vs repeated'))
  M.cover('entry_point', 'repeated/trajectory_from_step/nested_checkpoint_scan gradients')
  M.sample({'kind': 'ckpt', **info, 'factorisations': case['fact'], 'dt': dt})


# ---- vertical interpolation ------------------------------------------------------------------
def _nodes(rng, n, lo=0.0, hi=1.0):
  w = np.exp(rng.uniform(0, math.log(5.0), n - 1)) if n > 1 else np.ones(0)
  return lo + (hi - lo) * np.concatenate([[0.0], np.cumsum(w) / max(w.sum(), 1e-300)])


def _away_from(rng, nodes, count, lo, hi, margin):
  """Query points in [lo, hi] at least `margin` away from every node."""
  out = []
  guard = 0
  while len(out) < count:
    guard += 1
    if guard > 100000:
      raise RuntimeError('could not place query points')
    x = rng.uniform(lo, hi)
    if np.min(np.abs(nodes - x)) >= margin:
      out.append(x)
  return np.array(out)


def _run_interp(case, M, ctx):
  from vp import core  # pylint: disable=import-outside-toplevel
  from dinosaur import sigma_coordinates as sc  # pylint: disable=import-outside-toplevel
  from dinosaur import vertical_interpolation as vi  # pylint: disable=import-outside-toplevel
  jax, jnp = ctx.jax, ctx.jnp
  rng = M.rng()
  fn = case['fn']
  if fn in ('interp', 'linear_extrap'):
    n = case['nodes']
    xp = _nodes(rng, n, 0.1, 0.9)
    gap = float(np.min(np.diff(xp)))
    fp = rng.standard_normal(n) * 3 + 1
    target = vi.interp if fn == 'interp' else vi.linear_interp_with_linear_extrap
    name = 'interp' if fn == 'interp' else 'linear_interp_with_linear_extrap'
    f = lambda a: jax.vmap(target, (0, None, None))(a['x'], a['xp'], a['fp'])
    P = ADProbe(ctx, name, f, info={'nodes': xp})
    nq = 9
    # tangents: x moves by at most gap*1e-2 * eps(<=1e-4) -> stays >= 100 steps away from nodes
    mk = lambda r: {'x': r.uniform(-1, 1, nq) * gap, 'xp': r.uniform(-1, 1, n) * gap * 0.2,
                    'fp': r.standard_normal(n)}
    xin = _away_from(rng, xp, nq, xp[0], xp[-1], 0.05 * gap)
    P.point({'x': xin, 'xp': xp, 'fp': fp}, mk, rng, kind='inside')
    # both extrapolation zones
    xout = np.concatenate([rng.uniform(xp[0] - 0.5, xp[0] - 0.05 * gap, nq // 2),
                           rng.uniform(xp[-1] + 0.05 * gap, xp[-1] + 0.5, nq - nq // 2)])
    P.point({'x': xout, 'xp': xp, 'fp': fp}, mk, rng, kind='extrapolation')
    # hostile: queries exactly on nodes (kink: finiteness and adjointness only)
    xon = np.resize(xp, nq)
    P.point({'x': xon, 'xp': xp, 'fp': fp}, mk, rng, kind='on_nodes', fd=False)
    # only x and fp differentiated (xp static, as in the repository's own use)
    g = lambda a: jax.vmap(target, (0, None, None))(a['x'], jnp.asarray(xp, a['x'].dtype), a['fp'])
    P2 = ADProbe(ctx, name + '(static xp)', g, info={'nodes': xp})
    mk2 = lambda r: {'x': r.uniform(-1, 1, nq) * gap, 'fp': r.standard_normal(n)}
    P2.point({'x': xin, 'fp': fp}, mk2, rng, kind='inside', nonlinear=True)
    M.cover('entry_point', name)
    M.sample({'kind': 'interp', 'fn': name, 'xp': xp, 'x_inside': xin})
    return
  grid = gen.make_grid(case['grid'])
  ns = tuple(grid.nodal_shape)
  n = case['layers']
  if fn in ('sigma_to_pressure', 'pressure_to_sigma'):
    if n < 2:
      raise core.Discard('one sigma layer: nothing to interpolate between')
    sig = sc.SigmaCoordinates(gen.sigma_boundaries(rng, n, uneven=True, ratio=3.0))
    cen = np.asarray(sig.centers)
    ps0 = 1000.0
    if fn == 'sigma_to_pressure':
      # targets p/ps in sigma space; nodes = sigma centers + one linearly extrapolated cell
      nodes = np.concatenate([[2 * cen[0] - cen[1]], cen, [2 * cen[-1] - cen[-2]]])
      gap = float(np.min(np.diff(nodes)))
      amp = min(0.004, 0.05 * gap / nodes[-1])          # ps = ps0 * exp(amp * U(-1, 1))
      margin = 3 * amp * nodes[-1] + 0.05 * gap
      q = _away_from(rng, nodes, 5, max(nodes[0], 0.0) + margin, nodes[-1] - margin, margin)
      pc = vi.PressureCoordinates(np.sort(q) * ps0)
      ps = ps0 * np.exp(amp * rng.uniform(-1, 1, (1,) + ns))
      desired = pc.centers[:, None, None] / ps
      fields = {'t': rng.standard_normal((n,) + ns) * 10 + 250, 'u': rng.standard_normal((n,) + ns)}
      f = lambda a: vi.interp_sigma_to_pressure(a['fields'], pc, sig, a['ps'])
      name = 'interp_sigma_to_pressure'
    else:
      # targets sigma*ps in pressure space; nodes = pressure centers (chosen here)
      tg = cen * ps0
      gap = float(np.min(np.diff(tg)))
      amp = min(0.004, 0.05 * gap / tg[-1])
      margin = 3 * amp * tg[-1] + 0.05 * gap
      lo, hi = 0.5 * tg[0], 0.5 * (tg[-1] + ps0 * 1.02)
      inner = _away_from(rng, tg, n, lo + margin, hi - margin, margin)
      nodes = np.sort(np.concatenate([[lo], inner, [hi]]))
      pc = vi.PressureCoordinates(nodes)
      ps = ps0 * np.exp(amp * rng.uniform(-1, 1, (1,) + ns))
      desired = cen[:, None, None] * ps
      fields = {'t': rng.standard_normal((n + 2,) + ns) * 10 + 250,
                'u': rng.standard_normal((n + 2,) + ns)}
      f = lambda a: vi.interp_pressure_to_sigma(a['fields'], pc, sig, a['ps'])
      name = 'interp_pressure_to_sigma'
    dist = float(np.min(np.abs(desired[None] - nodes[:, None, None, None])))
    M.note('interpolation target distance to nearest node / (FD step * tangent)_min',
           dist / (1e-4 * amp * float(desired.max())), how='min')
    if dist < 100 * 1e-4 * amp * float(desired.max()):
      raise core.Discard('interpolation target closer than 100 FD steps to a node')
    P = ADProbe(ctx, name, f, info={'sigma_boundaries': sig.boundaries, 'pressure': pc.centers})
    shapes = {k: v.shape for k, v in fields.items()}
    # ps tangent small enough that 1e-4 * tangent / ps  << distance to nodes
    mk = lambda r: {'fields': {k: r.standard_normal(sh) for k, sh in shapes.items()},
                    'ps': r.uniform(-1, 1, ps.shape) * ps0 * amp}
    y = f(ctx.arr({'fields': fields, 'ps': ps}))
    if not _all_finite(ctx, y):
      raise core.Discard('primal interpolation left the documented extrapolation range')
    P.point({'fields': fields, 'ps': ps}, mk, rng, kind='inside')
    # the tangent moves ps by at most amp*ps0 and `margin` keeps every target 3*amp away from the
    # nodes, so x +- 0.5*v stays inside one linear piece: the coarse quotient is legitimate here
    P.coarse_fd({'fields': fields, 'ps': ps}, mk, rng, h=0.5)
    M.cover('entry_point', name)
    M.sample({'kind': 'interp', 'fn': name, 'sigma_boundaries': sig.boundaries,
              'pressure_levels': pc.centers})
    return
  if fn == 'surface_pressure':
    # geopotential on pressure levels (decreasing with pressure), orography in between / outside
    levels = np.sort(rng.uniform(200.0, 1000.0, max(n, 2)))
    levels = levels * (1 + 0.01 * np.arange(levels.size))    # strictly increasing
    pc = vi.PressureCoordinates(levels)
    g = 9.80616
    R, T = 287.0, 260.0
    phi = R * T * np.log(1050.0 / levels)[:, None, None] + 200.0 * rng.standard_normal(
        (levels.size,) + ns)
    phi = -np.sort(-phi, axis=0)   # keep relative height increasing along the level axis
    kinds = {
        'inside': rng.uniform(phi[-1] + 50.0, phi[0] - 50.0),
        'below_lowest_level': phi[-1] - rng.uniform(100.0, 2000.0, ns),
        'above_top_level': phi[0] + rng.uniform(100.0, 2000.0, ns),
    }
    f = lambda a: vi.get_surface_pressure(pc, a['phi'], a['oro'], g)
    P = ADProbe(ctx, 'get_surface_pressure', f, info={'levels': levels})
    mk = lambda r: {'phi': r.standard_normal(phi.shape) * 5.0, 'oro': r.standard_normal((1,) + ns) * 0.5}
    for kind, surf in kinds.items():
      oro = (surf / g)[None]
      rh = oro * g - phi
      if np.min(np.abs(rh)) < 5.0 or np.any(np.diff(rh, axis=0) <= 0):
        M.discard(f'surface_pressure {kind}: zero crossing too close to a node')
        continue
      P.point({'phi': phi, 'oro': oro}, mk, rng, kind=kind)
    # hostile: the surface exactly on a level (kink)
    oro = (phi[min(1, levels.size - 1)] / g)[None]
    P.point({'phi': phi, 'oro': oro}, mk, rng, kind='on_nodes', fd=False)
    M.cover('entry_point', 'get_surface_pressure')
    M.sample({'kind': 'interp', 'fn': 'get_surface_pressure', 'levels': levels})
    return
  raise ValueError(fn)


def run(case, M):
  ctx = _Ctx(M)
  kind = case['kind']
  if kind == 'transform':
    _run_transform(case, M, ctx)
  elif kind == 'terms':
    _run_terms(case, M, ctx)
  elif kind == 'step':
    _run_step(case, M, ctx)
  elif kind == 'ckpt':
    (_run_ckpt_toy if case['program'] == 'toy' else _run_ckpt_model)(case, M, ctx)
  elif kind == 'interp':
    _run_interp(case, M, ctx)
  else:
    from vp import core  # pylint: disable=import-outside-toplevel
    raise core.HarnessError(f'unknown case kind {kind}')
