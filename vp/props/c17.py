"""C17 — vertical interpolation exact on affine data; documented extrapolation; both code paths.

Reference-interpolant monitor: every routine is driven on generated node sets / queries / data and
compared with `vp/refs/interp_ref.py` (plain loops written from the docstrings), plus the
relations the property states (value at node, affine exactness, bounded by neighbours, documented
behaviour outside the nodes, agreement of the two `interp` code paths, sigma<->pressure round
trips, surface pressure as the root of Phi(p) = g h, regridders reproduce constants and are the
identity between equal grids).  See DESIGN.md §3 C17 and §2.10.
"""
from __future__ import annotations

import functools
import math

import numpy as np

from vp import core, gen
from vp.refs import interp_ref as R

RULE = ('1-D cases = strictly increasing node sets (2..40 nodes: uniform, random, spacings over 4 '
        'decades, sigma-like, pressure-like, negative, offset by 1e3) x queries (every node, every '
        'midpoint, +-1 ulp around every node and both range ends, random inside, up to 3 cells '
        'outside, 1x..1e6x the range outside, and +-1e-6 cell around the n=1,2 safe limits) x data '
        '(affine, random, constant, monotone and the COMPLETE basis e_1..e_n, i.e. the weights) '
        'through interp (default and accelerator path), vertical_interpolation, '
        'linear_interp_with_linear_extrap, _linear_interp_with_safe_extrap(n=1,2) and '
        'vectorize_vertical_interpolation; field cases = pressure/sigma/hybrid level sets x surface '
        'pressure maps 500..1080 hPa x pytrees; semi-Lagrangian cases = small model states with '
        'zero / non-zero vertical velocity; horizontal cases = source/target grid pairs.  A case is '
        'non-trivial if distinct and (1-D) contains queries strictly inside, at nodes and outside '
        'on both sides; (fields) has both finite and missing targets or extrapolated columns.')
MIN_NONTRIVIAL = {'quick': 35, 'thorough': 250}
REQUIRED_MONITORS = {'all': [
    'interp_default_path_vs_ref', 'interp_accelerator_path_vs_ref', 'interp_paths_agree',
    'vertical_interpolation_vs_ref', 'linear_interp_with_linear_extrap_vs_ref',
    'vectorized_interp_vs_ref', 'value_at_node_is_node_value', 'affine_data_reproduced',
    'between_neighbouring_values_inside', 'constant_extrapolation_outside',
    'linear_extrapolation_outside', 'interp_pressure_to_sigma_vs_ref', 'interp_sigma_to_pressure_vs_ref',
    'interp_hybrid_to_sigma_vs_ref', 'sigma_pressure_roundtrip_affine_column',
    'surface_pressure_solves_geopotential_eq_orography', 'semi_lagrangian_zero_velocity_is_identity',
    'semi_lagrangian_step_vs_ref', 'bilinear_regridder_reproduces_constants',
    'bilinear_regridder_identity_on_equal_grids', 'nearest_regridder_reproduces_constants',
    'nearest_regridder_identity_on_equal_grids']}
ASSUMPTIONS = [
    '"extrapolation for n grid cells" = the end cell\'s line up to n end-cell widths beyond the end '
    'node, missing (NaN) beyond; queries within 64(1+n) ulp of that limit are not asserted to be '
    'finite or missing (only: if finite, on the line)',
    'a query equal to a node may be served from either adjacent cell (the interpolant is continuous)',
    'rounding of the padded nodes in the safe-extrapolation routine scales with |x_end|/cell: the '
    'threshold for extrapolated values carries that factor (x0.1)',
    'the accelerator branch is reached by patching jax.local_devices around a fresh trace; the kernels '
    'are still the CPU ones',
    'semi-Lagrangian step: value arriving at sigma_k is the old profile at sigma_k - dt*velocity_k '
    '(departure point), velocity from the public compute_vertical_velocity; only steps whose '
    'departure points stay strictly increasing are used',
    'BilinearRegridder is asserted against the bilinear interpolant only for targets inside the '
    'source latitude/longitude hull (no periodic wrap is documented); NearestRegridder ties '
    '(coincident pole points) may resolve to any of the tied sources',
]
TOL = 1e-12
TIMEOUT = {'quick': 3600, 'thorough': 14400}

NODE_KINDS = ['uniform', 'random', 'decades', 'sigma', 'pressure', 'negative', 'offset']


# ----------------------------------------------------------------------------------------------
def cases(tier, seed):
  out = []
  i = 0

  def one_d(n, kind, tag=''):
    nonlocal i
    out.append({'id': f'n{i}-{kind}{n}{tag}', 'kind': '1d', 'n': int(n), 'nodes': kind, 'env': 'f64',
                'cost': 1.0 + n / 20.0})
    i += 1

  for n in (2, 3, 4, 40):
    for kind in ('uniform', 'random'):
      one_d(n, kind)
  for n, kind in ((2, 'decades'), (5, 'decades'), (17, 'decades'), (9, 'sigma'), (12, 'sigma'),
                  (13, 'pressure'), (37, 'pressure'), (6, 'negative'), (7, 'offset'), (2, 'offset'),
                  (3, 'negative'), (31, 'random')):
    one_d(n, kind)
  rng = np.random.default_rng([seed, 1717])
  for _ in range(10 if tier == 'quick' else 240):
    n = int(rng.choice([2, 3, 4, 5, 6, 8, 10, 13, 16, 20, 25, 32, 40]))
    one_d(n, str(rng.choice(NODE_KINDS)), '-r')

  def add(kind, k, cost, **kw):
    out.append({'id': f'{kind}{k}' + ''.join(f'-{v}' for v in kw.values() if isinstance(v, (str, int))),
                'kind': kind, 'env': 'f64', 'cost': cost, **kw})

  # fields: pressure <-> sigma, hybrid -> sigma, surface pressure
  fields = [dict(np_=9, K=4, hyb='ECMWF137'), dict(np_=2, K=2, hyb='synthetic', hl=2),
            dict(np_=37, K=12, hyb='UFS127'), dict(np_=13, K=1, hyb='synthetic', hl=40),
            dict(np_=5, K=7, hyb='synthetic', hl=9)]
  for _ in range(3 if tier == 'quick' else 40):
    fields.append(dict(np_=int(rng.integers(2, 41)), K=int(rng.integers(1, 13)),
                       hyb=str(rng.choice(['synthetic', 'synthetic', 'ECMWF137', 'UFS127'])),
                       hl=int(rng.integers(2, 41))))
  for k, f in enumerate(fields):
    add('fields', k, 3.0, **f)
  # semi-Lagrangian vertical step
  sl = [dict(K=4, uneven=True), dict(K=2, uneven=False)]
  if tier != 'quick':
    sl.append(dict(K=7, uneven=True))
  for _ in range(0 if tier == 'quick' else 6):
    sl.append(dict(K=int(rng.integers(2, 13)), uneven=bool(rng.random() < 0.7)))
  for k, f in enumerate(sl):
    add('semilag', k, 8.0, **f)
  # horizontal regridders
  hz = [dict(src=[8, 4, 'gauss', 0.0], dst=[8, 4, 'gauss', 0.0]),
        dict(src=[16, 8, 'gauss', 0.0], dst=[10, 6, 'equiangular', 0.0]),
        dict(src=[6, 5, 'equiangular_with_poles', 0.0], dst=[12, 7, 'gauss', 0.3]),
        dict(src=[4, 2, 'gauss', 0.1], dst=[5, 3, 'equiangular_with_poles', 0.0]),
        # pairs on which "nearest in latitude" and "nearest in sin(latitude)" differ
        dict(src=[11, 11, 'equiangular_with_poles', 0.0], dst=[27, 16, 'equiangular', 0.65]),
        dict(src=[24, 10, 'equiangular', 0.0], dst=[13, 15, 'gauss', 0.0])]
  for _ in range(2 if tier == 'quick' else 24):
    mk = lambda: [int(rng.integers(4, 33)), int(rng.integers(2, 17)), str(rng.choice(gen.SPACINGS)),
                  float(rng.choice([0.0, rng.uniform(0, 1.0)]))]
    hz.append(dict(src=mk(), dst=mk()))
  for k, f in enumerate(hz):
    add('horiz', k, 2.0, **f)
  # history monitor: regridders between grids of the SAME layout (node counts, spacing) that differ
  # only in the longitude offsets, built and applied one after the other in one process, both orders
  A = [16, 8, 'gauss']
  seq = [dict(src=A + [-np.pi], dst=A + [0.0]), dict(src=A + [0.0], dst=A + [0.0]),
         dict(src=A + [0.4], dst=A + [-2.0]), dict(src=A + [-np.pi], dst=A + [-np.pi])]
  add('horiz_siblings', 0, 5.0, pairs=seq)
  add('horiz_siblings', 1, 5.0, pairs=seq[::-1])
  return out


# ----------------------------------------------------------------------------------------------
def _amax(a):
  a = np.asarray(a)
  a = a[np.isfinite(a)] if a.dtype.kind == 'f' else a
  return float(np.max(np.abs(a))) if a.size else 0.0


def _nodes(rng, n, kind):
  for _ in range(50):
    if kind == 'uniform':
      xp = rng.uniform(-2, 2) + np.linspace(0.0, 1.0, n) * 10 ** rng.uniform(-1, 2)
    elif kind == 'random':
      gaps = rng.uniform(0.05, 1.0, n - 1)
      xp = rng.uniform(-1, 1) + np.concatenate([[0], np.cumsum(gaps)])
    elif kind == 'decades':
      gaps = 10.0 ** rng.uniform(-4, 0, n - 1)
      xp = np.concatenate([[0], np.cumsum(gaps)])
      xp = xp / max(xp[-1], 1e-30) + rng.uniform(0, 0.1)
    elif kind == 'sigma':
      b = gen.sigma_boundaries(rng, n, uneven=True, ratio=6.0)
      xp = (b[1:] + b[:-1]) / 2
    elif kind == 'pressure':
      xp = np.sort(rng.uniform(1.0, 1050.0, n))
    elif kind == 'negative':
      xp = -np.sort(rng.uniform(1.0, 5.0, n))[::-1] - 0.5
      xp = np.sort(xp)
    else:  # offset: range O(1) at 1e3
      xp = 1.0e3 + np.concatenate([[0], np.cumsum(rng.uniform(0.05, 1.0, n - 1))])
    xp = np.asarray(xp, dtype=np.float64)
    d = np.diff(xp)
    mag = float(np.max(np.abs(xp)))
    if (d > 0).all() and mag / d[0] < 1e5 and mag / d[-1] < 1e5 and d.min() > 64 * np.spacing(mag):
      return xp
  raise core.HarnessError(f'no admissible node set for {kind} {n}')


def _queries(rng, xp):
  n = len(xp)
  span = xp[-1] - xp[0]
  d0, d1 = xp[1] - xp[0], xp[-1] - xp[-2]
  q = {}
  q['node'] = xp.copy()
  q['midpoint'] = (xp[1:] + xp[:-1]) / 2
  q['ulp_below_node'] = np.nextafter(xp, -np.inf)
  q['ulp_above_node'] = np.nextafter(xp, np.inf)
  q['inside'] = rng.uniform(xp[0], xp[-1], 12)
  q['near_outside'] = np.concatenate([xp[0] - d0 * rng.uniform(0, 3.2, 6), xp[-1] + d1 * rng.uniform(0, 3.2, 6)])
  far = np.array([1.0, 10.0, 1e3, 1e6])
  q['far_outside'] = np.concatenate([xp[0] - span * far, xp[-1] + span * far])
  lim = []
  for k in (1, 2):
    lo, hi = R.safe_limits(xp, k)
    lim += [lo, hi, lo - 1e-6 * d0, lo + 1e-6 * d0, hi - 1e-6 * d1, hi + 1e-6 * d1,
            np.nextafter(lo, -np.inf), np.nextafter(lo, np.inf), np.nextafter(hi, -np.inf), np.nextafter(hi, np.inf)]
    # the limit as repeated subtraction would round it
    a, b_ = xp[0], xp[-1]
    for _ in range(k):
      a, b_ = a - d0, b_ + d1
    lim += [a, b_]
  q['safe_limits'] = np.array(lim)
  xs = np.concatenate(list(q.values()))
  tags = np.concatenate([[k] * len(v) for k, v in q.items()])
  return xs.astype(np.float64), tags


def _data(rng, xp):
  n = len(xp)
  amp = 10.0 ** rng.uniform(-2, 3)
  a, b = amp * rng.uniform(-3, 3), amp * rng.uniform(-3, 3) / max(np.max(np.abs(xp)), xp[-1] - xp[0])
  cols = [a + b * xp, amp * rng.standard_normal(n), np.full(n, amp * rng.uniform(-2, 2)),
          amp * np.cumsum(rng.uniform(0.0, 1.0, n)) * rng.choice([-1, 1])]
  F = np.concatenate([np.stack(cols, 1), np.eye(n)], axis=1)
  return F, {'affine': 0, 'random': 1, 'constant': 2, 'monotone': 3, 'basis': slice(4, 4 + n), 'a': a, 'b': b}


def _wscale(xs, xp, mode):
  """Per-query growth factor of rounding errors: largest |weight| (see interp_ref.weight_scale),
  times the conditioning of the padded nodes for the safe mode."""
  ws = np.ones(len(xs))
  if mode == 'constant':
    return ws
  d0, d1 = xp[1] - xp[0], xp[-1] - xp[-2]
  left, right = xs < xp[0], xs > xp[-1]
  ws[left] = 1 + 2 * (xp[0] - xs[left]) / d0
  ws[right] = 1 + 2 * (xs[right] - xp[-1]) / d1
  if mode == 'safe':
    ws[left] *= max(1.0, 0.1 * max(abs(xp[0]), abs(xp[1])) / d0)
    ws[right] *= max(1.0, 0.1 * max(abs(xp[-1]), abs(xp[-2])) / d1)
  return ws


_JITS: dict = {}


def _jit(jax, key, make):
  """Process-wide cache of the harness's own jit wrappers (shapes depend on the node count only,
  so executables are reused between cases of one worker)."""
  if key not in _JITS:
    _JITS[key] = jax.jit(make())
  return _JITS[key]


class _AcceleratorPath:
  """Makes `vertical_interpolation.interp` trace its accelerator branch: jax.local_devices is
  patched to report TPU devices around a fresh trace; a counting wrapper on `_dot_interp` tells
  whether the branch was really taken (`.taken`)."""

  def __init__(self, jax, vi):
    self.jax, self.vi = jax, vi
    self.calls = 0
    self.ok = hasattr(vi, '_dot_interp')

  def _clear(self):
    if hasattr(self.vi.interp, 'clear_cache'):
      self.vi.interp.clear_cache()
    else:
      self.jax.clear_caches()

  def __enter__(self):
    if not self.ok:
      return self
    self.real_devices = self.jax.local_devices
    self.real_dot = self.vi._dot_interp  # pylint: disable=protected-access

    class _Dev:
      platform = 'tpu'

    def counting(x, xp, fp):
      self.calls += 1
      return self.real_dot(x, xp, fp)

    self.vi._dot_interp = counting  # pylint: disable=protected-access
    self.jax.local_devices = lambda *a, **k: [_Dev()]
    self._clear()
    return self

  def __exit__(self, *exc):
    if self.ok:
      self.jax.local_devices = self.real_devices
      self.vi._dot_interp = self.real_dot  # pylint: disable=protected-access
      self._clear()
    return False

  @property
  def taken(self):
    return self.ok and self.calls > 0


def _check_routine(M, rname, got, mode, nn, xs, xp, F, cols, tags, info, named=True):
  """All oracles for one routine evaluated on queries xs (q,) and data matrix F (n, D) -> got (q, D)."""
  got = np.asarray(got, dtype=np.float64)
  q, D = len(xs), F.shape[1]
  n = len(xp)
  info = dict(info, routine=rname, mode=mode, cells=nn)
  if got.shape != (q, D):
    M.check(f'{rname}_vs_ref', False, info=dict(info, reason='shape', got=list(got.shape)))
    return
  ref = np.stack([R.interp(xs, xp, F[:, d], mode, nn) for d in range(D)], axis=1)
  cls = R.classify(xs, xp, nn)
  fmax = np.maximum(np.max(np.abs(F), axis=0), 1e-300)
  ws = _wscale(xs, xp, mode)
  den = ws[:, None] * fmax[None, :]
  g, r = got.copy(), ref.copy()
  if mode == 'safe':
    edge = cls['safe_edge']
    if edge.any():
      lin = np.stack([R.interp(xs[edge], xp, F[:, d], 'linear') for d in range(D)], axis=1)
      ge = g[edge]
      fin = np.isfinite(ge)
      r[edge] = np.where(fin, lin, 0.0)
      g[edge] = np.where(fin, ge, 0.0)
      M.cover('safe_limit_queries(not asserted finite/missing)', 'finite', int(fin[:, 0].sum()))
      M.cover('safe_limit_queries(not asserted finite/missing)', 'missing', int((~fin[:, 0]).sum()))
  M.close(f'{rname}_vs_ref', g / den, r / den, TOL, scale=1.0, info=info)
  if not named:
    return
  inside = cls['inside']
  idx = np.clip(np.searchsorted(xp, xs, side='right') - 1, 0, n - 2)
  # value at node = node value
  isnode = tags == 'node'
  M.close('value_at_node_is_node_value', got[isnode] / fmax, F / fmax, TOL, scale=1.0, info=info)
  # affine data reproduced (inside; and wherever the mode extrapolates linearly)
  a, b = cols['a'], cols['b']
  where = inside.copy()
  if mode == 'linear':
    where[:] = True
  elif mode == 'safe':
    where |= cls['safe_in']
  aff_scale = (abs(a) + abs(b) * np.max(np.abs(xs[where]))) if where.any() else 1.0
  M.close('affine_data_reproduced', got[where, cols['affine']] / ws[where], (a + b * xs[where]) / ws[where], TOL,
          scale=max(aff_scale, 1e-300), info=info)
  # bounded by the neighbouring node values inside
  lo = np.minimum(F[idx], F[idx + 1])[inside]
  hi = np.maximum(F[idx], F[idx + 1])[inside]
  gi = got[inside] / fmax
  M.le('between_neighbouring_values_inside', gi, hi / fmax, slack=TOL, info=info)
  M.le('between_neighbouring_values_inside', -gi, -lo / fmax, slack=TOL, info=info)
  # the weights (responses to the basis vectors)
  W = got[:, cols['basis']]
  fin = np.isfinite(W).all(axis=1)
  M.close('weights_sum_to_one', W[fin].sum(axis=1) / ws[fin], 1.0 / ws[fin], TOL, scale=1.0, info=info)
  Wi = W[inside]
  M.le('weights_nonnegative_inside', -Wi, 0.0, slack=TOL, info=info)
  off = np.ones_like(Wi, dtype=bool)
  rows = np.arange(Wi.shape[0])
  off[rows, idx[inside]] = False
  off[rows, idx[inside] + 1] = False
  # a query on a node may use the cell on either side
  onnode = np.isin(xs[inside], xp)
  offm = off & ~onnode[:, None]
  M.small('weights_vanish_away_from_the_bracketing_nodes', np.where(offm, Wi, 0.0), 1.0, TOL, info=info)
  # documented behaviour outside the nodes
  out_l, out_r = xs < xp[0], xs > xp[-1]
  if mode == 'constant':
    M.close('constant_extrapolation_outside', got[out_l] / fmax, np.broadcast_to(F[0] / fmax, got[out_l].shape), TOL, scale=1.0, info=info)
    M.close('constant_extrapolation_outside', got[out_r] / fmax, np.broadcast_to(F[-1] / fmax, got[out_r].shape), TOL, scale=1.0, info=info)
  else:
    sl = (F[1] - F[0]) / (xp[1] - xp[0])
    sr = (F[-1] - F[-2]) / (xp[-1] - xp[-2])
    ll = F[0][None, :] + (xs[out_l] - xp[0])[:, None] * sl[None, :]
    rr = F[-1][None, :] + (xs[out_r] - xp[-1])[:, None] * sr[None, :]
    if mode == 'linear':
      M.close('linear_extrapolation_outside', got[out_l] / den[out_l], ll / den[out_l], TOL, scale=1.0, info=info)
      M.close('linear_extrapolation_outside', got[out_r] / den[out_r], rr / den[out_r], TOL, scale=1.0, info=info)
    else:
      sin_, sout = cls['safe_in'], cls['safe_out']
      M.check('safe_extrapolation_missing_beyond_n_cells', bool(np.isnan(got[sout]).all()),
              info=dict(info, finite_beyond_limit=int(np.isfinite(got[sout]).sum())))
      M.check('safe_extrapolation_finite_within_n_cells', bool(np.isfinite(got[sin_]).all()),
              info=dict(info, missing_within_limit=int(np.isnan(got[sin_]).sum())))
      full = np.zeros_like(got)
      full[out_l], full[out_r] = ll, rr
      M.close('safe_extrapolation_linear_within_n_cells', np.where(np.isfinite(got[sin_]), got[sin_], 0) / den[sin_],
              np.where(np.isfinite(got[sin_]), full[sin_], 0) / den[sin_], TOL, scale=1.0, info=info)


def _run_1d(case, M):
  import jax  # pylint: disable=import-outside-toplevel
  import jax.numpy as jnp  # pylint: disable=import-outside-toplevel
  from dinosaur import vertical_interpolation as vi  # pylint: disable=import-outside-toplevel
  rng = M.rng()
  n = case['n']
  xp = _nodes(rng, n, case['nodes'])
  xs, tags = _queries(rng, xp)
  F, cols = _data(rng, xp)
  info = {'nodes': case['nodes'], 'n': n, 'xp_first': xp[:3].tolist(), 'xp_last': xp[-2:].tolist()}
  jxp, jF, jxs = jnp.asarray(xp), jnp.asarray(F), jnp.asarray(xs)

  def batched(fn):
    return jax.vmap(jax.vmap(fn, (0, None, None)), (None, None, 1), 1)

  args = (xs, xp, F, cols, tags, info)
  # ---- interp, default path
  cpu = np.asarray(batched(vi.interp)(jxs, jxp, jF))
  _check_routine(M, 'interp_default_path', cpu, 'constant', 1, *args)
  # ---- vertical_interpolation(): scalar queries with numpy nodes, and an array of queries
  vpub = np.asarray(batched(lambda x, p, f: vi.vertical_interpolation(x, xp, f))(jxs, jxp, jF))
  _check_routine(M, 'vertical_interpolation', vpub, 'constant', 1, *args, named=False)
  varr = np.stack([np.asarray(vi.vertical_interpolation(xs, xp, F[:, d])) for d in (0, 1)], 1)
  _check_routine(M, 'vertical_interpolation', np.concatenate([varr, vpub[:, 2:]], 1), 'constant', 1, *args, named=False)
  # ---- interp, accelerator path
  fields_x = xs[rng.choice(len(xs), (5, 2, 3))]
  fields_f = np.concatenate([cols['a'] + cols['b'] * np.broadcast_to(xp[None, :, None, None], (1, n, 2, 3)),
                             rng.standard_normal((1, n, 2, 3))], 0)
  with _AcceleratorPath(jax, vi) as acc:
    if acc.ok:
      tpu = np.asarray(batched(vi.interp)(jxs, jxp, jF))
      tpu_pub = np.asarray(batched(lambda x, p, f: vi.vertical_interpolation(x, xp, f))(jxs, jxp, jF))
      ok_vec, tpu_vec = M.no_raise('vectorized_interp_call_returns', lambda: np.asarray(
          _jit(jax, 'vec-interp@accelerator', lambda: vi.vectorize_vertical_interpolation(vi.interp))(fields_x, xp, fields_f)),
                                   info=dict(info, fn='interp@accelerator'))
      try:
        arr = np.asarray(vi.vertical_interpolation(xs, xp, F[:, 0]))
        arr_state = 'returns' if arr.shape == xs.shape else f'returns shape {arr.shape} for {xs.shape}'
      except Exception as e:  # pylint: disable=broad-except
        arr_state = 'raises ' + type(e).__name__
      M.cover('observed(not asserted): vertical_interpolation(array x) on the accelerator path', arr_state)
  if acc.taken:
    _check_routine(M, 'interp_accelerator_path', tpu, 'constant', 1, *args)
    _check_routine(M, 'vertical_interpolation', tpu_pub, 'constant', 1, *args, named=False)
    fm = np.maximum(np.max(np.abs(F), axis=0), 1e-300)
    M.close('interp_paths_agree', tpu / fm, cpu / fm, TOL, scale=1.0, info=info)
    M.cover('interp_path', 'accelerator(_dot_interp) traced', acc.calls)
  else:
    M.unavailable('interp accelerator path (_dot_interp not reached)')
  M.cover('interp_path', 'default(jnp.interp)')
  # ---- unlimited linear extrapolation
  lin = np.asarray(batched(vi.linear_interp_with_linear_extrap)(jxs, jxp, jF))
  _check_routine(M, 'linear_interp_with_linear_extrap', lin, 'linear', 1, *args)
  # ---- safe extrapolation (private helper: sharper sub-monitor)
  safe = getattr(vi, '_linear_interp_with_safe_extrap', None)
  if safe is None:
    M.unavailable('_linear_interp_with_safe_extrap')
  else:
    s1 = np.asarray(_jit(jax, 'safe', lambda: batched(safe))(jxs, jxp, jF))
    _check_routine(M, 'safe_extrap_n1', s1, 'safe', 1, *args)
    if n <= 4:
      s1b = np.asarray(_jit(jax, 'safe1', lambda: batched(functools.partial(safe, n=1)))(jxs, jxp, jF))
      M.close('safe_extrap_default_n_is_1', s1b, s1, TOL, info=info)
    s2 = np.asarray(_jit(jax, 'safe2', lambda: batched(functools.partial(safe, n=2)))(jxs, jxp, jF))
    _check_routine(M, 'safe_extrap_n2', s2, 'safe', 2, *args)
  # ---- vectorize_vertical_interpolation on [.., level, x, y] fields
  vec_fns = [('interp', vi.interp, 'constant', 1), ('linear', vi.linear_interp_with_linear_extrap, 'linear', 1)]
  if safe is not None:
    vec_fns += [('safe1', safe, 'safe', 1), ('safe2', functools.partial(safe, n=2), 'safe', 2)]
  fmx = max(_amax(fields_f), 1e-300)
  for vname, fn, mode, nn in vec_fns:
    ok, got = M.no_raise('vectorized_interp_call_returns',
                         lambda fn=fn, vname=vname: np.asarray(_jit(jax, 'vec-' + vname, lambda: vi.vectorize_vertical_interpolation(fn))(fields_x, xp, fields_f)),
                         info=dict(info, fn=vname))
    if not ok:
      continue
    ref = R.interp_columns(fields_x, xp, fields_f, mode, nn)
    ws = _wscale(fields_x.ravel(), xp, mode).reshape(fields_x.shape)[None]
    g, r = got.copy(), ref.copy()
    if mode == 'safe':
      edge = np.broadcast_to(R.classify(fields_x, xp, nn)['safe_edge'][None], got.shape)
      g[edge], r[edge] = 0.0, 0.0
    M.close('vectorized_interp_vs_ref', g / ws / fmx, r / ws / fmx, TOL, scale=1.0, info=dict(info, fn=vname))
    M.cover('vectorized(fn)', vname)
    if vname == 'interp' and acc.taken and ok_vec:
      M.close('vectorized_interp_vs_ref', tpu_vec / fmx, ref / fmx, TOL, scale=1.0, info=dict(info, fn='interp@accelerator'))
      M.cover('vectorized(fn)', 'interp@accelerator')
  cl = R.classify(xs, xp, 1)
  if cl['inside'].sum() > n and (xs < xp[0]).any() and (xs > xp[-1]).any():
    M.nontrivial_global(case['nodes'], [round(float(v), 12) for v in xp])
  for t in np.unique(tags):
    M.cover('queries(kind)', str(t), int((tags == t).sum()))
  M.cover('nodes(kind)', case['nodes'])
  M.cover('nodes(count)', '2' if n == 2 else '3-8' if n <= 8 else '9-20' if n <= 20 else '21-40')
  M.sample({'nodes': xp.tolist() if n <= 8 else xp[:4].tolist() + ['...'] + xp[-2:].tolist(), 'queries': len(xs),
            'data_columns': F.shape[1], 'affine': [cols['a'], cols['b']]})


# ----------------------------------------------------------------------------------------------
def _synthetic_hybrid(rng, layers):
  s = gen.sigma_boundaries(rng, layers, uneven=True, ratio=5.0)
  s[0] = rng.choice([0.0, 1e-4])
  gam = rng.uniform(1.0, 1.6)
  b = s ** gam
  b[-1] = 1.0
  a = (s - b) * 1000.0
  a[-1] = 0.0
  return a, b


def _run_fields(case, M):
  import jax.numpy as jnp  # pylint: disable=import-outside-toplevel
  from dinosaur import sigma_coordinates as sc  # pylint: disable=import-outside-toplevel
  from dinosaur import vertical_interpolation as vi  # pylint: disable=import-outside-toplevel
  rng = M.rng()
  nx, ny = 3, 4
  npl, K = case['np_'], case['K']
  # ---- coordinates
  if npl in (9, 13, 37):
    std = {9: [50., 100, 200, 300, 500, 700, 850, 925, 1000],
           13: [50., 100, 150, 200, 250, 300, 400, 500, 600, 700, 850, 925, 1000],
           37: [1., 2, 3, 5, 7, 10, 20, 30, 50, 70, 100, 125, 150, 175, 200, 225, 250, 300, 350, 400, 450, 500, 550,
                600, 650, 700, 750, 775, 800, 825, 850, 875, 900, 925, 950, 975, 1000]}[npl]
    levels = np.array(std, dtype=np.float64)
  else:
    levels = np.sort(rng.uniform(5.0, 1050.0, npl))
    while not (np.diff(levels) > 1e-3).all():
      levels = np.sort(rng.uniform(5.0, 1050.0, npl))
  pc = vi.PressureCoordinates(levels)
  b = gen.sigma_boundaries(rng, K, uneven=K > 1 and rng.random() < 0.8, ratio=6.0)
  sig = sc.SigmaCoordinates(b)
  cen = np.asarray(sig.centers, dtype=np.float64)
  sp = rng.uniform(500.0, 1080.0, (1, nx, ny))
  info = {'pressure_levels': npl, 'sigma_layers': K}
  amp = 10.0 ** rng.uniform(-1, 2)

  def cmp(name, got, ref, x, xpn, mode, nn, fmx, extra=None):
    """NaN pattern and values against the reference; queries on a safe limit are not asserted."""
    got = np.asarray(got, dtype=np.float64)
    if got.shape != ref.shape:
      M.check(name, False, info=dict(info, reason='shape', got=list(got.shape), want=list(ref.shape)))
      return got
    g, r = got.copy(), ref.copy()
    xpb = np.broadcast_to(xpn if xpn.ndim == 3 else xpn[:, None, None], (xpn.shape[0], nx, ny))
    ws = np.ones(x.shape)
    for i in range(nx):
      for j in range(ny):
        ws[:, i, j] = _wscale(x[:, i, j], xpb[:, i, j], mode)
        if mode == 'safe':
          e = R.classify(x[:, i, j], xpb[:, i, j], nn)['safe_edge']
          g[..., e, i, j] = 0.0
          r[..., e, i, j] = 0.0
    M.close(name, g / ws / fmx, r / ws / fmx, TOL, scale=1.0, info=dict(info, **(extra or {})))
    return got

  # ---- pressure -> sigma
  f3 = amp * rng.standard_normal((npl, nx, ny))
  f4 = amp * rng.standard_normal((2, npl, nx, ny))
  other = rng.standard_normal((npl + 1, nx, ny))
  flat = rng.standard_normal((nx, ny))
  tree = {'a': f3, 'b': (f4, 2.5), 'other': other, 'flat': flat}
  desired = cen[:, None, None] * sp
  out = vi.interp_pressure_to_sigma(tree, pc, sig, sp)
  fm = max(_amax(f3), _amax(f4))
  g3 = cmp('interp_pressure_to_sigma_vs_ref', out['a'], R.interp_columns(desired, levels, f3, 'safe', 1), desired, levels, 'safe', 1, fm)
  cmp('interp_pressure_to_sigma_vs_ref', out['b'][0], R.interp_columns(desired, levels, f4, 'safe', 1), desired, levels, 'safe', 1, fm,
      {'leading_axis': True})
  M.check('pytree_leaves_without_level_axis_pass_through',
          np.array_equal(np.asarray(out['other']), other) and np.array_equal(np.asarray(out['flat']), flat)
          and float(out['b'][1]) == 2.5, info=info)
  n_nan = int(np.isnan(g3).sum())
  M.cover('pressure_to_sigma targets', 'missing', n_nan)
  M.cover('pressure_to_sigma targets', 'finite', int(g3.size - n_nan))
  # other public interpolate_fn choices
  for nm, fn, mode in (('interp', vi.interp, 'constant'), ('linear', vi.linear_interp_with_linear_extrap, 'linear')):
    o = vi.interp_pressure_to_sigma(f3, pc, sig, sp, vi.vectorize_vertical_interpolation(fn))
    cmp('interp_pressure_to_sigma_vs_ref', o, R.interp_columns(desired, levels, f3, mode, 1), desired, levels, mode, 1, fm,
        {'interpolate_fn': nm})
    M.cover('interpolate_fn', nm)
  M.cover('interpolate_fn', 'default(safe n=1)')

  # ---- sigma -> pressure (needs >= 2 source nodes)
  if K >= 2:
    s3 = amp * rng.standard_normal((K, nx, ny))
    s4 = amp * rng.standard_normal((2, K, nx, ny))
    want_x = levels[:, None, None] / sp
    o = vi.interp_sigma_to_pressure({'a': s3, 'b': s4, 's': 1.5}, pc, sig, sp)
    fm2 = max(_amax(s3), _amax(s4))
    gp = cmp('interp_sigma_to_pressure_vs_ref', o['a'], R.interp_columns(want_x, cen, s3, 'safe', 1), want_x, cen, 'safe', 1, fm2)
    cmp('interp_sigma_to_pressure_vs_ref', o['b'], R.interp_columns(want_x, cen, s4, 'safe', 1), want_x, cen, 'safe', 1, fm2,
        {'leading_axis': True})
    M.check('pytree_scalars_pass_through', float(o['s']) == 1.5, info=info)
    # round trips of columns affine in pressure
    a0, b0 = amp * rng.uniform(-2, 2), amp * rng.uniform(-2, 2) / 1000.0
    col_sig = a0 + b0 * cen[:, None, None] * sp
    col_prs = a0 + b0 * levels[:, None, None] * np.ones((1, nx, ny))
    rt_scale = abs(a0) + abs(b0) * 1100.0 * 3
    on_p = np.asarray(vi.interp_sigma_to_pressure(col_sig, pc, sig, sp))
    m = np.isfinite(on_p)
    M.close('sigma_pressure_roundtrip_affine_column', np.where(m, on_p, 0), np.where(m, col_prs, 0), TOL, scale=rt_scale,
            info=dict(info, leg='sigma->pressure'))
    back = np.asarray(vi.interp_pressure_to_sigma(np.where(m, on_p, col_prs), pc, sig, sp))
    m2 = np.isfinite(back)
    M.close('sigma_pressure_roundtrip_affine_column', np.where(m2, back, 0), np.where(m2, col_sig, 0), TOL, scale=rt_scale,
            info=dict(info, leg='sigma->pressure->sigma'))
    on_s = np.asarray(vi.interp_pressure_to_sigma(col_prs, pc, sig, sp))
    m3 = np.isfinite(on_s)
    M.close('sigma_pressure_roundtrip_affine_column', np.where(m3, on_s, 0), np.where(m3, col_sig, 0), TOL, scale=rt_scale,
            info=dict(info, leg='pressure->sigma'))
    M.cover('roundtrip finite fraction (%)', str(int(10 * round(10 * (m.mean() + m2.mean() + m3.mean()) / 3))))
    if m.any() and (~np.isfinite(gp)).any() or n_nan:
      M.nontrivial('p<->sigma')
  elif n_nan and n_nan < g3.size:
    M.nontrivial('p->sigma')

  # ---- hybrid -> sigma
  if case['hyb'] == 'synthetic':
    for _ in range(20):
      ha, hb = _synthetic_hybrid(rng, case['hl'])
      hyb = vi.HybridCoordinates(a_boundaries=ha, b_boundaries=hb)
      src = np.stack([np.asarray(hyb.get_sigma_centers(float(sp[0, i, j]))) for i in range(nx) for j in range(ny)], 1)
      if (np.diff(src, axis=0) > 0).all():
        break
    else:
      raise core.HarnessError('no monotone synthetic hybrid set')
  else:
    hyb = getattr(vi.HybridCoordinates, case['hyb'])()
  hl = hyb.layers
  a_b, b_b = np.asarray(hyb.a_boundaries, np.float64), np.asarray(hyb.b_boundaries, np.float64)
  src = np.zeros((hl, nx, ny))
  for i in range(nx):
    for j in range(ny):
      bd = a_b / sp[0, i, j] + b_b
      src[:, i, j] = (bd[1:] + bd[:-1]) / 2
  M.check('hybrid_sigma_centers_definition', np.allclose(np.asarray(hyb.get_sigma_centers(float(sp[0, 0, 0]))), src[:, 0, 0], rtol=1e-13, atol=0), info=info)
  if (np.diff(src, axis=0) > 0).all() and hl >= 2:
    h3 = amp * rng.standard_normal((hl, nx, ny))
    h4 = amp * rng.standard_normal((2, hl, nx, ny))
    o = vi.interp_hybrid_to_sigma({'a': h3, 'b': h4, 's': 0.5}, hyb, sig, sp[0])
    tgt = np.broadcast_to(cen[:, None, None], (K, nx, ny)).copy()
    fm3 = max(_amax(h3), _amax(h4))
    hinfo = {'hybrid': case['hyb'], 'hybrid_layers': hl}
    gh = cmp('interp_hybrid_to_sigma_vs_ref', o['a'], R.interp_columns(tgt, src, h3, 'safe', 1), tgt, src, 'safe', 1, fm3, hinfo)
    cmp('interp_hybrid_to_sigma_vs_ref', o['b'], R.interp_columns(tgt, src, h4, 'safe', 1), tgt, src, 'safe', 1, fm3,
        dict(hinfo, leading_axis=True))
    rg = np.asarray(vi.BilinearRegridder(hyb, sig)(h3, sp[0]))
    M.close('vertical_bilinear_regridder_is_interp_hybrid_to_sigma', np.where(np.isfinite(rg), rg, 0.0),
            np.where(np.isfinite(gh), gh, 0.0), TOL, scale=fm3, info=dict(info, **hinfo))
    M.check('vertical_bilinear_regridder_same_missing_pattern', np.array_equal(np.isnan(rg), np.isnan(gh)), info=dict(info, **hinfo))
    # a column affine in sigma is reproduced wherever a value is returned
    aff = 2.0 * amp + 3.0 * amp * src
    ga = np.asarray(vi.interp_hybrid_to_sigma(aff, hyb, sig, sp[0]))
    mm = np.isfinite(ga)
    M.close('hybrid_to_sigma_affine_column', np.where(mm, ga, 0), np.where(mm, 2.0 * amp + 3.0 * amp * tgt, 0), TOL,
            scale=5.0 * amp * 3, info=dict(info, **hinfo))
    M.cover('hybrid(kind)', case['hyb'])
    M.cover('hybrid_to_sigma targets', 'missing', int(np.isnan(gh).sum()))
    M.cover('hybrid_to_sigma targets', 'finite', int(np.isfinite(gh).sum()))
    M.nontrivial('hybrid', case['hyb'], hl, K)
  else:
    M.discard('hybrid source centres not strictly increasing')

  # ---- surface pressure: where geopotential meets orography
  gacc = float(rng.choice([9.80616, 1.0, rng.uniform(0.5, 20.0)]))
  oro = rng.uniform(-50.0, 3000.0, (1, nx, ny))
  phi0 = rng.uniform(1.5e4, 3.0e4) * gacc / 9.8
  slope = phi0 / rng.uniform(950.0, 1100.0)
  geo = (phi0 - slope * levels)[:, None, None] * np.ones((2, 1, nx, ny))
  ps = np.asarray(vi.get_surface_pressure(pc, geo, oro, gacc), dtype=np.float64)
  want = (phi0 - oro * gacc) / slope
  t_out = np.maximum(0.0, np.maximum((levels[0] - want) / (levels[1] - levels[0]), (want - levels[-1]) / (levels[-1] - levels[-2])))
  ps_scale = ((abs(phi0) + _amax(oro) * gacc) / slope + float(levels[-1])) * (1.0 + 2.0 * float(t_out.max()))
  M.check('surface_pressure_shape', ps.size == 2 * nx * ny, info=dict(info, shape=list(ps.shape)))
  if ps.size == 2 * nx * ny:
    M.close('surface_pressure_solves_geopotential_eq_orography', ps.reshape(2, nx, ny), np.broadcast_to(want[0], (2, nx, ny)), TOL,
            scale=ps_scale, info=dict(info, profile='affine'))
  inside = (want > levels[0]) & (want < levels[-1])
  M.cover('surface_pressure root', 'inside levels', int(inside.sum()))
  M.cover('surface_pressure root', 'extrapolated', int((~inside).sum()))
  if npl >= 3:
    # strictly decreasing piecewise-linear geopotential: p_s is the root of the interpolant (linear beyond the ends)
    dphi = rng.uniform(0.5, 1.5, (npl, nx, ny)) * slope
    geo2 = phi0 - np.cumsum(dphi * np.gradient(levels)[:, None, None], axis=0)
    ps2 = np.asarray(vi.get_surface_pressure(pc, geo2, oro, gacc), dtype=np.float64).reshape(nx, ny)
    rh = oro * gacc - geo2        # increasing along the level axis
    ref2 = np.zeros((nx, ny))
    resid = np.zeros((nx, ny))
    t2 = 0.0
    for i in range(nx):
      for j in range(ny):
        col = rh[:, i, j]
        ref2[i, j] = R.interp1(0.0, col, levels, 'linear')
        resid[i, j] = R.interp1(ps2[i, j], levels, geo2[:, i, j], 'linear') - oro[0, i, j] * gacc
        t2 = max(t2, (col[0] - 0.0) / (col[1] - col[0]), (0.0 - col[-1]) / (col[-1] - col[-2]))
    grow = 1.0 + 2.0 * max(t2, 0.0)
    cond = (_amax(geo2) + _amax(oro) * gacc)
    M.close('surface_pressure_solves_geopotential_eq_orography', ps2, ref2, TOL,
            scale=(cond / (0.5 * slope) + float(levels[-1])) * grow, info=dict(info, profile='piecewise'))
    M.small('surface_pressure_geopotential_residual', resid, 4.0 * cond * grow, TOL, info=info)
  M.nontrivial_global('fields', npl, K, [round(float(v), 9) for v in levels[:3]], [round(float(v), 12) for v in b])
  M.sample({'pressure_levels': levels.tolist() if npl <= 10 else npl, 'sigma_boundaries': b.tolist(),
            'surface_pressure_range': [float(sp.min()), float(sp.max())], 'hybrid': case['hyb']})


# ----------------------------------------------------------------------------------------------
def _run_semilag(case, M):
  import jax  # pylint: disable=import-outside-toplevel
  from dinosaur import coordinate_systems as cs  # pylint: disable=import-outside-toplevel
  from dinosaur import primitive_equations as pe  # pylint: disable=import-outside-toplevel
  from dinosaur import sigma_coordinates as sc  # pylint: disable=import-outside-toplevel
  from dinosaur import vertical_interpolation as vi  # pylint: disable=import-outside-toplevel
  rng = M.rng()
  K = case['K']
  b = gen.sigma_boundaries(rng, K, uneven=case['uneven'], ratio=4.0)
  sig = sc.SigmaCoordinates(b)
  cen = np.asarray(sig.centers, np.float64)
  grid = gen.make_grid(gen.grid_cfg(5, 6, 16, 8))
  coords = cs.CoordinateSystem(grid, sig)
  nx, ny = grid.nodal_shape
  info = {'K': K, 'uneven': case['uneven']}

  # ---- private helper: every (x.ndim, xp.ndim) combination, both interp paths
  vint = getattr(pe, '_vertical_interp', None)
  if vint is None:
    M.unavailable('primitive_equations._vertical_interp')
  else:
    fp = rng.standard_normal((K, nx, ny))
    x1 = np.concatenate([cen, rng.uniform(-0.2, 1.2, 3)])
    x3 = rng.uniform(-0.2, 1.2, (K + 1, nx, ny))
    x3[:K] = cen[:, None, None] + 0.4 * np.min(np.diff(cen)) * rng.uniform(-1, 1, (K, nx, ny))
    xp3 = cen[:, None, None] + 0.4 * np.min(np.diff(cen)) * rng.uniform(-1, 1, (K, nx, ny))
    combos = [(x1, cen), (x3, cen), (x1, xp3), (x3, xp3)]
    refs = [R.interp_columns(x, xpn, fp, 'constant') for x, xpn in combos]
    for x, xpn in combos:
      if not (np.diff(np.broadcast_to(xpn if xpn.ndim == 3 else xpn[:, None, None], (K, nx, ny)), axis=0) > 0).all():
        raise core.HarnessError('source levels not increasing')
    got = [np.asarray(vint(x, xpn, fp)) for x, xpn in combos]
    for (x, xpn), g, r in zip(combos, got, refs):
      M.close('vertical_interp_helper_vs_ref', g, r, TOL, scale=_amax(fp), info=dict(info, x_ndim=x.ndim, xp_ndim=xpn.ndim))
      M.cover('_vertical_interp(x.ndim,xp.ndim)', f'{x.ndim},{xpn.ndim}')
    with _AcceleratorPath(jax, vi) as acc:
      if acc.ok:
        got_t = [np.asarray(vint(x, xpn, fp)) for x, xpn in combos]
    if acc.taken:
      for (x, xpn), g, r in zip(combos, got_t, refs):
        M.close('vertical_interp_helper_vs_ref', g, r, TOL, scale=_amax(fp), info=dict(info, x_ndim=x.ndim, xp_ndim=xpn.ndim, path='accelerator'))
      M.cover('_vertical_interp(x.ndim,xp.ndim)', 'accelerator path', 4)
    else:
      M.unavailable('_vertical_interp on the accelerator path')

  # ---- the public step
  def rm(lead, amp):
    return gen.rand_modal(rng, grid, lead, lmax=grid.total_wavenumbers - 2, amp=amp)

  def state(vor, div):
    return pe.State(vorticity=rm((K,), vor), divergence=rm((K,), div), temperature_variation=rm((K,), 5.0),
                    log_surface_pressure=rm((1,), 0.02), tracers={'q': rm((K,), 1.0), 'surface': rm((1,), 1.0)})

  leaves = lambda s: [('vorticity', s.vorticity), ('divergence', s.divergence), ('temperature_variation', s.temperature_variation),
                      ('log_surface_pressure', s.log_surface_pressure), ('q', s.tracers['q']), ('surface', s.tracers['surface'])]
  # zero velocity (no wind) = identity, whatever dt
  st0 = state(0.0, 0.0)
  vvel = jax.jit(lambda s: pe.compute_vertical_velocity(s, coords))
  vel0 = np.asarray(vvel(st0))
  if _amax(vel0) != 0.0:
    raise core.HarnessError('state without wind has non-zero vertical velocity')
  step = jax.jit(lambda s, dt: pe.semi_lagrangian_vertical_advection_step(s, coords, dt))
  for dt in (0.0, 0.3):
    out0 = step(st0, dt)
    for (nm, a), (_, o) in zip(leaves(st0), leaves(out0)):
      M.close('semi_lagrangian_zero_velocity_is_identity', np.asarray(o), a, TOL,
              scale=max(_amax(a), 1e-300) * math.sqrt(grid.modal_shape[0] * grid.modal_shape[1]), info=dict(info, field=nm, dt=dt))
  # non-zero velocity: departure-point interpolation with constant extrapolation
  st = state(0.2, 0.3)
  vel = np.asarray(vvel(st), np.float64)
  vmax = _amax(vel)
  if K >= 2 and vmax > 0:
    done = 0
    for frac in (0.45, 3.0):
      # 0.45: departure points stay ordered; 3.0: some leave [first centre, last centre] -> constant extrapolation
      dt = frac * float(np.min(np.diff(cen))) / vmax * float(rng.choice([-1, 1]))
      src = cen[:, None, None] - dt * vel
      if not (np.diff(src, axis=0) > 0).all():
        if frac == 3.0:
          # keep the ordering: shrink until ordered
          while not (np.diff(src, axis=0) > 0).all():
            dt *= 0.7
            src = cen[:, None, None] - dt * vel
        else:
          M.discard('departure points not increasing')
          continue
      out = step(st, dt)
      n_out = int(((cen[:, None, None] < src[0:1]) | (cen[:, None, None] > src[-1:])).sum())
      M.cover('semi_lagrangian targets', 'outside departure range (constant extrapolation)', n_out)
      M.cover('semi_lagrangian targets', 'inside', int(K * nx * ny - n_out))
      for (nm, a), (_, o) in zip(leaves(st), leaves(out)):
        a = np.asarray(a, np.float64)
        if a.shape[0] == 1:
          M.same('semi_lagrangian_surface_fields_untouched', np.asarray(o), a, info=dict(info, field=nm))
          continue
        nod = np.asarray(grid.to_nodal(a), np.float64)
        ref_nod = R.interp_columns(cen, src, nod, 'constant')
        ref = np.asarray(grid.to_modal(ref_nod))
        M.close('semi_lagrangian_step_vs_ref', np.asarray(o), ref, TOL,
                scale=max(_amax(nod), 1e-300) * math.sqrt(nx * ny), info=dict(info, field=nm, dt=dt))
      done += 1
    # a vertically uniform field is left unchanged by any velocity
    uni = rm((1,), 1.0) * np.ones((K, 1, 1))
    st_u = pe.State(vorticity=st.vorticity, divergence=st.divergence, temperature_variation=uni,
                    log_surface_pressure=st.log_surface_pressure, tracers=st.tracers)
    out_u = step(st_u, dt)
    M.close('semi_lagrangian_keeps_vertically_uniform_fields', np.asarray(out_u.temperature_variation), uni, TOL,
            scale=_amax(uni) * math.sqrt(nx * ny), info=info)
    if done:
      M.nontrivial_global('semilag', [round(float(v), 12) for v in b])
  M.sample({'sigma_boundaries': b.tolist(), 'max_vertical_velocity': vmax})


# ----------------------------------------------------------------------------------------------
def _run_horiz(case, M):
  from dinosaur import horizontal_interpolation as hi  # pylint: disable=import-outside-toplevel
  rng = M.rng()

  def mk(spec):
    nlon, nlat, spacing, off = spec
    return gen.make_grid(gen.grid_cfg(1, 2, nlon, nlat, spacing, offset=off))

  src, dst = mk(case['src']), mk(case['dst'])
  info = {'src': case['src'], 'dst': case['dst']}
  lon_s, lat_s = np.asarray(src.longitudes, np.float64), np.asarray(src.latitudes, np.float64)
  lon_t, lat_t = np.asarray(dst.longitudes, np.float64), np.asarray(dst.latitudes, np.float64)
  ns, nt = tuple(src.nodal_shape), tuple(dst.nodal_shape)
  f = rng.standard_normal((2,) + ns) * 10.0 ** rng.uniform(-1, 2)
  cval = float(rng.uniform(-5, 5))
  const = np.full(ns, cval)
  fmax = _amax(f)
  equal = case['src'] == case['dst']
  for name, cls in (('bilinear', hi.BilinearRegridder), ('nearest', hi.NearestRegridder)):
    rg = cls(src, dst)
    out = np.asarray(rg(f), np.float64)
    M.check(f'{name}_regridder_output_shape', out.shape == (2,) + nt, info=dict(info, got=list(out.shape)))
    oc = np.asarray(rg(const), np.float64)
    M.close(f'{name}_regridder_reproduces_constants', oc, np.full(nt, cval), TOL, scale=abs(cval) + 1e-300, info=info)
    M.le(f'{name}_regridder_within_source_range', out.max(axis=(1, 2)), f.max(axis=(1, 2)), slack=TOL * fmax, info=info)
    M.le(f'{name}_regridder_within_source_range', -out.min(axis=(1, 2)), -f.min(axis=(1, 2)), slack=TOL * fmax, info=info)
    same = cls(src, src)
    o2 = np.asarray(same(f), np.float64)
    if name == 'nearest':
      # coincident points (pole rows) are ties between different sources: only other rows are pinned
      rows = np.abs(np.abs(lat_s) - np.pi / 2) > 1e-9
      M.close(f'{name}_regridder_identity_on_equal_grids', o2[:, :, rows], f[:, :, rows], TOL, scale=fmax, info=info)
    else:
      M.close(f'{name}_regridder_identity_on_equal_grids', o2, f, TOL, scale=fmax, info=info)
    if name == 'bilinear':
      # inside the source hull: the bilinear interpolant (latitude, then longitude)
      in_lat = (lat_t >= lat_s[0]) & (lat_t <= lat_s[-1])
      in_lon = (lon_t >= lon_s[0]) & (lon_t <= lon_s[-1])
      if in_lat.any() and in_lon.any():
        ref = np.zeros((2,) + nt)
        for k in range(2):
          tmp = np.zeros((ns[0], nt[1]))
          for i in range(ns[0]):
            tmp[i] = R.interp(lat_t, lat_s, f[k, i], 'constant')
          for j in range(nt[1]):
            ref[k, :, j] = R.interp(lon_t, lon_s, tmp[:, j], 'constant')
        sel = np.ix_([0, 1], np.nonzero(in_lon)[0], np.nonzero(in_lat)[0])
        M.close('bilinear_regridder_vs_bilinear_interpolant_inside_hull', out[sel], ref[sel], TOL, scale=fmax, info=info)
        M.cover('bilinear targets', 'inside source hull', int(in_lat.sum() * in_lon.sum()))
      M.cover('bilinear targets', 'outside source hull (only bounded)', int(nt[0] * nt[1] - in_lat.sum() * in_lon.sum()))
      # data affine in latitude is reproduced between the first and last source latitude
      aff = 1.5 + 0.7 * lat_s[None, :] * np.ones(ns)
      oa = np.asarray(rg(aff), np.float64)
      M.close('bilinear_regridder_affine_in_latitude', oa[:, in_lat], np.broadcast_to(1.5 + 0.7 * lat_t[None, :], nt)[:, in_lat], TOL,
              scale=3.0, info=info)
    else:
      # which source point was taken: feed the index field
      index_field = np.arange(ns[0] * ns[1], dtype=np.float64).reshape(ns)
      picked = np.asarray(rg(index_field)).astype(int)
      M.check('nearest_regridder_returns_a_source_value', bool(np.isin(out, f).all()), info=info)
      LO_s, LA_s = np.meshgrid(lon_s, lat_s, indexing='ij')
      LO_t, LA_t = np.meshgrid(lon_t, lat_t, indexing='ij')

      def gc(lo1, la1, lo2, la2):
        h = np.sin((la2 - la1) / 2) ** 2 + np.cos(la1) * np.cos(la2) * np.sin((lo2 - lo1) / 2) ** 2
        return 2 * np.arcsin(np.sqrt(np.clip(h, 0, 1)))

      dall = gc(LO_t.ravel()[:, None], LA_t.ravel()[:, None], LO_s.ravel()[None, :], LA_s.ravel()[None, :])
      dmin = dall.min(axis=1)
      dpick = dall[np.arange(dall.shape[0]), picked.ravel()]
      M.le('nearest_regridder_picks_a_great_circle_nearest_source', dpick, dmin, slack=1e-7, info=info)
  M.cover('grid pair', 'equal' if equal else 'different')
  M.cover('spacing(src,dst)', f"{case['src'][2]},{case['dst'][2]}")
  M.nontrivial_global('horiz', case['src'], case['dst'])
  M.sample({'source': case['src'], 'target': case['dst']})


def _run_horiz_siblings(case, M):
  for j, pr in enumerate(case['pairs']):
    _run_horiz(dict(case, **pr), M)
    M.cover('sibling_sequences', f"{case['id']}:{j}")


def run(case, M):
  {'1d': _run_1d, 'fields': _run_fields, 'semilag': _run_semilag, 'horiz': _run_horiz,
   'horiz_siblings': _run_horiz_siblings}[case['kind']](case, M)
