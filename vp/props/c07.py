"""C07 — sharded (model-parallel) execution equals single-device execution.

Differential monitor: the same data goes through the real API once on a Fast grid without a mesh
(no padding) and once on the Fast grid built on a (z, x, y) mesh of 8 virtual CPU devices
(padded layout); the oracle is  crop(sharded(pad(x))) == unsharded(x)  to 1e-10 relative, the
padding of results is exactly zero where the layout defines it so, and no padded array contains
a non-finite number.  See DESIGN.md §3 C07.

Case kinds (one case = one mesh shape x one workload):
  grid      Grid.to_nodal/to_modal/d_dlon (+clip_wavenumbers, inverse_laplacian, laplacian,
            cos_lat_grad/div/curl, mask) on 2-D, surface (1,.,.) and 3-D fields whose level
            count is / is not divisible by z; base_shape_multiple, stacked transforms, arg order
  cumsum    jax_numpy_utils.cumsum / reverse_cumsum along every axis of sharded arrays,
            sigma_coordinates.cumulative_sigma_integral with a z sharding
  einsum    jax_numpy_utils.sharded_einsum: transform patterns + generic patterns of the repo
            test x gather_inputs {None, True, False} x reverse_arg_order
  filters   exponential / diffusion / leapfrog step filters on padded (sharded) layouts
  implicit  implicit_terms (vertical_matmul_method None/dense/sparse) and implicit_inverse
            (split/stacked/blockwise) on even and uneven sigma levels
  model     2-3 filtered steps of dry / moist primitive equations (imex_rk_sil3, leapfrog)
  odd       meshes with an odd x or y > 1: the collectives document "axis size 1 or even";
            the call must either raise ValueError or return the right values
"""
from __future__ import annotations

import numpy as np

from vp import gen

RULE = ('cases = (mesh shape (z,x,y) on 8 virtual CPU devices) x (workload kind: grid ops, '
        'cumsum, sharded_einsum, step filters, implicit operators, model steps); quick = the 4 '
        'design meshes + one odd-z mesh (rotating with the seed) + a short seeded stream over '
        'all meshes, thorough = every mesh with z*x*y<=8, z in 1..8, x,y in {1,2,4,6,8} + a '
        'longer stream. A sub-case counts as non-trivial (key = kind, mesh, configuration) only '
        'if the mesh has >=2 devices and the input data is not constant along every sharded '
        'array axis; model cases additionally require that the unsharded run changed the state; '
        'uneven sigma levels are used in >= half of the z>1 implicit/model cases (table '
        'levels_z>1). Meshes with an odd x or y are rejection cases and never count.')
MIN_NONTRIVIAL = {'quick': 250, 'thorough': 1500}
REQUIRED_MONITORS = {'all': [
    'to_nodal_sharded_eq_unsharded', 'to_modal_sharded_eq_unsharded',
    'd_dlon_sharded_eq_unsharded', 'to_modal_exact_zero_outside_mask',
    'to_nodal_exact_zero_on_padding', 'clip_wavenumbers_sharded_eq_unsharded',
    'inverse_laplacian_sharded_eq_unsharded', 'cumsum_sharded_eq_numpy',
    'reverse_cumsum_sharded_eq_numpy', 'sharded_einsum_eq_numpy',
    'step_filter_padded_eq_unpadded', 'implicit_terms_sharded_eq_unsharded',
    'implicit_inverse_sharded_eq_unsharded', 'model_steps_sharded_eq_unsharded',
    'no_nonfinite_in_padded_arrays', 'odd_xy_mesh_rejected_or_correct']}
ASSUMPTIONS = [
    '8 virtual CPU devices (XLA_FLAGS=--xla_force_host_platform_device_count=8) stand for a real '
    'accelerator mesh: same SPMD program and collectives, different kernels',
    'reference = the same Fast spherical-harmonics implementation without a mesh and without '
    'padding (equivalence of Fast and Real is property C09, exactness of the transforms C01)',
    'an odd x or y mesh axis may be rejected with ValueError (documented by the collectives); '
    'if it is accepted the result must be right',
]
TIMEOUT = {'quick': 3600, 'thorough': 14400}   # watchdog only (the machine is shared)
TOL64, TOL32 = 1e-10, 3e-4

XY = (1, 2, 4, 6, 8)
QUICK_MESHES = [(2, 1, 1), (1, 2, 2), (2, 2, 2), (1, 4, 2)]
ODD_Z = [(3, 1, 1), (5, 1, 1), (7, 1, 1), (3, 2, 1), (3, 1, 2)]


def all_meshes():
  return [(z, x, y) for z in range(1, 9) for x in XY for y in XY if z * x * y <= 8]


def odd_xy_meshes():
  out = []
  for z in range(1, 9):
    for x in range(1, 9):
      for y in range(1, 9):
        if z * x * y <= 8 and ((x > 1 and x % 2) or (y > 1 and y % 2)):
          out.append((z, x, y))
  return out


_TREF_KINDS = ('random', 'cooling', 'linear', 'isothermal_top', 'plateau_cooling', 'tropopause', 'bump')


def _tref_kind(case):
  """Reference-profile class of a case (cycled deterministically over the classes, so that sign- or
  monotonicity-dependent branches of the vertical operators are all visited)."""
  from vp import core  # pylint: disable=import-outside-toplevel
  return _TREF_KINDS[core.crc(case['id']) % len(_TREF_KINDS)]


def _tag(ms):
  return 'm%d%d%d' % tuple(ms)


def _layers_for(z, k=None):
  """A level count divisible by z (4..8 levels; exactly one level per shard for z >= 5)."""
  if k is not None:
    return z * k
  return {1: 5, 2: 6, 3: 6, 4: 8}.get(z, z)


# --------------------------------------------------------------------------------------- cases
_ALL_FIELDS = ['2d', 'surface', '3d_div', '3d_nondiv']


def _grid_case(ms, cfg, bsm, stk, rev, env='f64x8', extra='', fields=None):
  z = ms[0]
  nd = _layers_for(z)
  nn = nd + 1 if z > 1 else 3
  g = dict(cfg, impl='fast', bsm=None, stk=stk, rev=rev)
  fields = list(fields or _ALL_FIELDS)
  return {'id': f'grid-{_tag(ms)}-{gen.grid_tag(g)}-b{bsm}{extra}', 'kind': 'grid', 'mesh': list(ms),
          'grid': g, 'bsm': bsm, 'nz_div': nd, 'nz_nondiv': nn, 'fields': fields, 'env': env,
          'cost': (3.0 + (1.0 if bsm == 8 or bsm is None else 0.0)) * (0.4 + 0.15 * len(fields))}


def _model_case(ms, eq, integ, uneven, bsm, M=8, steps=3, dt_min=15.0, filt='exp+diff', env='f64x8',
                extra='', layers=None):
  z, x, y = ms
  cfg = gen.with_wavenumbers_cfg(M, impl='fast')
  cfg.pop('factory')
  base = (11.0 if x * y > 1 else 5.0) if integ == 'sil3' else (4.5 if x * y > 1 else 2.0)
  cost = (base + (2.5 if integ == 'sil3' else 0.8)) * (1.25 if eq != 'dry' else 1.0) * (M / 8.0)
  return {'id': f'model-{_tag(ms)}-{eq}-{integ}-{"u" if uneven else "e"}-b{bsm}-T{M - 1}{extra}',
          'kind': 'model', 'mesh': list(ms), 'grid': cfg, 'bsm': bsm, 'eq': eq, 'integrator': integ,
          'uneven': bool(uneven), 'layers': layers or _layers_for(z), 'steps': steps,
          'dt_min': dt_min, 'filters': filt, 'env': env, 'cost': cost}


def _simple_case(kind, ms, cost, env='f64x8', **kw):
  d = {'id': f'{kind}-{_tag(ms)}' + ''.join(f'-{k[0]}{v}' for k, v in kw.items()
                                            if not isinstance(v, (dict, list))),
       'kind': kind, 'mesh': list(ms), 'env': env, 'cost': cost}
  d.update(kw)
  return d


_GRID_OPTS = [(1, False, False), (2, True, True), (8, None, None)]   # (bsm, stacked, reversed)
_SMALL = gen.grid_cfg(8, 9, 25, 13)


def _per_mesh_cases(ms, i, tier):
  """Structured list for one mesh."""
  z, x, y = ms
  out = []
  grids = [_SMALL, gen.grid_cfg(5, 7, 16, 9), gen.grid_cfg(6, 7, 12, 13, 'equiangular')]
  # quick: all four field shapes with the first option set, two each with the other two
  quick_fields = [None, ['2d', '3d_nondiv'], ['surface', '3d_div']]
  for k, (bsm, stk, rev) in enumerate(_GRID_OPTS):
    if tier == 'thorough':
      out.append(_grid_case(ms, grids[(i + k) % 3], bsm, stk, rev))
    else:
      out.append(_grid_case(ms, grids[k], bsm, stk, rev, fields=quick_fields[k]))
  out.append(_simple_case('cumsum', ms, 1.8))
  out.append(_simple_case('einsum', ms, 2.0 if tier == 'quick' else 3.5,
                          full=(tier == 'thorough')))
  out.append(_simple_case('filters', ms, 0.5, bsm=[1, 2, 8][i % 3]))
  out.append(_simple_case('filters', ms, 0.5, bsm=None, tagx='d'))
  for uneven in (False, True):
    out.append(_simple_case('implicit', ms, 1.5, uneven=uneven, bsm=[2, 8, 1][i % 3]))
  # models: uneven levels whenever z > 1 except for one of the leapfrog cases
  bs = [None, 1, 2, 8]
  if tier == 'quick':
    # budget: one SIL3 run on an x/y-sharded mesh ((2,2,2)), SIL3 + leapfrog on the z-only meshes,
    # leapfrog (a quarter of the collectives) on the other x/y-sharded meshes; 2 steps each
    plan = {0: [('moist', 'sil3', True), ('dry', 'leap', False)],          # (2,1,1)
            1: [('moist', 'leap', True)],                                  # (1,2,2)
            2: [('dry', 'sil3', True)],                                    # (2,2,2)
            3: [('dry', 'leap', True)],                                    # (1,4,2)
            4: [('moist', 'sil3', True)] + ([('dry', 'leap', True)] if x * y == 1 else [])}  # odd z
    for k, (eq, integ, uneven) in enumerate(plan[i]):
      out.append(_model_case(ms, eq, integ, uneven, bs[(i + k) % 4], steps=2))
  else:
    out.append(_model_case(ms, 'moist', 'sil3', True, bs[i % 4]))
    out.append(_model_case(ms, 'dry', 'sil3', z > 1 or i % 2 == 0, bs[(i + 1) % 4], filt='diff'))
    out.append(_model_case(ms, 'moist', 'leap', True, bs[(i + 2) % 4]))
    out.append(_model_case(ms, 'dry', 'leap', i % 2 == 0, bs[(i + 3) % 4]))
  return out


def _random_case(rng, ms, k, tier):
  z, x, y = ms
  kind = str(rng.choice(['grid', 'grid', 'cumsum', 'filters', 'implicit', 'model']
                        if tier == 'thorough' else ['grid', 'grid', 'filters', 'implicit', 'cumsum']))
  sfx = f'-r{k}'
  if kind == 'grid':
    cfg = gen.random_grid_cfg(rng, max_M=12, min_M=3, impl='fast',
                              spacing=str(rng.choice(['gauss', 'gauss', 'equiangular'])),
                              resolved=bool(rng.random() < 0.7), allow_options=False)
    cfg['radius'] = float(rng.choice([1.0, 3.5]))
    c = _grid_case(ms, cfg, [None, 1, 2, 4, 8][int(rng.integers(5))],
                   [None, True, False][int(rng.integers(3))], [None, True, False][int(rng.integers(3))],
                   extra=sfx)
    if z > 1:
      c['nz_div'] = _layers_for(z, int(rng.integers(1, 3)))
      c['nz_nondiv'] = c['nz_div'] + int(rng.integers(1, z))
    return c
  if kind == 'cumsum':
    return _simple_case('cumsum', ms, 1.8, sub=int(rng.integers(1 << 30)), tagx=sfx)
  if kind == 'filters':
    return _simple_case('filters', ms, 0.5, bsm=[None, 1, 2, 4, 8][int(rng.integers(5))],
                        sub=int(rng.integers(1 << 30)), tagx=sfx)
  if kind == 'implicit':
    return _simple_case('implicit', ms, 1.5, uneven=bool(rng.random() < 0.7),
                        bsm=[None, 1, 2, 8][int(rng.integers(4))], k=int(rng.integers(1, 3)),
                        sub=int(rng.integers(1 << 30)), tagx=sfx)
  M = int(rng.choice([6, 10, 12]))
  return _model_case(ms, str(rng.choice(['dry', 'moist'])), str(rng.choice(['sil3', 'leap'])),
                     bool(rng.random() < 0.75), [None, 1, 2, 8][int(rng.integers(4))], M=M,
                     steps=int(rng.integers(2, 4)), dt_min=float(rng.choice([10.0, 20.0])),
                     filt=str(rng.choice(['exp+diff', 'exp', 'diff'])), extra=sfx,
                     layers=_layers_for(z, 1 if z >= 4 else int(rng.integers(1, 3))) if z > 1 else int(rng.integers(3, 8)))


def cases(tier, seed):
  rng = np.random.default_rng([seed, 107])
  out = []
  if tier == 'quick':
    meshes = QUICK_MESHES + [ODD_Z[seed % len(ODD_Z)]]
  else:
    meshes = all_meshes()
  for i, ms in enumerate(meshes):
    out += _per_mesh_cases(ms, i, tier)
  if tier == 'quick':
    # axis sizes that are not a power of two (6 devices on x or y): the two-way collective
    # matmuls index their chunks modulo the axis size; op-level cases only (cheap)
    for ms in [(1, 6, 1), (1, 1, 6)]:
      out.append(_simple_case('einsum', ms, 2.0, full=False))
      out.append(_grid_case(ms, _SMALL, None, None, None, fields=['2d', '3d_nondiv']))
  # rejection cases: odd x or y
  odd = odd_xy_meshes()
  if tier == 'quick':
    odd = [odd[(2 * seed) % len(odd)], odd[(2 * seed + 5) % len(odd)]]
  for ms in odd:
    out.append(_simple_case('odd', ms, 1.0))
  # seeded stream over all meshes
  pool = [m for m in all_meshes() if m != (1, 1, 1)]
  n_rand = 6 if tier == 'quick' else 70
  for k in range(n_rand):
    ms = pool[int(rng.integers(len(pool)))]
    out.append(_random_case(rng, ms, k, tier))
  if tier == 'thorough':
    # a few larger model configurations (T21) on representative meshes
    for ms, eq, integ in [((2, 2, 2), 'moist', 'sil3'), ((1, 2, 4), 'dry', 'sil3'),
                          ((4, 2, 1), 'moist', 'leap'), ((8, 1, 1), 'moist', 'sil3'),
                          ((1, 8, 1), 'dry', 'leap'), ((1, 1, 8), 'moist', 'sil3')]:
      out.append(_model_case(ms, eq, integ, True, None, M=22, steps=2, dt_min=20.0, extra='-big'))
  # float32 "as shipped" pass
  f32 = [_grid_case((2, 2, 2), _SMALL, None, None, None, env='f32x8'),
         _grid_case((1, 4, 2), _SMALL, 2, True, True, env='f32x8'),
         _simple_case('einsum', (2, 2, 2), 2.0, env='f32x8', full=False),
         _simple_case('cumsum', (2, 2, 2), 1.8, env='f32x8'),
         _simple_case('implicit', (2, 2, 2), 1.5, env='f32x8', uneven=True, bsm=None),
         _simple_case('filters', (1, 2, 2), 0.5, env='f32x8', bsm=None),
         _model_case((2, 1, 1), 'moist', 'leap', True, None, env='f32x8', steps=2)]
  if tier == 'thorough':
    f32 += [_model_case((2, 2, 2), 'moist', 'sil3', True, None, env='f32x8'),
            _model_case((4, 1, 2), 'dry', 'leap', True, 8, env='f32x8'),
            _model_case((1, 4, 2), 'moist', 'sil3', False, 2, env='f32x8'),
            _grid_case((3, 1, 2), _SMALL, 1, False, False, env='f32x8'),
            _simple_case('einsum', (1, 4, 2), 2.0, env='f32x8', full=False),
            _simple_case('implicit', (4, 2, 1), 1.5, env='f32x8', uneven=True, bsm=8)]
  for c in f32:
    c['id'] = 'f32-' + c['id']
  out += f32
  return out


# --------------------------------------------------------------------------------------- helpers
_MESHES: dict = {}


def _mesh(ms):
  import jax  # pylint: disable=import-outside-toplevel
  from vp import core  # pylint: disable=import-outside-toplevel
  ms = tuple(int(v) for v in ms)
  if ms not in _MESHES:
    n = int(np.prod(ms))
    devs = jax.devices()
    if len(devs) < n:
      raise core.HarnessError(f'need {n} devices, have {len(devs)}')
    _MESHES[ms] = jax.sharding.Mesh(np.array(devs[:n]).reshape(ms), ['z', 'x', 'y'])
  return _MESHES[ms]


def _pad_last2(a, shape2):
  a = np.asarray(a)
  out = np.zeros(a.shape[:-2] + tuple(shape2), a.dtype)
  out[..., :a.shape[-2], :a.shape[-1]] = a
  return out


def _crop_last2(a, shape2):
  return np.asarray(a)[..., :shape2[0], :shape2[1]]


def _outside(a, shape2):
  """Copy of `a` with the leading (shape2) block of the last two axes zeroed: only padding left."""
  b = np.array(a)
  b[..., :shape2[0], :shape2[1]] = 0
  return b


def _amax(a):
  a = np.asarray(a)
  return float(np.max(np.abs(a))) if a.size else 0.0


def _varies(a, axis):
  a = np.asarray(a)
  return a.shape[axis] > 1 and bool(np.ptp(a, axis=axis).max() > 0)


def _tols(M):
  f64 = M.env.startswith('f64')
  return f64, (TOL64 if f64 else TOL32), (np.float64 if f64 else np.float32)


def _put(x, mesh, spec):
  import jax  # pylint: disable=import-outside-toplevel
  return jax.device_put(x, jax.sharding.NamedSharding(mesh, spec))


def _dycore_put(a, mesh):
  """device_put with the dycore layout (z,x,y) when the shape allows it, else replicated."""
  import jax  # pylint: disable=import-outside-toplevel
  P = jax.sharding.PartitionSpec
  a = np.asarray(a)
  z, x, y = (mesh.shape[k] for k in 'zxy')
  if a.ndim == 2 and a.shape[0] % x == 0 and a.shape[1] % y == 0:
    return _put(a, mesh, P('x', 'y'))
  if a.ndim == 3 and a.shape[1] % x == 0 and a.shape[2] % y == 0:
    if a.shape[0] == 1:
      return _put(a, mesh, P(None, 'x', 'y'))
    if a.shape[0] % z == 0:
      return _put(a, mesh, P('z', 'x', 'y'))
    return _put(a, mesh, P(None, 'x', 'y'))
  return a


def _nontrivial(M, ms, ok, *key):
  if int(np.prod(ms)) >= 2 and ok:
    M.nontrivial_global(*key)


def _leaves(tree):
  import jax  # pylint: disable=import-outside-toplevel
  return [np.asarray(v) for v in jax.tree_util.tree_leaves(tree)]


def _state_names(state):
  """[(name, array)] of a State / StateWithTime / tuple of them, tracers in sorted key order
  (jit returns dictionaries with sorted keys, eager code keeps insertion order)."""
  if isinstance(state, tuple):
    out = []
    for i, s in enumerate(state):
      out += [(f'[{i}].{n}', v) for n, v in _state_names(s)]
    return out
  d = state.asdict() if hasattr(state, 'asdict') else dict(state)
  out = []
  for k in sorted(d):
    v = d[k]
    if isinstance(v, dict):
      out += [(f'{k}.{kk}', v[kk]) for kk in sorted(v)]
    else:
      out.append((k, v))
  return out


def _compare_states(M, name, got, want, shape2, tol, info, floor_scale=0.0):
  """Leaf-wise crop(got) == want, scale = max|want leaf|; returns worst relative residual."""
  worst = 0.0
  for (n, g), (_, w) in zip(_state_names(got), _state_names(want)):
    g, w = np.asarray(g), np.asarray(w)
    if g.ndim >= 2:
      g = _crop_last2(g, shape2)
    sc = max(_amax(w), floor_scale)
    M.close(name, g, w, tol, scale=sc if sc > 0 else None, info=dict(info, leaf=n))
    if sc > 0 and g.shape == w.shape:
      worst = max(worst, float(np.abs(g.astype(np.float64) - w).max()) / sc)
  return worst


def _pad_state(state, shape2):
  from dinosaur import pytree_utils as pu  # pylint: disable=import-outside-toplevel
  return pu.tree_map_over_nonscalars(lambda a: _pad_last2(a, shape2), state, backend='numpy')


# --------------------------------------------------------------------------------------- grid ops
def _run_grid(case, M):
  import jax  # pylint: disable=import-outside-toplevel
  f64, tol, dt = _tols(M)
  ms = tuple(case['mesh'])
  z, x, y = ms
  mesh = _mesh(ms)
  rng = M.rng()
  cfg0 = dict(case['grid'])
  g0 = gen.make_grid(cfg0)
  g = gen.make_grid(dict(cfg0, bsm=case['bsm']), mesh=mesh)
  m0, n0 = tuple(g0.modal_shape), tuple(g0.nodal_shape)
  m1, n1 = tuple(g.modal_shape), tuple(g.nodal_shape)
  info = {'mesh': ms, 'grid': cfg0, 'bsm': case['bsm'], 'modal_shape': m1, 'nodal_shape': n1}
  M.cover('grid_mesh', str(ms))
  M.cover('grid_options', {k: case['grid'].get(k) for k in ('stk', 'rev')} | {'bsm': case['bsm']})
  M.cover('padding', 'modal+%d,%d nodal+%d,%d' % (m1[0] - m0[0], m1[1] - m0[1], n1[0] - n0[0], n1[1] - n0[1]))

  # ---- layout facts the sharded transforms rely on (documented in the class)
  M.check('layout_divisible_by_mesh',
          m1[0] % (2 * x) == 0 and m1[1] % y == 0 and n1[0] % x == 0 and n1[1] % y == 0
          and m1[0] >= m0[0] and m1[1] >= m0[1] and n1[0] >= n0[0] and n1[1] >= n0[1], info=info)
  mask = np.asarray(g.mask)
  M.check('mask_sharded_eq_padded_unsharded_mask',
          np.array_equal(mask, _pad_last2(np.asarray(g0.mask), m1)), info=info)
  M.same('modal_axes_crop', _crop_last2(np.asarray(g.modal_mesh[1]), m0), np.asarray(g0.modal_mesh[1]))
  eig = np.asarray(g.laplacian_eigenvalues)
  M.close('laplacian_eigenvalues_crop', eig[:m0[1]], np.asarray(g0.laplacian_eigenvalues), 1e-15)
  for nm, arr in (('f', g.spherical_harmonics.basis.f), ('p', g.spherical_harmonics.basis.p),
                  ('w', g.spherical_harmonics.basis.w), ('mask', g.mask)):
    M.watch(f'{nm}:{case["id"]}', arr)

  def bundle(gr):
    """All monitored Grid operations as one jitted function (one compile per field shape)."""
    def f(a, b, zz):
      out = {'to_nodal': gr.to_nodal(a), 'to_modal': gr.to_modal(zz), 'd_dlon': gr.d_dlon(a),
             'inverse_laplacian': gr.inverse_laplacian(a), 'laplacian': gr.laplacian(a)}
      for n in (1, 2):
        if n < gr.total_wavenumbers:
          out[f'clip{n}'] = gr.clip_wavenumbers(a, n)
      for clip in (True, False):
        out[f'grad{int(clip)}'] = gr.cos_lat_grad(a, clip=clip)
        out[f'div{int(clip)}'] = gr.div_cos_lat((a, b), clip=clip)
        out[f'curl{int(clip)}'] = gr.curl_cos_lat((a, b), clip=clip)
      return out
    return jax.jit(f)

  F1, F0 = bundle(g), bundle(g0)
  leads = [('2d', ()), ('surface', (1,)), ('3d_div', (case['nz_div'],)),
           ('3d_nondiv', (case['nz_nondiv'],))]
  leads = [l for l in leads if l[0] in case.get('fields', _ALL_FIELDS)]
  for lname, lead in leads:
    inf = dict(info, field=lname, lead=lead)
    xm = gen.rand_modal(rng, g0, lead, dtype=dt)          # dense non-decaying spectra
    ym = gen.rand_modal(rng, g0, lead, dtype=dt)
    zn = rng.standard_normal(lead + n0).astype(dt)        # arbitrary (not band-limited) nodal data
    xp, yp, zp = _pad_last2(xm, m1), _pad_last2(ym, m1), _pad_last2(zn, n1)
    put = lambda a: _dycore_put(a, mesh)
    got = jax.tree_util.tree_map(np.asarray, F1(put(xp), put(yp), put(zp)))
    ref = jax.tree_util.tree_map(np.asarray, F0(xm, ym, zn))
    for op, arr in got.items():
      M.finite('no_nonfinite_in_padded_arrays', arr, info=dict(inf, op=op))
    # -- synthesis
    nod = got['to_nodal']
    M.check('result_shape', nod.shape == lead + n1, info=dict(inf, op='to_nodal', got=nod.shape))
    M.close('to_nodal_sharded_eq_unsharded', _crop_last2(nod, n0), ref['to_nodal'], tol,
            scale=_amax(ref['to_nodal']) or None, info=inf)
    if n1 != n0:
      M.zero('to_nodal_exact_zero_on_padding', _outside(nod, n0), info=inf)
    # -- analysis
    mod = got['to_modal']
    M.check('result_shape', mod.shape == lead + m1, info=dict(inf, op='to_modal', got=mod.shape))
    M.close('to_modal_sharded_eq_unsharded', _crop_last2(mod, m0), ref['to_modal'], tol,
            scale=_amax(ref['to_modal']) or None, info=inf)
    M.zero('to_modal_exact_zero_outside_mask', mod[..., ~mask], info=inf)
    # -- longitude derivative
    dl = got['d_dlon']
    M.check('result_shape', dl.shape == lead + m1, info=dict(inf, op='d_dlon', got=dl.shape))
    M.close('d_dlon_sharded_eq_unsharded', _crop_last2(dl, m0), ref['d_dlon'], tol,
            scale=_amax(ref['d_dlon']) or None, info=inf)
    if m1 != m0:
      M.zero('d_dlon_exact_zero_on_padding', _outside(dl, m0), info=inf)
    # -- padding / masked entries of the inputs never influence resolved values
    xg = xp + np.where(mask, 0, 1e3 * rng.standard_normal(xp.shape)).astype(dt)
    zg = zp + _outside(1e3 * rng.standard_normal(zp.shape), n0).astype(dt)
    got_g = F1(put(xg), put(yp), put(zg))
    # (products with the zero padding of the basis are exact zeros, so rounding level is generous)
    M.close('to_nodal_ignores_masked_and_padded_input', np.asarray(got_g['to_nodal']), nod,
            1e-13 if f64 else 1e-5, scale=_amax(nod) or None, info=inf)
    if n1 != n0:
      M.close('to_modal_ignores_padded_nodes', np.asarray(got_g['to_modal']), mod,
              1e-13 if f64 else 1e-5, scale=_amax(mod) or None, info=inf)
    # -- pointwise spectral operators on the padded layout, fed with sharded arrays
    tight = 1e-12 if f64 else 1e-5      # pointwise multiplications by identical constants (floor 0)
    for n in (1, 2):
      if f'clip{n}' in got:
        c1, c0 = got[f'clip{n}'], ref[f'clip{n}']
        M.close('clip_wavenumbers_sharded_eq_unsharded', _crop_last2(c1, m0), c0, tight,
                scale=_amax(c0) or None, info=dict(inf, n=n))
        M.zero('clip_wavenumbers_zero_on_top_and_padding', c1[..., m0[1] - n:], info=dict(inf, n=n))
    for op in ('inverse_laplacian', 'laplacian'):
      M.close(f'{op}_sharded_eq_unsharded', _crop_last2(got[op], m0), ref[op], tight,
              scale=_amax(ref[op]) or None, info=inf)
    if m1 != m0:
      M.zero('inverse_laplacian_zero_on_padding', _outside(got['inverse_laplacian'], m0), info=inf)
    # -- first-order operators built from d_dlon + shifts along l (crop only when unclipped: the
    #    unclipped operators carry the documented artefact in the first padded column)
    for clip in (1, 0):
      pairs = list(zip(got[f'grad{clip}'], ref[f'grad{clip}'])) + [
          (got[f'div{clip}'], ref[f'div{clip}']), (got[f'curl{clip}'], ref[f'curl{clip}'])]
      for g_, w_ in pairs:
        M.close('grad_div_curl_sharded_eq_unsharded', _crop_last2(g_, m0), w_, tol,
                scale=_amax(w_) or None, info=dict(inf, clip=bool(clip)))
        if clip and m1 != m0:
          M.zero('clipped_operator_zero_on_padding', _outside(g_, m0), info=inf)
    # non-triviality: data varies along every axis that is actually split over devices
    ok = (x == 1 or (_varies(xm, -2) and _varies(zn, -2))) and (y == 1 or (_varies(xm, -1) and _varies(zn, -1)))
    if z > 1 and lname.startswith('3d'):
      ok = ok and _varies(xm, 0)
    split = x * y > 1 or (z > 1 and lname.startswith('3d'))
    M.cover('grid_fields', f'{lname}:z{z}:levels{lead[0] if lead else "-"}')
    _nontrivial(M, ms, ok and split, 'grid', ms, cfg0, case['bsm'], lname, lead)
  # pytree input (dict of fields of different rank) goes through the same sharded path
  tree = {'a': _pad_last2(gen.rand_modal(rng, g0, (case['nz_div'],), dtype=dt), m1),
          'b': (_pad_last2(gen.rand_modal(rng, g0, (1,), dtype=dt), m1), 2.5)}
  out = jax.jit(g.to_nodal)(tree)
  M.close('to_nodal_sharded_eq_unsharded', _crop_last2(out['a'], n0),
          np.asarray(g0.to_nodal(_crop_last2(tree['a'], m0))), tol, info=dict(info, field='pytree'))
  M.check('pytree_scalar_untouched', float(out['b'][1]) == 2.5)
  M.sample({'kind': 'grid', 'mesh': ms, 'grid': cfg0, 'bsm': case['bsm'], 'modal_shape': m1,
            'nodal_shape': n1, 'levels': [case['nz_div'], case['nz_nondiv']]})


# --------------------------------------------------------------------------------------- cumsum
def _np_cumsum(a, axis, reverse):
  a = np.asarray(a, np.float64)
  if reverse:
    return np.flip(np.cumsum(np.flip(a, axis), axis), axis)
  return np.cumsum(a, axis)


def _run_cumsum(case, M):
  import jax  # pylint: disable=import-outside-toplevel
  from dinosaur import jax_numpy_utils as jnu, sigma_coordinates as sc  # pylint: disable=import-outside-toplevel
  P = jax.sharding.PartitionSpec
  f64, tol, dt = _tols(M)
  ms = tuple(case['mesh'])
  z, x, y = ms
  mesh = _mesh(ms)
  rng = M.rng()
  ka, kb, kc = (int(v) for v in rng.integers(1, 4, 3))
  arrays = [
      ('3d', (z * ka, x * kb, y * kc), P('z', 'x', 'y')),
      ('3d_one_per_shard', (z, x, y * 2), P('z', 'x', 'y')),
      ('3d_z_only', (z * 2, 3, 5), P('z', None, None)),
      ('2d', (x * 2 * kb, y * kc), P('x', 'y')),
      ('1d', (z * 3,), P('z')),
  ]
  for aname, shape, spec in arrays:
    a = rng.standard_normal(shape).astype(dt)
    shd = jax.sharding.NamedSharding(mesh, spec)
    ad = jax.device_put(a, shd)
    for axis in list(range(len(shape))) + list(range(-len(shape), 0)):
      na = axis % len(shape)
      name_ax = spec[na]
      nshards = mesh.shape[name_ax] if name_ax is not None else 1
      # finding F10 (fixed in /repo, commit 1badcb3): the gathered per-shard totals used to be
      # concatenated along array axis 0, so the parallel path was only right when the summed axis
      # was the leading one.  Fixed entries suppress nothing; every sharded axis is asserted.
      for reverse in (False, True):
        fn = jnu.reverse_cumsum if reverse else jnu.cumsum
        got = np.asarray(fn(ad, axis, sharding=shd))
        want = _np_cumsum(a, axis, reverse)
        inf = {'mesh': ms, 'array': aname, 'shape': shape, 'spec': str(spec), 'axis': axis,
               'shards_along_axis': nshards}
        M.finite('no_nonfinite_in_padded_arrays', got, info=dict(inf, op='cumsum'))
        M.close('reverse_cumsum_sharded_eq_numpy' if reverse else 'cumsum_sharded_eq_numpy',
                got, want, tol, scale=max(_amax(want), 1.0), info=inf)
        M.cover('cumsum', f'{"reverse" if reverse else "forward"}:axis{"0" if na == 0 else ">0"}:'
                f'{"sharded" if nshards > 1 else ("named,1 shard" if name_ax else "unsharded")}')
        _nontrivial(M, ms, nshards > 1 and _varies(a, na), 'cumsum', ms, aname, shape, axis, reverse)
      # method='jax' ignores the sharding argument and must agree as well
      got = np.asarray(jnu.cumsum(ad, axis, method='jax', sharding=shd))
      M.close('cumsum_method_jax_on_sharded_input', got, _np_cumsum(a, axis, False), tol,
              scale=max(_amax(a) * shape[na], 1.0))
  # public vertical integrals with a z sharding, uneven levels
  nl = _layers_for(z)
  coords = gen.make_sigma(gen.sigma_boundaries(rng, nl, uneven=True))
  thick = np.asarray(coords.layer_thickness)
  shd = jax.sharding.NamedSharding(mesh, P('z', 'x', 'y'))
  a = rng.standard_normal((nl, 2 * x, 3 * y)).astype(dt)
  ad = jax.device_put(a, shd)
  for downward in (True, False):
    got = np.asarray(sc.cumulative_sigma_integral(ad, coords, downward=downward, sharding=shd))
    want = _np_cumsum(a * thick[:, None, None], 0, not downward)
    M.close('cumulative_sigma_integral_sharded_eq_numpy', got, want, tol, scale=max(_amax(want), 1e-3),
            info={'mesh': ms, 'levels': nl, 'downward': downward})
    _nontrivial(M, ms, z > 1 and _varies(a, 0), 'sigma_integral', ms, nl, downward)
  M.sample({'kind': 'cumsum', 'mesh': ms, 'arrays': [(n, s, str(p)) for n, s, p in arrays]})


# --------------------------------------------------------------------------------------- einsum
def _einsum_patterns(ms, full):
  """(name, subscripts, rhs_spec, out_spec, reduce mesh axis) for mesh (z,x,y)."""
  Z, X, Y = 'z', 'x', 'y'
  pats = [
      ('inverse_legendre', 'mjl,zsml->zsmj', (Z, None, X, Y), (Z, None, X, Y), 'y'),
      ('inverse_fourier_stacked', 'ism,zsmj->zij', (Z, None, X, Y), (Z, X, Y), 'x'),
      ('forward_fourier_stacked', 'ism,zij->zsmj', (Z, X, Y), (Z, None, X, Y), 'x'),
      ('forward_legendre', 'mjl,zsmj->zsml', (Z, None, X, Y), (Z, None, X, Y), 'y'),
      ('inverse_fourier_unstacked', 'im,zmj->zij', (Z, X, Y), (Z, X, Y), 'x'),
      ('forward_fourier_unstacked', 'im,zij->zmj', (Z, X, Y), (Z, X, Y), 'x'),
      ('matmul_ij_jk', 'ij,jk->ik', (X, Y), (X, Y), 'x'),
      ('vertical_matvec', 'gh,hml->gml', (Z, X, Y), (Z, X, Y), 'z'),
      ('vertical_matvec_per_wavenumber', 'lgh,hml->gml', (Z, X, Y), (Z, X, Y), 'z'),
  ]
  if full:
    pats += [
        ('inverse_legendre_2d', 'mjl,sml->smj', (None, X, Y), (None, X, Y), 'y'),
        ('inverse_fourier_stacked_2d', 'ism,smj->ij', (None, X, Y), (X, Y), 'x'),
        ('forward_fourier_stacked_2d', 'ism,ij->smj', (X, Y), (None, X, Y), 'x'),
        ('forward_legendre_2d', 'mjl,smj->sml', (None, X, Y), (None, X, Y), 'y'),
        ('inverse_legendre_surface', 'mjl,zsml->zsmj', (None, None, X, Y), (None, None, X, Y), 'y'),
        ('forward_fourier_surface', 'ism,zij->zsmj', (None, X, Y), (None, None, X, Y), 'x'),
        ('matmul_ij_jk_yx', 'ij,jk->ik', (Y, X), (Y, X), 'y'),
    ]
  return pats


def _run_einsum(case, M):
  import jax  # pylint: disable=import-outside-toplevel
  from dinosaur import jax_numpy_utils as jnu  # pylint: disable=import-outside-toplevel
  P = jax.sharding.PartitionSpec
  f64, tol, dt = _tols(M)
  ms = tuple(case['mesh'])
  z, x, y = ms
  mesh = _mesh(ms)
  rng = M.rng()
  for pname, sub, rhs_spec, out_spec, red in _einsum_patterns(ms, case.get('full', False)):
    lhs_s, rest = sub.split(',')
    rhs_s, out_s = rest.split('->')
    ka, kb = (int(v) for v in rng.integers(1, 3, 2))
    surface = pname.endswith('surface')
    dims = {'m': x * (1 + ka), 'j': y * (1 + kb), 'l': y * (2 + ka), 'i': x * (2 + kb),
            'z': 1 if surface else z * ka, 's': 2, 'g': z * (1 + kb), 'h': z * (1 + kb), 'k': y * 3}
    if sub.startswith('ij,jk'):
      a1, a2 = rhs_spec
      dims.update({'i': mesh.shape[a1] * 2, 'j': mesh.shape[a1] * (1 + ka), 'k': mesh.shape[a2] * (1 + kb)})
    lhs = rng.standard_normal([dims[c] for c in lhs_s]).astype(dt)
    rhs = rng.standard_normal([dims[c] for c in rhs_s]).astype(dt)
    want = np.einsum(sub, lhs.astype(np.float64), rhs.astype(np.float64))
    nred = mesh.shape[red]
    odd = nred > 1 and nred % 2 == 1
    red_letter = [c for c in lhs_s if c in rhs_s and c not in out_s and rhs_spec[rhs_s.index(c)] is not None][0]
    nterms = int(np.prod([dims[c] for c in lhs_s if c not in out_s]))
    scale = max(_amax(want), 1.0)
    rhs_d = jax.device_put(rhs, jax.sharding.NamedSharding(mesh, P(*rhs_spec)))
    variants = [(gather, rev) for gather in (None, True, False) for rev in (False, True)]

    def one(r, gather, rev):
      return jnu.sharded_einsum(sub, lhs, r, gather_inputs=gather, reverse_arg_order=rev, mesh=mesh,
                                rhs_spec=P(*rhs_spec), out_spec=P(*out_spec))

    inf0 = {'mesh': ms, 'pattern': pname, 'subscripts': sub, 'lhs': lhs.shape, 'rhs': rhs.shape,
            'reduce_axis': red, 'reduce_shards': nred}
    if odd:
      for gather, rev in variants:
        _reject_or_correct(M, 'odd_z_reduction_rejected_or_correct',
                           lambda g_=gather, r_=rev: one(rhs_d, g_, r_), want, tol, scale,
                           dict(inf0, gather_inputs=gather, reverse_arg_order=rev))
      M.cover('einsum_odd_reduce_axis', f'{pname}:{red}{nred}')
      continue
    # the six variants are traced into one jitted program (one XLA compile per pattern)
    outs = jax.jit(lambda r: [one(r, g_, r_) for g_, r_ in variants])(rhs_d)
    for (gather, rev), got in zip(variants, outs):
      got = np.asarray(got)
      inf = dict(inf0, gather_inputs=gather, reverse_arg_order=rev)
      M.finite('no_nonfinite_in_padded_arrays', got, info=dict(inf, op='sharded_einsum'))
      M.close('sharded_einsum_eq_numpy', got, want, tol if f64 else tol * max(1.0, nterms ** 0.5 / 4),
              scale=scale, info=inf)
      strategy = 'direct(1 shard)' if nred == 1 else (
          'gather' if gather else 'scatter' if gather is False else 'auto')
      M.cover('einsum', f'{pname}:{strategy}:rev={int(rev)}')
      M.cover('einsum_reduce_shards', f'{red}={nred}')
      _nontrivial(M, ms, nred > 1 and _varies(rhs, rhs_s.index(red_letter)),
                  'einsum', ms, pname, gather, rev, lhs.shape, rhs.shape)
  M.sample({'kind': 'einsum', 'mesh': ms, 'patterns': [p[1] for p in _einsum_patterns(ms, case.get('full', False))]})


def _reject_or_correct(M, name, call, want, tol, scale, info):
  """The call either raises ValueError (documented restriction) or returns the right values."""
  try:
    got = call()
  except ValueError as e:
    M.check(name, True)
    M.cover('rejections', f'ValueError: {str(e)[:60]}')
    return 'rejected'
  except Exception as e:  # pylint: disable=broad-except
    M.check(name, False, info=dict(info, raised=f'{type(e).__name__}: {e}'[:300]))
    return 'error'
  if want is None:
    M.check(name, True)
    M.cover('rejections', 'accepted (no reference)')
    return 'accepted'
  got = np.asarray(got)
  if got.shape != np.shape(want) and got.ndim >= 2:
    got = _crop_last2(got, np.shape(want)[-2:])
  M.close(name, got, want, tol, scale=scale, info=dict(info, outcome='accepted'))
  M.cover('rejections', 'accepted and compared')
  return 'accepted'


# --------------------------------------------------------------------------------------- filters
def _run_filters(case, M):
  import jax  # pylint: disable=import-outside-toplevel
  from dinosaur import filtering, time_integration as ti, primitive_equations as pe  # pylint: disable=import-outside-toplevel
  f64, tol, dt_ = _tols(M)
  ms = tuple(case['mesh'])
  z, x, y = ms
  mesh = _mesh(ms)
  rng = M.rng(case.get('sub', 0))
  cfg0 = dict(_SMALL, impl='fast')
  if case.get('sub'):
    cfg0 = gen.random_grid_cfg(rng, max_M=10, min_M=3, impl='fast', spacing='gauss', allow_options=False)
  g0 = gen.make_grid(cfg0)
  g = gen.make_grid(dict(cfg0, bsm=case['bsm']), mesh=mesh)
  m0, m1 = tuple(g0.modal_shape), tuple(g.modal_shape)
  nl = _layers_for(z)
  tol_f = 1e-12 if f64 else TOL32     # pointwise multiplications; measured floor 2e-16 / 1.2e-7

  def state(with_time=True):
    kw = dict(vorticity=gen.rand_modal(rng, g0, (nl,), dtype=dt_),
              divergence=gen.rand_modal(rng, g0, (nl,), dtype=dt_),
              temperature_variation=gen.rand_modal(rng, g0, (nl,), dtype=dt_),
              log_surface_pressure=gen.rand_modal(rng, g0, (1,), dtype=dt_),
              tracers={'q': gen.rand_modal(rng, g0, (nl,), dtype=dt_), 'flat': gen.rand_modal(rng, g0, (), dtype=dt_)})
    return pe.StateWithTime(sim_time=dt_(1.5), **kw) if with_time else pe.State(**kw)

  def put(st):
    return jax.tree_util.tree_map(lambda a: _dycore_put(a, mesh) if np.ndim(a) else a, _pad_state(st, m1))

  step = 0.17
  tau = float(rng.uniform(0.01, 0.5))
  order = int(rng.choice([1, 2, 3]))
  makers = [
      ('exponential_step_filter', lambda gr: ti.exponential_step_filter(gr, step), 'rk'),
      ('exponential_step_filter(cutoff)', lambda gr: ti.exponential_step_filter(gr, step, tau=tau, order=6, cutoff=0.4), 'rk'),
      ('horizontal_diffusion_step_filter', lambda gr: ti.horizontal_diffusion_step_filter(gr, step, tau=tau, order=order), 'rk'),
      ('horizontal_diffusion_step_filter(order1)', lambda gr: ti.horizontal_diffusion_step_filter(gr, step, tau=8 * step), 'rk'),
      ('exponential_leapfrog_step_filter', lambda gr: ti.exponential_leapfrog_step_filter(gr, step, tau=tau, order=4), 'leap'),
      ('leapfrog_step_filter(diffusion)', lambda gr: ti.leapfrog_step_filter(filtering.horizontal_diffusion_filter(gr, 0.01, 2)), 'leap'),
      ('robert_asselin_leapfrog_filter', lambda gr: ti.robert_asselin_leapfrog_filter(0.05), 'leap'),
      ('filtering.exponential_filter', lambda gr: (lambda u, un: filtering.exponential_filter(gr, 8.0, 3, 0.2)(un)), 'rk'),
  ]
  for fname, mk, style in makers:
    u, un = state(), state()
    if style == 'leap':
      a0, b0 = (u, un), (un, state())
      a1, b1 = (put(u), put(un)), (put(un), put(b0[1]))
    else:
      a0, b0, a1, b1 = u, un, put(u), put(un)
    inf = {'mesh': ms, 'filter': fname, 'grid': cfg0, 'bsm': case['bsm'], 'modal_shape': m1, 'tau': tau, 'order': order}
    f1 = mk(g)
    f0 = mk(g0)
    got = jax.jit(f1)(a1, b1)
    want = f0(a0, b0)
    M.finite('no_nonfinite_in_padded_arrays', got, info=dict(inf, op='step filter'))
    _compare_states(M, 'step_filter_padded_eq_unpadded', got, want, m0, tol_f, inf)
    for n, v in _state_names(got):
      v = np.asarray(v)
      if v.ndim >= 2 and m1 != m0:
        M.zero('step_filter_keeps_padding_zero', _outside(v, m0), info=dict(inf, leaf=n))
    M.cover('filters', f'{fname}:padded={m1 != m0}')
    _nontrivial(M, ms, m1 != m0 or int(np.prod(ms)) > 1, 'filter', ms, fname, cfg0, case['bsm'])
  M.sample({'kind': 'filters', 'mesh': ms, 'grid': cfg0, 'bsm': case['bsm'], 'modal_shape': m1})


# --------------------------------------------------------------------------------------- implicit
def _run_implicit(case, M):
  import jax  # pylint: disable=import-outside-toplevel
  from vp import model  # pylint: disable=import-outside-toplevel
  from dinosaur import scales  # pylint: disable=import-outside-toplevel
  f64, tol, dt_ = _tols(M)
  ms = tuple(case['mesh'])
  z, x, y = ms
  mesh = _mesh(ms)
  rng = M.rng(case.get('sub', 0))
  specs = model.make_specs()
  cfg0 = dict(_SMALL, impl='fast')
  nl = _layers_for(z, case.get('k'))
  uneven = bool(case['uneven'])
  bnd = gen.sigma_boundaries(rng, nl, uneven=uneven)
  c0 = model.make_coords(cfg0, bnd, specs)
  c1 = model.make_coords(dict(cfg0, bsm=case['bsm']), bnd, specs, mesh=mesh)
  g0, g1 = c0.horizontal, c1.horizontal
  m0, m1 = tuple(g0.modal_shape), tuple(g1.modal_shape)
  si = model.phys_state_si(rng, g0, nl, decay=0.0)       # flat spectrum: every (m,l) matters
  st0 = model.to_state(si, specs, dtype=dt_)
  st1 = jax.tree_util.tree_map(lambda a: _dycore_put(a, mesh), _pad_state(st0, m1))
  tref = model.tref_profile(rng, nl, kind=_tref_kind(case))
  oro0 = np.zeros(m0, dt_)
  eta = float(specs.nondimensionalize(float(rng.choice([10.0, 20.0, 40.0])) * scales.units.minute))
  if not f64:
    eta = min(eta, 0.3)
  eq0 = model.make_eq('dry', tref, oro0, c0, specs)
  inf0 = {'mesh': ms, 'levels': nl, 'uneven': uneven, 'bsm': case['bsm'], 'modal_shape': m1, 'eta': eta,
          'boundaries': [round(float(b), 6) for b in bnd]}
  M.cover('levels_z>1' if z > 1 else 'levels_z=1', 'uneven' if uneven else 'even')
  varies = _varies(st0.divergence, 0) and _varies(st0.temperature_variation, 0)

  ref_terms = {vm: jax.jit(model.make_eq('dry', tref, oro0, c0, specs, vertical_matmul_method=vm).implicit_terms)(st0)
               for vm in (None, 'sparse')}
  for vm in (None, 'dense', 'sparse'):
    eq1 = model.make_eq('dry', tref, _pad_last2(oro0, m1), c1, specs, vertical_matmul_method=vm)
    got = jax.jit(eq1.implicit_terms)(st1)
    inf = dict(inf0, op='implicit_terms', vertical_matmul_method=vm)
    M.finite('no_nonfinite_in_padded_arrays', got, info=inf)
    # (a) against the unsharded default (dense) computation
    _compare_states(M, 'implicit_terms_sharded_eq_unsharded', got, ref_terms[None], m0, tol, dict(inf, reference='unsharded default'))
    # (b) against the unsharded computation with the same method
    if vm == 'sparse':
      _compare_states(M, 'implicit_terms_sharded_eq_unsharded', got, ref_terms['sparse'], m0, tol, dict(inf, reference='unsharded sparse'))
    for n, v in _state_names(got):
      if m1 != m0:
        M.zero('implicit_terms_zero_on_padding', _outside(np.asarray(v), m0), info=dict(inf, leaf=n))
    M.cover('implicit_terms', f'method={vm}:uneven={uneven}:z={z}')
    _nontrivial(M, ms, varies, 'implicit_terms', ms, vm, nl, uneven, case['bsm'], case.get('sub', 0))

  eq1 = model.make_eq('dry', tref, _pad_last2(oro0, m1), c1, specs)
  ref_split = jax.jit(lambda s: eq0.implicit_inverse(s, eta))(st0)
  tol_inv = 1e-9 if f64 else 5e-3   # solve: measured floor 1e-13 (blockwise vs split), 1.4e-7 in f32
  for method in ('split', 'stacked', 'blockwise'):
    got = jax.jit(lambda s, m=method: eq1.implicit_inverse(s, eta, method=m))(st1)
    inf = dict(inf0, op='implicit_inverse', method=method)
    M.finite('no_nonfinite_in_padded_arrays', got, info=inf)
    _compare_states(M, 'implicit_inverse_sharded_eq_unsharded', got, ref_split, m0, tol_inv, dict(inf, reference='unsharded split'))
    if method != 'split':
      ref_same = jax.jit(lambda s, m=method: eq0.implicit_inverse(s, eta, method=m))(st0)
      _compare_states(M, 'implicit_inverse_sharded_eq_unsharded', got, ref_same, m0, tol_inv, dict(inf, reference='unsharded same method'))
    M.cover('implicit_inverse', f'method={method}:uneven={uneven}:z={z}')
    _nontrivial(M, ms, varies, 'implicit_inverse', ms, method, nl, uneven, case['bsm'], case.get('sub', 0))
  # round trip through the sharded operators: (1 - eta L) applied to the sharded solve gives the input
  if f64:
    sol = jax.jit(lambda s: eq1.implicit_inverse(s, eta))(st1)
    lt = jax.jit(eq1.implicit_terms)(sol)
    back = jax.tree_util.tree_map(lambda a, b: np.asarray(a) - eta * np.asarray(b), sol, lt)
    _compare_states(M, 'sharded_solve_inverts_sharded_operator', back, st0, m0, 1e-9, inf0)
  M.sample({'kind': 'implicit', **inf0})


# --------------------------------------------------------------------------------------- model
def _run_model(case, M):
  import jax  # pylint: disable=import-outside-toplevel
  from vp import core, model  # pylint: disable=import-outside-toplevel
  from dinosaur import scales, time_integration as ti  # pylint: disable=import-outside-toplevel
  f64, tol, dt_ = _tols(M)
  if not f64:
    tol = 1e-3
  ms = tuple(case['mesh'])
  z, x, y = ms
  mesh = _mesh(ms)
  rng = M.rng()
  specs = model.make_specs()
  cfg0 = dict(case['grid'])
  nl = int(case['layers'])
  uneven = bool(case['uneven'])
  bnd = gen.sigma_boundaries(rng, nl, uneven=uneven, ratio=4.0)
  c0 = model.make_coords(cfg0, bnd, specs)
  c1 = model.make_coords(dict(cfg0, bsm=case['bsm']), bnd, specs, mesh=mesh)
  g0, g1 = c0.horizontal, c1.horizontal
  m0, m1 = tuple(g0.modal_shape), tuple(g1.modal_shape)
  kind = case['eq']
  with_time = kind != 'dry'
  tracers = model.EQ_TRACERS[kind]
  st0 = model.to_state(model.phys_state_si(rng, g0, nl, tracers=tracers), specs, with_time=with_time, dtype=dt_)
  oro0 = model.nondim_orography(model.orography_si(rng, g0, lmax=5, height=1500.0), specs, dtype=dt_)
  tref = model.tref_profile(rng, nl, kind=_tref_kind(case))
  dt = float(specs.nondimensionalize(case['dt_min'] * scales.units.minute))
  integ = case['integrator']
  if integ == 'leap':
    other = model.to_state(model.phys_state_si(rng, g0, nl, tracers=tracers), specs, with_time=with_time, dtype=dt_)
    cur = jax.tree_util.tree_map(lambda a, b: (np.asarray(a) + 0.02 * (np.asarray(b) - np.asarray(a))).astype(np.asarray(a).dtype)
                                 if np.ndim(a) else a, st0, other)
    init0 = (st0, cur)
  else:
    init0 = st0

  def build(c):
    oro = _pad_last2(oro0, tuple(c.horizontal.modal_shape))
    eq = model.make_eq(kind, tref, oro, c, specs)
    gr = c.horizontal
    if integ == 'sil3':
      step = ti.imex_rk_sil3(eq, dt)
      fl = model.make_filters(gr, dt, case['filters'])
    else:
      step = ti.semi_implicit_leapfrog(eq, dt)
      fl = [ti.exponential_leapfrog_step_filter(gr, dt), ti.robert_asselin_leapfrog_filter(0.05)]
    f = ti.repeated(ti.step_with_filters(step, fl), int(case['steps']))
    return jax.jit(lambda s: f(c.with_dycore_sharding(s)))

  inf = {'mesh': ms, 'eq': kind, 'integrator': integ, 'filters': case['filters'] if integ == 'sil3' else 'exp_leapfrog+RA',
         'levels': nl, 'uneven': uneven, 'bsm': case['bsm'], 'grid': gen.grid_tag(cfg0), 'modal_shape': m1,
         'steps': case['steps'], 'dt_min': case['dt_min']}
  ref = build(c0)(init0)
  n_in, n_out = model.state_norm(init0[1] if integ == 'leap' else init0), model.state_norm(ref[1] if integ == 'leap' else ref)
  if not np.isfinite(n_out) or n_out > 10 * n_in:
    raise core.Discard('unsharded reference run blew up (CFL), not a property matter')
  init1 = jax.tree_util.tree_map(lambda a: a, _pad_state(init0, m1))
  got = build(c1)(init1)
  M.finite('no_nonfinite_in_padded_arrays', got, info=inf)
  worst = _compare_states(M, 'model_steps_sharded_eq_unsharded', got, ref, m0, tol, inf)
  M.note('model_worst_relative_residual_' + ('f64' if f64 else 'f32'), worst)
  pad_zero = all(not np.any(_outside(np.asarray(v), m0)) for _, v in _state_names(got) if np.ndim(v) >= 2)
  M.cover('model_state_padding_stays_zero(observed, not asserted)', str(bool(pad_zero)))
  # non-triviality: the run changed the state, and the initial state varies along the split axes
  moved = 0.0
  for (n, a), (_, b) in zip(_state_names(ref), _state_names(init0)):
    if np.ndim(a) >= 2 and _amax(b) > 0:
      moved = max(moved, _amax(np.asarray(a) - np.asarray(b)) / _amax(b))
  v = st0.vorticity
  ok = moved > 1e-6 and (z == 1 or _varies(v, 0)) and (x == 1 or _varies(v, -2)) and (y == 1 or _varies(v, -1))
  M.cover('model', f'{kind}:{integ}:{"uneven" if uneven else "even"}:bsm={case["bsm"]}')
  M.cover('model_mesh', str(ms))
  M.cover('levels_z>1' if z > 1 else 'levels_z=1', 'uneven' if uneven else 'even')
  _nontrivial(M, ms, ok, 'model', ms, kind, integ, uneven, case['bsm'], gen.grid_tag(cfg0), nl, case['steps'], case['dt_min'], case['filters'])
  M.sample({'kind': 'model', **inf, 'state_change_rel': moved, 'worst_rel_residual': worst,
            'boundaries': [round(float(b), 5) for b in bnd]}, limit=4)


# --------------------------------------------------------------------------------------- odd x / y
def _run_odd(case, M):
  import jax  # pylint: disable=import-outside-toplevel
  from vp import model  # pylint: disable=import-outside-toplevel
  from dinosaur import jax_numpy_utils as jnu  # pylint: disable=import-outside-toplevel
  P = jax.sharding.PartitionSpec
  f64, tol, dt_ = _tols(M)
  ms = tuple(case['mesh'])
  z, x, y = ms
  mesh = _mesh(ms)
  rng = M.rng()
  cfg0 = dict(_SMALL, impl='fast')
  g0 = gen.make_grid(cfg0)
  g = gen.make_grid(cfg0, mesh=mesh)
  m0, n0, m1, n1 = tuple(g0.modal_shape), tuple(g0.nodal_shape), tuple(g.modal_shape), tuple(g.nodal_shape)
  nl = _layers_for(z)
  info = {'mesh': ms, 'modal_shape': m1, 'nodal_shape': n1}
  outcomes = []
  for lead in ((), (nl,)):
    xm = gen.rand_modal(rng, g0, lead, dtype=dt_)
    zn = rng.standard_normal(lead + n0).astype(dt_)
    ref_n, ref_m = np.asarray(g0.to_nodal(xm)), np.asarray(g0.to_modal(zn))
    outcomes.append(_reject_or_correct(M, 'odd_xy_mesh_rejected_or_correct', lambda: jax.jit(g.to_nodal)(_pad_last2(xm, m1)),
                                       ref_n, tol, _amax(ref_n), dict(info, op='to_nodal', lead=lead)))
    outcomes.append(_reject_or_correct(M, 'odd_xy_mesh_rejected_or_correct', lambda: jax.jit(g.to_modal)(_pad_last2(zn, n1)),
                                       ref_m, tol, _amax(ref_m), dict(info, op='to_modal', lead=lead)))
    # no collective is involved in d_dlon: it must simply be right on any mesh
    dl = np.asarray(jax.jit(g.d_dlon)(_dycore_put(_pad_last2(xm, m1), mesh)))
    refd = np.asarray(g0.d_dlon(xm))
    M.close('d_dlon_sharded_eq_unsharded', _crop_last2(dl, m0), refd, tol, scale=_amax(refd) or None, info=dict(info, lead=lead))
  # direct call of the collective matmuls with the odd axis as the reduction axis
  for red, sub, rspec, ospec in (('x', 'im,zmj->zij', ('z', 'x', 'y'), ('z', 'x', 'y')),
                                 ('y', 'mjl,zsml->zsmj', ('z', None, 'x', 'y'), ('z', None, 'x', 'y'))):
    if mesh.shape[red] % 2 == 0 or mesh.shape[red] == 1:
      continue
    lhs_s, rest = sub.split(',')
    rhs_s, _ = rest.split('->')
    dims = {'m': 2 * x, 'j': 2 * y, 'l': 3 * y, 'i': 3 * x, 'z': z, 's': 2}
    lhs = rng.standard_normal([dims[c] for c in lhs_s]).astype(dt_)
    rhs = rng.standard_normal([dims[c] for c in rhs_s]).astype(dt_)
    want = np.einsum(sub, lhs.astype(np.float64), rhs.astype(np.float64))
    for gather in (True, False):
      outcomes.append(_reject_or_correct(
          M, 'odd_xy_mesh_rejected_or_correct',
          lambda g_=gather: jnu.sharded_einsum(sub, lhs, rhs, gather_inputs=g_, mesh=mesh, rhs_spec=P(*rspec), out_spec=P(*ospec)),
          want, tol, max(_amax(want), 1.0), dict(info, op='sharded_einsum', subscripts=sub, gather_inputs=gather)))
  # cumsum has no such restriction
  a = rng.standard_normal((z * 2, x * 2, y * 2)).astype(dt_)
  shd = jax.sharding.NamedSharding(mesh, P('z', 'x', 'y'))
  got = np.asarray(jnu.cumsum(jax.device_put(a, shd), 0, sharding=shd))
  M.close('cumsum_sharded_eq_numpy', got, _np_cumsum(a, 0, False), tol, scale=max(_amax(a) * a.shape[0], 1.0))
  # a model tendency on such a mesh is rejected at trace time as well (or must be right)
  specs = model.make_specs()
  bnd = gen.sigma_boundaries(rng, nl, uneven=True)
  c0 = model.make_coords(cfg0, bnd, specs)
  c1 = model.make_coords(cfg0, bnd, specs, mesh=mesh)
  st0 = model.to_state(model.phys_state_si(rng, c0.horizontal, nl), specs, dtype=dt_)
  tref = model.tref_profile(rng, nl, kind=_tref_kind(case))
  eq1 = model.make_eq('dry', tref, np.zeros(m1, dt_), c1, specs)
  res = _reject_or_correct(M, 'odd_xy_mesh_rejected_or_correct',
                           lambda: jax.jit(eq1.explicit_terms)(_pad_state(st0, m1)).vorticity,
                           None, tol, 1.0, dict(info, op='explicit_terms'))
  if res == 'accepted':
    eq0 = model.make_eq('dry', tref, np.zeros(m0, dt_), c0, specs)
    _compare_states(M, 'odd_xy_mesh_rejected_or_correct', jax.jit(eq1.explicit_terms)(_pad_state(st0, m1)),
                    jax.jit(eq0.explicit_terms)(st0), m0, tol, dict(info, op='explicit_terms'))
  M.cover('odd_xy_mesh', f'{ms}:' + ','.join(sorted(set(outcomes + [res]))))
  M.sample({'kind': 'odd', 'mesh': ms, 'outcomes': sorted(set(outcomes + [res]))})


_RUNNERS = {'grid': _run_grid, 'cumsum': _run_cumsum, 'einsum': _run_einsum, 'filters': _run_filters,
            'implicit': _run_implicit, 'model': _run_model, 'odd': _run_odd}


def run(case, M):
  import jax  # pylint: disable=import-outside-toplevel
  from vp import core  # pylint: disable=import-outside-toplevel
  if len(jax.devices()) < 8:
    raise core.HarnessError(f'expected 8 virtual devices, found {len(jax.devices())} (env {M.env})')
  M.cover('kind', case['kind'] + ':' + M.env)
  _RUNNERS[case['kind']](case, M)
