"""C01 — analysis inverts synthesis; discrete orthonormality; sphere integral; mask.

Decided by a complete-basis Gram monitor (every basis vector of the truncation is pushed through
the real Grid.to_nodal -> Grid.to_modal as one batch), an independent basis oracle (scipy), and
mask / immutability invariants.  See DESIGN.md §3 C01.
"""
from __future__ import annotations

import numpy as np

from vp import gen
from vp.refs import sph_ref

RULE = ('cases = grid configurations (structured edge list + seeded random stream: M, L, node '
        'counts incl. the minimal resolving ones, gauss/equiangular/with-poles, longitude offset, '
        'radius, Real/Fast with padding and option matrix, factory grids); for each, ALL basis '
        'vectors (sampled above T85) go through to_nodal/to_modal. A configuration is non-trivial '
        'if it is distinct, has >=3 total wavenumbers and >=1 quadrature-resolved pair was '
        'asserted; per-pair counts and whether the edge of exactness (l+l\' >= D-1) was probed '
        'are in coverage_tables.')
MIN_NONTRIVIAL = {'quick': 20, 'thorough': 100}
REQUIRED_MONITORS = {'all': ['gram_resolved_pairs', 'basis_vs_scipy_oracle', 'integral_is_00',
                             'to_modal_exact_zero_outside_mask', 'masked_input_ignored']}
ASSUMPTIONS = ['scipy.special.sph_legendre_p is the independent oracle for the basis functions',
               'pairs (l,m),(l\',m\') with l+l\' > D or m+m\' > nlon-1 are reported, not asserted']
TOL64, TOL32 = 1e-10, 2e-5


def _structured():
  g = gen.grid_cfg
  out = [
      # minimal grids
      g(1, 1, 1, 1), g(1, 2, 1, 2), g(2, 2, 3, 2), g(1, 1, 1, 1, impl='fast'),
      g(2, 3, 4, 3, impl='fast'), g(1, 3, 2, 5, 'equiangular'),
      g(2, 2, 3, 3, 'equiangular_with_poles'), g(1, 2, 1, 3, 'equiangular_with_poles', impl='fast'),
      # exactly resolving node counts, odd / even
      g(8, 9, 15, 9), g(8, 9, 16, 10, impl='fast'), g(8, 8, 15, 8), g(7, 10, 13, 10, impl='fast'),
      g(6, 7, 11, 13, 'equiangular'), g(6, 7, 12, 13, 'equiangular', impl='fast'),
      g(6, 7, 11, 13, 'equiangular_with_poles'), g(5, 6, 9, 12, 'equiangular_with_poles', impl='fast'),
      # under-resolved (only resolved pairs asserted)
      g(8, 9, 12, 6), g(8, 9, 10, 7, impl='fast'), g(6, 7, 16, 8, 'equiangular'),
      g(6, 7, 7, 9, 'equiangular_with_poles', impl='fast'),
      # longitude node counts at the Nyquist limit of the top zonal wavenumber: nlon = 2(M-1), nlon = M
      g(9, 10, 16, 10), g(9, 10, 16, 10, impl='fast'), g(6, 7, 10, 7, impl='fast', bsm=4), g(7, 8, 7, 8, impl='fast'),
      # offsets, radii
      g(8, 9, 25, 13, offset=0.3, radius=3.0), g(8, 9, 25, 13, offset=-2.0, radius=0.25, impl='fast'),
      g(12, 13, 36, 18, 'equiangular', offset=1.0, radius=6.371e6 / 1e5, impl='fast'),
      # padded fast layouts + options
      g(8, 9, 25, 13, impl='fast', bsm=8), g(5, 7, 16, 9, impl='fast', bsm=4, stk=True),
      g(5, 7, 16, 9, impl='fast', bsm=2, stk=False, rev=True),
      g(12, 13, 36, 18, impl='fast', bsm=8, stk=True, rev=True, prec='highest'),
      g(12, 13, 36, 18, impl='fast', bsm=1, stk=False, rev=False, prec='float32'),
      g(3, 4, 8, 4, impl='fast', bsm=8, prec='tensorfloat32'),
      # factories
      gen.with_wavenumbers_cfg(10, 'linear'), gen.with_wavenumbers_cfg(10, 'quadratic', impl='fast'),
      gen.with_wavenumbers_cfg(7, 'cubic', spacing='equiangular'),
      gen.factory_cfg('T21', 'real'), gen.factory_cfg('T21', 'fast', offset=0.1, radius=2.0),
      gen.factory_cfg('TL31', 'fast'), gen.factory_cfg('T31', 'fast'),
  ]
  return out


def cases(tier, seed):
  out = []
  cfgs = _structured()
  rng = np.random.default_rng([seed, 101])
  n_rand = 24 if tier == 'quick' else 200
  for _ in range(n_rand):
    r = rng.random()
    cfgs.append(gen.random_grid_cfg(rng, max_M=14 if tier == 'quick' else 24,
                                    resolved=r < 0.8))
  if tier == 'thorough':
    for name in ('T31', 'T42', 'TL47', 'TL63'):
      for impl in ('real', 'fast'):
        cfgs.append(gen.factory_cfg(name, impl, offset=0.05 if impl == 'real' else 0.0))
    cfgs.append(gen.factory_cfg('T42', 'fast', spacing='equiangular'))
    cfgs.append(gen.factory_cfg('T85', 'fast'))
    cfgs.append(gen.factory_cfg('TL95', 'real'))
    for name in ('T106', 'T119', 'T170', 'TL127', 'TL159', 'TL179', 'TL255'):
      c = gen.factory_cfg(name, 'fast')
      c['sample'] = 1500
      cfgs.append(c)
    c = gen.factory_cfg('TL127', 'real')
    c['sample'] = 1200
    cfgs.append(c)
    for _ in range(8):
      c = gen.random_grid_cfg(rng, max_M=44, min_M=25, resolved=True)
      cfgs.append(c)
  for i, c in enumerate(cfgs):
    K = c['M'] * c['L']
    if c.get('sample'):
      K = min(K, c['sample'])
    cost = 0.3 + K * (c['M'] * c['nlat'] * (c['L'] + c['nlon'])) / 3e8
    out.append({'id': f'g{i}-{gen.grid_tag(c)}', 'kind': 'grid', 'grid': c, 'env': 'f64',
                'cost': cost})
  # float32 "as shipped" pass on a subset
  sub = [c for c in cfgs if c['M'] <= 22 and not c.get('sample')]
  step = 3 if tier == 'quick' else 2
  for i, c in enumerate(sub[::step]):
    out.append({'id': f'f32-{i}-{gen.grid_tag(c)}', 'kind': 'grid', 'grid': c, 'env': 'f32',
                'cost': 0.3 + c['M'] * c['L'] * (c['M'] * c['nlat'] * (c['L'] + c['nlon'])) / 3e8})
  return out


def _select_basis(grid, cfg, rng):
  idx = gen.basis_indices(grid)
  n = cfg.get('sample')
  if not n or len(idx) <= n:
    return idx, True
  L = grid.total_wavenumbers
  M = grid.longitude_wavenumbers
  keep = set()
  for (i, j) in idx:
    m, _ = gen.row_kind(grid, i)
    if j >= L - 3 and (i % 3 == 0 or m in (0, 1, M - 1)):
      keep.add((i, j))
    if m in (0, 1, M - 1) and j % 2 == 0:
      keep.add((i, j))
    if j == m:
      keep.add((i, j))
  keep = list(keep)
  if len(keep) > n:
    sel = rng.choice(len(keep), n, replace=False)
    keep = [keep[k] for k in sel]
  rest = [p for p in idx if p not in set(keep)]
  extra = n - len(keep)
  if extra > 0:
    sel = rng.choice(len(rest), min(extra, len(rest)), replace=False)
    keep += [rest[k] for k in sel]
  return sorted(keep), False


def _run_grid(case, M):
  import jax  # pylint: disable=import-outside-toplevel
  import jax.numpy as jnp  # pylint: disable=import-outside-toplevel
  cfg = case['grid']
  f64 = M.env.startswith('f64')
  tol = TOL64 if f64 else TOL32
  dt = np.float64 if f64 else np.float32
  rng = M.rng()
  grid = gen.make_grid(cfg)
  sh = grid.spherical_harmonics
  M.watch(f'f:{case["id"]}', sh.basis.f)
  M.watch(f'p:{case["id"]}', sh.basis.p)
  M.watch(f'w:{case["id"]}', sh.basis.w)
  M.watch(f'mask:{case["id"]}', grid.mask)
  M.watch(f'nodal_lon:{case["id"]}', grid.nodal_axes[0])
  M.watch(f'nodal_lat:{case["id"]}', grid.nodal_axes[1])
  M.watch(f'modal_m:{case["id"]}', grid.modal_axes[0])
  M.watch(f'modal_l:{case["id"]}', grid.modal_axes[1])

  fast = gen.is_fast(grid)
  ms, ns = tuple(grid.modal_shape), tuple(grid.nodal_shape)
  nlon, nlat = cfg['nlon'], cfg['nlat']
  Lw, Mw = cfg['L'], cfg['M']
  D = gen.exactness_degree(cfg)
  mask = np.asarray(grid.mask)
  m_axis, l_axis = (np.asarray(a) for a in grid.modal_axes)

  # ---- structural facts about the layout / mask (documented conventions)
  exp_mask = np.zeros(ms, bool)
  for i in range(ms[0]):
    for j in range(ms[1]):
      if fast:
        ok = i < 2 * Mw and j < Lw and i != 1 and (i // 2) <= j
      else:
        ok = ((i + 1) // 2) <= j
      exp_mask[i, j] = ok
  M.check('mask_is_triangular_truncation', np.array_equal(mask, exp_mask),
          info={'grid': cfg})
  w2 = np.asarray(grid.quadrature_weights)
  M.close('quadrature_weights_sum_4pi', w2[:nlon, :nlat].sum(), 4 * np.pi, 1e-12 if f64 else 1e-6)
  if w2.shape == ns and (ns[0] > nlon or ns[1] > nlat):
    M.zero('quadrature_weights_zero_on_lat_padding', w2[:, nlat:])

  idx, complete = _select_basis(grid, cfg, rng)
  K = len(idx)
  M.cover('basis_complete', 'complete' if complete else 'sampled')
  lon = np.asarray(grid.nodal_axes[0])[:nlon] - cfg['offset']
  sin_lat = np.asarray(grid.nodal_axes[1])[:nlat]
  P_ref, _ = sph_ref.legendre_table(Lw, Mw, sin_lat)   # [m, lat, l]

  to_nodal = jax.jit(grid.to_nodal)
  to_modal = jax.jit(grid.to_modal)
  chunk = max(1, int(2.0e8 // (8 * max(ns[0] * ns[1], ms[0] * ms[1]))))
  n_res = n_unres = 0
  worst_unres = 0.0
  edge = False
  l_k_all = np.array([l_axis[j] for (_, j) in idx])
  m_k_all = np.array([gen.row_kind(grid, i)[0] for (i, _) in idx])
  m_rows = np.array([gen.row_kind(grid, i)[0] for i in range(ms[0])])
  for s in range(0, K, chunk):
    sub = idx[s:s + chunk]
    E = np.zeros((len(sub),) + ms, dt)
    for k, (i, j) in enumerate(sub):
      E[k, i, j] = 1
    nod = np.asarray(to_nodal(E))
    G = np.asarray(to_modal(nod))
    # (a) Gram on resolved pairs
    lk = l_k_all[s:s + chunk][:, None, None]
    mk = m_k_all[s:s + chunk][:, None, None]
    resolved = ((lk + l_axis[None, None, :] <= D)
                & (mk + m_rows[None, :, None] <= nlon - 1) & mask[None])
    R = G.copy().astype(np.float64)
    for k, (i, j) in enumerate(sub):
      R[k, i, j] -= 1
    if resolved.any():
      M.close('gram_resolved_pairs', np.where(resolved, R, 0), np.zeros_like(R), tol, scale=1.0,
              info={'grid': cfg})
      n_res += int(resolved.sum())
      if ((lk + l_axis[None, None, :] >= D - 1) & resolved).any():
        edge = True
    unres = mask[None] & ~resolved
    if unres.any():
      n_unres += int(unres.sum())
      worst_unres = max(worst_unres, float(np.abs(R[unres]).max()))
    # (d) exact zeros outside the mask
    M.zero('to_modal_exact_zero_outside_mask', G[:, ~mask], info={'grid': cfg})
    if nod.shape[-2:] != (nlon, nlat):
      pad = nod.copy()
      pad[..., :nlon, :nlat] = 0
      M.zero('to_nodal_exact_zero_on_padding', pad)
    # (b) basis oracle
    ref = np.zeros((len(sub), nlon, nlat))
    for k, (i, j) in enumerate(sub):
      m, kind = gen.row_kind(grid, i)
      F, _ = sph_ref.fourier(m, kind, lon)
      ref[k] = F[:, None] * P_ref[m, :, int(l_axis[j])][None, :]
    M.close('basis_vs_scipy_oracle', nod[..., :nlon, :nlat], ref, tol,
            scale=max(1.0, float(np.abs(ref).max())), info={'grid': cfg})
  M.note('unresolved_pairs_worst_residual(not asserted)', worst_unres)
  M.cover('pairs', 'resolved_asserted', n_res)
  M.cover('pairs', 'unresolved_reported', n_unres)
  M.cover('edge_of_exactness_probed', str(edge))
  M.cover('impl', cfg['impl'])
  M.cover('spacing', cfg['spacing'])
  M.cover('options', {k: cfg.get(k) for k in ('bsm', 'stk', 'rev', 'prec')})
  if Lw >= 3 and n_res > 0:
    M.nontrivial_global({k: v for k, v in cfg.items() if k != 'sample'}, M.env)
  M.sample({'grid': cfg, 'basis_vectors': K, 'resolved_pairs': n_res,
            'unresolved_pairs': n_unres, 'exactness_degree': D})

  # ---- random dense (non-decaying) spectra
  lead_sets = [(), (3,), (2, 2)]
  lmax_int = min(Lw - 1, D)
  for lead in lead_sets:
    x = gen.rand_modal(rng, grid, lead, dtype=dt)
    y = gen.rand_modal(rng, grid, lead, dtype=dt)
    nx = np.asarray(to_nodal(x))
    # (e) leading axes = slice by slice
    if lead:
      first = np.asarray(to_nodal(x[(0,) * len(lead)]))
      M.close('leading_axes_slicewise', nx[(0,) * len(lead)], first, 1e-12 if f64 else 1e-5)
      gx = np.asarray(to_modal(nx))
      g0 = np.asarray(to_modal(nx[(0,) * len(lead)]))
      M.close('leading_axes_slicewise', gx[(0,) * len(lead)], g0, 1e-12 if f64 else 1e-5)
    # (f) linearity
    a, b = dt(1.7), dt(-0.6)
    M.close('linearity', np.asarray(to_nodal(a * x + b * y)),
            a * nx + b * np.asarray(to_nodal(y)), 1e-12 if f64 else 2e-5)
    # (d) masked / padded entries never influence the result
    garbage = x + np.where(mask, 0, rng.standard_normal(x.shape) * 1e3).astype(dt)
    M.same('masked_input_ignored', np.asarray(to_nodal(garbage)), nx)
    # round trip on fully resolved fields
    if 2 * (Lw - 1) <= D and 2 * (Mw - 1) <= nlon - 1:
      M.close('roundtrip_resolved_grid', np.asarray(to_modal(nx)), x, tol,
              scale=max(1.0, float(np.abs(x).max())) * np.sqrt(max(1, Mw * Lw)))
      M.cover('roundtrip', 'fully_resolved_grid')
    # (c) integral
    xi = gen.rand_modal(rng, grid, lead, lmax=lmax_int, dtype=dt)
    xi[..., 0, 0] = rng.standard_normal(lead).astype(dt) + dt(2.0)
    integ = np.asarray(grid.integrate(to_nodal(xi)))
    M.close('integral_is_00', integ, cfg['radius'] ** 2 * np.sqrt(4 * np.pi) * xi[..., 0, 0],
            tol * 10, scale=cfg['radius'] ** 2 * np.sqrt(4 * np.pi) * max(1.0, float(np.abs(xi).max())) * np.sqrt(Mw * Lw))
  # pytree input: scalars untouched, arrays transformed
  x = gen.rand_modal(rng, grid, (2,), dtype=dt)
  tree = {'a': x, 'b': (x[0], 3.5)}
  out = grid.to_nodal(tree)
  M.close('pytree_input', np.asarray(out['a']), np.asarray(to_nodal(x)), 1e-12 if f64 else 1e-5)
  M.check('pytree_scalar_untouched', out['b'][1] == 3.5)


# ------------------------------------------------------------------------------------ history
# Confusable sibling grids processed one after the other in the SAME process: every grid is judged
# by the same oracles as above, so state leaking from one Grid instance into another (a memo keyed
# on too little: padded axis length instead of total_wavenumbers, shape without radius, ...) shows
# up on the second grid of a sequence.  Both orders are run.
def _sibling_sequences():
  g = gen.grid_cfg
  seqs = [
      # same padded modal shape (base_shape_multiple=8 rounds L=9, 12, 16 all to 16), same radius
      [g(8, 9, 25, 13, impl='fast', bsm=8, radius=2.0), g(8, 12, 25, 13, impl='fast', bsm=8, radius=2.0),
       g(8, 16, 25, 16, impl='fast', bsm=8, radius=2.0)],
      # same truncation and layout, different radius
      [g(6, 9, 20, 10, impl='fast', bsm=4, radius=1.0), g(6, 9, 20, 10, impl='fast', bsm=4, radius=3.5)],
      [g(6, 9, 20, 10, radius=1.0), g(6, 9, 20, 10, radius=0.4)],
      # same total wavenumbers, different longitude wavenumbers (and vice versa)
      [g(4, 10, 16, 10, impl='fast'), g(9, 10, 20, 10, impl='fast')],
      [g(7, 8, 16, 9), g(7, 11, 16, 11)],
      # same truncation, different nodes / spacing / offset
      [g(6, 7, 13, 7), g(6, 7, 16, 13, 'equiangular'), g(6, 7, 13, 7, offset=0.9)],
      # Real and Fast with the same truncation; padded and unpadded Fast
      [g(7, 8, 16, 9), g(7, 8, 16, 9, impl='fast'), g(7, 8, 16, 9, impl='fast', bsm=8)],
  ]
  return seqs


def sibling_cases(tier):
  out = []
  for i, seq in enumerate(_sibling_sequences()):
    for order, s in (('fwd', seq), ('rev', seq[::-1])):
      out.append({'id': f'siblings{i}-{order}', 'kind': 'siblings', 'grids': s, 'env': 'f64',
                  'cost': 1.5 * len(s)})
  return out


_cases_without_siblings = cases


def cases(tier, seed):  # pylint: disable=function-redefined
  return _cases_without_siblings(tier, seed) + sibling_cases(tier)


def run(case, M):
  if case.get('kind') != 'siblings':
    return _run_grid(case, M)
  for j, cfg in enumerate(case['grids']):
    sub = dict(case, grid=cfg, kind='grid')
    _run_grid(sub, M)
    M.cover('sibling_sequences', f"{case['id']}:{j}:{gen.grid_tag(cfg)}")
