"""C19 — persistence and restructuring round trips lose nothing.

Round-trip monitors on generated structures, see DESIGN.md §3 C19.

Case kinds
  coords    grid stream x Sigma/Layer/Pressure verticals -> asdict -> coordinate_system_from_attrs,
            directly, through xarray attrs in memory and through an actual NetCDF file
            (xarray_utils.save_netcdf / open_netcdf, scipy backend) when a backend exists.
  state     data_to_xarray -> xarray_to_primitive_eq_data / ..._with_time_data /
            xarray_to_shallow_water_eq_data / xarray_to_data_dict (+ NetCDF file for a subset).
  resample  get_spectral_upsample_fn / downsample_fn / interpolate_fn between grid pairs.
  pytree    pack/unpack, stack/unstack, split/concat, split_axis, slice_along_axis,
            tree_map_over_nonscalars, as_dict, tree_hashable / tree_cache.
  dict      flatten_dict / unflatten_dict (custom sep), replace_with_matching_or_default on
            adversarial nested dictionaries.

Known findings wired by mechanism predicate: F9 (key '' with a dictionary value), F11 (nodal
(1,lon,lat) field of a single-layer system in data_to_xarray), F13 (multi-character sep and a key
ending/starting with part of it), F14 (paths differing only by trailing NULs).
"""
from __future__ import annotations

import dataclasses
import math
import os
import tempfile

import numpy as np

from vp import gen
from vp.refs import sph_ref

RULE = ('cases = (kind, generator parameters, sub-seed). coords: each distinct (grid configuration, '
        'vertical, attrs path) whose reconstruction was compared counts; state: each distinct '
        '(coordinate system, layout, time/sample axes, tracer set, dtype) dataset with >=1 level '
        'field and >=1 surface or 2-D field counts (configurations with modal_shape == nodal_shape '
        'are excluded and counted); resample: each grid pair with a strictly finer target counts; '
        'pytree: each random tree with >=2 leaves of different shapes counts; dict: each random '
        'dictionary with >=2 empty sub-dictionaries, or depth >=2 and >=3 leaves, counts. Coverage '
        'tables list verticals, spacings, attrs paths, layouts, separators, adversarial key '
        'features (shared first characters among empty sub-dictionaries, keys containing other '
        'separators, empty-string keys) and excluded/known-finding inputs.')
MIN_NONTRIVIAL = {'quick': 400, 'thorough': 3000}
REQUIRED_MONITORS = {'all': [
    'coords_fields_equal', 'coords_vertical_equal', 'coords_nodal_axes_identical',
    'coords_quadrature_weights_identical', 'dataset_dims_as_documented',
    'dataset_values_bit_identical', 'readback_bit_identical', 'down_of_up_is_identity',
    'upsampled_field_equals_reference_synthesis', 'pack_unpack_roundtrip', 'stack_unstack_roundtrip',
    'split_concat_roundtrip', 'split_axis_roundtrip', 'slice_along_axis_vs_numpy',
    'flatten_unflatten_roundtrip', 'flatten_matches_reference', 'flatten_accepts_valid_dictionary',
    'replace_with_matching_or_default_vs_reference', 'tree_map_over_nonscalars_vs_reference',
    'as_dict_roundtrip', 'tree_hashable_equal_trees', 'tree_hashable_distinguishes', 'tree_cache_calls']}
ASSUMPTIONS = [
    'the NetCDF path uses xarray with the scipy (NetCDF3) backend found in /venv; the evidence '
    'table attrs_path says which paths actually ran',
    'the transform implementation and the device mesh are not part of the reconstruction claim: '
    'the reconstructed grid is compared with the original discretisation under the '
    'implementation the reconstruction chose, and with the unpadded part of the original axes',
    'HybridCoordinates has no asdict and no registry entry in this version: not claimed',
    'configurations with modal_shape == nodal_shape are ambiguous by construction of the '
    'shape->dims table: excluded, counted',
    'sph_ref (scipy) is the independent synthesis reference',
    'pack/stack use leaves of one dtype per tree (concatenation promotes mixed dtypes by design)']
TIMEOUT = {'quick': 1200, 'thorough': 5400}

SEPS = ['&', '/', '.', '|', ':', '_', ' ', '-']
MULTI_SEPS = ['::', '->', '__', '&&']


# =========================================================================== case generation
def _vert_cfg(rng, kind=None, max_layers=6):
  kind = kind or str(rng.choice(['sigma', 'sigma', 'layer', 'pressure']))
  n = int(rng.integers(1, max_layers + 1))
  if kind == 'sigma':
    uneven = bool(rng.random() < 0.7)
    return {'kind': 'sigma', 'boundaries': gen.sigma_boundaries(rng, n, uneven=uneven).tolist()}
  if kind == 'layer':
    return {'kind': 'layer', 'n': n}
  c = np.sort(rng.uniform(1, 1050, n))
  c = np.unique(np.round(c, int(rng.integers(0, 6))))
  if c.size == 0:
    c = np.array([500.0])
  return {'kind': 'pressure', 'centers': c.tolist(), 'as_list': bool(rng.random() < 0.3)}


def _vert_layers(v) -> int:
  return {'sigma': lambda: len(v['boundaries']) - 1, 'layer': lambda: v['n'],
          'pressure': lambda: len(v['centers'])}[v['kind']]()


def _vert_tag(v) -> str:
  return f"{v['kind'][0]}{_vert_layers(v)}"


def _small_grid(rng, max_M=10, **kw):
  c = gen.random_grid_cfg(rng, max_M=max_M, resolved=bool(rng.random() < 0.7), **kw)
  return c


def _structured_coords():
  g = gen.grid_cfg
  sig3 = {'kind': 'sigma', 'boundaries': [0.0, 0.1, 0.45, 1.0]}
  out = [
      (g(4, 5, 9, 6, 'gauss', 0.3, 2.0, 'fast', bsm=4, stk=True), sig3),
      (g(1, 1, 1, 1), {'kind': 'layer', 'n': 1}),
      (g(1, 2, 1, 2, 'equiangular'), {'kind': 'sigma', 'boundaries': [0.0, 1.0]}),
      (g(6, 8, 17, 9, 'equiangular', 0.37, 2.5, 'fast'), {'kind': 'layer', 'n': 3}),
      (g(5, 6, 10, 12, 'equiangular_with_poles', -1.25, 6.371e6 / 1e5), {'kind': 'pressure', 'centers': [100.0, 300.0, 850.0], 'as_list': True}),
      # one-level pressure system (finding F12, fixed): must survive the file
      (g(4, 5, 9, 6), {'kind': 'pressure', 'centers': [500.0], 'as_list': False}),
      (g(3, 4, 8, 4, 'gauss', 0.0, 1.0, 'fast', bsm=8), {'kind': 'pressure', 'centers': [850.0], 'as_list': True}),
      (gen.factory_cfg('T21', 'fast', offset=0.1, radius=2.0), {'kind': 'sigma', 'boundaries': np.linspace(0, 1, 13).tolist()}),
      (gen.factory_cfg('TL31', 'real'), {'kind': 'pressure', 'centers': [50.0, 100.0, 200.0, 500.0, 1000.0], 'as_list': False}),
      (gen.with_wavenumbers_cfg(7, 'cubic', spacing='equiangular', offset=2.0), {'kind': 'layer', 'n': 2}),
      (g(8, 9, 25, 13, offset=-2.0, radius=0.25, impl='fast', bsm=2, stk=False, rev=True, prec='highest'), sig3),
  ]
  return out


def cases(tier, seed):
  quick = tier == 'quick'
  rng = np.random.default_rng([seed, 119])
  out = []
  # ---- coords
  cc = _structured_coords()
  for _ in range(30 if quick else 220):
    cc.append((_small_grid(rng, 12 if quick else 24), _vert_cfg(rng)))
  for i, (g, v) in enumerate(cc):
    out.append({'id': f'coords-{i}-{gen.grid_tag(g)}-{_vert_tag(v)}', 'kind': 'coords', 'grid': g, 'vert': v,
                'transform': bool(i % 3 == 0 and g['M'] * g['L'] <= 200), 'env': 'f64',
                'cost': 0.4 + (1.2 if (i % 3 == 0 and g['M'] * g['L'] <= 200) else 0.0)})
  # ---- state
  # structured: F11 reproducer + single-layer modal + typical
  out.append({'id': 'state-F11-single-layer-nodal', 'kind': 'state', 'grid': gen.grid_cfg(4, 5, 9, 6),
              'vert': {'kind': 'layer', 'n': 1}, 'layout': 'nodal', 'eq': 'sw', 'nt': None, 'ns': None,
              'tracers': [], 'dtype': 'float64', 'file': False, 'jax': False, 'env': 'f64', 'cost': 0.3})
  out.append({'id': 'state-single-layer-modal', 'kind': 'state', 'grid': gen.grid_cfg(4, 5, 9, 6),
              'vert': {'kind': 'sigma', 'boundaries': [0.0, 1.0]}, 'layout': 'modal', 'eq': 'pe', 'nt': 3, 'ns': 2,
              'tracers': ['q'], 'dtype': 'float32', 'file': True, 'jax': False, 'env': 'f64', 'cost': 0.3})
  out.append({'id': 'state-ambiguous-square', 'kind': 'state', 'grid': gen.grid_cfg(3, 5, 5, 5),
              'vert': {'kind': 'layer', 'n': 2}, 'layout': 'modal', 'eq': 'sw', 'nt': None, 'ns': None,
              'tracers': [], 'dtype': 'float64', 'file': False, 'jax': False, 'env': 'f64', 'cost': 0.3})
  pool = ['q', 'specific_humidity', 'cloud_liquid', 'tracer_1', 'T2', 'x', 'cloud water', 'tracer-1', 'x.y', 'Q']
  for i in range(60 if quick else 450):
    g = _small_grid(rng, 8 if quick else 16)
    v = _vert_cfg(rng, max_layers=5)
    file_ = bool(rng.random() < 0.3)
    names = [p for p in pool if not file_ or p.replace('_', '').isalnum()]
    k = int(rng.integers(0, 5))
    tr = [str(s) for s in rng.choice(names, size=min(k, len(names)), replace=False)]
    out.append({'id': f'state-{i}-{gen.grid_tag(g)}-{_vert_tag(v)}', 'kind': 'state', 'grid': g, 'vert': v,
                'layout': str(rng.choice(['modal', 'nodal'])), 'eq': str(rng.choice(['pe', 'pe', 'pet', 'sw', 'dict'])),
                'nt': [None, 1, 2, 5][int(rng.integers(4))], 'ns': [None, None, 1, 3][int(rng.integers(4))],
                'tracers': tr, 'dtype': str(rng.choice(['float64', 'float32', 'mixed'])), 'file': file_,
                'jax': bool(rng.random() < 0.2), 'env': 'f64', 'cost': 0.25 + (0.2 if file_ else 0)})
  # ---- resample
  rs = []
  g = gen.grid_cfg
  rs += [(g(1, 1, 1, 1), g(2, 3, 4, 3)), (g(4, 5, 9, 6, impl='fast', bsm=4), g(6, 7, 16, 8, impl='fast', bsm=4)),
         (g(3, 4, 8, 4, impl='fast', bsm=8), g(9, 10, 28, 14, impl='fast', bsm=8)),
         (g(5, 6, 9, 6, 'equiangular', 0.4, 3.0), g(5, 9, 12, 17, 'equiangular', 0.4, 3.0)),
         (g(4, 5, 9, 6), g(4, 5, 13, 9))]
  for _ in range(16 if quick else 110):
    impl = str(rng.choice(['real', 'fast']))
    opts = {}
    if impl == 'fast' and rng.random() < 0.7:
      opts = dict(bsm=[None, 1, 2, 4, 8][int(rng.integers(5))], stk=[None, True, False][int(rng.integers(3))])
    Mc = int(rng.integers(1, 8 if quick else 14))
    Lc = Mc + int(rng.choice([0, 1, 1, 3]))
    Mf = Mc + int(rng.choice([0, 1, 2, 5]))
    Lf = max(Mf, Lc) + int(rng.choice([0, 1, 2, 4]))
    sp = str(rng.choice(gen.SPACINGS, p=[0.6, 0.3, 0.1]))
    off = float(rng.choice([0.0, rng.uniform(-3, 3)]))
    rad = float(rng.choice([1.0, rng.uniform(0.1, 10)]))
    def nodes(M, L):
      return max(1, 2 * M - 1 + int(rng.integers(0, 4))), max(2, L + int(rng.integers(0, 4)))
    a = gen.grid_cfg(Mc, Lc, *nodes(Mc, Lc), sp, off, rad, impl, **opts)
    b = gen.grid_cfg(Mf, Lf, *nodes(Mf, Lf), sp, off, rad, impl, **opts)
    rs.append((a, b))
  for i, (a, b) in enumerate(rs):
    out.append({'id': f'resample-{i}-{gen.grid_tag(a)}-to-{gen.grid_tag(b)}', 'kind': 'resample', 'coarse': a,
                'fine': b, 'layers': int(rng.integers(1, 4)), 'env': 'f64',
                'cost': 1.0 + b['M'] * b['L'] * b['nlon'] * b['nlat'] / 4e5})
  # ---- pytree
  n_trees = 120 if quick else 800
  per = 20 if quick else 100
  for i in range(n_trees // per):
    out.append({'id': f'pytree-{i}', 'kind': 'pytree', 'n': per, 'sub': i, 'env': 'f64', 'cost': per * 0.12})
  # ---- dict
  n_dicts = 1600 if quick else 24000
  per = 200 if quick else 1000
  for i in range(n_dicts // per):
    out.append({'id': f'dict-{i}', 'kind': 'dict', 'n': per, 'sub': i, 'env': 'np', 'cost': per * 0.004})
  out.append({'id': 'dict-structured', 'kind': 'dict', 'n': 0, 'sub': 0, 'structured': True, 'env': 'np', 'cost': 0.3})
  return out


# =========================================================================== helpers (worker)
def _make_vert(v):
  from dinosaur import layer_coordinates as lc  # pylint: disable=import-outside-toplevel
  from dinosaur import sigma_coordinates as sc  # pylint: disable=import-outside-toplevel
  from dinosaur import vertical_interpolation as vi  # pylint: disable=import-outside-toplevel
  if v['kind'] == 'sigma':
    return sc.SigmaCoordinates(np.asarray(v['boundaries'], np.float64))
  if v['kind'] == 'layer':
    return lc.LayerCoordinates(int(v['n']))
  c = list(v['centers']) if v.get('as_list') else np.asarray(v['centers'], np.float64)
  return vi.PressureCoordinates(c)


def _netcdf_engine():
  try:
    import xarray  # pylint: disable=import-outside-toplevel
    eng = xarray.backends.list_engines()
  except Exception:  # pylint: disable=broad-except
    return None
  for name in ('netcdf4', 'h5netcdf', 'scipy'):
    if name in eng:
      return name
  return None


def _tmpdir():
  base = os.path.join(tempfile.gettempdir(), 'c18c19')
  os.makedirs(base, exist_ok=True)
  return tempfile.TemporaryDirectory(prefix='vp-c19-', dir=base)


# =========================================================================== coords
GRID_FIELDS = ('longitude_wavenumbers', 'total_wavenumbers', 'longitude_nodes', 'latitude_nodes',
               'latitude_spacing', 'longitude_offset', 'radius')


def _compare_coords(M, r, c, cfg, v, path, transform=False):
  from dinosaur import spherical_harmonic as sh  # pylint: disable=import-outside-toplevel
  info = {'grid': cfg, 'vert': v, 'path': path}
  g0, g1 = c.horizontal, r.horizontal
  ok = True
  for f in GRID_FIELDS:
    a, b = getattr(g0, f), getattr(g1, f)
    if isinstance(a, str):
      same = isinstance(b, str) and a == b
    elif isinstance(a, float):
      same = np.float64(a).tobytes() == np.float64(b).tobytes()
    else:
      same = int(a) == int(b) and float(b) == int(b)
    ok = ok and same
    if not same:
      info = {**info, 'field': f, 'orig': a, 'got': b}
  M.check('coords_fields_equal', ok, info=info)
  # vertical
  v0, v1 = c.vertical, r.vertical
  okv = type(v0) is type(v1) and bool(v0 == v1) and int(v0.layers) == int(v1.layers)
  M.check('coords_vertical_equal', okv, info={**info, 'types': [type(v0).__name__, type(v1).__name__]})
  # values identical; the byte order of the container is not part of the claim (NetCDF is big-endian)
  native = lambda a: np.asarray(a).astype(np.asarray(a).dtype.newbyteorder('='), copy=False)
  M.same('coords_vertical_centers_identical', native(v1.centers), native(v0.centers), info=info)
  if hasattr(v0, 'boundaries'):
    M.same('coords_vertical_boundaries_identical', native(v1.boundaries), native(v0.boundaries), info=info)
  M.check('coords_vertical_hash_equal', hash(v0) == hash(v1), info=info)
  # same discretisation under the implementation the reconstruction chose
  gref = dataclasses.replace(g0, spherical_harmonics_impl=g1.spherical_harmonics_impl, spmd_mesh=None)
  for k, (a, b) in enumerate(zip(g1.nodal_axes, gref.nodal_axes)):
    M.same('coords_nodal_axes_identical', a, b, info={**info, 'axis': k})
  for k, (a, b) in enumerate(zip(g1.modal_axes, gref.modal_axes)):
    M.same('coords_modal_axes_identical', a, b, info={**info, 'axis': k})
  M.same('coords_quadrature_weights_identical', g1.quadrature_weights, gref.quadrature_weights, info=info)
  M.check('coords_shapes_equal', tuple(int(s) for s in g1.nodal_shape) == tuple(gref.nodal_shape)
          and tuple(int(s) for s in g1.modal_shape) == tuple(gref.modal_shape), info=info)
  M.same('coords_mask_identical', g1.mask, gref.mask, info=info)
  # ... and the unpadded part of the ORIGINAL grid's axes / weights (whatever its implementation)
  nlon, nlat = cfg['nlon'], cfg['nlat']
  M.same('coords_nodal_axes_identical', np.asarray(g1.nodal_axes[0])[:nlon], np.asarray(g0.nodal_axes[0])[:nlon], info={**info, 'vs': 'original lon'})
  M.same('coords_nodal_axes_identical', np.asarray(g1.nodal_axes[1])[:nlat], np.asarray(g0.nodal_axes[1])[:nlat], info={**info, 'vs': 'original sin(lat)'})
  w0, w1 = np.asarray(g0.quadrature_weights), np.asarray(g1.quadrature_weights)
  crop = lambda w: w[:nlon, :nlat] if w.ndim == 2 else w[:nlat]
  if w0.ndim == w1.ndim:
    M.same('coords_quadrature_weights_identical', crop(w1), crop(w0), info={**info, 'vs': 'original'})
  M.close('coords_radius_equal', float(g1.radius), cfg['radius'], 0.0, scale=1.0, info=info)
  M.check('coords_dataclass_equal', g1 == gref, info=info)
  if transform:
    rng = M.rng(7)
    x = gen.rand_modal(rng, gref, (2,))
    M.close('coords_reconstructed_grid_transforms_alike', np.asarray(g1.to_nodal(x)), np.asarray(gref.to_nodal(x)),
            1e-12, info=info)
  M.cover('attrs_path', path)
  M.cover('vertical', f"{v['kind']}/{_vert_layers(v)}-layers" if _vert_layers(v) <= 1 else v['kind'])
  M.cover('spacing', cfg['spacing'])
  M.cover('original_impl', cfg['impl'] + ('+options' if any(cfg.get(k) is not None for k in ('bsm', 'stk', 'rev', 'prec')) else ''))
  M.cover('reconstructed_impl', getattr(g1.spherical_harmonics_impl, '__name__', '?'))
  M.nontrivial_global('coords', cfg, v, path)


def _run_coords(case, M):
  import xarray  # pylint: disable=import-outside-toplevel
  from dinosaur import coordinate_systems as cs  # pylint: disable=import-outside-toplevel
  from dinosaur import xarray_utils as xu  # pylint: disable=import-outside-toplevel
  cfg, v = case['grid'], case['vert']
  grid = gen.make_grid(cfg)
  vert = _make_vert(v)
  c = cs.CoordinateSystem(grid, vert)
  d = c.asdict()
  # the serialised form carries every constructor field
  want_keys = {f.name for f in dataclasses.fields(grid)} | {f.name for f in dataclasses.fields(vert)} | {
      cs.HORIZONTAL_COORD_TYPE_KEY, cs.VERTICAL_COORD_TYPE_KEY}
  M.check('asdict_has_all_fields', want_keys <= set(d), info={'missing': sorted(want_keys - set(d))})
  okv = all((d[f] == getattr(grid, f)) for f in GRID_FIELDS if f in d)
  M.check('asdict_field_values', okv, info={'asdict': {k: d.get(k) for k in GRID_FIELDS}, 'grid': cfg})
  M.check('asdict_type_names', d.get(cs.HORIZONTAL_COORD_TYPE_KEY) == 'Grid'
          and d.get(cs.VERTICAL_COORD_TYPE_KEY) == type(vert).__name__, info={'d': {k: d[k] for k in d if 'type' in k}})
  # 1. directly
  r = xu.coordinate_system_from_attrs(d)
  _compare_coords(M, r, c, cfg, v, 'direct', transform=False)
  # 2. attrs of an in-memory dataset, with unrelated extra attrs
  rng = M.rng()
  small = {'x': rng.standard_normal(7).astype(np.float32)}
  extra = {'title': 'vp', 'answer': 42, 'pi': 3.14159, 'list_attr': [1.0, 2.0]}
  ds = xu.data_to_xarray({'scalar': np.asarray(1.5)}, coords=c, times=None, attrs=extra)
  ds['x'] = (('k',), small['x'])
  r = xu.coordinate_system_from_attrs(ds.attrs)
  _compare_coords(M, r, c, cfg, v, 'xarray attrs in memory', transform=False)
  # 3. through an actual file
  eng = _netcdf_engine()
  if eng is None:
    M.unavailable('netcdf_backend')
    M.cover('attrs_path', 'NO NETCDF BACKEND: file path not exercised')
    return
  with _tmpdir() as td:
    p = os.path.join(td, 'c.nc')
    xu.save_netcdf(ds, p)
    M.check('netcdf_file_written', os.path.getsize(p) > 0)
    ds2 = xu.open_netcdf(p)
  r = xu.coordinate_system_from_attrs(ds2.attrs)
  _compare_coords(M, r, c, cfg, v, f'netcdf file ({eng})', transform=case.get('transform', False))
  M.same('netcdf_values_bit_identical', ds2['x'].values, small['x'])
  M.cover('netcdf_attr_types', ','.join(sorted({type(ds2.attrs[k]).__name__ for k in d if k in ds2.attrs})))
  M.sample({'grid': cfg, 'vert': v, 'attrs_after_file': {k: (type(val).__name__, val) for k, val in ds2.attrs.items() if k in d}})


# =========================================================================== state datasets
def _expected_dims(shape, prefix_shape, prefix_names, layers, modal_shape, nodal_shape):
  """Documented dimension names for an array shape (reference table written from the docs)."""
  shape = tuple(shape)
  if shape[:len(prefix_shape)] != tuple(prefix_shape):
    return None
  core = shape[len(prefix_shape):]
  if core == ():
    return [tuple(prefix_names)]
  if len(core) == 0:
    return None
  hor = None
  if core[-2:] == tuple(modal_shape):
    hor = ('longitudinal_mode', 'total_wavenumber')
  elif core[-2:] == tuple(nodal_shape):
    hor = ('lon', 'lat')
  if hor is None:
    return None
  if len(core) == 2:
    return [tuple(prefix_names) + hor]
  if len(core) == 3:
    if layers == 1 and core[0] == 1:
      return [tuple(prefix_names) + (n,) + hor for n in ('level', 'surface')]
    if core[0] == layers:
      return [tuple(prefix_names) + ('level',) + hor]
    if core[0] == 1:
      return [tuple(prefix_names) + ('surface',) + hor]
  return None


def _run_state(case, M):
  import jax.numpy as jnp  # pylint: disable=import-outside-toplevel
  from dinosaur import coordinate_systems as cs  # pylint: disable=import-outside-toplevel
  from dinosaur import xarray_utils as xu  # pylint: disable=import-outside-toplevel
  cfg, v = case['grid'], case['vert']
  grid = gen.make_grid(cfg)
  vert = _make_vert(v)
  c = cs.CoordinateSystem(grid, vert)
  layers = int(vert.layers)
  ms, ns_ = tuple(grid.modal_shape), tuple(grid.nodal_shape)
  if ms == ns_:
    M.cover('excluded', 'modal_shape == nodal_shape (ambiguous by construction)')
    M.discard('modal_shape == nodal_shape: shape->dims table ambiguous by construction')
    return
  rng = M.rng()
  layout = case['layout']
  eq = case['eq']
  nt, nsamp = case['nt'], case['ns']
  if eq == 'dict':
    layout, nsamp = 'nodal', None
  hs = ms if layout == 'modal' else ns_
  prefix_shape, prefix_names = (), ()
  times = sample_ids = None
  if nt is not None:
    times = np.sort(rng.uniform(0, 100, nt))
    prefix_shape, prefix_names = (nt,), ('time',)
  if nsamp is not None:
    sample_ids = np.arange(nsamp) + int(rng.integers(0, 5))
    prefix_shape, prefix_names = (nsamp,) + prefix_shape, ('sample',) + prefix_names

  def arr(shape, k):
    dt = {'float64': np.float64, 'float32': np.float32}.get(case['dtype']) or [np.float64, np.float32, np.int32][k % 3]
    a = np.asarray(rng.standard_normal(tuple(shape))) * 100
    return a.astype(dt)

  lev = prefix_shape + (layers,) + hs
  surf = prefix_shape + (1,) + hs
  flat2 = prefix_shape + hs
  data, kinds = {}, {}
  k = 0
  if eq in ('pe', 'pet'):
    for name in ('vorticity', 'divergence', 'temperature_variation'):
      data[name] = arr(lev, k); kinds[name] = 'level'; k += 1
    data['log_surface_pressure'] = arr(surf, k); kinds['log_surface_pressure'] = 'surface'; k += 1
    if eq == 'pet':
      data['sim_time'] = arr(prefix_shape, 0).astype(np.float64); kinds['sim_time'] = 'scalar'
    if case['tracers']:
      data['tracers'] = {}
      for name in case['tracers']:
        data['tracers'][name] = arr(lev, k); kinds[name] = 'level'; k += 1
    if rng.random() < 0.5:
      data['diagnostics'] = {'diag_level': arr(lev, k), 'diag_surface': arr(surf, k + 1), 'diag_2d': arr(flat2, k + 2)}
      kinds.update({'diag_level': 'level', 'diag_surface': 'surface', 'diag_2d': '2d'})
  elif eq == 'sw':
    for name in ('vorticity', 'divergence', 'potential'):
      data[name] = arr(lev, k); kinds[name] = 'level'; k += 1
  else:  # generic nodal dictionary for xarray_to_data_dict
    for name in ['u', 'v', 'z'][:int(rng.integers(1, 4))]:
      data[name] = arr(lev, k); kinds[name] = 'level'; k += 1
    for name in ['t2m', 'sst'][:int(rng.integers(1, 3))]:
      data[name] = arr(flat2, k); kinds[name] = '2d'; k += 1
  if case.get('jax'):
    conv = lambda a: jnp.asarray(a)
    data_in = {kk: ({n: conv(a) for n, a in vv.items()} if isinstance(vv, dict) else conv(vv)) for kk, vv in data.items()}
  else:
    data_in = {kk: (dict(vv) if isinstance(vv, dict) else vv) for kk, vv in data.items()}
  flat_in = {}
  for kk, vv in data.items():
    if isinstance(vv, dict):
      flat_in.update(vv)
    else:
      flat_in[kk] = vv

  # ---- finding F11 predicate: single-layer system AND a nodal (1, lon, lat) field
  f11 = layers == 1 and layout == 'nodal' and any(kinds[n] in ('level', 'surface') for n in flat_in)
  info = {'grid': cfg, 'vert': v, 'layout': layout, 'eq': eq, 'nt': nt, 'ns': nsamp, 'dtype': case['dtype'],
          'shapes': {n: a.shape for n, a in flat_in.items()}}
  ok, ds = M.no_raise('data_to_xarray_accepts_state', lambda: xu.data_to_xarray(
      data_in, coords=c, times=times, sample_ids=sample_ids), info=info, known='F11' if f11 else None)
  if f11:
    M.cover('known_finding_inputs', 'F11 single-layer nodal (1,lon,lat): ' + ('raised' if not ok else 'accepted'))
  if not ok:
    return
  # ---- dims as documented, values bit-identical
  for name, a in flat_in.items():
    want = _expected_dims(a.shape, prefix_shape, prefix_names, layers, ms, ns_)
    got = tuple(ds[name].dims)
    M.check('dataset_dims_as_documented', want is not None and got in want,
            info={**info, 'var': name, 'got': got, 'want': want}, known='F11' if f11 else None)
    M.same('dataset_values_bit_identical', ds[name].values, a, info={**info, 'var': name})
    M.cover('field_kind', f'{layout}/{kinds[name]}/{"+".join(prefix_names) or "no-prefix"}')
  M.check('dataset_variables', set(ds.data_vars) == set(flat_in), info={'got': sorted(ds.data_vars), 'want': sorted(flat_in)})
  # coordinates of the dimensions present
  used = set()
  for name in flat_in:
    used |= set(ds[name].dims)
  M.check('dataset_coords_are_the_used_dims', set(ds.coords) == used, info={'coords': sorted(ds.coords), 'used': sorted(used)})
  lon, sin_lat = grid.nodal_axes
  wantc = {'lon': np.asarray(lon) * 180 / np.pi, 'lat': np.arcsin(np.asarray(sin_lat)) * 180 / np.pi,
           'longitudinal_mode': np.asarray(grid.modal_axes[0]), 'total_wavenumber': np.asarray(grid.modal_axes[1]),
           'level': np.asarray(vert.centers), 'time': times, 'sample': sample_ids}
  for dim in used:
    if dim in wantc and wantc[dim] is not None:
      M.close('dataset_coordinate_values', ds[dim].values, wantc[dim], 1e-14, info={**info, 'dim': dim})
  back = xu.coordinate_system_from_attrs(ds.attrs)
  M.check('dataset_attrs_carry_coordinate_system', back.vertical == vert and
          all(getattr(back.horizontal, f) == getattr(grid, f) for f in GRID_FIELDS), info=info)

  def readback(dset, tag):
    def cmp_tree(name, got, want):
      if isinstance(want, dict):
        M.check('readback_structure', isinstance(got, dict) and set(got) == set(want),
                info={**info, 'where': name, 'got': sorted(got) if isinstance(got, dict) else str(type(got)), 'want': sorted(want)})
        if isinstance(got, dict):
          for kk in want:
            if kk in got:
              cmp_tree(f'{name}/{kk}', got[kk], want[kk])
      else:
        M.same('readback_bit_identical', got, want, info={**info, 'where': name, 'via': tag})
    if eq == 'pe' or eq == 'pet':
      inc = [t for i, t in enumerate(case['tracers']) if (i + len(case['id'])) % 3 != 0]
      got = xu.xarray_to_primitive_eq_data(dset, tracers_to_include=inc)
      want = {n: data[n] for n in ('vorticity', 'divergence', 'temperature_variation', 'log_surface_pressure')}
      want['tracers'] = {t: data['tracers'][t] for t in inc}
      cmp_tree('primitive_eq', got, want)
      M.cover('readback', f'xarray_to_primitive_eq_data/{tag}')
      if eq == 'pet':
        got = xu.xarray_to_primitive_equations_with_time_data(dset, tracers_to_include=inc)
        want = dict(want, sim_time=data['sim_time'])
        cmp_tree('primitive_eq_with_time', got, want)
        M.cover('readback', f'xarray_to_primitive_equations_with_time_data/{tag}')
      shp = xu.xarray_to_primitive_eq_data(dset, values='shape', tracers_to_include=inc)
      M.check('readback_other_attribute', tuple(shp['vorticity']) == data['vorticity'].shape, info=info)
    elif eq == 'sw':
      got = xu.xarray_to_shallow_water_eq_data(dset)
      cmp_tree('shallow_water', got, {n: data[n] for n in ('vorticity', 'divergence', 'potential')})
      M.cover('readback', f'xarray_to_shallow_water_eq_data/{tag}')
    else:
      got = xu.xarray_to_data_dict(dset)
      want = {}
      for n, a in data.items():
        want[n] = a if kinds[n] == 'level' else np.expand_dims(a, -3)
      cmp_tree('data_dict', got, want)
      M.cover('readback', f'xarray_to_data_dict/{tag}')

  readback(ds, 'memory')
  if case.get('file'):
    eng = _netcdf_engine()
    if eng is None:
      M.unavailable('netcdf_backend')
    else:
      with _tmpdir() as td:
        p = os.path.join(td, 's.nc')
        xu.save_netcdf(ds, p)
        ds2 = xu.open_netcdf(p)
      for name, a in flat_in.items():
        M.check('dataset_dims_as_documented', tuple(ds2[name].dims) == tuple(ds[name].dims),
                info={**info, 'var': name, 'via': 'file'})
      readback(ds2, f'file({eng})')
  n_lev = sum(1 for n in flat_in if kinds[n] == 'level')
  n_oth = sum(1 for n in flat_in if kinds[n] in ('surface', '2d'))
  if n_lev >= 1 and n_oth >= 1:
    M.nontrivial_global('state', cfg, v, layout, eq, nt, nsamp, sorted(case['tracers']), case['dtype'])
  M.cover('dataset', f'{eq}/{layout}/time={nt is not None}/sample={nsamp is not None}/{case["dtype"]}')
  M.cover('layers', '1' if layers == 1 else '>1')
  M.sample({'grid': cfg, 'vert': v, 'dims': {n: ds[n].dims for n in list(flat_in)[:4]}})


# =========================================================================== resampling
def _ref_synthesis(x, gc, gf_cfg, gf):
  """sph_ref synthesis of coefficients x (layout of grid gc) at the nodes of the fine grid."""
  nlon, nlat = gf_cfg['nlon'], gf_cfg['nlat']
  lon = np.asarray(gf.nodal_axes[0])[:nlon] - gf_cfg['offset']
  sin_lat = np.asarray(gf.nodal_axes[1])[:nlat]
  Lc, Mc = gc.total_wavenumbers, gc.longitude_wavenumbers
  P, _ = sph_ref.legendre_table(Lc, Mc, sin_lat)   # [m, lat, l]
  l_axis = np.asarray(gc.modal_axes[1])
  out = np.zeros(x.shape[:-2] + (nlon, nlat))
  mask = np.asarray(gc.mask)
  for i in range(x.shape[-2]):
    if not mask[i].any():
      continue
    m, kind = gen.row_kind(gc, i)
    F, _ = sph_ref.fourier(m, kind, lon)
    for j in range(x.shape[-1]):
      if mask[i, j]:
        out += x[..., i, j][..., None, None] * (F[:, None] * P[m, :, int(l_axis[j])][None, :])
  return out


def _run_resample(case, M):
  import jax  # pylint: disable=import-outside-toplevel
  from dinosaur import coordinate_systems as cs  # pylint: disable=import-outside-toplevel
  from dinosaur import sigma_coordinates as sc  # pylint: disable=import-outside-toplevel
  ca, cb = case['coarse'], case['fine']
  ga, gb = gen.make_grid(ca), gen.make_grid(cb)
  rng = M.rng()
  n = case['layers']
  vert = sc.SigmaCoordinates(gen.sigma_boundaries(rng, n))
  A, B = cs.CoordinateSystem(ga, vert), cs.CoordinateSystem(gb, vert)
  info = {'coarse': ca, 'fine': cb}
  msa, msb = tuple(ga.modal_shape), tuple(gb.modal_shape)
  if msb[0] < msa[0] or msb[1] < msa[1]:
    M.raises('upsample_rejects_smaller_target', lambda: cs.get_spectral_upsample_fn(A, B), (ValueError,), info=info)
    M.cover('pairs', 'padded shapes not nested (rejected as documented)')
    return
  up = cs.get_spectral_upsample_fn(A, B)
  down = cs.get_spectral_downsample_fn(B, A)
  state = {
      'level64': gen.rand_modal(rng, ga, (n,)),
      'surface32': gen.rand_modal(rng, ga, (1,), dtype=np.float32),
      'two_d': gen.rand_modal(rng, ga, ()),
      'batched': gen.rand_modal(rng, ga, (2, n)),
      'hot': np.zeros((1,) + msa),
      'sim_time': 3.5,
      'nested': {'q': gen.rand_modal(rng, ga, (n,), amp=1e-3)},
  }
  idx = gen.basis_indices(ga)
  i, j = idx[-1]
  state['hot'][0, i, j] = 1.0   # highest retained coefficient
  u = up(state)
  d = down(u)

  def leaves(t, pre=''):
    for kk, vv in t.items():
      if isinstance(vv, dict):
        yield from leaves(vv, pre + kk + '/')
      else:
        yield pre + kk, vv
  du, dd, ds_ = dict(leaves(u)), dict(leaves(d)), dict(leaves(state))
  for name, x in ds_.items():
    x = np.asarray(x)
    if x.ndim == 0:
      M.same('resample_scalar_untouched', np.asarray(dd[name], np.float64), np.asarray(x, np.float64), info=info)
      continue
    M.check('upsampled_shape', tuple(np.shape(du[name])) == x.shape[:-2] + msb, info={**info, 'leaf': name, 'got': np.shape(du[name])})
    M.same('down_of_up_is_identity', dd[name], x, info={**info, 'leaf': name})
    # the new entries are zeros, the old block is untouched
    un = np.asarray(du[name])
    M.same('upsample_keeps_coefficients_in_place', un[..., :msa[0], :msa[1]], x, info={**info, 'leaf': name})
    rest = un.copy()
    rest[..., :msa[0], :msa[1]] = 0
    M.zero('upsample_pads_with_zeros', rest, info={**info, 'leaf': name})
  # truncation is the prefix block
  y = {'y': gen.rand_modal(rng, gb, (n,))}
  M.same('downsample_is_prefix_block', down(y)['y'], y['y'][..., :msa[0], :msa[1]], info=info)
  # interpolate_fn dispatch
  strictly_finer = cb['M'] > ca['M'] and cb['L'] > ca['L']
  if strictly_finer:
    f = cs.get_spectral_interpolate_fn(A, B)
    M.same('interpolate_fn_is_upsample', f(state)['level64'], du['level64'], info=info)
  f = cs.get_spectral_interpolate_fn(B, A)
  M.same('interpolate_fn_is_downsample', f(u)['level64'], ds_['level64'], info=info)
  if ca['M'] >= 2:
    mixed = cs.CoordinateSystem(gen.make_grid(gen.grid_cfg(ca['M'] - 1, ca['L'] + 2, ca['nlon'], ca['nlat'] + 2, ca['spacing'],
                                                           impl=ca['impl'])), vert)
    M.raises('interpolate_fn_rejects_mixed', lambda: cs.get_spectral_interpolate_fn(A, mixed), (ValueError,), info=info)
  # vertical mismatch is rejected
  other = cs.CoordinateSystem(gb, sc.SigmaCoordinates.equidistant(n + 1))
  M.raises('resample_rejects_other_vertical', lambda: cs.get_spectral_upsample_fn(A, other), (ValueError,), info=info)
  # ---- the upsampled coefficients represent the same function on the fine grid
  to_nodal = jax.jit(gb.to_nodal)
  xs = np.concatenate([np.asarray(ds_['level64'], np.float64), np.asarray(ds_['two_d'], np.float64)[None],
                       np.asarray(ds_['hot'], np.float64), np.asarray(ds_['surface32'], np.float64)])
  us = np.concatenate([np.asarray(du['level64']), np.asarray(du['two_d'])[None], np.asarray(du['hot']),
                       np.asarray(du['surface32'], np.float64)])
  got = np.asarray(to_nodal(us))[..., :cb['nlon'], :cb['nlat']]
  ref = _ref_synthesis(xs, ga, cb, gb)
  for q in range(xs.shape[0]):
    M.close('upsampled_field_equals_reference_synthesis', got[q], ref[q], 1e-10,
            scale=max(1e-30, float(np.abs(ref[q]).max())), info={**info, 'member': q})
  M.cover('layout', ca['impl'] + ('/padded' if (msa != ((2 * ca['M'] - 1, ca['L']) if ca['impl'] == 'real' else (2 * ca['M'], ca['L']))) else ''))
  M.cover('pairs', 'strictly finer' if strictly_finer else 'same M or L')
  if msb != msa:
    M.nontrivial_global('resample', ca, cb)
  M.sample({'coarse': ca, 'fine': cb, 'modal_shapes': [msa, msb]})


# =========================================================================== pytrees
def _rand_tree(rng, leaf_fn, depth=0, max_depth=2):
  r = rng.random()
  if depth >= max_depth or (depth > 0 and r < 0.35):
    return leaf_fn()
  n = int(rng.integers(1, 4))
  kind = rng.random()
  if kind < 0.5:
    names = rng.choice(['a', 'ab', 'b', 'k0', 'k1', 'time', 'x/y', ''], size=n, replace=False)
    return {str(k): _rand_tree(rng, leaf_fn, depth + 1, max_depth) for k in names}
  if kind < 0.8:
    return tuple(_rand_tree(rng, leaf_fn, depth + 1, max_depth) for _ in range(n))
  return [_rand_tree(rng, leaf_fn, depth + 1, max_depth) for _ in range(n)]


def _run_pytree(case, M):
  import jax  # pylint: disable=import-outside-toplevel
  import jax.numpy as jnp  # pylint: disable=import-outside-toplevel
  from dinosaur import primitive_equations as pe  # pylint: disable=import-outside-toplevel
  from dinosaur import pytree_utils as pu  # pylint: disable=import-outside-toplevel
  from dinosaur import shallow_water as sw  # pylint: disable=import-outside-toplevel
  rng = M.rng(case['sub'])
  tl = jax.tree_util.tree_leaves
  ts = jax.tree_util.tree_structure

  def same_tree(name, got, want, info):
    okk = ts(got) == ts(want)
    M.check(name + '_structure', okk, info={**info, 'got': str(ts(got))[:200], 'want': str(ts(want))[:200]})
    if okk:
      for a, b in zip(tl(got), tl(want)):
        M.same(name, a, b, info=info)

  for trial in range(case['n']):
    dt = [np.float64, np.float32, np.int32][int(rng.integers(3))]
    as_jax = bool(rng.random() < 0.5)
    conv = (lambda a: jnp.asarray(a)) if as_jax else (lambda a: a)
    nd = int(rng.integers(1, 4))
    base = tuple(int(s) for s in rng.integers(1, 4, nd))

    def mk(shape):
      return conv((rng.standard_normal(shape) * 50).astype(dt))

    # ---- pack / unpack: leaves differ along `axis` only
    axis = int(rng.integers(-nd, nd))
    def leaf_pack():
      s = list(base)
      s[axis] = int(rng.integers(1, 5)) if rng.random() > 0.05 else 0
      return mk(tuple(s))
    t = _rand_tree(rng, leaf_pack)
    info = {'trial': trial, 'axis': axis, 'dtype': str(np.dtype(dt)), 'jax': as_jax, 'shapes': [np.shape(x) for x in tl(t)]}
    packed = pu.pack_pytree(t, axis=axis)
    tot = sum(np.shape(x)[axis] for x in tl(t))
    M.check('packed_shape', np.shape(packed)[axis] == tot and np.asarray(packed).dtype == np.dtype(dt), info=info)
    back = pu.unpack_to_pytree(packed, pu.shape_structure(t), axis=axis)
    same_tree('pack_unpack_roundtrip', back, t, info)
    if len({np.shape(x) for x in tl(t)}) >= 2:
      M.nontrivial('pack', trial)
    M.cover('pack_axis', str(axis))
    if trial % 8 == 0:   # default axis=-3
      b3 = (2, 3, 2)
      t3 = {'u': mk((2,) + b3[1:]), 'v': (mk((1,) + b3[1:]), mk((4,) + b3[1:]))}
      same_tree('pack_unpack_roundtrip', pu.unpack_to_pytree(pu.pack_pytree(t3), pu.shape_structure(t3)), t3, {'default_axis': True})

    # ---- stack / unstack: identical shapes, new axis
    sax = int(rng.integers(-nd - 1, nd + 1))
    t2 = _rand_tree(rng, lambda: mk(base))
    info2 = {'trial': trial, 'axis': sax, 'base': base, 'n_leaves': len(tl(t2))}
    st = pu.stack_pytree(t2, axis=sax)
    M.check('stacked_shape', np.shape(st)[sax] == len(tl(t2)) and np.ndim(st) == nd + 1, info=info2)
    same_tree('stack_unstack_roundtrip', pu.unstack_to_pytree(st, pu.shape_structure(t2), axis=sax), t2, info2)
    M.cover('stack_axis', str(sax))
    if trial % 8 == 0:
      same_tree('stack_unstack_roundtrip', pu.unstack_to_pytree(pu.stack_pytree(t2), pu.shape_structure(t2)), t2, {'default_axis': True})

    # ---- split_along_axis / concat_along_axis; heterogeneous ndim, common axis length
    L = int(rng.integers(1, 6))
    ax = int(rng.integers(0, 3))
    def leaf_split():
      ndl = int(rng.integers(ax + 1, ax + 3))
      s = [int(q) for q in rng.integers(1, 3, ndl)]
      s[ax] = L
      d2 = [np.float64, np.float32, np.int32][int(rng.integers(3))]
      return conv((rng.standard_normal(tuple(s)) * 50).astype(d2))
    t3 = _rand_tree(rng, leaf_split)
    k = int(rng.integers(0, L + 1))
    info3 = {'trial': trial, 'axis': ax, 'split_idx': k, 'L': L, 'shapes': [np.shape(x) for x in tl(t3)]}
    a_, b_ = pu.split_along_axis(t3, k, ax)
    M.check('split_sizes', all(np.shape(x)[ax] == k for x in tl(a_)) and all(np.shape(x)[ax] == L - k for x in tl(b_)), info=info3)
    same_tree('split_concat_roundtrip', pu.concat_along_axis([a_, b_], ax), t3, info3)
    if len({np.shape(x) for x in tl(t3)}) >= 2:
      M.nontrivial('split', trial)
    # three-way
    k2 = int(rng.integers(k, L + 1))
    b1, b2 = pu.split_along_axis(b_, k2 - k, ax)
    same_tree('split_concat_roundtrip', pu.concat_along_axis([a_, b1, b2], ax), t3, {**info3, 'three_way': k2})
    # split_axis keep_dims -> concat; without keep_dims -> slices
    parts = pu.split_axis(t3, ax, keep_dims=True)
    M.check('split_axis_count', len(parts) == L, info=info3)
    same_tree('split_axis_roundtrip', pu.concat_along_axis(parts, ax), t3, info3)
    parts0 = pu.split_axis(t3, ax)
    for q in (0, L - 1):
      want = jax.tree_util.tree_map(lambda x: np.take(np.asarray(x), q, axis=ax), t3)   # pylint: disable=cell-var-from-loop
      same_tree('split_axis_roundtrip', parts0[q], want, {**info3, 'piece': q})
      same_tree('slice_along_axis_vs_numpy', pu.slice_along_axis(t3, ax, q), want, {**info3, 'idx': q})
    lo = int(rng.integers(0, L)); hi = int(rng.integers(lo, L + 1)); step = int(rng.choice([1, 1, 2]))
    slc = slice(lo, hi, step)
    want = jax.tree_util.tree_map(lambda x: np.asarray(x)[(slice(None),) * ax + (slc,)], t3)
    same_tree('slice_along_axis_vs_numpy', pu.slice_along_axis(t3, ax, slc), want, {**info3, 'idx': str(slc)})
    M.cover('split_axis', str(ax))

    # ---- tree_map_over_nonscalars
    def leaf_mixed():
      r = rng.random()
      if r < 0.3:
        return float(rng.standard_normal())
      if r < 0.45:
        return conv(np.asarray(rng.standard_normal(), dt))
      return mk(tuple(int(s) for s in rng.integers(1, 4, int(rng.integers(1, 4)))))
    t4 = _rand_tree(rng, leaf_mixed)
    for backend in ('jax', 'numpy'):
      got = pu.tree_map_over_nonscalars(lambda x: x * 2 + 1, t4, scalar_fn=lambda x: -x, backend=backend)
      want = jax.tree_util.tree_map(lambda x: (np.asarray(x) * 2 + 1) if np.ndim(x) else -np.asarray(x), t4)
      okk = ts(got) == ts(want)
      M.check('tree_map_over_nonscalars_vs_reference', okk and all(
          np.array_equal(np.asarray(a), np.asarray(b)) and np.shape(a) == np.shape(b) for a, b in zip(tl(got), tl(want))),
              info={'trial': trial, 'backend': backend, 'tree': str(ts(t4))[:200]})
    got = pu.tree_map_over_nonscalars(lambda x: x + 1, t4)
    want = jax.tree_util.tree_map(lambda x: (np.asarray(x) + 1) if np.ndim(x) else np.asarray(x), t4)
    M.check('tree_map_over_nonscalars_vs_reference', all(np.array_equal(np.asarray(a), np.asarray(b)) for a, b in zip(tl(got), tl(want))),
            info={'trial': trial, 'default_scalar_fn': True})

    # ---- tree_hashable / tree_cache
    t5 = jax.tree_util.tree_map(lambda x: np.asarray(x), t3)
    copy = jax.tree_util.tree_map(lambda x: np.array(x, copy=True), t5)
    h1, h2 = pu.tree_hashable(t5), pu.tree_hashable(copy)
    M.check('tree_hashable_equal_trees', h1 == h2 and hash(h1) == hash(h2), info=info3)
    lv, td_ = jax.tree_util.tree_flatten(t5)
    which = int(rng.integers(len(lv)))
    variants = {}
    pert = list(lv); p = np.array(pert[which], copy=True); p.flat[-1] = p.flat[-1] + 1; pert[which] = p
    variants['value'] = jax.tree_util.tree_unflatten(td_, pert)
    pert = list(lv); pert[which] = pert[which].astype(np.float16 if pert[which].dtype != np.float16 else np.float32)
    variants['dtype'] = jax.tree_util.tree_unflatten(td_, pert)
    pert = list(lv); pert[which] = pert[which].reshape(pert[which].shape + (1,))
    variants['shape'] = jax.tree_util.tree_unflatten(td_, pert)
    variants['structure'] = {'wrapped': t5}
    for kind, tv in variants.items():
      M.check('tree_hashable_distinguishes', pu.tree_hashable(tv) != h1, info={**info3, 'perturbed': kind})
    calls = []
    @pu.tree_cache
    def fn(tree, flag=0):
      calls.append(flag)
      return len(calls)
    r1 = fn(t5); r2 = fn(copy); r3 = fn(variants['value']); r4 = fn(t5, flag=1); r5 = fn(copy, flag=1)
    M.check('tree_cache_calls', len(calls) == 3 and r1 == r2 and r3 != r1 and r4 == r5 and r4 != r1,
            info={**info3, 'calls': len(calls), 'results': [r1, r2, r3, r4, r5]})

    # ---- as_dict
    if trial % 5 == 0:
      arrs = [mk((2, 3)) for _ in range(6)]
      objs = [pe.State(arrs[0], arrs[1], arrs[2], arrs[3], tracers={'q': arrs[4], 'c': arrs[5]}),
              pe.StateWithTime(arrs[0], arrs[1], arrs[2], arrs[3], sim_time=1.5, tracers={'q': arrs[4]}),
              sw.State(arrs[0], arrs[1], arrs[2]), {'a': arrs[0], 'b': {'c': arrs[1]}}]
      for o in objs:
        dct, from_dict = pu.as_dict(o)
        okk = isinstance(dct, dict)
        back = from_dict(dct)
        okk = okk and type(back) is type(o) and ts(back) == ts(o) and all(
            np.asarray(a).dtype == np.asarray(b).dtype and np.array_equal(np.asarray(a), np.asarray(b)) for a, b in zip(tl(back), tl(o)))
        M.check('as_dict_roundtrip', okk, info={'type': type(o).__name__})
      M.raises('as_dict_rejects_other_types', lambda: pu.as_dict((1, 2)), (ValueError,))
  M.sample({'last_pack_tree': str(ts(t))[:200], 'last_split_tree': str(ts(t3))[:200]})


# =========================================================================== dictionaries
KEY_POOL = ['a', 'ab', 'abc', 'ac', 'b', 'ba', 'bb', 'a_b', 'x', 'xy', 'xz', 'time', 'aa', 'A', 'é', '0', '00',
            'a b', ' a', 'a.b', 'a/b', 'a&b', 'a|b', 'a:b', 'a-b', 'a&b&c', 'b&a', 'x/y/z', '&', '/', '.']


def _rand_dict(rng, sep, depth=0, max_depth=4, feats=None, p_empty_key=0.0, p_nul=0.0, p_part=0.0):
  d = {}
  n = int(rng.integers(0, 6)) if depth else int(rng.integers(1, 7))
  names = [str(s) for s in rng.choice(KEY_POOL, size=n, replace=False)]
  if rng.random() < p_empty_key:
    names.append('')
  if rng.random() < p_nul and names:
    names.append(names[0] + '\0' * int(rng.integers(1, 3)))
  if len(sep) > 1 and rng.random() < p_part and names:
    names.append(names[0] + sep[:1])
    names.append(sep[-1:] + names[-2])
  for k in names:
    if sep in k:
      if feats is not None:
        feats['dropped_keys_containing_sep'] = feats.get('dropped_keys_containing_sep', 0) + 1
      continue
    if k in d:
      continue
    r = rng.random()
    if r < 0.30 and depth < max_depth:
      d[k] = _rand_dict(rng, sep, depth + 1, max_depth, feats, p_empty_key * 0.5, p_nul, p_part)
    elif r < 0.50:
      d[k] = {}
    else:
      q = rng.random()
      if q < 0.3:
        d[k] = float(rng.integers(0, 100))
      elif q < 0.4:
        d[k] = None
      elif q < 0.5:
        d[k] = 'text' + str(int(rng.integers(10)))
      elif q < 0.8:
        d[k] = rng.standard_normal(tuple(int(s) for s in rng.integers(0, 4, int(rng.integers(0, 4)))))
      elif q < 0.9:
        d[k] = (1, 'two', 3.0)
      else:
        d[k] = [{'inner': 1}, {}]
  return d


def _walk(d, path=()):
  """Yields (path, value, is_empty_dict) for leaves and empty sub-dictionaries."""
  for k, v in d.items():
    if isinstance(v, dict):
      if v:
        yield from _walk(v, path + (k,))
      else:
        yield path + (k,), v, True
    else:
      yield path + (k,), v, False


def _all_keys(d):
  for k, v in d.items():
    yield k, v
    if isinstance(v, dict):
      yield from _all_keys(v)


def _depth(d):
  return 1 + max([_depth(v) for v in d.values() if isinstance(v, dict)], default=0)


def _leaf_equal(a, b):
  if a is b:
    return True
  if isinstance(a, np.ndarray) or isinstance(b, np.ndarray):
    return isinstance(a, np.ndarray) and isinstance(b, np.ndarray) and a.dtype == b.dtype and a.shape == b.shape and np.array_equal(a, b, equal_nan=True)
  return type(a) is type(b) and a == b


def _tree_equal(a, b):
  if isinstance(a, dict) or isinstance(b, dict):
    if not (isinstance(a, dict) and isinstance(b, dict)) or set(a) != set(b):
      return False
    return all(_tree_equal(a[k], b[k]) for k in a)
  return _leaf_equal(a, b)


def _predicates(d, sep):
  """Known-finding mechanism predicates that apply to (dictionary, separator)."""
  out = []
  if any(k == '' and isinstance(v, dict) for k, v in _all_keys(d)):
    out.append('F9')
  if len(sep) > 1:
    parts_end = {sep[:i] for i in range(1, len(sep))}
    parts_start = {sep[i:] for i in range(1, len(sep))}
    if any(any(k.endswith(p) for p in parts_end) or any(k.startswith(p) for p in parts_start) for k, _ in _all_keys(d) if k):
      out.append('F13')
  leaf_paths = [sep.join(p) for p, _, e in _walk(d) if not e]
  empty_paths = [sep.join(p) for p, _, e in _walk(d) if e]
  for paths in (leaf_paths, empty_paths):
    if len({p.rstrip('\0') for p in paths}) < len(set(paths)):
      out.append('F14')
      break
  return out


def _sanitised(d, sep):
  """Structurally identical twin without the known-finding mechanisms."""
  out = {}
  for k, v in d.items():
    k2 = k.replace('\0', 'N')
    for ch in set(sep):
      if len(sep) > 1:
        k2 = k2.replace(ch, 'S')
    if k2 == '':
      k2 = 'EMPTY'
    while k2 in out:
      k2 += '_'
    out[k2] = _sanitised(v, sep) if isinstance(v, dict) else v
  return out


def _check_dict(M, pu, d, sep, tag, rng, replace_too=True):
  preds = _predicates(d, sep)
  known = preds[0] if preds else None
  info = {'dict': _show(d), 'sep': sep, 'tag': tag}
  kw = {} if sep == '&' and tag.endswith('default-sep') else {'sep': sep}
  ok, res = M.no_raise('flatten_accepts_valid_dictionary', lambda: pu.flatten_dict(d, **kw), info=info, known=known)
  if preds:
    M.cover('known_finding_inputs', '+'.join(preds))
  if ok:
    flat, empty = res
    ref_flat = {sep.join(p): v for p, v, e in _walk(d) if not e}
    ref_empty = sorted(sep.join(p) for p, v, e in _walk(d) if e)
    good = (isinstance(flat, dict) and set(flat) == set(ref_flat) and all(flat[k] is ref_flat[k] for k in ref_flat)
            and sorted(empty) == ref_empty and not any(isinstance(v, dict) for v in flat.values()))
    M.check('flatten_matches_reference', good, known=known,
            info={**info, 'flat_keys': sorted(flat)[:20], 'want_keys': sorted(ref_flat)[:20], 'empty': list(empty)[:20], 'want_empty': ref_empty[:20]})
    ok2, back = M.no_raise('unflatten_accepts_flatten_output', lambda: pu.unflatten_dict(flat, empty, **kw), info=info, known=known)
    if ok2:
      M.check('flatten_unflatten_roundtrip', _tree_equal(back, d), known=known, info={**info, 'back': _show(back)})
  # replace_with_matching_or_default (fixed separator '&')
  if replace_too and sep == '&':
    leaves = [p for p, v, e in _walk(d) if not e]
    chosen = [p for p in leaves if rng.random() < 0.5]
    rep = {}
    for p in chosen:
      cur = rep
      for k in p[:-1]:
        cur = cur.setdefault(k, {})
      cur[p[-1]] = ('new', p)
    default = [None, 0.0, 'dflt'][int(rng.integers(3))]
    def ref(x, r):
      out = {}
      for k, v in x.items():
        if isinstance(v, dict):
          out[k] = ref(v, r.get(k, {}) if isinstance(r.get(k, {}), dict) else {}) if v else {}
        else:
          out[k] = r[k] if (k in r and not isinstance(r[k], dict)) else default
      return out
    ok3, got = M.no_raise('replace_accepts_valid_dictionary', lambda: pu.replace_with_matching_or_default(d, rep, default),
                          info=info, known=known)
    if ok3:
      M.check('replace_with_matching_or_default_vs_reference', _tree_equal(got, ref(d, rep)), known=known,
              info={**info, 'replace': _show(rep), 'got': _show(got)})
    if not preds:
      extra = dict(rep)
      extra['not_a_key_of_x'] = 1
      M.raises('replace_rejects_unused_keys', lambda: pu.replace_with_matching_or_default(d, extra, default), (ValueError,), info=info)
      ok4, got = M.no_raise('replace_accepts_valid_dictionary', lambda: pu.replace_with_matching_or_default(
          d, extra, default, check_used_all_replace_keys=False), info=info)
      if ok4:
        M.check('replace_with_matching_or_default_vs_reference', _tree_equal(got, ref(d, rep)), info={**info, 'unchecked_extra': True})
  return preds


def _show(d, depth=0):
  if isinstance(d, dict):
    if depth > 5:
      return '...'
    return {repr(k)[1:-1]: _show(v, depth + 1) for k, v in d.items()}
  if isinstance(d, np.ndarray):
    return f'array{d.shape}'
  return repr(d)[:30]


def _run_dict(case, M):
  from dinosaur import pytree_utils as pu  # pylint: disable=import-outside-toplevel
  rng = M.rng(case['sub'])
  if case.get('structured'):
    arr = np.arange(3.0)
    strict = [
        ({'ab': {}, 'ac': {}}, '&'),                                   # finding F5 (fixed)
        ({'a': {'ab': {}, 'ac': {}, 'ad': 1}, 'ab': {}, 'b': {'a': {}}}, '&'),
        ({}, '&'), ({'a': {}}, '&'), ({'a': {'b': {'c': {'d': {}}}}}, '&'),
        ({'a': 1, 'a&b': {'c': 3}, 'a&b&c': 4, 'a&b&d': {}}, '/'),
        ({'a': {'b': 2}, 'a/b': 1}, '&'), ({'a.b': 1, 'a': {'b': 2, 'c': {}}}, '&'),
        ({'': 3, 'a': {'': 4, 'b': {}}}, '&'),                          # '' with leaf values: fine
        ({'a': arr, 'b': (1, 2), 'c': [], 'd': None, 'e': [{'x': 1}]}, '&'),
        ({'a ': 1, 'a': 2, ' a': {}}, '&'), ({'x': {'y': {}}, 'x y': {}, 'x_y': 1}, '/'), ({'x': {'y': {}, 'z': {'y': {}}}, 'x_y': 1}, ' '),
    ]
    for i, (d, sep) in enumerate(strict):
      preds = _check_dict(M, pu, d, sep, f'structured-{i}' + ('-default-sep' if i % 2 == 0 else ''), rng)
      M.check('structured_strict_inputs_have_no_known_predicate', not preds, info={'dict': _show(d), 'preds': preds})
    M.raises('flatten_rejects_key_containing_sep', lambda: pu.flatten_dict({'a&b': 1}), (ValueError,))
    M.raises('flatten_rejects_key_containing_sep', lambda: pu.flatten_dict({'a': {'b/c': {}}}, sep='/'), (ValueError,))
    # reproducing cases of the known findings
    known_cases = [({'': {'a': 1}}, '&', 'F9'), ({'': {'a': 1}, 'a': 2}, '&', 'F9'), ({'': {'': 5}}, '&', 'F9'),
                   ({'a:': {':b': 2}}, '::', 'F13'), ({'a': {}, 'a\0': {}}, '&', 'F14'), ({'a\0': 1, 'a': 2}, '&', 'F14')]
    for d, sep, fid in known_cases:
      preds = _check_dict(M, pu, d, sep, f'known-{fid}', rng)
      M.check('known_finding_predicate_selects_reproducer', fid in preds, info={'dict': _show(d), 'preds': preds})
      twin = _sanitised(d, sep)
      M.check('sanitised_twin_has_no_known_predicate', not _check_dict(M, pu, twin, sep[0] if len(sep) > 1 else sep, 'twin', rng))
    M.nontrivial('structured')
    return
  for trial in range(case['n']):
    multi = rng.random() < 0.04
    sep = str(rng.choice(MULTI_SEPS)) if multi else str(rng.choice(SEPS, p=[0.44] + [0.08] * 7))
    feats = {}
    d = _rand_dict(rng, sep, feats=feats, p_empty_key=0.04, p_nul=0.01, p_part=0.3 if multi else 0.0)
    preds = _check_dict(M, pu, d, sep, f't{trial}' + ('-default-sep' if trial % 2 == 0 else ''), rng)
    if preds:
      twin = _sanitised(d, sep)
      tsep = sep if len(sep) == 1 else '&'
      if not any(tsep in k for k, _ in _all_keys(twin)):
        _check_dict(M, pu, twin, tsep, f't{trial}-twin', rng)
    # rejection oracle: a key containing the separator must be rejected
    if trial % 10 == 0 and not preds:
      bad = dict(d)
      bad['p' + sep + 'q'] = 1
      M.raises('flatten_rejects_key_containing_sep', lambda: pu.flatten_dict(bad, sep=sep), (ValueError,),
               info={'dict': _show(bad), 'sep': sep})
    # evidence
    walk = list(_walk(d))
    empties = [p for p, _, e in walk if e]
    n_leaves = sum(1 for _, _, e in walk if not e)
    firsts = [sep.join(p)[:1] for p in empties]
    M.cover('sep', repr(sep))
    M.cover('empty_subdicts', str(min(len(empties), 6)) + ('+' if len(empties) >= 6 else ''))
    if len(firsts) != len(set(firsts)):
      M.cover('adversarial', 'empty sub-dictionaries sharing a first character')
    if any(any(s in k for s in SEPS if s != sep) for k, _ in _all_keys(d)):
      M.cover('adversarial', "keys containing another separator (equal to other keys' paths under it)")
    keys_by_parent = {}
    for p, _, _ in walk:
      for i in range(len(p)):
        keys_by_parent.setdefault(p[:i], set()).add(p[i])
    if any(any(a != b and b.startswith(a) for a in ks for b in ks) for ks in keys_by_parent.values()):
      M.cover('adversarial', 'sibling keys with shared prefixes')
    if any(k == '' for k, _ in _all_keys(d)):
      M.cover('adversarial', 'empty-string key')
    M.cover('depth', str(_depth(d)))
    if len(empties) >= 2 or (_depth(d) >= 2 and n_leaves >= 3):
      M.nontrivial('dict', trial)
    if trial < 2:
      M.sample({'dict': _show(d), 'sep': sep, 'flat': sorted(pu.flatten_dict(_sanitised(d, sep), sep=sep[0])[0])[:10]})


def run(case, M):
  kind = case['kind']
  fn = {'coords': _run_coords, 'state': _run_state, 'resample': _run_resample, 'pytree': _run_pytree,
        'dict': _run_dict}.get(kind)
  if fn is None:
    from vp import core  # pylint: disable=import-outside-toplevel
    raise core.HarnessError(f'unknown case kind {kind}')
  fn(case, M)
