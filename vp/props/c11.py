"""C11 — structural invariants survive any number of steps.

Decided by invariant hooks along trajectories of the real integrators / filters / equations:

 (i)  a Python-driven loop around the jitted `step_with_filters(integrator(eq, dt), filters)`;
      the invariants are evaluated on the concrete state after EVERY step, and at a few steps
      the filters and `implicit_inverse` are applied eagerly to the concrete state to observe
      `sim_time` (and the pass-through fields) bit for bit before / after;
 (ii) inside `lax.scan`: the public `post_process_fn` of `trajectory_from_step` returns the
      invariant residuals of every frame, so states that exist only inside the scan are seen too;

plus the always-on contracts of `vp/contracts.py` (evaluated on the eager calls of every
trajectory) and, in the thorough tier, the repository's own test-suite driven with the contracts
installed (`-p vp.pytest_contracts`, subprocess with a timeout, guard on).  See DESIGN.md §3 C11.
"""
from __future__ import annotations

import json
import os
import subprocess
import sys
import tempfile

import numpy as np

from vp import core, gen, model

RULE = ('cases = trajectories: integrator {backward_forward_euler, crank_nicolson_rk2/3/4, '
        'imex_rk_sil3, semi_implicit_leapfrog} x filter stack {none, exponential, diffusion, '
        'exponential+diffusion; leapfrog: none, leapfrog-exponential + Robert-Asselin, '
        'leapfrog-diffusion + Robert-Asselin} x equation {dry, with time, moist, cloud, shallow water '
        '1-3 layers} x grid T10..T31 (Real / Fast / padded Fast; linear, quadratic, cubic node counts) '
        'x 1-8 uneven sigma levels, 10-50 steps, physical-amplitude admissible initial state '
        '(top wavenumber empty, zero-mean vorticity/divergence) with a uniform tracer q=0.7; '
        'structured list covers every integrator, stack, equation and layout, the seeded stream '
        'samples the product.  Each trajectory is run twice: Python-driven (invariants after every '
        'step) and inside lax.scan (post_process_fn residuals per frame).  A trajectory is '
        'non-trivial if it was not discarded (norm growth <= 10x), completed >= 10 steps in both '
        'modes, and the state moved by >= 1e-3 relative; distinct = (equation, integrator, stack, '
        'grid, levels, env).')
MIN_NONTRIVIAL = {'quick': 10, 'thorough': 70}
_TRAJ_MONITORS = ['top_wavenumber_exact_zero', 'outside_mask_exact_zero', 'mean_vorticity_conserved',
                  'mean_divergence_conserved', 'uniform_tracer_stays_uniform',
                  'uniform_tracer_mean_constant', 'sim_time_advances_by_dt',
                  'sim_time_stays_scalar', 'sim_time_identical_across_filter',
                  'sim_time_identical_across_implicit_inverse',
                  'sw_mean_thickness_conserved',
                  'scan_top_wavenumber_exact_zero', 'scan_outside_mask_exact_zero',
                  'scan_mean_vorticity_conserved', 'scan_mean_divergence_conserved',
                  'scan_uniform_tracer_stays_uniform', 'scan_uniform_tracer_mean_constant',
                  'scan_sim_time_advances_by_dt',
                  'scan_sw_mean_thickness_conserved', 'state_finite']
_CONTRACT_MONITORS = ['contract_to_modal_zero_outside_mask', 'contract_clip_wavenumbers_top_zero',
                      'contract_explicit_terms_clipped', 'contract_implicit_inverse_passthrough',
                      'contract_filter_scaling_in_unit_interval',
                      'contract_sigma_boundaries_increasing']
# In the repository's own test-suite `implicit_inverse` is only ever called under jit (35 traced calls,
# 0 concrete on the unchanged tree): that contract is *inconclusive in the suite* (reported, never
# 'held' there) and is decided by the generated workloads only; the other five must be evaluated.
_SUITE_MONITORS = ['suite_' + m for m in _CONTRACT_MONITORS if 'implicit_inverse' not in m]
REQUIRED_MONITORS = {'quick': _TRAJ_MONITORS + _CONTRACT_MONITORS,
                     'thorough': _TRAJ_MONITORS + _CONTRACT_MONITORS + _SUITE_MONITORS,
                     'all': _TRAJ_MONITORS + _CONTRACT_MONITORS}
ASSUMPTIONS = [
    'initial states have physical amplitudes (wind <= ~60 m/s, T\' ~ 10 K, orography <= 3 km, '
    'dt <= 20 min at T21, scaled with resolution); a trajectory whose max(|vorticity|,|divergence|) '
    'or |T\'| grows > 10x is a discarded workload (CFL), its steps before the growth are still checked',
    'a non-finite state reached in ONE step from a state that had not grown is not a CFL blow-up '
    'and is reported as a violation',
    'grids resolve products of two fields (nlat >= L Gauss nodes, nlon >= 2M-1), as all factory grids do',
    'the Robert-Asselin filter rewrites sim_time of the middle level as (1-2r)c+r(p+f): asserted '
    'equal to c to 1e-9*dt (linear in time), bit-identity is asserted for the newest level only',
    'contracts evaluate on concrete arrays only; tracer calls are counted as skipped; a contract '
    'absent from the table suite_contract_evaluations had no concrete evaluation during the '
    'repository test-suite and is inconclusive there (implicit_inverse_passthrough: jit-only calls)',
    'tests of the repository suite that fail without a ContractViolation (baseline failures: '
    'test_time_filter_variation*, test_distributed_simulation_consistency on one device) are listed, not asserted',
]
TIMEOUT = {'quick': 6000, 'thorough': 30000}   # watchdog only (the shared machine can be 10x slower)

RK_INTEGRATORS = ('backward_forward_euler', 'crank_nicolson_rk2', 'crank_nicolson_rk3',
                  'crank_nicolson_rk4', 'imex_rk_sil3')
LEAPFROG = 'semi_implicit_leapfrog'
RK_STACKS = ('none', 'exp', 'diff', 'exp+diff')
LF_STACKS = ('none', 'lf-exp+ra', 'lf-diff+ra')
EQS = ('dry', 'time', 'moist', 'cloud', 'sw')
UNIFORM_C = 0.7
SQ4PI = model.SQ4PI

# (files, relative cost): the repository's own test files, grouped for load balancing.  Measured
# with the contracts installed: spherical_harmonic_test and primitive_equations_test dominate.
SUITE_GROUPS = [
    (['spherical_harmonic_test.py'], 90.0),
    (['primitive_equations_test.py'], 33.0),
    (['xarray_utils_test.py', 'vertical_interpolation_test.py', 'horizontal_interpolation_test.py'], 43.0),
    (['coordinate_systems_test.py', 'held_suarez_test.py', 'primitive_equations_integration_test.py',
      'sigma_coordinates_test.py'], 42.0),
    (['time_integration_test.py', 'filtering_test.py', 'shallow_water_test.py',
      'shallow_water_states_test.py', 'radiation_test.py', 'jax_numpy_utils_test.py',
      'fourier_test.py', 'associated_legendre_test.py', 'pytree_utils_test.py', 'scales_test.py'], 68.0),
]


# ------------------------------------------------------------------------------------ cases
def _grid(M, kind='quadratic', impl='real', bsm=None, extra=(0, 0)):
  """Resolving Gauss grid with M longitudinal wavenumbers (total L = M+1)."""
  order = {'linear': 2, 'quadratic': 3, 'cubic': 4}[kind]
  nlon = order * M + 1 + extra[0]
  nlat = int(np.ceil((order * M + 1) / 2)) + extra[1]
  return gen.grid_cfg(M, M + 1, nlon, nlat, 'gauss', impl=impl, bsm=bsm)


def _traj(i, eq, integ, stack, grid, layers, steps, dt_min, env='f64', inner=1, swi=False,
          oro=True, tref='random'):
  M = grid['M']
  stages = {'backward_forward_euler': 1, 'crank_nicolson_rk2': 2, 'crank_nicolson_rk3': 3,
            'crank_nicolson_rk4': 5, 'imex_rk_sil3': 3, LEAPFROG: 1}[integ]
  heavy = {'dry': 1.0, 'time': 1.0, 'moist': 1.5, 'cloud': 1.7, 'sw': 0.4}[eq]
  cost = 2.0 + heavy * stages * (0.6 + 0.25 * layers) * (M / 21.0) ** 1.5 * (1 + steps / 200.0)
  return {'id': f't{i}-{eq}{layers}-{integ.replace("crank_nicolson_", "cn").replace("backward_forward_", "bf").replace("semi_implicit_", "")}'
                f'-{stack}-{gen.grid_tag(grid)}-{env}',
          'kind': 'traj', 'eq': eq, 'integrator': integ, 'stack': stack, 'grid': grid,
          'layers': int(layers), 'steps': int(steps), 'dt_min': float(dt_min), 'env': env,
          'inner': int(inner), 'start_with_input': bool(swi), 'oro': bool(oro), 'tref': tref,
          'cost': float(cost)}


def _structured(tier):
  g = _grid
  T = _traj
  out = [
      # every equation class x integrator x stack x layout at least once, small grids
      ('time', 'imex_rk_sil3', 'exp', g(21, 'quadratic', 'real'), 5, 12, 15),
      ('moist', 'crank_nicolson_rk3', 'exp+diff', g(15, 'quadratic', 'fast', 8), 4, 10, 15),
      ('cloud', 'imex_rk_sil3', 'diff', g(12, 'quadratic', 'fast'), 3, 10, 20),
      ('dry', 'backward_forward_euler', 'none', g(10, 'cubic', 'real'), 2, 12, 10),
      ('time', 'crank_nicolson_rk2', 'diff', g(13, 'linear', 'fast', 4), 8, 10, 12),
      ('time', 'crank_nicolson_rk4', 'exp', g(10, 'quadratic', 'real'), 1, 10, 15),
      ('moist', LEAPFROG, 'lf-exp+ra', g(12, 'quadratic', 'fast', 2), 3, 14, 10),
      ('time', LEAPFROG, 'lf-diff+ra', g(10, 'quadratic', 'real'), 4, 12, 10),
      ('sw', LEAPFROG, 'lf-exp+ra', g(21, 'quadratic', 'real'), 1, 20, 10),
      ('sw', 'imex_rk_sil3', 'exp+diff', g(15, 'quadratic', 'fast', 8), 3, 16, 10),
      ('sw', 'crank_nicolson_rk2', 'none', g(12, 'linear', 'fast'), 2, 12, 10),
      ('dry', 'imex_rk_sil3', 'exp', g(12, 'quadratic', 'fast', 8), 6, 10, 15),
  ]
  cases = []
  for i, (eq, integ, stack, grid, layers, steps, dtm) in enumerate(out):
    cases.append(T(f's{i}', eq, integ, stack, grid, layers, steps, dtm,
                   inner=2 if i in (3, 8) else 1, swi=i in (5, 10), oro=i != 3,
                   tref=('constant', 'linear', 'tropopause', 'random')[i % 4]))
  # non-default options of the equation classes (public dataclass fields): no vertical advection,
  # first-order upwind vertical advection -- the structural invariants do not depend on them
  c = T('opt0', 'dry', 'imex_rk_sil3', 'exp', g(10, 'quadratic', 'real'), 4, 10, 12, tref='linear')
  c['eq_opts'] = {'include_vertical_advection': False}
  c['id'] += '-novadv'
  cases.append(c)
  c = T('opt1', 'time', 'crank_nicolson_rk3', 'none', g(10, 'quadratic', 'fast', 4), 5, 10, 12, tref='random')
  c['eq_opts'] = {'vertical_advection': 'upwind'}
  c['id'] += '-upwind'
  cases.append(c)
  if tier == 'thorough':
    more = [
        ('moist', 'imex_rk_sil3', 'exp', g(31, 'quadratic', 'fast', 8), 8, 50, 8),
        ('time', 'crank_nicolson_rk4', 'exp+diff', g(31, 'linear', 'real'), 5, 30, 8),
        ('cloud', 'crank_nicolson_rk3', 'exp', g(21, 'quadratic', 'fast', 8), 6, 40, 12),
        ('sw', LEAPFROG, 'none', g(31, 'quadratic', 'fast', 8), 3, 50, 6),
        ('dry', LEAPFROG, 'none', g(21, 'linear', 'fast'), 5, 30, 8),
        ('moist', 'backward_forward_euler', 'diff', g(21, 'cubic', 'real'), 7, 30, 8),
        ('time', 'imex_rk_sil3', 'none', g(25, 'quadratic', 'real', None, (1, 1)), 4, 30, 10),
        ('cloud', LEAPFROG, 'lf-exp+ra', g(21, 'quadratic', 'real'), 5, 40, 8),
    ]
    for j, (eq, integ, stack, grid, layers, steps, dtm) in enumerate(more):
      cases.append(T(f'S{j}', eq, integ, stack, grid, layers, steps, dtm, inner=1 + j % 3,
                     swi=j % 4 == 1, tref=('random', 'tropopause')[j % 2]))
  return cases


def _random_traj(rng, i, tier):
  eq = str(rng.choice(EQS, p=[0.15, 0.25, 0.25, 0.15, 0.2]))
  integ = str(rng.choice(RK_INTEGRATORS + (LEAPFROG,), p=[0.14, 0.14, 0.14, 0.14, 0.24, 0.2]))
  stack = str(rng.choice(LF_STACKS if integ == LEAPFROG else RK_STACKS))
  if tier == 'quick':
    M = int(rng.integers(10, 19))
    layers = int(rng.integers(1, 6))
    steps = int(rng.integers(10, 17))
  else:
    M = int(rng.choice([10, 12, 15, 18, 21, 21, 24, 26, 31]))
    layers = int(rng.integers(1, 9))
    steps = int(rng.integers(10, 51))
  if eq == 'sw':
    layers = int(rng.integers(1, 4))
  impl, bsm = [('real', None), ('fast', None), ('fast', 8), ('fast', int(rng.choice([2, 4])))][int(rng.integers(4))]
  kind = str(rng.choice(['linear', 'quadratic', 'quadratic', 'cubic']))
  if kind == 'cubic' and M > 21:
    kind = 'quadratic'
  extra = (int(rng.integers(0, 3)), int(rng.integers(0, 2)))
  grid = _grid(M, kind, impl, bsm, extra)
  dt_min = float(rng.uniform(6, 20)) * min(1.0, 21.0 / M)
  return _traj(f'r{i}', eq, integ, stack, grid, layers, steps, dt_min,
               inner=int(rng.choice([1, 1, 2, 3])), swi=bool(rng.random() < 0.3),
               oro=bool(rng.random() < 0.8),
               tref=str(rng.choice(['constant', 'linear', 'tropopause', 'random', 'cooling',
                                    'isothermal_top'])))


def cases(tier, seed):
  out = _structured(tier)
  rng = np.random.default_rng([seed, 1111])
  n_rand = 6 if tier == 'quick' else 100
  for i in range(n_rand):
    out.append(_random_traj(rng, i, tier))
  # float32 "as shipped" pass
  f32 = [('time', 'imex_rk_sil3', 'exp', _grid(12, 'quadratic', 'fast', 8), 3, 10, 15),
         ('sw', LEAPFROG, 'lf-exp+ra', _grid(12, 'quadratic', 'real'), 2, 12, 10)]
  if tier == 'thorough':
    f32 += [('moist', 'crank_nicolson_rk3', 'exp+diff', _grid(21, 'quadratic', 'fast'), 5, 20, 12),
            ('cloud', 'imex_rk_sil3', 'diff', _grid(15, 'quadratic', 'real'), 4, 20, 12),
            ('dry', 'crank_nicolson_rk4', 'none', _grid(15, 'linear', 'fast', 4), 3, 15, 12),
            ('time', LEAPFROG, 'lf-diff+ra', _grid(15, 'quadratic', 'fast', 8), 4, 20, 10)]
  for j, (eq, integ, stack, grid, layers, steps, dtm) in enumerate(f32):
    out.append(_traj(f'f{j}', eq, integ, stack, grid, layers, steps, dtm, env='f32'))
  if tier == 'thorough':
    for k, (files, cost) in enumerate(SUITE_GROUPS):
      out.append({'id': f'suite{k}-' + files[0].replace('_test.py', ''), 'kind': 'suite',
                  'files': files, 'env': 'f32', 'cost': cost})
  return out


# ------------------------------------------------------------------------------------ diagnostics
class _Layout:
  """Index sets of a grid's modal layout used by the invariant hooks."""

  def __init__(self, grid):
    self.modal_shape = tuple(int(s) for s in grid.modal_shape)
    self.L = int(grid.total_wavenumbers)
    self.mask = gen.independent_mask(grid).astype(bool)
    self.outside = ~self.mask
    top = np.zeros(self.modal_shape, bool)
    top[:, self.L - 1:] = True     # the clipped top total wavenumber and the padding behind it
    self.top = top


def _spectral_items(member):
  """[(name, array)] of the spectral leaves of one state (State / StateWithTime / sw.State)."""
  out = []
  for name, v in model.tree_leaves_with_names(member):
    if name == 'sim_time':
      continue
    out.append((name, v))
  return out


def _diag(member, lay, xp, has_uniform):
  """Invariant residuals of one state; works on numpy (xp=np) and traced (xp=jnp) arrays."""
  top = xp.zeros(())
  outside = xp.zeros(())
  nonfinite = xp.zeros((), dtype=bool)
  for _, a in _spectral_items(member):
    a = xp.asarray(a)
    top = xp.maximum(top, xp.max(xp.abs(xp.where(lay.top, a, 0))))
    top = xp.where(xp.any(xp.isnan(xp.where(lay.top, a, 0))), xp.inf, top)
    outside = xp.maximum(outside, xp.max(xp.abs(xp.where(lay.outside, a, 0))))
    outside = xp.where(xp.any(xp.isnan(xp.where(lay.outside, a, 0))), xp.inf, outside)
    nonfinite = nonfinite | ~xp.all(xp.isfinite(a))
  vor, div = xp.asarray(member.vorticity), xp.asarray(member.divergence)
  d = {'top': top, 'outside': outside, 'nonfinite': nonfinite,
       'vor00': vor[..., 0, 0], 'div00': div[..., 0, 0],
       'norm': xp.maximum(xp.max(xp.abs(vor)), xp.max(xp.abs(div)))}
  if hasattr(member, 'temperature_variation'):
    d['tnorm'] = xp.max(xp.abs(xp.asarray(member.temperature_variation)))
  if hasattr(member, 'potential'):
    pot = xp.asarray(member.potential)
    d['pot00'] = pot[..., 0, 0]
    d['potnorm'] = xp.max(xp.abs(pot))
  if has_uniform:
    q = xp.asarray(member.tracers['uniform'])
    e00 = np.zeros(lay.modal_shape, bool)
    e00[0, 0] = True
    d['unif_rest'] = xp.max(xp.abs(xp.where(e00, 0, q)))
    d['unif00'] = q[..., 0, 0]
  if hasattr(member, 'sim_time'):
    d['time'] = xp.asarray(member.sim_time)
  return d


def _np_tree(tree):
  import jax  # pylint: disable=import-outside-toplevel
  return jax.tree_util.tree_map(np.asarray, tree)


# ------------------------------------------------------------------------------------ workload
def _build(case, M, rng):
  """Equation, initial state, dt, filters for one trajectory (all from the case + M.rng)."""
  import jax.numpy as jnp  # pylint: disable=import-outside-toplevel
  from dinosaur import coordinate_systems as cs, filtering, layer_coordinates as lc  # pylint: disable=import-outside-toplevel
  from dinosaur import scales, shallow_water as sw, time_integration as ti  # pylint: disable=import-outside-toplevel
  u = scales.units
  f64 = M.env.startswith('f64')
  dtype = np.float64 if f64 else np.float32
  cfg = dict(case['grid'])
  K = case['layers']
  w = {'dtype': dtype}
  if case['eq'] == 'sw':
    dens = np.sort(rng.uniform(800.0, 1200.0, K))
    specs = sw.ShallowWaterSpecs.from_si(densities=dens * u.kg / u.m ** 3)
    cfg['radius'] = float(specs.radius)
    grid = gen.make_grid(cfg)
    coords = cs.CoordinateSystem(grid, lc.LayerCoordinates(K))
    grid = coords.horizontal
    dt = float(specs.nondimensionalize(case['dt_min'] * u.minute))
    depth = np.sort(rng.uniform(2000.0, 9000.0, K))[::-1]
    ref_pot = (np.asarray(specs.g) * np.asarray(specs.nondimensionalize(depth * u.m))).astype(dtype)
    # velocities: u_nondim = u_SI / (a * 2 Omega) in the default scale (radius 1, 2 Omega = 1)
    vel = float(specs.nondimensionalize(rng.uniform(15.0, 50.0) * u.m / u.s))
    L = grid.total_wavenumbers
    lmax = L - 2
    from dinosaur import spherical_harmonic as sh  # pylint: disable=import-outside-toplevel
    def wind_of(vor, div):
      a, b = sh.vor_div_to_uv_nodal(grid, jnp.asarray(vor), jnp.asarray(div))
      return float(max(np.abs(np.asarray(a)).max(), np.abs(np.asarray(b)).max()))
    vor = gen.rand_modal(rng, grid, (K,), lmax=lmax, decay=1.0, zero_mean=True, lmin=1)
    div = gen.rand_modal(rng, grid, (K,), lmax=lmax, decay=1.0, zero_mean=True, lmin=1)
    vor *= vel / max(wind_of(vor, 0 * div), 1e-300)
    div *= 0.1 * vel / max(wind_of(0 * vor, div), 1e-300)
    pot = np.stack([model._scaled_field(rng, grid, (), lmax, 1.0, 0.08 * float(ref_pot[k]))  # pylint: disable=protected-access
                    for k in range(K)])
    pot[:, 0, 0] = rng.uniform(-0.03, 0.03, K) * ref_pot * SQ4PI
    oro = None
    if case['oro']:
      oro = model._scaled_field(rng, grid, (), min(6, lmax), 1.0,  # pylint: disable=protected-access
                                0.05 * float(ref_pot[-1])).astype(dtype)
    if oro is not None and case.get('oro_top', True):
      # an orography as `grid.to_modal(nodal mountain)` gives it: energy in the top total
      # wavenumber too (nothing in the API asks the caller to clip it)
      Lt = grid.total_wavenumbers - 1
      oro = (oro + 0.05 * float(np.abs(oro).max()) * gen.rand_modal(
          rng, grid, (), lmin=Lt, lmax=Lt)).astype(dtype)
      w['oro_top'] = True
    eq = sw.ShallowWaterEquations(coords, specs, oro, ref_pot)
    state = sw.State(vorticity=vor.astype(dtype), divergence=div.astype(dtype),
                     potential=pot.astype(dtype))
    w.update(has_uniform=False, has_time=False, sw=True)
  else:
    specs = model.make_specs()
    bnd = gen.sigma_boundaries(rng, K, uneven=True, ratio=float(rng.uniform(1.5, 6.0)))
    coords = model.make_coords(cfg, bnd, specs)
    grid = coords.horizontal
    dt = float(specs.nondimensionalize(case['dt_min'] * u.minute))
    tracers = model.EQ_TRACERS[case['eq']] + ('uniform',)
    si = model.phys_state_si(rng, grid, K, decay=float(rng.uniform(0.8, 1.5)),
                             wind=float(rng.uniform(20, 60)), div_wind=float(rng.uniform(1, 5)),
                             dT=float(rng.uniform(4, 12)), dlnps=0.03, tracers=tracers)
    si['tracers']['uniform'][:, 0, 0] = UNIFORM_C * SQ4PI
    with_time = case['eq'] != 'dry'
    state = model.to_state(si, specs, with_time=with_time, dtype=dtype)
    oro_si = model.orography_si(rng, grid, lmax=8, height=float(rng.uniform(500, 3000)) if case['oro'] else 0.0)
    oro = model.nondim_orography(oro_si, specs, dtype)
    if case['oro'] and case.get('oro_top', True):
      Lt = grid.total_wavenumbers - 1
      oro = (oro + 0.05 * float(np.abs(oro).max()) * gen.rand_modal(
          rng, grid, (), lmin=Lt, lmax=Lt)).astype(dtype)
      w['oro_top'] = True
    tref = model.tref_profile(rng, K, case['tref'], centers=coords.vertical.centers)
    opts = dict(case.get('eq_opts') or {})
    if opts.get('vertical_advection') == 'upwind':
      from dinosaur import sigma_coordinates as sigc  # pylint: disable=import-outside-toplevel
      opts['vertical_advection'] = sigc.upwind_vertical_advection
    if opts:
      M.cover('equation_options', ','.join(sorted(case['eq_opts'])))
    eq = model.make_eq(case['eq'], tref.astype(dtype), oro, coords, specs, **opts)
    w.update(has_uniform=True, has_time=with_time, sw=False, boundaries=bnd.tolist())
  # ---- filters
  stack = case['stack']
  atten = float(10 ** rng.uniform(-1.0, np.log10(40.0)))   # attenuation of the top wavenumber per step
  p_exp = dict(tau=dt / atten, order=int(rng.integers(1, 19)),
               cutoff=float(rng.choice([0.0, rng.uniform(0.0, 0.8)])))
  p_diff = dict(tau=dt * float(rng.uniform(2.0, 40.0)), order=int(rng.integers(1, 5)))
  filters, names = [], []
  if stack in ('exp', 'exp+diff'):
    filters.append(ti.exponential_step_filter(grid, dt, **p_exp)); names.append('exponential_step_filter')
  if stack in ('diff', 'exp+diff'):
    filters.append(ti.horizontal_diffusion_step_filter(grid, dt, **p_diff)); names.append('horizontal_diffusion_step_filter')
  if stack == 'lf-exp+ra':
    filters.append(ti.exponential_leapfrog_step_filter(grid, dt, **p_exp)); names.append('exponential_leapfrog_step_filter')
  if stack == 'lf-diff+ra':
    lam = float(np.max(np.abs(np.asarray(grid.laplacian_eigenvalues))))
    scale = dt / (p_diff['tau'] * lam ** p_diff['order'])
    filters.append(ti.leapfrog_step_filter(
        filtering.horizontal_diffusion_filter(grid, scale, p_diff['order'])))
    names.append('leapfrog_step_filter(horizontal_diffusion_filter)')
  if stack.endswith('+ra'):
    filters.append(ti.robert_asselin_leapfrog_filter(float(rng.uniform(0.01, 0.1))))
    names.append('robert_asselin_leapfrog_filter')
  w.update(eq=eq, state=state, dt=dt, grid=grid, coords=coords, filters=filters,
           filter_names=names, filter_params={'exp': p_exp, 'diff': p_diff}, specs=specs)
  return w


def _members(frame, leapfrog):
  return list(frame) if leapfrog else [frame]


def _with_time(state, t):
  import dataclasses  # pylint: disable=import-outside-toplevel
  return dataclasses.replace(state, sim_time=t)


# ------------------------------------------------------------------------------------ run: trajectory
def _run_traj(case, M):
  import jax  # pylint: disable=import-outside-toplevel
  import jax.numpy as jnp  # pylint: disable=import-outside-toplevel
  from dinosaur import time_integration as ti  # pylint: disable=import-outside-toplevel
  from vp import contracts  # pylint: disable=import-outside-toplevel
  contracts.install()
  snap = contracts.snapshot()
  try:
    _traj_body(case, M, jax, jnp, ti)
  except contracts.ContractViolation as e:
    M.event('contract_violation_raised', message=str(e)[:400])
  finally:
    if contracts.installed():
      contracts.report_to_monitor(M, snap)
    else:
      M.unavailable('contracts (guard DINOSAUR_VERIF not set)')


def _traj_body(case, M, jax, jnp, ti):
  f64 = M.env.startswith('f64')
  rng = M.rng()
  w = _build(case, M, rng)
  eq, dt, grid, filters = w['eq'], w['dt'], w['grid'], w['filters']
  lay = _Layout(grid)
  leapfrog = case['integrator'] == LEAPFROG
  has_u, has_t, is_sw = w['has_uniform'], w['has_time'], w['sw']
  N = case['steps']
  tol_mean = 1e-12 if f64 else 1e-6
  tol_unif = 1e-10 if f64 else 1e-4
  tol_time = 1e-9 if f64 else 2e-5
  info = {'case': case['id']}

  s0 = w['state']
  if leapfrog:
    first = _with_time(s0, s0.sim_time + w['dtype'](dt)) if has_t else s0
    init = (s0, first)
  else:
    init = s0
  init = jax.tree_util.tree_map(jnp.asarray, init)
  t0 = [float(np.asarray(m.sim_time)) for m in _members(init, leapfrog)] if has_t else None

  d0 = [_diag(_np_tree(m), lay, np, has_u) for m in _members(init, leapfrog)]
  # the generated initial state must itself be admissible (harness self-check)
  for d in d0:
    if d['top'] != 0 or d['outside'] != 0 or np.abs(d['vor00']).max() != 0 or np.abs(d['div00']).max() != 0:
      raise core.HarnessError('generated initial state is not admissible')
  norm0 = max(float(d['norm']) for d in d0)
  tnorm0 = max(float(d.get('tnorm', 0.0)) for d in d0)
  pot00_0 = [np.array(d['pot00']) for d in d0] if is_sw else None
  potnorm0 = max(float(d.get('potnorm', 0.0)) for d in d0) if is_sw else 0.0
  unif00_0 = [np.array(d['unif00']) for d in d0] if has_u else None

  step_raw = getattr(ti, case['integrator'])(eq, dt)
  step_flt = ti.step_with_filters(step_raw, filters)
  both = jax.jit(lambda u: (step_raw(u), step_flt(u)))

  def check_frame(prefix, ds, n_steps_done, times_expected, scale_tol=1.0):
    """ds: list of per-member diag dicts (numpy) of one frame."""
    for k, d in enumerate(ds):
      M.zero(prefix + 'top_wavenumber_exact_zero', d['top'], info=info)
      M.zero(prefix + 'outside_mask_exact_zero', d['outside'], info=info)
      nrm = max(float(d['norm']), norm0)
      M.small(prefix + 'mean_vorticity_conserved', d['vor00'], nrm, tol_mean, info=info)
      M.small(prefix + 'mean_divergence_conserved', d['div00'], nrm, tol_mean, info=info)
      if is_sw:
        M.close(prefix + 'sw_mean_thickness_conserved', d['pot00'], pot00_0[min(k, len(pot00_0) - 1)],
                tol_mean, scale=max(float(d['potnorm']), potnorm0), info=info)
      if has_u:
        M.small(prefix + 'uniform_tracer_stays_uniform', d['unif_rest'], UNIFORM_C, tol_unif, info=info)
        M.close(prefix + 'uniform_tracer_mean_constant', d['unif00'], unif00_0[min(k, len(unif00_0) - 1)], tol_unif, scale=UNIFORM_C, info=info)
      if has_t and times_expected is not None:
        M.close(prefix + 'sim_time_advances_by_dt', float(d['time']), times_expected[k],
                tol_time * max(1, n_steps_done), scale=dt, info=info)

  def grown(ds):
    for d in ds:
      if bool(d['nonfinite']):
        return 'nonfinite'
      if float(d['norm']) > 10 * norm0 or (tnorm0 > 0 and float(d.get('tnorm', 0.0)) > 10 * tnorm0):
        return 'grown'
      if is_sw and float(d['potnorm']) > 10 * max(potnorm0, 1e-300):
        return 'grown'
    return ''

  # ------------------------------------------------------------ (i) Python-driven loop
  hook_steps = {1, max(1, N // 2), N}
  s = init
  done_i = 0
  discarded = False
  prev_times = t0
  for n in range(1, N + 1):
    raw, s_next = both(s)
    mem = [_np_tree(m) for m in _members(s_next, leapfrog)]
    if has_t:
      # the clock must stay what it was: a 0-d leaf of the state's float type (a filter or an
      # integrator that turns it into an array has touched it)
      shapes = [tuple(np.shape(m.sim_time)) for m in mem]
      ok = all(sh == () for sh in shapes)
      M.check('sim_time_stays_scalar', ok, info={**info, 'step': n, 'shapes': [list(sh) for sh in shapes]})
      if not ok:
        return
    ds = [_diag(m, lay, np, has_u) for m in mem]
    g = grown(ds)
    if g == 'nonfinite':
      # one step from a state that had not grown: not a CFL blow-up
      M.check('state_finite', False, info={**info, 'step': n, 'mode': 'python'})
      return
    M.check('state_finite', True)
    if g == 'grown':
      M.discard('norm grew >10x (CFL): python-driven loop')
      M.cover('discarded_at_step', str(n))
      discarded = True
      break
    texp = None
    if has_t:
      texp = [t0[0] + (n + k) * dt for k in range(len(mem))] if leapfrog else [t0[0] + n * dt]
    check_frame('', ds, n, texp)
    if has_t:
      # per-step increment (the newest level)
      t_new = float(np.asarray(mem[-1].sim_time))
      t_old = prev_times[-1]
      M.close('sim_time_advances_by_dt', t_new - t_old, dt, tol_time if f64 else 2e-5 * (n + 1),
              scale=dt, info={**info, 'step': n})
      prev_times = [float(np.asarray(m.sim_time)) for m in mem]
    if n in hook_steps:
      _filter_hooks(M, jax, s, raw, s_next, filters, w['filter_names'], leapfrog, has_t, dt, tol_time, info, n)
      _inverse_hooks(M, eq, mem[-1], dt, has_t, has_u, is_sw, info)
    s = s_next
    done_i = n
  if not discarded:
    final = _np_tree(_members(s, leapfrog)[-1])
    start = _np_tree(_members(init, leapfrog)[-1])
    moved = float(np.abs(np.asarray(final.vorticity) - np.asarray(start.vorticity)).max()) / norm0
    M.note('state_moved_relative_min', moved, 'min')
  else:
    moved = 0.0

  # eager calls: contract evaluations on concrete arrays + direct tendency checks
  _eager_terms(M, eq, _members(init, leapfrog)[-1], lay, is_sw, has_t, info)

  # ------------------------------------------------------------ (ii) inside lax.scan
  inner = case['inner']
  outer = -(-N // inner)
  swi = case['start_with_input']

  def post(frame):
    return [_diag(m, lay, jnp, has_u) for m in _members(frame, leapfrog)]

  traj = jax.jit(ti.trajectory_from_step(step_flt, outer, inner, start_with_input=swi,
                                         post_process_fn=post))
  final_s, res = traj(init)
  res = _np_tree(res)
  done_ii = 0
  scan_discarded = False
  for j in range(outer):
    ds = [{k: np.asarray(v)[j] for k, v in r.items()} for r in res]
    n = j * inner if swi else (j + 1) * inner
    g = grown(ds)
    if g == 'nonfinite':
      prev_ok = j == 0 or not grown([{k: np.asarray(v)[j - 1] for k, v in r.items()} for r in res])
      if prev_ok and inner == 1:
        M.check('state_finite', False, info={**info, 'frame': j, 'mode': 'scan'})
        return
      g = 'grown'
    if g == 'grown':
      M.discard('norm grew >10x (CFL): scan')
      scan_discarded = True
      break
    texp = None
    if has_t:
      texp = [t0[0] + (n + k) * dt for k in range(len(ds))] if leapfrog else [t0[0] + n * dt]
    check_frame('scan_', ds, max(n, 1), texp)
    done_ii = n
  if not scan_discarded:
    # the final carry of the scan (with start_with_input it is not among the frames)
    n = outer * inner
    ds = [_diag(_np_tree(m), lay, np, has_u) for m in _members(final_s, leapfrog)]
    g = grown(ds)
    if g:
      M.discard('norm grew >10x (CFL): scan')
      scan_discarded = True
    else:
      texp = None
      if has_t:
        texp = [t0[0] + (n + k) * dt for k in range(len(ds))] if leapfrog else [t0[0] + n * dt]
      check_frame('scan_', ds, n, texp)
      done_ii = n
  M.cover('scan_split', f'inner={inner} start_with_input={swi}')

  # ------------------------------------------------------------ bookkeeping
  M.cover('equation', case['eq'] + (str(case['layers']) if is_sw else ''))
  M.cover('integrator x stack', f"{case['integrator']} x {case['stack']}")
  M.cover('layout', f"{case['grid']['impl']}{'-padded' if any(grid.modal_padding) or any(grid.nodal_padding) else ''}")
  M.cover('levels', str(case['layers']))
  M.cover('env', M.env)
  M.note('steps_checked_sum', done_i + done_ii, 'sum')
  if not discarded and not scan_discarded and done_i >= 10 and done_ii >= 10 and moved >= 1e-3:
    M.nontrivial_global(case['eq'], case['integrator'], case['stack'], case['grid'], case['layers'], M.env)
  M.sample({'eq': case['eq'], 'integrator': case['integrator'], 'stack': case['stack'],
            'grid': gen.grid_tag(case['grid']), 'modal_shape': list(lay.modal_shape),
            'levels': case['layers'], 'sigma_boundaries': w.get('boundaries'), 'dt_nondim': dt,
            'steps_python': done_i, 'steps_scan': done_ii, 'filters': w['filter_names'],
            'filter_params': w['filter_params'], 'moved_relative': moved,
            'norm_growth': None if discarded else float(_diag(final, lay, np, has_u)['norm']) / norm0})


def _filter_hooks(M, jax, s, raw, s_next, filters, names, leapfrog, has_t, dt, tol_time, info, n):
  """Apply the filters one by one, eagerly, to the concrete unfiltered step result."""
  cur = raw
  for f, name in zip(filters, names):
    out = f(s, cur)
    if has_t:
      mem_in, mem_out = _members(cur, leapfrog), _members(out, leapfrog)
      for k, (a, b) in enumerate(zip(mem_in, mem_out)):
        newest = k == len(mem_in) - 1
        if np.shape(b.sim_time) != np.shape(a.sim_time):
          M.same('sim_time_identical_across_filter', np.asarray(b.sim_time), np.asarray(a.sim_time),
                 info={**info, 'filter': name, 'step': n, 'member': k})
        elif name == 'robert_asselin_leapfrog_filter' and not newest:
          M.close('sim_time_ra_middle_level', float(np.asarray(b.sim_time)), float(np.asarray(a.sim_time)),
                  tol_time, scale=dt, info={**info, 'filter': name, 'step': n})
        else:
          M.same('sim_time_identical_across_filter', np.asarray(b.sim_time), np.asarray(a.sim_time),
                 info={**info, 'filter': name, 'step': n, 'member': k})
    cur = out
    M.cover('filter_hook', name)
  if not filters and has_t:
    # the empty stack: step_with_filters must hand the step result through untouched
    for a, b in zip(_members(raw, leapfrog), _members(s_next, leapfrog)):
      M.same('sim_time_identical_across_filter', np.asarray(b.sim_time), np.asarray(a.sim_time),
             info={**info, 'filter': 'none', 'step': n})
  # the eager composition equals what step_with_filters produced inside jit
  la = jax.tree_util.tree_leaves(cur)
  lb = jax.tree_util.tree_leaves(s_next)
  for a, b in zip(la, lb):
    a, b = np.asarray(a), np.asarray(b)
    sc = max(float(np.abs(a).max()), 1e-300)
    M.close('filters_eager_equal_jitted_stack', b, a, 1e-12 if a.dtype == np.float64 else 1e-5, scale=sc,
            info={**info, 'step': n})


def _inverse_hooks(M, eq, member, dt, has_t, has_u, is_sw, info):
  """implicit_inverse on a concrete reached state: pass-through fields bit-identical."""
  for eta in (0.5 * dt, dt):
    out = eq.implicit_inverse(member, eta)
    M.same('vorticity_identical_across_implicit_inverse', np.asarray(out.vorticity),
           np.asarray(member.vorticity), info=info)
    if not is_sw:
      for k in member.tracers:
        M.same('tracers_identical_across_implicit_inverse', np.asarray(out.tracers[k]),
               np.asarray(member.tracers[k]), info={**info, 'tracer': k})
    if has_t:
      M.same('sim_time_identical_across_implicit_inverse', np.asarray(out.sim_time),
             np.asarray(member.sim_time), info={**info, 'eta': eta})
    else:
      # classes without a clock: the deciding monitor is fed by the classes that have one
      pass


def _eager_terms(M, eq, member, lay, is_sw, has_t, info):
  """One eager evaluation of the tendencies on the concrete initial state."""
  ex = _np_tree(eq.explicit_terms(member))
  im = _np_tree(eq.implicit_terms(member))
  tol = 1e-12 if np.asarray(ex.vorticity).dtype == np.float64 else 1e-6
  for name, a in _spectral_items(ex):
    a = np.asarray(a)
    M.zero('explicit_terms_top_wavenumber_exact_zero', a[..., lay.top], info={**info, 'leaf': name})
    M.zero('explicit_terms_outside_mask_exact_zero', a[..., lay.outside], info={**info, 'leaf': name})
  for tend, label in ((ex, 'explicit'), (im, 'implicit')):
    sc = max(float(np.abs(np.asarray(tend.divergence)).max()), float(np.abs(np.asarray(tend.vorticity)).max()), 1e-300)
    M.small(f'{label}_tendency_mean_vorticity_zero', np.asarray(tend.vorticity)[..., 0, 0], sc, tol, info=info)
    M.small(f'{label}_tendency_mean_divergence_zero', np.asarray(tend.divergence)[..., 0, 0], sc, tol, info=info)
  if has_t:
    M.check('explicit_time_tendency_is_one', float(np.asarray(ex.sim_time)) == 1.0, info=info)
    M.check('implicit_time_tendency_is_zero', float(np.asarray(im.sim_time)) == 0.0, info=info)


# ------------------------------------------------------------------------------------ run: repo test-suite
def _run_suite(case, M):
  """Drive (a group of files of) the repository's own test-suite with the contracts installed."""
  repo = getattr(M, 'repo', os.path.realpath(os.environ.get('VERIF_REPO', '/repo')))
  here = os.path.dirname(os.path.dirname(os.path.dirname(os.path.abspath(__file__))))
  files = [os.path.join('dinosaur', f) for f in case['files'] if os.path.exists(os.path.join(repo, 'dinosaur', f))]
  if not files:
    raise core.HarnessError(f'no test files of {case["files"]} under {repo}/dinosaur')
  tmp = tempfile.mkdtemp(prefix='vp-c11-suite-')
  rep = os.path.join(tmp, 'report.json')
  env = dict(os.environ)
  env.update({'DINOSAUR_VERIF': '1', 'VP_CONTRACT_REPORT': rep, 'JAX_PLATFORMS': 'cpu',
              'PYTHONPATH': os.pathsep.join([here, os.path.join(here, '.deps')]),
              'PYTHONDONTWRITEBYTECODE': '1', 'PYTHONHASHSEED': '0',
              'XLA_FLAGS': '--xla_force_host_platform_device_count=1 --xla_cpu_multi_thread_eigen=false '
                           'intra_op_parallelism_threads=1'})
  env.pop('JAX_ENABLE_X64', None)
  cmd = [sys.executable, '-m', 'pytest', '-q', '--no-header', '-p', 'no:cacheprovider',
         '-p', 'vp.pytest_contracts', *files]
  try:
    p = subprocess.run(cmd, cwd=repo, env=env, capture_output=True, text=True,
                       timeout=float(os.environ.get('VP_SUITE_TIMEOUT', '3000')))
    tail = (p.stdout + p.stderr)[-1500:]
  except subprocess.TimeoutExpired:
    raise core.HarnessError(f'repository test-suite group {case["files"]} timed out')  # pylint: disable=raise-missing-from
  try:
    with open(rep) as f:
      r = json.load(f)
  except Exception:  # pylint: disable=broad-except
    raise core.HarnessError(f'no contract report from pytest ({case["files"]}); tail: {tail[-600:]}')  # pylint: disable=raise-missing-from
  finally:
    import shutil  # pylint: disable=import-outside-toplevel
    shutil.rmtree(tmp, ignore_errors=True)
  if not r.get('installed'):
    raise core.HarnessError('contracts were not installed in the pytest process')
  if not os.path.realpath(r.get('dinosaur_file', '')).startswith(os.path.realpath(repo)):
    raise core.HarnessError(f'pytest imported dinosaur from {r.get("dinosaur_file")}, not {repo}')
  for name, st in r['stats'].items():
    if st['traced_skipped']:
      M.cover('suite_contract_traced_skipped', name, st['traced_skipped'])
    if st['nonfinite_skipped']:
      M.cover('suite_contract_nonfinite_input_skipped', name, st['nonfinite_skipped'])
    if st.get('underflow_zero_factors'):
      M.cover('suite_contract_underflow_zero_factors(tolerated)', name, st['underflow_zero_factors'])
    if st['evaluated'] > 0 or st['failed'] > 0:
      M.cover('suite_contract_evaluations', name, st['evaluated'])
      for site, n in st['sites'].items():
        M.cover('suite_contract_evaluations_by_site', f'{name} @ {site}', n)
      M.check('suite_contract_' + name, st['failed'] == 0,
              info={'failures': st['failed'], 'first_failure': st['first_failure'],
                    'tests_failed_with_contract_violation': r.get('contract_failed_ids', [])[:5]})
  for name in r.get('unavailable', []):
    M.unavailable('suite_contract_' + name)
  for k, v in r['outcomes'].items():
    M.cover('suite_test_outcomes(contracts installed)', k, v)
  for tid in r.get('failed_ids', []):
    if tid not in r.get('contract_failed_ids', []):
      M.cover('suite_tests_failing_without_contract_violation(baseline failures, not asserted)', tid)
  if r['outcomes']['passed'] > 0:
    M.nontrivial_global('suite', case['files'])
  M.sample({'suite_files': case['files'], 'outcomes': r['outcomes'],
            'contract_evaluations': {k: v['evaluated'] for k, v in r['stats'].items()}}, limit=6)


def run(case, M):
  if case['kind'] == 'suite':
    _run_suite(case, M)
  else:
    _run_traj(case, M)
