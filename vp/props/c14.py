"""C14 — stepping and scan combinators equal their sequential definition for every split.

Differential monitor of dinosaur.time_integration.{trajectory_from_step, repeated,
step_with_filters, nested_checkpoint_scan, accumulate_repeated, digital_filter_initialization}
(and, as a private sub-monitor, _dfi_lanczos_weights) against plain python loops (rk_ref).

* step functions on pytrees carry an application counter and integer-valued float leaves, so
  every frame identifies the step it came from and the comparison with the python loop is
  bit-identical (all arithmetic exact); a real IMEX step of the repository on a small ODE is
  compared to 1e-12.
* the (outer, inner, start_with_input) splits 1..5 x 1..4 x {F,T}, repeated(1..6), all filter
  orders and every ordered factorisation of the scan lengths 1..24 are enumerated completely
  (coverage_tables list each of them).
"""
from __future__ import annotations

import functools
import itertools

import numpy as np

from vp import core
from vp.refs import rk_ref

RULE = ('enumerated completely: trajectory splits outer 1..5 x inner 1..4 x start_with_input (x step kind: '
        'exact counter pytree / real IMEX step; x plain, jitted, post-processed, custom scan functions); '
        'repeated(n) n=1..6 (thorough 1..12); every ordering of up to 3 of 4 non-commuting filters; '
        'every ordered factorisation (factors >= 2) of every scan length 1..24 (thorough 1..36) plus '
        'variants with unit factors, each with xs / without xs / with length, values + stacked outputs '
        '(bit-identical vs lax.scan and vs a python loop, exact arithmetic) and gradients (1e-12); '
        'seeded random: weights / pytrees for accumulate_repeated, DFI parameters. A non-trivial item '
        'is one (combinator, split or factorisation, variant) whose frames/outputs are pairwise '
        'distinct (so an index error cannot hide).')
MIN_NONTRIVIAL = {'quick': 300, 'thorough': 800}
REQUIRED_MONITORS = {'all': [
    'trajectory_frame_is_state_after_k_steps', 'trajectory_equals_python_loop',
    'trajectory_final_state_is_last_state', 'repeated_equals_n_applications',
    'filters_applied_in_order_after_step', 'nested_scan_carry_equals_flat_scan',
    'nested_scan_outputs_equal_flat_scan', 'nested_scan_gradients_equal_flat_scan',
    'nested_scan_inconsistent_length_raises', 'accumulate_repeated_equals_weighted_sum',
    'dfi_steady_state_unchanged', 'dfi_equals_weighted_sum_of_forward_and_reversed_trajectories']}
ASSUMPTIONS = [
    'the python loops in vp/refs/rk_ref.py are the definition of the combinators (docstrings of '
    'trajectory_from_step / repeated / step_with_filters / nested_checkpoint_scan / accumulate_repeated)',
    'bit-identity is asserted only where all arithmetic is exact (integers, small integer-valued '
    'floats) or where the same compiled scan body is compared; otherwise 1e-12',
    'DFI weights are the Lynch-Huang low-pass weights with a Lanczos window, normalised to sum 1 '
    'over the 2N+1 time levels',
]
TIMEOUT = {'quick': 7200, 'thorough': 28800}   # watchdog only (hang -> inconclusive); generous for a loaded machine
TOL = 1e-12


# ------------------------------------------------------------------------------------ cases
def cases(tier, seed):
  quick = tier == 'quick'
  out = []
  for o in range(1, 6):
    out.append({'id': f'traj-outer{o}', 'kind': 'traj', 'env': 'f64', 'outer': o, 'cost': 1.0 + 0.2 * o})
  out.append({'id': 'traj-f32-all-splits', 'kind': 'traj', 'env': 'f32', 'outer': 0, 'cost': 2.0})
  out.append({'id': 'repeated', 'kind': 'rep', 'env': 'f64', 'nmax': 6 if quick else 12, 'cost': 1.0})
  out.append({'id': 'filters', 'kind': 'filt', 'env': 'f64', 'cost': 1.0})
  nmax = 24 if quick else 36
  # group scan lengths so that every case holds a comparable number of factorisations
  groups, cur, load = [], [], 0
  for n in range(1, nmax + 1):
    w = len(rk_ref.ordered_factorisations(n)) + 1
    if cur and load + w > 7:
      groups.append(cur)
      cur, load = [], 0
    cur.append(n)
    load += w
  if cur:
    groups.append(cur)
  for g in groups:
    out.append({'id': 'ncs-len' + '_'.join(map(str, g)), 'kind': 'ncs', 'env': 'f64', 'lengths': g,
                'units': 'edges' if (quick or max(g) > 12) else 'all',
                'cost': 0.4 * sum(len(rk_ref.ordered_factorisations(n)) + 1 for n in g)})
  rng = np.random.default_rng([seed, 1414])
  for i in range(3 if quick else 12):
    out.append({'id': f'acc-{i}', 'kind': 'acc', 'env': 'f64', 'sub': int(rng.integers(1 << 30)),
                'n': 4 if quick else 12, 'cost': 0.8})
  out.append({'id': 'lanczos-weights', 'kind': 'lanczos', 'env': 'f64', 'cost': 0.2})
  for i in range(2 if quick else 8):
    out.append({'id': f'dfi-steady-{i}', 'kind': 'dfi_steady', 'env': 'f64', 'index': i,
                'sub': int(rng.integers(1 << 30)), 'cost': 1.5})
    out.append({'id': f'dfi-oscillator-{i}', 'kind': 'dfi_osc', 'env': 'f64', 'index': i,
                'sub': int(rng.integers(1 << 30)), 'cost': 1.5})
  return out


def _fastjit(fn, *args):
  """jit `fn` for `args` at the cheapest backend optimisation level (compile time dominates
  these tiny programs) and run it; falls back to the default pipeline."""
  import jax  # pylint: disable=import-outside-toplevel
  lowered = jax.jit(fn).lower(*args)
  try:
    exe = lowered.compile(compiler_options={'xla_backend_optimization_level': 0})
  except Exception:  # pylint: disable=broad-except
    exe = lowered.compile()
  return exe(*args)


# ------------------------------------------------------------------------------------ comparison
def _tree_cmp(M, name, got, want, tol=None, info=None):
  """Same pytree structure, same leaf shapes (and dtypes); values identical or within tol."""
  import jax  # pylint: disable=import-outside-toplevel
  tu = jax.tree_util
  gs, ws = tu.tree_structure(got), tu.tree_structure(want)
  if gs != ws:
    M.check(name, False, info={'reason': 'pytree structure differs', 'got': str(gs), 'want': str(ws),
                               **(info or {})})
    return False
  ok = True
  for g, w in zip(tu.tree_leaves(got), tu.tree_leaves(want)):
    g, w = np.asarray(g), np.asarray(w)
    if g.shape != w.shape:
      M.check(name, False, info={'reason': 'leaf shape differs', 'got': list(g.shape),
                                 'want': list(w.shape), **(info or {})})
      ok = False
      continue
    if tol is None:
      ok &= M.same(name, g, w, info=info)
    else:
      ok &= M.close(name, g, w, tol, scale=max(1.0, float(np.abs(w).max()) if w.size else 1.0), info=info)
  return ok


def _distinct_frames(tree):
  """True if the stacked frames are pairwise different in at least one leaf (non-triviality)."""
  import jax  # pylint: disable=import-outside-toplevel
  leaves = [np.asarray(x) for x in jax.tree_util.tree_leaves(tree)]
  if not leaves:
    return False
  n = leaves[0].shape[0]
  rows = [tuple(np.concatenate([l[i].ravel().astype(float) for l in leaves]).tolist()) for i in range(n)]
  return len(set(rows)) == n


# ------------------------------------------------------------------------------------ step functions
def _counter_model(f64=True):
  """Exact-arithmetic step on a nested pytree; every application changes every leaf."""
  import jax.numpy as jnp  # pylint: disable=import-outside-toplevel
  ft = jnp.float64 if f64 else jnp.float32
  it = jnp.int64 if f64 else jnp.int32

  def step(s):
    k = s['k']
    kf = k.astype(ft)
    return {'k': k + 1,
            'x': s['x'] * 2 + 1,
            'nest': ({'a': -s['nest'][0]['a'] + kf}, (s['nest'][1] * 3 + k) % 1009)}
  x0 = {'k': jnp.asarray(7, it), 'x': jnp.asarray([1.0, -2.0, 0.5], ft),
        'nest': ({'a': jnp.asarray([[1.0, 2.0], [3.0, 4.0]], ft)}, jnp.asarray([5, 11], it))}
  post = lambda s: {'ten_k': s['k'] * 10, 'sum_x': s['x'].sum(), 'a00': s['nest'][0]['a'][0, 0]}
  return step, x0, post


def _real_model(rng, solver_name='crank_nicolson_rk2', dt=0.05):
  """A real IMEX step of the repository on a small nonlinear ODE with a pytree state."""
  import jax.numpy as jnp  # pylint: disable=import-outside-toplevel
  from dinosaur import time_integration as ti  # pylint: disable=import-outside-toplevel
  A = jnp.asarray(rng.standard_normal((4, 4)) * 0.4)
  Gm = -np.eye(4) * rng.uniform(0.2, 1.5, 4) + np.triu(rng.standard_normal((4, 4)) * 0.3, 1)
  Gj = jnp.asarray(Gm)

  def flat(s):
    return jnp.concatenate([s['u'], s['v'][None]])

  def unflat(v):
    return {'u': v[:3], 'v': v[3]}
  eq = ti.ImplicitExplicitODE.from_functions(
      lambda s: unflat(A @ flat(s) + 0.2 * jnp.sin(flat(s))),
      lambda s: unflat(Gj @ flat(s)),
      lambda s, eta: unflat(jnp.linalg.solve(jnp.eye(4) - eta * Gj, flat(s))))
  step = getattr(ti, solver_name)(eq, dt)
  x0 = {'u': jnp.asarray(rng.standard_normal(3)), 'v': jnp.asarray(rng.standard_normal())}
  return step, x0, eq


# ------------------------------------------------------------------------------------ trajectory
def _run_traj(case, M):
  import jax  # pylint: disable=import-outside-toplevel
  from dinosaur import time_integration as ti  # pylint: disable=import-outside-toplevel
  f64 = M.env.startswith('f64')
  cstep, cx0, cpost = _counter_model(f64)
  rng = M.rng()
  outers = [case['outer']] if case['outer'] else list(range(1, 6))
  if f64:
    rstep, rx0, _ = _real_model(rng, 'crank_nicolson_rk2')
    rstep_j = jax.jit(rstep)      # the python loop applies the (compiled) step one call at a time
  k0 = int(cx0['k'])
  for outer in outers:
    for inner in range(1, 5):
      for swi in (False, True):
        info = {'outer_steps': outer, 'inner_steps': inner, 'start_with_input': swi}
        key = f'outer={outer} inner={inner} start_with_input={swi}'
        want_final, want_frames = rk_ref.ref_trajectory(cstep, cx0, outer, inner, swi)
        exp_k = k0 + inner * (np.arange(outer) + (0 if swi else 1))
        variants = [('plain', {}, False)]
        extra = f64 and (M.tier != 'quick' or (outer + inner + int(swi)) % 2 == 0)
        if extra:
          variants.append(('post_process', {'post_process_fn': cpost}, True))
          of = rk_ref.ordered_factorisations(outer)[0] if outer > 1 else (1, 1)
          inf = rk_ref.ordered_factorisations(inner)[0] if inner > 1 else (1,)
          variants.append(('nested_scan_fns', {
              'outer_scan_fn': functools.partial(ti.nested_checkpoint_scan, nested_lengths=of),
              'inner_scan_fn': functools.partial(ti.nested_checkpoint_scan, nested_lengths=inf)}, True))
        for vname, kw, jit in variants:
          vinfo = {**info, 'variant': vname, 'step': 'counter pytree'}
          fn = ti.trajectory_from_step(cstep, outer, inner, start_with_input=swi, **kw)
          ok, res = M.no_raise('trajectory_runs', (lambda fn=fn: _fastjit(fn, cx0)) if jit else (lambda fn=fn: fn(cx0)),
                               info=vinfo)
          if not ok:
            continue
          final, frames = res
          if 'post_process_fn' in kw:
            _, wf = rk_ref.ref_trajectory(cstep, cx0, outer, inner, swi, post=cpost)
            ck, mult = 'ten_k', 10
          else:
            wf, ck, mult = want_frames, 'k', 1
          # the frame's own application counter names the step it came from
          if isinstance(frames, dict) and ck in frames:
            fk = np.asarray(frames[ck])
            M.same('trajectory_frame_is_state_after_k_steps', fk, (exp_k * mult).astype(fk.dtype), info=vinfo)
          else:
            M.check('trajectory_frame_is_state_after_k_steps', False,
                    info={**vinfo, 'reason': f'frames carry no leaf {ck!r}'})
          _tree_cmp(M, 'trajectory_equals_python_loop', frames, wf, info=vinfo)
          fin_k = int(final['k']) if isinstance(final, dict) and 'k' in final else None
          M.check('trajectory_final_state_is_last_state', fin_k == k0 + outer * inner,
                  info={**vinfo, 'final_counter': fin_k})
          _tree_cmp(M, 'trajectory_final_state_is_last_state', final, want_final, info=vinfo)
          M.cover('trajectory_splits[counter pytree step]', f'{key} | {vname}')
          if _distinct_frames(frames):
            M.nontrivial('traj', outer, inner, swi, vname, M.env)
        if extra:
          vinfo = {**info, 'variant': 'plain', 'step': 'crank_nicolson_rk2 on a 4-d ODE'}
          final, frames = _fastjit(ti.trajectory_from_step(rstep, outer, inner, start_with_input=swi), rx0)
          wfin, wfr = rk_ref.ref_trajectory(rstep_j, rx0, outer, inner, swi)
          _tree_cmp(M, 'trajectory_equals_python_loop', frames, wfr, tol=TOL, info=vinfo)
          _tree_cmp(M, 'trajectory_final_state_is_last_state', final, wfin, tol=TOL, info=vinfo)
          M.cover('trajectory_splits[real IMEX step]', key)
          if _distinct_frames(frames):
            M.nontrivial('traj-real', outer, inner, swi)
  M.sample({'splits': 'outer x inner x start_with_input', 'outers': outers, 'initial_counter': k0,
            'example': 'outer=2 inner=3 start_with_input=False -> frame counters '
                       f'{[k0 + 3, k0 + 6]}, final counter {k0 + 6}'})


def _run_rep(case, M):
  from dinosaur import time_integration as ti  # pylint: disable=import-outside-toplevel
  cstep, cx0, _ = _counter_model(True)
  rstep, rx0, _ = _real_model(M.rng(), 'imex_rk_sil3')
  for n in range(1, case['nmax'] + 1):
    info = {'steps': n}
    got = ti.repeated(cstep, n)(cx0)
    want = rk_ref.ref_repeated(cstep, n)(cx0)
    M.check('repeated_equals_n_applications', int(got['k']) == int(cx0['k']) + n, info=info)
    _tree_cmp(M, 'repeated_equals_n_applications', got, want, info=info)
    M.cover('repeated', f'n={n} counter pytree')
    for fact in rk_ref.ordered_factorisations(n)[:3]:
      import functools as ft  # pylint: disable=import-outside-toplevel
      ok, got = M.no_raise('repeated_equals_n_applications', lambda fact=fact: ti.repeated(
          cstep, n, scan_fn=ft.partial(ti.nested_checkpoint_scan, nested_lengths=fact))(cx0),
                           info={**info, 'scan_fn': f'nested {fact}'})
      if ok:
        _tree_cmp(M, 'repeated_equals_n_applications', got, want, info={**info, 'scan_fn': f'nested {fact}'})
      M.cover('repeated', f'n={n} scan_fn=nested_checkpoint_scan{fact}')
    got = ti.repeated(rstep, n)(rx0)
    want = rk_ref.ref_repeated(rstep, n)(rx0)
    _tree_cmp(M, 'repeated_equals_n_applications', got, want, tol=TOL, info={**info, 'step': 'imex_rk_sil3'})
    M.cover('repeated', f'n={n} real IMEX step')
    M.nontrivial('rep', n)


def _run_filt(case, M):
  import jax.numpy as jnp  # pylint: disable=import-outside-toplevel
  from dinosaur import time_integration as ti  # pylint: disable=import-outside-toplevel

  def step(s):
    return {'k': s['k'] + 1, 'log': (s['log'] * 10 + 9) % 10 ** 9, 'x': s['x'] * 2 + 1}

  def mk(i):
    if i == 4:
      # through the public adapter for state filters (ignores the pre-step state)
      return ti.runge_kutta_step_filter(
          lambda s: {'k': s['k'], 'log': (s['log'] * 10 + 4) % 10 ** 9, 'x': s['x'] * 6 - 1})
    return lambda u, un: {'k': un['k'], 'log': (un['log'] * 10 + i) % 10 ** 9,
                          'x': un['x'] * (i + 2) + u['x']}
  filters = {i: mk(i) for i in (1, 2, 3, 4)}
  x0 = {'k': jnp.asarray(0, jnp.int64), 'log': jnp.asarray(0, jnp.int64),
        'x': jnp.asarray([1.0, -3.0])}
  seqs = [()]
  for r in (1, 2, 3):
    seqs += list(itertools.permutations((1, 2, 3, 4), r))
  seqs += [(1, 1), (2, 2, 2), (1, 2, 3, 4), (4, 3, 2, 1)]
  for seq in seqs:
    fl = [filters[i] for i in seq]
    info = {'filter_sequence': list(seq)}
    got = ti.step_with_filters(step, fl)(x0)
    want = rk_ref.ref_step_with_filters(step, fl)(x0)
    digits = int('9' + ''.join(map(str, seq)))
    M.check('filters_applied_in_order_after_step', int(got['log']) == digits,
            info={**info, 'log': int(got['log']), 'expected_log': digits})
    _tree_cmp(M, 'filters_applied_in_order_after_step', got, want, info=info)
    # two steps: the second step's filters see the filtered state of the first
    sf = ti.step_with_filters(step, fl)
    got2 = sf(sf(x0))
    rf = rk_ref.ref_step_with_filters(step, fl)
    _tree_cmp(M, 'filters_applied_in_order_after_step', got2, rf(rf(x0)), info={**info, 'steps': 2})
    M.cover('filter_sequences', str(list(seq)))
    if len(seq) >= 2:
      rev = rk_ref.ref_step_with_filters(step, fl[::-1])(x0)
      if any(not np.array_equal(np.asarray(a), np.asarray(b)) for a, b in
             zip([want['log'], want['x']], [rev['log'], rev['x']])) or len(set(seq)) == 1:
        M.nontrivial('filt', seq)
    else:
      M.nontrivial('filt', seq)
  # inside a trajectory: after EVERY step
  for seq in [(1, 2), (3, 1, 2), (2, 4)]:
    fl = [filters[i] for i in seq]
    for outer, inner, swi in [(3, 2, False), (2, 1, True), (2, 3, True)]:
      final, frames = ti.trajectory_from_step(ti.step_with_filters(step, fl), outer, inner,
                                              start_with_input=swi)(x0)
      wfin, wfr = rk_ref.ref_trajectory(rk_ref.ref_step_with_filters(step, fl), x0, outer, inner, swi)
      info = {'filter_sequence': list(seq), 'outer': outer, 'inner': inner, 'start_with_input': swi}
      _tree_cmp(M, 'filters_applied_in_order_after_step', frames, wfr, info=info)
      _tree_cmp(M, 'filters_applied_in_order_after_step', final, wfin, info=info)
      M.cover('filter_sequences', f'{list(seq)} in trajectory {outer}x{inner} swi={swi}')
      M.nontrivial('filt-traj', seq, outer, inner, swi)


# ------------------------------------------------------------------------------------ nested scan
def _run_ncs(case, M):
  import jax  # pylint: disable=import-outside-toplevel
  import jax.numpy as jnp  # pylint: disable=import-outside-toplevel
  from dinosaur import time_integration as ti  # pylint: disable=import-outside-toplevel
  rng = M.rng()

  def f_exact(c, x):
    cc = (c['c'] * 3 + x['p']) % 1000003
    v = -c['v'] + x['q'] + 1.0
    return {'c': cc, 'v': v}, {'o': v * 2 + x['q'], 'i': cc + x['p']}

  def f_exact_noxs(c, _):
    cc = (c['c'] * 3 + 1) % 1000003
    v = -c['v'] * 2 + 1.0
    return {'c': cc, 'v': v}, {'o': v, 'i': cc}

  theta = jnp.asarray(0.9)

  def f_smooth(c, x):
    c2 = {'a': jnp.sin(c['a']) * x['p'] + c['b'], 'b': c['b'] * theta + x['q'].sum()}
    return c2, {'o': c2['a'] * 2, 'z': x['q'] + c['b']}

  def f_smooth_noxs(c, _):
    c2 = {'a': jnp.sin(c['a']) * 1.1 + c['b'], 'b': c['b'] * theta + 0.1}
    return c2, {'o': c2['a'] * 2, 'z': c2['b'] - c['a'][:2]}

  def loss_of(scan, with_xs):
    def L(init, xs):
      c, out = scan(f_smooth if with_xs else f_smooth_noxs, init, xs)
      val = jnp.sum(c['a'] ** 2) + c['b'] + jnp.sum(out['o'] ** 2) + jnp.sum(jnp.sin(out['z']) * 1.5)
      return val, (c, out)
    return L

  for n in case['lengths']:
    xs_e = {'p': jnp.asarray(rng.integers(0, 1000, n), jnp.int64),
            'q': jnp.asarray(rng.integers(-4, 5, (n, 2)).astype(float))}
    init_e = {'c': jnp.asarray(int(rng.integers(0, 1000)), jnp.int64),
              'v': jnp.asarray(rng.integers(-4, 5, 2).astype(float))}
    xs_s = {'p': jnp.asarray(rng.standard_normal((n, 3))), 'q': jnp.asarray(rng.standard_normal((n, 2)))}
    init_s = {'a': jnp.asarray(rng.standard_normal(3)), 'b': jnp.asarray(0.3)}
    # references: flat lax.scan and the python loop (definition)
    flat_e = jax.lax.scan(f_exact, init_e, xs_e)
    loop_e = rk_ref.ref_scan(f_exact, init_e, xs_e)
    _tree_cmp(M, 'harness_selfcheck_flat_scan_equals_python_loop', flat_e, loop_e)
    flat_e0 = jax.lax.scan(f_exact_noxs, init_e, None, length=n)
    loop_e0 = rk_ref.ref_scan(f_exact_noxs, init_e, None, length=n)
    flat = lambda f, i, x: jax.lax.scan(f, i, x, length=n)

    def smooth_flat(init, xs):
      return (jax.value_and_grad(loss_of(flat, True), argnums=(0, 1), has_aux=True)(init, xs),
              jax.value_and_grad(loss_of(flat, False), argnums=0, has_aux=True)(init, None))
    ((_, (rc, ro)), rg), ((_, (rc0, ro0)), rg0) = _fastjit(smooth_flat, init_s, xs_s)
    facts = rk_ref.ordered_factorisations(n)
    todo = [(nl, True) for nl in facts]
    unit_src = facts if case['units'] == 'all' else facts[-1:]
    for nl in unit_src:
      todo += [(u, False) for u in rk_ref.with_unit_factors(nl, case['units'])]
    seen = set()
    for idx, (nl, full) in enumerate(todo):
      if nl in seen:
        continue
      seen.add(nl)
      info = {'length': n, 'nested_lengths': list(nl)}
      tag = f'{n}={"x".join(map(str, nl))}'

      # one compiled program per factorisation (plus one plain eager call per length):
      #  - exact arithmetic body (carries / stacked outputs bit-identical), with xs and xs=None
      #  - smooth body: values and gradients (with xs + length, and xs=None)
      want_smooth = full or n <= 6 or n in (12, 24, 36)
      nest = lambda f, i, x, nl=nl: ti.nested_checkpoint_scan(f, i, x, length=n, nested_lengths=nl)

      def exact(init, xs, nl=nl):
        return (ti.nested_checkpoint_scan(f_exact, init, xs, nested_lengths=nl),
                ti.nested_checkpoint_scan(f_exact_noxs, init, None, length=n, nested_lengths=nl))

      def smooth(init, xs, nest=nest):
        return (jax.value_and_grad(loss_of(nest, True), argnums=(0, 1), has_aux=True)(init, xs),
                jax.value_and_grad(loss_of(nest, False), argnums=0, has_aux=True)(init, None))

      def both(ie, xe, is_, xs_, exact=exact, smooth=smooth, want_smooth=want_smooth):
        return exact(ie, xe), (smooth(is_, xs_) if want_smooth else None)
      ok, res = M.no_raise('nested_scan_accepts_consistent_lengths',
                           lambda: _fastjit(both, init_e, xs_e, init_s, xs_s), info=info)
      if not ok:
        continue
      res_exact, res_smooth = res
      runs = [('jit', res_exact)]
      if idx == 0:
        runs.append(('eager', exact(init_e, xs_e)))
      for how, ((c, o), (c0, o0)) in runs:
        for want, ref in ((flat_e, 'lax.scan'), (loop_e, 'python loop')):
          _tree_cmp(M, 'nested_scan_carry_equals_flat_scan', c, want[0], info={**info, 'ref': ref, 'xs': True, 'how': how})
          _tree_cmp(M, 'nested_scan_outputs_equal_flat_scan', o, want[1], info={**info, 'ref': ref, 'xs': True, 'how': how})
        for want, ref in ((flat_e0, 'lax.scan'), (loop_e0, 'python loop')):
          _tree_cmp(M, 'nested_scan_carry_equals_flat_scan', c0, want[0], info={**info, 'ref': ref, 'xs': None, 'how': how})
          _tree_cmp(M, 'nested_scan_outputs_equal_flat_scan', o0, want[1], info={**info, 'ref': ref, 'xs': None, 'how': how})
      (c, o), _ = res_exact
      M.cover('nested_lengths[values+outputs, with xs and xs=None]', tag)
      if n == 1 or _distinct_frames(o):
        M.nontrivial('ncs', n, nl)
      if res_smooth is None:
        continue
      ((_, (gc, go)), gg), ((_, (gc0, go0)), gg0) = res_smooth
      _tree_cmp(M, 'nested_scan_carry_equals_flat_scan', gc, rc, tol=TOL, info={**info, 'body': 'smooth', 'length_arg': n})
      _tree_cmp(M, 'nested_scan_outputs_equal_flat_scan', go, ro, tol=TOL, info={**info, 'body': 'smooth', 'length_arg': n})
      _tree_cmp(M, 'nested_scan_gradients_equal_flat_scan', gg, rg, tol=TOL, info={**info, 'wrt': '(init, xs)'})
      _tree_cmp(M, 'nested_scan_carry_equals_flat_scan', gc0, rc0, tol=TOL, info={**info, 'body': 'smooth', 'xs': None})
      _tree_cmp(M, 'nested_scan_outputs_equal_flat_scan', go0, ro0, tol=TOL, info={**info, 'body': 'smooth', 'xs': None})
      _tree_cmp(M, 'nested_scan_gradients_equal_flat_scan', gg0, rg0, tol=TOL, info={**info, 'wrt': 'init', 'xs': None})
      pairs = [(np.asarray(x), np.asarray(y)) for x, y in
               zip(jax.tree_util.tree_leaves((gc, go, gg, gc0, go0, gg0)),
                   jax.tree_util.tree_leaves((rc, ro, rg, rc0, ro0, rg0)))]
      if all(x.shape == y.shape for x, y in pairs):
        M.note('nested_vs_flat_smooth_body_max_abs_difference',
               max(float(np.abs(x - y).max()) for x, y in pairs))
      M.cover('nested_lengths[gradients, with xs and xs=None]', tag)
      if not full:
        continue
      # inconsistent lengths must raise
      for bad in (n + 1, n - 1, 2 * n):
        if bad < 1 or bad == n:
          continue
        M.raises('nested_scan_inconsistent_length_raises',
                 lambda nl=nl, bad=bad: ti.nested_checkpoint_scan(f_exact, init_e, xs_e, length=bad, nested_lengths=nl),
                 (ValueError,), info={**info, 'length_arg': bad})
        M.raises('nested_scan_inconsistent_length_raises',
                 lambda nl=nl, bad=bad: ti.nested_checkpoint_scan(f_exact_noxs, init_e, None, length=bad, nested_lengths=nl),
                 (ValueError,), info={**info, 'length_arg': bad, 'xs': None})
      xs_bad = jax.tree_util.tree_map(lambda v: jnp.concatenate([v, v[:1]]), xs_e)
      M.raises('nested_scan_inconsistent_length_raises',
               lambda nl=nl: ti.nested_checkpoint_scan(f_exact, init_e, xs_bad, nested_lengths=nl),
               (ValueError, TypeError), info={**info, 'xs_leading_axis': n + 1})
    if M.tier == 'thorough' and n in (6, 12, 24):
      nl = facts[0]
      c, o = ti.nested_checkpoint_scan(f_exact, init_e, xs_e, nested_lengths=nl, checkpoint_fn=lambda g: g)
      _tree_cmp(M, 'nested_scan_carry_equals_flat_scan', c, flat_e[0], info={'nested_lengths': list(nl), 'checkpoint_fn': 'identity'})
      _tree_cmp(M, 'nested_scan_outputs_equal_flat_scan', o, flat_e[1], info={'nested_lengths': list(nl), 'checkpoint_fn': 'identity'})
  M.sample({'lengths': case['lengths'],
            'factorisations_of_last_length': [list(x) for x in rk_ref.ordered_factorisations(case['lengths'][-1])]})


# ------------------------------------------------------------------------------------ accumulate
def _run_acc(case, M):
  import jax  # pylint: disable=import-outside-toplevel
  import jax.numpy as jnp  # pylint: disable=import-outside-toplevel
  from dinosaur import time_integration as ti  # pylint: disable=import-outside-toplevel
  rng = M.rng(case['sub'])
  cstep, cx0, _ = _counter_model(True)
  fstate = {'x': cx0['x'], 'a': cx0['nest'][0]['a']}
  fstep = lambda s: {'x': s['x'] * 2 + 1, 'a': -s['a'] + 3.0}
  for i in range(case['n']):
    nw = int(rng.integers(1, 9))
    solver = ['crank_nicolson_rk2', 'imex_rk_sil3', 'backward_forward_euler', 'crank_nicolson_rk3'][i % 4]
    rstep, rx0, _ = _real_model(rng, solver, dt=float(rng.uniform(0.02, 0.2)))
    w = rng.standard_normal(nw)
    w[rng.random(nw) < 0.2] = 0.0
    got = ti.accumulate_repeated(rstep, jnp.asarray(w), rx0)
    want = rk_ref.ref_accumulate(jax.jit(rstep), w, rx0)
    sc = float(np.abs(w).sum() + 1e-300) * max(float(np.abs(np.asarray(l)).max()) for l in jax.tree_util.tree_leaves(rx0)) * 3
    for g, wv in zip(jax.tree_util.tree_leaves(got), jax.tree_util.tree_leaves(want)):
      M.check('accumulate_repeated_equals_weighted_sum', np.asarray(g).shape == np.asarray(wv).shape)
      M.close('accumulate_repeated_equals_weighted_sum', g, wv, TOL, scale=max(sc, 1e-12),
              info={'weights': w, 'step': solver})
    # exact arithmetic: dyadic weights, integer-valued states
    wd = rng.choice([0.5, -0.25, 2.0, 1.0, 0.0, -1.5], nw)
    got = ti.accumulate_repeated(fstep, jnp.asarray(wd), fstate)
    want = rk_ref.ref_accumulate(fstep, wd, fstate)
    _tree_cmp(M, 'accumulate_repeated_equals_weighted_sum', got, want, info={'weights': wd, 'step': 'exact'})
    M.cover('accumulate_repeated', f'{nw} weights')
    if np.count_nonzero(w) >= 1:
      M.nontrivial('acc', case['sub'], i)
  M.sample({'weights_example': w, 'state_leaves': 2})


def _run_lanczos(case, M):
  from dinosaur import time_integration as ti  # pylint: disable=import-outside-toplevel
  try:
    f = ti._dfi_lanczos_weights  # pylint: disable=protected-access
  except AttributeError:
    M.unavailable('_dfi_lanczos_weights')
    return
  for N in range(1, 13):
    for ratio in (0.5, 1.0, 2.0, 3.7):
      for dt in (0.1, 1 / 3, 17.0):
        ts = 2 * N * dt
        got = np.asarray(f(ts, ratio * ts, dt))
        want = rk_ref.lanczos_weights(ts, ratio * ts, dt)
        M.check('dfi_lanczos_weights_formula[private]', got.shape == want.shape,
                info={'N': N, 'shape': list(got.shape)})
        if got.shape == want.shape:
          M.close('dfi_lanczos_weights_formula[private]', got, want, TOL, scale=1.0,
                  info={'N': N, 'cutoff/time_span': ratio, 'dt': dt})
        M.cover('lanczos_weights', f'N={N}')
        M.nontrivial('lanczos', N, ratio, dt)


# ------------------------------------------------------------------------------------ DFI
def _dfi_equation(rng, steady):
  import jax.numpy as jnp  # pylint: disable=import-outside-toplevel
  from dinosaur import time_integration as ti  # pylint: disable=import-outside-toplevel
  n = 4
  if steady:
    Gm = rng.standard_normal((n, n)) * 0.5
    A = rng.standard_normal((n, n)) * 0.5
    B = rng.standard_normal((n, n, n)) * 0.3
    ustar = rng.standard_normal(n)
    A, B, ustar = jnp.asarray(A), jnp.asarray(B), jnp.asarray(ustar)
    Gs = jnp.asarray(Gm)
    Ff = lambda v: A @ (v - ustar) + jnp.einsum('ijk,j,k->i', B, v - ustar, v - ustar) \
        + jnp.sin(v - ustar) * 0.2 - Gs @ ustar
    u0 = ustar
  else:
    wf, ws = rng.uniform(2.0, 4.0), rng.uniform(0.2, 0.5)
    Gm = np.zeros((n, n))
    Gm[2:, 2:] = [[0.0, wf], [-wf, 0.0]]
    A = np.zeros((n, n))
    A[:2, :2] = [[0.0, ws], [-ws, 0.0]]
    A[:2, 2:] = rng.standard_normal((2, 2)) * 0.05
    A = jnp.asarray(A)
    Ff = lambda v: A @ v + 0.05 * jnp.sin(v)[::-1]
    u0 = rng.standard_normal(n)
  Gj, eye = jnp.asarray(Gm), jnp.eye(n)
  fl = lambda s: jnp.concatenate([s['slow'], s['fast']])
  un = lambda v: {'slow': v[:2], 'fast': v[2:]}
  eq = ti.ImplicitExplicitODE.from_functions(
      lambda s: un(Ff(fl(s))), lambda s: un(Gj @ fl(s)),
      lambda s, eta: un(jnp.linalg.solve(eye - eta * Gj, fl(s))))
  # the time-reversed equation written out independently: -F, -G, (1 + eta G)^-1
  eq_rev = ti.ImplicitExplicitODE.from_functions(
      lambda s: un(-Ff(fl(s))), lambda s: un(-(Gj @ fl(s))),
      lambda s, eta: un(jnp.linalg.solve(eye + eta * Gj, fl(s))))
  return eq, eq_rev, un(jnp.asarray(u0))


def _run_dfi(case, M, steady):
  import jax  # pylint: disable=import-outside-toplevel
  from dinosaur import time_integration as ti  # pylint: disable=import-outside-toplevel
  rng = M.rng(case['sub'])
  solvers = ['backward_forward_euler', 'crank_nicolson_rk2', 'crank_nicolson_rk3',
             'crank_nicolson_rk4', 'imex_rk_sil3']
  if M.tier == 'quick':
    solvers = [solvers[(3 * case.get('index', 0) + j) % 5] for j in range(3)]
  for j, name in enumerate(solvers):
    eq, eq_rev, u0 = _dfi_equation(rng, steady)
    solver = getattr(ti, name)
    N = int(rng.integers(1, 7))
    dt = float(rng.uniform(0.02, 0.15))
    ts = 2 * N * dt
    cutoff = ts * float(rng.choice([0.5, 1.0, 2.3]))
    filt_sets = [[], [lambda u, un: jax.tree_util.tree_map(lambda a, b: b + 0.3 * (b - a), u, un),
                      lambda u, un: jax.tree_util.tree_map(lambda a, b: 0.9 * b + 0.1 * a, u, un)]]
    filters = filt_sets[j % 2]
    info = {'solver': name, 'N': N, 'dt': dt, 'time_span': ts, 'cutoff_period': cutoff,
            'filters': len(filters)}
    got = _fastjit(ti.digital_filter_initialization(eq, solver, filters, ts, cutoff, dt), u0)
    umax = max(float(np.abs(np.asarray(l)).max()) for l in jax.tree_util.tree_leaves(u0))
    # history: the initialisation function built and traced a second and third time with the same
    # parameters in the same process must give the same state (no weights carried between calls)
    for rep in (2, 3):
      again = _fastjit(ti.digital_filter_initialization(eq, solver, filters, ts, cutoff, dt), u0)
      for g, g2 in zip(jax.tree_util.tree_leaves(got), jax.tree_util.tree_leaves(again)):
        M.close('dfi_repeated_construction_gives_same_result', g2, g, TOL, scale=umax * (2 * N + 1),
                info=dict(info, repetition=rep))
    if steady:
      # N(u*) = 0 with F(u*) = -G u* != 0: every consistent step leaves u* unchanged, and the
      # normalised weights sum to one
      for g, w in zip(jax.tree_util.tree_leaves(got), jax.tree_util.tree_leaves(u0)):
        M.close('dfi_steady_state_unchanged', g, w, TOL, scale=umax * (2 * N + 1), info=info)
      M.cover('dfi_steady', f'{name} N={N} filters={len(filters)}')
      M.nontrivial('dfi-steady', case['sub'], j)
      continue
    fwd = jax.jit(rk_ref.ref_step_with_filters(solver(eq, dt), filters))
    bwd = jax.jit(rk_ref.ref_step_with_filters(solver(eq_rev, dt), filters))
    w = rk_ref.lanczos_weights(ts, cutoff, dt)
    want = rk_ref.ref_dfi(fwd, bwd, w, u0)
    for g, wv in zip(jax.tree_util.tree_leaves(got), jax.tree_util.tree_leaves(want)):
      M.close('dfi_equals_weighted_sum_of_forward_and_reversed_trajectories', g, wv, TOL,
              scale=umax * 3, info=info)
    # the result must actually differ from the input (the filter does something)
    moved = max(float(np.abs(np.asarray(g) - np.asarray(s)).max()) for g, s in
                zip(jax.tree_util.tree_leaves(got), jax.tree_util.tree_leaves(u0)))
    M.note('dfi_oscillator_change_of_state_min', moved, how='min')
    if moved > 1e-6:
      M.nontrivial('dfi-osc', case['sub'], j)
    M.cover('dfi_oscillator', f'{name} N={N} filters={len(filters)}')
    # TimeReversedImExODE against the written-out reversed equation
    rev = ti.TimeReversedImExODE(eq)
    for label, a, b in (('explicit', rev.explicit_terms(u0), eq_rev.explicit_terms(u0)),
                        ('implicit', rev.implicit_terms(u0), eq_rev.implicit_terms(u0)),
                        ('inverse', rev.implicit_inverse(u0, 0.37), eq_rev.implicit_inverse(u0, 0.37))):
      for g, wv in zip(jax.tree_util.tree_leaves(a), jax.tree_util.tree_leaves(b)):
        M.close('time_reversed_equation_terms', g, wv, TOL, scale=umax * 5, info={'term': label})
  M.sample({'kind': 'steady' if steady else 'oscillator', 'last': info})


def run(case, M):
  kind = case['kind']
  if kind == 'traj':
    _run_traj(case, M)
  elif kind == 'rep':
    _run_rep(case, M)
  elif kind == 'filt':
    _run_filt(case, M)
  elif kind == 'ncs':
    _run_ncs(case, M)
  elif kind == 'acc':
    _run_acc(case, M)
  elif kind == 'lanczos':
    _run_lanczos(case, M)
  elif kind == 'dfi_steady':
    _run_dfi(case, M, True)
  elif kind == 'dfi_osc':
    _run_dfi(case, M, False)
  else:
    raise core.HarnessError(f'unknown case kind {kind}')
