"""C20 - physical forcings are bounded, periodic and dissipative.

Bound / periodicity invariants + reference formulas for the top-of-atmosphere solar radiation
(`radiation.get_radiation_flux`, `get_normalized_radiation_flux`, `SolarRadiation`) and
pointwise identities for `held_suarez.HeldSuarezForcing` (drag = -kv() * (vorticity, divergence),
relaxation = to_modal(-kt() * (T - equilibrium_temperature())), rates >= 0, T_eq >= minT, no
surface-pressure tendency, dissipativity).  See DESIGN.md §3 C20.
"""
from __future__ import annotations

import datetime

import numpy as np

from vp import core, gen, model

RULE = ('radiation function cases = batches of (orbital phase, daily phase, longitude, latitude) '
        'points: random, on the terminator (+-1e-13..1e-3 rad), poles, solstices / equinoxes / '
        'perihelion, phases shifted by up to +-1e5 periods, three irradiance settings (documented '
        'defaults 1361/47 W m-2, random, non-dimensional); SolarRadiation cases = (grid, unit scale, '
        'reference datetime) x times (random within +-10 years, negative, huge up to 1e6 days, at the '
        'documented special dates), plain and normalized; Held-Suarez cases = (Gauss / equiangular '
        'grid T5..T21, 2..12 uneven sigma layers, random parameters sigma_b,k_f,k_a,k_s,minT,maxT,dTy,'
        'dThz,p0, unit scale, mean surface pressure 500..1100 hPa) x random admissible (top wavenumber '
        'empty) non-decaying states + zero / resting states. Non-trivial: radiation batch with both '
        'day and night points; Held-Suarez case with levels on both sides of sigma_b (and the T_eq '
        'clamp active at 5-95% of the points, recorded in coverage_tables).')
MIN_NONTRIVIAL = {'quick': 18, 'thorough': 100}
REQUIRED_MONITORS = {'all': [
    'flux_nonnegative', 'flux_le_perihelion_constant', 'normalized_flux_le_one',
    'flux_zero_where_sun_below_horizon', 'flux_equals_irradiance_times_sin_altitude',
    'periodic_in_orbital_phase', 'periodic_in_daily_phase', 'global_mean_is_quarter_of_solar_constant',
    'sr_flux_nonnegative', 'sr_flux_le_perihelion_constant', 'sr_flux_zero_where_sun_below_horizon',
    'sr_flux_equals_irradiance_times_sin_altitude', 'sr_normalized_flux_le_one',
    'sr_global_mean_is_quarter_of_solar_constant', 'sr_periodic_after_4_julian_years',
    'sr_solar_hour_angle_equals_reference',
    'hs_vorticity_tendency_is_minus_kv_vorticity', 'hs_divergence_tendency_is_minus_kv_divergence',
    'hs_drag_exactly_zero_above_boundary_layer', 'hs_temperature_tendency_is_relaxation',
    'hs_kv_nonnegative', 'hs_kt_nonnegative', 'hs_equilibrium_temperature_ge_minT',
    'hs_surface_pressure_tendency_exactly_zero', 'hs_drag_dissipative']}
ASSUMPTIONS = [
    'sun position model as documented in radiation.py: declination = 23.45 deg * sin(phase - equinox '
    '(day 79)), equation of time 9.87 sin 2B - 7.53 cos B - 1.5 sin B minutes, perihelion day 3, '
    '365.25-day year, S = S0 + dS cos(phase - perihelion)',
    'exact-zero night side is asserted where the independently computed sin(altitude) < -margin, '
    'margin = 1e-12 + 8 ulp of the unreduced phase (1e-5 in float32); within the margin only the '
    'value bound |flux - S max(0, sin)| is asserted',
    'global-mean threshold 2e-3 * (32 / n)^2, n = min(nlat, nlon/2), doubled for n < 4 (quadrature error of a '
    'kinked integrand; measured worst 0.83 / n^2 over 50 grids x 4000 times, 1.3 / n^2 for n < 4)',
    'Held-Suarez rates are taken from the object\'s own kv(), kt(), equilibrium_temperature(); the '
    'Held-Suarez (1994) closed forms are reported in notes, not asserted',
    'equiangular_with_poles grids are excluded from Held-Suarez (sec^2(lat) is infinite at the poles)']
TIMEOUT = {'quick': 1500, 'thorough': 5400}

TOL64, TOL32 = 1e-10, 3e-4
S0_SI, DS_SI = 1361.0, 47.0                      # documented W m-2
DAYS_PER_YEAR = 365.25
PERIHELION = 2 * np.pi * 3 / DAYS_PER_YEAR       # Jan 3rd
EQUINOX = 2 * np.pi * 79 / DAYS_PER_YEAR         # March 20th
INCLINATION = np.deg2rad(23.45)


# =============================================================================== reference formulas
def ref_sin_altitude(orb, syn, lon, lat):
  """sin(solar altitude) from the documented model (numpy float64)."""
  b = orb - EQUINOX
  decl = INCLINATION * np.sin(b)
  eot_min = 9.87 * np.sin(2 * b) - 7.53 * np.cos(b) - 1.5 * np.sin(b)
  hour = syn + 2 * np.pi * eot_min / 1440.0 + lon - np.pi
  return np.cos(lat) * np.cos(decl) * np.cos(hour) + np.sin(lat) * np.sin(decl), hour


def ref_irradiance(orb, s0, ds):
  return s0 + ds * np.cos(orb - PERIHELION)


def ref_orbital_phase_of(when: datetime.datetime):
  """Phase 0 / 2pi = January 1st 00:00 of the year of `when`; daily phase 0 = midnight."""
  y0 = datetime.datetime(when.year, 1, 1)
  y1 = datetime.datetime(when.year + 1, 1, 1)
  frac_year = (when - y0).total_seconds() / (y1 - y0).total_seconds()
  frac_day = (when - datetime.datetime(when.year, when.month, when.day)).total_seconds() / 86400.0
  return 2 * np.pi * frac_year, 2 * np.pi * frac_day


def _close_pt(M, name, got, want, tol, tol_pt, **kw):
  """|got - want| <= tol_pt pointwise (tol_pt >= tol broadcastable), recorded against `tol`."""
  got, want = np.asarray(got, np.float64), np.asarray(want, np.float64)
  return M.close(name, (got - want) * (tol / np.asarray(tol_pt, np.float64)), np.zeros(np.broadcast_shapes(got.shape, want.shape)),
                 tol, scale=1.0, **kw)


# =============================================================================== case lists
def _hs_grids(quick):
  g = gen.grid_cfg
  out = [g(5, 6, 16, 8), g(5, 6, 16, 8, impl='fast'), g(8, 9, 25, 13, offset=0.3),
         g(8, 9, 24, 12, impl='fast'), g(6, 7, 19, 20, 'equiangular'), g(8, 9, 16, 9),
         g(10, 11, 31, 16, impl='fast', offset=-1.0), g(6, 8, 19, 14, 'equiangular', impl='fast')]
  if not quick:
    out += [gen.factory_cfg('T21', 'fast'), gen.factory_cfg('T21', 'real', offset=0.2),
            gen.factory_cfg('TL31', 'fast'), g(21, 22, 64, 44, 'equiangular', impl='fast'),
            g(12, 13, 37, 19), g(3, 4, 10, 5), g(14, 16, 43, 22, impl='fast')]
  return out


def _rad_grids(quick):
  g = gen.grid_cfg
  out = [g(1, 2, 64, 32), g(1, 2, 48, 24, 'equiangular', offset=0.37), g(1, 2, 40, 21, 'equiangular_with_poles'),
         g(1, 2, 25, 13, offset=-2.0), g(1, 2, 16, 8), g(1, 2, 33, 40, 'equiangular', offset=5.0)]
  if not quick:
    out += [gen.factory_cfg('T21', 'fast'), gen.factory_cfg('T42', 'fast', offset=0.1),
            gen.factory_cfg('TL63', 'real', spacing='equiangular'), g(1, 2, 8, 4), g(1, 2, 5, 3, 'equiangular_with_poles'),
            g(1, 2, 96, 12), g(1, 2, 12, 48, 'equiangular'), gen.factory_cfg('T85', 'fast')]
  return out


_REF_DATES = ['1979-01-01T00:00', '1979-07-04T00:00', '2000-02-29T12:00', '2019-12-31T23:59',
              '1996-03-20T06:30', '2024-06-21T18:00', '1970-01-01T00:00', '2023-01-03T00:00']


def cases(tier, seed):
  quick = tier == 'quick'
  rng = np.random.default_rng([seed, 120])
  out = []
  # ---- radiation functions
  n_fn = 8 if quick else 100
  for i in range(n_fn):
    out.append({'id': f'fn{i}', 'kind': 'fn', 'n': 60 if quick else 110, 'irr': ['si', 'random', 'nondim'][i % 3],
                'sub': int(rng.integers(1 << 30)), 'env': 'f64' if i % 5 else 'f32', 'cost': 1.0})
  # ---- SolarRadiation objects
  grids = _rad_grids(quick)
  n_sr = 8 if quick else 36
  for i in range(n_sr):
    gcfg = grids[i % len(grids)]
    scale = None if i % 3 == 0 else ('atmospheric' if i % 3 == 1 else model.random_scale_desc(rng))
    out.append({'id': f'sr{i}-{gen.grid_tag(gcfg)}', 'kind': 'sr', 'grid': gcfg, 'scale': scale,
                'ref_date': _REF_DATES[int(rng.integers(len(_REF_DATES)))] if i else _REF_DATES[0],
                'ntimes': 24 if quick else 48, 'np_datetime': bool(i % 2),
                'sub': int(rng.integers(1 << 30)), 'env': 'f64' if i % 5 != 4 else 'f32',
                'cost': 1.5 + gcfg['nlon'] * gcfg['nlat'] / 4000})
  # ---- Held-Suarez
  hg = _hs_grids(quick)
  n_hs = 12 if quick else 60
  for i in range(n_hs):
    gcfg = hg[i % len(hg)]
    layers = int(rng.integers(2, 13)) if i else 7
    scale = None if i % 3 == 0 else ('atmospheric' if i % 3 == 1 else model.random_scale_desc(rng))
    state = 'random' if i % 7 != 6 else ['zero', 'rest_warm', 'single_mode'][(i // 7) % 3]
    out.append({'id': f'hs{i}-{gen.grid_tag(gcfg)}-L{layers}', 'kind': 'hs', 'grid': gcfg, 'layers': layers,
                'scale': scale, 'state': state, 'defaults': i % 5 == 0, 'sub': int(rng.integers(1 << 30)),
                'env': 'f64' if i % 4 != 3 else 'f32',
                'cost': 2.0 + layers * gcfg['M'] * gcfg['nlat'] * gcfg['nlon'] / 3e4})
  # edges of the admissible forcing parameters (rates may vanish: frictionless, no boundary-layer
  # enhancement, no relaxation; no vertical / meridional contrast)
  for j, edge in enumerate(('kf0', 'ka_eq_ks', 'ka0_ks0', 'dThz0_dTy0', 'sigma_b_tiny')):
    gcfg = hg[j % len(hg)]
    out.append({'id': f'hs-edge-{edge}-{gen.grid_tag(gcfg)}', 'kind': 'hs', 'grid': gcfg, 'layers': 5,
                'scale': None if j % 2 == 0 else 'atmospheric', 'state': 'random', 'defaults': False,
                'edge': edge, 'sub': 1000 + j, 'env': 'f64',
                'cost': 2.0 + 5 * gcfg['M'] * gcfg['nlat'] * gcfg['nlon'] / 3e4})
  return out


# =============================================================================== radiation functions
def _points(rng, n, f64):
  """Random + adversarial (orbital phase, daily phase, lon, lat) points, each of length ~n."""
  orb = rng.uniform(0, 2 * np.pi, n)
  syn = rng.uniform(0, 2 * np.pi, n)
  lon = rng.uniform(-np.pi, 3 * np.pi, n)
  lat = np.arcsin(rng.uniform(-1, 1, n))
  kinds = np.array(['random'] * n, dtype=object)
  k = n // 6
  # special orbital phases: solstices, equinoxes, perihelion, aphelion, year boundaries
  special = np.array([EQUINOX, EQUINOX + np.pi / 2, EQUINOX + np.pi, EQUINOX + 3 * np.pi / 2, PERIHELION,
                      PERIHELION + np.pi, 0.0, 2 * np.pi])
  orb[:k] = rng.choice(special, k)
  kinds[:k] = 'special_orbital_phase'
  # poles (and almost-poles)
  lat[k:2 * k] = rng.choice([np.pi / 2, -np.pi / 2, np.pi / 2 - 1e-9, -np.pi / 2 + 1e-9], k)
  kinds[k:2 * k] = 'pole'
  # terminator: choose lon so that the hour angle puts the sun on the horizon, +- a small distance
  sl = slice(2 * k, 4 * k)
  b = orb[sl] - EQUINOX
  decl = INCLINATION * np.sin(b)
  lat_t = np.arcsin(rng.uniform(-0.9, 0.9, 2 * k))
  c = -np.tan(lat_t) * np.tan(decl)
  ok = np.abs(c) < 1
  h0 = np.where(ok, np.arccos(np.clip(c, -1, 1)), 0.0) * rng.choice([-1.0, 1.0], 2 * k)
  dist = rng.choice([0.0, 1e-13, -1e-13, 1e-9, -1e-9, 1e-6, -1e-6, 1e-3, -1e-3], 2 * k)
  eot = 2 * np.pi * (9.87 * np.sin(2 * b) - 7.53 * np.cos(b) - 1.5 * np.sin(b)) / 1440.0
  lon[sl] = np.where(ok, h0 + dist + np.pi - syn[sl] - eot, lon[sl])
  lat[sl] = np.where(ok, lat_t, lat[sl])
  kinds[sl] = np.where(ok, 'terminator', 'random')
  # shifted phases (negative and huge): exact multiples of the period are added later by the caller
  return orb, syn, lon, lat, kinds


def _irr(mode, rng, specs_mod):
  if mode == 'si':
    return S0_SI, DS_SI
  if mode == 'random':
    s0 = float(10 ** rng.uniform(0, 4))
    return s0, float(s0 * rng.choice([0.0, rng.uniform(0, 0.2)]))
  sc = float(10 ** rng.uniform(-12, 3))        # some non-dimensionalisation of W m-2
  return S0_SI * sc, DS_SI * sc


def _run_fn(case, M):
  import jax  # pylint: disable=import-outside-toplevel
  from dinosaur import radiation as rad  # pylint: disable=import-outside-toplevel
  f64 = M.env.startswith('f64')
  dt = np.float64 if f64 else np.float32
  eps = np.finfo(dt).eps
  rng = M.rng(case['sub'])
  n = case['n']
  orb, syn, lon, lat, kinds = _points(rng, n, f64)
  s0, ds = _irr(case['irr'], rng, None)
  smax = s0 + ds
  orb, syn, lon, lat = (x.astype(dt) for x in (orb, syn, lon, lat))
  both_fn = jax.jit(lambda o, s, lo, la, a, b: (
      rad.get_radiation_flux(rad.OrbitalTime(o, s), lo, la, a, b),
      rad.get_normalized_radiation_flux(rad.OrbitalTime(o, s), lo, la, a, b)))
  flux_fn = lambda *args: both_fn(*args)[0]
  a_, b_ = dt(s0), dt(ds)
  s0r, dsr = float(a_), float(b_)                 # what the code actually receives
  smax_r = s0r + dsr
  info = {'S0': s0r, 'dS': dsr}
  tol = TOL64 if f64 else TOL32

  def check_batch(o, s, lo, la, tag, unreduced):
    fl, nf = (np.asarray(x) for x in both_fn(o, s, lo, la, a_, b_))
    M.check('output_shape_dtype', fl.shape == np.broadcast_shapes(o.shape, lo.shape, la.shape)
            and fl.dtype == dt and nf.shape == fl.shape, info={'shape': fl.shape, 'dtype': str(fl.dtype)})
    o64, s64, lo64, la64 = (np.asarray(x, np.float64) for x in (o, s, lo, la))
    sa, _ = ref_sin_altitude(o64, s64, lo64, la64)
    S = ref_irradiance(o64, s0r, dsr)
    S, sa = np.broadcast_arrays(S, sa)
    margin = (1e-12 if f64 else 1e-5) + 32 * eps * unreduced
    fl64, nf64 = fl.astype(np.float64), nf.astype(np.float64)
    M.check('flux_nonnegative', bool((fl >= 0).all()) and bool((nf >= 0).all()),
            info={**info, 'min': float(fl.min()), 'tag': tag})
    M.le('flux_le_perihelion_constant', fl64.max() / smax_r, 1.0, slack=16 * eps, info={**info, 'tag': tag})
    M.le('normalized_flux_le_one', nf64.max(), 1.0, slack=16 * eps, info={**info, 'tag': tag})
    night = sa < -margin
    M.zero('flux_zero_where_sun_below_horizon', np.where(night, fl, 0), info={**info, 'tag': tag})
    M.zero('flux_zero_where_sun_below_horizon', np.where(night, nf, 0), info={**info, 'tag': tag})
    want = S * np.maximum(sa, 0.0)
    _close_pt(M, 'flux_equals_irradiance_times_sin_altitude', fl64 / smax_r, want / smax_r, tol,
              tol + 32 * eps * unreduced, info={**info, 'tag': tag})
    M.close('normalized_equals_flux_over_perihelion_constant', nf64, fl64 / smax_r, 1e-13 if f64 else 1e-5,
            scale=1.0, info={**info, 'tag': tag})
    M.cover('points', 'night (exact zero asserted)', int(night.sum()))
    M.cover('points', 'day', int((sa > margin).sum()))
    M.cover('points', 'within terminator margin', int((np.abs(sa) <= margin).sum()))
    return fl64, night, sa

  fl0, night, sa = check_batch(orb, syn, lon, lat, 'pointwise', 2 * np.pi)
  for kd in np.unique(kinds):
    M.cover('point_kind', str(kd), int((kinds == kd).sum()))
  # ---- periodicity in both phases (integer numbers of periods, negative and huge)
  ks = np.array([1, -1, 2, -3, 7, 365, -1461, 10 ** 3, -10 ** 4, 10 ** 5])
  kk = ks if f64 else ks[:5]
  for which in ('orbital', 'daily'):
    k = rng.choice(kk, n)
    shift = (2 * np.pi * k)
    if which == 'orbital':
      o2, s2 = (orb.astype(np.float64) + shift).astype(dt), syn
    else:
      o2, s2 = orb, (syn.astype(np.float64) + shift).astype(dt)
    fl2 = np.asarray(flux_fn(o2, s2, lon, lat, a_, b_)).astype(np.float64)
    unred = 2 * np.pi * (np.abs(k) + 1)
    # the shifted argument is rounded to the working precision: 1 ulp of the unreduced phase
    _close_pt(M, f'periodic_in_{which}_phase', fl2 / smax_r, fl0 / smax_r, tol, tol + 32 * eps * unred,
              info={**info, 'max_periods': int(np.abs(k).max())})
    safe = night & (sa < -(1e-12 if f64 else 1e-5) - 32 * eps * unred)
    M.zero('flux_zero_where_sun_below_horizon', np.where(safe, fl2, 0), info={**info, 'tag': 'shifted ' + which})
  # ---- broadcasting: lon (n,1) x lat (1,m) grid at one instant, global mean on an own tensor grid
  nlon, nlat = (64, 32) if f64 else (48, 24)
  xg, wg = np.polynomial.legendre.leggauss(nlat)
  lon_g = (np.arange(nlon) * 2 * np.pi / nlon + float(rng.uniform(0, 1)))[:, None]
  lat_g = np.arcsin(xg)[None, :]
  for _ in range(3):
    o1, s1 = dt(rng.uniform(0, 2 * np.pi)), dt(rng.uniform(0, 2 * np.pi))
    flg, _, _ = check_batch(np.asarray(o1), np.asarray(s1), lon_g.astype(dt), lat_g.astype(dt), 'tensor grid',
                            2 * np.pi)
    mean = float((flg * wg[None, :]).sum() / (2 * nlon))
    S = float(ref_irradiance(float(o1), s0r, dsr))
    M.close('global_mean_is_quarter_of_solar_constant', mean, S / 4, 2e-3 * (32 / min(nlat, nlon / 2)) ** 2,
            scale=S / 4, info={**info, 'orbital_phase': float(o1)})
  # ---- the documented default irradiance (pint quantities) at low rate
  if case['irr'] == 'si' and f64:
    q = rad.get_radiation_flux(rad.OrbitalTime(orb[:8], syn[:8]), lon[:8], lat[:8])
    mag = np.asarray(getattr(q, 'magnitude', q), np.float64)
    want = ref_irradiance(orb[:8], S0_SI, DS_SI) * np.maximum(ref_sin_altitude(orb[:8], syn[:8], lon[:8], lat[:8])[0], 0)
    M.close('default_irradiance_is_1361_47', mag, want, 1e-9, scale=S0_SI + DS_SI)
    q = rad.get_normalized_radiation_flux(rad.OrbitalTime(orb[:8], syn[:8]), lon[:8], lat[:8])
    mag = np.asarray(getattr(q, 'magnitude', q), np.float64)
    M.close('default_irradiance_is_1361_47', mag, want / (S0_SI + DS_SI), 1e-9, scale=1.0)
  if night.any() and (~night).any():
    M.nontrivial_global('fn', case['sub'], M.env)
  M.cover('irradiance', case['irr'])
  M.cover('precision', M.env)
  M.sample({'kind': 'radiation functions', 'points': int(n), 'S0': s0r, 'dS': dsr,
            'night_fraction': float(night.mean())}, limit=2)


# =============================================================================== SolarRadiation
def _run_sr(case, M):
  import jax  # pylint: disable=import-outside-toplevel
  from dinosaur import radiation as rad, scales  # pylint: disable=import-outside-toplevel
  u = scales.units
  f64 = M.env.startswith('f64')
  dt = np.float64 if f64 else np.float32
  eps = float(np.finfo(dt).eps)
  rng = M.rng(case['sub'])
  specs = model.make_specs(case['scale'])
  coords = model.make_coords(case['grid'], [0.0, 1.0], specs)
  grid = coords.horizontal
  cfg = case['grid']
  nlon, nlat = cfg['nlon'], cfg['nlat']
  when = datetime.datetime.fromisoformat(case['ref_date'])
  ref_arg = np.datetime64(case['ref_date']) if case['np_datetime'] else when
  sr = rad.SolarRadiation(coords, specs, ref_arg)
  srn = rad.SolarRadiation.normalized(coords, specs, ref_arg)
  orb0, syn0 = ref_orbital_phase_of(when)
  s0 = float(specs.nondimensionalize(S0_SI * u.W / u.m ** 2))
  ds = float(specs.nondimensionalize(DS_SI * u.W / u.m ** 2))
  smax = s0 + ds
  lon = np.asarray(grid.nodal_axes[0], np.float64)[:nlon, None]
  lat = np.arcsin(np.asarray(grid.nodal_axes[1], np.float64))[None, :nlat]
  # times in days since the reference datetime
  nt = case['ntimes']
  days = rng.uniform(-3653, 3653, nt)
  days[0] = 0.0
  special_doy = [2.0, 2.0 + DAYS_PER_YEAR / 2, 79.0, 79.0 + DAYS_PER_YEAR / 4, 79.0 + 3 * DAYS_PER_YEAR / 4]
  for i in range(1, min(6, nt)):
    # the documented special dates, reached from the reference phase
    days[i] = (special_doy[i - 1] / DAYS_PER_YEAR - orb0 / (2 * np.pi)) * DAYS_PER_YEAR + rng.integers(-3, 4) * DAYS_PER_YEAR
  if f64:
    days[6:9] = rng.choice([-1.0, 1.0], 3) * 10 ** rng.uniform(4, 6, 3)     # huge
    days[9:11] = -rng.uniform(0, 2, 2)                                      # just before the reference
  else:
    days = np.clip(days, -400, 400)
  t_nd = np.array([float(specs.nondimensionalize(d * u.day)) for d in days]).astype(dt)
  days_eff = np.array([float(specs.dimensionalize(float(t), u.day).magnitude) for t in t_nd])  # after rounding to dt
  orb = orb0 + 2 * np.pi * days_eff / DAYS_PER_YEAR
  syn = syn0 + 2 * np.pi * days_eff
  unred = np.abs(syn) + 2 * np.pi
  all_fn = jax.jit(jax.vmap(lambda t: (sr.radiation_flux(t), srn.radiation_flux(t), sr.solar_hour_angle(t))))
  flux_of = lambda t: np.asarray(all_fn(t)[0])
  flux_full, fluxn, hang = (np.asarray(x) for x in all_fn(t_nd))
  flux = flux_full
  M.check('sr_output_shape_dtype', flux.shape == (nt,) + tuple(grid.nodal_shape) and flux.dtype == dt
          and hang.shape == flux.shape, info={'shape': flux.shape, 'dtype': str(flux.dtype)})
  flux, fluxn, hang = (x[:, :nlon, :nlat].astype(np.float64) for x in (flux, fluxn, hang))
  sa, hour = ref_sin_altitude(orb[:, None, None], syn[:, None, None], lon[None], lat[None])
  S = ref_irradiance(orb, s0, ds)[:, None, None]
  info = {'grid': cfg, 'scale': case['scale'], 'ref_date': case['ref_date']}
  tol = TOL64 if f64 else TOL32
  margin = ((1e-12 if f64 else 1e-5) + 32 * eps * unred)[:, None, None]
  tol_t = (tol + 32 * eps * unred)[:, None, None]
  M.check('sr_flux_nonnegative', bool((flux >= 0).all()) and bool((fluxn >= 0).all()),
          info={**info, 'min': float(flux.min())})
  M.le('sr_flux_le_perihelion_constant', flux.max() / smax, 1.0, slack=1e-12 if f64 else 1e-6, info=info)
  M.le('sr_normalized_flux_le_one', fluxn.max(), 1.0, slack=1e-12 if f64 else 1e-6, info=info)
  night = sa < -margin
  M.zero('sr_flux_zero_where_sun_below_horizon', np.where(night, flux, 0), info=info)
  M.zero('sr_flux_zero_where_sun_below_horizon', np.where(night, fluxn, 0), info=info)
  want = S * np.maximum(sa, 0)
  _close_pt(M, 'sr_flux_equals_irradiance_times_sin_altitude', flux / smax, want / smax, tol, tol_t, info=info)
  M.close('sr_normalized_equals_flux_over_perihelion_constant', fluxn, flux / smax, 1e-12 if f64 else 1e-5,
          scale=1.0, info=info)
  # hour angle: compare on the circle (the code reduces the phases, the reference does not)
  dh = np.angle(np.exp(1j * (hang - hour)))
  _close_pt(M, 'sr_solar_hour_angle_equals_reference', dh, np.zeros_like(dh), tol, tol_t, info=info)
  # global mean through the grid's own quadrature
  n_eff = min(nlat, nlon / 2)
  gm = np.asarray(grid.integrate(flux_full)) / (4 * np.pi * grid.radius ** 2)
  thr = 2e-3 * (32 / n_eff) ** 2 * (2.0 if n_eff < 4 else 1.0)   # tiny grids: pre-asymptotic (measured 1.3/n^2)
  M.close('sr_global_mean_is_quarter_of_solar_constant', gm.astype(np.float64) / (S[:, 0, 0] / 4), np.ones(nt), thr,
          scale=1.0, info={**info, 'threshold': thr})
  M.note('global_mean_relative_error_times_n^2(measured)', float(np.abs(gm / (S[:, 0, 0] / 4) - 1).max() * n_eff ** 2))
  # periodicity: 4 Julian years = 1461 days returns both phases
  if f64:
    k = rng.choice([1, -1, 2, -5], nt)
    t2 = np.array([float(specs.nondimensionalize((d + 1461.0 * kk) * u.day)) for d, kk in zip(days_eff, k)])
    flux2 = flux_of(t2.astype(dt))[:, :nlon, :nlat]
    un2 = (unred + 2 * np.pi * 1461 * np.abs(k))[:, None, None]
    _close_pt(M, 'sr_periodic_after_4_julian_years', flux2 / smax, flux / smax, tol, tol + 32 * eps * un2, info=info)
    # one day later at (almost) fixed orbital phase: same sun path, irradiance/declination drift bounded
    t3 = np.array([float(specs.nondimensionalize((d + 1.0) * u.day)) for d in days_eff])
    flux3 = flux_of(t3.astype(dt))[:, :nlon, :nlat]
    M.le('sr_next_day_change_bounded_by_orbital_drift', np.abs(flux3 - flux).max() / smax, 0.0,
         slack=2 * np.pi / DAYS_PER_YEAR * 1.2, info=info)
  else:
    M.cover('f32', 'sr_periodic_after_4_julian_years not evaluated in float32 (phase resolution)')
  M.cover('sr_points', 'night (exact zero asserted)', int(night.sum()))
  M.cover('sr_points', 'day', int((sa > margin).sum()))
  M.cover('sr_points', 'within terminator margin', int((np.abs(sa) <= margin).sum()))
  M.cover('sr_scale', 'default' if case['scale'] is None else (case['scale'] if isinstance(case['scale'], str) else 'random'))
  M.cover('sr_spacing', cfg['spacing'])
  M.cover('precision', M.env)
  if night.any() and (~night).any():
    M.nontrivial_global('sr', cfg, case['ref_date'], case['sub'], M.env)
  M.sample({'kind': 'SolarRadiation', 'grid': cfg, 'ref_date': case['ref_date'], 'times_days': days[:8],
            'night_fraction': float(night.mean())}, limit=2)


# =============================================================================== Held-Suarez
def _run_hs(case, M):
  import jax  # pylint: disable=import-outside-toplevel
  from dinosaur import held_suarez as hs, scales  # pylint: disable=import-outside-toplevel
  u = scales.units
  f64 = M.env.startswith('f64')
  dt = np.float64 if f64 else np.float32
  rng = M.rng(case['sub'])
  specs = model.make_specs(case['scale'])
  layers = case['layers']
  cfg = case['grid']
  par = {}
  if not case['defaults']:
    par = dict(p0=float(rng.uniform(0.9e5, 1.05e5)) * u.pascal, sigma_b=float(rng.uniform(0.2, 0.9)),
               kf=1 / (float(rng.uniform(0.3, 5)) * u.day), ka=1 / (float(rng.uniform(10, 80)) * u.day),
               ks=1 / (float(rng.uniform(1, 10) if rng.random() < 0.8 else rng.uniform(80, 200)) * u.day),
               minT=float(rng.uniform(150, 230)) * u.degK, maxT=float(rng.uniform(290, 340)) * u.degK,
               dTy=float(rng.uniform(20, 90)) * u.degK, dThz=float(rng.uniform(0, 25)) * u.degK)
  edge = case.get('edge')
  if edge == 'kf0':
    par['kf'] = 0.0 / u.day
  elif edge == 'ka_eq_ks':
    par['ks'] = par['ka']
  elif edge == 'ka0_ks0':
    par['ka'] = 0.0 / u.day
    par['ks'] = 0.0 / u.day
  elif edge == 'dThz0_dTy0':
    par['dThz'] = 0.0 * u.degK
    par['dTy'] = 0.0 * u.degK
  elif edge == 'sigma_b_tiny':
    par['sigma_b'] = 0.02
  if edge:
    M.cover('hs_parameter_edge', edge)
  sigma_b = par.get('sigma_b', 0.7)
  # uneven levels straddling sigma_b (when there are >= 2 layers one boundary is put close to it)
  bnd = gen.sigma_boundaries(rng, layers, uneven=rng.random() < 0.85)
  if layers >= 3 and rng.random() < 0.5:
    j = int(np.argmin(np.abs(bnd[1:-1] - sigma_b))) + 1
    bnd[j] = sigma_b + float(rng.choice([0.0, 1e-3, -1e-3]))
    if not (np.diff(bnd) > 1e-4).all():
      bnd = gen.sigma_boundaries(rng, layers)
  coords = model.make_coords(cfg, bnd, specs)
  grid = coords.horizontal
  sigma = np.asarray(coords.vertical.centers)
  tref_K = model.tref_profile(rng, layers, kind=str(rng.choice(['random', 'constant', 'tropopause'])), centers=sigma)
  tref = np.asarray(specs.nondimensionalize(tref_K * u.degK)).astype(dt)
  f = hs.HeldSuarezForcing(coords, specs, tref, **par)
  # ---- state
  ps_mean = float(rng.uniform(500e2, 1100e2))
  if case['state'] == 'random':
    si = model.phys_state_si(rng, grid, layers, decay=float(rng.choice([0.0, 0.0, 1.0])),
                             wind=float(rng.uniform(10, 120)), div_wind=float(rng.uniform(1, 20)),
                             dT=float(rng.uniform(2, 40)), dlnps=float(rng.uniform(0.0, 0.08)))
  else:
    si = model.phys_state_si(rng, grid, layers)
    for k in ('vorticity', 'divergence'):
      si[k] = si[k] * 0.0
    if case['state'] == 'zero':
      si['temperature'] *= 0.0
      si['lnps'] *= 0.0
    elif case['state'] == 'single_mode':
      m_ax, l_ax = grid.modal_axes
      i, j = 1, max(1, grid.total_wavenumbers - 2)
      if np.asarray(grid.mask)[i, j]:
        si['vorticity'][:, i, j] = 1e-5
        si['divergence'][:, i, j] = -3e-6
  state = model.to_state(si, specs, p0_pa=ps_mean, dtype=dt)
  info = {'grid': cfg, 'layers': layers, 'sigma_b': sigma_b, 'scale': case['scale'], 'state': case['state'],
          'params': {k: str(v) for k, v in par.items()}}
  prog = jax.jit(lambda s: (f.explicit_terms(s), grid.to_nodal(s.temperature_variation),
                            grid.to_nodal(s.log_surface_pressure)))
  ok, res = M.no_raise('hs_explicit_terms_returns', lambda: prog(state), info=info)
  if not ok:
    return
  out, T_var_nodal, lsp_nodal = res
  tol = TOL64 if f64 else TOL32
  kv = np.asarray(f.kv(), np.float64)
  kt = np.asarray(f.kt(), np.float64)
  nodal_shape = tuple(grid.nodal_shape)
  M.check('hs_rate_shapes', kv.shape == (layers, 1, 1) and kt.shape == (layers,) + nodal_shape,
          info={'kv': kv.shape, 'kt': kt.shape})
  M.check('hs_kv_nonnegative', bool((kv >= 0).all()), info={**info, 'min': float(kv.min())})
  M.check('hs_kt_nonnegative', bool((kt >= 0).all()), info={**info, 'min': float(kt.min())})
  zeta, delta = np.asarray(state.vorticity, np.float64), np.asarray(state.divergence, np.float64)
  tz, td = np.asarray(out.vorticity, np.float64), np.asarray(out.divergence, np.float64)
  M.check('hs_output_shapes_dtype', tz.shape == zeta.shape and td.shape == delta.shape
          and np.asarray(out.temperature_variation).shape == zeta.shape
          and np.asarray(out.log_surface_pressure).shape == np.asarray(state.log_surface_pressure).shape
          and np.asarray(out.vorticity).dtype == dt,
          info={'dtype': str(np.asarray(out.vorticity).dtype)})
  M.finite('hs_tendencies_finite', [tz, td, out.temperature_variation, out.log_surface_pressure], info=info)
  # drag: the velocity round trip couples both components, so one common scale (times nothing: the
  # operator is of order zero in the wavenumber)
  sc = max(float(np.abs(kv * zeta).max()), float(np.abs(kv * delta).max()))
  if sc > 0:
    M.close('hs_vorticity_tendency_is_minus_kv_vorticity', tz, -kv * zeta, tol, scale=sc, info=info)
    M.close('hs_divergence_tendency_is_minus_kv_divergence', td, -kv * delta, tol, scale=sc, info=info)
    M.note('floor:hs_drag_residual' + ('' if f64 else '(f32)'),
           max(float(np.abs(tz + kv * zeta).max()), float(np.abs(td + kv * delta).max())) / sc)
  else:
    M.zero('hs_vorticity_tendency_is_minus_kv_vorticity', tz, info=info)
    M.zero('hs_divergence_tendency_is_minus_kv_divergence', td, info=info)
  above = sigma <= sigma_b
  M.zero('hs_drag_exactly_zero_above_boundary_layer', tz[above], info=info)
  M.zero('hs_drag_exactly_zero_above_boundary_layer', td[above], info=info)
  M.zero('hs_kv_zero_above_boundary_layer', kv[above], info=info)
  # dissipativity (modal coefficients are orthonormal: the sum is the L2 inner product)
  for nm, x, tx in (('vorticity', zeta, tz), ('divergence', delta, td)):
    per_level = (x * tx).sum(axis=(1, 2))
    M.le('hs_drag_dissipative', per_level.max(), 0.0, slack=tol * max(float(np.abs(x * tx).sum()), 1e-300),
         info={**info, 'field': nm})
  # relaxation
  T_nod = tref.astype(np.float64)[:, None, None] + np.asarray(T_var_nodal, np.float64)
  ps = np.exp(np.asarray(lsp_nodal)).astype(dt)
  import jax.numpy as jnp  # pylint: disable=import-outside-toplevel
  Teq = np.asarray(f.equilibrium_temperature(jnp.asarray(ps)), np.float64)
  minT = float(f.minT)
  M.check('hs_equilibrium_temperature_ge_minT', bool((Teq >= dt(minT)).all()) and Teq.shape == kt.shape,
          info={**info, 'min': float(Teq.min()), 'minT': minT})
  want = np.asarray(grid.to_modal((-kt * (T_nod - Teq)).astype(dt)), np.float64)
  tT = np.asarray(out.temperature_variation, np.float64)
  nodal_sc = float(np.abs(kt * (T_nod - Teq)).max())
  M.close('hs_temperature_tendency_is_relaxation', tT, want, tol, scale=max(nodal_sc, 1e-300) * np.sqrt(4 * np.pi),
          info=info)
  M.note('floor:hs_relaxation_residual' + ('' if f64 else '(f32)'),
         float(np.abs(tT - want).max()) / max(nodal_sc * np.sqrt(4 * np.pi), 1e-300))
  # relaxation pulls towards T_eq: where T = T_eq the nodal tendency vanishes; sign check on the mean
  M.zero('hs_surface_pressure_tendency_exactly_zero', np.asarray(out.log_surface_pressure), info=info)
  # ---- Held-Suarez (1994) closed forms: REPORTED only
  lat = np.arcsin(np.asarray(grid.nodal_axes[1], np.float64))[None, None, :]
  nd = lambda q: float(specs.nondimensionalize(q))
  P = {k: par.get(k, d) for k, d in dict(p0=1e5 * u.pascal, kf=1 / (1 * u.day), ka=1 / (40 * u.day),
                                         ks=1 / (4 * u.day), minT=200 * u.degK, maxT=315 * u.degK,
                                         dTy=60 * u.degK, dThz=10 * u.degK).items()}
  cut = np.maximum(0.0, (sigma - sigma_b) / (1 - sigma_b))
  kv94 = nd(P['kf']) * cut
  kt94 = nd(P['ka']) + (nd(P['ks']) - nd(P['ka'])) * cut[:, None, None] * np.cos(lat) ** 4
  pp = sigma[:, None, None] * ps.astype(np.float64) / nd(P['p0'])
  with np.errstate(all='ignore'):
    teq94 = np.maximum(nd(P['minT']), pp ** float(specs.kappa) * (
        nd(P['maxT']) - nd(P['dTy']) * np.sin(lat) ** 2 - nd(P['dThz']) * np.log(pp) * np.cos(lat) ** 2))
  M.note('reported_only:kv_vs_HS94_closed_form(rel)', float(np.abs(kv[:, 0, 0] - kv94).max() / max(kv94.max(), 1e-300)))
  M.note('reported_only:kt_vs_HS94_closed_form(rel)', float(np.abs(kt - kt94).max() / kt94.max()))
  M.note('reported_only:Teq_vs_HS94_closed_form(rel)', float(np.abs(Teq - teq94).max() / np.abs(teq94).max()))
  # ---- bookkeeping
  clamp = float((Teq <= minT * (1 + 1e-12)).mean())
  both = bool(above.any() and (~above).any())
  M.cover('hs_levels', 'both sides of sigma_b' if both else ('all above' if above.all() else 'all below'))
  M.cover('hs_clamp_active', '5-95%' if 0.05 <= clamp <= 0.95 else ('<5%' if clamp < 0.05 else '>95%'))
  M.cover('hs_state', case['state'])
  M.cover('hs_params', 'defaults' if case['defaults'] else 'random')
  M.cover('hs_grid', f"{cfg['spacing']}/{cfg['impl']}")
  M.cover('hs_scale', 'default' if case['scale'] is None else (case['scale'] if isinstance(case['scale'], str) else 'random'))
  M.cover('hs_surface_pressure_hPa', f'{int(ps_mean // 20000) * 200}-{int(ps_mean // 20000) * 200 + 200}')
  M.cover('precision', M.env)
  if both and case['state'] == 'random':
    M.nontrivial_global('hs', cfg, layers, case['sub'], M.env)
  M.sample({'kind': 'Held-Suarez', 'grid': cfg, 'sigma_centers': sigma, 'sigma_b': sigma_b,
            'clamp_active_fraction': clamp, 'surface_pressure_Pa': ps_mean}, limit=2)


def run(case, M):
  if case['kind'] == 'fn':
    _run_fn(case, M)
  elif case['kind'] == 'sr':
    _run_sr(case, M)
  elif case['kind'] == 'hs':
    _run_hs(case, M)
  else:
    raise core.HarnessError(f"unknown case kind {case['kind']}")
