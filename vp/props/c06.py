"""C06 — IMEX integrators: design order, reductions, A-stability, coefficient validation.

Monitors (DESIGN.md §3 C06):

* Taylor-coefficient monitor: d^k/dh^k step(u0; h)|_{h=0} (forward-mode AD in the step size
  through the real step function) equals the Lie derivative u^(k) of F+G for k <= design order;
  the (p+1)-th coefficient is recorded and must differ somewhere (else inconclusive).
* execution-only local-error order (no AD): E(h) = step_h(u0) - flow_h(u0) against a tight
  extended-precision reference flow for concrete h; lim_{h->0} E(h)/h^p (polynomial extrapolation
  over six step sizes) must vanish.  The fitted log-log slope is reported, not asserted: on the
  unchanged tree it undershoots p+1 by up to 0.36 (cancellation between the h^(p+1) and h^(p+2)
  error terms), so a slope threshold is either unsound or blind.
* reductions F=0 / G=0 against plain numpy loops — only what is unambiguous (Euler pair, CN +
  Heun, generic factories with the coefficients passed in, centred leapfrog).
* amplification |step| <= 1 + 1e-12 for F=0, G=lambda, Re lambda <= 0, |h lambda| in [1e-3,1e6].
* rejection oracle over all coefficient-list length tuples.
"""
from __future__ import annotations

import numpy as np

from vp import core
from vp.refs import rk_ref

RULE = ('tay/exe cases = batches of random ODEs du/dt = A u + B(u,u) + sin(C u) + G u (dimension 1-6, '
        'pytree-valued state: dict / tuple / list / namedtuple / nested / 0-d and 2-d leaves; G = S Bm S^-1 '
        'dense with complex pairs, 2x2 complex blocks, symmetric negative definite, diagonal), each batch in '
        'four regimes (general, G=0, linear F with G=0, F=0), pushed through every integrator factory '
        '(named schemes, generic low-storage factory with published + random order-1/order-2 coefficient '
        'sets, generic IMEX-RK factory with published + random + sparse tableaux, leapfrog alpha=1/2 fed '
        'with the exact previous level). Non-trivial items: (scheme, regime, ODE) whose (p+1)-th Taylor '
        'coefficient differs from the exact flow by > 1e-6 relative while all coefficients <= p were '
        'asserted (the order oracle is sharp there); (scheme, regime, ODE) of a finite-step reduction; '
        '(scheme, regime) whose extrapolated next error coefficient is > 1e-3. amp cases = F=0, G=lambda on '
        'a sample of the closed left half-plane (30% exactly on the imaginary axis, 8% on the negative real '
        'axis, lambda=0 included), |h lambda| log-uniform in [1e-3,1e6], h in {1e-6..1e7}. reject case = ALL '
        'length triples in {1..5}^3 and ALL length 4-tuples in {1..4}^4 (exhaustive, see coverage_tables).')
MIN_NONTRIVIAL = {'quick': 1200, 'thorough': 6000}
NAMED = ('backward_forward_euler', 'crank_nicolson_rk2', 'crank_nicolson_rk3', 'crank_nicolson_rk4',
         'imex_rk_sil3', 'semi_implicit_leapfrog')
REQUIRED_MONITORS = {'all': ['taylor_coefficients_match_exact_flow', 'local_error_slope',
                             'reduction_F0_implicit_method', 'reduction_G0_explicit_method',
                             'amplification_le_one', 'inconsistent_lengths_rejected',
                             'consistent_lengths_accepted']
                     + [f'order_is_sharp:{s}' for s in NAMED]}
ASSUMPTIONS = [
    'design orders asserted for the named schemes are the ones in the property statement; for '
    'coefficient sets passed to the generic factories the order is the one given by the additive '
    'Runge-Kutta order conditions evaluated on those coefficients (rk_ref)',
    'named schemes are never compared with literature coefficient values',
    'semi_implicit_leapfrog: alpha is the weight of the NEW level in the implicit average (it is the '
    'factor of the step handed to implicit_inverse); alpha in [1/2,1] must be non-amplifying',
    'a rejection may happen in the factory or at the first application of the step (both are "not '
    'silently truncated")',
    'decided in float64 only (AD order conditions and a 1e-12 amplification slack are not decidable in float32)',
    'in the Taylor monitor the regimes G=0 of schemes whose explicit order exceeds their IMEX order use a '
    'structurally vanishing implicit part (zero function, identity resolvent); G=0 by value (resolvent '
    'of the zero matrix) is exercised by the finite-step reductions',
    'implicit_inverse is either a dense solve or the closed-form resolvent in the real block-eigenbasis of G '
    '(both exact; the closed form keeps nested forward-mode AD cheap)',
]
TIMEOUT = {'quick': 7200, 'thorough': 28800}   # watchdog only (hang -> inconclusive); generous for a loaded machine

REGIMES = ('general', 'G0', 'linG0', 'F0')
TOL = 1e-9
TOL_RK4 = 1e-8
SHARP = 1e-6
HS = (0.2, 0.1, 0.05, 0.025, 0.0125, 0.00625)
SLOPE_TOL = {0: 1e-3, 1: 1e-3, 2: 1e-3, 3: 1e-3, 4: 3e-3}   # measured floors: 4.3e-7 (p<=3), 2.9e-6 (p=4)

# design orders from the property statement: regime -> order
STATED = {
    'backward_forward_euler': dict(general=1, G0=1, linG0=1, F0=1),
    'crank_nicolson_rk2': dict(general=2, G0=2, linG0=2, F0=2),
    'crank_nicolson_rk3': dict(general=2, G0=3, linG0=3, F0=2),
    'crank_nicolson_rk4': dict(general=2, G0=4, linG0=4, F0=2),
    'imex_rk_sil3': dict(general=2, G0=2, linG0=3, F0=2),
    'semi_implicit_leapfrog': dict(general=2, G0=2, linG0=2, F0=2),
}

LAYOUTS = {   # name -> dimension
    'scalar': 1, 'vec1': 1, 'pair': 2, 'vec2': 2, 'vec3': 3, 'nt3': 3, 'nest4': 4, 'vec4': 4,
    'list5': 5, 'mat6': 6, 'tup6': 6,
}
GKINDS = ('dense', 'blocks', 'negdef', 'diag')


# ------------------------------------------------------------------------------------ cases
def _spec_case(kind, i, layout, gkind, batch, h, group, stages, inv, sub, cost):
  return {'id': f'{kind}{i}-{layout}-{gkind}-{inv}-{group}', 'kind': kind, 'env': 'f64',
          'layout': layout, 'gkind': gkind, 'batch': int(batch), 'h': float(h), 'group': group,
          'stages': int(stages), 'inv': inv, 'sub': int(sub), 'cost': float(cost)}


TAY_COST = {'t1': 1.0, 't2': 1.0, 't3': 1.0, 't4': 1.0, 't5': 1.0}


def cases(tier, seed):
  quick = tier == 'quick'
  out = [{'id': 'reject-all-length-tuples', 'kind': 'reject', 'env': 'f64', 'cost': 0.3}]
  n_amp = 400 if quick else 4000
  for name in ('backward_forward_euler', 'crank_nicolson_rk2', 'crank_nicolson_rk3',
               'crank_nicolson_rk4', 'imex_rk_sil3', 'semi_implicit_leapfrog', 'ls:generic',
               'imex:ars222'):
    out.append({'id': f'amp-{name}', 'kind': 'amp', 'env': 'f64', 'scheme': name, 'n': n_amp,
                'cost': 0.3 if quick else 0.8})
  out.append({'id': 'stiff-reductions', 'kind': 'stiff', 'env': 'f64', 'n': 6 if quick else 40,
              'cost': 0.4 if quick else 1.5})
  rng = np.random.default_rng([seed, 606])
  names = sorted(LAYOUTS)

  def rand_spec():
    return (names[int(rng.integers(len(names)))], GKINDS[int(rng.integers(len(GKINDS)))],
            float(np.round(rng.uniform(0.03, 0.3) * rng.choice([-1, 1, 1]), 4)),
            ('spectral', 'solve')[int(rng.integers(2))])
  # Taylor-coefficient cases: few specs (each costs one XLA compile per scheme), larger batches
  tay = [('nest4', 'dense', 0.0, 'spectral')]
  if not quick:
    tay += [('tup6', 'blocks', 0.0, 'solve'), ('scalar', 'diag', 0.0, 'spectral'), ('pair', 'dense', 0.0, 'solve'), ('vec3', 'negdef', 0.0, 'spectral'),
            ('list5', 'dense', 0.0, 'spectral'), ('mat6', 'dense', 0.0, 'spectral'),
            ('nt3', 'blocks', 0.0, 'solve')]
  for _ in range(1 if quick else 4):
    tay.append(rand_spec())
  batch = 10 if quick else 17     # the XLA compile is per (spec, scheme): grow batches, not specs
  for i, (layout, gkind, _, inv) in enumerate(tay):
    for g in TAY_GROUPS:
      out.append(_spec_case('tay', i, layout, gkind, batch, 0.0, g, 1 + (i % 5), inv,
                            int(rng.integers(1 << 30)) if i >= (1 if quick else 8) else i, 2.0))
  # execution-only cases (reductions at a finite step, local-error slope): many layouts
  exe = [('scalar', 'dense', 0.25, 'solve'), ('pair', 'blocks', -0.1, 'spectral'),
         ('nest4', 'blocks', 0.3, 'solve'), ('mat6', 'dense', -0.2, 'solve')]
  if not quick:
    exe += [('vec3', 'diag', 0.2, 'solve'), ('list5', 'negdef', 0.15, 'spectral'),
            ('nt3', 'diag', 0.1, 'solve'), ('tup6', 'blocks', 0.05, 'spectral')]
  for _ in range(1 if quick else 8):
    exe.append(rand_spec())
  batch = 4 if quick else 12
  for i, (layout, gkind, h, inv) in enumerate(exe):
    for g in EXE_GROUPS:
      out.append(_spec_case('exe', i, layout, gkind, batch, h, g, 1 + (i % 5), inv,
                            int(rng.integers(1 << 30)) if i >= (4 if quick else 8) else i, 1.0))
  return out


TAY_GROUPS = {
    't1': ['backward_forward_euler', 'crank_nicolson_rk2', 'semi_implicit_leapfrog', 'ls:rand1',
           'imex:euler'],
    't2': ['crank_nicolson_rk3', 'ls:williamson3', 'imex:ars222'],
    't3': ['crank_nicolson_rk4', 'ls:rand2'],
    't4': ['imex_rk_sil3', 'ls:ck4', 'imex:rand', 'imex:sparse'],
    't5': ['imex:ars232', 'imex:rand_sa_im', 'imex:rand_sa_ex'],
}
EXE_GROUPS = {
    'e1': ['backward_forward_euler', 'crank_nicolson_rk2', 'crank_nicolson_rk3',
           'semi_implicit_leapfrog', 'ls:williamson3', 'ls:rand1', 'imex:euler'],
    'e2': ['crank_nicolson_rk4', 'imex_rk_sil3', 'ls:ck4', 'ls:rand2', 'imex:ars222', 'imex:rand',
           'imex:sparse'],
    'e3': ['imex:ars232', 'imex:rand_sa_im', 'imex:rand_sa_ex', 'imex:rand_sa_both',
           'imex:rand_b_equal'],
}


# ------------------------------------------------------------------------------------ helpers
def _template(layout):
  import collections  # pylint: disable=import-outside-toplevel
  z = lambda *s: np.zeros(s)
  if layout == 'scalar':
    return {'x': z()}
  if layout == 'vec1':
    return z(1)
  if layout == 'pair':
    return (z(1), z())
  if layout == 'vec2':
    return z(2)
  if layout == 'vec3':
    return {'u': z(3)}
  if layout == 'nt3':
    S = collections.namedtuple('S', 'a b')
    return S(z(2), z())
  if layout == 'nest4':
    return {'a': z(2), 'b': {'c': z(1, 1), 'd': z()}}
  if layout == 'vec4':
    return [z(4)]
  if layout == 'list5':
    return [z(2), z(3)]
  if layout == 'mat6':
    return {'m': z(2, 3)}
  if layout == 'tup6':
    return (z(3), {'p': z(2), 'q': z()})
  raise core.HarnessError(f'unknown layout {layout}')


def _block_structure(n):
  """Static pairing (0,1),(2,3),... of coordinates into 2x2 blocks; an odd last one is single."""
  perm = np.arange(n)
  sg = np.zeros(n)
  for i in range(0, n - 1, 2):
    perm[i], perm[i + 1] = i + 1, i
    sg[i], sg[i + 1] = 1.0, -1.0
  return perm, sg


def _draw_G(rng, n, kind):
  """G = S Bm S^-1 with Bm block diagonal: blocks [[a, b], [-b, a]] (eigenvalues a +- i b) or
  real 1x1 entries.  Returns dict(G, S, Sinv, a, b) — (S, Sinv, a, b) give the exact resolvent
  in closed form, which is what `implicit_inverse` is documented to be."""
  perm, sg = _block_structure(n)
  a = np.zeros(n)
  b = np.zeros(n)
  lo, hi = {'dense': (-1.2, 0.4), 'blocks': (-1.0, 0.0), 'negdef': (-2.0, -0.1),
            'diag': (-1.5, 0.5)}[kind]
  for i in range(n):
    a[i] = rng.uniform(lo, hi)
  if kind in ('dense', 'blocks'):
    for i in range(0, n - 1, 2):
      if kind == 'blocks' or rng.random() < 0.6:
        a[i + 1] = a[i]
        b[i] = b[i + 1] = rng.uniform(0.2, 2.0) * rng.choice([-1, 1])
  if kind in ('dense', 'negdef'):
    Q = np.linalg.qr(rng.standard_normal((n, n)))[0]
    S = Q * (rng.uniform(0.6, 1.6, n) if kind == 'dense' else 1.0)
  else:
    S = np.eye(n)
  Sinv = np.linalg.inv(S)
  Bm = np.diag(a)
  for i in range(n):
    if sg[i]:
      Bm[i, perm[i]] += sg[i] * b[i]
  return dict(G=S @ Bm @ Sinv, S=S, Sinv=Sinv, a=a, b=b)


def _draw_batch(rng, n, gkind, batch):
  """Parameters for 4*batch ODEs: regime r occupies rows [r*batch, (r+1)*batch)."""
  E = 4 * batch
  P = {'A': rng.standard_normal((E, n, n)) * 0.7 / np.sqrt(n),
       'B': rng.standard_normal((E, n, n, n)) * 0.4 / n,
       'C': rng.standard_normal((E, n, n)) * 0.5 / np.sqrt(n)}
  gs = [_draw_G(rng, n, gkind) for _ in range(E)]
  for k in ('G', 'S', 'Sinv', 'a', 'b'):
    P[k] = np.stack([g[k] for g in gs])
  U0 = rng.standard_normal((E, n)) * rng.uniform(0.5, 1.5, (E, 1))
  reg = np.repeat(np.arange(4), batch)
  g0 = (reg == 1) | (reg == 2)
  P['G'][g0] = 0.0            # G = 0 (by value; the exact resolvent is then the identity)
  P['a'][g0] = 0.0
  P['b'][g0] = 0.0
  P['B'][(reg == 2) | (reg == 3)] = 0.0            # linear F / F = 0
  P['C'][(reg == 2) | (reg == 3)] = 0.0
  P['A'][reg == 3] = 0.0
  return P, U0, reg


def _example(P, e):
  return {k: v[e] for k, v in P.items()}


def _make_tools(layout, inv_mode='solve'):
  """ravel/unravel for the state layout plus the tree-level equation builder."""
  import jax  # pylint: disable=import-outside-toplevel
  import jax.numpy as jnp  # pylint: disable=import-outside-toplevel
  from jax.flatten_util import ravel_pytree  # pylint: disable=import-outside-toplevel
  from dinosaur import time_integration as ti  # pylint: disable=import-outside-toplevel
  tmpl = jax.tree_util.tree_map(jnp.asarray, _template(layout))
  flat0, unravel = ravel_pytree(tmpl)
  n = flat0.shape[0]
  perm, sg = _block_structure(n)
  ravel = lambda tree: ravel_pytree(tree)[0]

  def F_flat(p, v):
    return p['A'] @ v + jnp.einsum('ijk,j,k->i', p['B'], v, v) + jnp.sin(p['C'] @ v)

  def N_flat(p):
    return lambda v: F_flat(p, v) + p['G'] @ v

  def make_eq(p, structural=None, mode=None):
    """ImplicitExplicitODE on tree-valued states.  structural: None | 'G0' | 'F0' replaces the
    vanishing part by a function that does not touch the parameters at all.  The resolvent is
    either a dense solve or the closed form in the block-eigenbasis of G (both exact)."""
    mode = mode or inv_mode
    eye = jnp.eye(n)
    if structural == 'F0':
      ex = lambda s: jax.tree_util.tree_map(jnp.zeros_like, s)
    else:
      ex = lambda s: unravel(F_flat(p, ravel(s)))
    if structural == 'G0':
      im = lambda s: jax.tree_util.tree_map(jnp.zeros_like, s)
      inv = lambda s, eta: s
    else:
      im = lambda s: unravel(p['G'] @ ravel(s))
      if mode == 'solve':
        inv = lambda s, eta: unravel(jnp.linalg.solve(eye - eta * p['G'], ravel(s)))
      else:
        def inv(s, eta):
          y = p['Sinv'] @ ravel(s)
          ca = 1 - eta * p['a']
          cb = eta * p['b']
          return unravel(p['S'] @ ((ca * y + sg * cb * y[perm]) / (ca * ca + cb * cb)))
    return ti.ImplicitExplicitODE.from_functions(ex, im, inv)
  return dict(n=n, ravel=ravel, unravel=unravel, F_flat=F_flat, N_flat=N_flat, make_eq=make_eq)


def _schemes(case, M):
  """name -> dict(factory(eq, h) -> step, orders per regime, sharp?, kind, coefficient info)."""
  from dinosaur import time_integration as ti  # pylint: disable=import-outside-toplevel
  rng = M.rng(77)
  out = {}
  for name in NAMED[:-1]:
    out[name] = dict(factory=getattr(ti, name), orders=STATED[name], sharp=True, kind='named')
  out['semi_implicit_leapfrog'] = dict(
      factory=lambda eq, h: ti.semi_implicit_leapfrog(eq, h, 0.5), orders=STATED['semi_implicit_leapfrog'],
      sharp=True, kind='leapfrog')

  def orders_of(ark, s=None):
    Aex, bex = (ark[0], ark[1]) if s is None else (ark[0][:s, :s], ark[1][:s])
    return dict(general=rk_ref.additive_order(*ark),
                G0=rk_ref.explicit_order(Aex, bex),
                linG0=max(rk_ref.explicit_order(Aex, bex), rk_ref.linear_order(Aex, bex)),
                F0=max(rk_ref.explicit_order(ark[2], ark[3]), rk_ref.linear_order(ark[2], ark[3])))

  def ls(name, cs):
    ark = rk_ref.lowstorage_to_ark(cs['alphas'], cs['betas'], cs['gammas'])
    out[name] = dict(
        factory=lambda eq, h, cs=cs: ti.low_storage_runge_kutta_crank_nicolson(
            cs['alphas'], cs['betas'], cs['gammas'], eq, h),
        orders=orders_of(ark, len(cs['gammas'])), sharp=False, kind='ls', coeffs=cs, ark=ark)

  def imex(name, tb):
    ark = rk_ref.ragged_to_ark(tb['a_ex'], tb['a_im'], tb['b_ex'], tb['b_im'])
    out[name] = dict(
        factory=lambda eq, h, tb=tb: ti.imex_runge_kutta(
            ti.ImExButcherTableau(a_ex=tb['a_ex'], a_im=tb['a_im'], b_ex=tb['b_ex'],
                                  b_im=tb['b_im']), eq, h),
        orders=orders_of(ark), sharp=False, kind='imex', coeffs=tb, ark=ark)
  st = case.get('stages', 3)
  ls('ls:williamson3', rk_ref.williamson_rk3())
  ls('ls:ck4', rk_ref.carpenter_kennedy_rk4())
  ls('ls:rand1', rk_ref.random_lowstorage_set(rng, st, 1))
  ls('ls:rand2', rk_ref.random_lowstorage_set(rng, max(2, st), 2))
  imex('imex:euler', rk_ref.imex_euler())
  imex('imex:ars222', rk_ref.ars222())
  imex('imex:rand', rk_ref.random_imex_tableau(rng, 2 + (st % 3)))
  imex('imex:sparse', rk_ref.imex_sparse3())
  # structural coincidences an implementation may special-case (stiffly accurate / FSAL shortcuts):
  # implicit half stiffly accurate with a generic explicit half, and the other way round
  imex('imex:ars232', rk_ref.ars232())
  nst = 2 + ((st + 1) % 3)
  imex('imex:rand_sa_im', rk_ref.random_imex_tableau(rng, max(2, nst), structure='sa_im'))
  imex('imex:rand_sa_ex', rk_ref.random_imex_tableau(rng, max(2, nst), structure='sa_ex'))
  imex('imex:rand_sa_both', rk_ref.random_imex_tableau(rng, max(2, nst), structure='sa_both'))
  imex('imex:rand_b_equal', rk_ref.random_imex_tableau(rng, max(2, nst), structure='b_equal'))
  return out


def _fastjit(fn, *args):
  """jit-compile `fn` for `args` with the cheapest backend optimisation level and run it.

  The programs are large straight-line scalar codes that run once; LLVM optimisation dominates
  the cost otherwise.  Falls back to the default pipeline if the option is not accepted."""
  import jax  # pylint: disable=import-outside-toplevel
  lowered = jax.jit(fn).lower(*args)
  try:
    exe = lowered.compile(compiler_options={'xla_backend_optimization_level': 0})
  except Exception:  # pylint: disable=broad-except
    exe = lowered.compile()
  return exe, exe(*args)


def _setup(case, M):
  import jax.numpy as jnp  # pylint: disable=import-outside-toplevel
  T = _make_tools(case['layout'], case['inv'])
  rng = M.rng(case.get('sub', 0))
  P, U0, reg = _draw_batch(rng, T['n'], case['gkind'], case['batch'])
  Pj = {k: jnp.asarray(v) for k, v in P.items()}
  return T, rng, P, U0, reg, Pj, jnp.asarray(U0)


# ------------------------------------------------------------------------------------ Taylor cases
def _run_tay(case, M):
  import jax  # pylint: disable=import-outside-toplevel
  import jax.numpy as jnp  # pylint: disable=import-outside-toplevel
  layout = case['layout']
  T, _, P, U0, reg, Pj, U0j = _setup(case, M)
  n = T['n']
  E = len(reg)
  schemes = _schemes(case, M)
  names = TAY_GROUPS[case['group']]
  KMAX = 5

  # ---- exact-flow Taylor coefficients (Lie derivatives), once per batch
  _, lie = _fastjit(jax.vmap(
      lambda p, u: jnp.stack(rk_ref.lie_derivatives(T['N_flat'](p), u, KMAX))), Pj, U0j)
  lie_np = np.asarray(lie)                                   # (E, KMAX+1, n)
  # harness self-check of the reference against closed forms (numpy Jacobian / Hessian; powers)
  for e in range(E):
    d1, d2, d3 = rk_ref.family_derivs_closed_form(_example(P, e), U0[e])
    for k, d in ((1, d1), (2, d2), (3, d3)):
      sc = max(1e-3, np.abs(d).max())
      if np.abs(lie_np[e, k] - d).max() > 1e-11 * sc:
        raise core.HarnessError(f'Lie-derivative reference disagrees with the closed form (k={k})')
    if reg[e] >= 2:
      Mx = P['A'][e] + P['G'][e]
      v = U0[e]
      for k in range(1, KMAX + 1):
        v = Mx @ v
        if np.abs(lie_np[e, k] - v).max() > 1e-11 * max(1e-3, np.abs(v).max()):
          raise core.HarnessError('Lie-derivative reference disagrees with matrix powers')
  u0max = np.maximum(1.0, np.abs(U0).max(1))                 # (E,)
  scale_k = np.maximum(np.abs(lie_np).max(2), 1e-3 * u0max[:, None])   # (E, KMAX+1)

  for name in names:
    S = schemes[name]
    fac = S['factory']
    leap = S['kind'] == 'leapfrog'
    orders = S['orders']
    # plan: regimes with G != 0 go through the full IMEX arithmetic (orders <= 2 or 3 there);
    # G = 0 regimes, where the explicit part may reach order 4, use the structurally vanishing
    # implicit part so that five nested derivatives stay affordable.
    k_a = min(KMAX, max(orders['general'], orders['F0']) + 1)
    k_b = min(KMAX, max(orders['G0'], orders['linG0']) + 1)
    if k_b <= k_a:
      plan = [((0, 1, 2, 3), max(k_a, k_b), None)]
    else:
      plan = [((0, 3), k_a, None), ((1, 2), k_b, 'G0')]
    rel = np.full((E, KMAX + 1), np.nan)
    kmax_of = np.zeros(E, int)
    for regs, kmax, structural in plan:
      rows = np.where(np.isin(reg, regs))[0]

      def per_example(p, u0, L, fac=fac, leap=leap, kmax=kmax, structural=structural):
        eq = T['make_eq'](p, structural)
        u0t = T['unravel'](u0)

        def f(h):
          if leap:
            prev = T['unravel'](rk_ref.taylor_polynomial([L[k] for k in range(KMAX + 1)], -h))
            return T['ravel'](fac(eq, h)((prev, u0t))[1])
          return T['ravel'](fac(eq, h)(u0t))
        return jnp.stack(rk_ref.derivatives_in_h(f, kmax))
      got = np.asarray(_fastjit(jax.vmap(per_example), {k: v[rows] for k, v in Pj.items()},
                                U0j[rows], lie[rows])[1])                    # (rows, kmax+1, n)
      M.finite('taylor_coefficients_finite', got)
      rel[rows, :kmax + 1] = np.abs(got - lie_np[rows, :kmax + 1]).max(2) / scale_k[rows, :kmax + 1]
      kmax_of[rows] = kmax
      M.cover('taylor_calls', f'{name}: regimes {[REGIMES[r] for r in regs]} kmax={kmax} '
              f'{"structural G=0" if structural else "G by value"} inverse={case["inv"]}')
    tol = TOL_RK4 if name in ('crank_nicolson_rk4',) else TOL
    for r, rname in enumerate(REGIMES):
      p_ord = orders[rname]
      rows = np.where(reg == r)[0]
      M.close('taylor_coefficients_match_exact_flow', rel[rows, :p_ord + 1],
              np.zeros_like(rel[rows, :p_ord + 1]), tol, scale=1.0,
              info={'scheme': name, 'regime': rname, 'design_order': p_ord,
                    'coeffs': S.get('coeffs'), 'layout': layout,
                    'rel_residual_per_example_and_k': rel[rows].tolist()})
      M.cover('taylor_order_asserted', f'{name}/{rname}: k<={p_ord}', len(rows))
      for e in rows:
        kmax = int(kmax_of[e])
        obs = 0
        for k in range(1, kmax + 1):
          if rel[e, k] <= tol:
            obs = k
          else:
            break
        M.cover('observed_order(first mismatching coefficient - 1; "+" = capped by kmax)',
                f'{name}/{rname}={obs}{"+" if obs == kmax else ""}')
        if p_ord + 1 <= kmax:
          gap = float(rel[e, p_ord + 1])
          M.note(f'gap_of_coefficient_p+1[{name}/{rname}]_min', gap, how='min')
          if gap > SHARP:
            M.nontrivial(name, rname, int(e))
            if S['sharp']:
              M.check(f'order_is_sharp:{name}', True)
              M.cover('order_is_sharp', f'{name}/{rname}: coefficient {p_ord + 1} differs')
    M.note(f'taylor_floor[{name}]', max(float(rel[reg == r, :orders[rn] + 1].max())
                                        for r, rn in enumerate(REGIMES)))
  M.sample({'layout': layout, 'dim': n, 'gkind': case['gkind'], 'schemes': names,
            'example_u0': U0[0], 'example_G': P['G'][0],
            "u'(0), u''(0)": [lie_np[0, 1], lie_np[0, 2]]})


# ------------------------------------------------------------------------------------ execution cases
def _run_exe(case, M):
  import jax  # pylint: disable=import-outside-toplevel
  import jax.numpy as jnp  # pylint: disable=import-outside-toplevel
  layout, h_red = case['layout'], case['h']
  T, rng, P, U0, reg, Pj, U0j = _setup(case, M)
  n = T['n']
  E = len(reg)
  schemes = _schemes(case, M)
  names = EXE_GROUPS[case['group']]
  ld = np.longdouble
  need_back = 'semi_implicit_leapfrog' in names
  flows = np.zeros((E, len(HS), n))
  back = np.zeros((E, len(HS), n))
  for e in range(E):
    pl = {k: v.astype(ld) for k, v in _example(P, e).items()}
    Nn = lambda v, pl=pl: rk_ref.family_rhs_np(pl, v)
    for j, h in enumerate(HS):
      flows[e, j] = rk_ref.ref_flow(Nn, U0[e], h).astype(float)
      if need_back:
        back[e, j] = rk_ref.ref_flow(Nn, U0[e], -h).astype(float)
  prev_rand = rng.standard_normal((E, n))
  dscale = np.zeros(E)
  for e in range(E):
    d1, d2, d3 = rk_ref.family_derivs_closed_form(_example(P, e), U0[e])
    dscale[e] = max(np.abs(U0[e]).max(), np.abs(d1).max(), np.abs(d2).max() / 2, np.abs(d3).max() / 6)

  def references(name, S, which, p, u0, prev, h):
    Fn = lambda v: rk_ref.family_explicit_np(p, v)
    Gm = p['G']
    kind = S['kind']
    if which == 'F0':
      if name == 'backward_forward_euler':
        return [('backward Euler', rk_ref.ref_backward_euler(Gm, u0, h))]
      if name == 'crank_nicolson_rk2':
        return [('Crank-Nicolson', rk_ref.ref_crank_nicolson(Gm, u0, h))]
      if kind == 'ls':
        return [('product of CN sub-steps', rk_ref.ref_cn_product(Gm, u0, h, S['coeffs']['alphas'])),
                ('R(hG) of the implicit tableau',
                 rk_ref.stability_matrix_apply(S['ark'][2], S['ark'][3], h * Gm, u0))]
      if kind == 'imex':
        return [('R(hG) of the implicit tableau',
                 rk_ref.stability_matrix_apply(S['ark'][2], S['ark'][3], h * Gm, u0))]
      if kind == 'leapfrog':
        return [('trapezoidal rule over 2h from the previous level',
                 rk_ref.ref_theta_two_level(Gm, prev, 2 * h, 0.5))]
    else:
      if name == 'backward_forward_euler':
        return [('forward Euler', rk_ref.ref_forward_euler(Fn, u0, h))]
      if name == 'crank_nicolson_rk2':
        return [('Heun', rk_ref.ref_heun(Fn, u0, h))]
      if kind == 'ls':
        cs = S['coeffs']
        A, b, _ = rk_ref.lowstorage_to_butcher(cs['betas'], cs['gammas'])
        return [('2N-storage loop', rk_ref.ref_lowstorage_explicit(Fn, u0, h, cs['betas'], cs['gammas'])),
                ('Butcher loop', rk_ref.ref_butcher_explicit(Fn, u0, h, A, b))]
      if kind == 'imex':
        return [('Butcher loop', rk_ref.ref_butcher_explicit(Fn, u0, h, S['ark'][0], S['ark'][1]))]
      if kind == 'leapfrog':
        return [('explicit leapfrog', prev + 2 * h * Fn(u0))]
    return []

  def coeff_amp(S):
    if S['kind'] not in ('ls', 'imex'):
      return 1.0
    cs = S['coeffs']
    vals = [1.0]
    for key in ('gammas', 'betas', 'b_ex', 'b_im'):
      if key in cs:
        vals.append(float(np.abs(np.asarray(cs[key], float)).max()))
    for key in ('a_ex', 'a_im'):
      if key in cs:
        vals.append(max(float(np.abs(np.asarray(r, float)).max()) for r in cs[key]))
    return max(vals) ** 2

  for name in names:
    S = schemes[name]
    fac = S['factory']
    leap = S['kind'] == 'leapfrog'
    judged_by_reduction = S['kind'] != 'named' or name in ('backward_forward_euler', 'crank_nicolson_rk2')

    def one(p, u0, pv, h, fac=fac, leap=leap):
      eq = T['make_eq'](p)
      if leap:
        o = fac(eq, h)((T['unravel'](pv), T['unravel'](u0)))
        return jnp.stack([T['ravel'](o[0]), T['ravel'](o[1])])
      return T['ravel'](fac(eq, h)(T['unravel'](u0)))[None]
    stepper, got_red = _fastjit(jax.vmap(one, in_axes=(0, 0, 0, None)), Pj, U0j,
                                jnp.asarray(prev_rand), jnp.asarray(h_red))

    # ---- reductions at a finite step (numpy references) ------------------------------------
    if judged_by_reduction:
      got = np.asarray(got_red)                                              # (E, 1|2, n)
      for rname, which in (('F0', 'F0'), ('G0', 'G0'), ('linG0', 'G0')):
        mon = 'reduction_F0_implicit_method' if which == 'F0' else 'reduction_G0_explicit_method'
        rows = np.where(reg == REGIMES.index(rname))[0]
        for i, e in enumerate(rows):
          p, u0 = _example(P, e), U0[e]
          outs = [('vmapped, jitted, G by value' if which == 'G0' else 'vmapped, jitted, F by value',
                   got[e, -1], got[e, 0])]
          if i == 0:
            # the same through a plain eager call with a python-float step and a structurally
            # vanishing part (zero function / identity resolvent)
            pj = {k: jnp.asarray(v) for k, v in p.items()}
            for mode in ('solve', 'spectral'):
              eq = T['make_eq'](pj, which, mode)
              if leap:
                o = fac(eq, h_red)((T['unravel'](jnp.asarray(prev_rand[e])), T['unravel'](jnp.asarray(u0))))
                outs.append((f'eager, structural {which}, {mode}', np.asarray(T['ravel'](o[1])),
                             np.asarray(T['ravel'](o[0]))))
              else:
                o = fac(eq, h_red)(T['unravel'](jnp.asarray(u0)))
                outs.append((f'eager, structural {which}, {mode}', np.asarray(T['ravel'](o)), None))
          for label, want in references(name, S, which, p, u0, prev_rand[e], h_red):
            sc = coeff_amp(S) * max(np.abs(want).max(), np.abs(u0).max(),
                                    np.abs(prev_rand[e]).max() if leap else 0.0)
            for how, res, first in outs:
              M.close(mon, res, want, 1e-10, scale=sc,
                      info={'scheme': name, 'regime': rname, 'reference': label, 'h': h_red,
                            'coeffs': S.get('coeffs'), 'how': how, 'layout': layout})
              if leap and first is not None:
                M.same('leapfrog_returns_current_as_previous', first, u0)
            M.cover('reductions', f'{name}/{rname} = {label}')
          M.nontrivial('reduction', name, rname, int(e))

    # ---- execution-only local-error order (no AD) ---------------------------------------------
    # E(h) = step_h(u0) - flow_h(u0), concrete h.  Order p  <=>  E(h)/h^p -> 0 as h -> 0; the
    # limit is estimated by polynomial extrapolation in h (signed vectors: no cancellation dips,
    # which make a fitted log-log slope of |E| unreliable; the slope is reported, not asserted).
    Eh = np.zeros((E, len(HS), n))
    for j, h in enumerate(HS):
      got = np.asarray(stepper(Pj, U0j, jnp.asarray(back[:, j]), jnp.asarray(h)))[:, -1]
      Eh[:, j] = got - flows[:, j]
    hs = np.asarray(HS)
    for r, rname in enumerate(REGIMES):
      p_ord = S['orders'][rname]
      rows = np.where(reg == r)[0]

      nodes = list(range(len(HS)))
      lim = np.stack([rk_ref.neville_zero(hs[nodes], [Eh[e, j] / hs[j] ** p_ord for j in nodes])
                      for e in rows])                                   # (rows, n)
      nxt = np.stack([rk_ref.neville_zero(hs[nodes], [Eh[e, j] / hs[j] ** (p_ord + 1) for j in nodes])
                      for e in rows])
      M.close('local_error_slope', lim / dscale[rows, None], np.zeros_like(lim), SLOPE_TOL[min(p_ord, 4)], scale=1.0,
              info={'scheme': name, 'regime': rname, 'design_order': p_ord,
                    'meaning': 'lim_{h->0} (step_h - flow_h)/h^p, extrapolated from h=' + str(list(hs[nodes])),
                    'relative_limit_per_example': (np.abs(lim).max(1) / dscale[rows]).tolist(),
                    'coeffs': S.get('coeffs'), 'layout': layout})
      gap = np.abs(nxt).max(1) / dscale[rows]
      M.note(f'execution_only_limit_residual[{name}/{rname}]', float((np.abs(lim).max(1) / dscale[rows]).max()))
      M.note(f'execution_only_next_coefficient[{name}/{rname}]_min', float(gap.min()), how='min')
      agg = np.sqrt(((np.linalg.norm(Eh[rows], axis=2) / np.linalg.norm(U0[rows], axis=1)[:, None]) ** 2).mean(0))
      ok = agg > 1e-12
      if ok.sum() >= 3:
        slope = rk_ref.fit_slope(hs[ok], agg[ok])
        M.note(f'fitted_slope_minus_(p+1)[{name}/{rname}]_min(reported only)', slope - (p_ord + 1), how='min')
        M.cover('fitted_loglog_slope_of_local_error(reported only)',
                f'{name}/{rname}: p+1={p_ord + 1} slope={slope:.1f}')
      if (gap > 1e-3).any():
        M.nontrivial('slope', name, rname)
  M.sample({'layout': layout, 'dim': n, 'gkind': case['gkind'], 'h': h_red, 'schemes': names,
            'example_u0': U0[0]}, limit=6)


# ------------------------------------------------------------------------------------ stiff F=0
def _run_stiff(case, M):
  """F = 0 with a stiff negative-definite G and large steps: Euler pair / CN-RK2 / generic."""
  import jax.numpy as jnp  # pylint: disable=import-outside-toplevel
  rng = M.rng()
  schemes = _schemes({'stages': 3}, M)
  for i in range(case['n']):
    layout = sorted(LAYOUTS)[int(rng.integers(len(LAYOUTS)))]
    T = _make_tools(layout)
    n = T['n']
    R = rng.standard_normal((n, n))
    G = -(R @ R.T) / n - 0.05 * np.eye(n)
    hz = 10 ** rng.uniform(0, 4)
    h = float(10 ** rng.uniform(-2, 2))
    G = G * hz / h / max(1e-12, np.abs(np.linalg.eigvalsh(G)).max())
    u0 = rng.standard_normal(n)
    p = {'A': jnp.zeros((n, n)), 'B': jnp.zeros((n, n, n)), 'C': jnp.zeros((n, n)), 'G': jnp.asarray(G)}
    eq = T['make_eq'](p, 'F0' if i % 2 else None)
    u0t = T['unravel'](jnp.asarray(u0))
    for name in ('backward_forward_euler', 'crank_nicolson_rk2', 'ls:williamson3', 'ls:rand1',
                 'imex:ars222', 'imex:euler'):
      S = schemes[name]
      got = np.asarray(T['ravel'](S['factory'](eq, h)(u0t)))
      if name == 'backward_forward_euler':
        want, label = rk_ref.ref_backward_euler(G, u0, h), 'backward Euler'
      elif name == 'crank_nicolson_rk2':
        want, label = rk_ref.ref_crank_nicolson(G, u0, h), 'Crank-Nicolson'
      elif S['kind'] == 'ls':
        want, label = rk_ref.ref_cn_product(G, u0, h, S['coeffs']['alphas']), 'product of CN sub-steps'
      else:
        want, label = rk_ref.stability_matrix_apply(S['ark'][2], S['ark'][3], h * G, u0), 'R(hG)'
      # the generic IMEX update adds h*b_j*G Y_j: terms of size |hG| cancel -> scale by it
      sc = np.abs(u0).max() * (max(1.0, hz) if S['kind'] == 'imex' else 1.0)
      M.close('reduction_F0_implicit_method', got, want, 1e-10, scale=sc,
              info={'scheme': name, 'reference': label, 'h': h, '|h G|': hz, 'layout': layout,
                    'coeffs': S.get('coeffs')})
      M.cover('reductions', f'{name}/F0-stiff = {label}')
      M.le('amplification_le_one', np.linalg.norm(got) / np.linalg.norm(u0), 1.0, slack=1e-12,
           info={'scheme': name, 'h': h, '|h G|': hz, 'note': 'symmetric negative definite G'})
    M.nontrivial('stiff', i)


# ------------------------------------------------------------------------------------ amplification
def _run_amp(case, M):
  import jax.numpy as jnp  # pylint: disable=import-outside-toplevel
  from dinosaur import time_integration as ti  # pylint: disable=import-outside-toplevel
  rng = M.rng()
  name, npts = case['scheme'], case['n']
  hs = [1.0, 1e-3, 37.0, 1e4] if M.tier == 'quick' else [1.0, 1e-3, 37.0, 1e4, 1e-6, 0.3, 7e2, 1e7]
  per = max(1, npts // len(hs))
  variants = []
  if name == 'semi_implicit_leapfrog':
    for a in (0.5, 0.5, 0.75, 1.0):
      variants.append((f'alpha={a}', lambda eq, h, a=a: ti.semi_implicit_leapfrog(eq, h, a), None))
  elif name == 'ls:generic':
    srng = M.rng(5)
    sets = [rk_ref.williamson_rk3(), rk_ref.carpenter_kennedy_rk4()] + [
        rk_ref.random_lowstorage_set(srng, s, o) for s, o in ((1, 1), (2, 2), (3, 1), (4, 2), (5, 1))]
    for cs in sets:
      variants.append((f'{len(cs["gammas"])} stages', lambda eq, h, cs=cs: ti.low_storage_runge_kutta_crank_nicolson(
          cs['alphas'], cs['betas'], cs['gammas'], eq, h), cs))
  elif name == 'imex:ars222':
    tb = rk_ref.ars222()
    variants.append(('ars222', lambda eq, h: ti.imex_runge_kutta(ti.ImExButcherTableau(**tb), eq, h), tb))
  else:
    variants.append(('', getattr(ti, name), None))
  worst = 0.0
  for vi, (vname, fac, coeffs) in enumerate(variants):
    for h in hs:
      r = 10 ** rng.uniform(-3, 6, per)
      th = rng.uniform(np.pi / 2, 3 * np.pi / 2, per)
      u = rng.random(per)
      th = np.where(u < 0.15, np.pi / 2, np.where(u < 0.30, 3 * np.pi / 2, np.where(u < 0.38, np.pi, th)))
      z = r * np.exp(1j * th)
      zr = np.where((u < 0.30), 0.0, np.minimum(z.real, 0.0))
      zi = np.where((u >= 0.30) & (u < 0.38), 0.0, z.imag)
      zr[0], zi[0] = 0.0, 0.0                                     # lambda = 0
      lr, li = jnp.asarray(zr / h), jnp.asarray(zi / h)
      G = lambda s: {'re': lr * s['re'] - li * s['im'], 'im': lr * s['im'] + li * s['re']}

      def Ginv(s, eta):
        a, b = 1 - eta * lr, -eta * li
        den = a * a + b * b
        return {'re': (a * s['re'] + b * s['im']) / den, 'im': (a * s['im'] - b * s['re']) / den}
      eq = ti.ImplicitExplicitODE.from_functions(
          lambda s: {'re': jnp.zeros_like(s['re']), 'im': jnp.zeros_like(s['im'])}, G, Ginv)
      ph = rng.uniform(0, 2 * np.pi, per)
      amp0 = rng.uniform(0.5, 2.0, per)
      u0 = {'re': jnp.asarray(amp0 * np.cos(ph)), 'im': jnp.asarray(amp0 * np.sin(ph))}
      step = fac(eq, h)
      if name == 'semi_implicit_leapfrog':
        # two-level map: |future| <= |previous| ; `current` plays no role when F = 0
        cur = {'re': jnp.asarray(rng.standard_normal(per)), 'im': jnp.asarray(rng.standard_normal(per))}
        out = step((u0, cur))[1]
        zz = 2 * (zr + 1j * zi)
        a = float(vname.split('=')[1])
        want = (1 + (1 - a) * zz) / (1 - a * zz) * (np.asarray(u0['re']) + 1j * np.asarray(u0['im']))
      else:
        out = step(u0)
        want = None
        if coeffs is not None and 'a_im' in coeffs:
          ark = rk_ref.ragged_to_ark(**coeffs)
          want = rk_ref.stability_function(ark[2], ark[3], zr + 1j * zi) * (np.asarray(u0['re']) + 1j * np.asarray(u0['im']))
      o = np.asarray(out['re']) + 1j * np.asarray(out['im'])
      M.finite('amplification_finite', [o.real, o.imag])
      ratio = np.abs(o) / amp0
      worst = max(worst, float(ratio.max()))
      M.le('amplification_le_one', ratio, 1.0, slack=1e-12,
           info={'scheme': name, 'variant': vname, 'h': h, 'coeffs': coeffs,
                 'worst_z': [float(zr[int(np.argmax(ratio))]), float(zi[int(np.argmax(ratio))])]})
      if want is not None:
        small = np.abs(zr + 1j * zi) <= 1e2
        M.close('reduction_F0_implicit_method', np.where(small, o, 0), np.where(small, want, 0), 1e-10,
                scale=2.0 * 1e2, info={'scheme': name, 'variant': vname, 'reference': 'R(h lambda)', 'h': h})
        M.cover('reductions', f'{name} {vname}/F0 scalar = R(h lambda) u0')
      M.cover('amplification_points', f'{name} {vname}'.strip(), per)
      M.cover('amplification_points_by_location', 'imaginary axis (Re = 0)', int((zr == 0).sum()))
      M.cover('amplification_points_by_location', 'negative real axis', int(((zi == 0) & (zr < 0)).sum()))
      M.cover('amplification_points_by_location', 'open left half-plane, complex', int(((zr < 0) & (zi != 0)).sum()))
      for dec in range(-3, 6):
        M.cover('amplification_points_by_decade_of_|h lambda|', f'1e{dec}',
                int(((np.abs(zr + 1j * zi) >= 10.0 ** dec) & (np.abs(zr + 1j * zi) < 10.0 ** (dec + 1))).sum()))
      M.nontrivial(name, vi, h)
  M.note(f'max_amplification_minus_1[{name}]', worst - 1.0)

  # the same through a dense 2x2 real block and jnp.linalg.solve (a different implicit_inverse)
  if name not in ('ls:generic', 'imex:ars222'):
    fac = variants[0][1]
    for _ in range(20 if M.tier == 'quick' else 100):
      r = 10 ** rng.uniform(-3, 6)
      th = rng.choice([np.pi / 2, 3 * np.pi / 2, rng.uniform(np.pi / 2, 3 * np.pi / 2)])
      z = r * np.exp(1j * th)
      lam = complex(min(z.real, 0.0) if th not in (np.pi / 2, 3 * np.pi / 2) else 0.0, z.imag)
      Gm = jnp.asarray([[lam.real, -lam.imag], [lam.imag, lam.real]])
      eq = ti.ImplicitExplicitODE.from_functions(
          lambda s: 0 * s, lambda s: Gm @ s, lambda s, eta: jnp.linalg.solve(jnp.eye(2) - eta * Gm, s))
      u0 = jnp.asarray([1.0, 0.0])
      if name == 'semi_implicit_leapfrog':
        out = fac(eq, 1.0)((u0, jnp.asarray([0.3, -2.0])))[1]
      else:
        out = fac(eq, 1.0)(u0)
      M.le('amplification_le_one', float(np.linalg.norm(np.asarray(out))), 1.0, slack=1e-12,
           info={'scheme': name, 'lambda': [lam.real, lam.imag], 'h': 1.0, 'via': '2x2 block + linalg.solve'})
      M.cover('amplification_points', f'{name} (2x2 block)')


# ------------------------------------------------------------------------------------ rejection
def _run_reject(case, M):
  import jax.numpy as jnp  # pylint: disable=import-outside-toplevel
  from dinosaur import time_integration as ti  # pylint: disable=import-outside-toplevel
  G = jnp.asarray([[-0.3, 0.2], [-0.2, -0.1]])
  eq = ti.ImplicitExplicitODE.from_functions(
      lambda s: jnp.sin(s) * 0.3, lambda s: G @ s, lambda s, eta: jnp.linalg.solve(jnp.eye(2) - eta * G, s))
  u0 = jnp.asarray([0.7, -0.4])
  rng = M.rng()
  REJ = (ValueError, IndexError, TypeError, AssertionError)
  for (la, lb, lg) in rk_ref.all_length_tuples(3, 1, 5):
    al = sorted(rng.uniform(0, 1, la).tolist())
    be = rng.uniform(-1, 0, lb).tolist()
    ga = rng.uniform(0.1, 1, lg).tolist()
    ok = (la - 1 == lb == lg)
    info = {'factory': 'low_storage_runge_kutta_crank_nicolson', 'len(alphas,betas,gammas)': [la, lb, lg]}
    call = lambda al=al, be=be, ga=ga: np.asarray(
        ti.low_storage_runge_kutta_crank_nicolson(al, be, ga, eq, 0.1)(u0))
    if ok:
      good, val = M.no_raise('consistent_lengths_accepted', call, info=info)
      if good:
        want = rk_ref.ref_lowstorage_explicit(lambda v: np.sin(v) * 0.3, np.asarray(u0), 0.1, be, ga)
        _ = want
        M.finite('consistent_lengths_accepted_finite', val)
      M.cover('length_triples{1..5}^3', 'consistent -> accepted')
    else:
      where = 'silently accepted'
      try:
        ti.low_storage_runge_kutta_crank_nicolson(al, be, ga, eq, 0.1)
        where = 'rejected at first step application'
      except REJ:
        where = 'rejected by the factory'
      if M.raises('inconsistent_lengths_rejected', call, REJ, info=info):
        M.cover('length_triples{1..5}^3', f'inconsistent -> {where}')
      else:
        M.cover('length_triples{1..5}^3', 'inconsistent -> silently accepted')
    M.nontrivial('triple', la, lb, lg)
  for (l1, l2, l3, l4) in rk_ref.all_length_tuples(4, 1, 4):
    a_ex = [rng.uniform(0.1, 0.9, i + 1).tolist() for i in range(l1)]
    a_im = [rng.uniform(0.1, 0.9, i + 2).tolist() for i in range(l2)]
    b_ex = rng.uniform(0.1, 0.9, l3).tolist()
    b_im = rng.uniform(0.1, 0.9, l4).tolist()
    ok = (l1 + 1 == l2 + 1 == l3 == l4)
    info = {'factory': 'ImExButcherTableau', 'len(a_ex,a_im,b_ex,b_im)': [l1, l2, l3, l4]}
    call = lambda a_ex=a_ex, a_im=a_im, b_ex=b_ex, b_im=b_im: np.asarray(ti.imex_runge_kutta(
        ti.ImExButcherTableau(a_ex=a_ex, a_im=a_im, b_ex=b_ex, b_im=b_im), eq, 0.1)(u0))
    if ok:
      good, val = M.no_raise('consistent_lengths_accepted', call, info=info)
      if good:
        M.finite('consistent_lengths_accepted_finite', val)
      M.cover('length_4-tuples{1..4}^4', 'consistent -> accepted')
    else:
      where = 'rejected later'
      try:
        ti.ImExButcherTableau(a_ex=a_ex, a_im=a_im, b_ex=b_ex, b_im=b_im)
      except REJ:
        where = 'rejected by the tableau constructor'
      if M.raises('inconsistent_lengths_rejected', call, REJ, info=info):
        M.cover('length_4-tuples{1..4}^4', f'inconsistent -> {where}')
      else:
        M.cover('length_4-tuples{1..4}^4', 'inconsistent -> silently accepted')
    M.nontrivial('tuple4', l1, l2, l3, l4)


def run(case, M):
  kind = case['kind']
  if kind == 'tay':
    _run_tay(case, M)
  elif kind == 'exe':
    _run_exe(case, M)
  elif kind == 'amp':
    _run_amp(case, M)
  elif kind == 'stiff':
    _run_stiff(case, M)
  elif kind == 'reject':
    _run_reject(case, M)
  else:
    raise core.HarnessError(f'unknown case kind {kind}')
