"""C05 — tendencies equal the continuous equations; analytically balanced states are steady.

(a) reference-model monitor: explicit_terms + implicit_terms of every primitive-equation class
    and of the layered shallow-water equations are compared, coefficient by coefficient
    (l <= L-2), with the projection of a pointwise evaluation of the continuous equations
    (`vp.refs.pe_ref`, `vp.refs.sw_ref`: scipy harmonics with analytic derivatives, Durran §8.6
    vertical differences as loops, quadrature on the reference's own grid);
    `compute_diagnostic_state` and `get_geopotential` are compared pointwise on the grid's nodes.
(b) zero-tendency monitor on analytically balanced families: resting isothermal atmosphere over
    band-limited orography, solid-body rotation in gradient-wind balance, balanced zonal jets in
    layered shallow water.  See DESIGN.md §3 C05.
"""
from __future__ import annotations

import math

import numpy as np

from vp import gen

RULE = ('cases = configurations (grid T10..T31 incl. oversampled/odd/equiangular node sets, Real/Fast '
        'layout, 1..8 uneven sigma levels or 1..4 shallow-water layers, equation class, reference '
        'temperature profile, radius/Omega/g/R/kappa/R_v/c_pv and sometimes the unit scale varied); '
        'per configuration 2-3 random alias-free states of degree d (3d+L<=D for the polynomial '
        'classes, 6d+L<=D for the moist ones whose kappa factor is rational in q; 2d+L<=D for '
        'shallow water) with physical amplitudes over random band-limited orography go through '
        'explicit_terms+implicit_terms, compute_diagnostic_state and get_geopotential, followed by '
        'the balanced members (rest over orography, solid-body rotation, zonal jets) through the '
        'same compiled function. A (configuration, state) pair is non-trivial if the state has '
        'rotational wind >=4 m/s, divergent wind >=0.4 m/s, T\' >=1 K, |ln p_s\'| >=3e-3 (and '
        'q\' >=6e-4 for moist classes) and >=2 levels (shallow water: rotational wind 15-60 m/s, '
        'potential deviations 100-800 m x g, distinct densities); a balanced member is non-trivial '
        'if the balance is a genuine cancellation: orography >=100 m of degree >=2 for the resting '
        'atmosphere, equatorial wind >=1 m/s for solid-body rotation, jets of 10-60 m/s (0.015-0.08 '
        'non-dimensional for the repository\'s builders); the size of the cancelling term and the '
        'residual relative to it are in the notes.')
MIN_NONTRIVIAL = {'quick': 100, 'thorough': 500}
REQUIRED_MONITORS = {'all': [
    'pe_ref:vorticity', 'pe_ref:divergence', 'pe_ref:temperature', 'pe_ref:log_surface_pressure',
    'pe_ref:tracers', 'sw_ref:vorticity', 'sw_ref:divergence', 'sw_ref:potential',
    'diag:cos_lat_u', 'diag:sigma_dot_full', 'diag:sigma_dot_explicit',
    'diag:u_dot_grad_log_sp', 'diag:cos_lat_grad_log_sp', 'diag:nodal_fields',
    'geopotential:coefficients', 'geopotential:pointwise',
    'steady:rest_over_orography', 'steady:rest_flat_repo_state', 'steady:solid_body_rotation',
    'steady:sw_jets_repo_states', 'steady:sw_jets_analytic']}
ASSUMPTIONS = [
    'scipy.special.sph_legendre_p / roots_legendre are the independent oracle for the harmonics '
    'and the reference quadrature',
    'only coefficients with l <= L-2 of explicit+implicit are asserted (the last wavenumber is '
    'clipped from the explicit part by design); states are alias-free as stated in the rule',
    'cloud class is exercised with zero condensate only (non-zero condensate: known finding F7 of C04)',
    'default centred vertical advection, include_vertical_advection=True',
    'humidity <= 0.02 with deviations <= 6e-3 so that the aliasing of the rational moist factor '
    'stays below 1e-12 at the degree budget 6d+L<=D (measured)']
TIMEOUT = {'quick': 3000, 'thorough': 20000}   # watchdog only (shared, heavily loaded machine)
TOL = 1e-9          # f64 deciding pass
TOL_GEO00 = 1e-8    # the (0,0) coefficient of get_geopotential carries a float32 literal of sqrt(4 pi)
TOL32 = 1e-3        # float32 secondary pass (reference monitor only; measured floor 2e-6 .. 2e-5)

EARTH = dict(radius_m=6.371e6, omega=7.292e-5, g=9.80616, R=287.0, kappa=2.0 / 7.0,
             R_vapor=461.0, cp_vapor=1859.0)
EQ_KINDS = ('dry', 'time', 'moist', 'cloud')


# ------------------------------------------------------------------------------------ case lists
def _gauss_cfg(n, mode='quad', impl='real', **kw):
  """Truncation Tn: M = n+1 zonal, L = n+2 total wavenumbers, as the repo's factories."""
  M, L = n + 1, n + 2
  if mode == 'quad':
    nlon = 3 * M + 1
    nlat = math.ceil(nlon / 2)
  elif mode == 'factory':       # T21: 64x32, T31: 96x48, ...
    nlat = {21: 32, 31: 48, 10: 16, 15: 24, 26: 40}[n]
    nlon = 2 * nlat
  elif mode == 'odd':
    nlon = 3 * M + 2
    nlat = math.ceil(nlon / 2) | 1
  elif mode == 'over':
    nlon, nlat = 4 * M + 1, 2 * M + 1
  else:
    raise ValueError(mode)
  return gen.grid_cfg(M, L, nlon, nlat, 'gauss', impl=impl, **kw)


def _equi_cfg(n, impl='real', **kw):
  M, L = n + 1, n + 2
  nlon = 3 * M + 1
  nlat = 2 * L + 3 * 4 + 2          # D = nlat-1 resolves degree-4 states
  return gen.grid_cfg(M, L, nlon, nlat, 'equiangular', impl=impl, **kw)


def degree_budget(cfg: dict, factor: int) -> int:
  """Largest state degree d with factor*d + L <= D and factor*d + M <= nlon."""
  D = gen.exactness_degree(cfg)
  return max(0, min((D - cfg['L']) // factor, (cfg['nlon'] - cfg['M']) // factor))


def _consts(rng=None, vary=True) -> dict:
  c = dict(EARTH)
  if rng is None or not vary:
    return c
  c['radius_m'] *= float(np.exp(rng.uniform(-1.2, 1.2)))
  c['omega'] *= float(np.exp(rng.uniform(-1.2, 1.2)))
  c['g'] *= float(rng.uniform(0.5, 2.0))
  c['R'] *= float(rng.uniform(0.7, 1.4))
  c['kappa'] = float(rng.uniform(0.2, 0.4))
  c['R_vapor'] *= float(rng.uniform(0.7, 1.4))
  c['cp_vapor'] *= float(rng.uniform(0.7, 1.4))
  return c


def _scale_desc(rng):
  return {'length_m': float(10 ** rng.uniform(4, 7.5)), 'time_s': float(10 ** rng.uniform(2, 5)),
          'mass_kg': float(10 ** rng.uniform(-2, 6)), 'temperature_K': float(10 ** rng.uniform(-0.5, 1))}


def _pe_case(i, eq, cfg, K, rng, tier, uneven=True, consts=None, scale=None, tref='random', d=None,
             extra_tracer=True, nstates=2, env='f64', tag=''):
  factor = 6 if eq in ('moist', 'cloud') else 3
  dmax = degree_budget(cfg, factor)
  if d is None:
    d = int(rng.integers(2, max(2, min(dmax, 9)) + 1))
  d = min(d, dmax, cfg['L'] - 2)
  b = gen.sigma_boundaries(rng, K, uneven=uneven, ratio=6.0)
  nl = cfg['nlon'] * cfg['nlat']
  cost = 1.0 + (2.0 if eq in ('moist', 'cloud') else 1.0) * (0.6 + K / 6.0) * (nl / 2048.0) ** 0.8
  return {'id': f'pe{i}-{eq}-{gen.grid_tag(cfg)}-K{K}{tag}', 'kind': 'pe', 'eq': eq, 'grid': cfg,
          'bounds': [float(x) for x in b], 'consts': consts or _consts(), 'scale': scale,
          'tref': tref, 'd': int(d), 'extra_tracer': bool(extra_tracer), 'nstates': int(nstates),
          'env': env, 'cost': cost}


def _densities(rng, n):
  """Increasing downward with gaps of 3..35 %: keeps the layer-coupling matrix well conditioned."""
  return float(rng.uniform(600.0, 1000.0)) * np.cumprod(rng.uniform(1.03, 1.35, n))


def _sw_case(i, cfg, n, rng, consts=None, oro=True, d=None, tag=''):
  dmax = min(degree_budget(cfg, 2), cfg['L'] - 2)
  if d is None:
    d = int(rng.integers(2, max(2, min(dmax, 12)) + 1))
  d = min(d, dmax)
  dens = _densities(rng, n)
  refpot = np.sort(rng.uniform(1500.0, 9000.0, n))[::-1] * 9.8
  return {'id': f'sw{i}-{gen.grid_tag(cfg)}-n{n}{tag}', 'kind': 'sw', 'grid': cfg, 'layers': int(n),
          'densities': [float(x) for x in dens], 'ref_potential_si': [float(x) for x in refpot],
          'consts': consts or _consts(), 'oro': bool(oro), 'd': int(d), 'nstates': 2,
          'env': 'f64', 'cost': 0.8 + 0.5 * n * (cfg['nlon'] * cfg['nlat'] / 2048.0) ** 0.8}


def _structured(tier):
  rng = np.random.default_rng(50505)
  out = []
  i = 0
  # every class x both layouts on T21 (factory node set), Earth constants
  for eq in EQ_KINDS:
    for impl in ('real', 'fast'):
      out.append(_pe_case(i, eq, _gauss_cfg(21, 'factory', impl), 5, rng, tier, tag='-earth'))
      i += 1
  # level-count edges, equidistant levels, constant / linear reference temperature, no rotation
  out.append(_pe_case(i, 'dry', _gauss_cfg(10, 'quad'), 1, rng, tier, tag='-K1')); i += 1
  out.append(_pe_case(i, 'moist', _gauss_cfg(10, 'quad', 'fast'), 1, rng, tier, tag='-K1')); i += 1
  out.append(_pe_case(i, 'time', _gauss_cfg(13, 'odd'), 2, rng, tier, tref='constant', tag='-Tconst')); i += 1
  out.append(_pe_case(i, 'moist', _gauss_cfg(15, 'quad', 'fast'), 8, rng, tier, uneven=False,
                      tref='linear', tag='-equi-levels')); i += 1
  # reference-profile classes on which sign / monotonicity / end-value shortcuts go wrong
  out.append(_pe_case(i, 'dry', _gauss_cfg(13, 'quad'), 5, rng, tier, tref='bump', tag='-Tbump')); i += 1
  out.append(_pe_case(i, 'time', _gauss_cfg(10, 'quad', 'fast'), 4, rng, tier, tref='cooling', tag='-Tcool')); i += 1
  c0 = _consts(); c0['omega'] = 0.0
  out.append(_pe_case(i, 'dry', _gauss_cfg(13, 'quad', 'fast'), 3, rng, tier, consts=c0, tag='-norot')); i += 1
  out.append(_pe_case(i, 'cloud', _gauss_cfg(15, 'over'), 4, rng, tier, consts=_consts(rng),
                      scale=_scale_desc(rng), tag='-scale')); i += 1
  out.append(_pe_case(i, 'dry', _equi_cfg(10), 3, rng, tier, consts=_consts(rng), d=4, tag='-equiang')); i += 1
  out.append(_pe_case(i, 'moist', _gauss_cfg(10, 'over', 'fast', offset=0.4), 4, rng, tier,
                      consts=_consts(rng), tag='-offset')); i += 1
  out.append(_pe_case(i, 'dry', _gauss_cfg(15, 'quad', 'fast', bsm=8, stk=True), 3, rng, tier,
                      consts=_consts(rng), tag='-padded')); i += 1
  # states reaching the highest retained wavenumber l = L-2 (the wind then has an l = L-1 part)
  out.append(_pe_case(i, 'time', _gauss_cfg(10, 'over', 'real'), 3, rng, tier, d=10, tag='-topwave')); i += 1
  if tier == 'thorough':
    for eq in EQ_KINDS:
      out.append(_pe_case(i, eq, _gauss_cfg(31, 'factory', 'fast'), 8, rng, tier, consts=_consts(rng),
                          nstates=3, tag='-T31')); i += 1
    out.append(_pe_case(i, 'moist', _gauss_cfg(31, 'factory', 'real'), 6, rng, tier, tag='-T31r')); i += 1
    out.append(_pe_case(i, 'dry', _gauss_cfg(26, 'factory', 'fast', bsm=4, rev=True), 7, rng, tier,
                        consts=_consts(rng), tag='-pad')); i += 1
    out.append(_pe_case(i, 'moist', _equi_cfg(13, 'fast'), 4, rng, tier, consts=_consts(rng), d=2,
                        tag='-equiang')); i += 1
  # shallow water
  out.append(_sw_case(i, _gauss_cfg(21, 'factory', 'real'), 3, rng, tag='-earth')); i += 1
  out.append(_sw_case(i, _gauss_cfg(21, 'factory', 'fast'), 1, rng, oro=False, tag='-earth')); i += 1
  out.append(_sw_case(i, _gauss_cfg(10, 'quad', 'fast'), 4, rng, consts=_consts(rng))); i += 1
  out.append(_sw_case(i, _gauss_cfg(13, 'odd', 'real'), 2, rng, consts=_consts(rng))); i += 1
  # F15 (fixed in the repo): state with energy at the highest retained wavenumber l = L-2
  out.append(_sw_case(i, _gauss_cfg(10, 'over', 'fast'), 2, rng, d=10, tag='-topwave')); i += 1
  if tier == 'thorough':
    out.append(_sw_case(i, _gauss_cfg(31, 'factory', 'fast'), 4, rng, consts=_consts(rng), tag='-T31')); i += 1
    out.append(_sw_case(i, _equi_cfg(10, 'fast'), 2, rng, consts=_consts(rng), d=5, tag='-equiang')); i += 1
  # balanced states that go through the repository's own state builders
  for j, (n, impl, K) in enumerate([(21, 'real', 5), (10, 'fast', 3), (15, 'fast', 8), (13, 'real', 1)]):
    cfg = _gauss_cfg(n, 'quad' if n != 21 else 'factory', impl)
    out.append({'id': f'restflat{j}-{gen.grid_tag(cfg)}-K{K}', 'kind': 'rest_repo', 'grid': cfg,
                'bounds': [float(x) for x in gen.sigma_boundaries(rng, K)],
                'tref_K': float(rng.uniform(200, 320)), 'p0_pa': float(rng.uniform(5e4, 1.1e5)),
                'eq': EQ_KINDS[j % 4], 'env': 'f64', 'cost': 1.5})
  for j, (n, impl, nl) in enumerate([(21, 'real', 1), (21, 'fast', 3), (10, 'fast', 2), (15, 'real', 4),
                                     (13, 'fast', 1)]):
    cfg = _gauss_cfg(n, 'quad' if n != 21 else 'factory', impl)
    out.append({'id': f'jetrepo{j}-{gen.grid_tag(cfg)}-n{nl}', 'kind': 'jet_repo', 'grid': cfg,
                'layers': nl, 'env': 'f64', 'cost': 1.2})
  return out


def cases(tier, seed):
  out = _structured(tier)
  rng = np.random.default_rng([seed, 505])
  n_pe, n_sw, n_bal = (34, 8, 6) if tier == 'quick' else (200, 40, 30)
  trunc_q = [10, 10, 13, 13, 15, 15, 21]
  trunc_t = [10, 13, 15, 15, 21, 21, 21, 26, 31]
  for i in range(n_pe):
    n = int(rng.choice(trunc_q if tier == 'quick' else trunc_t))
    mode = str(rng.choice(['quad', 'quad', 'odd', 'over', 'factory'] if n in (10, 15, 21, 26, 31)
                          else ['quad', 'quad', 'odd', 'over']))
    impl = str(rng.choice(['real', 'fast']))
    kw = {}
    if impl == 'fast' and rng.random() < 0.3:
      kw = dict(bsm=[1, 2, 4, 8][int(rng.integers(4))], stk=[None, True, False][int(rng.integers(3))],
                rev=[None, True, False][int(rng.integers(3))])
    if rng.random() < 0.15:
      kw['offset'] = float(rng.uniform(-3, 3))
    cfg = _gauss_cfg(n, mode, impl, **kw)
    eq = EQ_KINDS[int(rng.choice([0, 1, 2, 2, 3]))]
    K = int(rng.integers(1, 9))
    out.append(_pe_case(1000 + i, eq, cfg, K, rng, tier, uneven=rng.random() < 0.85,
                        consts=_consts(rng, vary=rng.random() < 0.8),
                        scale=_scale_desc(rng) if rng.random() < 0.2 else None,
                        tref=str(rng.choice(['random', 'random', 'constant', 'linear', 'tropopause', 'cooling',
                                             'isothermal_top', 'plateau_cooling', 'bump'])),
                        extra_tracer=rng.random() < 0.5))
  for i in range(n_sw):
    n = int(rng.choice(trunc_q if tier == 'quick' else trunc_t))
    cfg = _gauss_cfg(n, str(rng.choice(['quad', 'odd', 'over'])), str(rng.choice(['real', 'fast'])))
    out.append(_sw_case(2000 + i, cfg, int(rng.integers(1, 5)), rng, consts=_consts(rng),
                        oro=rng.random() < 0.8))
  for i in range(n_bal):
    n = int(rng.choice([10, 13, 15, 21]))
    cfg = _gauss_cfg(n, 'quad', str(rng.choice(['real', 'fast'])))
    nl = int(rng.integers(1, 5))
    out.append({'id': f'jetrepo{3000 + i}-{gen.grid_tag(cfg)}-n{nl}', 'kind': 'jet_repo', 'grid': cfg,
                'layers': nl, 'env': 'f64', 'cost': 1.2})
  # float32 "as shipped" pass of the reference monitor on a few configurations
  rng32 = np.random.default_rng(32)
  k = 0
  for eq, impl in (('dry', 'fast'), ('moist', 'fast'), ('moist', 'real'), ('cloud', 'fast')):
    out.append(_pe_case(9000 + k, eq, _gauss_cfg(15, 'quad', impl), 4, rng32, tier, consts=_consts(),
                        env='f32', tag='-f32'))
    k += 1
  return out


# ------------------------------------------------------------------------------------ helpers
def _rows(grid):
  return [gen.row_kind(grid, i) for i in range(grid.modal_shape[0])]


def to_canon(x, grid, Mc, Lc) -> np.ndarray:
  """Repository modal layout [..., row, l] -> canonical [..., m, (cos, sin), l] (float64)."""
  x = np.asarray(x, dtype=np.float64)
  mask = gen.independent_mask(grid)
  out = np.zeros(x.shape[:-2] + (Mc, 2, Lc))
  n = min(Lc, x.shape[-1])
  for i, (m, kind) in enumerate(_rows(grid)):
    if m >= Mc or not mask[i].any():
      continue
    out[..., m, 0 if kind == 'c' else 1, :n] = np.where(mask[i, :n], x[..., i, :n], 0.0)
  return out


def from_canon(c, grid) -> np.ndarray:
  """Canonical [..., m, (cos, sin), l] -> repository modal layout (masked/padded entries zero)."""
  c = np.asarray(c, dtype=np.float64)
  ms = tuple(grid.modal_shape)
  mask = gen.independent_mask(grid)
  out = np.zeros(c.shape[:-3] + ms)
  Mc, Lc = c.shape[-3], c.shape[-1]
  n = min(Lc, ms[1])
  for i, (m, kind) in enumerate(_rows(grid)):
    if m >= Mc or not mask[i].any():
      continue
    out[..., i, :n] = np.where(mask[i, :n], c[..., m, 0 if kind == 'c' else 1, :n], 0.0)
  return out


_PROBES: dict = {}


def _probe(Mc, Lc):
  """A fixed scatter of points used only to measure the amplitude of generated fields."""
  from vp.refs import pe_ref  # pylint: disable=import-outside-toplevel
  key = (Mc, Lc)
  if key not in _PROBES:
    nlon, nlat = max(12, 3 * Mc), max(9, 2 * Lc + 1)
    lon = 2 * np.pi * (np.arange(nlon) + 0.37) / nlon
    mu = np.sin(np.linspace(-1.45, 1.45, nlat))
    _PROBES[key] = pe_ref.Sphere(lon, mu, Mc, Lc, radius=1.0)
  return _PROBES[key]


def _rand_canon(rng, lead, d, lmin=0, decay=0.0, Mmax=None):
  """Random canonical coefficients of degree <= d (all m <= min(l, Mmax-1)); spectrum (1+l)^-decay."""
  Mc = d + 1 if Mmax is None else min(d + 1, Mmax)
  c = rng.standard_normal(tuple(lead) + (Mc, 2, d + 1))
  l = np.arange(d + 1)
  c = c / (1.0 + l) ** decay
  for m in range(Mc):
    c[..., m, :, :m] = 0.0
  c[..., :, :, :lmin] = 0.0
  c[..., 0, 1, :] = 0.0
  return c


def _scaled(rng, lead, d, target, lmin=0, decay=0.0, Mmax=None):
  """Random field (canonical) whose maximum over the probe points is `target`."""
  c = _rand_canon(rng, lead, d, lmin, decay, Mmax)
  mx = _absmax(_probe(c.shape[-3], d + 1).values(c))
  return c * (target / mx) if mx > 0 else c


def phys_state_si(rng, grid, layers, d, decay, wind, div_wind, dT, dlnps, q_mean, dq, tracers,
                  radius_m) -> dict:
  """Random admissible state in SI units (repository modal layout, unit-sphere basis), numpy only.
  Same conventions as vp.model.phys_state_si: vorticity/divergence [1/s] such that the rotational
  (divergent) wind on a sphere of radius `radius_m` is at most `wind` (`div_wind`) m/s."""
  Mmax = grid.longitude_wavenumbers
  pr = None
  out = {}
  for name, target in (('vorticity', wind), ('divergence', div_wind)):
    c = _rand_canon(rng, (layers,), d, 1, decay, Mmax)
    pr = _probe(c.shape[-3], d + 1)
    zero = np.zeros_like(c[0])
    mx = 0.0
    for k in range(layers):
      u, v = pr.wind(c[k], zero) if name == 'vorticity' else pr.wind(zero, c[k])
      mx = max(mx, _absmax(u), _absmax(v))
    out[name] = from_canon(c * (target / (mx * radius_m)), grid)
  out['temperature'] = from_canon(_scaled(rng, (layers,), d, dT, 0, decay, Mmax), grid)
  out['lnps'] = from_canon(_scaled(rng, (1,), d, dlnps, 0, decay, Mmax), grid)
  out['tracers'] = {}
  sq = float(np.sqrt(4 * np.pi))
  for name in tracers:
    t = from_canon(_scaled(rng, (layers,), d, dq, 0, decay, Mmax), grid)
    t[:, 0, 0] += q_mean * sq
    out['tracers'][name] = t
  return out


def orography_si(rng, grid, lmax, height, decay=1.0) -> np.ndarray:
  lmax = min(lmax, grid.total_wavenumbers - 2)
  return from_canon(_scaled(rng, (), lmax, height, 0, decay, grid.longitude_wavenumbers), grid)


def zonal_modal(grid, coeffs, dtype=np.float64) -> np.ndarray:
  """Modal array holding the zonal (m = 0) coefficients `coeffs[l]` (row 0 in both layouts)."""
  out = np.zeros(tuple(grid.modal_shape), dtype)
  c = np.asarray(coeffs)
  if c.size > grid.total_wavenumbers:
    raise ValueError('zonal field exceeds the truncation')
  out[0, :c.size] = c
  return out


def make_specs(consts: dict, scale_desc=None):
  from dinosaur import primitive_equations as pe, scales  # pylint: disable=import-outside-toplevel
  from vp import model  # pylint: disable=import-outside-toplevel
  u = scales.units
  return pe.PrimitiveEquationsSpecs.from_si(
      radius_si=consts['radius_m'] * u.m, angular_velocity_si=consts['omega'] / u.s,
      gravity_acceleration_si=consts['g'] * u.m / u.s ** 2,
      ideal_gas_constant_si=consts['R'] * u.J / u.kg / u.degK,
      water_vapor_gas_constant_si=consts['R_vapor'] * u.J / u.kg / u.degK,
      water_vapor_isobaric_heat_capacity_si=consts['cp_vapor'] * u.J / u.kg / u.degK,
      kappa_si=consts['kappa'] * u.dimensionless, scale=model.make_scale(scale_desc))


def ref_consts(specs) -> dict:
  return dict(omega=float(specs.angular_velocity), g=float(specs.g), R=float(specs.R),
              kappa=float(specs.kappa), R_vapor=float(specs.R_vapor), cp_vapor=float(specs.Cp_vapor))


def _ref_sphere(cfg, radius, margin_degree):
  """Reference quadrature grid: Gauss nodes of the reference's own choosing, exact for
  polynomial integrands of degree `margin_degree`, never the node set of the grid under test."""
  from vp.refs import pe_ref  # pylint: disable=import-outside-toplevel
  nlat = max(margin_degree // 2 + 2, cfg['nlat'] + 3) | 1
  nlon = max(margin_degree + 2, cfg['nlon'] + 5) | 1
  return pe_ref.Sphere.gauss(nlon, nlat, cfg['M'], cfg['L'] - 1, radius=radius)


def _node_sphere(grid, cfg, Mc, Lc):
  """The grid's own nodal points (for pointwise comparisons): basis longitudes are measured from
  the grid's longitude offset."""
  from vp.refs import pe_ref  # pylint: disable=import-outside-toplevel
  lon = np.asarray(grid.nodal_axes[0])[:cfg['nlon']] - cfg['offset']
  mu = np.asarray(grid.nodal_axes[1])[:cfg['nlat']]
  return pe_ref.Sphere(lon, mu, Mc, Lc, radius=float(grid.radius))


def _leaves(t):
  from vp import model  # pylint: disable=import-outside-toplevel
  return model.tree_leaves_with_names(t)


def _canon_state(st, grid, tref_nd, Mc, Lc) -> dict:
  from vp.refs import pe_ref  # pylint: disable=import-outside-toplevel
  T = to_canon(st.temperature_variation, grid, Mc, Lc)
  T[:, 0, 0, 0] += np.asarray(tref_nd, dtype=np.float64) * pe_ref.SQ4PI
  return dict(vorticity=to_canon(st.vorticity, grid, Mc, Lc),
              divergence=to_canon(st.divergence, grid, Mc, Lc), temperature=T,
              lnps=to_canon(np.asarray(st.log_surface_pressure)[0], grid, Mc, Lc),
              tracers={n: to_canon(v, grid, Mc, Lc) for n, v in st.tracers.items()})


def _absmax(x) -> float:
  x = np.asarray(x)
  return float(np.abs(x).max()) if x.size else 0.0


# ------------------------------------------------------------------------------------ primitive equations
def _build_pe_state(fields: dict, with_time: bool, dtype):
  from dinosaur import primitive_equations as pe  # pylint: disable=import-outside-toplevel
  kw = dict(vorticity=fields['vorticity'].astype(dtype), divergence=fields['divergence'].astype(dtype),
            temperature_variation=fields['temperature_variation'].astype(dtype),
            log_surface_pressure=fields['log_surface_pressure'].astype(dtype),
            tracers={k: v.astype(dtype) for k, v in fields['tracers'].items()})
  if with_time:
    return pe.StateWithTime(sim_time=0.0, **kw)
  return pe.State(**kw)


def _compare_with_reference(M, tag, tend, ref_t, grid, cfg, tol, zero_tracers=(), info=None):
  """explicit+implicit vs the reference projection, all coefficients with l <= L-2."""
  Mw, Lout = cfg['M'], cfg['L'] - 1
  worst = 0.0
  for name, got, want in (
      ('vorticity', tend.vorticity, ref_t['vorticity']),
      ('divergence', tend.divergence, ref_t['divergence']),
      ('temperature', tend.temperature_variation, ref_t['temperature']),
      ('log_surface_pressure', np.asarray(tend.log_surface_pressure)[0], ref_t['lnps'])):
    g = to_canon(got, grid, Mw, Lout)
    sc = _absmax(want)
    M.close(f'{tag}:{name}', g, want, tol, scale=sc, info=info)
    if sc > 0:
      worst = max(worst, _absmax(g - want) / sc)
  for n, want in ref_t['tracers'].items():
    g = to_canon(tend.tracers[n], grid, Mw, Lout)
    if n in zero_tracers:
      M.zero(f'{tag}:absent_condensate_stays_absent', np.asarray(tend.tracers[n]), info=info)
      continue
    M.close(f'{tag}:tracers', g, want, tol, scale=_absmax(want), info={'tracer': n, **(info or {})})
  return worst


def _run_pe(case, M):
  import jax  # pylint: disable=import-outside-toplevel
  import jax.numpy as jnp  # pylint: disable=import-outside-toplevel
  from numpy.polynomial import Polynomial  # pylint: disable=import-outside-toplevel
  from dinosaur import primitive_equations as pe, scales  # pylint: disable=import-outside-toplevel
  from vp import model  # pylint: disable=import-outside-toplevel
  from vp.refs import pe_ref, sw_ref  # pylint: disable=import-outside-toplevel
  units = scales.units
  f64 = M.env.startswith('f64')
  dt = np.float64 if f64 else np.float32
  tol = TOL if f64 else TOL32
  cfg, eqk, d = dict(case['grid']), case['eq'], int(case['d'])
  consts = case['consts']
  specs = make_specs(consts, case.get('scale'))
  b = np.asarray(case['bounds'], dtype=np.float64)
  K = b.size - 1
  coords = model.make_coords(cfg, b, specs)
  grid = coords.horizontal
  cfg['radius'] = float(grid.radius)
  Mw, Lw = cfg['M'], cfg['L']
  rng = M.rng()
  moist = eqk in ('moist', 'cloud')
  refkind = eqk if moist else 'dry'
  with_time = eqk != 'dry'
  centers = 0.5 * (b[1:] + b[:-1])
  tref_K = model.tref_profile(rng, K, case['tref'], centers=centers)
  nd = lambda x, unit: np.asarray(specs.nondimensionalize(x * unit), dtype=np.float64)
  tref_nd = nd(tref_K, units.degK)
  tracer_names = tuple(model.EQ_TRACERS[eqk]) + (('passive',) if case['extra_tracer'] else ())
  cloud_names = tuple(model.EQ_TRACERS['cloud'][1:]) if eqk == 'cloud' else ()
  rc = ref_consts(specs)
  cls = getattr(pe, model.EQ_CLASSES[eqk])

  def everything(state, orography):
    # one compiled function per configuration: total tendency + the two diagnostics under test
    eq = cls(tref_nd.astype(dt), orography, coords, specs)
    tend_ = eq.explicit_terms(state) + eq.implicit_terms(state)
    plain = pe.State(state.vorticity, state.divergence, state.temperature_variation,
                     state.log_surface_pressure, state.tracers)
    diag_ = pe.compute_diagnostic_state(plain, coords)
    phi_ = pe.get_geopotential(state.temperature_variation, tref_nd.astype(dt), orography,
                               coords.vertical, specs.g, specs.R)
    return tend_, diag_, phi_, grid.to_nodal(phi_)

  f_all = jax.jit(everything)
  f = lambda state, orography: f_all(state, jnp.asarray(orography))[0]
  budget = (12 if moist else 3) * d + Lw + 4
  sph = _ref_sphere(cfg, float(specs.radius), budget)
  M.cover('equation_class', eqk)
  M.cover('layout', cfg['impl'] + ('+padded' if tuple(grid.nodal_shape) != (cfg['nlon'], cfg['nlat'])
                                  or grid.modal_shape[1] != Lw else ''))
  M.cover('levels', str(K))
  M.cover('grid', f"T{Mw - 1} {cfg['nlon']}x{cfg['nlat']} {cfg['spacing']}")
  M.cover('constants', 'earth' if consts == EARTH else 'varied')
  M.cover('unit_scale', 'default' if not case.get('scale') else 'random')
  M.cover('state_degree', str(d))
  M.cover('reference_temperature', case['tref'])
  uneven = K > 1 and float(np.ptp(np.diff(b))) > 1e-9
  M.cover('levels_uneven', str(uneven))

  # ---------------------------------------------------------------- (a) random alias-free states
  first = None
  for s in range(case['nstates']):
    amp = rng.uniform(0.35, 1.5, 5)
    si = phys_state_si(rng, grid, K, d, decay=float(rng.choice([0.0, 0.5])),
                       wind=40.0 * amp[0], div_wind=4.0 * amp[1], dT=10.0 * amp[2],
                       dlnps=0.03 * amp[3], q_mean=float(rng.uniform(0.007, 0.013)),
                       dq=0.006 * min(1.0, amp[4]), tracers=tracer_names,
                       radius_m=consts['radius_m'])
    for n in cloud_names:
      si['tracers'][n] = np.zeros_like(si['tracers'][n])
    st = model.to_state(si, specs, with_time=with_time, dtype=dt,
                        p0_pa=float(rng.uniform(6e4, 1.05e5)))
    lo = int(rng.integers(2, Lw - 1)) if s else d
    oro_si = orography_si(rng, grid, lmax=lo, height=float(rng.uniform(300, 3000)),
                          decay=float(rng.choice([0.5, 1.0])))
    oro = model.nondim_orography(oro_si, specs, dtype=dt)
    tend, diag_s, phi_s, phin_s = jax.tree_util.tree_map(np.asarray, f_all(st, jnp.asarray(oro)))
    cst = _canon_state(st, grid, tref_nd, d + 1, d + 1)
    oro_c = to_canon(oro, grid, Mw, Lw - 1)
    ref = pe_ref.evaluate(sph, b, cst, oro_c, rc, refkind)
    info = {'state': s, 'degree': d, 'orography_degree': lo}
    worst = _compare_with_reference(M, 'pe_ref', tend, ref['tendency'], grid, cfg, tol,
                                    zero_tracers=cloud_names, info=info)
    M.note('pe_ref_worst_relative_residual_' + ('f64' if f64 else 'f32'), worst)
    if with_time:
      M.check('pe_ref:sim_time_advances_at_unit_rate', float(tend.sim_time) == 1.0)
    if moist:
      qc = to_canon(si['tracers']['specific_humidity'], grid, d + 1, d + 1)
      M.le('workload:humidity_at_most_0.02', _absmax(_probe(d + 1, d + 1).values(qc)), 0.02)
    nontrivial = (K >= 2 and amp[0] * 40 >= 4 and amp[1] * 4 >= 0.4 and amp[2] * 10 >= 1
                  and amp[3] * 0.03 >= 3e-3 and (not moist or min(1.0, amp[4]) * 0.006 >= 6e-4))
    if nontrivial:
      M.nontrivial('pe', s)
    if s == 0:
      first = (st, oro, cst, oro_c, diag_s, phi_s, phin_s)
      M.sample({'kind': 'pe', 'class': eqk, 'grid': gen.grid_tag(cfg), 'levels': K, 'degree': d,
                'boundaries': b, 'T_ref_K': tref_K, 'worst_relative_residual': worst,
                'tendency_maxabs': {k: _absmax(v) for k, v in _leaves(tend)}}, limit=2)
  if not f64:
    return

  # ---------------------------------------------------------------- diagnostic state, geopotential
  st, oro, cst, oro_c, diag, phi, phi_nodal = first
  nodes = _node_sphere(grid, cfg, Mw, Lw - 1)
  crop = lambda z: np.asarray(z)[..., :cfg['nlon'], :cfg['nlat']]
  pw = pe_ref.evaluate(nodes, b, cst, oro_c, rc, refkind, project=False)
  cosl = nodes.cos[None, :]
  want_u = np.stack([np.stack(pw['u']) * cosl, np.stack(pw['v']) * cosl])
  got_u = np.stack([crop(diag.cos_lat_u[0]), crop(diag.cos_lat_u[1])])
  M.close('diag:cos_lat_u', got_u, want_u, TOL, scale=_absmax(want_u))
  if K > 1:
    w = np.stack(pw['sigma_dot_full'])
    M.close('diag:sigma_dot_full', crop(diag.sigma_dot_full), w, TOL, scale=_absmax(w))
    w = np.stack(pw['sigma_dot_explicit'])
    M.close('diag:sigma_dot_explicit', crop(diag.sigma_dot_explicit), w, TOL, scale=_absmax(w))
  else:
    M.check('diag:single_layer_has_no_interfaces', np.asarray(diag.sigma_dot_full).shape[0] == 0)
  w = np.stack(pw['v_grad_lnps'])
  M.close('diag:u_dot_grad_log_sp', crop(diag.u_dot_grad_log_sp), w, TOL, scale=_absmax(w))
  w = np.stack([pw['grad_lnps'][0] * cosl, pw['grad_lnps'][1] * cosl])[:, None]
  g_ = np.stack([crop(diag.cos_lat_grad_log_sp[0]), crop(diag.cos_lat_grad_log_sp[1])])
  M.close('diag:cos_lat_grad_log_sp', g_, w, TOL, scale=_absmax(w))
  for name, got, want in (
      ('vorticity', diag.vorticity, np.stack(pw['vorticity'])),
      ('divergence', diag.divergence, np.stack(pw['divergence'])),
      ('temperature_variation', diag.temperature_variation,
       np.stack(pw['temperature']) - tref_nd[:, None, None])):
    M.close('diag:nodal_fields', crop(got), want, TOL,
            scale=max(_absmax(want), _absmax(tref_nd) if name[0] == 't' else 0.0), info={'field': name})
  for n in st.tracers:
    want = np.stack(pw['tracers'][n])
    M.close('diag:nodal_fields', crop(diag.tracers[n]), want, TOL, scale=_absmax(want) or 1.0,
            info={'field': n})
  # get_geopotential (dry hydrostatic relation; linear, so also checked coefficient-wise)
  Tfull = to_canon(st.temperature_variation, grid, Mw, Lw)
  Tfull[:, 0, 0, 0] += tref_nd * pe_ref.SQ4PI
  want = pe_ref.geopotential_coefficients(b, Tfull, to_canon(oro, grid, Mw, Lw), rc['g'], rc['R'])
  got = to_canon(phi, grid, Mw, Lw)
  rest_g, rest_w = got.copy(), want.copy()
  rest_g[:, 0, 0, 0] = rest_w[:, 0, 0, 0] = 0.0
  M.close('geopotential:coefficients', rest_g, rest_w, TOL, scale=_absmax(rest_w))
  M.close('geopotential:mean_coefficient(float32 literal of sqrt(4pi) in the repo)',
          got[:, 0, 0, 0], want[:, 0, 0, 0], TOL_GEO00, scale=_absmax(want[:, 0, 0, 0]))
  pwd = pw if refkind == 'dry' else pe_ref.evaluate(nodes, b, cst, oro_c, rc, 'dry', project=False)
  wantp = np.stack(pwd['geopotential'])
  M.close('geopotential:pointwise', crop(phi_nodal), wantp, TOL_GEO00, scale=_absmax(wantp))

  # ---------------------------------------------------------------- (b) balanced members
  a, Om, R, g = float(specs.radius), rc['omega'], rc['R'], rc['g']
  eps = rc['R_vapor'] / R - 1.0
  ms = tuple(grid.modal_shape)
  l_axis = np.asarray(grid.modal_axes[1], dtype=np.float64)
  lap = -l_axis * (l_axis + 1) / a ** 2
  ones = np.zeros((K,) + ms)
  ones[:, 0, 0] = pe_ref.SQ4PI

  def tracer_fields(q_levels, passive):
    out = {}
    for n in tracer_names:
      if n == 'specific_humidity':
        out[n] = ones * np.asarray(q_levels)[:, None, None]
      elif n in cloud_names:
        out[n] = np.zeros((K,) + ms)
      else:
        out[n] = passive
    return out

  def assert_steady(name, tend_, cancel, T_scale, q_scale, info_):
    rate = math.sqrt(cancel)
    M.small(name, tend_.divergence, cancel, TOL, info={'field': 'divergence', **info_})
    M.small(name, tend_.vorticity, cancel, TOL, info={'field': 'vorticity', **info_})
    M.small(name, tend_.temperature_variation, T_scale * rate, TOL, info={'field': 'temperature', **info_})
    M.small(name, tend_.log_surface_pressure, rate, TOL, info={'field': 'log_surface_pressure', **info_})
    for n_, v_ in tend_.tracers.items():
      M.small(name, v_, max(q_scale.get(n_, 0.0), 1e-6) * rate, TOL, info={'field': n_, **info_})
    worst_ = max(_absmax(tend_.divergence), _absmax(tend_.vorticity)) / cancel
    M.note(name + '_worst_residual_over_cancelling_term', worst_)
    return worst_

  # (b1) resting isothermal atmosphere in hydrostatic balance over random band-limited orography
  for r in range(2):
    T0 = float(nd(rng.uniform(200.0, 320.0), units.degK))
    q0 = float(rng.uniform(0.001, 0.018)) if moist else 0.0
    Tv0 = T0 * (1.0 + eps * q0)
    lo = int(rng.integers(2, Lw - 1))
    h_m = float(rng.uniform(200, 4000))
    oro = model.nondim_orography(orography_si(rng, grid, lmax=lo, height=h_m,
                                              decay=float(rng.choice([0.0, 0.5, 1.0]))), specs)
    lnps = -g * oro / (R * Tv0)
    lnps[0, 0] += pe_ref.SQ4PI * math.log(float(nd(rng.uniform(5e4, 1.1e5), units.pascal)))
    passive = from_canon(_scaled(rng, (K,), min(d + 2, Lw - 2), 0.01, 0, 0.5, Mw), grid)
    fields = dict(vorticity=np.zeros((K,) + ms), divergence=np.zeros((K,) + ms),
                  temperature_variation=ones * (T0 - tref_nd)[:, None, None],
                  log_surface_pressure=lnps[None], tracers=tracer_fields([q0] * K, passive))
    tend = jax.tree_util.tree_map(np.asarray, f(_build_pe_state(fields, with_time, dt), oro))
    cancel = _absmax(g * lap * oro)
    assert_steady('steady:rest_over_orography', tend, cancel, T0,
                  {n: _absmax(v) for n, v in fields['tracers'].items()},
                  {'T0': T0, 'q0': q0, 'orography_degree': lo, 'height_m': h_m})
    M.cover('balanced', f'rest_over_orography/{eqk}')
    if h_m >= 100 and lo >= 2:
      M.nontrivial('rest', r)

  # (b2) solid-body rotation in gradient-wind balance, any temperature profile, uniform humidity
  for r in range(2):
    Tk = nd(tref_K + rng.uniform(-25.0, 25.0, K), units.degK)
    qk = rng.uniform(0.001, 0.018, K) if moist else np.zeros(K)
    Tv = Tk * (1.0 + eps * qk)
    U_t = float(nd(rng.uniform(5.0, 60.0), units.m / units.s))
    w_t = U_t / a
    if rng.random() < 0.35 and Om > 0:
      w_t = -min(w_t, 0.5 * Om)          # retrograde, stays on the regular branch
    C = a * a * w_t * (w_t + 2.0 * Om) / (R * float(Tv.mean()))
    X = R * Tv * C / a ** 2
    wk = X / (Om + np.sqrt(Om * Om + X))   # cancellation-free root of a^2 w (w + 2 Om) = R Tv C
    c0 = math.log(float(nd(rng.uniform(5e4, 1.1e5), units.pascal)))
    lnps = zonal_modal(grid, sw_ref.zonal_coefficients(Polynomial([c0, 0.0, -0.5 * C]), Lw))
    vort = np.stack([zonal_modal(grid, sw_ref.zonal_coefficients(Polynomial([0.0, 2.0 * w]), Lw))
                     for w in wk])
    passive = np.stack([zonal_modal(grid, sw_ref.zonal_coefficients(
        Polynomial(rng.standard_normal(3) * 0.01), Lw)) for _ in range(K)])
    fields = dict(vorticity=vort, divergence=np.zeros((K,) + ms),
                  temperature_variation=ones * (Tk - tref_nd)[:, None, None],
                  log_surface_pressure=lnps[None], tracers=tracer_fields(qk, passive))
    tend = jax.tree_util.tree_map(
        np.asarray, f(_build_pe_state(fields, with_time, dt), np.zeros(ms, dt)))
    cancel = float(np.abs(R * Tv).max() * abs(lap[2] * lnps[0, 2]))
    assert_steady('steady:solid_body_rotation', tend, cancel, float(Tk.max()),
                  {n: _absmax(v) for n, v in fields['tracers'].items()},
                  {'omega_k': wk, 'C': C, 'T_k': Tk, 'q_k': qk})
    M.cover('balanced', f"solid_body_rotation/{eqk}/{'retrograde' if w_t < 0 else 'prograde'}")
    wind_ms = abs(w_t) * a / float(nd(1.0, units.m / units.s))
    if wind_ms >= 1.0:
      M.nontrivial('sbr', r)
    if r == 0:
      M.sample({'kind': 'solid_body_rotation', 'class': eqk, 'levels': K, 'equatorial_wind_m_s': wind_ms,
                'C': C, 'cancelling_term': cancel,
                'divergence_tendency_maxabs': _absmax(tend.divergence)}, limit=4)


# ------------------------------------------------------------------------------------ shallow water
def _sw_specs(consts, densities):
  from dinosaur import shallow_water as sw, scales  # pylint: disable=import-outside-toplevel
  u = scales.units
  return sw.ShallowWaterSpecs.from_si(
      densities=np.asarray(densities) * u.kg / u.m ** 3, radius_si=consts['radius_m'] * u.m,
      angular_velocity_si=consts['omega'] / u.s, gravity_acceleration_si=consts['g'] * u.m / u.s ** 2)


def _random_jet_polys(rng, n, dp, amplitude):
  """u_i = cos(lat) p_i(mu) with max |u_i| = amplitude_i."""
  from numpy.polynomial import Polynomial  # pylint: disable=import-outside-toplevel
  mu = np.linspace(-1, 1, 801)
  out = []
  for i in range(n):
    p = Polynomial(rng.standard_normal(int(rng.integers(0, dp + 1)) + 1))
    mx = np.abs(np.sqrt(1 - mu ** 2) * p(mu)).max()
    out.append(p * (amplitude[i] / mx))
  return out


def _jet_state_analytic(grid, polys, W, radius, omega, Lw, oro_zonal=None):
  """Analytic balanced state for u_i = cos(lat) p_i(mu): vorticity, potential deviation (modal),
  Montgomery potentials (zonal coefficient vectors)."""
  from vp.refs import sw_ref  # pylint: disable=import-outside-toplevel
  n = len(polys)
  zc, Pc = [], []
  for p in polys:
    zeta, P = sw_ref.balanced_zonal_jet(p, radius, omega)
    zc.append(sw_ref.zonal_coefficients(zeta, Lw))
    c = sw_ref.zonal_coefficients(P, Lw)
    c[0] = 0.0
    Pc.append(c)
  Pc = np.stack(Pc)
  rhs = Pc - (0.0 if oro_zonal is None else oro_zonal[None, :])
  rhs[:, 0] = 0.0
  dev = np.linalg.solve(W, rhs)           # W Phi' = P - Phi_b  (per zonal coefficient)
  vort = np.stack([zonal_modal(grid, c) for c in zc])
  pot = np.stack([zonal_modal(grid, c) for c in dev])
  return vort, pot, Pc


def _assert_jet_steady(M, name, tend, Pc, pot_zonal, radius, ref_pot, info):
  """Largest cancelling term: lap of the Montgomery potential P_i = sum_j W_ij Phi_j and of its
  individual summands W_ij Phi_j (W_ii = 1; they dominate when two densities nearly coincide)."""
  l = np.arange(Pc.shape[-1], dtype=np.float64)
  cancel = max(_absmax(l * (l + 1) / radius ** 2 * Pc),
               _absmax(l * (l + 1) / radius ** 2 * np.asarray(pot_zonal)[..., :l.size]))
  rate = math.sqrt(cancel)
  M.small(name, tend.divergence, cancel, TOL, info={'field': 'divergence', **info})
  M.small(name, tend.vorticity, cancel, TOL, info={'field': 'vorticity', **info})
  M.small(name, tend.potential, _absmax(ref_pot) * rate, TOL, info={'field': 'potential', **info})
  worst = max(_absmax(tend.divergence), _absmax(tend.vorticity)) / cancel
  M.note(name + '_worst_residual_over_cancelling_term', worst)
  return cancel, worst


def _run_sw(case, M):
  import jax  # pylint: disable=import-outside-toplevel
  from numpy.polynomial import Polynomial  # pylint: disable=import-outside-toplevel
  from dinosaur import shallow_water as sw, coordinate_systems as cs, layer_coordinates as lc, scales  # pylint: disable=import-outside-toplevel
  from vp import model  # pylint: disable=import-outside-toplevel
  from vp.refs import sw_ref  # pylint: disable=import-outside-toplevel
  units = scales.units
  cfg, n, d = dict(case['grid']), int(case['layers']), int(case['d'])
  consts = case['consts']
  specs = _sw_specs(consts, case['densities'])
  cfg['radius'] = float(specs.radius)
  grid = gen.make_grid(cfg)
  coords = cs.CoordinateSystem(grid, lc.LayerCoordinates(n))
  Mw, Lw = cfg['M'], cfg['L']
  rng = M.rng()
  nd = lambda x, unit: np.asarray(specs.nondimensionalize(x * unit), dtype=np.float64)
  pot_unit = units.m ** 2 / units.s ** 2
  ref_pot = nd(np.asarray(case['ref_potential_si']), pot_unit)
  dens = np.asarray(specs.densities, dtype=np.float64)
  a, Om = float(specs.radius), float(specs.angular_velocity)
  has_oro = bool(case['oro'])

  if has_oro:
    def total(state, orography):
      eq = sw.ShallowWaterEquations(coords, specs, orography, ref_pot)
      return eq.explicit_terms(state) + eq.implicit_terms(state)
  else:
    def total(state, orography):
      del orography
      eq = sw.ShallowWaterEquations(coords, specs, None, ref_pot)
      return eq.explicit_terms(state) + eq.implicit_terms(state)
  f = jax.jit(total)
  sph = _ref_sphere(cfg, a, 2 * d + Lw + 4)
  M.cover('equation_class', 'shallow_water')
  M.cover('sw_layers', str(n))
  M.cover('sw_orography', str(has_oro))
  M.cover('layout', cfg['impl'])
  M.cover('grid', f"T{Mw - 1} {cfg['nlon']}x{cfg['nlat']} {cfg['spacing']}")
  zero_oro = np.zeros(tuple(grid.modal_shape))

  for s in range(case['nstates']):
    si = phys_state_si(rng, grid, n, d, decay=float(rng.choice([0.0, 0.5])),
                       wind=float(rng.uniform(15, 60)), div_wind=float(rng.uniform(1.5, 6)),
                       dT=1.0, dlnps=1.0, q_mean=0.0, dq=0.0, tracers=(), radius_m=consts['radius_m'])
    pot = np.stack([from_canon(_scaled(rng, (), d, float(rng.uniform(100, 800)) * 9.8, 0, 0.5, Mw), grid)
                    for _ in range(n)])
    st = sw.State(nd(si['vorticity'], 1 / units.s), nd(si['divergence'], 1 / units.s),
                  nd(pot, pot_unit))
    lo = int(rng.integers(2, Lw - 1))
    oro = nd(orography_si(rng, grid, lmax=lo, height=float(rng.uniform(200, 2500))) * 9.8,
             pot_unit) if has_oro else zero_oro
    tend = jax.tree_util.tree_map(np.asarray, f(st, oro))
    cst = dict(vorticity=to_canon(st.vorticity, grid, d + 1, d + 1),
               divergence=to_canon(st.divergence, grid, d + 1, d + 1),
               potential=to_canon(st.potential, grid, d + 1, d + 1))
    ref = sw_ref.evaluate(sph, cst, to_canon(oro, grid, Mw, Lw - 1) if has_oro else None, dens,
                          ref_pot, Om)
    worst = 0.0
    got_all = {name: to_canon(getattr(tend, name), grid, Mw, Lw - 1)
               for name in ('vorticity', 'divergence', 'potential')}
    for name in ('vorticity', 'divergence', 'potential'):
      want = ref['tendency'][name]
      M.close(f'sw_ref:{name}', got_all[name], want, TOL, scale=_absmax(want),
              info={'state': s, 'degree': d, 'layers': n, 'top_wavenumber_excited': d == Lw - 2})
      worst = max(worst, _absmax(got_all[name] - want) / _absmax(want))
    M.note('sw_ref_worst_relative_residual', worst)
    M.nontrivial('sw', s)
    if s == 0:
      M.sample({'kind': 'sw', 'grid': gen.grid_tag(cfg), 'layers': n, 'degree': d, 'densities': dens,
                'worst_relative_residual': worst}, limit=4)

  # (b3) analytic geostrophically balanced zonal jets (+ zonal bottom topography) under this radius/Omega
  W = sw_ref.montgomery_weights(dens)
  dp = max(0, min(4, (Lw - 4) // 2))
  for r in range(2):
    U = nd(rng.uniform(10.0, 60.0, n), units.m / units.s)
    polys = _random_jet_polys(rng, n, dp, U)
    oz = None
    if has_oro:
      hp = Polynomial(rng.standard_normal(int(rng.integers(1, 2 * dp + 3)) + 1))
      hp = hp * (float(nd(rng.uniform(100, 1500) * 9.8, pot_unit)) / np.abs(hp(np.linspace(-1, 1, 401))).max())
      oz = sw_ref.zonal_coefficients(hp, Lw)
    vort, pot, Pc = _jet_state_analytic(grid, polys, W, a, Om, Lw, oz)
    st = sw.State(vort, np.zeros_like(vort), pot)
    tend = jax.tree_util.tree_map(np.asarray, f(st, zonal_modal(grid, oz) if has_oro else zero_oro))
    _assert_jet_steady(M, 'steady:sw_jets_analytic', tend, Pc, pot[:, 0, :], a, ref_pot,
                       {'layers': n, 'jet_degree': [p.degree() for p in polys]})
    M.cover('balanced', f'sw_jets_analytic/{n}layers/' + ('topography' if has_oro else 'flat'))
    M.nontrivial('jet', r)


def _run_jet_repo(case, M):
  """Balanced jets built by the repository (shallow_water_states.one_layer / multi_layer)."""
  import jax  # pylint: disable=import-outside-toplevel
  import jax.numpy as jnp  # pylint: disable=import-outside-toplevel
  from dinosaur import (shallow_water as sw, shallow_water_states as sws, coordinate_systems as cs,  # pylint: disable=import-outside-toplevel
                        layer_coordinates as lc, scales)
  from vp.refs import sw_ref  # pylint: disable=import-outside-toplevel
  units = scales.units
  cfg, n = dict(case['grid']), int(case['layers'])
  rng = M.rng()
  dens = _densities(rng, n)
  specs = sw.ShallowWaterSpecs.from_si(densities=dens * units.kg / units.m ** 3)   # default units
  cfg['radius'] = float(specs.radius)
  grid = gen.make_grid(cfg)
  coords = cs.CoordinateSystem(grid, lc.LayerCoordinates(n))
  Lw = cfg['L']
  a, Om = float(specs.radius), float(specs.angular_velocity)
  ref_pot = np.sort(rng.uniform(0.02, 0.12, n))[::-1].copy()
  eq = sw.ShallowWaterEquations(coords, specs, None, ref_pot)
  f = jax.jit(lambda s: eq.explicit_terms(s) + eq.implicit_terms(s))
  build_one = jax.jit(lambda u_: sws.one_layer(u_, grid))
  build_multi = jax.jit(lambda u_: sws.multi_layer(u_, specs.densities, coords))
  dp = max(0, min(4, (Lw - 4) // 2))
  mu = np.asarray(grid.nodal_axes[1], dtype=np.float64)
  W = sw_ref.montgomery_weights(np.asarray(specs.densities, dtype=np.float64))
  for r in range(3):
    polys = _random_jet_polys(rng, n, dp, rng.uniform(0.015, 0.08, n))
    u = np.stack([np.sqrt(1 - mu ** 2) * p(mu) for p in polys])
    if n == 1 and r % 2 == 0:
      s1 = build_one(jnp.asarray(u[0]))
      st = sw.State(s1.vorticity[None], s1.divergence[None], s1.potential[None])
      api = 'one_layer'
    else:
      st = build_multi(jnp.asarray(u))
      api = 'multi_layer'
    tend = jax.tree_util.tree_map(np.asarray, f(st))
    vort_a, pot_a, Pc = _jet_state_analytic(grid, polys, W, a, Om, Lw)
    _assert_jet_steady(M, 'steady:sw_jets_repo_states', tend, Pc, np.asarray(st.potential)[:, 0, :], a, ref_pot,
                       {'api': api, 'layers': n, 'jet_degree': [p.degree() for p in polys]})
    # the builder's output is also pinned to the analytic balanced state
    M.close('sw_states:vorticity_is_curl_of_jet', np.asarray(st.vorticity), vort_a, TOL,
            scale=_absmax(vort_a))
    M.close('sw_states:potential_is_balanced', np.asarray(st.potential), pot_a, TOL,
            scale=_absmax(pot_a))
    M.zero('sw_states:divergence_zero', np.asarray(st.divergence))
    M.cover('balanced', f'sw_jets_repo/{api}/{n}layers')
    M.nontrivial('jetrepo', r)
    if r == 0:
      M.sample({'kind': 'jet_repo', 'api': api, 'layers': n, 'u_max': _absmax(u),
                'divergence_tendency_maxabs': _absmax(tend.divergence),
                'laplacian_montgomery_maxabs': _absmax(np.arange(Lw) * (np.arange(Lw) + 1.0) * Pc)},
               limit=5)


def _run_rest_repo(case, M):
  """Flat resting isothermal atmosphere from primitive_equations_states.isothermal_rest_atmosphere."""
  import jax  # pylint: disable=import-outside-toplevel
  from dinosaur import (primitive_equations as pe, primitive_equations_states as pes, scales,  # pylint: disable=import-outside-toplevel
                        xarray_utils)
  from vp import model  # pylint: disable=import-outside-toplevel
  from vp.refs import pe_ref  # pylint: disable=import-outside-toplevel
  units = scales.units
  cfg, eqk = dict(case['grid']), case['eq']
  specs = pe.PrimitiveEquationsSpecs.from_si()
  b = np.asarray(case['bounds'])
  K = b.size - 1
  coords = model.make_coords(cfg, b, specs)
  grid = coords.horizontal
  state_fn, aux = pes.isothermal_rest_atmosphere(
      coords, specs, tref=case['tref_K'] * units.degK, p0=case['p0_pa'] * units.pascal)
  st0 = jax.jit(state_fn)(jax.random.PRNGKey(int(M.rng().integers(1 << 30))))
  tref = np.asarray(aux[xarray_utils.REF_TEMP_KEY], dtype=np.float64)
  oro_nodal = np.asarray(aux[xarray_utils.OROGRAPHY])
  tref_want = float(specs.nondimensionalize(case['tref_K'] * units.degK))
  p0_want = float(specs.nondimensionalize(case['p0_pa'] * units.pascal))
  M.close('rest_state:reference_temperature', tref, np.full(K, tref_want), TOL)
  M.zero('rest_state:flat_orography', oro_nodal)
  M.zero('rest_state:at_rest_and_isothermal',
         np.stack([np.asarray(st0.vorticity), np.asarray(st0.divergence),
                   np.asarray(st0.temperature_variation)]))
  eq = getattr(pe, model.EQ_CLASSES[eqk])(tref, np.zeros(tuple(grid.modal_shape)), coords, specs)
  run_ = jax.jit(lambda s_, lsp_: (eq.explicit_terms(s_) + eq.implicit_terms(s_), grid.to_nodal(lsp_)))
  ps = None
  ms = tuple(grid.modal_shape)
  tracers = {}
  for n in model.EQ_TRACERS[eqk]:
    t = np.zeros((K,) + ms)
    if n == 'specific_humidity':
      t[:, 0, 0] = 0.01 * pe_ref.SQ4PI
    tracers[n] = t
  fields = dict(vorticity=np.asarray(st0.vorticity), divergence=np.asarray(st0.divergence),
                temperature_variation=np.asarray(st0.temperature_variation),
                log_surface_pressure=np.asarray(st0.log_surface_pressure), tracers=tracers)
  st = _build_pe_state(fields, eqk != 'dry', np.float64)
  tend, lsp_nodal = run_(st, st0.log_surface_pressure)
  ps = np.exp(np.asarray(lsp_nodal))[..., :cfg['nlon'], :cfg['nlat']]
  M.close('rest_state:surface_pressure_is_p0', ps, np.full(ps.shape, p0_want), TOL)
  # the pressure-gradient term R T lap(ln p_s) vanishes only if ln p_s is uniform
  l = cfg['L'] - 1
  cancel = float(specs.R * tref_want * abs(np.asarray(st0.log_surface_pressure)[0, 0, 0])
                 * l * (l + 1) / float(specs.radius) ** 2)
  rate = math.sqrt(cancel)
  for name, v in _leaves(tend):
    if name == 'sim_time':
      continue
    sc = {'vorticity': cancel, 'divergence': cancel, 'temperature_variation': tref_want * rate,
          'log_surface_pressure': rate}.get(name, 0.01 * rate)
    M.small('steady:rest_flat_repo_state', np.asarray(v), sc, TOL, info={'field': name})
  M.cover('balanced', f'rest_flat_repo/{eqk}')
  M.nontrivial('restflat')


def run(case, M):
  kind = case['kind']
  if kind == 'pe':
    _run_pe(case, M)
  elif kind == 'sw':
    _run_sw(case, M)
  elif kind == 'jet_repo':
    _run_jet_repo(case, M)
  elif kind == 'rest_repo':
    _run_rest_repo(case, M)
  else:
    from vp import core  # pylint: disable=import-outside-toplevel
    raise core.HarnessError(f'unknown case kind {kind}')
