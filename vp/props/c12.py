"""C12 — results independent of the non-dimensionalisation scale.

Metamorphic monitor over pairs of executions: the same physical problem (SI constants, radius,
rotation, state, orography, time step) is run through the real API under two `Scale` objects and
everything is converted back to SI with the scale's own `dimensionalize` before it is compared.
DESIGN.md §3 C12.
"""
from __future__ import annotations

import numpy as np

from vp import core, gen, model

RULE = ('cases = (workload: dry / with-time / moist / cloud primitive equations with orography; '
        'Held-Suarez forcing; layered shallow water; SolarRadiation; isothermal_rest_atmosphere, '
        'steady_state_jw, baroclinic_perturbation_jw) x (pair of scales from DEFAULT, ATMOSPHERIC, '
        'corner scales of the box length 1e2..1e8 m, time 1..1e5 s, mass 1e-3..1e19 kg, temperature '
        '0.1..10 K, and random log-uniform scales in that box) x (grid, 1..8 sigma layers, optional '
        'non-default SI constants radius/omega/g/R/kappa, integrator, 1..5 steps). The physical '
        'problem is generated once in SI (modal coefficients on the unit-sphere basis; mean surface '
        'pressure 1e5 Pa) and non-dimensionalised with each scale; tendencies (explicit, implicit, '
        'sum), implicit_inverse, every step of the trajectory incl. sim_time, forcing members and '
        'state builders are dimensionalised back and compared. An item (case, monitor) is '
        'non-trivial when the two scales differ by >=10% in at least one base unit and the compared '
        'SI output is not identically zero; Held-Suarez items additionally need the equilibrium '
        'temperature clamp active on 5-95% of the points (else the workload is discarded).')
MIN_NONTRIVIAL = {'quick': 200, 'thorough': 700}
REQUIRED_MONITORS = {'all': ['si_equal_explicit', 'si_equal_implicit', 'si_equal_total_tendency',
                             'si_equal_implicit_inverse', 'si_equal_steps', 'si_equal_sim_time',
                             'hs_si_equal_explicit_terms', 'hs_si_equal_equilibrium_temperature',
                             'hs_si_equal_kv_kt', 'hs_clamp_fraction_in_5_95pct',
                             'sw_si_equal_tendencies', 'sw_si_equal_steps',
                             'radiation_flux_si_equal', 'builders_si_equal_isothermal_rest',
                             'builders_si_equal_steady_state_jw',
                             'builders_si_equal_baroclinic_perturbation_jw']}
ASSUMPTIONS = ['conversion to SI uses the public Scale.dimensionalize of the scale under test',
               'modal coefficients on the unit-sphere basis are scale-free apart from units',
               'log-surface-pressure: the (0,0) coefficient carries log(pressure unit); it is compared '
               'after adding sqrt(4 pi) log(unit in Pa), the other coefficients directly',
               'comparisons that contain the semi-implicit solve use tol = min(max(1e-10, 10 delta), 1e-8) '
               '(steps: 40 n delta), delta = measured backward error |(1 - eta L) inverse(x) - x| of each '
               'execution (two executions cannot agree better than each solves its own system)']
TIMEOUT = {'quick': 1500, 'thorough': 7200}

TOL = {'f64': 1e-10, 'f32': 1e-3}
SQ4PI = model.SQ4PI

COUPLED = ('divergence', 'temperature_variation')
STATE_UNITS = {'vorticity': '1/s', 'divergence': '1/s', 'temperature_variation': 'K',
               'tracers': 'dimensionless', 'sim_time': 's', 'potential': 'm^2/s^2'}


# ------------------------------------------------------------------------------- SI conversion
class Conv:
  """Dimensionalises outputs of one execution with the specs (scale) it ran under."""

  def __init__(self, specs):
    from dinosaur import scales  # pylint: disable=import-outside-toplevel
    self.specs = specs
    self.u = scales.units
    self.log_punit = float(np.log(specs.dimensionalize(1.0, self.u.pascal).m))

  def dim(self, x, unit: str):
    return np.asarray(self.specs.dimensionalize(np.asarray(x, np.float64), self.u.parse_units(unit)).m,
                      np.float64)

  def nd(self, x, unit: str):
    return np.asarray(self.specs.nondimensionalize(np.asarray(x, np.float64) * self.u.parse_units(unit)),
                      np.float64)

  def tree(self, obj, rate: bool, prefix='', split00=False) -> dict:
    """State-like object -> {leaf: SI array}; rate=True for tendencies (per second).

    split00: report the (0,0) coefficient of divergence / temperature as separate leaves (the l=0
    block of the semi-implicit solve couples them to the O(100) mean log-pressure coefficient).
    """
    d = obj.asdict() if hasattr(obj, 'asdict') else dict(obj)
    out = {}
    per = '/s' if rate else ''
    for k, v in d.items():
      if k == 'tracers':
        for kk, vv in v.items():
          out[f'{prefix}tracers.{kk}'] = self.dim(vv, 'dimensionless' if not rate else '1/s')
      elif k == 'log_surface_pressure':
        a = np.asarray(v, np.float64)
        if rate:
          out[prefix + k] = self.dim(a, '1/s')
        else:
          mean = a[..., 0, 0] + SQ4PI * self.log_punit
          dev = a.copy()
          dev[..., 0, 0] = 0.0
          out[prefix + k + '.mean(ln Pa)'] = mean
          out[prefix + k + '.deviation'] = dev
      elif k == 'sim_time':
        out[prefix + k] = self.dim(v, 's') if not rate else np.asarray(v, np.float64)
      else:
        unit = STATE_UNITS[k]
        a = self.dim(v, f'({unit}){per}' if rate else unit)
        if split00 and k in COUPLED:
          out[prefix + k + '.(0,0)'] = a[..., 0, 0].copy()
          a = a.copy()
          a[..., 0, 0] = 0.0
        out[prefix + k] = a
    return out

  def coupled00_scales(self, state) -> dict:
    """SI size of one rounding unit of the l=0 block of the implicit solve: the largest
    non-dimensional (0,0) entry among divergence, temperature, log-pressure, in each leaf's unit."""
    c = max(float(np.max(np.abs(np.asarray(getattr(state, k))[..., 0, 0])))
            for k in COUPLED + ('log_surface_pressure',))
    return {'divergence.(0,0)': c * float(self.dim(1.0, '1/s')),
            'temperature_variation.(0,0)': c * float(self.dim(1.0, 'K')),
            'log_surface_pressure.mean(ln Pa)': c}


def compare(M, mon, A: dict, B: dict, tol, info, scales=None, count=True, differ=True):
  """Leaf-wise SI comparison of the two executions; scale = max|leaf| over both (or given)."""
  nonzero = False
  for k in A:
    a, b = A[k], B[k]
    s = (scales or {}).get(k)
    if s is None:
      s = max(float(np.max(np.abs(a))) if a.size else 0.0, float(np.max(np.abs(b))) if b.size else 0.0)
    if s > 0:
      nonzero = True
    M.close(mon, b, a, tol, scale=s if s > 0 else None, info=dict(info, leaf=k))
  if count and nonzero and differ:
    M.nontrivial(mon, info.get('what'))
  return nonzero


def scales_differ(da, db) -> bool:
  """At least one base unit differs by >= 10% between the two scale descriptors."""
  def base(d):
    if d in (None, 'default'):
      return (6.37122e6, 1 / (2 * 7.292e-5), 1.0, 1.0)
    if d == 'atmospheric':
      return (6.37122e6, 1 / (2 * 7.292e-5), 5.18e18, 1.0)
    return (d['length_m'], d['time_s'], d['mass_kg'], d['temperature_K'])
  return any(abs(np.log(x / y)) > np.log(1.1) for x, y in zip(base(da), base(db)))


def scale_tag(d) -> str:
  if d in (None, 'default'):
    return 'DEFAULT'
  if d == 'atmospheric':
    return 'ATMOSPHERIC'
  return d.get('tag', 'random')


# ------------------------------------------------------------------------------- case lists
G = gen.grid_cfg
CORNERS = {
    'corner-min': dict(length_m=1e2, time_s=1.0, mass_kg=1e-3, temperature_K=0.1, tag='corner-min'),
    'corner-max': dict(length_m=1e8, time_s=1e5, mass_kg=1e19, temperature_K=10.0, tag='corner-max'),
    'corner-mixed-a': dict(length_m=1e8, time_s=1.0, mass_kg=1e19, temperature_K=0.1, tag='corner-mixed'),
    'corner-mixed-b': dict(length_m=1e2, time_s=1e5, mass_kg=1e-3, temperature_K=10.0, tag='corner-mixed'),
    'si': dict(length_m=1.0, time_s=1.0, mass_kg=1.0, temperature_K=1.0, tag='SI-units'),
    'probe': dict(length_m=1.7e5, time_s=411.0, mass_kg=3.3, temperature_K=2.5, tag='design-probe'),
    'kelvin-only': dict(length_m=6.37122e6, time_s=1 / (2 * 7.292e-5), mass_kg=1.0, temperature_K=3.0,
                        tag='default-but-3K'),
    'km-hour': dict(length_m=1e3, time_s=3600.0, mass_kg=1e-3, temperature_K=1.0, tag='km-hour-gram'),
}
GRIDS = {
    'r6': G(6, 7, 19, 10), 'f8': G(8, 9, 24, 12, impl='fast'), 'r8e': G(8, 9, 25, 18, 'equiangular'),
    'f10': G(10, 11, 31, 16, impl='fast', offset=0.4), 'f8pad': G(8, 9, 25, 13, impl='fast', bsm=8),
    'T21f': gen.factory_cfg('T21', 'fast'), 'T21r': gen.factory_cfg('T21', 'real'),
}
CONSTS = {
    'mars-like': dict(radius_m=3.3895e6, omega=7.088e-5, g=3.72, R=192.0, kappa=0.25),
    'small-fast': dict(radius_m=1.0e6, omega=3.0e-4, g=12.0, R=300.0, kappa=0.3),
}


def _cost(c):
  g = c.get('grid') or GRIDS['r6']
  size = g['nlon'] * g['nlat'] * g['L'] / (64 * 32 * 23.0)
  lay = c.get('layers', 3) / 5.0
  base = {'pe': 14.0, 'hs': 3.0, 'sw': 7.0, 'rad': 1.0, 'builders': 4.0}[c['kind']]
  if c.get('eq') in ('moist', 'cloud'):
    base *= 1.5
  return round(base * (0.35 + 0.65 * size ** 0.7 * (0.4 + 0.6 * lay)), 2)


def _case(cid, kind, sa, sb, env='f64', **kw):
  c = dict(id=cid, kind=kind, scales=[sa, sb], env=env, **kw)
  c['cost'] = _cost(c)
  return c


def _structured(tier):
  C = CORNERS
  out = []
  add = lambda *a, **k: out.append(_case(*a, **k))
  # primitive equations
  add('pe-dry-default-atmos', 'pe', 'default', 'atmospheric', grid=GRIDS['r6'], eq='dry', layers=3,
      integrator='imex_rk_sil3', nsteps=3, dt_s=1800.)
  add('pe-moist-default-probe', 'pe', 'default', C['probe'], grid=GRIDS['f8'], eq='moist', layers=5,
      integrator='imex_rk_sil3', nsteps=2, dt_s=1200.)
  add('pe-dry-atmos-cornermin', 'pe', 'atmospheric', C['corner-min'], grid=GRIDS['r6'], eq='dry',
      layers=4, integrator='crank_nicolson_rk3', nsteps=5, dt_s=1800.)
  add('pe-moist-cornermax-mixed', 'pe', C['corner-max'], C['corner-mixed-a'], grid=GRIDS['r6'],
      eq='moist', layers=3, integrator='imex_rk_sil3', nsteps=5, dt_s=1800.)
  add('pe-time-si-mixedb', 'pe', C['si'], C['corner-mixed-b'], grid=GRIDS['f8pad'], eq='time',
      layers=2, integrator='crank_nicolson_rk2', nsteps=4, dt_s=1200.)
  add('pe-dry-default-3K', 'pe', 'default', C['kelvin-only'], grid=GRIDS['r8e'], eq='dry', layers=3,
      integrator='backward_forward_euler', nsteps=3, dt_s=1200., inv_method='blockwise')
  add('pe-moist-mars-default-kmhour', 'pe', 'default', C['km-hour'], grid=GRIDS['r6'], eq='moist',
      layers=4, integrator='crank_nicolson_rk4', nsteps=2, dt_s=1800., consts=CONSTS['mars-like'])
  add('pe-dry-smallfast-atmos-probe', 'pe', 'atmospheric', C['probe'], grid=GRIDS['f8'], eq='dry',
      layers=3, integrator='imex_rk_sil3', nsteps=3, dt_s=300., consts=CONSTS['small-fast'],
      matmul='sparse', inv_method='stacked')
  add('pe-moist-T21-default-cornermax', 'pe', 'default', C['corner-max'], grid=GRIDS['T21f'],
      eq='moist', layers=5, integrator='imex_rk_sil3', nsteps=2, dt_s=1200.)
  add('pe-dry-1layer-atmos-mixedb', 'pe', 'atmospheric', C['corner-mixed-b'], grid=GRIDS['f10'],
      eq='dry', layers=1, integrator='imex_rk_sil3', nsteps=3, dt_s=1200.)
  # every equation class in the quick tier too: the cloud-condensate class has its own virtual
  # temperature code path
  add('pe-cloud-default-probe', 'pe', 'default', C['probe'], grid=GRIDS['f8'], eq='cloud', layers=4,
      integrator='imex_rk_sil3', nsteps=3 if tier == 'thorough' else 2, dt_s=1200.)
  if tier == 'thorough':
    add('pe-moist-T21r-atmos-mixeda-8layers', 'pe', 'atmospheric', C['corner-mixed-a'],
        grid=GRIDS['T21r'], eq='moist', layers=8, integrator='crank_nicolson_rk3', nsteps=5, dt_s=1200.)
    add('pe-dry-T31-default-cornermin', 'pe', 'default', C['corner-min'],
        grid=gen.factory_cfg('T31', 'fast'), eq='dry', layers=5, integrator='imex_rk_sil3', nsteps=3,
        dt_s=900.)
  # Held-Suarez
  add('hs-default-atmos', 'hs', 'default', 'atmospheric', grid=GRIDS['r6'], layers=6)
  add('hs-default-3K', 'hs', 'default', C['kelvin-only'], grid=GRIDS['f8'], layers=5)
  add('hs-atmos-cornermin', 'hs', 'atmospheric', C['corner-min'], grid=GRIDS['r8e'], layers=8)
  add('hs-cornermax-mixedb', 'hs', C['corner-max'], C['corner-mixed-b'], grid=GRIDS['f8pad'], layers=5,
      params=dict(p0_pa=0.98e5, sigma_b=0.65, kf_per_day=1.3, ka_per_day=1 / 35., ks_per_day=0.3,
                  minT=205., maxT=310., dTy=55., dThz=12.))
  add('hs-T21-default-probe', 'hs', 'default', C['probe'], grid=GRIDS['T21f'], layers=8)
  add('hs-mars-si-mixeda', 'hs', C['si'], C['corner-mixed-a'], grid=GRIDS['r6'], layers=6,
      consts=CONSTS['mars-like'])
  # shallow water
  add('sw-default-atmos', 'sw', 'default', 'atmospheric', grid=GRIDS['r6'], layers=1,
      integrator='imex_rk_sil3', nsteps=3, dt_s=1200.)
  add('sw-default-probe-3layers', 'sw', 'default', C['probe'], grid=GRIDS['f8'], layers=3,
      integrator='leapfrog', nsteps=5, dt_s=900.)
  add('sw-cornermin-cornermax', 'sw', C['corner-min'], C['corner-max'], grid=GRIDS['r8e'], layers=2,
      integrator='crank_nicolson_rk3', nsteps=4, dt_s=900.)
  add('sw-atmos-kmhour-smallfast', 'sw', 'atmospheric', C['km-hour'], grid=GRIDS['f8pad'], layers=2,
      integrator='imex_rk_sil3', nsteps=3, dt_s=200., consts=CONSTS['small-fast'])
  add('sw-T21-default-mixedb', 'sw', 'default', C['corner-mixed-b'], grid=GRIDS['T21f'], layers=2,
      integrator='leapfrog', nsteps=5, dt_s=600.)
  # radiation
  add('rad-default-atmos', 'rad', 'default', 'atmospheric', grid=GRIDS['r6'], ref='1979-01-01T00:00')
  add('rad-default-cornermin', 'rad', 'default', C['corner-min'], grid=GRIDS['f8pad'],
      ref='2001-06-21T13:37')
  add('rad-cornermax-mixeda', 'rad', C['corner-max'], C['corner-mixed-a'], grid=GRIDS['r8e'],
      ref='2020-02-29T23:59')
  add('rad-atmos-probe-T21', 'rad', 'atmospheric', C['probe'], grid=GRIDS['T21f'], ref='1999-12-31T06:00')
  # state builders
  add('builders-default-atmos', 'builders', 'default', 'atmospheric', grid=GRIDS['r6'], layers=5)
  add('builders-default-probe', 'builders', 'default', C['probe'], grid=GRIDS['f8'], layers=6)
  add('builders-cornermin-cornermax', 'builders', C['corner-min'], C['corner-max'], grid=GRIDS['r8e'],
      layers=4)
  add('builders-mars-atmos-mixedb', 'builders', 'atmospheric', C['corner-mixed-b'], grid=GRIDS['f8pad'],
      layers=7, consts=CONSTS['mars-like'])
  add('builders-T21-default-kmhour', 'builders', 'default', C['km-hour'], grid=GRIDS['T21f'], layers=8)
  return out


def _rand_grid(rng, max_M):
  M = int(rng.integers(5, max_M + 1))
  L = M + int(rng.choice([0, 1, 1, 3]))
  spacing = str(rng.choice(['gauss', 'gauss', 'equiangular']))
  nlon = int(rng.integers(2 * M, 3 * M + 3))
  nlat = int(rng.integers((L + 1) // 2 + 2, (3 * L) // 2 + 3)) if spacing == 'gauss' else int(rng.integers(L + 2, 2 * L + 4))
  impl = str(rng.choice(['real', 'fast']))
  cfg = G(M, L, nlon, nlat, spacing, offset=float(rng.choice([0.0, rng.uniform(-3, 3)])), impl=impl)
  if impl == 'fast' and rng.random() < 0.3:
    cfg['bsm'] = [2, 4, 8][int(rng.integers(3))]
  return cfg


def _rand_scale(rng):
  r = rng.random()
  if r < 0.2:
    return 'default'
  if r < 0.35:
    return 'atmospheric'
  d = model.random_scale_desc(rng)
  d['tag'] = 'random'
  return d


# structured cases that only run in the thorough tier
THOROUGH_ONLY = {'pe-dry-1layer-atmos-mixedb', 'pe-dry-smallfast-atmos-probe',
                 'pe-moist-T21-default-cornermax', 'hs-T21-default-probe', 'sw-T21-default-mixedb',
                 'builders-T21-default-kmhour'}


def cases(tier, seed):
  out = _structured(tier)
  if tier == 'quick':
    out = [c for c in out if c['id'] not in THOROUGH_ONLY]
  rng = np.random.default_rng([seed, 112])
  n_rand = 10 if tier == 'quick' else 60
  for i in range(n_rand):
    sa, sb = _rand_scale(rng), _rand_scale(rng)
    if sa == sb:
      sb = dict(model.random_scale_desc(rng), tag='random')
    g = _rand_grid(rng, 9 if tier == 'quick' else 14)
    r = rng.random()
    kind = 'pe' if r < 0.4 else 'hs' if r < 0.58 else 'sw' if r < 0.76 else 'rad' if r < 0.86 else 'builders'
    layers = int(rng.integers(1, 5 if tier == 'quick' else 9))
    consts = None
    if rng.random() < 0.3:
      consts = dict(radius_m=float(10 ** rng.uniform(6, 7)), omega=float(10 ** rng.uniform(-4.5, -3.7)),
                    g=float(rng.uniform(3, 15)), R=float(rng.uniform(180, 320)),
                    kappa=float(rng.uniform(0.22, 0.33)))
    tag = f'{scale_tag(sa)[:4]}-{scale_tag(sb)[:4]}-{gen.grid_tag(g)}'
    dt_s = float(rng.choice([600., 900., 1200.])) * min(1.0, 9.0 / g['M'])
    if consts:
      dt_s *= min(1.0, consts['radius_m'] / 6.4e6) * min(1.0, 7.3e-5 / consts['omega'])
    if kind == 'pe':
      eq = str(rng.choice(['dry', 'moist', 'moist', 'time'] + (['cloud'] if tier == 'thorough' else [])))
      out.append(_case(f'rnd{i}-pe-{eq}-{tag}', 'pe', sa, sb, grid=g, eq=eq, layers=layers,
                       integrator=str(rng.choice(model.INTEGRATORS)), nsteps=int(rng.integers(1, 6)),
                       dt_s=dt_s, consts=consts,
                       inv_method=str(rng.choice(['split', 'stacked', 'blockwise'])),
                       matmul=[None, 'dense', 'sparse'][int(rng.integers(3))]))
    elif kind == 'hs':
      params = None
      if rng.random() < 0.5:
        params = dict(p0_pa=float(rng.uniform(0.95e5, 1.05e5)), sigma_b=float(rng.uniform(0.6, 0.8)),
                      kf_per_day=float(rng.uniform(0.5, 2)), ka_per_day=float(rng.uniform(0.02, 0.04)),
                      ks_per_day=float(rng.uniform(0.2, 0.4)), minT=float(rng.uniform(195, 210)),
                      maxT=float(rng.uniform(305, 320)), dTy=float(rng.uniform(50, 65)),
                      dThz=float(rng.uniform(8, 12)))
      out.append(_case(f'rnd{i}-hs-{tag}', 'hs', sa, sb, grid=g, layers=max(layers, 3) + 2, consts=consts,
                       params=params))
    elif kind == 'sw':
      out.append(_case(f'rnd{i}-sw-{tag}', 'sw', sa, sb, grid=g, layers=min(layers, 3), consts=consts,
                       integrator=str(rng.choice(list(model.INTEGRATORS) + ['leapfrog'])),
                       nsteps=int(rng.integers(1, 6)), dt_s=dt_s))
    elif kind == 'rad':
      y, mo, d = int(rng.integers(1970, 2030)), int(rng.integers(1, 13)), int(rng.integers(1, 29))
      out.append(_case(f'rnd{i}-rad-{tag}', 'rad', sa, sb, grid=g,
                       ref=f'{y:04d}-{mo:02d}-{d:02d}T{int(rng.integers(24)):02d}:{int(rng.integers(60)):02d}'))
    else:
      out.append(_case(f'rnd{i}-builders-{tag}', 'builders', sa, sb, grid=g, layers=max(layers, 2),
                       consts=consts))
  # float32 "as shipped" pass: moderate scales only (float32 range), what float32 can decide
  mod = dict(length_m=2.0e6, time_s=3000.0, mass_kg=40.0, temperature_K=2.0, tag='moderate')
  f32 = [
      _case('f32-pe-moist-default-moderate', 'pe', 'default', mod, env='f32', grid=GRIDS['f8'], eq='moist',
            layers=4, integrator='imex_rk_sil3', nsteps=2, dt_s=1200.),
      _case('f32-hs-atmos-moderate', 'hs', 'atmospheric', mod, env='f32', grid=GRIDS['r6'], layers=6),
      _case('f32-sw-default-moderate', 'sw', 'default', mod, env='f32', grid=GRIDS['f8'], layers=2,
            integrator='imex_rk_sil3', nsteps=2, dt_s=900.),
  ]
  out += f32
  return out



class _Secondary:
  """Monitor proxy for the float32 "as shipped" pass: same oracles, monitor names prefixed with
  'f32/' so that the evidence keeps the deciding float64 floors and the float32 floors apart."""

  def __init__(self, M):
    self._M = M

  def __getattr__(self, name):
    attr = getattr(self._M, name)
    if name in ('close', 'small', 'zero', 'same', 'check', 'le', 'finite'):
      return lambda mon, *a, **k: attr('f32/' + mon, *a, **k)
    return attr


# ------------------------------------------------------------------------------- run
def run(case, M):
  if not M.env.startswith('f64'):
    M = _Secondary(M)
  kind = case['kind']
  fn = {'pe': _run_pe, 'hs': _run_hs, 'sw': _run_sw, 'rad': _run_rad, 'builders': _run_builders}.get(kind)
  if fn is None:
    raise core.HarnessError(f'unknown case kind {kind}')
  sa, sb = case['scales']
  M.cover('scale pair', f'{scale_tag(sa)} vs {scale_tag(sb)}')
  M.cover('workload x scale pair', f'{kind}{"/" + case["eq"] if case.get("eq") else ""}: {scale_tag(sa)} vs {scale_tag(sb)}')
  return fn(case, M)


def _setup(case, M):
  f64 = M.env.startswith('f64')
  dtype = np.float64 if f64 else np.float32
  tol = TOL['f64' if f64 else 'f32']
  info = {'scales': [scale_tag(s) for s in case['scales']], 'grid': gen.grid_tag(case['grid']),
          'env': M.env, 'kind': case['kind']}
  differ = scales_differ(*case['scales'])
  return dtype, tol, info, differ


def _pe_side(case, sdesc, SI, dtype, jit=False):
  import jax  # pylint: disable=import-outside-toplevel
  specs = model.make_specs(sdesc, case.get('consts'))
  coords = model.make_coords(case['grid'], SI['bnd'], specs)
  cv = Conv(specs)
  eqk = case['eq']
  state = model.to_state(SI['state'], specs, with_time=eqk != 'dry', p0_pa=SI['p0_pa'], dtype=dtype)
  if hasattr(state, 'sim_time'):
    d = state.asdict()
    d['sim_time'] = np.asarray(d['sim_time'], dtype)
    state = type(state)(**d)
  oro = model.nondim_orography(SI['oro'], specs, dtype)
  kw = {}
  if case.get('matmul'):
    kw['vertical_matmul_method'] = case['matmul']
  eq = model.make_eq(eqk, SI['tref'], oro, coords, specs, **kw)
  J = jax.jit if jit else (lambda f: f)
  out = {}
  e = J(eq.explicit_terms)(state)
  i = J(eq.implicit_terms)(state)
  out['explicit'] = cv.tree(e, rate=True)
  out['implicit'] = cv.tree(i, rate=True)
  out['total'] = cv.tree(e + i, rate=True)
  dt = float(specs.nondimensionalize(case['dt_s'] * cv.u.s))
  meth = case.get('inv_method')
  for frac in (0.5, 1.0):
    eta = frac * dt
    if meth and eqk == 'dry':
      inv = J(lambda s, eta=eta: eq.implicit_inverse(s, eta, method=meth))(state)
    else:
      inv = J(lambda s, eta=eta: eq.implicit_inverse(s, eta))(state)
    out[f'inverse{frac}'] = cv.tree(inv, rate=False, split00=True)
    # backward check of this execution's own solve: (1 - eta L) inverse(x) should give x back
    back = inv + (-eta) * J(eq.implicit_terms)(inv)
    out[f'back{frac}'] = cv.tree(back, rate=False, split00=True)
  step = J(model.make_step(eq, dt, case['integrator']))
  s = state
  for n in range(1, case['nsteps'] + 1):
    s = step(s)
    out[f'step{n}'] = cv.tree(s, rate=False, split00=True)
  out['state0'] = cv.tree(state, rate=False, split00=True)
  out['c00'] = cv.coupled00_scales(state)
  return out


def _grew(first: dict, last: dict) -> bool:
  """CFL blow-up detector on SI outputs: the flow (vorticity and divergence together; the
  divergence alone legitimately grows during adjustment) or the temperature / potential
  perturbation grew >10x, or anything became non-finite."""
  amp = lambda d, ks: max([float(np.max(np.abs(d[k]))) for k in ks if k in d] or [0.0])
  for ks in (('vorticity', 'divergence'), ('temperature_variation',), ('potential',)):
    a, b = amp(first, ks), amp(last, ks)
    if not np.isfinite(b) or (a > 0 and b > 10 * a):
      return True
  return not all(np.all(np.isfinite(v)) for v in last.values())


def _max_scales(*dicts):
  out = {}
  for k in dicts[0]:
    out[k] = max(float(np.max(np.abs(d[k]))) if d[k].size else 0.0 for d in dicts)
  return out


def _run_pe(case, M):
  dtype, tol, info, differ = _setup(case, M)
  rng = M.rng()
  eqk, layers = case['eq'], case['layers']
  info = dict(info, eq=eqk, integrator=case['integrator'])
  # the physical problem, once, in SI (on a unit-radius copy of the grid)
  grid0 = gen.make_grid(dict(case['grid'], radius=1.0))
  bnd = gen.sigma_boundaries(rng, layers, uneven=True)
  consts = case.get('consts') or {}
  tracers = tuple(model.EQ_TRACERS[eqk]) + (('passive',) if rng.random() < 0.5 else ())
  SI = {
      'bnd': bnd, 'p0_pa': 1.0e5,
      'state': model.phys_state_si(rng, grid0, layers, decay=float(rng.choice([0.0, 1.0])), tracers=tracers,
                                   radius_m=consts.get('radius_m', 6.371e6)),
      'oro': model.orography_si(rng, grid0, lmax=min(8, grid0.total_wavenumbers - 2), height=2500.0),
      'tref': model.tref_profile(rng, layers, str(rng.choice(['random', 'tropopause', 'linear', 'cooling', 'isothermal_top'])),
                                 centers=(bnd[1:] + bnd[:-1]) / 2),
  }
  A = _pe_side(case, case['scales'][0], SI, dtype)
  B = _pe_side(case, case['scales'][1], SI, dtype)
  M.cover('equation x integrator', f"{eqk} x {case['integrator']}")
  M.cover('layers', str(layers))
  M.cover('non-default SI constants', 'yes' if consts else 'no')
  ssc = _max_scales(A['state0'], B['state0'])
  # (0,0) coefficients of the coupled fields: rounding of the l=0 block of the solve is relative to
  # the largest non-dimensional entry it sees (measured: eps-level leakage of the O(100) mean
  # log-pressure / temperature coefficients into the mean divergence under badly scaled units)
  csc = dict(ssc)
  for k in A['c00']:
    csc[k] = max(ssc[k], A['c00'][k], B['c00'][k])
  # how accurately does each execution solve its own (non-dimensional, possibly badly scaled) linear
  # system?  Two executions cannot agree better than that, so the tolerance of the comparisons that
  # contain the solve is relaxed in proportion to the measured backward error, at most 100x.
  delta = 0.0
  for side in (A, B):
    for frac in (0.5, 1.0):
      for k, v in side[f'back{frac}'].items():
        if csc.get(k, 0) > 0:
          delta = max(delta, float(np.max(np.abs(v - side['state0'][k]))) / csc[k])
  M.note('implicit_solve_backward_error_max', delta)
  tol_inv = min(max(tol, 10 * delta), 100 * tol)
  tol_step = lambda n: min(max(tol, 40 * n * delta), 100 * tol)
  M.cover('tolerance of solve-containing comparisons', 'nominal' if tol_inv == tol else 'relaxed (badly scaled solve)')
  compare(M, 'si_equal_input_state', A['state0'], B['state0'], tol, dict(info, what='input'), count=False)
  compare(M, 'si_equal_explicit', A['explicit'], B['explicit'], tol, dict(info, what='explicit'), differ=differ)
  compare(M, 'si_equal_implicit', A['implicit'], B['implicit'], tol, dict(info, what='implicit'), differ=differ)
  compare(M, 'si_equal_total_tendency', A['total'], B['total'], tol, dict(info, what='total'), differ=differ,
          scales=_max_scales(A['explicit'], A['implicit'], A['total']))
  for frac in (0.5, 1.0):
    compare(M, 'si_equal_implicit_inverse', A[f'inverse{frac}'], B[f'inverse{frac}'], tol_inv,
            dict(info, what=f'eta={frac}dt', method=case.get('inv_method') if eqk == 'dry' else 'split'),
            differ=differ, scales=csc)
  last = f"step{case['nsteps']}"
  if _grew(A['state0'], A[last]) or _grew(B['state0'], B[last]):
    M.discard('trajectory norm grew >10x (CFL)')
  else:
    for n in range(1, case['nsteps'] + 1):
      a, b = dict(A[f'step{n}']), dict(B[f'step{n}'])
      if 'sim_time' in a:
        ta, tb = a.pop('sim_time'), b.pop('sim_time')
        M.close('si_equal_sim_time', tb, ta, tol, scale=n * case['dt_s'], info=dict(info, step=n))
        M.close('si_equal_sim_time', ta, n * case['dt_s'], 1e-9 if dtype is np.float64 else 1e-5,
                scale=n * case['dt_s'], info=dict(info, step=n, what='equals n*dt in seconds'))
        if differ:
          M.nontrivial('si_equal_sim_time', n)
      # a field may grow along the run (adjustment): scale = largest magnitude seen so far
      for k in a:
        csc[k] = max(csc.get(k, 0.0), float(np.max(np.abs(a[k]))) if a[k].size else 0.0)
      compare(M, 'si_equal_steps', a, b, tol_step(n), dict(info, what=f'step{n}'), differ=differ, scales=csc)
    M.cover('trajectory length', str(case['nsteps']))
  M.sample({'scales': case['scales'], 'grid': case['grid'], 'eq': eqk, 'layers': layers,
            'integrator': case['integrator'], 'steps': case['nsteps'], 'dt_s': case['dt_s'],
            'consts': consts or 'earth defaults'})


def _hs_side(case, sdesc, SI, dtype):
  from dinosaur import held_suarez as hs  # pylint: disable=import-outside-toplevel
  specs = model.make_specs(sdesc, case.get('consts'))
  coords = model.make_coords(case['grid'], SI['bnd'], specs)
  grid = coords.horizontal
  cv = Conv(specs)
  u = cv.u
  state = model.to_state(SI['state'], specs, with_time=False, p0_pa=SI['p0_pa'], dtype=dtype)
  tref = np.asarray(specs.nondimensionalize(SI['tref'] * u.degK))
  p = case.get('params')
  kw = {}
  if p:
    kw = dict(p0=p['p0_pa'] * u.pascal, sigma_b=p['sigma_b'], kf=p['kf_per_day'] / u.day,
              ka=p['ka_per_day'] / u.day, ks=p['ks_per_day'] / u.day, minT=p['minT'] * u.degK,
              maxT=p['maxT'] * u.degK, dTy=p['dTy'] * u.degK, dThz=p['dThz'] * u.degK)
  f = hs.HeldSuarezForcing(coords, specs, tref, **kw)
  nlon, nlat = case['grid']['nlon'], case['grid']['nlat']
  crop = lambda z: np.asarray(z)[..., :nlon, :nlat]
  ps = np.exp(np.asarray(grid.to_nodal(state.log_surface_pressure)))
  teq = np.asarray(f.equilibrium_temperature(ps))
  out = {
      'kvkt': {'kv': cv.dim(f.kv(), '1/s'),
               'kt': cv.dim(crop(np.broadcast_to(np.asarray(f.kt()), teq.shape)), '1/s')},
      'teq': {'equilibrium_temperature': cv.dim(crop(teq), 'K'),
              'surface_pressure': cv.dim(crop(ps), 'Pa')},
      'tend': cv.tree(f.explicit_terms(state), rate=True),
      'clamp': float(np.mean(crop(teq) <= float(f.minT) * (1 + 1e-9))),
      'kt_T': float(np.max(np.abs(cv.dim(f.kt(), '1/s')))) * float(np.max(np.abs(cv.dim(teq, 'K')))),
      'kv_u': cv.dim(f.kv(), '1/s').max(),
  }
  return out


def _run_hs(case, M):
  dtype, tol, info, differ = _setup(case, M)
  rng = M.rng()
  layers = case['layers']
  grid0 = gen.make_grid(dict(case['grid'], radius=1.0))
  bnd = gen.sigma_boundaries(rng, layers, uneven=True, ratio=3.0)
  consts = case.get('consts') or {}
  p0 = (case.get('params') or {}).get('p0_pa', 1.0e5)
  SI = {'bnd': bnd, 'p0_pa': float(p0 * rng.uniform(0.97, 1.03)),
        'state': model.phys_state_si(rng, grid0, layers, decay=float(rng.choice([0.0, 1.0])), dT=25.0,
                                     dlnps=0.08, radius_m=consts.get('radius_m', 6.371e6)),
        'tref': model.tref_profile(rng, layers, 'tropopause', centers=(bnd[1:] + bnd[:-1]) / 2)}
  A = _hs_side(case, case['scales'][0], SI, dtype)
  B = _hs_side(case, case['scales'][1], SI, dtype)
  frac = A['clamp']
  M.note('hs_clamped_fraction_max', frac)
  M.note('hs_clamped_fraction_min', frac, 'min')
  in_range = 0.05 <= frac <= 0.95
  if not in_range:
    M.discard('Held-Suarez clamp active on <5% or >95% of the points')
  else:
    M.check('hs_clamp_fraction_in_5_95pct', True, info=dict(info, fraction=frac))
  cnt = in_range and differ
  compare(M, 'hs_si_equal_kv_kt', A['kvkt'], B['kvkt'], tol, dict(info, what='kv,kt'), differ=cnt)
  compare(M, 'hs_si_equal_equilibrium_temperature', A['teq'], B['teq'], tol,
          dict(info, what='Teq', clamped_fraction=frac), differ=cnt)
  # the temperature tendency -kt (T - Teq) is a difference of two O(250 K) terms: its natural scale
  # is kt*T (modal: x sqrt(4 pi)); the momentum tendencies are plain products.
  sc = {'temperature_variation': SQ4PI * A['kt_T']}
  compare(M, 'hs_si_equal_explicit_terms', A['tend'], B['tend'], tol,
          dict(info, what='explicit_terms', clamped_fraction=frac), differ=cnt, scales=sc)
  M.cover('hs parameters', 'custom' if case.get('params') else 'defaults')
  M.cover('hs clamp in 5-95%', str(in_range))
  M.sample({'scales': case['scales'], 'grid': case['grid'], 'layers': layers, 'clamped_fraction': frac,
            'mean_surface_pressure_pa': SI['p0_pa']})


def _sw_side(case, sdesc, SI, dtype):
  import jax  # pylint: disable=import-outside-toplevel
  from dinosaur import coordinate_systems as cs, layer_coordinates as lc  # pylint: disable=import-outside-toplevel
  from dinosaur import shallow_water as sw, time_integration as ti, scales  # pylint: disable=import-outside-toplevel
  u = scales.units
  c = case.get('consts') or {}
  kw = {}
  if 'radius_m' in c:
    kw['radius_si'] = c['radius_m'] * u.m
  if 'omega' in c:
    kw['angular_velocity_si'] = c['omega'] / u.s
  if 'g' in c:
    kw['gravity_acceleration_si'] = c['g'] * u.m / u.s ** 2
  specs = sw.ShallowWaterSpecs.from_si(densities=SI['dens'] * u.kg / u.m ** 3,
                                       scale=model.make_scale(sdesc), **kw)
  grid = gen.make_grid(dict(case['grid'], radius=float(specs.radius)))
  n = case['layers']
  coords = cs.CoordinateSystem(grid, lc.LayerCoordinates(n))
  cv = Conv(specs)
  nd = lambda x, unit: cv.nd(x, unit).astype(dtype)
  mk = lambda d: sw.State(vorticity=nd(d['vorticity'], '1/s'), divergence=nd(d['divergence'], '1/s'),
                          potential=nd(d['potential'], 'm^2/s^2'))
  state, state1 = mk(SI['state']), mk(SI['state1'])
  oro = nd(SI['oro_pot'], 'm^2/s^2')
  ref = nd(SI['ref_pot'], 'm^2/s^2')
  eq = sw.ShallowWaterEquations(coords, specs, oro, ref)
  dt = float(specs.nondimensionalize(case['dt_s'] * u.s))
  out = {}
  e, i = jax.jit(eq.explicit_terms)(state), jax.jit(eq.implicit_terms)(state)
  out['explicit'], out['implicit'] = cv.tree(e, True), cv.tree(i, True)
  out['total'] = cv.tree(e + i, True)
  out['inverse'] = cv.tree(jax.jit(lambda s: eq.implicit_inverse(s, 0.7 * dt))(state), False)
  if case['integrator'] == 'leapfrog':
    # tau of the default leapfrog filter is a non-dimensional default: the same physical filter
    # needs tau given in seconds, so filters are built explicitly from SI values here.
    step = sw.shallow_water_leapfrog_step(coords, dt, specs, ref, oro, 0.5)
    tau = float(specs.nondimensionalize(75.0 * u.s))
    flt = [ti.exponential_leapfrog_step_filter(grid, dt, tau=tau, order=6),
           ti.robert_asselin_leapfrog_filter(0.05)]
    step = jax.jit(ti.step_with_filters(step, flt))
    s = (state, state1)
    last = lambda x: x[1]
  else:
    step = jax.jit(model.make_step(eq, dt, case['integrator']))
    s = state
    last = lambda x: x
  for k in range(1, case['nsteps'] + 1):
    s = step(s)
    out[f'step{k}'] = cv.tree(last(s), False)
  out['state0'] = cv.tree(state, False)
  out['omega_si'] = float(cv.dim(specs.angular_velocity, '1/s'))
  return out


def _run_sw(case, M):
  dtype, tol, info, differ = _setup(case, M)
  rng = M.rng()
  n = case['layers']
  info = dict(info, integrator=case['integrator'])
  grid0 = gen.make_grid(dict(case['grid'], radius=1.0))
  consts = case.get('consts') or {}
  g = consts.get('g', 9.80616)

  def mk():
    si = model.phys_state_si(rng, grid0, n, decay=float(rng.choice([0.0, 1.0])), wind=30.0, div_wind=3.0,
                             radius_m=consts.get('radius_m', 6.371e6))
    pot = gen.rand_modal(rng, grid0, (n,), lmax=grid0.total_wavenumbers - 2, decay=1.0)
    pot *= 1500.0 / max(float(np.abs(np.asarray(grid0.to_nodal(pot))).max()), 1e-300)
    return dict(vorticity=si['vorticity'], divergence=si['divergence'], potential=pot)
  s0, s1 = mk(), mk()
  s1 = {k: 0.9 * s0[k] + 0.1 * s1[k] for k in s0}
  SI = {'state': s0, 'state1': s1, 'dens': 997.0 * 0.9 ** np.arange(n)[::-1],
        'oro_pot': g * model.orography_si(rng, grid0, lmax=min(8, grid0.total_wavenumbers - 2), height=1200.0),
        'ref_pot': g * (np.linspace(3000.0, 8000.0, n) if n > 1 else np.array([6000.0]))}
  A = _sw_side(case, case['scales'][0], SI, dtype)
  B = _sw_side(case, case['scales'][1], SI, dtype)
  M.cover('equation x integrator', f"shallow_water x {case['integrator']}")
  M.cover('layers', f'sw{n}')
  ssc = _max_scales(A['state0'], B['state0'])
  for what in ('explicit', 'implicit', 'total'):
    compare(M, 'sw_si_equal_tendencies', A[what], B[what], tol, dict(info, what=what), differ=differ,
            scales=_max_scales(A['explicit'], A['implicit'], A['total']) if what == 'total' else None)
  compare(M, 'sw_si_equal_implicit_inverse', A['inverse'], B['inverse'], tol, dict(info, what='inverse'),
          differ=differ, scales=ssc)
  last = f"step{case['nsteps']}"
  if _grew(A['state0'], A[last]) or _grew(B['state0'], B[last]):
    M.discard('trajectory norm grew >10x (CFL)')
  else:
    for k in range(1, case['nsteps'] + 1):
      for name, arr in A[f'step{k}'].items():
        ssc[name] = max(ssc.get(name, 0.0), float(np.max(np.abs(arr))))
      compare(M, 'sw_si_equal_steps', A[f'step{k}'], B[f'step{k}'], tol, dict(info, what=f'step{k}'),
              differ=differ, scales=ssc)
  M.sample({'scales': case['scales'], 'grid': case['grid'], 'eq': 'shallow_water', 'layers': n,
            'integrator': case['integrator'], 'steps': case['nsteps']})


RAD_HOURS = (0.0, 0.25, 7.5, 13.0, 100.1, 1000.25, 4383.0, 8766.0)


def _rad_side(case, sdesc, dtype):
  from dinosaur import radiation as rad  # pylint: disable=import-outside-toplevel
  specs = model.make_specs(sdesc, case.get('consts'))
  coords = model.make_coords(case['grid'], np.linspace(0, 1, 3), specs)
  cv = Conv(specs)
  ref = np.datetime64(case['ref'])
  sr = rad.SolarRadiation(coords, specs, ref)
  srn = rad.SolarRadiation.normalized(coords, specs, ref)
  nlon, nlat = case['grid']['nlon'], case['grid']['nlat']
  crop = lambda z: np.asarray(z)[..., :nlon, :nlat]
  out = {'flux': {}, 'normalized': {}, 'hour_angle': {}, 'time': {}}
  for h in RAD_HOURS:
    t = dtype(specs.nondimensionalize(h * cv.u.hour))
    out['flux'][f't={h}h'] = cv.dim(crop(sr.radiation_flux(t)), 'W/m^2')
    out['normalized'][f't={h}h'] = np.asarray(crop(srn.radiation_flux(t)), np.float64)
    ha = np.asarray(crop(np.broadcast_to(np.asarray(sr.solar_hour_angle(t)),
                                         tuple(coords.horizontal.nodal_shape))), np.float64)
    # an angle: compared modulo 2 pi (the phase reduction may wrap differently by one turn)
    out['hour_angle'][f't={h}h'] = np.stack([np.cos(ha), np.sin(ha)])
  for days in (0.0, 1.5, 400.25):
    when = ref + np.timedelta64(int(days * 86400), 's')
    out['time'][f'+{days}d'] = cv.dim(sr.datetime_to_time(when), 's')
  return out


def _run_rad(case, M):
  dtype, tol, info, differ = _setup(case, M)
  A = _rad_side(case, case['scales'][0], dtype)
  B = _rad_side(case, case['scales'][1], dtype)
  fmax = max(float(np.max(v)) for v in A['flux'].values())
  # flux depends on time through phases 2 pi t/day: the conditioning of cos(phase) grows with the
  # number of elapsed rotations; scale = max flux x max(1, phase).
  for h in RAD_HOURS:
    k = f't={h}h'
    growth = max(1.0, 2 * np.pi * h / 24.0)
    compare(M, 'radiation_flux_si_equal', {k: A['flux'][k]}, {k: B['flux'][k]}, tol,
            dict(info, what=k), differ=differ and fmax > 0, scales={k: fmax * growth})
    compare(M, 'radiation_normalized_flux_equal', {k: A['normalized'][k]}, {k: B['normalized'][k]}, tol,
            dict(info, what=k), differ=differ, scales={k: 1.0 * growth})
    compare(M, 'radiation_hour_angle_equal', {k: A['hour_angle'][k]}, {k: B['hour_angle'][k]}, tol,
            dict(info, what=k), differ=differ, scales={k: 1.0 * growth})
  compare(M, 'radiation_datetime_to_time_si_equal', A['time'], B['time'], tol, dict(info, what='time'),
          differ=differ, scales={k: 86400.0 * max(1.0, float(k[1:-1])) for k in A['time']})
  lit = float(np.mean(A['flux']['t=7.5h'] > 0))
  M.note('radiation_daylit_fraction', lit)
  M.sample({'scales': case['scales'], 'grid': case['grid'], 'reference_datetime': case['ref'],
            'max_flux_W_m2': fmax, 'daylit_fraction_at_7.5h': lit})


def _builders_side(case, sdesc, SI, dtype):
  import jax  # pylint: disable=import-outside-toplevel
  from dinosaur import primitive_equations_states as pes  # pylint: disable=import-outside-toplevel
  from dinosaur import xarray_utils as xu  # pylint: disable=import-outside-toplevel
  specs = model.make_specs(sdesc, case.get('consts'))
  coords = model.make_coords(case['grid'], SI['bnd'], specs)
  grid = coords.horizontal
  cv = Conv(specs)
  u = cv.u
  nlon, nlat = case['grid']['nlon'], case['grid']['nlat']
  crop = lambda z: np.asarray(z)[..., :nlon, :nlat]
  out = {}
  # isothermal rest atmosphere with orography and a pressure perturbation
  sh = gen.pad_nodal(SI['surface_height_m'], grid)
  fn, aux = pes.isothermal_rest_atmosphere(coords, specs, tref=SI['iso_tref'] * u.degK,
                                           p0=SI['iso_p0'] * u.pascal, p1=SI['iso_p1'] * u.pascal,
                                           surface_height=sh * u.m)
  st = fn(jax.random.PRNGKey(SI['key']))
  d = cv.tree(st, rate=False, prefix='state.')
  lsp_nodal = np.asarray(grid.to_nodal(st.log_surface_pressure))
  d['surface_pressure_nodal'] = cv.dim(crop(np.exp(lsp_nodal)), 'Pa')
  out['abs_log_p_nd'] = float(np.max(np.abs(crop(lsp_nodal))))
  d['aux.orography'] = cv.dim(crop(aux[xu.OROGRAPHY]), 'm')
  d['aux.ref_temperatures'] = cv.dim(aux[xu.REF_TEMP_KEY], 'K')
  out['iso'] = d
  # Jablonowski-Williamson steady state
  j = SI['jw']
  fn2, aux2 = pes.steady_state_jw(coords, specs, u0=j['u0'] * u.m / u.s, p0=j['p0'] * u.pascal,
                                  t0=j['t0'] * u.degK, delta_t=j['delta_t'] * u.degK,
                                  gamma=j['gamma'] * u.degK / u.m, sigma_tropo=j['sigma_tropo'],
                                  sigma0=j['sigma0'])
  st2 = fn2()
  d = cv.tree(st2, rate=False, prefix='state.')
  d['aux.orography'] = cv.dim(crop(aux2[xu.OROGRAPHY]), 'm')
  d['aux.geopotential'] = cv.dim(crop(aux2[xu.GEOPOTENTIAL_KEY]), 'm^2/s^2')
  d['aux.ref_temperatures'] = cv.dim(aux2[xu.REF_TEMP_KEY], 'K')
  out['jw'] = d
  # baroclinic perturbation
  b = SI['pert']
  st3 = pes.baroclinic_perturbation_jw(coords, specs, u_perturb=b['u_p'] * u.m / u.s,
                                       lon_location=b['lon'], lat_location=b['lat'],
                                       perturbation_radius=b['radius'])
  d = cv.tree(st3, rate=False, prefix='state.')
  d.pop('state.log_surface_pressure.mean(ln Pa)')   # the perturbation carries a zero log-pressure increment
  out['pert'] = d
  return out


def _run_builders(case, M):
  dtype, tol, info, differ = _setup(case, M)
  rng = M.rng()
  layers = case['layers']
  bnd = gen.sigma_boundaries(rng, layers, uneven=True, ratio=3.0)
  g = case['grid']
  lon = 2 * np.pi * np.arange(g['nlon']) / g['nlon']
  lat = np.linspace(-1.2, 1.2, g['nlat'])
  SI = {
      'bnd': bnd, 'key': int(rng.integers(1 << 30)),
      'surface_height_m': (np.abs(np.sin(2 * lon))[:, None] * np.cos(lat)[None, :] ** 2
                           * float(rng.uniform(300, 2500))),
      'iso_tref': float(rng.uniform(250, 300)), 'iso_p0': float(rng.uniform(0.9e5, 1.05e5)),
      'iso_p1': float(rng.uniform(100, 2000)),
      'jw': dict(u0=float(rng.uniform(20, 45)), p0=float(rng.uniform(0.95e5, 1.02e5)),
                 t0=float(rng.uniform(270, 300)), delta_t=float(rng.uniform(3e5, 6e5)),
                 gamma=float(rng.uniform(0.004, 0.0065)), sigma_tropo=float(rng.uniform(0.15, 0.3)),
                 sigma0=float(rng.uniform(0.2, 0.3))),
      'pert': dict(u_p=float(rng.uniform(0.5, 3.0)), lon=float(rng.uniform(0.1, 6.0)),
                   lat=float(rng.uniform(-1.0, 1.0)), radius=float(rng.uniform(0.05, 0.3))),
  }
  A = _builders_side(case, case['scales'][0], SI, dtype)
  B = _builders_side(case, case['scales'][1], SI, dtype)
  # log surface pressure comes out of to_modal(log p_nodal): every coefficient carries the rounding
  # of the O(|log p|) nodal values, so the deviation part is compared on the scale of the mean part.
  lsp = lambda d: {'state.log_surface_pressure.deviation':
                   float(np.max(np.abs(d['state.log_surface_pressure.mean(ln Pa)'])))}
  # p = exp(log p_nd) x unit: the absolute rounding of the O(|log p_nd|) nodal values becomes a
  # relative error of p, so the growth factor of exp is max(1, |log p_nd|).
  growth = max(1.0, A['abs_log_p_nd'], B['abs_log_p_nd'])
  iso_sc = dict(lsp(A['iso']), surface_pressure_nodal=growth * float(np.max(A['iso']['surface_pressure_nodal'])))
  M.note('builders_max_abs_log_nondim_pressure', growth)
  compare(M, 'builders_si_equal_isothermal_rest', A['iso'], B['iso'], tol, dict(info, what='isothermal_rest_atmosphere'),
          differ=differ, scales=iso_sc)
  compare(M, 'builders_si_equal_steady_state_jw', A['jw'], B['jw'], tol, dict(info, what='steady_state_jw'),
          differ=differ, scales=lsp(A['jw']))
  compare(M, 'builders_si_equal_baroclinic_perturbation_jw', A['pert'], B['pert'], tol,
          dict(info, what='baroclinic_perturbation_jw'), differ=differ)
  M.cover('layers', f'builders{layers}')
  M.sample({'scales': case['scales'], 'grid': case['grid'], 'layers': layers, 'jw': SI['jw'],
            'perturbation': SI['pert']})
