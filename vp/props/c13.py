"""C13 — sigma calculus: consistent, conservative, exact on affine data; level sets validated.

Algebraic-identity monitors on the real functions of `sigma_coordinates`, `jax_numpy_utils`
(cumsum / reverse_cumsum) and `primitive_equations` (geopotential weights), each also compared
with the rule written out as loops in `vp/refs/interp_ref.py`, plus a rejection oracle on
`SigmaCoordinates`.  See DESIGN.md §3 C13.
"""
from __future__ import annotations

import math

import numpy as np

from vp import gen
from vp.refs import interp_ref as R

RULE = ('cases = sigma level sets (1..12 layers always incl. 1 and 2, equidistant / uneven with '
        'thickness ratio up to 6:1 / derived from the ECMWF137 and UFS127 hybrid levels; the '
        'random stream draws layer count, ratio and array layout) x array layouts '
        '((K,x,y) default axis, and K at axis 0/1/-1/-2/-4 of 1-D..4-D arrays) x cumsum_method '
        '{dot,jax} x direction {down,up}; data random with amplitude 1e-3..1e3 plus an offset, '
        'affine profiles for centered_difference, random/constant/sign-definite velocities with '
        'zero and non-zero boundary values.  A level-set case is non-trivial if its '
        '(boundaries, layout, axis) is distinct and all identities were evaluated; validation '
        'cases count each distinct rejected / accepted boundary set.')
MIN_NONTRIVIAL = {'quick': 60, 'thorough': 400}
REQUIRED_MONITORS = {'all': [
    'cumint_down_ends_at_total', 'cumint_down_plus_up_minus_total_is_local',
    'cumint_dot_eq_jax', 'cumsum_dot_eq_jax', 'reverse_cumsum_dot_eq_jax',
    'cumint_vs_midpoint_loops', 'centered_difference_exact_on_affine',
    'advection_summation_by_parts', 'advection_boundary_values_vs_loops',
    'geopotential_dense_eq_R_log_sigma_integral', 'geopotential_sparse_eq_dense',
    'log_sigma_integral_vs_trapezoid_loops', 'sigma_ratios_vs_docstring',
    'geopotential_weights_vs_docstring_matrix', 'upwind_constant_velocity_one_sided',
    'rejects_invalid_levels', 'accepts_strictly_increasing_levels']}
ASSUMPTIONS = [
    'integration ranges written "sigma = 1...b" in the docstrings are read as the set between b and '
    'the surface with positive measure (what "down + up - total = local layer contribution" and the '
    'sign of the geopotential require)',
    'start/end validation is probed only with boundaries[0] >= 1e-3 away from 0 or boundaries[-1] '
    '>= 1e-3 away from 1 (the constructor compares with np.isclose; inside that tolerance nothing is '
    'asserted)',
    'upwind_vertical_advection is pinned only for constant velocity at levels whose upwind interface '
    'is not the zero-velocity boundary, by the sign of the tendency for sign-definite velocity on monotone '
    'data, and by the compact form a+ D- + a- D+ cited in its body',
]
TOL = 1e-12
TIMEOUT = {'quick': 3600, 'thorough': 14400}

LAYOUTS = {
    # name: (shape(K), candidate axes)
    'kxy': (lambda K: (K, 3, 4), [None, 0, -3]),
    'bkxy': (lambda K: (2, K, 3, 4), [1, -3]),
    'k': (lambda K: (K,), [0, -1]),
    'bk': (lambda K: (5, K), [1, -1]),
    'kbxy': (lambda K: (K, 2, 3, 2), [0, -4]),
    'xky': (lambda K: (3, K, 4), [1, -2]),
    # level axis at position 2, 3 / last (a moveaxis round trip is only self-inverse for 0 and 1)
    'xyk': (lambda K: (3, 4, K), [2, -1]),
    'bxky': (lambda K: (2, 3, K, 2), [2, -2]),
    'bxyk': (lambda K: (2, 2, 3, K), [3, -1]),
}
ALT = ['bkxy', 'xyk', 'k', 'bxky', 'bk', 'kbxy', 'bxyk', 'xky']


# ----------------------------------------------------------------------------------------------
def _calc_case(i, K, kind, boundaries, alt, alt_axis, main_axis, tag=''):
  return {'id': f'c{i}-K{K}-{kind}-{alt}{alt_axis}{tag}', 'kind': 'calc', 'K': int(K), 'levels': kind,
          'boundaries': None if boundaries is None else [float(v) for v in boundaries],
          'alt': alt, 'alt_axis': alt_axis, 'main_axis': main_axis, 'env': 'f64',
          'cost': 1.0 + K / 12.0}


def cases(tier, seed):
  out = []
  i = 0
  # ---- structured: every layer count 1..12, equidistant and uneven (fixed sets), all layouts cycled
  srng = np.random.default_rng([1313, 7])
  for K in range(1, 13):
    for kind in ('equi', 'uneven'):
      b = gen.sigma_boundaries(srng, K, uneven=(kind == 'uneven'), ratio=6.0)
      alt = ALT[i % len(ALT)]
      axes = LAYOUTS[alt][1]
      out.append(_calc_case(i, K, kind, b, alt, axes[i % len(axes)], [None, 0, -3][i % 3]))
      i += 1
  for name, K in (('ECMWF137', 12), ('UFS127', 7), ('ECMWF137', 3), ('UFS127', 1)):
    alt = ALT[i % len(ALT)]
    axes = LAYOUTS[alt][1]
    c = _calc_case(i, K, 'hybrid', None, alt, axes[i % len(axes)], None, tag='-' + name)
    c['hybrid'] = name
    out.append(c)
    i += 1
  # extreme but admissible: one very thin layer at the top / bottom
  for b in ([0.0, 1e-6, 0.3, 1.0], [0.0, 0.5, 1.0 - 1e-6, 1.0], [0.0, 1e-3, 2e-3, 0.9, 1.0]):
    out.append(_calc_case(i, len(b) - 1, 'thin', b, 'bkxy', 1, None))
    i += 1
  out.append({'id': 'validate-structured', 'kind': 'validate', 'n_random': 0, 'env': 'f64',
              'cost': 0.5})
  # ---- seeded random stream
  rng = np.random.default_rng([seed, 1313])
  n_rand = 36 if tier == 'quick' else 400
  for _ in range(n_rand):
    K = int(rng.choice([1, 2, 3, 4, 5, 6, 7, 8, 9, 10, 11, 12]))
    uneven = rng.random() < 0.75
    ratio = float(rng.choice([1.5, 3.0, 6.0]))
    b = gen.sigma_boundaries(rng, K, uneven=uneven, ratio=ratio)
    alt = ALT[int(rng.integers(len(ALT)))]
    axes = LAYOUTS[alt][1]
    out.append(_calc_case(i, K, 'uneven' if uneven and K > 1 else 'equi', b, alt,
                          axes[int(rng.integers(len(axes)))],
                          [None, 0, -3][int(rng.integers(3))], tag='-r'))
    i += 1
  n_val = 3 if tier == 'quick' else 20
  for j in range(n_val):
    out.append({'id': f'validate-random-{j}', 'kind': 'validate',
                'n_random': 40 if tier == 'quick' else 120, 'env': 'f64', 'cost': 0.8})
  return out


# ----------------------------------------------------------------------------------------------
def _np(a):
  return np.asarray(a, dtype=np.float64)


def _amax(a):
  a = np.asarray(a)
  return float(np.max(np.abs(a))) if a.size else 0.0


def _bshape(v, ndim, ax):
  """Reshape a length-K vector so that it broadcasts along axis `ax` of an ndim array."""
  s = [1] * ndim
  s[ax] = len(v)
  return np.asarray(v).reshape(s)


def _calculus(M, sc, jnu, c, b, shape, axis, info):
  """All axis-generic identities for one array layout.  axis=None -> the default axis (-3)."""
  rng = M.rng(len(shape), 0 if axis is None else axis + 10)
  kw = {} if axis is None else {'axis': axis}
  ax = (-3 if axis is None else axis) % len(shape)
  K = c.layers
  nd = len(shape)
  dsig = R.sigma_thickness(b)
  cen = R.sigma_centers(b)
  amp = 10.0 ** rng.uniform(-3, 3)
  x = amp * (rng.standard_normal(shape) + rng.uniform(-2, 2))
  ax_ = _amax(x)
  info = dict(info, shape=list(shape), axis=axis)

  # ---------------- total and cumulative midpoint-rule integrals
  tot = _np(sc.sigma_integral(x, c, **kw))
  tot_nk = _np(sc.sigma_integral(x, c, keepdims=False, **kw))
  want_keep = tuple(1 if k == ax else s for k, s in enumerate(shape))
  want_drop = tuple(s for k, s in enumerate(shape) if k != ax)
  M.check('sigma_integral_keepdims_shapes', tot.shape == want_keep and tot_nk.shape == want_drop,
          info=dict(info, got=[list(tot.shape), list(tot_nk.shape)]))
  M.close('sigma_integral_vs_midpoint_loops', tot_nk, R.midpoint_integral(x, b, ax), TOL,
          scale=ax_, info=info)
  res = {}
  for meth in ('dot', 'jax'):
    dn = _np(sc.cumulative_sigma_integral(x, c, downward=True, cumsum_method=meth, **kw))
    up = _np(sc.cumulative_sigma_integral(x, c, downward=False, cumsum_method=meth, **kw))
    minfo = dict(info, cumsum_method=meth)
    M.check('cumint_shape', dn.shape == tuple(shape) and up.shape == tuple(shape), info=minfo)
    M.close('cumint_down_ends_at_total', np.take(dn, [K - 1], axis=ax), tot, TOL, scale=ax_,
            info=minfo)
    M.close('cumint_up_starts_at_total', np.take(up, [0], axis=ax), tot, TOL, scale=ax_, info=minfo)
    M.close('cumint_down_plus_up_minus_total_is_local', dn + up - tot, x * _bshape(dsig, nd, ax),
            TOL, scale=ax_, info=minfo)
    M.close('cumint_vs_midpoint_loops', dn, R.midpoint_cumulative(x, b, ax, True), TOL, scale=ax_,
            info=dict(minfo, direction='down'))
    M.close('cumint_vs_midpoint_loops', up, R.midpoint_cumulative(x, b, ax, False), TOL, scale=ax_,
            info=dict(minfo, direction='up'))
    # the default direction is downward, the default method is dot
    res[meth] = (dn, up)
    M.cover('cumint(method,direction,layers)', f'{meth},both,{"K=1" if K == 1 else "K=2" if K == 2 else "K>=3"}')
  M.close('cumint_dot_eq_jax', res['dot'][0], res['jax'][0], TOL, scale=ax_, info=dict(info, direction='down'))
  M.close('cumint_dot_eq_jax', res['dot'][1], res['jax'][1], TOL, scale=ax_, info=dict(info, direction='up'))
  M.close('cumint_defaults_are_down_dot', _np(sc.cumulative_sigma_integral(x, c, **kw)), res['dot'][0],
          TOL, scale=ax_, info=info)

  # ---------------- the cumulative-sum strategies themselves
  a_ax = ax if axis is None or axis >= 0 else axis   # exercise negative axes as given
  cs = {m: _np(jnu.cumsum(x, a_ax, method=m)) for m in ('dot', 'jax')}
  rcs = {m: _np(jnu.reverse_cumsum(x, a_ax, method=m)) for m in ('dot', 'jax')}
  sc_scale = ax_ * K
  M.close('cumsum_dot_eq_jax', cs['dot'], cs['jax'], TOL, scale=sc_scale, info=info)
  M.close('reverse_cumsum_dot_eq_jax', rcs['dot'], rcs['jax'], TOL, scale=sc_scale, info=info)
  ref_cs = np.cumsum(x, axis=ax)
  ref_rcs = np.flip(np.cumsum(np.flip(x, ax), axis=ax), ax)
  for m in ('dot', 'jax'):
    M.close('cumsum_vs_numpy', cs[m], ref_cs, TOL, scale=sc_scale, info=dict(info, method=m))
    M.close('reverse_cumsum_vs_numpy', rcs[m], ref_rcs, TOL, scale=sc_scale, info=dict(info, method=m))
    M.close('cumsum_plus_reverse_minus_total_is_x', cs[m] + rcs[m] - x.sum(axis=ax, keepdims=True), x,
            TOL, scale=sc_scale, info=dict(info, method=m))

  # ---------------- trapezoid rule in log sigma
  ls_scale = ax_ * (1.0 - math.log(cen[0]))
  lu = {m: _np(sc.cumulative_log_sigma_integral(x, c, downward=False, cumsum_method=m, **kw))
        for m in ('dot', 'jax')}
  ld = {m: _np(sc.cumulative_log_sigma_integral(x, c, downward=True, cumsum_method=m, **kw))
        for m in ('dot', 'jax')}
  ref_lu = R.log_sigma_trapezoid_upward(x, b, ax)
  for m in ('dot', 'jax'):
    M.close('log_sigma_integral_vs_trapezoid_loops', lu[m], ref_lu, TOL, scale=ls_scale,
            info=dict(info, cumsum_method=m))
  M.close('log_sigma_integral_dot_eq_jax', lu['dot'], lu['jax'], TOL, scale=ls_scale, info=dict(info, direction='up'))
  M.close('log_sigma_integral_dot_eq_jax', ld['dot'], ld['jax'], TOL, scale=ls_scale, info=dict(info, direction='down'))
  # a constant integrates to the constant times the log-sigma distance to the surface
  one = np.ones(shape)
  M.close('log_sigma_integral_of_one', _np(sc.cumulative_log_sigma_integral(one, c, downward=False, **kw)),
          np.broadcast_to(_bshape(-np.log(cen), nd, ax), shape), TOL, scale=1.0 - math.log(cen[0]), info=info)

  # ---------------- centred differences
  a0, b0 = rng.uniform(-5, 5) * amp, rng.uniform(-5, 5) * amp
  aff = np.broadcast_to(a0 + b0 * _bshape(cen, nd, ax), shape).copy()
  d = _np(sc.centered_difference(aff, c, **kw))
  want_d = tuple(K - 1 if k == ax else s for k, s in enumerate(shape))
  M.check('centered_difference_shape', d.shape == want_d, info=dict(info, got=list(d.shape)))
  c2c_min = float(np.min(np.diff(cen))) if K > 1 else 1.0
  if d.shape == want_d:
    M.close('centered_difference_exact_on_affine', d, np.full(want_d, b0), TOL,
            scale=(abs(a0) + abs(b0)) / c2c_min, info=dict(info, a=a0, b=b0))
    if K == 1:
      M.check('centered_difference_empty_for_one_layer', d.size == 0, info=info)
      M.cover('centered_difference', 'K=1 empty')
    else:
      M.cover('centered_difference', 'affine exact')
  dr = _np(sc.centered_difference(x, c, **kw))
  M.close('centered_difference_vs_loops', dr, R.centered_difference(x, b, ax), TOL, scale=2 * ax_ / c2c_min,
          info=info)

  # ---------------- centred vertical advection
  wshape = want_d
  sshape = want_keep
  wamp = 10.0 ** rng.uniform(-2, 2)
  w = wamp * rng.standard_normal(wshape)
  adv = _np(sc.centered_vertical_advection(w, x, c, **kw))
  M.check('advection_shape', adv.shape == tuple(shape), info=info)
  adv_scale = 4.0 * max(_amax(w), 1e-300) * ax_ / (c2c_min if K > 1 else 1.0)
  M.close('advection_vs_loops', adv, R.centered_advection(w, x, b, ax), TOL, scale=adv_scale, info=info)
  zero = np.zeros(sshape)
  wpad = np.concatenate([zero, w, zero], axis=ax)
  dw = np.diff(wpad, axis=ax)
  col = (adv * _bshape(dsig, nd, ax) - x * dw).sum(axis=ax)
  sbp_scale = 4.0 * K * max(_amax(w), 1e-300) * ax_
  M.close('advection_summation_by_parts', col, np.zeros_like(col), TOL, scale=sbp_scale, info=info)
  M.note('sbp_worst_relative_residual', _amax(col) / sbp_scale)
  if K == 1:
    M.zero('advection_zero_for_one_layer', adv, info=info)
  # uniform x is not advected
  M.close('advection_of_constant_is_zero', _np(sc.centered_vertical_advection(w, np.full(shape, amp), c, **kw)),
          np.zeros(shape), TOL, scale=adv_scale, info=info)
  # non-zero boundary values, per docstring: w and dx/dsigma padded with (top, bottom)
  wt, wb = wamp * rng.standard_normal(sshape), wamp * rng.standard_normal(sshape)
  dt_, db = (amp * rng.standard_normal(sshape) for _ in range(2))
  for name, wbc, dbc in (('w', (wt, wb), None), ('dx', None, (dt_, db)), ('w+dx', (wt, wb), (dt_, db))):
    got = _np(sc.centered_vertical_advection(w, x, c, w_boundary_values=wbc, dx_dsigma_boundary_values=dbc, **kw))
    ref = R.centered_advection(w, x, b, ax, wbc, dbc)
    sc2 = adv_scale + 2 * (max(_amax(wt), _amax(wb), _amax(w)) * max(_amax(dt_), _amax(db)))
    M.close('advection_boundary_values_vs_loops', got, ref, TOL, scale=sc2, info=dict(info, which=name))
    M.cover('advection_boundary_values', name)
    if name == 'w':
      wpad2 = np.concatenate([wt, w, wb], axis=ax)
      col2 = (got * _bshape(dsig, nd, ax) - x * np.diff(wpad2, axis=ax)).sum(axis=ax)
      flux = -(np.take(x, K - 1, axis=ax) * np.take(wb, 0, axis=ax) - np.take(x, 0, axis=ax) * np.take(wt, 0, axis=ax))
      M.close('advection_sbp_with_boundary_flux', col2, flux, TOL,
              scale=4.0 * K * max(_amax(wpad2), 1e-300) * ax_, info=info)

  # ---------------- upwind advection (only what "1st order upwinding" pins down)
  xs = np.sort(x, axis=ax)                      # monotone increasing along the layer axis
  drs = R.centered_difference(xs, b, ax)
  for sign in (+1.0, -1.0):
    cvel = sign * wamp * rng.uniform(0.5, 2.0)
    got = _np(sc.upwind_vertical_advection(np.full(wshape, cvel), x, c, **kw))
    M.check('upwind_shape', got.shape == tuple(shape), info=info)
    drx = R.centered_difference(x, b, ax)
    if K >= 2 and got.shape == tuple(shape):
      if sign > 0:   # information comes from smaller sigma: backward difference, levels 1..K-1
        sel = np.take(got, range(1, K), axis=ax)
      else:          # forward difference, levels 0..K-2
        sel = np.take(got, range(0, K - 1), axis=ax)
      M.close('upwind_constant_velocity_one_sided', sel, -cvel * drx, TOL, scale=adv_scale * 2 + 1e-300,
              info=dict(info, velocity=cvel))
      M.cover('upwind', 'constant ' + ('positive' if sign > 0 else 'negative'))
    # sign-definite (varying) velocity on monotone data: the tendency has one sign
    wv = sign * wamp * rng.uniform(0.1, 2.0, wshape)
    gots = _np(sc.upwind_vertical_advection(wv, xs, c, **kw))
    slack = TOL * adv_scale
    M.le('upwind_sign_on_monotone_data', sign * gots, 0.0, slack=slack, info=dict(info, sign=sign))
  wr = wamp * rng.standard_normal(wshape)
  upp = _np(sc.upwind_vertical_advection(wr, x, c, **kw))
  upm = _np(sc.upwind_vertical_advection(-wr, x, c, **kw))
  cen_adv = _np(sc.centered_vertical_advection(wr, x, c, **kw))
  M.close('upwind_compact_form_antisymmetric_part_is_centered', upp - upm, 2 * cen_adv, TOL,
          scale=2 * adv_scale + 1e-300, info=info)
  # wrong layer count along the axis is rejected (documented "must satisfy")
  if K >= 1:
    bad = np.zeros(tuple(K + 1 if k == ax else s for k, s in enumerate(shape)))
    for fn in (sc.sigma_integral, sc.cumulative_sigma_integral, sc.cumulative_log_sigma_integral,
               sc.centered_difference):
      M.raises('rejects_wrong_layer_count', lambda fn=fn: fn(bad, c, **kw), (ValueError,),
               info=dict(info, fn=fn.__name__))


def _geopotential(M, sc, pe, c, b, info):
  rng = M.rng(77)
  K = c.layers
  cen = R.sigma_centers(b)
  Rgas = float(rng.choice([287.0, 1.0, rng.uniform(0.1, 500.0)]))
  amp = 10.0 ** rng.uniform(-1, 2.5)
  T = amp * (rng.standard_normal((K, 3, 4)) + rng.uniform(-1, 3))
  tmax = _amax(T)
  scale = Rgas * tmax * (1.0 - math.log(cen[0]))
  ref = Rgas * R.log_sigma_trapezoid_upward(T, b, 0)
  gd = _np(pe.get_geopotential_diff(T, c, Rgas, 'dense'))
  gs = _np(pe.get_geopotential_diff(T, c, Rgas, 'sparse'))
  info = dict(info, R=Rgas)
  M.close('geopotential_sparse_eq_dense', gs, gd, TOL, scale=scale, info=info)
  for meth in ('dot', 'jax'):
    li = Rgas * _np(sc.cumulative_log_sigma_integral(T, c, downward=False, cumsum_method=meth))
    M.close('geopotential_dense_eq_R_log_sigma_integral', gd, li, TOL, scale=scale, info=dict(info, cumsum_method=meth))
    M.close('geopotential_sparse_eq_R_log_sigma_integral', gs, li, TOL, scale=scale, info=dict(info, cumsum_method=meth))
  M.close('geopotential_dense_eq_R_trapezoid_loops', gd, ref, TOL, scale=scale, info=info)
  M.close('geopotential_sparse_eq_R_trapezoid_loops', gs, ref, TOL, scale=scale, info=info)
  # default gas constant / method, leading axes (dense)
  T4 = amp * rng.standard_normal((2, K, 3, 4))
  g4 = _np(pe.get_geopotential_diff(T4, c, Rgas))
  M.close('geopotential_dense_eq_R_trapezoid_loops', g4, Rgas * R.log_sigma_trapezoid_upward(T4, b, 1), TOL,
          scale=Rgas * max(_amax(T4), 1e-300) * (1.0 - math.log(cen[0])), info=dict(info, leading_axis=True))
  # documented vectors / matrices
  al = np.asarray(pe.get_sigma_ratios(c), dtype=np.float64)
  ral = R.sigma_ratios(b)
  M.close('sigma_ratios_vs_docstring', al, ral, TOL, scale=_amax(ral), info=info)
  G = np.asarray(pe.get_geopotential_weights(c, Rgas), dtype=np.float64)
  rG = Rgas * R.geopotential_weights_over_r(b)
  M.close('geopotential_weights_vs_docstring_matrix', G, rG, TOL, scale=_amax(rG), info=info)
  M.zero('geopotential_weights_lower_triangle_zero', G[np.tril_indices(K, -1)], info=info)
  M.cover('geopotential(layers)', 'K=1' if K == 1 else 'K=2' if K == 2 else 'K>=3')


def _run_calc(case, M):
  from dinosaur import jax_numpy_utils as jnu  # pylint: disable=import-outside-toplevel
  from dinosaur import primitive_equations as pe  # pylint: disable=import-outside-toplevel
  from dinosaur import sigma_coordinates as sc  # pylint: disable=import-outside-toplevel
  K = case['K']
  if case.get('hybrid'):
    from dinosaur import vertical_interpolation as vi  # pylint: disable=import-outside-toplevel
    c = getattr(vi.HybridCoordinates, case['hybrid'])().to_approx_sigma_coords(K)
    b = np.asarray(c.boundaries, dtype=np.float64)
  else:
    b = np.asarray(case['boundaries'], dtype=np.float64)
    ok, c = M.no_raise('accepts_strictly_increasing_levels', lambda: sc.SigmaCoordinates(b),
                       info={'boundaries': b.tolist()})
    if not ok:
      return
  M.watch('boundaries:' + case['id'], c.boundaries)
  M.check('layers_attribute', c.layers == K, info={'layers': c.layers, 'K': K})
  th = np.diff(b)
  uneven = bool(K > 1 and th.max() / th.min() > 1.0 + 1e-9)
  info = {'K': K, 'levels': case['levels'], 'thickness_ratio': float(th.max() / th.min())}
  M.cover('levels(kind,K)', f"{case['levels']},{K}")
  M.cover('uneven', str(uneven))
  for lay, axis in (('kxy', case['main_axis']), (case['alt'], case['alt_axis'])):
    shape = LAYOUTS[lay][0](K)
    _calculus(M, sc, jnu, c, b, shape, axis, info)
    M.cover('layout(axis)', f'{lay}:{axis}')
    M.nontrivial_global([round(float(v), 14) for v in b], lay, axis)
  _geopotential(M, sc, pe, c, b, info)
  M.sample({'boundaries': b.tolist(), 'layouts': [['kxy', case['main_axis']], [case['alt'], case['alt_axis']]],
            'uneven': uneven})


# ----------------------------------------------------------------------------------------------
STRUCTURED_BAD = [
    ('not_starting_at_0', [0.1, 0.5, 1.0]), ('not_starting_at_0', [1e-3, 0.5, 1.0]),
    ('not_starting_at_0', [-0.1, 0.5, 1.0]), ('not_starting_at_0', [0.5, 1.0]),
    ('not_ending_at_1', [0.0, 0.5, 0.9]), ('not_ending_at_1', [0.0, 0.5, 1.1]),
    ('not_ending_at_1', [0.0, 0.5, 0.999]), ('not_ending_at_1', [0.0, 0.5]),
    ('non_monotone', [0.0, 0.6, 0.4, 1.0]), ('non_monotone', [0.0, 0.2, 0.8, 0.5, 0.9, 1.0]),
    ('repeated', [0.0, 0.5, 0.5, 1.0]), ('repeated', [0.0, 0.0, 1.0]), ('repeated', [0.0, 1.0, 1.0]),
    ('repeated', [0.0, 0.25, 0.5, 0.5, 0.75, 1.0]),
    ('reversed', [1.0, 0.5, 0.0]), ('reversed', [1.0, 0.0]), ('reversed', [1.0, 0.75, 0.5, 0.25, 0.0]),
    ('length_lt_2', [0.0]), ('length_lt_2', [1.0]), ('length_lt_2', [0.5]), ('length_lt_2', []),
    ('nan', [0.0, float('nan'), 1.0]),
]


def _corrupt(rng, b):
  """One random way of making an admissible boundary set inadmissible."""
  b = np.array(b, dtype=np.float64)
  n = len(b)
  kinds = ['shift_start', 'shift_end', 'reverse']
  if n >= 3:
    kinds += ['repeat', 'repeat']
  if n >= 4:
    kinds += ['swap', 'swap']
  kind = str(rng.choice(kinds))
  if kind == 'shift_start':
    b[0] = rng.choice([-1, 1]) * rng.uniform(1e-3, 0.5)
    return 'not_starting_at_0', b
  if kind == 'shift_end':
    if rng.random() < 0.5:
      b[-1] = 1 + rng.uniform(1e-3, 0.5)
    else:
      b[-1] = b[-2] + (1 - b[-2]) * rng.uniform(0.05, 0.9)
      if 1 - b[-1] < 1e-3:
        b[-1] = 1 + 1e-3
    return 'not_ending_at_1', b
  if kind == 'reverse':
    return 'reversed', b[::-1].copy()
  if kind == 'repeat':
    k = int(rng.integers(1, n - 1))          # an interior boundary
    b[k] = b[k - 1] if rng.random() < 0.5 else b[k + 1]
    return 'repeated', b
  k = int(rng.integers(1, n - 2))
  b[k], b[k + 1] = b[k + 1], b[k]
  return 'non_monotone', b


def _run_validate(case, M):
  from dinosaur import sigma_coordinates as sc  # pylint: disable=import-outside-toplevel
  rng = M.rng()
  if case['n_random'] == 0:
    for why, b in STRUCTURED_BAD:
      excs = (ValueError, IndexError) if len(b) == 0 else (ValueError,)
      for conv in (list, np.array, tuple):
        M.raises('rejects_invalid_levels', lambda b=b, conv=conv: sc.SigmaCoordinates(conv(b)), excs,
                 info={'why': why, 'boundaries': b, 'as': conv.__name__})
      M.cover('rejected(why)', why)
      M.nontrivial_global('bad', why, b if all(v == v for v in b) else 'nan')
    for K in (1, 2, 3, 12, 50, 137):
      ok, c = M.no_raise('accepts_strictly_increasing_levels', lambda K=K: sc.SigmaCoordinates.equidistant(K))
      if ok:
        M.check('equidistant_layers', c.layers == K and len(c.boundaries) == K + 1)
        M.close('equidistant_thickness', c.layer_thickness, np.full(K, 1.0 / K), TOL, scale=1.0)
        M.nontrivial_global('equidistant', K)
  for t in range(case['n_random']):
    K = int(rng.integers(1, 41))
    ratio = float(rng.choice([1.0, 6.0, 1e3, 1e6]))
    b = gen.sigma_boundaries(rng, K, uneven=ratio > 1.0, ratio=max(ratio, 1.0 + 1e-9))
    if not (np.diff(b) > 0).all():     # rounding collapsed a thin layer: not an admissible set
      M.discard('generated set not strictly increasing')
      continue
    conv = [list, np.array, tuple][t % 3]
    ok, c = M.no_raise('accepts_strictly_increasing_levels', lambda b=b, conv=conv: sc.SigmaCoordinates(conv(b)),
                       info={'boundaries': b.tolist()})
    if ok:
      M.cover('accepted(layers)', '1' if K == 1 else '2' if K == 2 else '3-12' if K <= 12 else '13-40')
      M.check('layers_attribute', c.layers == K)
      M.same('boundaries_kept', np.asarray(c.boundaries, dtype=np.float64), b)
      M.close('centers_definition', c.centers, R.sigma_centers(b), TOL, scale=1.0)
      M.close('layer_thickness_definition', c.layer_thickness, R.sigma_thickness(b), TOL, scale=float(np.diff(b).max()))
      M.close('center_to_center_definition', c.center_to_center, np.diff(R.sigma_centers(b)), TOL, scale=1.0)
      M.same('internal_boundaries_definition', np.asarray(c.internal_boundaries, dtype=np.float64), b[1:-1])
      M.close('thickness_sums_to_one', float(np.sum(c.layer_thickness)), 1.0, TOL)
      M.check('equal_and_hash_consistent', c == sc.SigmaCoordinates(b.copy()) and hash(c) == hash(sc.SigmaCoordinates(b.copy())))
      M.nontrivial_global('ok', [round(float(v), 14) for v in b])
    why, bad = _corrupt(rng, b)
    M.raises('rejects_invalid_levels', lambda bad=bad: sc.SigmaCoordinates(bad), (ValueError,),
             info={'why': why, 'boundaries': bad.tolist()})
    M.cover('rejected(why)', why)
    M.nontrivial_global('bad', why, [round(float(v), 14) for v in bad])


def run(case, M):
  if case['kind'] == 'calc':
    _run_calc(case, M)
  else:
    _run_validate(case, M)
