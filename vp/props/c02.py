"""C02 — spectral differential operators are exact on band-limited fields.

Decided by (a) a complete-basis comparison with an analytic oracle: every basis vector e_(m,l) of
the truncation goes, as one batch, through each public differential operator of `Grid`, the result
is synthesised (synthesis is exact on every grid) and compared at the nodes with the analytic
derivative of the scipy-based reference harmonic (vp/refs/sph_ref.py); asserted for every input
with l <= L-2, the top wavenumber is reported only; (b) the vector-calculus identities on dense
non-decaying random fields; (c) 1/r, 1/r^2 scaling against a radius-1 twin grid; (d) padded Fast
layout = unpadded layout after crop, exact zeros in the padding.  See DESIGN.md §3 C02.
"""
from __future__ import annotations

import numpy as np

from vp import gen
from vp.refs import sph_ref

RULE = ('cases = grid configurations (structured edge list + seeded random stream: M, L, node '
        'counts incl. minimal and under-resolved ones, gauss / equiangular / with-poles, longitude '
        'offset, radius, Real/Fast with padding and options, factory grids, a few 8-device meshes); '
        'for each, ALL basis vectors e_(m,l) (sampled above T85) go through every differential '
        'operator and are compared with the analytic derivative of the scipy reference harmonic at '
        'the nodes; only inputs with l <= L-2 are asserted (l <= L-3 where the operator clips). '
        'A configuration is non-trivial if it is distinct and >=1 asserted basis vector has '
        'l >= L/2; the dense random fields used for the identities have flat (non-decaying) '
        'spectra and a dense sub-case is counted only if >=50% of its energy sits at l >= L/2 '
        '(table dense_field_high_wavenumber_energy). Per-vector counts are in coverage_tables.')
MIN_NONTRIVIAL = {'quick': 15, 'thorough': 100}
REQUIRED_MONITORS = {'all': [
    'd_dlon_vs_analytic', 'cos_lat_d_dlat_vs_analytic', 'sec_lat_d_dlat_cos2_vs_analytic',
    'laplacian_vs_analytic', 'inverse_laplacian_vs_analytic', 'cos_lat_grad_vs_analytic',
    'div_cos_lat_vs_analytic', 'curl_cos_lat_vs_analytic', 'get_cos_lat_vector_vs_analytic',
    'vor_div_to_uv_nodal_vs_analytic', 'uv_nodal_to_vor_div_modal_of_analytic_wind',
    'clip_on_equals_clipped_clip_off', 'k_cross_exact', 'clip_wavenumbers_exact',
    'identity_curl_grad_zero', 'identity_div_kcross_grad_zero', 'identity_div_grad_is_laplacian',
    'identity_inverse_laplacian', 'roundtrip_vor_div_uv', 'radius_scaling',
    'padded_equals_unpadded', 'padding_exactly_zero']}
ASSUMPTIONS = [
    'scipy.special.sph_legendre_p(diff_n=1) is the independent oracle for the basis functions and '
    'their latitude derivative',
    'inputs carrying the top total wavenumber (l = L-1) are reported, not asserted',
    'with clip=True an operator is defined as clip_wavenumbers(operator with clip=False); its '
    'nodal values are asserted for inputs with l <= L-3 only (the documented clipping removes the '
    'l+1 = L-1 component of the gradient of an l = L-2 input)',
    'identities that pass through grid space (division by cos^2) are asserted only on grids whose '
    'quadrature resolves products of two basis functions; equiangular_with_poles grids take part '
    'only in the monitors that do not divide by cos(lat)']
TOL64, TOL32 = 1e-10, 3e-5
TIMEOUT = {'quick': 10800, 'thorough': 43200}   # watchdog only (turns a hang into inconclusive)


# ------------------------------------------------------------------------------------ case list
def _structured():
  g = gen.grid_cfg
  return [
      # minimal grids (few or no asserted vectors: only structural monitors run)
      g(1, 1, 1, 1), g(1, 2, 1, 2), g(2, 2, 3, 2), g(2, 3, 4, 3, impl='fast'),
      g(1, 3, 2, 5, 'equiangular'), g(2, 3, 3, 5, 'equiangular_with_poles'),
      # exactly resolving node counts, odd / even, M < L
      g(8, 9, 15, 9), g(8, 9, 16, 10, impl='fast'), g(8, 8, 15, 8), g(7, 10, 13, 10, impl='fast'),
      g(5, 12, 16, 12, impl='fast', offset=0.3), g(6, 7, 11, 13, 'equiangular'),
      g(6, 7, 12, 13, 'equiangular', impl='fast'), g(6, 7, 11, 13, 'equiangular_with_poles'),
      g(5, 6, 9, 12, 'equiangular_with_poles', impl='fast'),
      # under-resolved quadrature: synthesis-side monitors only
      g(8, 9, 12, 6), g(8, 9, 10, 7, impl='fast'), g(6, 7, 16, 8, 'equiangular'),
      # offsets, radii
      g(8, 9, 25, 13, offset=0.3, radius=3.0), g(8, 9, 25, 13, offset=-2.0, radius=0.25, impl='fast'),
      g(12, 13, 36, 25, 'equiangular', offset=1.0, radius=6.371e6 / 1e5, impl='fast'),
      g(10, 11, 21, 11, radius=6.371e6),
      # padded fast layouts + options
      g(8, 9, 25, 13, impl='fast', bsm=8, radius=2.0), g(5, 7, 16, 9, impl='fast', bsm=4, stk=True),
      g(5, 7, 16, 9, impl='fast', bsm=2, stk=False, rev=True, radius=0.5),
      g(12, 13, 36, 18, impl='fast', bsm=8, stk=True, rev=True, prec='highest', offset=0.7),
      g(3, 4, 8, 4, impl='fast', bsm=8, prec='tensorfloat32'),
      g(9, 12, 20, 12, impl='fast', bsm=4, radius=7.0),
      # factories
      gen.with_wavenumbers_cfg(10, 'linear'), gen.with_wavenumbers_cfg(10, 'quadratic', impl='fast'),
      gen.with_wavenumbers_cfg(7, 'cubic', spacing='equiangular', radius=1.7),
      gen.factory_cfg('T21', 'real'), gen.factory_cfg('T21', 'fast', offset=0.1, radius=2.0),
  ]


def _cost(c, K=None):
  if K is None:
    K = c['M'] * c['L']
  return 1.0 + 30 * K * (2 * c['M'] * c['nlat'] * (c['L'] + c['nlon'])) / 3e8


def cases(tier, seed):
  out = []
  cfgs = _structured()
  if tier == 'quick':   # trimmed structured list (the dropped entries run in the thorough tier)
    drop = {(1, 2, 1, 2), (2, 2, 3, 2), (8, 8, 15, 8), (5, 6, 9, 12), (6, 7, 16, 8), (10, 11, 21, 11),
            (12, 13, 36, 25), (9, 12, 20, 12)}
    cfgs = [c for c in cfgs if (c['M'], c['L'], c['nlon'], c['nlat']) not in drop
            and not (c.get('factory') == 'T21' and c['impl'] == 'real')]
  rng = np.random.default_rng([seed, 202])
  n_rand = 12 if tier == 'quick' else 160
  for _ in range(n_rand):
    c = gen.random_grid_cfg(rng, max_M=14 if tier == 'quick' else 24, min_M=2,
                            resolved=rng.random() < 0.85)
    cfgs.append(c)
  if tier == 'thorough':
    cfgs.append(gen.factory_cfg('TL31', 'fast', radius=0.3))
    for name in ('T31', 'T42', 'TL47', 'TL63'):
      for impl in ('real', 'fast'):
        cfgs.append(gen.factory_cfg(name, impl, offset=0.05 if impl == 'real' else 0.0,
                                    radius=1.0 if impl == 'real' else 4.2))
    cfgs.append(gen.factory_cfg('T42', 'fast', spacing='equiangular'))
    c = gen.factory_cfg('T42', 'fast', radius=63.71)
    c['bsm'] = 8
    cfgs.append(c)
    for name, n in (('T85', 2500), ('T106', 800), ('T170', 300), ('TL127', 800), ('TL255', 150)):
      c = gen.factory_cfg(name, 'fast', radius=2.0 if name == 'T106' else 1.0)
      c['sample'] = n
      cfgs.append(c)
    c = gen.factory_cfg('TL95', 'real')
    c['sample'] = 1200
    cfgs.append(c)
    for _ in range(6):
      cfgs.append(gen.random_grid_cfg(rng, max_M=40, min_M=25, resolved=True))
  for i, c in enumerate(cfgs):
    K = min(c['M'] * c['L'], c.get('sample') or 10 ** 9)
    out.append({'id': f'g{i}-{gen.grid_tag(c)}', 'kind': 'grid', 'grid': c, 'env': 'f64',
                'cost': _cost(c, K)})
  # float32 "as shipped" pass on a subset
  sub = [c for c in cfgs if c['M'] <= 22 and c['L'] >= 3 and not c.get('sample')]
  step = 5 if tier == 'quick' else 3
  for i, c in enumerate(sub[::step]):
    out.append({'id': f'f32-{i}-{gen.grid_tag(c)}', 'kind': 'grid', 'grid': c, 'env': 'f32',
                'cost': _cost(c)})
  # 8 virtual devices: the longitude derivative / recurrences under an x-, y-, z-sharded layout
  # (node/wavenumber counts chosen so that every x-shard holds real wavenumbers, not only padding)
  meshes = [((1, 2, 1), gen.grid_cfg(12, 13, 36, 18, impl='fast', radius=2.0, bsm=2)),
            ((1, 4, 2), gen.grid_cfg(9, 10, 28, 14, impl='fast', offset=0.4))]
  if tier == 'thorough':
    meshes += [((2, 2, 2), gen.grid_cfg(12, 13, 36, 18, impl='fast', radius=0.5)),
               # (an (1,8,1) mesh with this batch aborts inside jaxlib's CPU collective-permute rendezvous
               #  - 'id=8, num_threads=8' - on the unchanged tree: third-party, not used; C07 covers x=8)
               ((1, 4, 1), gen.grid_cfg(16, 17, 48, 24, impl='fast')),
               ((1, 2, 4), gen.grid_cfg(7, 12, 20, 12, 'equiangular', impl='fast', rev=False)),
               ((2, 4, 1), gen.factory_cfg('T21', 'fast'))]
  for i, (ms, c) in enumerate(meshes):
    c = dict(c)
    c.pop('factory', None)
    out.append({'id': f'mesh{i}-{"x".join(map(str, ms))}-{gen.grid_tag(c)}', 'kind': 'grid',
                'grid': c, 'mesh': list(ms), 'env': 'f64x8', 'cost': 6 + 2 * _cost(c)})
  return out


# ------------------------------------------------------------------------------------ helpers
def _select_basis(grid, cfg, rng):
  idx = gen.basis_indices(grid)
  n = cfg.get('sample')
  if not n or len(idx) <= n:
    return idx, True
  L, Mw = grid.total_wavenumbers, grid.longitude_wavenumbers
  keep = set()
  for (i, j) in idx:
    m, _ = gen.row_kind(grid, i)
    if j >= L - 3 and (i % 3 == 0 or m in (0, 1, Mw - 1)):
      keep.add((i, j))
    if m in (0, 1, Mw - 1) and j % 2 == 0:
      keep.add((i, j))
    if j in (m, m + 1):
      keep.add((i, j))
  keep = sorted(keep)
  if len(keep) > n:
    sel = rng.choice(len(keep), n, replace=False)
    keep = [keep[k] for k in sel]
  ks = set(keep)
  rest = [p for p in idx if p not in ks]
  extra = n - len(keep)
  if extra > 0 and rest:
    sel = rng.choice(len(rest), min(extra, len(rest)), replace=False)
    keep += [rest[k] for k in sel]
  return sorted(keep), False


def _is_resolved(cfg):
  return (2 * (cfg['L'] - 1) <= gen.exactness_degree(cfg)
          and 2 * (cfg['M'] - 1) <= gen.lon_exactness(cfg))


def _high_fraction(x, grid):
  """Fraction of sum x^2 at l >= L/2."""
  l = np.asarray(grid.modal_mesh[1])
  e = np.asarray(x, np.float64) ** 2
  tot = float(e.sum())
  return float((e * (l >= grid.total_wavenumbers / 2)).sum()) / tot if tot > 0 else 0.0


def _make_mesh(shape):
  import jax  # pylint: disable=import-outside-toplevel
  n = int(np.prod(shape))
  return jax.sharding.Mesh(np.array(jax.devices()[:n]).reshape(shape), ['z', 'x', 'y'])


def _embed(x, grid_small, grid_big):
  """Zero-pad modal coefficients of `grid_small` into the (padded) layout of `grid_big`."""
  out = np.zeros(x.shape[:-2] + tuple(grid_big.modal_shape), x.dtype)
  a, b = grid_small.modal_shape
  out[..., :a, :b] = x
  return out


# ------------------------------------------------------------------------------------ run
def _run_grid(case, M):
  import jax  # pylint: disable=import-outside-toplevel
  import jax.numpy as jnp  # pylint: disable=import-outside-toplevel
  from dinosaur import spherical_harmonic as sh  # pylint: disable=import-outside-toplevel

  cfg = case['grid']
  f64 = M.env.startswith('f64')
  tol = TOL64 if f64 else TOL32
  eps = 1e-13 if f64 else 5e-6        # purely element-wise relations
  dt = np.float64 if f64 else np.float32
  rng = M.rng()
  mesh = _make_mesh(case['mesh']) if case.get('mesh') else None
  grid = gen.make_grid(cfg, mesh=mesh)
  cid = case['id']
  M.watch(f'lap_eig:{cid}', grid.laplacian_eigenvalues)
  M.watch(f'mask:{cid}', grid.mask)
  try:
    wts = grid._derivative_recurrence_weights  # pylint: disable=protected-access
    M.watch(f'rec_a:{cid}', wts[0])
    M.watch(f'rec_b:{cid}', wts[1])
  except AttributeError:
    M.unavailable('_derivative_recurrence_weights (immutability watch)')

  fast = gen.is_fast(grid)
  ms, ns = tuple(grid.modal_shape), tuple(grid.nodal_shape)
  nlon, nlat = cfg['nlon'], cfg['nlat']
  Lw, Mw, r = cfg['L'], cfg['M'], cfg['radius']
  poles = cfg['spacing'] == 'equiangular_with_poles'
  resolved = _is_resolved(cfg)
  mask = np.asarray(grid.mask)
  l_axis = np.asarray(grid.modal_axes[1])
  real_col = np.arange(ms[1]) < Lw                      # columns that are wavenumbers, not padding
  clipmask = (real_col & (np.arange(ms[1]) < Lw - 1)).astype(dt)   # zero at l = L-1 and padding
  below_top = real_col & (np.arange(ms[1]) <= Lw - 2)
  # padding rows / columns and the Fast-only (imaginary part of m=0) row
  pad_region = np.zeros(ms, bool)
  if fast:
    pad_region[2 * Mw:, :] = True
    pad_region[:, Lw:] = True
    pad_region[1, :] = True
  lon = np.asarray(grid.nodal_axes[0])[:nlon] - cfg['offset']
  sin_lat = np.asarray(grid.nodal_axes[1])[:nlat]
  cos_lat = np.sqrt(1 - sin_lat ** 2)
  sec_max = float(1 / cos_lat.min()) if not poles else float('inf')
  padded = fast and (ms[0] > 2 * Mw or ms[1] > Lw or ns != (nlon, nlat))
  M.cover('impl', cfg['impl'] + ('+mesh' if mesh is not None else ''))
  M.cover('spacing', cfg['spacing'])
  M.cover('layout', 'padded' if padded else 'unpadded')
  M.cover('radius', 'r=1' if r == 1.0 else 'r!=1')
  M.cover('offset', 'offset=0' if cfg['offset'] == 0 else 'offset!=0')
  M.cover('quadrature', 'resolves_products' if resolved else 'under_resolved')
  M.cover('env', M.env)
  if fast:
    M.cover('fast_options', {k: cfg.get(k) for k in ('bsm', 'stk', 'rev', 'prec')})

  # ================================================================== (a) complete basis
  idx, complete = _select_basis(grid, cfg, rng)
  K = len(idx)
  M.cover('basis_complete', 'complete' if complete else 'sampled')
  P_ref, dP_ref = sph_ref.legendre_table(Lw, Mw, sin_lat)   # [m, lat, l]
  Fk = np.zeros((K, nlon))
  dFk = np.zeros((K, nlon))
  Pk = np.zeros((K, nlat))
  cdPk = np.zeros((K, nlat))
  lk = np.zeros(K, np.int64)
  mk = np.zeros(K, np.int64)
  kinds = []
  fcache = {}
  for k, (i, j) in enumerate(idx):
    m, kind = gen.row_kind(grid, i)
    if (m, kind) not in fcache:
      fcache[(m, kind)] = sph_ref.fourier(m, kind, lon)
    Fk[k], dFk[k] = fcache[(m, kind)]
    l = int(l_axis[j])
    Pk[k] = P_ref[m, :, l]
    cdPk[k] = cos_lat * dP_ref[m, :, l]
    lk[k], mk[k] = l, m
    kinds.append(kind)
  ymax = np.maximum(1.0, np.abs(Fk).max(axis=1) * np.abs(Pk).max(axis=1))
  lam = (lk * (lk + 1)).astype(np.float64)
  l1 = np.maximum(1, lk).astype(np.float64)
  inv_c = np.where(lk > 0, -r ** 2 / np.maximum(lam, 1.0), 0.0)   # inverse-Laplacian eigenvalue
  do_uv = not poles
  do_vd = do_uv and resolved

  chunk = int(max(4, min(K, 4.0e5 // max(1, ns[0] * ns[1]))))
  if mesh is not None:
    chunk = int(-(-chunk // mesh.shape['z']) * mesh.shape['z'])
  sec = jnp.asarray(np.where(cos_lat > 0, 1 / np.where(cos_lat > 0, cos_lat, 1), 0).astype(dt))
  sl_j = jnp.asarray(sin_lat.astype(dt))
  cm_j = jnp.asarray(clipmask)

  def crop(z):
    return z[..., :nlon, :nlat]

  def basis_fn(E, F, dF, P, cdP, c_inv, lam_c):
    """Residuals max_nodes |synthesis(op(e_k)) - analytic| for every operator, per basis vector."""
    Y = F[:, :, None] * P[:, None, :]
    dlon = dF[:, :, None] * P[:, None, :]
    cdlat = F[:, :, None] * cdP[:, None, :]
    sdlat = cdlat - 2 * sl_j[None, None, :] * Y
    base = {'Y': Y, 'dlon': dlon, 'cdlat': cdlat, 'sdlat': sdlat}
    Z = jnp.zeros_like(E)
    nodal_jobs = []   # (name, modal array, coefficient per k, base key, divide by cos?)
    exact_jobs = {}   # name -> max |a - b| per k (must be exactly 0)
    modal_jobs = {}   # name -> modal-space residual per k

    def add(name, modal, coef, key, over_cos=False):
      nodal_jobs.append((name, modal, coef, key, over_cos))

    one = jnp.ones_like(c_inv)
    add('d_dlon', grid.d_dlon(E), one, 'dlon')
    add('cos_lat_d_dlat', grid.cos_lat_d_dlat(E), one, 'cdlat')
    add('sec_lat_d_dlat_cos2', grid.sec_lat_d_dlat_cos2(E), one, 'sdlat')
    lapE = grid.laplacian(E)
    add('laplacian', lapE, lam_c, 'Y')
    modal_jobs['laplacian_modal'] = jnp.max(jnp.abs(lapE - lam_c[:, None, None] * E), axis=(-2, -1))
    ilapE = grid.inverse_laplacian(E)
    add('inverse_laplacian', ilapE, c_inv, 'Y')
    modal_jobs['inverse_laplacian_modal'] = jnp.max(
        jnp.abs(ilapE - c_inv[:, None, None] * E), axis=(-2, -1))
    # gradient / divergence / curl, clip off; clip on must be the clipped clip-off result
    g_off = grid.cos_lat_grad(E, clip=False)
    g_on = grid.cos_lat_grad(E, clip=True)
    g_def = grid.cos_lat_grad(E)
    add('cos_lat_grad[0]', g_off[0], one / r, 'dlon')
    add('cos_lat_grad[1]', g_off[1], one / r, 'cdlat')
    add('cos_lat_grad_clip[0]', g_on[0], one / r, 'dlon')
    add('cos_lat_grad_clip[1]', g_on[1], one / r, 'cdlat')
    ex = lambda a, b: jnp.max(jnp.abs(a - b), axis=(-2, -1))
    exact_jobs['cos_lat_grad'] = jnp.maximum(ex(g_on[0], g_off[0] * cm_j), ex(g_on[1], g_off[1] * cm_j))
    exact_jobs['cos_lat_grad_default_is_clip'] = jnp.maximum(ex(g_def[0], g_on[0]), ex(g_def[1], g_on[1]))
    for nm, op, refs in (('div_cos_lat', grid.div_cos_lat, (('dlon', 1.0), ('sdlat', 1.0))),
                         ('curl_cos_lat', grid.curl_cos_lat, (('sdlat', -1.0), ('dlon', 1.0)))):
      for comp in (0, 1):
        v = (E, Z) if comp == 0 else (Z, E)
        off = op(v, clip=False)
        on = op(v, clip=True)
        add(f'{nm}[{comp}]', off, one * (refs[comp][1] / r), refs[comp][0])
        add(f'{nm}_clip[{comp}]', on, one * (refs[comp][1] / r), refs[comp][0])
        exact_jobs[f'{nm}[{comp}]'] = ex(on, off * cm_j)
        exact_jobs[f'{nm}_default_is_clip[{comp}]'] = ex(op(v), on)
    # (vorticity, divergence) -> cos(lat) (u, v)
    #   vorticity e: psi = c Y,  cos u = -(c/r) cos dY/dlat,  cos v = (c/r) dY/dlon
    #   divergence e: chi = c Y, cos u = (c/r) dY/dlon,       cos v = (c/r) cos dY/dlat
    cr = c_inv / r
    for src, args, refs in (('vor', (E, Z), (('cdlat', -1.0), ('dlon', 1.0))),
                            ('div', (Z, E), (('dlon', 1.0), ('cdlat', 1.0)))):
      off = sh.get_cos_lat_vector(args[0], args[1], grid, clip=False)
      on = sh.get_cos_lat_vector(args[0], args[1], grid, clip=True)
      dfl = sh.get_cos_lat_vector(args[0], args[1], grid)
      for comp in (0, 1):
        add(f'get_cos_lat_vector[{src},{comp}]', off[comp], cr * refs[comp][1], refs[comp][0])
        add(f'get_cos_lat_vector_clip[{src},{comp}]', on[comp], cr * refs[comp][1], refs[comp][0])
        exact_jobs[f'get_cos_lat_vector[{src},{comp}]'] = ex(on[comp], off[comp] * cm_j)
        exact_jobs[f'get_cos_lat_vector_default_is_clip[{src},{comp}]'] = ex(dfl[comp], on[comp])
    # one batched synthesis for all of the above
    stacked = jnp.concatenate([j[1] for j in nodal_jobs], axis=0)
    nod = crop(grid.to_nodal(stacked))
    C = E.shape[0]
    res = {}
    for n, (name, _, coef, key, over_cos) in enumerate(nodal_jobs):
      ref = coef[:, None, None] * base[key]
      res[name] = jnp.max(jnp.abs(nod[n * C:(n + 1) * C] - ref), axis=(-2, -1))
    pad_abs = {}
    if fast:
      # exact zeros in the padding and in the Fast-only row of every modal result
      outside = jnp.asarray(pad_region)
      pad_abs = {j[0]: jnp.max(jnp.abs(j[1]) * outside, axis=(-2, -1)) for j in nodal_jobs}
    uv = {}
    if do_uv:
      for src, args, refs in (('vor', (E, Z), (('cdlat', -1.0), ('dlon', 1.0))),
                              ('div', (Z, E), (('dlon', 1.0), ('cdlat', 1.0)))):
        for clip in (False, True):
          u, v = sh.vor_div_to_uv_nodal(grid, args[0], args[1], clip=clip)
          for comp, w in ((0, u), (1, v)):
            ref = (cr * refs[comp][1])[:, None, None] * base[refs[comp][0]] * sec[None, None, :]
            uv[f'vor_div_to_uv_nodal{"_clip" if clip else ""}[{src},{comp}]'] = jnp.max(
                jnp.abs(crop(w) - ref), axis=(-2, -1))
            if not clip and ns != (nlon, nlat):
              wp = jnp.max(jnp.abs(w).at[..., :nlon, :nlat].set(0), axis=(-2, -1))
              uv['nodal_padding_abs'] = jnp.maximum(uv.get('nodal_padding_abs', 0.0), wp)
          if clip:   # the default argument must be clip=True
            ud, vd_ = sh.vor_div_to_uv_nodal(grid, args[0], args[1])
            uv[f'vor_div_to_uv_nodal_default_is_clip[{src}]'] = jnp.maximum(ex(ud, u), ex(vd_, v))
    vd = {}
    if do_vd:
      # analytic wind of the stream function / velocity potential c Y  ->  (vorticity, divergence)
      padn = lambda z: jnp.pad(z, [(0, 0), (0, ns[0] - nlon), (0, ns[1] - nlat)])
      bt = jnp.asarray(below_top.astype(dt))
      top = jnp.asarray((real_col & ~below_top).astype(dt))
      nz = (c_inv != 0).astype(E.dtype)[:, None, None]
      for src, refs in (('vor', (('cdlat', -1.0), ('dlon', 1.0))), ('div', (('dlon', 1.0), ('cdlat', 1.0)))):
        un = padn((cr * refs[0][1])[:, None, None] * base[refs[0][0]] * sec[None, None, :])
        vn = padn((cr * refs[1][1])[:, None, None] * base[refs[1][0]] * sec[None, None, :])
        for clip in (False, True):
          vor, div = sh.uv_nodal_to_vor_div_modal(grid, un, vn, clip=clip)
          want_v, want_d = (E * nz, Z) if src == 'vor' else (Z, E * nz)
          tag = f'uv_nodal_to_vor_div_modal{"_clip" if clip else ""}[{src}]'
          vd[tag] = jnp.maximum(jnp.max(jnp.abs(vor - want_v) * bt, axis=(-2, -1)),
                                jnp.max(jnp.abs(div - want_d) * bt, axis=(-2, -1)))
          if clip:
            vd[tag + ':top_abs'] = jnp.maximum(jnp.max(jnp.abs(vor) * top, axis=(-2, -1)),
                                               jnp.max(jnp.abs(div) * top, axis=(-2, -1)))
            vdd = sh.uv_nodal_to_vor_div_modal(grid, un, vn)
            vd[tag + ':default_is_clip'] = jnp.maximum(ex(vdd[0], vor), ex(vdd[1], div))
          if fast:
            outside = jnp.asarray(pad_region)
            vd[tag + ':outside_abs'] = jnp.maximum(jnp.max(jnp.abs(vor) * outside, axis=(-2, -1)),
                                                   jnp.max(jnp.abs(div) * outside, axis=(-2, -1)))
    return {'nodal': res, 'exact': exact_jobs, 'modal': modal_jobs, 'pad': pad_abs, 'uv': uv, 'vd': vd}

  basis_jit = jax.jit(basis_fn)
  acc: dict = {}

  def put(group, name, vals, ks):
    a = acc.setdefault((group, name), np.zeros(K))
    a[ks] = np.asarray(vals, np.float64)[:len(ks)]

  for s in range(0, K, chunk):
    ks = np.arange(s, min(K, s + chunk))
    n = len(ks)
    E = np.zeros((chunk,) + ms, dt)
    for t, k in enumerate(ks):
      E[t, idx[k][0], idx[k][1]] = 1
    padk = lambda a: np.concatenate([a[ks], np.zeros((chunk - n,) + a.shape[1:])]).astype(dt)
    out = basis_jit(E, padk(Fk), padk(dFk), padk(Pk), padk(cdPk), padk(inv_c), padk(-lam / r ** 2))
    for group, d in out.items():
      for name, vals in d.items():
        put(group, name, vals, ks)

  ok2 = lk <= Lw - 2      # asserted inputs
  ok3 = lk <= Lw - 3      # asserted inputs of clipped operators (nodal values)
  top_in = ~ok2

  def witness(res_norm, sel):
    if not sel.any():
      return None
    k = int(np.argmax(np.where(sel, res_norm, -1)))
    return {'grid': cfg, 'worst_basis_vector': {'m': int(mk[k]), 'l': int(lk[k]), 'kind': kinds[k],
                                                 'modal_index': list(idx[k])},
            'normalised_residual': float(res_norm[k])}

  def assert_small(name, res_norm, sel, tolv):
    if sel.any():
      M.small(name, res_norm[sel], 1.0, tolv, info=witness(res_norm, sel))
      return int(sel.sum())
    return 0

  growth = {   # operator growth factor x magnitude of the basis function (scale of the comparison)
      'd_dlon': l1, 'cos_lat_d_dlat': l1, 'sec_lat_d_dlat_cos2': l1 + 2,
      'laplacian': np.maximum(1, lam) / r ** 2, 'inverse_laplacian': r ** 2 / np.maximum(1, lam),
      'cos_lat_grad': l1 / r, 'div_cos_lat': (l1 + 2) / r, 'curl_cos_lat': (l1 + 2) / r,
      'get_cos_lat_vector': np.full(K, float(r)), 'vor_div_to_uv_nodal': np.full(K, r * sec_max)}
  n_asserted = 0
  for (group, name), vals in sorted(acc.items()):
    if group == 'nodal' or (group == 'uv' and name.startswith('vor_div_to_uv_nodal')
                            and 'default_is_clip' not in name):
      fn = name.split('[')[0]
      clip = fn.endswith('_clip')
      fn = fn[:-5] if clip else fn
      norm = growth[fn] * ymax
      rn = vals / norm
      sel = ok3 if clip else ok2
      mon = f'{fn}_vs_analytic'
      n_asserted += assert_small(mon, rn, sel, tol)
      M.cover('operator_x_clip', f'{name}', int(sel.sum()))
      if (~sel).any():
        M.note(f'reported_not_asserted:{fn}{"_clip" if clip else ""}:inputs_above_limit:worst_normalised_residual',
               float(rn[~sel].max()))
      M.note(f'floor:{mon}', float(rn[sel].max()) if sel.any() else 0.0)
    elif group == 'exact' or (group == 'uv' and 'default_is_clip' in name):
      # two separately compiled evaluations: equal up to an ulp (not asserted bit-identical)
      fn = name.split('[')[0].replace('_default_is_clip', '')
      rn = vals / (growth[fn] * ymax)
      if 'default_is_clip' in name:
        M.small('default_clip_argument_is_true', rn, 1.0, eps, info={'grid': cfg, 'function': name})
      else:
        # for every input (the top wavenumber included): clipping = zeroing the top wavenumber
        M.small('clip_on_equals_clipped_clip_off', rn, 1.0, eps, info={'grid': cfg, 'function': name})
    elif group == 'modal':
      sc = growth[name[:-6]]
      M.small(name + '_eigenvalue', (vals / sc)[ok2] if ok2.any() else np.zeros(1), 1.0,
              1e-14 if f64 else 1e-6, info=witness(vals / sc, ok2))
    elif group == 'pad':
      # padding / Fast-only row of op(e) exactly zero for asserted inputs
      if ok2.any():
        M.zero('padding_exactly_zero', vals[ok2], info={'grid': cfg, 'function': name})
      if top_in.any():
        M.cover('padding_nonzero_for_top_wavenumber_input(reported)', name,
                int((vals[top_in] != 0).sum()))
    elif group == 'uv' and name == 'nodal_padding_abs':
      M.zero('nodal_padding_exactly_zero', vals[ok2] if ok2.any() else np.zeros(1),
             info={'grid': cfg})
    elif group == 'vd':
      if name.endswith(':top_abs'):
        M.zero('clipped_output_top_wavenumber_exactly_zero', vals, info={'grid': cfg, 'function': name})
      elif name.endswith(':default_is_clip'):
        M.small('default_clip_argument_is_true', vals, 1.0, eps * Lw * sec_max,
                info={'grid': cfg, 'function': name})
      elif name.endswith(':outside_abs'):
        # with clip=False the analysed wind carries the top wavenumber, whose latitude derivative
        # spills into the first padding column (reported); with clip=True everything is zero
        if '_clip[' in name:
          M.zero('padding_exactly_zero', vals, info={'grid': cfg, 'function': name})
        else:
          M.cover('padding_nonzero_for_top_wavenumber_input(reported)', name, int((vals != 0).sum()))
      else:
        # |u / cos| * L / r is the size of the terms that cancel in curl/div of the analytic wind
        norm = np.maximum(1.0, ymax * sec_max * Lw / l1)
        rn = vals / norm
        n_asserted += assert_small('uv_nodal_to_vor_div_modal_of_analytic_wind', rn, ok2, tol)
        M.note('floor:uv_nodal_to_vor_div_modal_of_analytic_wind(unnormalised)',
               float(vals[ok2].max()) if ok2.any() else 0.0)
        M.cover('operator_x_clip', name, int(ok2.sum()))
        if top_in.any():
          M.note('reported_not_asserted:uv_nodal_to_vor_div_modal:top_inputs:worst',
                 float(rn[top_in].max()))
  n_high = int((ok2 & (lk >= Lw / 2)).sum())
  M.cover('basis_vectors', 'asserted(l<=L-2)', int(ok2.sum()))
  M.cover('basis_vectors', 'asserted_with_l>=L/2', n_high)
  M.cover('basis_vectors', 'top_wavenumber_reported_only', int(top_in.sum()))
  M.cover('basis_vectors', 'diagonal_m=l_asserted', int((ok2 & (lk == mk)).sum()))
  M.cover('basis_vectors', 'penultimate_l=L-2_asserted', int((lk == Lw - 2).sum()))
  if n_high > 0 and n_asserted > 0:
    M.nontrivial_global({k: v for k, v in cfg.items() if k != 'sample'}, case.get('mesh'), M.env)
  M.sample({'grid': cfg, 'mesh': case.get('mesh'), 'basis_vectors': K, 'asserted': int(ok2.sum()),
            'asserted_l_ge_half': n_high, 'operators_compared': len(acc)})

  # ================================================================== exact structural operators
  lead = (3,)
  x = gen.rand_modal(rng, grid, lead, dtype=dt)
  y = gen.rand_modal(rng, grid, lead, dtype=dt)
  kc = grid.k_cross((x, y))
  M.same('k_cross_exact', np.asarray(kc[0]), -y)
  M.same('k_cross_exact', np.asarray(kc[1]), x)
  for n in sorted({1, 2, 3, Lw} & set(range(1, Lw + 1))):
    got = np.asarray(grid.clip_wavenumbers(x, n=n))
    keep = np.arange(ms[1]) < Lw - n
    M.zero('clip_wavenumbers_exact', got[..., ~keep], info={'grid': cfg, 'n': n})
    M.same('clip_wavenumbers_exact', got[..., keep], x[..., keep], info={'grid': cfg, 'n': n})
    M.cover('clip_n', str(n))
  tree = grid.clip_wavenumbers({'a': x, 'b': (y, 2.5)})
  M.same('clip_wavenumbers_exact', np.asarray(tree['a']), x * clipmask)
  M.check('clip_wavenumbers_pytree_scalar_untouched', tree['b'][1] == 2.5)
  M.same('clip_wavenumbers_exact', np.asarray(grid.clip_wavenumbers(x)), x * clipmask,
         info={'what': 'default n=1'})

  # ================================================================== (b) identities, dense fields
  if mesh is None and Lw >= 3:
    _identities(M, jax, sh, grid, cfg, rng, dt, tol, eps, resolved, poles, below_top,
                Fk, dFk, Pk, cdPk, inv_c, idx, complete, cos_lat)

  # ================================================================== (c) radius scaling
  if r != 1.0 and mesh is None and Lw >= 2:
    c1 = dict(cfg, radius=1.0)
    c1.pop('factory', None)
    g1 = gen.make_grid(c1)
    xs = gen.rand_modal(rng, grid, (2,), lmax=Lw - 2, dtype=dt)
    ys = gen.rand_modal(rng, grid, (2,), lmax=Lw - 2, dtype=dt, zero_mean=True)

    def radius_fn(x, y):
      out = {'r': _ops(sh, grid, x, y), '1': _ops(sh, g1, x, y)}
      if not poles:
        u1, v1 = sh.vor_div_to_uv_nodal(g1, y, y[::-1], clip=False)
        out['uv_r'] = sh.vor_div_to_uv_nodal(grid, y, y[::-1], clip=False)
        out['uv_1'] = (u1, v1)
        # the same nodal wind on a sphere r times larger: vorticity / divergence r times smaller
        out['vd_r'] = sh.uv_nodal_to_vor_div_modal(grid, u1, v1, clip=False)
        out['vd_1'] = sh.uv_nodal_to_vor_div_modal(g1, u1, v1, clip=False)
      return out

    o = jax.jit(radius_fn)(xs, ys)
    for name, a in o['r'].items():
      pw = _POWER[name.split('[')[0]]
      M.close('radius_scaling', np.asarray(a), np.asarray(o['1'][name]) * dt(r) ** pw, eps * 10,
              info={'grid': cfg, 'function': name, 'power': pw})
    if not poles:
      for a, b in zip(o['uv_r'], o['uv_1']):
        M.close('radius_scaling', np.asarray(a), np.asarray(b) * dt(r), eps * 10,
                info={'grid': cfg, 'function': 'vor_div_to_uv_nodal', 'power': 1})
      sc = float(np.abs(np.asarray(o['vd_1'][0])).max() + np.abs(np.asarray(o['vd_1'][1])).max()) / r
      for a, b in zip(o['vd_r'], o['vd_1']):
        M.close('radius_scaling', np.asarray(a), np.asarray(b) / dt(r), eps * 10, scale=sc,
                info={'grid': cfg, 'function': 'uv_nodal_to_vor_div_modal', 'power': -1})
    M.cover('radius_scaling', f'r={r:.3g}')

  # ================================================================== (d) padded = unpadded
  if padded and mesh is None and Lw >= 2:
    cu = dict(cfg, bsm=1)
    cu.pop('factory', None)
    gu = gen.make_grid(cu)
    if tuple(gu.modal_shape) != (2 * Mw, Lw) or tuple(gu.nodal_shape) != (nlon, nlat):
      raise_harness('unpadded twin grid is padded')

    def padded_fn(xp, yp, xu, yu):
      out = {'p': _ops(sh, grid, xp, yp), 'u': _ops(sh, gu, xu, yu)}
      if not poles:
        out['uv_p'] = sh.vor_div_to_uv_nodal(grid, yp, yp[::-1], clip=False)
        uu, vu = sh.vor_div_to_uv_nodal(gu, yu, yu[::-1], clip=False)
        out['uv_u'] = (uu, vu)
        padn = lambda z: jnp.pad(z, [(0, 0), (0, ns[0] - nlon), (0, ns[1] - nlat)])
        out['vd_p'] = sh.uv_nodal_to_vor_div_modal(grid, padn(uu), padn(vu))
        out['vd_u'] = sh.uv_nodal_to_vor_div_modal(gu, uu, vu)
      return out

    padded_jit = jax.jit(padded_fn)
    for lmax, tag in ((Lw - 2, 'admissible'), (Lw - 1, 'top_wavenumber_present')):
      xu = gen.rand_modal(rng, gu, (2,), lmax=lmax, dtype=dt)
      yu = gen.rand_modal(rng, gu, (2,), lmax=lmax, dtype=dt, zero_mean=True)
      o = padded_jit(_embed(xu, gu, grid), _embed(yu, gu, grid), xu, yu)
      for name, a in o['p'].items():
        a, b = np.asarray(a), np.asarray(o['u'][name])
        M.close('padded_equals_unpadded', a[..., :2 * Mw, :Lw], b, eps,
                scale=max(float(np.abs(b).max()), 1e-30), info={'grid': cfg, 'function': name, 'input': tag})
        rest = a.copy()
        rest[..., :2 * Mw, :Lw] = 0
        if tag == 'admissible' or 'clip=True' in name or name.split('[')[0] in (
            'd_dlon', 'laplacian', 'inverse_laplacian', 'clip_wavenumbers'):
          M.zero('padding_exactly_zero', rest, info={'grid': cfg, 'function': name, 'input': tag})
        else:
          # the latitude recurrence couples l = L-1 to the first padding column (never read back)
          M.cover('padding_nonzero_for_top_wavenumber_input(reported)', name, int((rest != 0).sum()))
      if not poles:
        for a, b in zip(o['uv_p'], o['uv_u']):
          a, b = np.asarray(a), np.asarray(b)
          M.close('padded_equals_unpadded', a[..., :nlon, :nlat], b, eps * 100,
                  info={'grid': cfg, 'function': 'vor_div_to_uv_nodal', 'input': tag})
        for a, b in zip(o['vd_p'], o['vd_u']):
          a, b = np.asarray(a), np.asarray(b)
          M.close('padded_equals_unpadded', a[..., :2 * Mw, :Lw], b, eps * 100,
                  scale=max(float(np.abs(b).max()), 1e-30),
                  info={'grid': cfg, 'function': 'uv_nodal_to_vor_div_modal', 'input': tag})
          rest = a.copy()
          rest[..., :2 * Mw, :Lw] = 0
          M.zero('padding_exactly_zero', rest, info={'grid': cfg, 'function': 'uv_nodal_to_vor_div_modal'})
    M.cover('padded_twin', f'modal {ms} nodal {ns}')


_POWER = {'d_dlon': 0, 'cos_lat_d_dlat': 0, 'sec_lat_d_dlat_cos2': 0, 'laplacian': -2,
          'inverse_laplacian': 2, 'clip_wavenumbers': 0, 'cos_lat_grad': -1, 'get_cos_lat_vector': 1,
          'div_cos_lat': -1, 'curl_cos_lat': -1}


def _ops(sh, G, x, y):
  """Every modal -> modal operator of grid G applied to dense fields (name -> result)."""
  d = {'d_dlon': G.d_dlon(x), 'cos_lat_d_dlat': G.cos_lat_d_dlat(x),
       'sec_lat_d_dlat_cos2': G.sec_lat_d_dlat_cos2(x), 'laplacian': G.laplacian(x),
       'inverse_laplacian': G.inverse_laplacian(x), 'clip_wavenumbers[n=2]': G.clip_wavenumbers(x, 2)}
  for clip in (False, True):
    g = G.cos_lat_grad(x, clip=clip)
    v = sh.get_cos_lat_vector(y, x, G, clip=clip)
    for c in (0, 1):
      d[f'cos_lat_grad[{c},clip={clip}]'] = g[c]
      d[f'get_cos_lat_vector[{c},clip={clip}]'] = v[c]
    d[f'div_cos_lat[clip={clip}]'] = G.div_cos_lat((x, y), clip=clip)
    d[f'curl_cos_lat[clip={clip}]'] = G.curl_cos_lat((x, y), clip=clip)
  return d


def raise_harness(msg):
  from vp import core  # pylint: disable=import-outside-toplevel
  raise core.HarnessError(msg)


def _identities(M, jax, sh, grid, cfg, rng, dt, tol, eps, resolved, poles, below_top,
                Fk, dFk, Pk, cdPk, inv_c, idx, complete, cos_lat):
  """Vector-calculus identities on dense, non-decaying random fields."""
  Lw, r = cfg['L'], cfg['radius']
  nlon, nlat = cfg['nlon'], cfg['nlat']
  lead = (2,)

  # purely spectral identities: valid on every grid
  def spectral_fn(x2, x1, xc, c):
    return {'il2': grid.inverse_laplacian(grid.laplacian(x2)), 'li2': grid.laplacian(grid.inverse_laplacian(x2)),
            'il1': grid.inverse_laplacian(grid.laplacian(x1)), 'li1': grid.laplacian(grid.inverse_laplacian(x1)),
            'ab': grid.d_dlon(grid.cos_lat_d_dlat(xc)), 'ba': grid.cos_lat_d_dlat(grid.d_dlon(xc)),
            'ic': grid.inverse_laplacian(c), 'ix': grid.inverse_laplacian(xc)}

  x2 = gen.rand_modal(rng, grid, lead, lmax=Lw - 2, dtype=dt, zero_mean=True)
  x1 = gen.rand_modal(rng, grid, lead, lmax=Lw - 1, dtype=dt, zero_mean=True)
  xc = gen.rand_modal(rng, grid, lead, lmax=Lw - 2, dtype=dt)
  c = np.zeros(tuple(grid.modal_shape), dt)
  c[0, 0] = 3.0
  o = jax.jit(spectral_fn)(x2, x1, xc, c)
  for x, t in ((x2, '2'), (x1, '1')):
    sx = float(np.abs(x).max())
    M.close('identity_inverse_laplacian', np.asarray(o['il' + t]), x, eps, scale=sx,
            info={'grid': cfg, 'order': 'inv(lap(x))', 'lmax': f'L-{t}'})
    M.close('identity_inverse_laplacian', np.asarray(o['li' + t]), x, eps, scale=sx,
            info={'grid': cfg, 'order': 'lap(inv(x))', 'lmax': f'L-{t}'})
  M.close('identity_dlon_dlat_commute', np.asarray(o['ab']), np.asarray(o['ba']), eps * 10,
          scale=float(np.abs(xc).max()) * Lw * Lw)
  # non-zero mean: the inverse Laplacian of a constant is 0 (documented convention)
  M.zero('inverse_laplacian_of_constant_is_zero', np.asarray(o['ic']))
  M.finite('inverse_laplacian_finite', np.asarray(o['ix']))
  if poles or not resolved:
    M.cover('identities', 'spectral_only(grid under-resolved or with poles)')
    return
  bt = below_top
  cases_ = [(clip, lmax) for clip, lmax in ((False, Lw - 2), (True, Lw - 3)) if lmax >= 1]
  sec2 = grid.sec2_lat

  def dense_fn(inp):
    out = []
    for (clip, _), (x, vor, div) in zip(cases_, inp):
      g = grid.cos_lat_grad(x, clip=clip)
      gn = [grid.to_nodal(a) * sec2 for a in g]      # grad / cos
      gm = tuple(grid.to_modal(a) for a in gn)
      u, v = sh.vor_div_to_uv_nodal(grid, vor, div, clip=clip)
      v2, d2 = sh.uv_nodal_to_vor_div_modal(grid, u, v, clip=clip)
      out.append({'gn': gn, 'curl': grid.curl_cos_lat(gm, clip=clip),
                  'divk': grid.div_cos_lat(grid.k_cross(gm), clip=clip),
                  'dg': grid.div_cos_lat(gm, clip=clip), 'lap': grid.laplacian(x),
                  'u': u, 'v': v, 'v2': v2, 'd2': d2})
    return out

  inp = []
  for clip, lmax in cases_:
    inp.append((gen.rand_modal(rng, grid, lead, lmax=lmax, dtype=dt),
                gen.rand_modal(rng, grid, lead, lmax=lmax, dtype=dt, zero_mean=True),
                gen.rand_modal(rng, grid, lead, lmax=lmax, dtype=dt, zero_mean=True)))
  outs = jax.jit(dense_fn)(inp)
  for (clip, lmax), (x, vor, div), o in zip(cases_, inp, outs):
    o = jax.tree_util.tree_map(np.asarray, o)
    hf = min(_high_fraction(x, grid), _high_fraction(vor, grid), _high_fraction(div, grid))
    M.cover('dense_field_high_wavenumber_energy', '>=50%' if hf >= 0.5 else '<50%')
    # scale: |grad/cos| * L / r  (what the outer derivative multiplies)
    sc = max(float(np.abs(o['gn'][0]).max()), float(np.abs(o['gn'][1]).max())) * Lw / r
    info = {'grid': cfg, 'clip': clip, 'lmax': lmax, 'high_wavenumber_energy': hf}
    M.small('identity_curl_grad_zero', o['curl'][..., bt], sc, tol, info=info)
    M.small('identity_div_kcross_grad_zero', o['divk'][..., bt], sc, tol, info=info)
    M.close('identity_div_grad_is_laplacian', o['dg'][..., bt], o['lap'][..., bt], tol, scale=sc, info=info)
    # (zeta, delta) -> (u, v) -> (zeta, delta)
    u, v = o['u'], o['v']
    M.finite('uv_finite', (u, v))
    sc = max(float(np.abs(u[..., :nlon, :nlat] / cos_lat).max()),
             float(np.abs(v[..., :nlon, :nlat] / cos_lat).max())) * Lw / r
    sc = max(sc, float(np.abs(vor).max()))
    M.close('roundtrip_vor_div_uv', o['v2'][..., bt], vor[..., bt], tol, scale=sc, info=info)
    M.close('roundtrip_vor_div_uv', o['d2'][..., bt], div[..., bt], tol, scale=sc, info=info)
    M.note('floor:roundtrip_vor_div_uv(unnormalised, |coefficients|~1)',
           max(float(np.abs(o['v2'] - vor)[..., bt].max()), float(np.abs(o['d2'] - div)[..., bt].max())))
    if hf >= 0.5:
      M.nontrivial('dense', clip)
    # dense wind against the reference stream function / velocity potential (linear combination
    # of the per-basis analytic winds), complete bases only
    if complete:
      ii = np.array([p[0] for p in idx])
      jj = np.array([p[1] for p in idx])
      sec = 1 / cos_lat
      for s in range(lead[0]):
        av = (inv_c / r) * vor[s][ii, jj]
        ad = (inv_c / r) * div[s][ii, jj]
        # u = -(c/r) dpsi/dlat + (c/r) sec dchi/dlon ; v = (c/r) sec dpsi/dlon + (c/r) dchi/dlat
        u_ref = (-np.einsum('ki,kj->ij', av[:, None] * Fk, cdPk) + np.einsum('ki,kj->ij', ad[:, None] * dFk, Pk)) * sec
        v_ref = (np.einsum('ki,kj->ij', av[:, None] * dFk, Pk) + np.einsum('ki,kj->ij', ad[:, None] * Fk, cdPk)) * sec
        scu = max(float(np.abs(u_ref).max()), float(np.abs(v_ref).max()), 1e-30)
        M.close('dense_wind_vs_reference_stream_function', u[s][:nlon, :nlat], u_ref, tol * 10,
                scale=scu, info=info)
        M.close('dense_wind_vs_reference_stream_function', v[s][:nlon, :nlat], v_ref, tol * 10,
                scale=scu, info=info)
  M.cover('identities', 'full(grid resolves products)')


# ------------------------------------------------------------------------------------ history
# Confusable sibling grids processed one after the other in the SAME process: every grid is judged
# by the same oracles as above, so state leaking from one Grid instance into another (a memo keyed
# on too little: padded axis length instead of total_wavenumbers, shape without radius, ...) shows
# up on the second grid of a sequence.  Both orders are run.
def _sibling_sequences():
  g = gen.grid_cfg
  seqs = [
      # same padded modal shape (base_shape_multiple=8 rounds L=9, 12, 16 all to 16), same radius
      [g(8, 9, 25, 13, impl='fast', bsm=8, radius=2.0), g(8, 12, 25, 13, impl='fast', bsm=8, radius=2.0),
       g(8, 16, 25, 16, impl='fast', bsm=8, radius=2.0)],
      # same truncation and layout, different radius
      [g(6, 9, 20, 10, impl='fast', bsm=4, radius=1.0), g(6, 9, 20, 10, impl='fast', bsm=4, radius=3.5)],
      [g(6, 9, 20, 10, radius=1.0), g(6, 9, 20, 10, radius=0.4)],
      # same total wavenumbers, different longitude wavenumbers (and vice versa)
      [g(4, 10, 16, 10, impl='fast'), g(9, 10, 20, 10, impl='fast')],
      [g(7, 8, 16, 9), g(7, 11, 16, 11)],
      # same truncation, different nodes / spacing / offset
      [g(6, 7, 13, 7), g(6, 7, 16, 13, 'equiangular'), g(6, 7, 13, 7, offset=0.9)],
      # Real and Fast with the same truncation; padded and unpadded Fast
      [g(7, 8, 16, 9), g(7, 8, 16, 9, impl='fast'), g(7, 8, 16, 9, impl='fast', bsm=8)],
  ]
  return seqs


def sibling_cases(tier):
  out = []
  for i, seq in enumerate(_sibling_sequences()):
    for order, s in (('fwd', seq), ('rev', seq[::-1])):
      out.append({'id': f'siblings{i}-{order}', 'kind': 'siblings', 'grids': s, 'env': 'f64',
                  'cost': 1.5 * len(s)})
  return out


_cases_without_siblings = cases


def cases(tier, seed):  # pylint: disable=function-redefined
  return _cases_without_siblings(tier, seed) + sibling_cases(tier)


def run(case, M):
  if case.get('kind') != 'siblings':
    return _run_grid(case, M)
  for j, cfg in enumerate(case['grids']):
    sub = dict(case, grid=cfg, kind='grid')
    _run_grid(sub, M)
    M.cover('sibling_sequences', f"{case['id']}:{j}:{gen.grid_tag(cfg)}")
