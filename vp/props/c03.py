"""C03 — the implicit solve is the exact inverse of (1 - step * implicit tendency).

Round-trip monitor  x -> y = x - eta*L(x) -> implicit_inverse(y, eta) -> x  on the real
`PrimitiveEquations` / `ShallowWaterEquations` objects (see DESIGN.md §3 C03):

* complete vertical basis (2K+1 unit vectors of the stacked (div, T', lnps) column) carried by a
  random non-zero multiplier on EVERY unmasked (m, l) coefficient (one call per basis vector), so
  that every entry of the per-wavenumber (2K+1)x(2K+1) operator is observed individually;
* dense non-decaying random states with tracers / sim_time (un-batched calls);
* every `method` in {split, stacked, blockwise} x `vertical_matmul_method` in {dense, sparse},
  eta of both signs, pairwise agreement of the strategies, linearity of L, pass-through of
  vorticity / tracers / sim_time, `TimeReversedImExODE`, dense-vs-cumsum forms of G and H,
  the private matrix builder as a sub-monitor, shallow water with 1..4 layers.

The operator matrix used for the conditioning guard and the non-triviality rule is measured
through the public `implicit_terms` (basis columns), not taken from the repository's private
matrix builder.
"""
from __future__ import annotations

import numpy as np

from vp import gen, model

RULE = ('cases = (horizontal grid, sigma levels [1..12 layers; equidistant / random uneven up to '
        '6:1 / derived from ECMWF137 or UFS127 hybrid levels], reference-temperature profile '
        '[constant / linear / random / tropopause-like], (R, kappa, radius) [defaults / random], unit scale, '
        'equation class) from a structured edge list + a seeded random stream; each runs the full '
        'basis of the stacked vertical column on every (m,l) and dense random states through every '
        'solve method x vertical matmul method for 4-7 step sizes eta of both signs (eta given in '
        'units of 1/(2 Omega_earth), 1e-4..2). A (configuration, eta) pair is non-trivial if the '
        'levels are uneven, the reference temperature is not constant and |eta|*spectral radius of '
        'L >= 1e-2 (the solve is far from the identity). Shallow-water (layers, densities, '
        'reference potentials, eta) pairs are counted separately in coverage_tables. (config, eta) '
        'pairs whose Schur-complement condition number exceeds 1e6 are skipped and counted.')
MIN_NONTRIVIAL = {'quick': 30, 'thorough': 300}
REQUIRED_MONITORS = {'all': [
    'roundtrip_basis', 'roundtrip_random_state', 'solve_methods_agree_pairwise',
    'matmul_methods_agree', 'temperature_implicit_dense_eq_sparse',
    'geopotential_diff_dense_eq_sparse', 'implicit_terms_linear', 'implicit_terms_of_zero',
    'passthrough_vorticity_tracers_time', 'time_reversed_solve_eq_forward_minus_eta',
    'time_reversed_roundtrip', 'sw_roundtrip_basis', 'sw_roundtrip_random_state',
    'sw_time_reversed_solve_eq_forward_minus_eta']}
ASSUMPTIONS = [
    'round-trip residuals are normalised per field by max|x_f| + max|(x - eta L x)_f| (largest '
    'cancelling term) times the growth factor max(1, cond(Schur complement)/1e2) (measured floor '
    '= 0.1..10 x 1e-16 x cond)',
    'unit scales are the default, the atmospheric and random scales within a factor 2-3 of the default '
    'length/time/temperature units (floor 1e-13 instead of 1e-15): for exotic units (e.g. length 244 m, time 2 s, 0.29 K) the '
    'split/stacked strategies invert a badly scaled matrix with np.linalg.inv and lose digits '
    '(measured 2e-10 of the field scale, blockwise 1e-15): reported, not asserted',
    'Schur complement = divergence block of I - eta L after eliminating T\' and ln p_s '
    '(invariant under the unit scale)',
    'step sizes whose Schur complement has condition number > 1e6 are skipped and counted '
    '(an exactly or nearly singular I - eta L has no inverse to compare with)',
    'float32 pass: round trips only for |eta| <= 0.3 at 5e-3, operator identities at 3e-4',
    'padded / masked spectral entries of the inputs are zero (in-domain states)']
TIMEOUT = {'quick': 5400, 'thorough': 28800}   # watchdog only (shared, oversubscribed machine)

TOL64 = 1e-9
T_UNIT_S = 1.0 / (2 * 7.292e-5)   # eta is specified in units of the default time scale
METHODS = ('split', 'stacked', 'blockwise')
MATMUL = ('dense', 'sparse')
ETAS_Q = (1e-4, -3e-3, 0.05, -0.4, 2.0, -2.0)
ETAS_T = (1e-4, -1e-4, 3e-3, -0.02, 0.05, -0.4, 0.7, 2.0, -2.0)
ETAS_32 = (1e-3, -0.03, 0.3, -0.3)


# =============================================================================== case lists
def _pe(grid, K, levels, tref, etas=ETAS_Q, cls='dry', consts='default', scale=None, env='f64',
        special=None):
  return {'kind': 'pe', 'grid': grid, 'K': int(K), 'levels': levels, 'tref': tref,
          'etas': [float(e) for e in etas], 'cls': cls, 'consts': consts, 'scale': scale,
          'env': env, 'special': special}


def _sw(grid, n, etas=ETAS_Q, scale=None, oro=False, env='f64'):
  return {'kind': 'sw', 'grid': grid, 'K': int(n), 'etas': [float(e) for e in etas],
          'scale': scale, 'oro': bool(oro), 'env': env}


def _mild_scale(rng):
  """Random unit scale within a factor 2 (length, temperature) / 3 (time) of the default units."""
  return {'length_m': float(6.371e6 * 10 ** rng.uniform(-0.3, 0.3)),
          'time_s': float(T_UNIT_S * 10 ** rng.uniform(-0.5, 0.5)),
          'mass_kg': float(10 ** rng.uniform(-3, 19)),
          'temperature_K': float(10 ** rng.uniform(-0.3, 0.3))}


def _structured(tier):
  g = gen.grid_cfg
  small = g(5, 6, 16, 8)
  t8 = g(8, 9, 25, 13)
  t8f = g(8, 9, 25, 13, impl='fast')
  t8p = g(8, 9, 25, 13, impl='fast', bsm=8)
  t10p = g(10, 11, 32, 16, impl='fast', bsm=4, stk=True)
  t15 = g(15, 16, 46, 23)
  t21 = gen.factory_cfg('T21', 'real')
  t21f = gen.factory_cfg('T21', 'fast')
  atm = 'atmospheric'
  odd = {'length_m': 3.5e6, 'time_s': 2500.0, 'mass_kg': 7.0e3, 'temperature_K': 1.8}
  out = [
      # layer-count edges
      _pe(small, 1, 'equi', 'constant'), _pe(t8f, 1, 'equi', 'random', consts='random'),
      _pe(t8, 2, 'uneven', 'linear'), _pe(t8p, 2, 'uneven', 'random', cls='time'),
      _pe(t8, 3, 'uneven', 'tropopause', consts='random'),
      # the witness configuration of F1: uneven levels x every profile kind
      _pe(t8, 5, 'uneven', 'constant'), _pe(t8f, 5, 'uneven', 'linear'),
      _pe(t8p, 6, 'uneven', 'random', consts='random'),
      _pe(t10p, 9, 'uneven', 'linear', cls='moist', scale=atm),
      _pe(t8, 12, 'uneven', 'random', scale=odd), _pe(t8f, 12, 'equi', 'tropopause'),
      # hybrid-derived level sets, strongly uneven levels
      _pe(t8, 8, 'hybrid:ECMWF137', 'tropopause'), _pe(t8p, 11, 'hybrid:UFS127', 'linear'),
      _pe(small, 6, 'uneven:30', 'linear'),
      # larger grids
      _pe(t15, 4, 'uneven', 'tropopause', etas=(0.05, -0.4, 2.0)),
      _pe(t21, 6, 'uneven', 'linear', etas=(1e-4, -0.4, 2.0), cls='time'),
      # conditioning guard: step sizes at / next to a real eigenvalue of L (unstable profile)
      _pe(t8, 4, 'uneven', 'unstable', etas=(0.05,), special='singular'),
      # float32 "as shipped"
      _pe(t8, 5, 'uneven', 'linear', etas=ETAS_32, env='f32'),
      _pe(t8p, 7, 'uneven', 'tropopause', etas=ETAS_32, env='f32', cls='time'),
      # shallow water
      _sw(small, 1), _sw(t8, 2, oro=True), _sw(t8p, 3), _sw(t8f, 4, scale=odd),
      _sw(t8, 2, etas=ETAS_32, env='f32'),
  ]
  if tier == 'thorough':
    out += [
        _pe(t8, 7, 'uneven', 'tropopause'), _pe(t8, 5, 'equi', 'linear'),
        _pe(t8f, 8, 'equi', 'random', consts='random'),
        _pe(t8, 4, 'hybrid:UFS127', 'random', cls='moist'),
        _pe(t8f, 10, 'uneven:30', 'tropopause', consts='random'),
        _pe(t21f, 3, 'uneven', 'random', etas=(-3e-3, 0.4, -2.0), consts='random'),
        _pe(t8f, 3, 'equi', 'constant', etas=ETAS_32, env='f32'),
        _sw(t21f, 3, etas=(1e-4, -0.4, 2.0)),
    ]
  if tier == 'thorough':
    t31 = gen.factory_cfg('T31', 'fast')
    t31r = gen.factory_cfg('TL31', 'real')
    out += [
        _pe(t31, 8, 'uneven', 'tropopause', etas=(1e-4, 0.05, -0.4, 2.0)),
        _pe(t31r, 12, 'hybrid:ECMWF137', 'linear', etas=(-1e-4, 0.05, -2.0), cls='moist'),
        _pe(t21, 12, 'uneven:30', 'random', etas=ETAS_T, consts='random'),
        _sw(t31, 4, etas=ETAS_T), _sw(t31r, 1, etas=ETAS_T),
    ]
    for K in range(1, 13):
      out.append(_pe(t8 if K % 2 else t8p, K, 'uneven', ('linear', 'tropopause', 'random')[K % 3],
                     etas=ETAS_T, cls=('dry', 'time', 'moist')[K % 3]))
    for K in (2, 5, 9):
      out.append(_pe(t8f, K, 'uneven', 'linear', etas=ETAS_32, env='f32'))
  return out


def _random_cases(tier, seed):
  rng = np.random.default_rng([seed, 303])
  n_pe, n_sw = (10, 3) if tier == 'quick' else (110, 16)
  max_M = 12 if tier == 'quick' else 24
  out = []
  for _ in range(n_pe):
    M_ = int(rng.integers(3, max_M + 1))
    L_ = M_ + int(rng.choice([0, 1, 1, 3]))
    impl = str(rng.choice(['real', 'fast']))
    gc = gen.grid_cfg(M_, L_, 3 * M_ + 1 + int(rng.integers(0, 3)), (3 * M_ + 1) // 2 + 1, impl=impl)
    if impl == 'fast' and rng.random() < 0.5:
      gc['bsm'] = [1, 2, 4, 8][int(rng.integers(4))]
      gc['stk'] = [None, True, False][int(rng.integers(3))]
    K = int(rng.integers(1, 13))
    levels = str(rng.choice(['uneven', 'uneven', 'uneven', 'uneven:30', 'equi', 'hybrid:ECMWF137',
                             'hybrid:UFS127']))
    tref = str(rng.choice(['constant', 'linear', 'random', 'random', 'tropopause', 'cooling',
                           'isothermal_top', 'plateau_cooling', 'bump']))
    pool = ETAS_Q if tier == 'quick' else ETAS_T
    n_eta = 4 if tier == 'quick' else 6
    etas = [float(np.sign(e) * 10 ** rng.uniform(-4, np.log10(2.0))) if rng.random() < 0.5 else float(e)
            for e in rng.choice(pool, n_eta, replace=False)]
    scale = None
    r = rng.random()
    if r < 0.25:
      scale = _mild_scale(rng)
    elif r < 0.4:
      scale = 'atmospheric'
    out.append(_pe(gc, K, levels, tref, etas=etas, cls=str(rng.choice(['dry', 'dry', 'time', 'moist'])),
                   consts='random' if rng.random() < 0.5 else 'default', scale=scale))
  for _ in range(n_sw):
    M_ = int(rng.integers(3, max_M + 1))
    impl = str(rng.choice(['real', 'fast']))
    gc = gen.grid_cfg(M_, M_ + 1, 3 * M_ + 1, (3 * M_ + 1) // 2 + 1, impl=impl)
    if impl == 'fast' and rng.random() < 0.5:
      gc['bsm'] = [2, 4, 8][int(rng.integers(3))]
    etas = [float(np.sign(e) * 10 ** rng.uniform(-4, np.log10(2.0))) for e in rng.choice(ETAS_Q, 4, replace=False)]
    out.append(_sw(gc, int(rng.integers(1, 5)), etas=etas,
                   scale=_mild_scale(rng) if rng.random() < 0.3 else None,
                   oro=bool(rng.random() < 0.5)))
  return out


def _siblings(tier):
  g = gen.grid_cfg
  t8 = g(8, 9, 25, 13)
  t8p = g(8, 9, 25, 13, impl='fast', bsm=8)
  out = []
  for grid, K, levels, trefs in ((t8, 4, 'uneven', ('constant', 'linear', 'cooling', 'isothermal_top')),
                                 (t8p, 3, 'equi', ('linear', 'constant'))):
    for order, tr in (('fwd', trefs), ('rev', trefs[::-1])):
      c = _pe(grid, K, levels, tr[0], etas=(0.05, -0.4))
      c['kind'] = 'pe_siblings'
      c['trefs'] = list(tr)
      c['order'] = order
      out.append(c)
  return out


def cases(tier, seed):
  out = []
  for i, c in enumerate(_structured(tier) + _random_cases(tier, seed) + _siblings(tier)):
    gc = c['grid']
    tag = gen.grid_tag(gc)
    if c['kind'] == 'pe_siblings':
      c['id'] = f"{i}-pe-siblings-{c['order']}-K{c['K']}-{c['levels']}-{tag}"
      B = 2 * c['K'] + 1
      size = gc['M'] * gc['L'] * 2
      c['cost'] = len(c['trefs']) * (1.0 + len(c['etas']) * (0.25 + B * B * size / 2.0e5))
      out.append(c)
      continue
    if c['kind'] == 'pe':
      c['id'] = f"{i}-pe-{c['cls']}-K{c['K']}-{c['levels'].replace(':', '')}-{c['tref']}-{tag}-{c['env']}"
      B = 2 * c['K'] + 1
    else:
      c['id'] = f"{i}-sw-n{c['K']}-{tag}-{c['env']}"
      B = 2 * c['K']
    size = gc['M'] * gc['L'] * 2
    c['cost'] = 1.0 + len(c['etas']) * (0.25 + B * B * size / 2.0e5)
    out.append(c)
  return out


# =============================================================================== helpers
def _levels(desc, K, rng):
  """Sigma boundaries for a level-set descriptor."""
  if desc == 'equi' or K == 1:
    return np.linspace(0.0, 1.0, K + 1)
  if desc.startswith('uneven'):
    ratio = float(desc.split(':')[1]) if ':' in desc else 6.0
    return gen.sigma_boundaries(rng, K, uneven=True, ratio=ratio)
  if desc.startswith('hybrid:'):
    from dinosaur import vertical_interpolation as vi  # pylint: disable=import-outside-toplevel
    hyb = getattr(vi.HybridCoordinates, desc.split(':')[1])()
    sig = hyb.to_approx_sigma_coords(K)
    return np.asarray(sig.boundaries, dtype=np.float64)
  raise ValueError(desc)


def _tref(kind, K, centers, rng):
  if kind == 'unstable':
    # super-adiabatic lapse rate (dT/dln(sigma) > kappa*T): L acquires real eigenvalues
    return 120.0 + 300.0 * np.asarray(centers)
  return model.tref_profile(rng, K, kind, centers=centers)


def _fields(state):
  """[(name, array)] of the three coupled fields of a primitive-equation state."""
  return [('divergence', np.asarray(state.divergence)),
          ('temperature_variation', np.asarray(state.temperature_variation)),
          ('log_surface_pressure', np.asarray(state.log_surface_pressure))]


def _absmax(a):
  a = np.asarray(a)
  return float(np.abs(a).max()) if a.size else 0.0


def _each(fn, batched):
  """Apply `fn` to every member of a batch of states (leading axis of every numpy leaf), one
  un-batched call of the real method per member (a Python loop instead of jax.vmap: the eagerly
  dispatched primitives are then compiled for one set of shapes only); leaves are stacked again."""
  import jax  # pylint: disable=import-outside-toplevel
  import jax.numpy as jnp  # pylint: disable=import-outside-toplevel
  leaves, treedef = jax.tree_util.tree_flatten(batched)
  leaves = [np.asarray(a) for a in leaves]
  outs = []
  for k in range(leaves[0].shape[0]):
    member = jax.tree_util.tree_unflatten(treedef, [jnp.asarray(a[k]) for a in leaves])
    outs.append(fn(member))
  return jax.tree_util.tree_map(lambda *xs: np.stack([np.asarray(x) for x in xs]), *outs)


class _Tagged:
  """Monitor proxy: oracle names get a suffix in the float32 pass, so that the float64 (deciding)
  and float32 (secondary) residual statistics stay separate in the evidence."""
  _ORACLES = ('close', 'small', 'zero', 'same', 'check', 'le', 'finite')

  def __init__(self, M, suffix):
    self._M, self._suffix = M, suffix

  def __getattr__(self, name):
    attr = getattr(self._M, name)
    if name in self._ORACLES and self._suffix:
      return lambda mon, *a, **k: attr(mon + self._suffix, *a, **k)
    return attr


class _Tols:
  def __init__(self, f64):
    self.f64 = f64
    self.rt = TOL64 if f64 else 5e-3          # round trips
    self.op = TOL64 if f64 else 3e-4          # operator identities (no solve involved)
    self.exact = 1e-12 if f64 else 2e-6       # same computation expressed twice


# =============================================================================== primitive equations
def _run_pe(case, M):
  import jax  # pylint: disable=import-outside-toplevel
  import jax.numpy as jnp  # pylint: disable=import-outside-toplevel
  from dinosaur import primitive_equations as pe  # pylint: disable=import-outside-toplevel
  from dinosaur import scales, time_integration as ti  # pylint: disable=import-outside-toplevel
  u = scales.units

  f64 = M.env.startswith('f64')
  dt = np.float64 if f64 else np.float32
  tl = _Tols(f64)
  rng = M.rng()
  K = case['K']
  consts = {}
  if case['consts'] == 'random':
    consts = {'R': float(rng.uniform(120.0, 600.0)), 'kappa': float(rng.uniform(0.1, 0.5)),
              'radius_m': float(6.371e6 * 10 ** rng.uniform(-0.3, 0.3))}
  specs = model.make_specs(case['scale'], consts)
  bounds = _levels(case['levels'], K, rng)
  coords = model.make_coords(case['grid'], bounds, specs)
  grid, vert = coords.horizontal, coords.vertical
  thick = np.asarray(vert.layer_thickness, dtype=np.float64)
  uneven = bool(K > 1 and (thick.max() / thick.min() > 1.0 + 1e-6))
  tref_K = _tref(case['tref'], K, np.asarray(vert.centers), rng)
  tref_nd = np.asarray(specs.nondimensionalize(tref_K * u.degK), dtype=np.float64)
  tref_varies = bool(np.ptp(tref_K) > 1e-9)
  ms = tuple(grid.modal_shape)
  mask = np.asarray(grid.mask)
  Lw = ms[1]
  oro = model.nondim_orography(model.orography_si(rng, grid, lmax=4, height=1500.0), specs, dt)
  eqs = {mm: model.make_eq('dry', tref_K, oro, coords, specs, vertical_matmul_method=mm)
         for mm in MATMUL}
  eq_default = model.make_eq('dry', tref_K, oro, coords, specs)
  cfg_key = {k: case[k] for k in ('grid', 'K', 'levels', 'tref', 'consts', 'scale', 'cls')}
  info = {'levels': case['levels'], 'K': K, 'tref': case['tref'], 'thickness': thick,
          'tref_K': tref_K, 'R': float(specs.R), 'kappa': float(specs.kappa)}
  M.cover('layers', str(K))
  M.cover('levels', case['levels'].split(':')[0] + ('' if uneven or K == 1 else '(equidistant)'))
  M.cover('tref', case['tref'])
  M.cover('layout', case['grid']['impl'] + ('+padded' if ms[1] > case['grid']['L'] or ms[0] > 2 * case['grid']['M'] else ''))
  M.cover('consts', case['consts'])
  M.cover('scale', 'default' if case['scale'] is None else (case['scale'] if isinstance(case['scale'], str) else 'random'))
  M.cover('class', case['cls'])

  def eta_nd(e):
    return float(specs.nondimensionalize(e * T_UNIT_S * u.s))

  B = 2 * K + 1
  sl = {'divergence': slice(0, K), 'temperature_variation': slice(K, 2 * K),
        'log_surface_pressure': slice(2 * K, B)}

  def mk(Z, vor, tracers):
    return pe.State(jnp.asarray(vor), jnp.asarray(Z[..., sl['divergence'], :, :]),
                    jnp.asarray(Z[..., sl['temperature_variation'], :, :]),
                    jnp.asarray(Z[..., sl['log_surface_pressure'], :, :]), tracers)

  def stack(state):
    return np.concatenate([a.astype(np.float64) for _, a in _fields(state)], axis=-3)

  # ------------------------------------------------------------- (0) dense vs cumulative-sum G, H
  for shape in ((K, 3, 5), (K,) + ms):
    x = rng.standard_normal(shape).astype(dt)
    Hw = np.asarray(pe.get_temperature_implicit_weights(vert, tref_nd, specs.kappa))
    Gw = np.asarray(pe.get_geopotential_weights(vert, specs.R))
    td = np.asarray(pe.get_temperature_implicit(x, vert, tref_nd, specs.kappa, method='dense'))
    ts = np.asarray(pe.get_temperature_implicit(x, vert, tref_nd, specs.kappa, method='sparse'))
    sc = float(np.einsum('gh,h...->g...', np.abs(Hw), np.abs(x.astype(np.float64))).max()) or 1.0
    M.close('temperature_implicit_dense_eq_sparse', ts, td, tl.op, scale=sc, info=info)
    # the documented meaning of the dense form: minus H times divergence
    M.close('temperature_implicit_is_minus_H_div', td,
            -np.einsum('gh,h...->g...', Hw, x.astype(np.float64)), tl.op, scale=sc, info=info)
    gd = np.asarray(pe.get_geopotential_diff(x, vert, specs.R, method='dense'))
    gs = np.asarray(pe.get_geopotential_diff(x, vert, specs.R, method='sparse'))
    sc = float(np.einsum('gh,h...->g...', np.abs(Gw), np.abs(x.astype(np.float64))).max()) or 1.0
    M.close('geopotential_diff_dense_eq_sparse', gs, gd, tl.op, scale=sc, info=info)
    M.cover('dense_vs_sparse_GH', ('uneven' if uneven else 'even') + ',' + ('Tref_varies' if tref_varies else 'Tref_const'))

  # ------------------------------------------------------------- (1) the operator on the complete basis
  r = (rng.uniform(0.5, 1.5, ms) * rng.choice([-1.0, 1.0], ms)) * mask
  X = np.zeros((B, B) + ms, dt)
  for k in range(B):
    X[k, k] = r
  vorX = (rng.standard_normal((B, K) + ms) * mask).astype(dt)
  trX = {'q': jnp.asarray((rng.standard_normal((B, K) + ms) * mask).astype(dt))}
  sX = mk(X, vorX, trX)
  LX = {}
  for mm in MATMUL:
    out = _each(eqs[mm].implicit_terms, sX)
    LX[mm] = stack(out)
    M.zero('implicit_terms_vorticity_tracers_zero', np.asarray(out.vorticity), info=info)
    M.zero('implicit_terms_vorticity_tracers_zero', np.asarray(out.tracers['q']), info=info)
  out = _each(eq_default.implicit_terms, sX)
  LXd = stack(out)
  X64 = X.astype(np.float64)
  # per-field growth of L on the basis (scale for operator comparisons)
  def field_scales(*arrs):
    return {f: max(max(_absmax(a[..., s, :, :]) for a in arrs), 1e-300) for f, s in sl.items()}
  scL = field_scales(LX['dense'], LX['sparse'])
  for f, s in sl.items():
    M.close('matmul_methods_agree', LX['sparse'][:, s], LX['dense'][:, s], tl.op, scale=scL[f],
            info=dict(info, field=f))
    M.close('matmul_methods_agree', LXd[:, s], LX['dense'][:, s], tl.op, scale=scL[f],
            info=dict(info, field=f, which='vertical_matmul_method=None (unsharded -> dense)'))
  # operator matrix per (m, l): Lmat[m, l, j, k] = (L e_k r)[j, m, l] / r[m, l]
  with np.errstate(divide='ignore', invalid='ignore'):
    Lall = np.where(mask[None, None], LX['dense'] / r[None, None], 0.0)   # [k, j, m, l]
  Lall = np.transpose(Lall, (2, 3, 1, 0))                                 # [m, l, j, k]
  # reference row: first unmasked m for each l
  Lmat = np.zeros((Lw, B, B))
  for l in range(Lw):
    rows = np.nonzero(mask[:, l])[0]
    if rows.size:
      Lmat[l] = Lall[rows[0], l]
  # the operator acts on each (m,l) column separately and depends on l only
  blk = {f: max(_absmax(Lmat[:, s, :]), 1e-300) for f, s in sl.items()}
  for f, s in sl.items():
    dev = np.where(mask[:, :, None, None], Lall[:, :, s, :] - Lmat[None, :, s, :], 0.0)
    M.small('operator_depends_on_total_wavenumber_only', dev, blk[f], tl.op * 10,
            info=dict(info, field=f))
  rho = max(float(np.abs(np.linalg.eigvals(Lmat[l])).max()) for l in range(Lw))
  M.note('spectral_radius_of_L_times_time_unit', rho * eta_nd(1.0))

  # step sizes (optionally: at / next to a real eigenvalue of L)
  etas = [(e, eta_nd(e)) for e in case['etas']]
  if case.get('special') == 'singular':
    ev = np.concatenate([np.linalg.eigvals(Lmat[l]) for l in range(1, min(Lw, case['grid']['L']))])
    real = ev[(np.abs(ev.imag) < 1e-9 * np.abs(ev).max()) & (np.abs(ev.real) > 1e-6 * np.abs(ev).max())].real
    if real.size == 0:
      raise core_harness_error('no real eigenvalue for the conditioning-guard case')
    mu = real[np.argmax(np.abs(real))]
    for tag, fac in (('at_eigenvalue', 1.0), ('next_to_eigenvalue_1e-8', 1 + 1e-8),
                     ('next_to_eigenvalue_1e-4', 1 + 1e-4), ('next_to_eigenvalue_1e-2', 1.01)):
      etas.append((tag, float(fac / mu)))

  # dense random states (non-decaying spectra) for the un-batched round trips
  def rand_state(n_lead=()):
    Z = (rng.standard_normal(n_lead + (B,) + ms) * mask).astype(dt)
    Z[..., sl['temperature_variation'], :, :] *= dt(10.0 * float(specs.nondimensionalize(1.0 * u.degK)))
    Z[..., sl['log_surface_pressure'], :, :] *= dt(0.05)
    Z[..., sl['divergence'], :, :] *= dt(0.05 / eta_nd(1.0))
    vor = (rng.standard_normal(n_lead + (K,) + ms) * mask).astype(dt) * dt(0.3 / eta_nd(1.0))
    tr = {'specific_humidity': jnp.asarray((rng.standard_normal(n_lead + (K,) + ms) * mask).astype(dt) * dt(0.01)),
          'other': jnp.asarray((rng.standard_normal(n_lead + (K,) + ms) * mask).astype(dt))}
    return Z, vor, tr
  Z1, vor1, tr1 = rand_state()
  Z2, vor2, tr2 = rand_state()
  s1, s2 = mk(Z1, vor1, tr1), mk(Z2, vor2, tr2)

  # ------------------------------------------------------------- (2) linearity of L
  a, b = dt(1.7), dt(-0.6)
  for mm in MATMUL:
    eq = eqs[mm]
    L1, L2 = stack(eq.implicit_terms(s1)), stack(eq.implicit_terms(s2))
    comb = mk(a * Z1 + b * Z2, a * vor1 + b * vor2, {k: a * tr1[k] + b * tr2[k] for k in tr1})
    Lc = stack(eq.implicit_terms(comb))
    for f, s in sl.items():
      sc = abs(float(a)) * _absmax(L1[s]) + abs(float(b)) * _absmax(L2[s])
      M.close('implicit_terms_linear', Lc[s], float(a) * L1[s] + float(b) * L2[s],
              1e-12 if f64 else 3e-5, scale=sc or 1.0, info=dict(info, field=f, matmul=mm))
    z = eq.implicit_terms(mk(np.zeros((B,) + ms, dt), np.zeros((K,) + ms, dt),
                             {'q': jnp.zeros((K,) + ms, dt)}))
    for leaf in jax.tree_util.tree_leaves(z):
      M.zero('implicit_terms_of_zero', np.asarray(leaf), info=dict(info, matmul=mm))
    # basis-derived matrix reproduces L on a dense state (L is determined by its columns)
    Lpred = np.einsum('ljk,kml->jml', Lmat, Z1.astype(np.float64))
    for f, s in sl.items():
      sc = float(np.einsum('ljk,kml->jml', np.abs(Lmat[:, s, :]), np.abs(Z1.astype(np.float64))).max())
      M.close('implicit_terms_is_columnwise_matrix', L1[s], Lpred[s], tl.op, scale=sc or 1.0,
              info=dict(info, field=f, matmul=mm))

  # ------------------------------------------------------------- (3) round trips per step size
  cls_eq = model.make_eq(case['cls'], tref_K, oro, coords, specs) if case['cls'] != 'dry' else None
  try:
    get_matrix = pe._get_implicit_term_matrix  # pylint: disable=protected-access
  except AttributeError:
    get_matrix = None
    M.unavailable('_get_implicit_term_matrix')
  eyeB = np.eye(B)[None]
  for e_tag, eta in etas:
    A = eyeB - eta * Lmat                                       # [l, B, B]
    S = A[:, :K, :K] - A[:, :K, K:] @ A[:, K:, :K]              # divergence Schur complement
    with np.errstate(all='ignore'):
      condS = float(np.max(np.linalg.cond(S)))
    eta_rho = abs(eta) * rho
    sgn = 'eta>0' if eta > 0 else 'eta<0'
    if not np.isfinite(condS) or condS > 1e6:
      M.discard('(config, eta) with cond(Schur complement) > 1e6 skipped')
      M.cover('skipped_ill_conditioned', str(e_tag) if isinstance(e_tag, str) else 'regular eta')
      continue
    # growth factor of the solve: measured round-trip floor = (0.1 .. 10) x 1e-16 x cond(Schur)
    growth = {1: max(1.0, condS / 1e2)}
    A2 = eyeB + eta * Lmat                                      # time-reversed equation
    M.note('largest_condition_number_run', condS)

    def rt_scale(want, which):
      # per field: largest cancelling term max|x_f| + max|(A x)_f|, times the growth factor
      y = np.einsum('ljk,...kml->...jml', A if which == 1 else A2, want)
      sc = np.ones_like(want)
      for s_ in sl.values():
        sc[..., s_, :, :] = ((_absmax(want[..., s_, :, :]) + _absmax(y[..., s_, :, :])) * growth[which]) or 1.0
      return sc

    def rt_check(name, got, want, Wm, extra):
      d = (got - want) / rt_scale(want, Wm)
      for f_, s_ in sl.items():
        M.small(name, d[..., s_, :, :], 1.0, tl.rt, info=dict(einfo, field=f_, **extra))

    M.cover('cond_decade', f'1e{int(np.floor(np.log10(max(condS, 1.0))))}')
    M.cover('abs_eta_times_rho_decade', f'1e{int(np.floor(np.log10(max(eta_rho, 1e-12))))}')
    einfo = dict(info, eta=eta, eta_in_default_units=e_tag, cond_schur=condS, eta_rho=eta_rho)
    if not f64 and eta_rho > 3.0:
      M.cover('f32_skipped_large_step', '1')
      continue

    backs = {}
    for mm in MATMUL:
      Y = X64 - eta * LX[mm]
      sY = mk(Y.astype(dt), vorX, trX)
      for meth in METHODS:
        back = _each(lambda s_, meth=meth, mm=mm: eqs[mm].implicit_inverse(s_, eta, method=meth), sY)
        Bk = stack(back)
        backs[mm, meth] = Bk
        rt_check('roundtrip_basis', Bk, X64, 1, dict(method=meth, matmul=mm))
        M.same('passthrough_vorticity_tracers_time', np.asarray(back.vorticity), vorX,
               info=dict(einfo, what='vorticity', method=meth))
        M.same('passthrough_vorticity_tracers_time', np.asarray(back.tracers['q']), np.asarray(trX['q']),
               info=dict(einfo, what='tracer', method=meth))
        M.cover('method x matmul x sign(eta) x levels',
                f"{meth},{mm},{sgn},{'uneven' if uneven else 'even'}")
      # (4) strategies agree pairwise on the same right-hand side
      for i, m1 in enumerate(METHODS):
        for m2 in METHODS[i + 1:]:
          d = (backs[mm, m1] - backs[mm, m2]) / rt_scale(X64, 1)
          for f, s in sl.items():
            M.small('solve_methods_agree_pairwise', d[:, s], 1.0, tl.rt,
                    info=dict(einfo, field=f, pair=[m1, m2], matmul=mm))
      # private matrix builder tied to the operator (sub-monitor)
      if get_matrix is not None and mm == 'dense':
        Am = np.asarray(get_matrix(eta, coords, tref_nd, specs.kappa, specs.R))
        Yp = np.einsum('ljk,bkml->bjml', Am, X64)
        for f, s in sl.items():
          M.close('private_matrix_consistent_with_operator', Yp[:, s], Y[:, s], tl.op,
                  scale=_absmax(X64[:, s]) + _absmax(Y[:, s]), info=dict(einfo, field=f))

    # dense random state, un-batched calls (State in, State out)
    Zs = Z1.astype(np.float64)
    for mm in MATMUL:
      eq = eqs[mm]
      Ly = stack(eq.implicit_terms(s1))
      Y = Zs - eta * Ly
      sY = mk(Y.astype(dt), vor1, tr1)
      for meth in METHODS:
        back = eq.implicit_inverse(sY, eta, method=meth)
        Bk = stack(back)
        rt_check('roundtrip_random_state', Bk, Zs, 1, dict(method=meth, matmul=mm))
        M.same('passthrough_vorticity_tracers_time', np.asarray(back.vorticity), vor1,
               info=dict(einfo, what='vorticity', method=meth))
        for k in tr1:
          M.same('passthrough_vorticity_tracers_time', np.asarray(back.tracers[k]), np.asarray(tr1[k]),
                 info=dict(einfo, what='tracer ' + k, method=meth))
      M.check('output_is_State_with_input_shapes',
              isinstance(back, pe.State) and all(np.shape(p) == np.shape(q) for p, q in zip(
                  jax.tree_util.tree_leaves(back), jax.tree_util.tree_leaves(sY))), info=einfo)
    # default method argument = some valid strategy: must also be the inverse
    back = eq_default.implicit_inverse(sY, eta)
    rt_check('roundtrip_random_state', stack(back), Zs, 1, dict(method='(default)'))

    # time-reversed equation: its solve with eta is the forward solve with -eta, and it is the
    # resolvent of its own (negated) implicit terms
    rev = ti.TimeReversedImExODE(eq_default)
    fwd = eq_default.implicit_inverse(sY, -eta)
    bwd = rev.implicit_inverse(sY, eta)
    for (f, p), (_, q) in zip(_fields(bwd), _fields(fwd)):
      M.close('time_reversed_solve_eq_forward_minus_eta', p, q, tl.exact,
              scale=max(_absmax(q), 1e-300), info=dict(einfo, field=f))
    Lrev = stack(rev.implicit_terms(s1))
    Ldef = stack(eq_default.implicit_terms(s1))
    for f, s in sl.items():
      M.close('time_reversed_terms_are_negated', Lrev[s], -Ldef[s], tl.exact,
              scale=max(_absmax(Ldef[s]), 1e-300), info=dict(einfo, field=f))
    S2 = A2[:, :K, :K] - A2[:, :K, K:] @ A2[:, K:, :K]
    with np.errstate(all='ignore'):
      cond2 = float(np.max(np.linalg.cond(S2)))
    if np.isfinite(cond2) and cond2 <= 1e6:
      Yr = Zs - eta * Lrev
      back = rev.implicit_inverse(mk(Yr.astype(dt), vor1, tr1), eta)
      growth[2] = max(1.0, cond2 / 1e2)
      rt_check('time_reversed_roundtrip', stack(back), Zs, 2, {})
      M.same('passthrough_vorticity_tracers_time', np.asarray(back.vorticity), vor1,
             info=dict(einfo, what='vorticity', method='time-reversed'))
    else:
      M.discard('(config, eta) with cond(Schur complement) > 1e6 skipped')

    # equation classes that carry time / moisture: solve inherited, sim_time and tracers untouched
    if cls_eq is not None:
      t_sim = float(rng.uniform(0.5, 900.0))
      st = pe.StateWithTime(s1.vorticity, s1.divergence, s1.temperature_variation,
                            s1.log_surface_pressure, dt(t_sim) if not f64 else t_sim, tr1)
      Lt = cls_eq.implicit_terms(st)
      M.check('implicit_terms_sim_time_zero', float(Lt.sim_time) == 0.0, info=einfo)
      for f, s in sl.items():
        M.close('class_implicit_terms_same_as_dry', stack(Lt)[s], Ldef[s],
                tl.exact, scale=max(_absmax(Ldef[s]), 1e-300), info=dict(einfo, field=f, cls=case['cls']))
      yt = st - eta * Lt                                   # tree_math arithmetic as the integrators do
      back = cls_eq.implicit_inverse(yt, eta)
      rt_check('roundtrip_random_state', stack(back), Zs, 1, dict(cls=case['cls']))
      M.check('passthrough_vorticity_tracers_time',
              isinstance(back, pe.StateWithTime) and float(back.sim_time) == float(st.sim_time),
              info=dict(einfo, what='sim_time', got=float(back.sim_time), want=float(st.sim_time)))
      M.same('passthrough_vorticity_tracers_time', np.asarray(back.vorticity), vor1,
             info=dict(einfo, what='vorticity', cls=case['cls']))
      for k in tr1:
        M.same('passthrough_vorticity_tracers_time', np.asarray(back.tracers[k]), np.asarray(tr1[k]),
               info=dict(einfo, what='tracer ' + k, cls=case['cls']))
      M.cover('class_roundtrip', case['cls'] + ',' + sgn)

    if uneven and tref_varies and eta_rho >= 1e-2 and f64:
      M.nontrivial(e_tag)
    M.sample({'config': {k: v for k, v in cfg_key.items() if k != 'grid'}, 'grid': gen.grid_tag(case['grid']),
              'eta_nondimensional': eta, 'abs_eta_times_spectral_radius': eta_rho,
              'cond_schur': condS, 'thickness': thick, 'tref_K': tref_K}, limit=2)


def core_harness_error(msg):
  from vp import core  # pylint: disable=import-outside-toplevel
  return core.HarnessError(msg)


# =============================================================================== shallow water
def _run_sw(case, M):
  import jax  # pylint: disable=import-outside-toplevel
  import jax.numpy as jnp  # pylint: disable=import-outside-toplevel
  from dinosaur import shallow_water as sw, layer_coordinates as lc  # pylint: disable=import-outside-toplevel
  from dinosaur import coordinate_systems as cs, scales, time_integration as ti  # pylint: disable=import-outside-toplevel
  u = scales.units
  f64 = M.env.startswith('f64')
  dt = np.float64 if f64 else np.float32
  tl = _Tols(f64)
  rng = M.rng()
  n = case['K']
  dens = np.sort(rng.uniform(800.0, 1300.0, n))
  if n > 2 and rng.random() < 0.5:
    dens[1] = dens[0]                       # non-decreasing, not strictly increasing
  scale = model.make_scale(case['scale'])
  specs = sw.ShallowWaterSpecs.from_si(densities=dens * u.kg / u.m ** 3, scale=scale)
  gc = dict(case['grid'])
  gc['radius'] = float(specs.radius)
  grid = gen.make_grid(gc)
  coords = cs.CoordinateSystem(grid, lc.LayerCoordinates(n))
  ms = tuple(grid.modal_shape)
  mask = np.asarray(grid.mask)
  depth_m = 10 ** rng.uniform(1.5, 4.2, n)                       # 30 m … 16 km equivalent depth
  ref_pot = np.asarray(specs.g * specs.nondimensionalize(depth_m * u.m), dtype=np.float64)
  oro = None
  if case['oro']:
    oro = (rng.standard_normal(ms) * mask * 0.1 * ref_pot.min()).astype(dt)
  eq = sw.ShallowWaterEquations(coords, specs, oro, ref_pot)
  info = {'layers': n, 'densities': dens, 'reference_potential': ref_pot}
  M.cover('sw_layers', str(n))
  M.cover('sw_layout', case['grid']['impl'] + ('+padded' if ms[1] > case['grid']['L'] else ''))
  t_unit = float(specs.nondimensionalize(T_UNIT_S * u.s))
  lam = np.asarray(grid.laplacian_eigenvalues, dtype=np.float64)
  rho = float(np.sqrt(ref_pot.max() * np.abs(lam).max()))          # gravity-wave frequency
  B = 2 * n
  sl = {'divergence': slice(0, n), 'potential': slice(n, B)}

  def mk(Z, vor):
    return sw.State(jnp.asarray(vor), jnp.asarray(Z[..., :n, :, :]), jnp.asarray(Z[..., n:, :, :]))

  def stack(s):
    return np.concatenate([np.asarray(s.divergence, dtype=np.float64),
                           np.asarray(s.potential, dtype=np.float64)], axis=-3)

  r = (rng.uniform(0.5, 1.5, ms) * rng.choice([-1.0, 1.0], ms)) * mask
  # natural amplitudes: potential ~ ref_pot, divergence ~ 1/time unit
  amp = np.concatenate([np.full(n, 1.0 / t_unit), ref_pot])
  X = np.zeros((B, B) + ms, dt)
  for k in range(B):
    X[k, k] = r * amp[k]
  vorX = (rng.standard_normal((B, n) + ms) * mask).astype(dt)
  sX = mk(X, vorX)
  outL = _each(eq.implicit_terms, sX)
  LX = stack(outL)
  M.zero('sw_implicit_terms_vorticity_zero', np.asarray(outL.vorticity), info=info)
  X64 = X.astype(np.float64)
  Z1 = (rng.standard_normal((B,) + ms) * mask * amp[:, None, None]).astype(dt)
  Z2 = (rng.standard_normal((B,) + ms) * mask * amp[:, None, None]).astype(dt)
  vor1 = (rng.standard_normal((n,) + ms) * mask).astype(dt)
  s1, s2 = mk(Z1, vor1), mk(Z2, vor1[::-1].copy())
  L1, L2 = stack(eq.implicit_terms(s1)), stack(eq.implicit_terms(s2))
  a, b = dt(1.7), dt(-0.6)
  Lc = stack(eq.implicit_terms(mk(a * Z1 + b * Z2, a * vor1 + b * vor1[::-1])))
  for f, s in sl.items():
    M.close('sw_implicit_terms_linear', Lc[s], float(a) * L1[s] + float(b) * L2[s],
            1e-12 if f64 else 3e-5,
            scale=(abs(float(a)) * _absmax(L1[s]) + abs(float(b)) * _absmax(L2[s])) or 1.0,
            info=dict(info, field=f))
  for leaf in jax.tree_util.tree_leaves(eq.implicit_terms(mk(np.zeros((B,) + ms, dt), np.zeros((n,) + ms, dt)))):
    M.zero('sw_implicit_terms_of_zero', np.asarray(leaf), info=info)
  rev = ti.TimeReversedImExODE(eq)

  for e in case['etas']:
    eta = e * t_unit
    einfo = dict(info, eta=eta, eta_in_default_units=e, eta_times_gravity_wave_frequency=abs(eta) * rho)
    sgn = 'eta>0' if eta > 0 else 'eta<0'
    if not f64 and abs(eta) * rho > 3.0:
      M.cover('f32_skipped_large_step', '1')
      continue
    Y = X64 - eta * LX
    back = _each(lambda s_: eq.implicit_inverse(s_, eta), mk(Y.astype(dt), vorX))
    Bk = stack(back)
    for f, s in sl.items():
      M.close('sw_roundtrip_basis', Bk[:, s], X64[:, s], tl.rt,
              scale=_absmax(X64[:, s]) + _absmax(Y[:, s]), info=dict(einfo, field=f))
    M.same('sw_passthrough_vorticity', np.asarray(back.vorticity), vorX, info=einfo)
    Zs = Z1.astype(np.float64)
    Y1 = Zs - eta * L1
    sY = mk(Y1.astype(dt), vor1)
    back = eq.implicit_inverse(sY, eta)
    for f, s in sl.items():
      M.close('sw_roundtrip_random_state', stack(back)[s], Zs[s], tl.rt,
              scale=_absmax(Zs[s]) + _absmax(Y1[s]), info=dict(einfo, field=f))
    M.same('sw_passthrough_vorticity', np.asarray(back.vorticity), vor1, info=einfo)
    fwd = eq.implicit_inverse(sY, -eta)
    bwd = rev.implicit_inverse(sY, eta)
    for f, s in sl.items():
      M.close('sw_time_reversed_solve_eq_forward_minus_eta', stack(bwd)[s], stack(fwd)[s], tl.exact,
              scale=max(_absmax(stack(fwd)[s]), 1e-300), info=dict(einfo, field=f))
    Yr = Zs - eta * stack(rev.implicit_terms(s1))
    back = rev.implicit_inverse(mk(Yr.astype(dt), vor1), eta)
    for f, s in sl.items():
      M.close('sw_time_reversed_roundtrip', stack(back)[s], Zs[s], tl.rt,
              scale=_absmax(Zs[s]) + _absmax(Yr[s]), info=dict(einfo, field=f))
    M.cover('sw: layers x sign(eta)', f'{n},{sgn}')
    M.cover('sw_abs_eta_times_frequency_decade', f'1e{int(np.floor(np.log10(max(abs(eta) * rho, 1e-12))))}')
    if f64 and abs(eta) * rho >= 1e-2:
      M.cover('sw_nontrivial(|eta|*omega>=1e-2)', '1')
      if n >= 2:
        M.nontrivial_global('sw', case['grid'], n, M.seed, e)


def run(case, M):
  M = _Tagged(M, '' if M.env.startswith('f64') else '@f32')
  if case['kind'] == 'pe_siblings':
    # history monitor: equation objects that share grid, level set (same rng stream => same
    # boundaries), constants and step sizes but differ in the reference-temperature profile are
    # solved one after the other in the same process; each is judged by the ordinary oracles, so
    # a solve matrix memoised on too small a key (without T_ref) poisons the second one.
    for j, tref in enumerate(case['trefs']):
      sub = dict(case, kind='pe', tref=tref)
      _run_pe(sub, M)
      M.cover('sibling_sequences', f"{case['id']}:{j}:{tref}")
    return
  if case['kind'] == 'pe':
    _run_pe(case, M)
  else:
    _run_sw(case, M)
