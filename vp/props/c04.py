"""C04 — the full tendency does not depend on the reference-temperature split.

Metamorphic monitor over pairs of executions of the real equation classes that differ ONLY in the
reference temperature profile handed to the constructor: the same physical atmosphere (same
absolute temperature; `model.absolute_shift` moves the (0,0) coefficient of T' per level) must
give the same explicit_terms + implicit_terms, field by field (DESIGN.md §3 C04).

Known finding F7 (status "known"): `MoistPrimitiveEquationsWithCloudMoisture` applies the
condensate loading -(q_l + q_i) to T' only.  For that class with non-zero condensate the residual
is compared with the term the mechanism predicts,

    tend(T_ref=A) - tend(T_ref=B) = -curl/div [ R (A - B) (q_l + q_i) cos(lat) grad(ln p_s) / cos^2(lat) ],

computed by the harness through the same nodal path (Grid.to_nodal / cos_lat_grad / to_modal /
curl_cos_lat / div_cos_lat / clip_wavenumbers).  `known='F7'` is passed only when the case has the
cloud class AND non-zero condensate AND the residual of every field is explained by that term to
1e-9; anything else is a plain violation.  With zero condensate the cloud class must pass outright.
"""
from __future__ import annotations

import numpy as np

from vp import gen, model

RULE = ('cases = (equation class [dry / with time / moist / cloud], Gauss grid T5..T21 (thorough: '
        '..T31) in both layouts incl. padded, 1..10 uneven sigma layers, with/without orography, 0-3 '
        'extra tracers, unit scale, (R, kappa), state spectrum [non-decaying up to the last kept '
        'wavenumber = fully aliased products, or red], 2-4 reference profiles [constant / linear / '
        'random +-40 K / tropopause-like]) from a structured edge list + seeded random stream; the '
        'first profile is the reference execution, every other profile gives one pair. A pair is '
        'non-trivial if the two profiles differ by >= 10 K at some level and the state has non-zero '
        'T\', non-zero grad(ln p_s) and (moist classes) non-zero humidity. Default centred vertical '
        'advection only (the upwind option and include_vertical_advection=False are non-default '
        'modes for which no implicit operator is built; excluded).')
MIN_NONTRIVIAL = {'quick': 25, 'thorough': 200}
REQUIRED_MONITORS = {'all': ['tendency_invariant_under_reference_temperature',
                             'cloud_class_residual_equals_F7_predicted_term',
                             'cloud_class_nonzero_condensate_invariant(F7)',
                             'cloud_class_zero_condensate_invariant']}
ASSUMPTIONS = [
    'residuals are normalised per field by the largest of max|explicit|, max|implicit|, '
    'max|explicit+implicit| over the two executions (largest cancelling term)',
    'states are admissible: zero-mean vorticity/divergence, top total wavenumber empty, physical '
    'amplitudes (wind <= 40 m/s x amplitude factor, T\' ~ 10 K, ln p_s ~ 0.03, q ~ 0.01)',
    'F7 predicate: class MoistPrimitiveEquationsWithCloudMoisture and non-zero cloud condensate '
    'and residual explained by the predicted term to 1e-9; only then known=F7 is attached',
    'float32 pass decides at 3e-4 only']
TIMEOUT = {'quick': 5400, 'thorough': 28800}   # watchdog only (shared, oversubscribed machine)

TOL64, TOL32 = 1e-9, 3e-4
CLOUD = ('specific_cloud_liquid_water_content', 'specific_cloud_ice_water_content')
FIELDS = ('vorticity', 'divergence', 'temperature_variation', 'log_surface_pressure')


# =============================================================================== cases
def _c(cls, grid, K, profiles, oro=True, extra=0, cloud='nonzero', levels='uneven', scale=None,
       consts='default', spectrum='flat', amp=1.0, env='f64'):
  return {'cls': cls, 'grid': grid, 'K': int(K), 'profiles': list(profiles), 'oro': bool(oro),
          'extra': int(extra), 'cloud': cloud, 'levels': levels, 'scale': scale, 'consts': consts,
          'spectrum': spectrum, 'amp': float(amp), 'env': env}


def _structured(tier):
  g = gen.grid_cfg
  t5 = g(5, 6, 16, 8)
  t8 = g(8, 9, 25, 13)
  t8f = g(8, 9, 25, 13, impl='fast')
  t8p = g(8, 9, 25, 13, impl='fast', bsm=8)
  t10p = g(10, 11, 32, 16, impl='fast', bsm=4, stk=True)
  t13 = g(13, 14, 40, 20)
  t21 = gen.factory_cfg('T21', 'real')
  t21f = gen.factory_cfg('T21', 'fast')
  CL, LN, RD, TP = 'constant', 'linear', 'random', 'tropopause'
  odd = {'length_m': 3.3e5, 'time_s': 40.0, 'mass_kg': 7.0e3, 'temperature_K': 3.0}
  out = [
      # the reproducer of known finding F7 (always run) and its zero-condensate control
      _c('cloud', t8, 5, [CL, RD, LN], cloud='nonzero'),
      _c('cloud', t8, 5, [CL, RD, LN], cloud='zero'),
      _c('cloud', t8p, 3, [LN, TP], cloud='liquid_only', extra=1),
      # dry
      _c('dry', t5, 1, [CL, RD, RD]), _c('dry', t8, 2, [CL, LN], oro=False),
      # profile classes on which sign / monotonicity / end-value shortcuts go wrong
      _c('time', t8, 5, [CL, 'bump', 'cooling', 'isothermal_top']),
      _c('dry', t8f, 4, [LN, RD, TP, CL], extra=2), _c('dry', t8p, 6, [TP, RD], extra=1),
      _c('dry', t13, 10, [CL, TP, RD], levels='uneven:30'),
      _c('dry', t8, 3, [RD, RD], scale=odd, consts='random'),
      # with time
      _c('time', t8, 3, [CL, LN, RD], extra=3),
      # moist
      _c('moist', t8, 1, [CL, RD]), _c('moist', t8f, 2, [LN, CL, RD], extra=1),
      _c('moist', t8p, 5, [RD, TP], oro=False), _c('moist', t8, 6, [CL, LN, RD, TP], extra=2),
      _c('moist', t13, 9, [TP, RD], levels='uneven:30', scale='atmospheric'),
      _c('moist', t8, 4, [LN, RD], consts='random', scale=odd),
      _c('moist', t21f, 5, [CL, TP]),
      # float32 "as shipped"
      _c('moist', t8f, 5, [CL, RD], env='f32'),
      _c('cloud', t8, 3, [LN, TP], cloud='zero', env='f32'),
  ]
  if tier == 'thorough':
    out += [
        _c('cloud', t8f, 7, [RD, CL, TP], cloud='zero', oro=False),
        _c('dry', t8, 5, [CL, LN], spectrum='red', amp=3.0),
        _c('time', t10p, 8, [TP, LN], oro=False), _c('dry', t21, 4, [LN, RD]),
        _c('dry', t8, 4, [CL, LN], env='f32'),
    ]
  if tier == 'thorough':
    t31 = gen.factory_cfg('T31', 'fast')
    out += [_c('moist', t31, 8, [CL, RD, TP], extra=1), _c('cloud', t31, 6, [LN, RD]),
            _c('dry', gen.factory_cfg('TL31', 'real'), 10, [TP, CL, RD], levels='uneven:30')]
    for K in range(1, 11):
      for cls in ('dry', 'time', 'moist', 'cloud'):
        out.append(_c(cls, (t8, t8f, t8p)[K % 3], K, [(CL, LN, RD, TP)[K % 4], RD, (TP, CL)[K % 2]],
                      oro=bool(K % 2), extra=K % 3, cloud=('nonzero', 'zero')[K % 2]))
  return out


def _random_cases(tier, seed):
  rng = np.random.default_rng([seed, 404])
  n = 9 if tier == 'quick' else 70
  max_M = 12 if tier == 'quick' else 22
  kinds = ['constant', 'linear', 'random', 'random', 'tropopause', 'cooling', 'isothermal_top',
           'plateau_cooling', 'bump']
  out = []
  for _ in range(n):
    M_ = int(rng.integers(4, max_M + 1))
    L_ = M_ + int(rng.choice([1, 1, 1, 0, 2]))
    impl = str(rng.choice(['real', 'fast']))
    nlon = 3 * M_ + 1 + int(rng.integers(0, 3))
    gc = gen.grid_cfg(M_, L_, nlon, (3 * L_ + 1) // 2 + int(rng.integers(0, 2)), impl=impl)
    if impl == 'fast' and rng.random() < 0.5:
      gc['bsm'] = [1, 2, 4, 8][int(rng.integers(4))]
      gc['stk'] = [None, True, False][int(rng.integers(3))]
    cls = str(rng.choice(['dry', 'time', 'moist', 'moist', 'cloud', 'cloud']))
    scale = None
    r = rng.random()
    if r < 0.2:
      scale = model.random_scale_desc(rng)
    elif r < 0.35:
      scale = 'atmospheric'
    nprof = int(rng.integers(2, 4)) if tier == 'quick' else int(rng.integers(2, 5))
    out.append(_c(cls, gc, int(rng.integers(1, 11)), [str(k) for k in rng.choice(kinds, nprof)],
                  oro=bool(rng.random() < 0.6), extra=int(rng.integers(0, 4)),
                  cloud=str(rng.choice(['nonzero', 'zero', 'liquid_only', 'ice_only'])),
                  levels=str(rng.choice(['uneven', 'uneven', 'uneven:30'])), scale=scale,
                  consts='random' if rng.random() < 0.3 else 'default',
                  spectrum=str(rng.choice(['flat', 'flat', 'red'])),
                  amp=float(rng.choice([1.0, 1.0, 0.1, 3.0]))))
  return out


def cases(tier, seed):
  out = []
  for i, c in enumerate(_structured(tier) + _random_cases(tier, seed)):
    c['kind'] = 'tref'
    cl = ('-' + c['cloud']) if c['cls'] == 'cloud' else ''
    c['id'] = (f"{i}-{c['cls']}{cl}-K{c['K']}-{'oro' if c['oro'] else 'flat'}-x{c['extra']}-"
               f"p{len(c['profiles'])}-{gen.grid_tag(c['grid'])}-{c['env']}")
    gc = c['grid']
    c['cost'] = 1.0 + c['K'] * gc['nlon'] * gc['nlat'] * gc['L'] / 4.0e4 * (1 + 0.2 * len(c['profiles']))
    out.append(c)
  return out


# =============================================================================== run
def _absmax(a):
  a = np.asarray(a)
  return float(np.abs(a).max()) if a.size else 0.0


def _leaves(state):
  """{name: float64 array} for every field of a (tendency) state, tracers flattened."""
  d = {f: np.asarray(getattr(state, f), dtype=np.float64) for f in FIELDS}
  for k, v in state.tracers.items():
    d['tracers.' + k] = np.asarray(v, dtype=np.float64)
  if hasattr(state, 'sim_time'):
    d['sim_time'] = np.asarray(state.sim_time, dtype=np.float64)
  return d


def _f7_predicted(grid, specs, state, d_tref_nd):
  """tend(T_ref=A) - tend(T_ref=B) predicted by the F7 mechanism, d_tref = A - B (nondimensional)."""
  ql = np.asarray(grid.to_nodal(state.tracers[CLOUD[0]]), dtype=np.float64)
  qi = np.asarray(grid.to_nodal(state.tracers[CLOUD[1]]), dtype=np.float64)
  gl = grid.cos_lat_grad(state.log_surface_pressure, clip=False)
  gu, gv = (np.asarray(grid.to_nodal(x), dtype=np.float64) for x in gl)
  coef = float(specs.R) * np.asarray(d_tref_nd)[:, None, None] * (ql + qi) * np.asarray(grid.sec2_lat)
  dtp = np.asarray(state.vorticity).dtype
  cu = grid.to_modal((coef * gu).astype(dtp))
  cv = grid.to_modal((coef * gv).astype(dtp))
  dvor = grid.clip_wavenumbers(-grid.curl_cos_lat((cu, cv), clip=False))
  ddiv = grid.clip_wavenumbers(-grid.div_cos_lat((cu, cv), clip=False))
  return {'vorticity': np.asarray(dvor, dtype=np.float64), 'divergence': np.asarray(ddiv, dtype=np.float64)}


def run(case, M):
  from dinosaur import scales  # pylint: disable=import-outside-toplevel
  u = scales.units
  f64 = M.env.startswith('f64')
  dt = np.float64 if f64 else np.float32
  tol = TOL64 if f64 else TOL32
  sfx = '' if f64 else '@f32'
  rng = M.rng()
  K, cls = case['K'], case['cls']
  consts = {}
  if case['consts'] == 'random':
    consts = {'R': float(rng.uniform(200.0, 400.0)), 'kappa': float(rng.uniform(0.2, 0.4))}
  specs = model.make_specs(case['scale'], consts)
  ratio = float(case['levels'].split(':')[1]) if ':' in case['levels'] else 6.0
  bounds = gen.sigma_boundaries(rng, K, uneven=True, ratio=ratio)
  coords = model.make_coords(case['grid'], bounds, specs)
  grid, vert = coords.horizontal, coords.vertical
  ms = tuple(grid.modal_shape)
  oro_si = model.orography_si(rng, grid, lmax=6, height=3000.0) if case['oro'] else np.zeros(ms)
  oro = model.nondim_orography(oro_si, specs, dt)
  tracers = tuple(model.EQ_TRACERS[cls]) + tuple(('tracer_a', 'uniform', 'tracer_b')[:case['extra']])
  si = model.phys_state_si(rng, grid, K, decay=0.0 if case['spectrum'] == 'flat' else 1.5,
                           wind=40.0 * case['amp'], div_wind=4.0 * case['amp'], dT=10.0 * case['amp'],
                           dlnps=0.03 * case['amp'], tracers=tracers)
  if cls == 'cloud':
    zero = {'zero': CLOUD, 'liquid_only': CLOUD[1:], 'ice_only': CLOUD[:1], 'nonzero': ()}[case['cloud']]
    for k in zero:
      si['tracers'][k] = np.zeros_like(si['tracers'][k])
  # reference profiles [K]; duplicates of a kind are re-drawn (random) or shifted
  profs = []
  for j, kind in enumerate(case['profiles']):
    p = model.tref_profile(rng, K, kind, centers=np.asarray(vert.centers))
    if kind != 'random' and any(np.allclose(p, q) for q in profs):
      p = p + 15.0 * (j + 1)
    if kind == 'random':
      p = np.clip(p, 150.0, 350.0)
    profs.append(np.asarray(p, dtype=np.float64))
  nd = lambda t: np.asarray(specs.nondimensionalize(np.asarray(t) * u.degK), dtype=np.float64)
  with_time = cls != 'dry'
  st0 = model.to_state(si, specs, with_time=with_time, dtype=dt, sim_time=float(rng.uniform(0, 50)))
  condensate = cls == 'cloud' and any(_absmax(si['tracers'][k]) > 0 for k in CLOUD)
  has_T = _absmax(st0.temperature_variation) > 0
  lsp = np.array(st0.log_surface_pressure)
  lsp[..., 0, 0] = 0
  has_gradp = _absmax(lsp) > 0
  has_q = (cls in ('dry', 'time')) or _absmax(si['tracers']['specific_humidity']) > 0

  M.cover('class', cls + (',condensate' if condensate else (',zero condensate' if cls == 'cloud' else '')))
  M.cover('layers', str(K))
  M.cover('layout', case['grid']['impl'] + ('+padded' if ms[1] > case['grid']['L'] else ''))
  M.cover('orography', 'yes' if case['oro'] else 'no')
  M.cover('extra_tracers', str(case['extra']))
  M.cover('spectrum', case['spectrum'])
  M.cover('scale', 'default' if case['scale'] is None else (case['scale'] if isinstance(case['scale'], str) else 'random'))

  results = []
  for p in profs:
    eq = model.make_eq(cls, p, oro, coords, specs)
    st = model.absolute_shift(st0, nd(profs[0]), nd(p))
    ex = eq.explicit_terms(st)
    im = eq.implicit_terms(st)
    tot = ex + im
    M.finite('tendency_finite' + sfx, [_leaves(tot)])
    results.append({'ex': _leaves(ex), 'im': _leaves(im), 'tot': _leaves(tot), 'state': st})

  base = results[0]
  for j in range(1, len(profs)):
    other = results[j]
    d_tref_K = profs[0] - profs[j]
    info = {'class': model.EQ_CLASSES[cls], 'profiles_K': [profs[0], profs[j]],
            'kinds': [case['profiles'][0], case['profiles'][j]], 'thickness': np.asarray(vert.layer_thickness)}
    scale = {}
    for f in base['tot']:
      scale[f] = max(_absmax(r[part][f]) for r in (base, other) for part in ('ex', 'im', 'tot')) or 1.0
    M.note('largest (cancelling term)/(total tendency) ratio',
           max(scale[f] / max(_absmax(base['tot'][f]), 1e-300) for f in FIELDS if _absmax(base['tot'][f]) > 0))
    resid = {f: base['tot'][f] - other['tot'][f] for f in base['tot']}
    known = {f: None for f in resid}
    if cls == 'cloud' and condensate:
      # F7 classifier: the residual must be the predicted condensate-loading term, field by field
      pred = _f7_predicted(grid, specs, st0, nd(profs[0]) - nd(profs[j]))
      explained = True
      for f in resid:
        want = pred.get(f, np.zeros_like(resid[f]))
        ok = M.close('cloud_class_residual_equals_F7_predicted_term' + sfx, resid[f], want, tol,
                     scale=scale[f], info=dict(info, field=f,
                                               predicted_over_scale=_absmax(want) / scale[f]))
        explained = explained and ok
      if explained:
        known = {f: ('F7' if f in pred else None) for f in resid}
        M.note('F7 predicted term / tendency scale (max)',
               max(_absmax(pred[f]) / scale[f] for f in pred))
      M.cover('F7', 'residual explained by predicted term' if explained else 'UNEXPLAINED residual')
    name = 'tendency_invariant_under_reference_temperature'
    if cls == 'cloud':
      # separate monitors so that the F7 observations do not blur the residual statistics
      name = ('cloud_class_nonzero_condensate_invariant(F7)' if condensate
              else 'cloud_class_zero_condensate_invariant')
    for f in resid:
      M.close(name + sfx, other['tot'][f], base['tot'][f], tol, scale=scale[f], known=known[f],
              info=dict(info, field=f))
    max_dT = float(np.abs(d_tref_K).max())
    M.cover('profile_pair', '|'.join(sorted([case['profiles'][0], case['profiles'][j]])))
    M.cover('max_profile_difference_K', '>=10' if max_dT >= 10 else '<10')
    if f64 and max_dT >= 10.0 and has_T and has_gradp and has_q:
      M.nontrivial(j)
    M.sample({'class': model.EQ_CLASSES[cls], 'grid': gen.grid_tag(case['grid']), 'layers': K,
              'profiles_K': [profs[0], profs[j]], 'tracers': list(tracers),
              'residual_over_scale': {f: _absmax(resid[f]) / scale[f] for f in resid}}, limit=2)
