"""C10 — equivariance under grid-step rotations and the equatorial mirror.

Metamorphic monitor T∘f = f∘T.  T is realised analytically on the modal coefficients following the
documented layouts (every (cos mλ, sin mλ) pair is rotated by the angle m·k·Δλ; the mirror
multiplies coefficient (m,l) by (−1)^(l+m); vorticity, a pseudo-scalar, changes sign under the
mirror) and is cross-checked on every grid against np.roll / np.flip of the nodal values produced
by the real Grid.to_nodal / to_modal.  f runs the real equations and integrators.  DESIGN.md §3 C10.
"""
from __future__ import annotations

import numpy as np

from vp import core, gen, model

RULE = ('cases = (equation set: dry / with-time / moist / cloud primitive equations, layered '
        'shallow water, Held-Suarez forcing) x (grid: Gauss and equiangular without poles, Real and '
        'Fast layouts incl. padded, odd/even node counts, Nyquist and aliasing node counts, T21/T31 '
        'factories) x (1..8 even/uneven sigma layers) x (random admissible state with decaying or '
        'flat spectrum, orography, tracers; hostile: zonally symmetric, mirror symmetric, content '
        'in the top wavenumber). For each, T in {rotation by 1, 2, random, nlon-1 grid steps, '
        'mirror, rotation+mirror} is applied to state, orography and tracers and f in {explicit, '
        'implicit, explicit+implicit, implicit_inverse, 1 step and n-step trajectories of SIL3 / '
        'CN-RK3 / semi-implicit leapfrog with exponential + Robert-Asselin filters, Held-Suarez '
        'explicit_terms / kt / kv / equilibrium_temperature} is compared with T(f(x)). A (case, f, T) '
        'triple is non-trivial when every prognostic field x of the state has |x - Tx| >= 0.1 |x| '
        '(not zonally symmetric for rotations, not mirror symmetric for the mirror).')
MIN_NONTRIVIAL = {'quick': 500, 'thorough': 2000}
REQUIRED_MONITORS = {'all': ['grid_symmetry_vs_roll_flip', 'equiv_explicit', 'equiv_implicit',
                             'equiv_total_tendency', 'equiv_implicit_inverse', 'equiv_one_step',
                             'equiv_trajectory', 'equiv_held_suarez', 'sw_equiv_explicit',
                             'sw_equiv_one_step', 'sw_equiv_trajectory']}
ASSUMPTIONS = ['the modal layouts are the documented ones (Real: [0,+1,-1,...], Fast: [0,(0),+1,-1,...]; '
               'positive m = cos, negative m = sin); the cross-check monitor ties this to the real '
               'to_nodal/to_modal on every grid',
               'latitude nodes/weights are symmetric about the equator to rounding (measured <=2e-14)',
               'trajectories use physical amplitudes; runs whose norm grows >10x are discarded workload']
TIMEOUT = {'quick': 1500, 'thorough': 7200}

TOLS = {'f64': {'tend': 1e-9, 'traj': 1e-7, 'grid': 1e-11},
        'f32': {'tend': 1e-3, 'traj': 3e-3, 'grid': 5e-5}}


# ------------------------------------------------------------------------------- symmetry maps
class Sym:
  """Analytic action of the grid symmetries on modal coefficients (numpy, float64)."""

  def __init__(self, grid, cfg):
    ms = tuple(grid.modal_shape)
    kinds = [gen.row_kind(grid, i) for i in range(ms[0])]
    self.ic = np.array([i for i, (m, k) in enumerate(kinds) if k == 'c' and m > 0], int)
    self.isn = np.array([i for i, (m, k) in enumerate(kinds) if k == 's' and m > 0], int)
    self.mm = np.array([kinds[i][0] for i in self.ic], float)
    m_abs = np.array([m for m, _ in kinds])
    l = np.arange(ms[1])
    self.parity = np.where((m_abs[:, None] + l[None, :]) % 2 == 0, 1.0, -1.0)
    self.nlon, self.nlat = int(cfg['nlon']), int(cfg['nlat'])
    self.ms = ms
    self.m_abs = m_abs
    self.kinds = kinds

  def rot(self, x, k):
    """Coefficients of g(λ) = f(λ − kΔλ), i.e. nodal values rolled by +k along longitude."""
    x = np.asarray(x)
    out = np.array(x, dtype=np.float64)
    phi = self.mm * (k * 2.0 * np.pi / self.nlon)
    c, s = np.cos(phi)[:, None], np.sin(phi)[:, None]
    a = np.asarray(x[..., self.ic, :], np.float64)
    b = np.asarray(x[..., self.isn, :], np.float64)
    out[..., self.ic, :] = a * c - b * s
    out[..., self.isn, :] = a * s + b * c
    return out.astype(x.dtype)

  def mirror(self, x):
    """Coefficients of g(λ, θ) = f(λ, −θ)."""
    x = np.asarray(x)
    return (np.asarray(x, np.float64) * self.parity).astype(x.dtype)

  def apply(self, x, op, pseudo=False):
    kind, k = op
    if kind in ('rot', 'rotmir'):
      x = self.rot(x, k)
    if kind in ('mir', 'rotmir'):
      x = self.mirror(x)
      if pseudo:
        x = -x
    return x

  # nodal counterparts (on the unpadded block)
  def nodal(self, z, op):
    kind, k = op
    z = np.asarray(z)[..., :self.nlon, :self.nlat]
    if kind in ('rot', 'rotmir'):
      z = np.roll(z, k, axis=-2)
    if kind in ('mir', 'rotmir'):
      z = z[..., ::-1]
    return z


PSEUDO = ('vorticity',)


def _is_struct(o):
  return hasattr(o, 'asdict') and hasattr(o, '__dataclass_fields__')


def t_obj(obj, sym, op, key=''):
  """Apply T to a state-like object: structs, tuples of structs, dicts, modal arrays; scalars pass."""
  if obj is None:
    return None
  if _is_struct(obj):
    return type(obj)(**{k: t_obj(v, sym, op, k) for k, v in obj.asdict().items()})
  if isinstance(obj, dict):
    return {k: t_obj(v, sym, op, k if key != 'tracers' else 'tracer') for k, v in obj.items()}
  if isinstance(obj, (tuple, list)):
    return tuple(t_obj(v, sym, op, key) for v in obj)
  a = np.asarray(obj)
  if a.ndim < 2:
    return obj
  return sym.apply(a, op, pseudo=key in PSEUDO)


def flat(obj, prefix=''):
  """[(name, ndarray)] of a state-like object."""
  if obj is None:
    return []
  if _is_struct(obj):
    obj = obj.asdict()
  if isinstance(obj, dict):
    out = []
    for k, v in obj.items():
      out += flat(v, f'{prefix}{k}.' if isinstance(v, dict) or _is_struct(v) else f'{prefix}{k}')
    return out
  if isinstance(obj, (tuple, list)):
    out = []
    for i, v in enumerate(obj):
      out += flat(v, f'{prefix}{i}:')
    return out
  return [(prefix.rstrip('.'), np.asarray(obj))]


def asymmetry(obj, sym, op, fields):
  """min over the named prognostic fields of |x − Tx| / |x| (0 for a symmetric field)."""
  tx = dict(flat(t_obj(obj, sym, op)))
  worst = np.inf
  for name, x in flat(obj):
    if name.split(':')[-1] not in fields or x.ndim < 2:
      continue
    n = float(np.linalg.norm(x.astype(np.float64)))
    if n == 0:
      return 0.0
    worst = min(worst, float(np.linalg.norm(x.astype(np.float64) - tx[name])) / n)
  return 0.0 if worst == np.inf else worst


class Equiv:
  """Runs f on x and on T x for every T and compares T f(x) with f(T x)."""

  def __init__(self, M, sym, ops, tols, fields, base_info):
    self.M, self.sym, self.ops, self.fields = M, sym, ops, fields
    self.info = base_info
    self.asym_cache = {}

  def asym(self, tag, obj, op):
    key = (tag, op)
    if key not in self.asym_cache:
      self.asym_cache[key] = asymmetry(obj, self.sym, op, self.fields)
    return self.asym_cache[key]

  def run(self, mon, fn, args, tol, state_tag, state_obj, scales=None, what=None):
    """Compares fn(*T(args)) with T(fn(*args)) leaf by leaf for every T; returns fn(*args).

    scales: optional {leaf name: scale}; default scale of a leaf is max|T f(x)| of that leaf.
    """
    M = self.M
    base = fn(*args)
    base_np = _np_tree(base)
    for op in self.ops:
      got = fn(*[t_obj(a, self.sym, op) for a in args])
      want = dict(flat(t_obj(base_np, self.sym, op)))
      for name, garr in flat(got):
        w = want[name]
        s = scales.get(name) if scales else None
        if s is None:
          s = float(np.max(np.abs(w))) if w.size else 0.0
          if w.ndim < 2:
            s = max(s, 1.0)
        if s == 0.0:
          s = None   # exactly-zero field (e.g. implicit vorticity): default scale of M.close
        M.close(mon, garr, w, tol, scale=s, info=dict(self.info, leaf=name, op=list(op), what=what))
      a = self.asym(state_tag, state_obj, op)
      if a >= 0.1:
        M.nontrivial(mon, what, list(op))
        M.note('asymmetry_of_counted_states_min', a, 'min')
      M.cover('f x T (comparisons of whole outputs)', f'{mon}{"/" + what if what else ""} x {op[0]}')
      M.cover('T non-trivial for the state', f'{op[0]}:{"yes" if a >= 0.1 else "no (symmetric state)"}')
    return base


def _np_tree(o):
  if isinstance(o, dict):
    return {k: _np_tree(v) for k, v in o.items()}
  if isinstance(o, (tuple, list)):
    return tuple(_np_tree(v) for v in o)
  if _is_struct(o):
    return type(o)(**{k: _np_tree(v) for k, v in o.asdict().items()})
  return np.asarray(o)


def make_ops(rng, nlon):
  kr = int(rng.integers(3, max(4, nlon - 1)))
  ks = []
  for k in (1, 2, kr, nlon - 1):
    if k % nlon != 0 and k not in ks:
      ks.append(k)
  ops = [('rot', k) for k in ks] + [('mir', 0), ('rotmir', kr)]
  return ops, kr


# ------------------------------------------------------------------------------- case lists
G = gen.grid_cfg


def _grids_structured():
  return {
      'r6.7.19x10g': G(6, 7, 19, 10),                       # with_wavenumbers(6) sizes
      'f8.9.24x12g': G(8, 9, 24, 12, impl='fast'),
      'r8.9.15x8g-aliased': G(8, 9, 15, 8),                  # products fully aliased
      'f9.10.16x9g-nyquist': G(9, 10, 16, 9, impl='fast'),   # m = nlon/2 present, odd nlat (equator node)
      'r6.7.20x14e': G(6, 7, 20, 14, 'equiangular'),
      'f8.9.24x17e': G(8, 9, 24, 17, 'equiangular', impl='fast'),
      'f8.9.25x13g-pad8': G(8, 9, 25, 13, impl='fast', bsm=8, offset=0.3),
      'r6.9.20x10g-rhomb': G(6, 9, 20, 10, offset=-1.1),
      'f8.9.26x12g-opts': G(8, 9, 26, 12, impl='fast', bsm=2, stk=True, rev=True),
      'T21r': gen.factory_cfg('T21', 'real'),
      'T21f': gen.factory_cfg('T21', 'fast'),
  }


def _cost(c):
  g = c['grid']
  size = g['nlon'] * g['nlat'] * g['L'] / (64 * 32 * 23.0)
  lay = c.get('layers', 2) / 5.0
  w = {'tend': 2.5, 'inv': 1.5, 'sil3': 7.0, 'cnrk3': 6.0, 'lf': 3.5, 'hs': 2.0}
  base = 2.0 + sum(w[f] for f in c['fs'])
  if c.get('eq') in ('moist', 'cloud'):
    base *= 1.5
  if c['kind'] == 'sw':
    base *= 0.6
  return round(base * (0.35 + 0.65 * size ** 0.7 * (0.4 + 0.6 * lay)), 2)


def _case(cid, kind, grid, fs, env='f64', **kw):
  c = dict(id=cid, kind=kind, grid=grid, fs=list(fs), env=env, **kw)
  c.setdefault('nsteps', 5)
  c['cost'] = _cost(c)
  return c


def _structured(tier):
  gs = _grids_structured()
  out = []
  pe = lambda cid, g, eq, layers, fs, **kw: out.append(
      _case(cid, 'pe', gs[g], fs, eq=eq, layers=layers, **kw))
  ALL = ('tend', 'inv', 'sil3', 'cnrk3', 'lf')
  # dry / moist on every structured grid, functions spread so that each integrator meets both layouts
  pe('dry-r6-all', 'r6.7.19x10g', 'dry', 3, ALL, uneven=True, decay=0.0, dt_s=1800.)
  pe('moist-r6-all', 'r6.7.19x10g', 'moist', 4, ALL, uneven=True, decay=1.0, dt_s=1800.,
     tracers=['specific_humidity', 'passive'])
  pe('moist-f8-sil3', 'f8.9.24x12g', 'moist', 5, ('tend', 'inv', 'sil3'), uneven=True, decay=0.0,
     dt_s=1500., tracers=['specific_humidity'])
  pe('dry-f8-cnrk3-lf', 'f8.9.24x12g', 'dry', 2, ('tend', 'cnrk3', 'lf'), uneven=False, decay=1.0,
     dt_s=1500., inv_method='blockwise')
  pe('dry-aliased-tend-top', 'r8.9.15x8g-aliased', 'dry', 3, ('tend', 'inv'), uneven=True, decay=0.0,
     top=True, inv_method='stacked')
  pe('moist-aliased-lf', 'r8.9.15x8g-aliased', 'moist', 2, ('tend', 'lf'), uneven=True, decay=0.0,
     dt_s=1500., tracers=['specific_humidity'])
  pe('dry-nyquist-sil3', 'f9.10.16x9g-nyquist', 'dry', 2, ('tend', 'inv', 'sil3'), uneven=True,
     decay=0.0, dt_s=1500.)
  pe('moist-nyquist-top', 'f9.10.16x9g-nyquist', 'moist', 3, ('tend',), uneven=False, decay=0.0,
     top=True, tracers=['specific_humidity', 'passive'])
  pe('time-equi-r6-cnrk3', 'r6.7.20x14e', 'time', 3, ('tend', 'inv', 'cnrk3'), uneven=True,
     decay=1.0, dt_s=1800.)
  pe('moist-equi-f8-sil3', 'f8.9.24x17e', 'moist', 3, ('tend', 'sil3'), uneven=True, decay=1.0,
     dt_s=1500., tracers=['specific_humidity'], filt=True)
  pe('dry-pad8-all', 'f8.9.25x13g-pad8', 'dry', 3, ('tend', 'inv', 'sil3', 'lf'), uneven=True,
     decay=0.0, dt_s=1500., scale='random')
  pe('moist-rhomb-cnrk3', 'r6.9.20x10g-rhomb', 'moist', 2, ('tend', 'inv', 'cnrk3'), uneven=True,
     decay=1.0, dt_s=1500., tracers=['specific_humidity'], matmul='sparse')
  pe('dry-opts-1layer', 'f8.9.26x12g-opts', 'dry', 1, ('tend', 'inv', 'sil3'), uneven=False,
     decay=0.0, dt_s=1500.)
  pe('moist-T21f-sil3', 'T21f', 'moist', 5, ('tend', 'inv', 'sil3'), uneven=True, decay=1.0,
     dt_s=1200., tracers=['specific_humidity'])
  pe('dry-T21r-tend', 'T21r', 'dry', 4, ('tend', 'inv'), uneven=True, decay=0.0)
  # hostile states: symmetric under one of the transformations (the other one stays non-trivial)
  pe('dry-zonal-state', 'f8.9.24x12g', 'dry', 3, ('tend', 'sil3'), uneven=True, decay=0.0,
     dt_s=1500., hostile='zonal')
  pe('moist-mirror-symmetric-state', 'r6.7.19x10g', 'moist', 3, ('tend', 'lf'), uneven=True,
     decay=0.0, dt_s=1800., hostile='msym', tracers=['specific_humidity'])
  pe('dry-flat-orography', 'r6.7.19x10g', 'dry', 2, ('tend', 'inv'), uneven=True, decay=0.0,
     oro_height=0.0)
  if tier == 'thorough':
    pe('cloud-f8-all', 'f8.9.24x12g', 'cloud', 4, ALL, uneven=True, decay=1.0, dt_s=1500.,
       tracers=list(model.EQ_TRACERS['cloud']))
    pe('moist-T21r-all', 'T21r', 'moist', 6, ALL, uneven=True, decay=1.0, dt_s=1200.,
       tracers=['specific_humidity', 'passive'])
    pe('dry-T21f-all-8layers', 'T21f', 'dry', 8, ALL, uneven=True, decay=0.0, dt_s=1200.)
    out.append(_case('dry-T31f-sil3', 'pe', gen.factory_cfg('T31', 'fast'), ('tend', 'inv', 'sil3'),
                     eq='dry', layers=5, uneven=True, decay=1.0, dt_s=900.))
    out.append(_case('moist-T31r-tend', 'pe', gen.factory_cfg('T31', 'real'), ('tend',),
                     eq='moist', layers=4, uneven=True, decay=0.0, tracers=['specific_humidity']))
    out.append(_case('moist-T42f-tend', 'pe', gen.factory_cfg('T42', 'fast'), ('tend', 'inv'),
                     eq='moist', layers=3, uneven=True, decay=0.0, tracers=['specific_humidity']))
  # shallow water
  sw = lambda cid, g, layers, fs, **kw: out.append(_case(cid, 'sw', gs[g], fs, layers=layers, **kw))
  sw('sw-r6-1layer-all', 'r6.7.19x10g', 1, ALL, decay=0.0, dt_s=1200.)
  sw('sw-f8-3layer-all', 'f8.9.24x12g', 3, ALL, decay=1.0, dt_s=900.)
  sw('sw-equi-r6-2layer', 'r6.7.20x14e', 2, ('tend', 'inv', 'lf'), decay=0.0, dt_s=1200.)
  sw('sw-pad8-2layer', 'f8.9.25x13g-pad8', 2, ('tend', 'sil3', 'lf'), decay=0.0, dt_s=900., scale='random')
  sw('sw-nyquist-top', 'f9.10.16x9g-nyquist', 2, ('tend', 'inv', 'cnrk3'), decay=0.0, dt_s=900., top=True)
  sw('sw-T21f-2layer', 'T21f', 2, ('tend', 'sil3', 'lf'), decay=1.0, dt_s=600.)
  sw('sw-no-orography', 'r8.9.15x8g-aliased', 2, ('tend', 'lf'), decay=0.0, dt_s=900., oro_height=None)
  if tier == 'thorough':
    sw('sw-T21r-4layer-all', 'T21r', 4, ALL, decay=0.0, dt_s=600.)
    out.append(_case('sw-T42f', 'sw', gen.factory_cfg('T42', 'fast'), ('tend', 'inv', 'sil3'),
                     layers=2, decay=1.0, dt_s=300.))
  # Held-Suarez forcing
  hs = lambda cid, g, layers, **kw: out.append(_case(cid, 'hs', gs[g], ('hs',), layers=layers, **kw))
  hs('hs-r6', 'r6.7.19x10g', 5, uneven=True, decay=0.0)
  hs('hs-f8', 'f8.9.24x12g', 6, uneven=True, decay=1.0)
  hs('hs-equi-f8', 'f8.9.24x17e', 4, uneven=False, decay=0.0)
  hs('hs-pad8', 'f8.9.25x13g-pad8', 5, uneven=True, decay=0.0, scale='random')
  hs('hs-T21r', 'T21r', 8, uneven=True, decay=1.0)
  return out


def _random_dyn_grid(rng, max_M):
  M = int(rng.integers(5, max_M + 1))
  L = M + int(rng.choice([0, 1, 1, 1, 3]))
  spacing = str(rng.choice(['gauss', 'gauss', 'equiangular']))
  nlon = int(rng.integers(2 * M - 2, 3 * M + 3))
  if spacing == 'gauss':
    nlat = int(rng.integers(max(4, (L + 1) // 2 + 1), (3 * L) // 2 + 3))
  else:
    nlat = int(rng.integers(L + 2, 2 * L + 6))
  impl = str(rng.choice(['real', 'fast']))
  cfg = G(M, L, nlon, nlat, spacing, offset=float(rng.choice([0.0, rng.uniform(-3, 3)])), impl=impl)
  if impl == 'fast' and rng.random() < 0.5:
    cfg['bsm'] = [None, 1, 2, 4, 8][int(rng.integers(5))]
    cfg['stk'] = [None, True, False][int(rng.integers(3))]
    cfg['rev'] = [None, True, False][int(rng.integers(3))]
  return cfg


# structured cases that only run in the thorough tier (the quick tier keeps one representative of
# every grid kind / equation / integrator / hostile state)
THOROUGH_ONLY = {'moist-aliased-lf', 'moist-rhomb-cnrk3', 'dry-opts-1layer', 'dry-T21r-tend',
                 'dry-flat-orography', 'sw-T21f-2layer', 'sw-no-orography', 'hs-T21r'}


def cases(tier, seed):
  out = _structured(tier)
  if tier == 'quick':
    out = [c for c in out if c['id'] not in THOROUGH_ONLY]
  rng = np.random.default_rng([seed, 110])
  n_rand = 8 if tier == 'quick' else 40
  for i in range(n_rand):
    g = _random_dyn_grid(rng, 10 if tier == 'quick' else 16)
    r = rng.random()
    kind = 'pe' if r < 0.65 else ('sw' if r < 0.88 else 'hs')
    layers = int(rng.integers(1, 5 if tier == 'quick' else 8))
    decay = float(rng.choice([0.0, 0.0, 1.0]))
    dt_s = float(rng.choice([600., 900., 1200.])) * min(1.0, 10.0 / g['M'])
    scale = 'random' if rng.random() < 0.25 else None
    tag = gen.grid_tag(g)
    if kind == 'hs':
      out.append(_case(f'rnd{i}-hs-{tag}', 'hs', g, ('hs',), layers=max(layers, 2), uneven=True,
                       decay=decay, scale=scale))
      continue
    integ = [str(x) for x in rng.choice(['sil3', 'cnrk3', 'lf'], size=1 if tier == 'quick' else 2,
                                        replace=False)]
    fs = ['tend'] + (['inv'] if rng.random() < 0.6 else []) + integ
    if kind == 'sw':
      out.append(_case(f'rnd{i}-sw-{tag}', 'sw', g, fs, layers=min(layers, 3), decay=decay, dt_s=dt_s,
                       scale=scale, top=bool(rng.random() < 0.3)))
      continue
    eq = str(rng.choice(['dry', 'moist', 'moist', 'time'] + (['cloud'] if tier == 'thorough' else [])))
    tr = list(model.EQ_TRACERS[eq]) + (['passive'] if rng.random() < 0.3 else [])
    out.append(_case(f'rnd{i}-{eq}-{tag}', 'pe', g, fs, eq=eq, layers=layers, uneven=bool(rng.random() < 0.8),
                     decay=decay, dt_s=dt_s, tracers=tr, scale=scale,
                     inv_method=str(rng.choice(['split', 'stacked', 'blockwise'])),
                     matmul=[None, 'dense', 'sparse'][int(rng.integers(3))],
                     filt=bool(rng.random() < 0.3), nsteps=int(rng.choice([3, 5, 5]))))
  # float32 "as shipped" pass on a subset (tendencies and one integrator each)
  f32_ids = ('dry-f8-cnrk3-lf', 'moist-equi-f8-sil3', 'sw-f8-3layer-all', 'hs-f8')
  if tier == 'thorough':
    f32_ids += ('moist-r6-all', 'dry-pad8-all')
  sub = [c for c in out if c['id'] in f32_ids]
  for c in sub:
    c32 = dict(c, id='f32-' + c['id'], env='f32')
    c32['fs'] = [f for f in c['fs'] if f in ('tend', 'inv', 'sil3', 'lf', 'hs')][:3]
    c32['cost'] = _cost(c32)
    out.append(c32)
  return out


# ------------------------------------------------------------------------------- helpers
def _grid_crosscheck(M, grid, sym, ops, rng, dtype, tol, info):
  """The analytic T equals roll/flip of nodal values through the real transforms (both directions)."""
  x = gen.rand_modal(rng, grid, (2,), dtype=dtype)
  z = np.asarray(grid.to_nodal(x))
  zs = float(np.abs(z).max())
  m_axis = np.asarray(grid.modal_axes[0])
  lim = 2 * grid.longitude_wavenumbers - (0 if gen.is_fast(grid) else 1)
  ok = all(int(m_axis[i]) == (sym.kinds[i][0] if sym.kinds[i][1] == 'c' else -sym.kinds[i][0])
           for i in range(min(lim, len(m_axis))))
  M.check('layout_matches_modal_axes', ok, info=info)
  for op in ops:
    zt = np.asarray(grid.to_nodal(sym.apply(x, op)))
    M.close('grid_symmetry_vs_roll_flip', zt[..., :sym.nlon, :sym.nlat], sym.nodal(z, op), tol,
            scale=zs, info=dict(info, op=list(op), direction='to_nodal'))
    # analysis direction on arbitrary (non band-limited) nodal data
    y = rng.standard_normal((2, sym.nlon, sym.nlat)).astype(dtype)
    c0 = np.asarray(grid.to_modal(gen.pad_nodal(y, grid)))
    c1 = np.asarray(grid.to_modal(gen.pad_nodal(np.ascontiguousarray(sym.nodal(y, op)), grid)))
    M.close('grid_symmetry_vs_roll_flip', c1, sym.apply(c0, op), tol,
            scale=float(np.abs(c0).max()), info=dict(info, op=list(op), direction='to_modal'))


def _add_top(rng, grid, arr, frac=0.3):
  """Put random content into the (normally clipped) top total wavenumber."""
  arr = np.array(arr)
  Lm1 = grid.total_wavenumbers - 1
  mask = gen.independent_mask(grid)[:, Lm1]
  nz = arr[arr != 0]
  amp = frac * (float(np.sqrt(np.mean(nz ** 2))) if nz.size else 1.0)
  arr[..., :, Lm1] = rng.standard_normal(arr.shape[:-1]) * mask * amp
  return arr


def _hostile(si, sym, how):
  """Project an SI state description onto a symmetric subspace."""
  def proj(x, pseudo):
    x = np.array(x)
    if how == 'zonal':
      x[..., sym.m_abs > 0, :] = 0
      return x
    keep = sym.parity > 0
    return x * (~keep if pseudo else keep)
  out = dict(si)
  for k in ('vorticity', 'divergence', 'temperature', 'lnps', 'potential'):
    if k in out:
      out[k] = proj(out[k], k == 'vorticity')
  out['tracers'] = {k: proj(v, False) for k, v in si.get('tracers', {}).items()}
  return out


def _scale_desc(case, rng):
  if case.get('scale') == 'random':
    d = model.random_scale_desc(rng)
    # keep the non-dimensional radius in a moderate range (the property is about symmetry, not scales)
    d['length_m'] = float(10 ** rng.uniform(5.5, 7.5))
    return d
  return case.get('scale')


def _blown(M, s0, s1, what):
  n0 = max(model.state_norm(x) for x in (s0 if isinstance(s0, tuple) else (s0,)))
  n1 = max(model.state_norm(x) for x in (s1 if isinstance(s1, tuple) else (s1,)))
  if not np.isfinite(n1) or n1 > 10 * n0:
    M.discard(f'trajectory norm grew >10x ({what})')
    return True
  return False


def _trajectories(M, E, pre, step_fns, x0_for, oro, nsteps, tols, tag_state):
  """One step and n steps of each integrator; x0_for(name) gives the initial (pair of) state(s)."""
  for name, fn in step_fns.items():
    x0 = x0_for(name)

    def one(x, o, fn=fn):
      return fn(x, o)

    def many(x, o, fn=fn):
      for _ in range(nsteps):
        x = fn(x, o)
      return x
    E.run(pre + 'equiv_one_step', one, (x0, oro), tols['traj'], tag_state, x0, what=name,
          scales=_state_scales(x0))
    xn = many(x0, oro)
    if _blown(M, x0, xn, name):
      continue
    E.run(pre + 'equiv_trajectory', many, (x0, oro), tols['traj'], tag_state, x0,
          what=f'{name}', scales=_state_scales(x0))
    M.cover('trajectory lengths', f'{name}:{nsteps}')


def _state_scales(x):
  """Per-leaf scale for step outputs: the magnitude of the corresponding input field."""
  out = {}
  for name, a in flat(x):
    s = float(np.max(np.abs(a))) if a.size else 0.0
    if a.ndim < 2:
      s = None   # scalars (sim_time): default scale max(|value|, 1)
    out[name] = s if s else None
  return out


def _sum_scales(e, i, s):
  out = {}
  for (n, a), (_, b), (_, c) in zip(flat(e), flat(i), flat(s)):
    v = max(float(np.max(np.abs(np.asarray(a)))) if np.size(a) else 0.0,
            float(np.max(np.abs(np.asarray(b)))) if np.size(b) else 0.0,
            float(np.max(np.abs(np.asarray(c)))) if np.size(c) else 0.0)
    out[n] = v if v > 0 else None
  return out



class _Secondary:
  """Monitor proxy for the float32 "as shipped" pass: same oracles, monitor names prefixed with
  'f32/' so that the evidence keeps the deciding float64 floors and the float32 floors apart."""

  def __init__(self, M):
    self._M = M

  def __getattr__(self, name):
    attr = getattr(self._M, name)
    if name in ('close', 'small', 'zero', 'same', 'check', 'le', 'finite'):
      return lambda mon, *a, **k: attr('f32/' + mon, *a, **k)
    return attr


# ------------------------------------------------------------------------------- run
def run(case, M):
  if not M.env.startswith('f64'):
    M = _Secondary(M)
  if case['kind'] == 'pe':
    return _run_pe(case, M)
  if case['kind'] == 'sw':
    return _run_sw(case, M)
  if case['kind'] == 'hs':
    return _run_hs(case, M)
  raise core.HarnessError(f'unknown case kind {case["kind"]}')


def _common(case, M):
  f64 = M.env.startswith('f64')
  dtype = np.float64 if f64 else np.float32
  tols = TOLS['f64' if f64 else 'f32']
  rng = M.rng()
  return f64, dtype, tols, rng


def _run_pe(case, M):
  import jax  # pylint: disable=import-outside-toplevel
  from dinosaur import time_integration as ti  # pylint: disable=import-outside-toplevel
  f64, dtype, tols, rng = _common(case, M)
  cfg = case['grid']
  eqk = case['eq']
  layers = case['layers']
  sdesc = _scale_desc(case, rng)
  specs = model.make_specs(sdesc)
  bnd = gen.sigma_boundaries(rng, layers, uneven=case.get('uneven', True))
  coords = model.make_coords(cfg, bnd, specs)
  grid = coords.horizontal
  sym = Sym(grid, cfg)
  ops, kr = make_ops(rng, sym.nlon)
  info = {'grid': gen.grid_tag(cfg), 'eq': eqk, 'layers': layers, 'env': M.env}
  _grid_crosscheck(M, grid, sym, ops, rng, dtype, tols['grid'], info)

  tracers = tuple(case.get('tracers') or model.EQ_TRACERS[eqk])
  si = model.phys_state_si(rng, grid, layers, decay=case.get('decay', 1.0), tracers=tracers)
  si2 = model.phys_state_si(rng, grid, layers, decay=case.get('decay', 1.0), tracers=tracers)
  if case.get('hostile'):
    si, si2 = _hostile(si, sym, case['hostile']), _hostile(si2, sym, case['hostile'])
  with_time = eqk != 'dry'
  state = _strong_time(model.to_state(si, specs, with_time=with_time, dtype=dtype), dtype)
  state2 = _strong_time(model.to_state(si2, specs, with_time=with_time, dtype=dtype), dtype)
  if case.get('top'):
    d = state.asdict()
    for k in ('vorticity', 'divergence', 'temperature_variation', 'log_surface_pressure'):
      d[k] = _add_top(rng, grid, d[k]).astype(dtype)
    d['tracers'] = {k: _add_top(rng, grid, v).astype(dtype) for k, v in d['tracers'].items()}
    state = type(state)(**d)
  oh = case.get('oro_height', 2500.0)
  oro_si = model.orography_si(rng, grid, lmax=min(8, grid.total_wavenumbers - 2), height=oh)
  if case.get('hostile'):
    oro_si = _hostile({'lnps': oro_si}, sym, case['hostile'])['lnps']
  oro = model.nondim_orography(oro_si, specs, dtype)
  tref = model.tref_profile(rng, layers, str(rng.choice(['random', 'tropopause', 'constant', 'linear', 'cooling', 'isothermal_top'])),
                            centers=(bnd[1:] + bnd[:-1]) / 2)
  eqkw = {}
  if case.get('matmul'):
    eqkw['vertical_matmul_method'] = case['matmul']
  M.cover('equation x layout x spacing', f"{eqk} x {cfg['impl']} x {cfg['spacing']}")
  M.cover('layers', f"{layers}{'u' if case.get('uneven', True) and layers > 1 else 'e'}")
  M.cover('state kind', case.get('hostile') or ('top-wavenumber' if case.get('top') else f"decay={case.get('decay')}"))

  def eqn(o):
    return model.make_eq(eqk, tref, o, coords, specs, **eqkw)

  fields = ('vorticity', 'divergence', 'temperature_variation')
  E = Equiv(M, sym, ops, tols, fields, info)
  fs = case['fs']
  if 'tend' in fs:
    f_exp = jax.jit(lambda s, o: eqn(o).explicit_terms(s))
    f_imp = jax.jit(lambda s, o: eqn(o).implicit_terms(s))
    e0 = E.run('equiv_explicit', f_exp, (state, oro), tols['tend'], 's0', state)
    i0 = E.run('equiv_implicit', f_imp, (state, oro), tols['tend'], 's0', state)
    f_sum = lambda s, o: f_exp(s, o) + f_imp(s, o)
    E.run('equiv_total_tendency', f_sum, (state, oro), tols['tend'], 's0', state,
          scales=_sum_scales(e0, i0, e0 + i0))
    M.finite('finite_outputs', [e0, i0])
  dt = float(specs.nondimensionalize(case.get('dt_s', 1200.0) * _units().s))
  if 'inv' in fs:
    meth = case.get('inv_method')
    for eta in (0.5 * dt, dt):
      if meth and eqk == 'dry':
        f_inv = jax.jit(lambda s, o, eta=eta: eqn(o).implicit_inverse(s, eta, method=meth))
      else:
        f_inv = jax.jit(lambda s, o, eta=eta: eqn(o).implicit_inverse(s, eta))
      E.run('equiv_implicit_inverse', f_inv, (state, oro), tols['tend'], 's0', state,
            what=(meth if eqk == 'dry' and meth else 'split'), scales=_state_scales(state))
  steps = {}
  filt = [ti.exponential_step_filter(grid, dt)] if case.get('filt') else []
  for name in ('sil3', 'cnrk3'):
    if name in fs:
      integ = {'sil3': ti.imex_rk_sil3, 'cnrk3': ti.crank_nicolson_rk3}[name]
      steps[name + ('+expfilter' if filt else '')] = jax.jit(
          lambda s, o, integ=integ: ti.step_with_filters(integ(eqn(o), dt), filt)(s))
  if 'lf' in fs:
    def lf(pair, o):
      step = ti.semi_implicit_leapfrog(eqn(o), dt, 0.5)
      flt = [ti.exponential_leapfrog_step_filter(grid, dt), ti.robert_asselin_leapfrog_filter(0.05)]
      return ti.step_with_filters(step, flt)(pair)
    steps['leapfrog+exp+RA'] = jax.jit(lf)
  if steps:
    cur = state * 0.9 + state2 * 0.1   # tree_math arithmetic on the real State classes
    pair = (state, type(state)(**{k: _np_tree(v) for k, v in cur.asdict().items()}))
    x0_for = lambda name: pair if name.startswith('leapfrog') else state
    _trajectories(M, E, '', steps, x0_for, oro, case.get('nsteps', 5), tols, 's0')
  M.sample({'grid': cfg, 'eq': eqk, 'layers': layers, 'ops': [list(o) for o in ops],
            'functions': fs, 'asymmetry(rot1, mirror)': [E.asym('s0', state, ops[0]),
                                                         E.asym('s0', state, ('mir', 0))]})


def _strong_time(state, dtype):
  """sim_time as a strongly typed 0-d array, so that step inputs and outputs share one jit signature."""
  if not hasattr(state, 'sim_time'):
    return state
  d = state.asdict()
  d['sim_time'] = np.asarray(d['sim_time'], dtype)
  return type(state)(**d)


def _units():
  from dinosaur import scales  # pylint: disable=import-outside-toplevel
  return scales.units


def _run_sw(case, M):
  import jax  # pylint: disable=import-outside-toplevel
  from dinosaur import coordinate_systems as cs, layer_coordinates as lc  # pylint: disable=import-outside-toplevel
  from dinosaur import shallow_water as sw, time_integration as ti  # pylint: disable=import-outside-toplevel
  f64, dtype, tols, rng = _common(case, M)
  u = _units()
  cfg = dict(case['grid'])
  n = case['layers']
  sdesc = _scale_desc(case, rng)
  dens = 997.0 * 0.9 ** np.arange(n)[::-1]
  specs = sw.ShallowWaterSpecs.from_si(densities=dens * u.kg / u.m ** 3, scale=model.make_scale(sdesc))
  cfg['radius'] = float(specs.radius)
  grid = gen.make_grid(cfg)
  coords = cs.CoordinateSystem(grid, lc.LayerCoordinates(n))
  sym = Sym(grid, cfg)
  ops, kr = make_ops(rng, sym.nlon)
  info = {'grid': gen.grid_tag(cfg), 'eq': 'shallow_water', 'layers': n, 'env': M.env}
  _grid_crosscheck(M, grid, sym, ops, rng, dtype, tols['grid'], info)
  nd = lambda x, unit: np.asarray(specs.nondimensionalize(x * unit)).astype(dtype)

  def mk_state():
    si = model.phys_state_si(rng, grid, n, decay=case.get('decay', 1.0), wind=30.0, div_wind=3.0)
    pot = gen.rand_modal(rng, grid, (n,), lmax=grid.total_wavenumbers - 2, decay=case.get('decay', 1.0))
    pot *= 1500.0 / max(float(np.abs(np.asarray(grid.to_nodal(pot))).max()), 1e-300)
    d = dict(vorticity=si['vorticity'], divergence=si['divergence'], potential=pot)
    if case.get('hostile'):
      d = {k: v for k, v in _hostile(d, sym, case['hostile']).items() if k != 'tracers'}
    return d
  s_si, s2_si = mk_state(), mk_state()
  if case.get('top'):
    s_si = {k: _add_top(rng, grid, v) for k, v in s_si.items()}
  mk = lambda d: sw.State(vorticity=nd(d['vorticity'], 1 / u.s), divergence=nd(d['divergence'], 1 / u.s),
                          potential=nd(d['potential'], u.m ** 2 / u.s ** 2))
  state, state2 = mk(s_si), mk(s2_si)
  oh = case.get('oro_height', 1200.0)
  has_oro = oh is not None
  oro = nd(9.80616 * model.orography_si(rng, grid, lmax=min(8, grid.total_wavenumbers - 2), height=oh or 0.0),
           u.m ** 2 / u.s ** 2)
  refpot = nd(9.80616 * np.linspace(3000.0, 8000.0, n) if n > 1 else np.array([9.80616 * 6000.0]),
              u.m ** 2 / u.s ** 2)
  dt = float(specs.nondimensionalize(case.get('dt_s', 900.0) * u.s))
  M.cover('equation x layout x spacing', f"shallow_water x {cfg['impl']} x {cfg['spacing']}")
  M.cover('layers', f'sw{n}')
  M.cover('state kind', 'top-wavenumber' if case.get('top') else f"decay={case.get('decay')}")

  def eqn(o):
    return sw.ShallowWaterEquations(coords, specs, o if has_oro else None, refpot)

  E = Equiv(M, sym, ops, tols, ('vorticity', 'divergence', 'potential'), info)
  fs = case['fs']
  if 'tend' in fs:
    f_exp = jax.jit(lambda s, o: eqn(o).explicit_terms(s))
    f_imp = jax.jit(lambda s, o: eqn(o).implicit_terms(s))
    e0 = E.run('sw_equiv_explicit', f_exp, (state, oro), tols['tend'], 's0', state)
    i0 = E.run('sw_equiv_implicit', f_imp, (state, oro), tols['tend'], 's0', state)
    E.run('sw_equiv_total_tendency', lambda s, o: f_exp(s, o) + f_imp(s, o), (state, oro),
          tols['tend'], 's0', state, scales=_sum_scales(e0, i0, e0 + i0))
    M.finite('finite_outputs', [e0, i0])
  if 'inv' in fs:
    for eta in (0.5 * dt, 2 * dt):
      f_inv = jax.jit(lambda s, o, eta=eta: eqn(o).implicit_inverse(s, eta))
      E.run('sw_equiv_implicit_inverse', f_inv, (state, oro), tols['tend'], 's0', state,
            scales=_state_scales(state))
  steps = {}
  for name in ('sil3', 'cnrk3'):
    if name in fs:
      integ = {'sil3': ti.imex_rk_sil3, 'cnrk3': ti.crank_nicolson_rk3}[name]
      steps[name] = jax.jit(lambda s, o, integ=integ: integ(eqn(o), dt)(s))
  if 'lf' in fs:
    def lf(pair, o):
      step = sw.shallow_water_leapfrog_step(coords, dt, specs, refpot, o if has_oro else None, 0.5)
      return ti.step_with_filters(step, sw.default_filters(grid, dt))(pair)
    steps['leapfrog+exp+RA'] = jax.jit(lf)
  if steps:
    cur = state * 0.9 + state2 * 0.1
    pair = (state, sw.State(**{k: np.asarray(v) for k, v in cur.asdict().items()}))
    x0_for = lambda name: pair if name.startswith('leapfrog') else state
    _trajectories(M, E, 'sw_', steps, x0_for, oro, case.get('nsteps', 5), tols, 's0')
  M.sample({'grid': cfg, 'eq': 'shallow_water', 'layers': n, 'ops': [list(o) for o in ops], 'functions': fs})


def _run_hs(case, M):
  import jax  # pylint: disable=import-outside-toplevel
  from dinosaur import held_suarez as hs, primitive_equations as pe  # pylint: disable=import-outside-toplevel
  f64, dtype, tols, rng = _common(case, M)
  u = _units()
  cfg = case['grid']
  layers = case['layers']
  specs = model.make_specs(_scale_desc(case, rng))
  bnd = gen.sigma_boundaries(rng, layers, uneven=case.get('uneven', True))
  coords = model.make_coords(cfg, bnd, specs)
  grid = coords.horizontal
  sym = Sym(grid, cfg)
  ops, kr = make_ops(rng, sym.nlon)
  info = {'grid': gen.grid_tag(cfg), 'eq': 'held_suarez', 'layers': layers, 'env': M.env}
  _grid_crosscheck(M, grid, sym, ops, rng, dtype, tols['grid'], info)
  si = model.phys_state_si(rng, grid, layers, decay=case.get('decay', 1.0), dT=25.0, dlnps=0.08)
  state = model.to_state(si, specs, with_time=False, dtype=dtype)
  tref_K = model.tref_profile(rng, layers, 'tropopause', centers=(bnd[1:] + bnd[:-1]) / 2)
  tref = np.asarray(specs.nondimensionalize(tref_K * u.degK))
  forcing = hs.HeldSuarezForcing(coords, specs, tref)
  M.cover('equation x layout x spacing', f"held_suarez x {cfg['impl']} x {cfg['spacing']}")
  E = Equiv(M, sym, ops, tols, ('vorticity', 'divergence', 'temperature_variation'), info)
  f_hs = jax.jit(forcing.explicit_terms)
  out = E.run('equiv_held_suarez', f_hs, (state,), tols['tend'], 's0', state, what='explicit_terms')
  M.finite('finite_outputs', out)
  # nodal-space members: kv, kt depend on latitude only; equilibrium temperature is pointwise
  nlon, nlat = sym.nlon, sym.nlat
  kt = np.broadcast_to(np.asarray(forcing.kt()), (layers,) + tuple(grid.nodal_shape))[..., :nlon, :nlat]
  kv = np.asarray(forcing.kv())
  M.check('hs_kv_depends_on_level_only', kv.shape == (layers, 1, 1), info=info)
  ps = np.exp(np.asarray(grid.to_nodal(state.log_surface_pressure)))
  teq = np.asarray(forcing.equilibrium_temperature(ps))[..., :nlon, :nlat]
  clamp = float(np.mean(teq <= float(forcing.minT) * (1 + 1e-12)))
  M.note('hs_clamped_fraction_max', clamp)
  M.note('hs_clamped_fraction_min', clamp, 'min')
  for op in ops:
    M.close('equiv_held_suarez', sym.nodal(kt, op), kt, tols['tend'], scale=float(np.abs(kt).max()),
            info=dict(info, what='kt invariant', op=list(op)))
    pst = gen.pad_nodal(np.ascontiguousarray(sym.nodal(ps, op)), grid).astype(ps.dtype)
    if pst.shape != ps.shape:
      pst = pst.reshape(ps.shape)
    pst = np.where(pst == 0, 1.0, pst)  # padding: any positive pressure
    teq_t = np.asarray(forcing.equilibrium_temperature(pst))[..., :nlon, :nlat]
    M.close('equiv_held_suarez', teq_t, sym.nodal(teq, op), tols['tend'],
            scale=float(np.abs(teq).max()), info=dict(info, what='equilibrium_temperature', op=list(op)))
  M.sample({'grid': cfg, 'eq': 'held_suarez', 'layers': layers, 'clamped_fraction': clamp})
