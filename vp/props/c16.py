"""C16 - conservative regridding: constants, bounds, integrals, missing values.

Weight-matrix invariants + conservation monitor + NaN-propagation oracle, horizontally
(`horizontal_interpolation.ConservativeRegridder`, `conservative_{latitude,longitude}_weights`)
and vertically (`vertical_interpolation.conservative_regrid_weights`, `regrid_hybrid_to_sigma`,
`ConservativeRegridder`).  The reference is `vp/refs/overlap_ref.py` (common-refinement overlaps
written from the documented cell-bound conventions).  See DESIGN.md §3 C16.
"""
from __future__ import annotations

import numpy as np

from vp import core
from vp.refs import overlap_ref as R

RULE = ('horizontal cases = (source grid, target grid) pairs: structured edge list (equal, shifted, '
        'nested, coarser, finer, poles, minimal node counts, <=3 longitude nodes = known finding F8) + '
        'seeded random stream (nlon 4..96, nlat 2..64, three latitude spacings, longitude offsets in '
        '[-10,10] rad); per pair ONE batched call carries random fields, a constant, all separable '
        'one-hot fields (complete basis of the weight matrices; all nlon*nlat one-hots on small '
        'grids) and 9 NaN patterns, for skipna False and True. Vertical cases = (ECMWF137 | UFS127 | '
        'synthetic monotone hybrid) x (1..32 sigma layers: equidistant, uneven, to_approx_sigma_coords) '
        'x surface-pressure map in 500..1080 hPa, every column checked against the reference, plus '
        'direct conservative_regrid_weights calls on random bound sets (partially / not covered '
        'rows). A case is non-trivial if the two grids differ (or the field is not constant), at '
        'least one weight row has >=2 positive entries and the deciding monitors were evaluated; '
        'relation (coarser/finer/...), spacing pair, NaN pattern and coverage class are in '
        'coverage_tables.')
MIN_NONTRIVIAL = {'quick': 30, 'thorough': 200}
REQUIRED_MONITORS = {'all': [
    'lon_weights_equal_overlap_ref', 'lat_weights_equal_overlap_ref',
    'lon_weights_rows_sum_to_one', 'lat_weights_rows_sum_to_one',
    'lon_weights_nonnegative', 'lat_weights_nonnegative',
    'effective_lon_weights_equal_ref', 'effective_lat_weights_equal_ref',
    'constant_reproduced', 'output_within_input_range', 'integral_conserved',
    'regrid_equals_ref_weighted_mean',
    'nan_propagated_where_overlap(skipna=False)', 'finite_value_where_no_nan_overlap(skipna=False)',
    'nan_iff_all_overlapping_nan(skipna=True)', 'renormalised_mean(skipna=True)',
    'v_weights_equal_overlap_ref', 'v_weights_rows_sum_to_one', 'v_weights_nonnegative',
    'v_regrid_equals_ref', 'v_constant_reproduced', 'v_output_within_input_range',
    'v_integral_conserved_over_covered_range', 'v_regridder_class_same_as_function']}
ASSUMPTIONS = [
    'cell bounds: latitude = midpoints between centres closed by the poles, longitude = midpoints '
    'between cyclic neighbours, vertical = the listed boundaries (a/ps + b for hybrid levels)',
    'skipna=False: target cells whose NaN-overlap fraction is in (0, 1e-3] are not asserted '
    '(documented isclose(rtol=1e-3) tolerance); vertical rows with coverage < 1e-9 are not asserted',
    'grids with <= 3 longitude nodes: longitude-dependent oracles are reported under known finding F8',
    'float32 pass: comparisons with the float64 reference use 2e-4 x (1 + 0.01/target cell measure); '
    'row sums, constants, range and conservation use 1e-5']
TIMEOUT = {'quick': 1500, 'thorough': 5400}

TOL64 = 1e-12
TOL32 = 1e-5          # relations that do not see the rounding of the bounds
TOL32_REF = 2e-4      # comparisons against the float64 reference (bounds are rounded to float32)
SPACINGS = ('gauss', 'equiangular', 'equiangular_with_poles')


# =============================================================================== case lists
def _g(nlon, nlat, spacing='gauss', offset=0.0):
  return {'nlon': int(nlon), 'nlat': int(nlat), 'spacing': spacing, 'offset': float(offset)}


def _tag(g):
  return f"{g['nlon']}x{g['nlat']}{g['spacing'][0]}{'p' if g['spacing'].endswith('poles') else ''}" \
         f"{'o' if g['offset'] else ''}"


def _structured_h():
  dl = lambda n: 2 * np.pi / n
  out = [
      # equal grids (identity), shifted copies
      (_g(8, 4), _g(8, 4)), (_g(16, 9, 'equiangular', 0.4), _g(16, 9, 'equiangular', 0.4)),
      (_g(12, 6, 'gauss', 0.0), _g(12, 6, 'gauss', 0.1)),
      (_g(12, 7, 'equiangular_with_poles', -2.0), _g(12, 7, 'equiangular_with_poles', 5.5)),
      # exactly nested (coincident bounds), both directions
      (_g(16, 8, 'equiangular', 0.0), _g(8, 4, 'equiangular', 0.5 * dl(16))),
      (_g(8, 4, 'equiangular', 0.5 * dl(16)), _g(16, 8, 'equiangular', 0.0)),
      (_g(24, 12, 'equiangular', 0.3), _g(8, 4, 'equiangular', 0.3 + dl(24))),
      (_g(6, 3, 'equiangular', 0.0), _g(24, 12, 'equiangular', -1.5 * dl(24))),
      # half-cell shift, offsets beyond one period
      (_g(10, 5, 'gauss', 0.0), _g(10, 5, 'gauss', 0.5 * dl(10))),
      (_g(9, 5, 'gauss', 7.0), _g(11, 6, 'equiangular', -9.5)),
      (_g(20, 10, 'gauss', 2 * np.pi), _g(7, 3, 'gauss', -2 * np.pi)),
      # minimal node counts
      (_g(4, 2), _g(4, 2, 'equiangular')), (_g(4, 2, 'equiangular_with_poles'), _g(5, 3)),
      (_g(5, 2, 'equiangular', 1.0), _g(4, 2, 'equiangular_with_poles', 0.2)),
      (_g(64, 2), _g(4, 33, 'equiangular_with_poles')),
      # spacing cross products, coarser / finer
      (_g(32, 16), _g(12, 7, 'equiangular_with_poles', 0.2)),
      (_g(12, 7, 'equiangular_with_poles', 0.2), _g(32, 16)),
      (_g(30, 15, 'equiangular', 0.1), _g(21, 13, 'gauss', 3.0)),
      (_g(17, 33, 'equiangular_with_poles'), _g(40, 8, 'gauss', 0.05)),
      (_g(64, 32), _g(96, 64, 'equiangular', 1.3)), (_g(96, 64, 'gauss', 0.7), _g(48, 24)),
      (_g(96, 48, 'equiangular'), _g(13, 64, 'gauss', 0.9)),
      # equal numbers of latitude rows but different latitude spacing (no shortcut may key on counts)
      (_g(16, 8, 'gauss'), _g(16, 8, 'equiangular')),
      (_g(12, 9, 'equiangular', 0.2), _g(20, 9, 'equiangular_with_poles', 0.3)),
      (_g(10, 6, 'equiangular_with_poles'), _g(10, 6, 'gauss', 1.1)),
  ]
  return out


def _structured_f8():
  # the first one is the reproducing case of known finding F8
  return [(_g(3, 4), _g(8, 4, 'gauss', 0.3)), (_g(8, 4), _g(3, 3, 'equiangular', 1.32)),
          (_g(2, 4, 'equiangular'), _g(6, 3)), (_g(6, 4), _g(1, 2, 'equiangular'))]


def _rand_pair(rng):
  kind = str(rng.choice(['coarser', 'finer', 'nonnested', 'nonnested', 'equal', 'nested', 'shifted']))
  sp_s, sp_t = (str(rng.choice(SPACINGS)) for _ in range(2))
  off = lambda: float(rng.choice([0.0, rng.uniform(-10, 10), rng.uniform(0, 2 * np.pi)]))
  big = rng.random() < 0.35
  hi_lon, hi_lat = (96, 64) if big else (40, 24)
  nlon_s, nlat_s = int(rng.integers(4, hi_lon + 1)), int(rng.integers(2, hi_lat + 1))
  if kind == 'coarser':
    nlon_t, nlat_t = int(rng.integers(4, nlon_s + 1)), int(rng.integers(2, nlat_s + 1))
  elif kind == 'finer':
    nlon_t, nlat_t = int(rng.integers(nlon_s, 97)), int(rng.integers(nlat_s, 65))
  elif kind in ('equal', 'shifted'):
    nlon_t, nlat_t, sp_t = nlon_s, nlat_s, sp_s
  elif kind == 'nested':
    k = int(rng.integers(2, 5))
    nlon_t, nlat_t = max(4, nlon_s // k), max(2, nlat_s // k)
    nlon_s, nlat_s = nlon_t * k, nlat_t * int(rng.integers(1, 4))
    nlat_s = min(nlat_s, 64)
    nlon_s = min(nlon_s, 96)
    if nlon_s % nlon_t:
      nlon_s = nlon_t
    sp_s = sp_t = 'equiangular'
  else:
    nlon_t, nlat_t = int(rng.integers(4, hi_lon + 1)), int(rng.integers(2, hi_lat + 1))
  o_s = off()
  if kind == 'equal':
    o_t = o_s
  elif kind == 'nested':
    k = nlon_s // nlon_t
    o_t = o_s + 0.5 * (k - 1) * 2 * np.pi / nlon_s + int(rng.integers(-3, 4)) * 2 * np.pi / nlon_s
  else:
    o_t = off()
  s, t = _g(nlon_s, nlat_s, sp_s, o_s), _g(nlon_t, nlat_t, sp_t, o_t)
  if rng.random() < 0.5 and kind in ('coarser', 'finer', 'nested'):
    pass
  return kind, s, t


def _rand_f8(rng):
  small = _g(int(rng.integers(1, 4)), int(rng.integers(2, 9)), str(rng.choice(SPACINGS)),
             float(rng.choice([0.0, rng.uniform(-7, 7)])))
  other = _g(int(rng.integers(1, 13)), int(rng.integers(2, 9)), str(rng.choice(SPACINGS)),
             float(rng.choice([0.0, rng.uniform(-7, 7)])))
  return (small, other) if rng.random() < 0.5 else (other, small)


def _hcost(s, t):
  return 1.0 + (s['nlon'] * s['nlat'] * (s['nlon'] + s['nlat']) + t['nlon'] * t['nlat'] * 40) / 4e5


def cases(tier, seed):
  out = []
  rng = np.random.default_rng([seed, 116])
  quick = tier == 'quick'
  # ---- horizontal
  pairs = [('structured', s, t) for s, t in _structured_h()]
  if quick:
    pairs = pairs[:16] + pairs[19:21] + pairs[-3:]
  for _ in range(12 if quick else 160):
    pairs.append(_rand_pair(rng))
  for i, (kind, s, t) in enumerate(pairs):
    props = i % 5 == 0
    out.append({'id': f'h{i}-{_tag(s)}-{_tag(t)}', 'kind': 'h', 'relation': kind, 'src': s, 'tgt': t,
                'props': bool(props), 'env': 'f64', 'cost': _hcost(s, t) * (1.5 if props else 1.0)})
  f8 = _structured_f8()[:2 if quick else 4] + [_rand_f8(rng) for _ in range(2 if quick else 16)]
  for i, (s, t) in enumerate(f8):
    out.append({'id': f'f8-{i}-{_tag(s)}-{_tag(t)}', 'kind': 'h', 'relation': 'tiny(F8)', 'src': s,
                'tgt': t, 'props': i == 0, 'env': 'f64', 'cost': 1.5})
  sub = pairs[1::5] if quick else pairs[1::4]
  for i, (kind, s, t) in enumerate(sub):
    out.append({'id': f'h32-{i}-{_tag(s)}-{_tag(t)}', 'kind': 'h', 'relation': kind, 'src': s,
                'tgt': t, 'props': i % 4 == 0, 'env': 'f32', 'cost': _hcost(s, t)})
  # ---- vertical: regrid_hybrid_to_sigma / ConservativeRegridder
  vcases = []
  hybs = ['ECMWF137', 'UFS127', 'synthetic']
  struct_v = [('ECMWF137', 1, 'equidistant'), ('UFS127', 1, 'equidistant'), ('ECMWF137', 32, 'uneven'),
              ('UFS127', 32, 'approx'), ('ECMWF137', 8, 'approx'), ('synthetic', 5, 'uneven'),
              ('synthetic', 32, 'equidistant'), ('UFS127', 12, 'thin_top'), ('synthetic', 3, 'thin_top')]
  for h, n, k in struct_v:
    vcases.append({'hyb': h, 'nsig': n, 'sig': k})
  for _ in range(4 if quick else 60):
    vcases.append({'hyb': str(rng.choice(hybs, p=[0.3, 0.3, 0.4])), 'nsig': int(rng.integers(1, 33)),
                   'sig': str(rng.choice(['equidistant', 'uneven', 'uneven', 'approx', 'thin_top']))})
  for i, v in enumerate(vcases):
    nx, ny = (int(rng.integers(1, 5)), int(rng.integers(1, 6)))
    c = {'id': f"v{i}-{v['hyb']}-{v['nsig']}{v['sig']}", 'kind': 'v', **v, 'nx': nx, 'ny': ny,
         'sub': int(rng.integers(1 << 30)), 'env': 'f64', 'cost': 1.0 + 0.01 * nx * ny * v['nsig']}
    out.append(c)
    if i % 4 == 1:
      out.append({**c, 'id': 'v32-' + c['id'][1:], 'env': 'f32'})
  for order in ('fwd', 'rev'):
    out.append({'id': f'v-siblings-{order}', 'kind': 'v', 'hyb': 'siblings', 'order': order, 'nsig': 5,
                'sig': 'uneven', 'nx': 3, 'ny': 2, 'sub': 4242, 'env': 'f64', 'cost': 3.0})
  # ---- vertical: direct weight matrices on random bound sets
  for i in range(4 if quick else 24):
    out.append({'id': f'vw{i}', 'kind': 'vw', 'n': 8 if quick else 12, 'env': 'f64' if i % 5 else 'f32',
                'cost': 1.0})
  return out


# =============================================================================== helpers
def _mk_grid(g):
  from dinosaur import spherical_harmonic as sh  # pylint: disable=import-outside-toplevel
  return sh.Grid(longitude_wavenumbers=0, total_wavenumbers=0, longitude_nodes=g['nlon'],
                 latitude_nodes=g['nlat'], latitude_spacing=g['spacing'],
                 longitude_offset=g['offset'])


def _rowfac(measure):
  """Rounding of a cell bound (a few ulp) changes a normalised weight by ulp / cell measure."""
  return 1.0 + 1e-2 / np.maximum(np.asarray(measure, dtype=np.float64), 1e-300)


def _nan_patterns(rng, nlon, nlat):
  """{name: bool mask (nlon, nlat)} of missing source cells."""
  P = {}
  m = np.zeros((nlon, nlat), bool)
  m[rng.integers(nlon), rng.integers(nlat)] = True
  P['single_cell'] = m
  m = np.zeros((nlon, nlat), bool)
  m[rng.integers(nlon), :] = True
  P['meridian_row'] = m
  m = np.zeros((nlon, nlat), bool)
  m[:, rng.integers(nlat)] = True
  P['latitude_row'] = m
  m = np.zeros((nlon, nlat), bool)
  w, h = int(rng.integers(1, max(2, nlon // 2 + 1))), int(rng.integers(1, max(2, nlat // 2 + 1)))
  i0, j0 = int(rng.integers(nlon)), int(rng.integers(0, nlat - h + 1))
  m[(i0 + np.arange(w)) % nlon, j0:j0 + h] = True     # wraps around in longitude
  P['block'] = m
  m = np.zeros((nlon, nlat), bool)
  k = int(rng.integers(1, max(2, nlat // 3 + 1)))
  if rng.random() < 0.5:
    m[:, :k] = True
  else:
    m[:, nlat - k:] = True
  P['polar_cap'] = m
  P['scatter30'] = rng.random((nlon, nlat)) < 0.3
  m = np.ones((nlon, nlat), bool)
  m[rng.integers(nlon), rng.integers(nlat)] = False
  P['all_but_one'] = m
  m = np.ones((nlon, nlat), bool)
  w, h = int(rng.integers(1, max(2, nlon // 2 + 1))), int(rng.integers(1, max(2, nlat // 2 + 1)))
  i0, j0 = int(rng.integers(nlon)), int(rng.integers(0, nlat - h + 1))
  m[(i0 + np.arange(w)) % nlon, j0:j0 + h] = False
  P['all_but_block'] = m
  P['all'] = np.ones((nlon, nlat), bool)
  return P


# =============================================================================== horizontal
def _run_h(case, M):
  import jax  # pylint: disable=import-outside-toplevel
  from dinosaur import horizontal_interpolation as hi  # pylint: disable=import-outside-toplevel
  f64 = M.env.startswith('f64')
  dt = np.float64 if f64 else np.float32
  rng = M.rng()
  gs, gt = case['src'], case['tgt']
  src, tgt = _mk_grid(gs), _mk_grid(gt)
  lon_s, lat_s = np.asarray(src.longitudes, np.float64), np.asarray(src.latitudes, np.float64)
  lon_t, lat_t = np.asarray(tgt.longitudes, np.float64), np.asarray(tgt.latitudes, np.float64)
  nls, nas, nlt, nat = gs['nlon'], gs['nlat'], gt['nlon'], gt['nlat']
  f8 = min(nls, nlt) <= 3
  kn = 'F8' if f8 else None
  info = {'src': gs, 'tgt': gt}

  # ---------------- reference (documented cell-bound conventions)
  Ol, Oa = R.longitude_overlap(lon_s, lon_t), R.latitude_overlap(lat_s, lat_t)
  wid_s, wid_t = R.longitude_cell_widths(lon_s), R.longitude_cell_widths(lon_t)
  are_s, are_t = R.latitude_cell_areas(lat_s), R.latitude_cell_areas(lat_t)
  # harness sanity: the reference overlaps tile both grids (else the harness is wrong)
  if (np.abs(Ol.sum(1) - wid_t).max() > 1e-13 or np.abs(Ol.sum(0) - wid_s).max() > 1e-13
      or np.abs(Oa.sum(1) - are_t).max() > 1e-13 or np.abs(Oa.sum(0) - are_s).max() > 1e-13
      or abs(wid_s.sum() - 2 * np.pi) > 1e-13 or abs(are_t.sum() - 2) > 1e-13):
    raise core.HarnessError('reference overlaps do not tile')
  wl_ref, _ = R.normalise_rows(Ol)
  wa_ref, _ = R.normalise_rows(Oa)
  fac_l, fac_a = _rowfac(wid_t), _rowfac(are_t)
  tol_ref = TOL64 if f64 else TOL32_REF
  tol_1 = TOL64 if f64 else TOL32

  # ---------------- one batched call: random, constant, separable one-hots, (all one-hots)
  amp = float(10 ** rng.uniform(-2, 3))
  shift = float(rng.choice([0.0, rng.uniform(-5, 5)])) * amp
  fields = [amp * rng.standard_normal((nls, nas)) + shift, amp * rng.standard_normal((nls, nas)),
            np.full((nls, nas), 3.5 * amp)]
  n0 = len(fields)
  hot_l = np.zeros((nls, nls, nas))
  hot_l[np.arange(nls), np.arange(nls), :] = 1.0
  hot_a = np.zeros((nas, nls, nas))
  hot_a[np.arange(nas), :, np.arange(nas)] = 1.0
  full = nls * nas <= 200
  batch = [np.stack(fields), hot_l, hot_a]
  if full:
    hot = np.zeros((nls * nas, nls, nas))
    hot.reshape(nls * nas, nls * nas)[np.arange(nls * nas), np.arange(nls * nas)] = 1.0
    batch.append(hot)
  B = np.concatenate(batch).astype(dt)
  nB = B.shape[0]
  P = _nan_patterns(rng, nls, nas)
  names = list(P)
  masks = np.stack([P[k] for k in names])
  base = amp * (rng.standard_normal((len(names), nls, nas)) + 2.0)
  G = np.where(masks, np.nan, base).astype(dt)
  ALL = np.concatenate([B, G])
  # ONE traced program per case: both public weight functions, the private raw overlaps and the
  # public __call__ of both regridders (the eager, un-jitted path is driven in `props` cases)
  r0 = hi.ConservativeRegridder(src, tgt)
  r1 = hi.ConservativeRegridder(src, tgt, skipna=True)
  raw_l, raw_a = getattr(hi, '_longitude_overlap', None), getattr(hi, '_latitude_overlap', None)
  for nm, fn in (('_longitude_overlap', raw_l), ('_latitude_overlap', raw_a)):
    if fn is None:
      M.unavailable(nm)

  def program(x, lo_s, lo_t, la_s, la_t):
    res = {'lw': hi.conservative_longitude_weights(lo_s, lo_t),
           'aw': hi.conservative_latitude_weights(la_s, la_t), 'plain': r0(x), 'skip': r1(x)}
    if raw_l is not None:
      res['raw_l'] = raw_l(lo_t, lo_s)
    if raw_a is not None:
      res['raw_a'] = raw_a(la_s, la_t)
    return res

  res = jax.jit(program)(ALL, src.longitudes, tgt.longitudes, src.latitudes, tgt.latitudes)
  res = {k: np.asarray(v) for k, v in res.items()}
  oA, oS = res['plain'], res['skip']
  # ---------------- weight matrices of the code under test
  lw, aw = res['lw'], res['aw']
  if case.get('props'):
    lw_e, aw_e = np.asarray(r0.lon_weights), np.asarray(r0.lat_weights)   # un-jitted public path
    M.close('eager_weights_equal_traced', lw_e, lw, tol_1, scale=1.0, info=info, known=kn)
    M.close('eager_weights_equal_traced', aw_e, aw, tol_1, scale=1.0, info=info)
    M.cover('weights_from', 'jit(conservative_*_weights) + ConservativeRegridder.lon_weights/lat_weights')
  else:
    M.cover('weights_from', 'jit(conservative_*_weights)')
  M.check('weights_shape', lw.shape == (nlt, nls) and aw.shape == (nat, nas), info=info)
  M.check('lon_weights_nonnegative', bool((lw >= 0).all()), info=info, known=kn)
  M.check('lat_weights_nonnegative', bool((aw >= 0).all()), info=info)
  M.close('lon_weights_rows_sum_to_one', lw.sum(1), np.ones(nlt), tol_1, scale=1.0, info=info, known=kn)
  M.close('lat_weights_rows_sum_to_one', aw.sum(1), np.ones(nat), tol_1, scale=1.0, info=info)
  M.close('lon_weights_equal_overlap_ref', lw / fac_l[:, None], wl_ref / fac_l[:, None], tol_ref,
          scale=1.0, info=info, known=kn)
  M.close('lat_weights_equal_overlap_ref', aw / fac_a[:, None], wa_ref / fac_a[:, None], tol_ref,
          scale=1.0, info=info)
  if np.isfinite(lw).all() and np.isfinite(aw).all():
    if not f8:
      M.note('floor:lon_weights_vs_ref/rowfac' + ('' if f64 else '(f32)'),
             float((np.abs(lw - wl_ref).max(1) / fac_l).max()))
    M.note('floor:lat_weights_vs_ref/rowfac' + ('' if f64 else '(f32)'),
           float((np.abs(aw - wa_ref).max(1) / fac_a).max()))
  # sharper sub-monitors on the private raw overlaps
  for nm, key, ref, meas, k in (('_longitude_overlap', 'raw_l', Ol, wid_t, kn),
                                ('_latitude_overlap', 'raw_a', Oa, are_t, None)):
    if key in res:
      M.close(nm + '_equals_ref', res[key], ref, TOL64 if f64 else 2e-6,
              scale=float(meas.max()) * (1 if f64 else 2 * np.pi), info=info, known=k)

  # in tiny (F8) cases everything downstream is checked against the code's OWN longitude
  # weights, so that only the weights themselves are attributed to the known finding
  lw_ok = bool(np.isfinite(lw).all())
  kn2 = kn if not lw_ok else None     # consequences of NaN rows only
  wl_use = wl_ref
  if f8:
    M.cover('f8', 'lon weights finite' if lw_ok else 'lon weights contain NaN rows')
    if lw_ok:
      wl_use = lw.astype(np.float64)

  M.check('output_shape_dtype', oA.shape == (ALL.shape[0], nlt, nat) and oA.dtype == B.dtype
          and oS.shape == oA.shape and oS.dtype == B.dtype, info={'shape': oA.shape, 'dtype': str(oA.dtype)})
  out = oA[:nB].astype(np.float64)
  B64 = B.astype(np.float64)
  if not f8 or lw_ok:
    M.finite('regrid_output_finite', out, info=info)
  fac2 = np.maximum(fac_l[:, None], fac_a[None, :])
  # effective weights seen through __call__ (complete separable basis)
  eff_l = out[n0:n0 + nls]                       # [b, a, c] = wl[a, b] for every c
  M.close('effective_lon_weights_equal_ref', eff_l / fac_l[None, :, None],
          np.broadcast_to(wl_ref.T[:, :, None], eff_l.shape) / fac_l[None, :, None], tol_ref,
          scale=1.0, info=info, known=kn)
  eff_a = out[n0 + nls:n0 + nls + nas]           # [d, a, c] = wa[c, d] for every a
  M.close('effective_lat_weights_equal_ref', eff_a / fac_a[None, None, :],
          np.broadcast_to(wa_ref.T[:, None, :], eff_a.shape) / fac_a[None, None, :], tol_ref,
          scale=1.0, info=info, known=kn2)
  if full:
    got = out[n0 + nls + nas:].reshape(nls, nas, nlt, nat)
    want = np.einsum('ab,cd->bdac', wl_use, wa_ref)
    M.close('full_basis_weights_equal_ref', got / fac2, want / fac2, tol_ref, scale=1.0, info=info,
            known=kn2)
    M.cover('basis', 'all one-hots')
  else:
    M.cover('basis', 'separable one-hots')
  # constants, range, conservation, reference mean
  A_s, A_t = wid_s[:, None] * are_s[None, :], wid_t[:, None] * are_t[None, :]
  for k in range(n0):
    f, o = B64[k], out[k]
    sc = float(np.abs(f).max())
    if k == n0 - 1:
      M.close('constant_reproduced', o, np.full_like(o, f[0, 0]), tol_1, scale=sc, info=info, known=kn2)
    M.le('output_within_input_range', max(float(np.nanmax(o)) - f.max(), f.min() - float(np.nanmin(o)))
         if np.isfinite(o).any() else np.nan, 0.0, slack=tol_1 * sc, info=info, known=kn2)
    M.close('integral_conserved', float((o * A_t).sum()), float((f * A_s).sum()), tol_1,
            scale=4 * np.pi * sc, info=info, known=kn)
    want = R.regrid_2d(f, wl_use, wa_ref)
    M.close('regrid_equals_ref_weighted_mean', o / fac2, want / fac2, tol_ref, scale=sc, info=info,
            known=kn2)
    if f64 and np.isfinite(o).all():
      M.note('floor:regrid_vs_ref/rowfac', float((np.abs(o - want) / fac2).max() / sc))
      M.note('floor:conservation', abs(float((o * A_t).sum()) - float((f * A_s).sum())) / (4 * np.pi * sc))
  if gs == gt:
    M.close('equal_grids_identity', out[:n0], B64[:n0], tol_ref, scale=float(np.abs(B64[:n0]).max()),
            info=info, known=kn)
  # skipna=True on NaN-free input must be the plain mean
  o1 = oS[:nB].astype(np.float64)
  M.close('skipna_without_nan_equals_plain', o1[:n0], out[:n0], tol_1, scale=float(np.abs(B64[:n0]).max()),
          info=info, known=kn2)
  M.close('skipna_without_nan_equals_plain', o1[n0:], out[n0:], tol_1, scale=1.0, info=info, known=kn2)
  if case.get('props'):
    # eager (un-jitted) calls, without leading axes and with two of them
    single = np.asarray(r0(B[0])).astype(np.float64)
    M.close('leading_axes_slicewise', single, out[0], tol_1, scale=float(np.abs(B64[0]).max()), info=info,
            known=kn2)
    lead = np.asarray(r1(ALL[nB:nB + 4].reshape(2, 2, nls, nas)))
    M.close('leading_axes_slicewise', lead.reshape(4, nlt, nat), oS[nB:nB + 4], tol_1,
            scale=float(np.abs(base).max()), info=info, known=kn2)

  # ---------------- missing values
  if f8 and not lw_ok:
    M.cover('nan_semantics', 'skipped: F8 lon weights are NaN')
  else:
    _nan_semantics(M, names, masks, base, G, oA[nB:].astype(np.float64), oS[nB:].astype(np.float64),
                   wl_use, wa_ref, lon_s, lon_t, lat_s, lat_t, fac2, f64, info, exact_ref=not f8)

  # ---------------- bookkeeping
  multi = bool(((Ol > 1e-9).sum(1) >= 2).any() or ((Oa > 1e-9).sum(1) >= 2).any())
  M.cover('relation', case.get('relation', '?'))
  M.cover('spacing_pair', f"{gs['spacing']}->{gt['spacing']}")
  M.cover('resolution', ('coarser' if nlt < nls else 'finer' if nlt > nls else 'same') + '_lon/' +
          ('coarser' if nat < nas else 'finer' if nat > nas else 'same') + '_lat')
  M.cover('offsets', ('src' if gs['offset'] else '') + ('tgt' if gt['offset'] else '') or 'none')
  M.cover('precision', M.env)
  if (multi or gs != gt) and not f8:
    M.nontrivial_global('h', gs, gt, M.env)
  M.sample({'kind': 'horizontal', 'src': gs, 'tgt': gt, 'fields_in_batch': int(B.shape[0]),
            'max_sources_per_target_lon': int((Ol > 1e-9).sum(1).max()),
            'max_sources_per_target_lat': int((Oa > 1e-9).sum(1).max())}, limit=2)


def _nan_semantics(M, names, masks, base, G, oF, oT, wl, wa, lon_s, lon_t, lat_s, lat_t, fac2, f64, info,
                   exact_ref):
  G64 = G.astype(np.float64)
  f0 = np.where(masks, 0.0, G64)
  nanfrac = R.regrid_2d(masks.astype(np.float64), wl, wa)        # NaN-overlap fraction per target
  notnull = R.regrid_2d((~masks).astype(np.float64), wl, wa)
  mean0 = R.regrid_2d(f0, wl, wa)                                # un-normalised mean of the rest
  eps = 1e-9 if f64 else 1e-5
  touch_l = R.longitude_touching(lon_s, lon_t, eps=eps).astype(np.float64)
  touch_a = R.latitude_touching(lat_s, lat_t, eps=eps).astype(np.float64)
  if not exact_ref:   # F8 case: `wl` is the code's own matrix; its support is what overlaps
    touch_l = np.maximum(touch_l, (wl > 0).astype(np.float64))
  touch_notnull = R.regrid_2d((~masks).astype(np.float64), touch_l, touch_a)   # any finite neighbour
  touch_nan = R.regrid_2d(masks.astype(np.float64), touch_l, touch_a)          # any NaN neighbour
  sc = float(np.abs(base).max())
  tol_ref = TOL64 if f64 else TOL32_REF
  hi_thr = 1.001e-3 if f64 else 1e-2
  for k, nm in enumerate(names):
    inf = {**info, 'pattern': nm}
    # ---- skipna=False
    must_nan = nanfrac[k] > hi_thr
    must_fin = (nanfrac[k] <= 1e-12) & ((touch_nan[k] == 0) | f64)
    between = ~(must_nan | must_fin)
    M.check('nan_propagated_where_overlap(skipna=False)', bool(np.isnan(oF[k][must_nan]).all()),
            info={**inf, 'cells': int(must_nan.sum()), 'not_nan': int((~np.isnan(oF[k][must_nan])).sum())})
    want = np.where(must_fin, mean0[k] / np.where(must_fin, notnull[k], 1.0), 0.0)
    got = np.where(must_fin, oF[k], 0.0)
    M.close('finite_value_where_no_nan_overlap(skipna=False)', got / fac2, want / fac2, tol_ref,
            scale=sc, info=inf)
    M.cover('skipna=False cells', 'asserted NaN', int(must_nan.sum()))
    M.cover('skipna=False cells', 'asserted finite', int(must_fin.sum()))
    M.cover('skipna=False cells', 'unasserted (0 < NaN fraction <= 1e-3)', int(between.sum()))
    # ---- skipna=True
    all_nan = touch_notnull[k] == 0                 # every overlapping-or-touching source is NaN
    some = notnull[k] >= (1e-9 if f64 else 1e-3)    # a finite source really overlaps
    M.check('nan_iff_all_overlapping_nan(skipna=True)',
            bool(np.isnan(oT[k][all_nan]).all()) and bool(np.isfinite(oT[k][some]).all()),
            info={**inf, 'all_nan_cells': int(all_nan.sum()),
                  'finite_there': int(np.isfinite(oT[k][all_nan]).sum()),
                  'nonfinite_where_some': int((~np.isfinite(oT[k][some])).sum())})
    val = notnull[k] >= (1e-2 if f64 else 0.25)
    got = np.where(val, oT[k] * notnull[k], 0.0)     # compare mean * not-null fraction
    want = np.where(val, mean0[k], 0.0)
    M.close('renormalised_mean(skipna=True)', got / fac2, want / fac2, tol_ref, scale=sc, info=inf)
    M.cover('skipna=True cells', 'asserted NaN', int(all_nan.sum()))
    M.cover('skipna=True cells', 'asserted finite', int(some.sum()))
    M.cover('skipna=True cells', 'value asserted', int(val.sum()))
    M.cover('skipna=True cells', 'unasserted (only touching / <1e-9 finite sources)',
            int((~all_nan & ~some).sum()))
    M.cover('nan_pattern', nm)
    if must_nan.any() and must_fin.any() and exact_ref:
      M.nontrivial('nan', nm)


# =============================================================================== vertical
def _synthetic_hybrid(rng):
  """Strictly monotone (for 500..1080 hPa) hybrid coefficient set, hPa; several coverage classes."""
  n = int(rng.integers(2, 41))
  p_ref = 1013.25
  cls = str(rng.choice(['full', 'top_offset', 'short_bottom', 'beyond_bottom']))
  x = np.concatenate([[0.0], np.cumsum(np.exp(rng.uniform(0, np.log(5.0), n)))])
  x /= x[-1]
  p_top = 0.0 if cls in ('full', 'short_bottom') and rng.random() < 0.7 else float(10 ** rng.uniform(-2, 1.3))
  b = x ** float(rng.uniform(1.0, 3.0))
  p = p_top + (p_ref - p_top) * x ** float(rng.uniform(0.7, 1.5))
  a = p - b * p_ref
  if cls == 'short_bottom':
    b = b * float(rng.uniform(0.9, 0.99))
  elif cls == 'beyond_bottom':
    a = a + float(rng.uniform(1, 20)) * x
  if cls == 'full':
    a[-1], b[-1] = 0.0, 1.0
    if p_top == 0.0:
      a[0] = 0.0
  ok = all((np.diff(a / sp + b) > 1e-7).all() for sp in (480.0, 1100.0))
  if not ok:                     # fall back to a pure-sigma-like set with a pressure offset
    a = p_top * (1.0 - b)
    cls += '(sigma-like)'
  return a, b, cls


def _make_sigma(kind, n, rng, hyb, approx_ok=True):
  from dinosaur import sigma_coordinates as sc  # pylint: disable=import-outside-toplevel
  if kind == 'equidistant' or (n == 1 and not (kind == 'approx' and approx_ok)):
    return sc.SigmaCoordinates.equidistant(n)
  if kind == 'approx' and approx_ok:
    return hyb.to_approx_sigma_coords(n, surface_pressure=float(rng.uniform(900, 1050)))
  w = np.exp(rng.uniform(0, np.log(6.0), n))
  if kind == 'thin_top':
    w[0] = w.sum() * float(10 ** rng.uniform(-7, -4))     # top layer (partly) above a UFS-like model top
  b = np.concatenate([[0.0], np.cumsum(w) / w.sum()])
  b[-1] = 1.0
  return sc.SigmaCoordinates(b)


def _run_v(case, M):
  if case['hyb'] != 'siblings':
    return _run_v_one(case, M)
  # history monitor: level sets that share the layer count and the `a` coefficients (pure sigma
  # sets, a = 0) but differ in `b`, regridded one after the other in the same process onto the same
  # target with the same input shapes (so that every jit / memo keyed on too little is reused);
  # each is judged by the ordinary oracles.  Both orders are separate cases.
  from dinosaur import vertical_interpolation as vi  # pylint: disable=import-outside-toplevel
  r = np.random.default_rng([case['sub'], 5])
  n = 6
  sets = []
  for _ in range(3):
    x = np.concatenate([[0.0], np.cumsum(np.exp(r.uniform(0, np.log(5.0), n)))])
    sets.append(x / x[-1])
  if case.get('order') == 'rev':
    sets = sets[::-1]
  for j, b in enumerate(sets):
    hyb = vi.HybridCoordinates(a_boundaries=np.zeros(n + 1), b_boundaries=b)
    _run_v_one(case, M, hyb_override=(hyb, 'full'))
    M.cover('sibling_sequences', f"{case['id']}:{j}")


def _run_v_one(case, M, hyb_override=None):
  from dinosaur import vertical_interpolation as vi  # pylint: disable=import-outside-toplevel
  f64 = M.env.startswith('f64')
  dt = np.float64 if f64 else np.float32
  rng = M.rng(case['sub'])
  if hyb_override is not None:
    hyb, cls = hyb_override
  elif case['hyb'] == 'synthetic':
    a, b, cls = _synthetic_hybrid(rng)
    hyb = vi.HybridCoordinates(a_boundaries=a, b_boundaries=b)
  else:
    hyb = getattr(vi.HybridCoordinates, case['hyb'])()
    cls = case['hyb']
  sig = _make_sigma(case['sig'], case['nsig'], rng, hyb, approx_ok=cls in ('ECMWF137', 'UFS127', 'full'))
  tb = np.asarray(sig.boundaries, np.float64)
  nx, ny, nl, ns = case['nx'], case['ny'], hyb.layers, sig.layers
  how = str(rng.choice(['uniform', 'extremes', 'orography']))
  if how == 'uniform':
    sp = rng.uniform(500, 1080, (nx, ny))
  elif how == 'extremes':
    sp = rng.choice([500.0, 1080.0, 1013.25, 700.0], (nx, ny))
  else:
    sp = 1013.25 * np.exp(-rng.uniform(0, 0.7, (nx, ny)))
    sp = np.clip(sp, 500, 1080)
  sp = sp.astype(dt)
  amp = float(10 ** rng.uniform(-2, 3))
  fields = {
      'random': amp * rng.standard_normal((nl, nx, ny)) + float(rng.choice([0.0, 3.0])) * amp,
      'constant': np.full((nl, nx, ny), -2.5 * amp),
      'profile': amp * np.linspace(0, 1, nl)[:, None, None] ** 2 * np.ones((nx, ny)),
  }
  fields = {k: v.astype(dt) for k, v in fields.items()}
  info = {'hyb': cls, 'layers': nl, 'sigma': case['sig'], 'nsig': ns}
  # one call with the three fields stacked on a leading axis (surface pressure broadcasts)
  names_f = list(fields)
  stacked = np.stack([fields[k] for k in names_f])
  o_all = np.asarray(vi.regrid_hybrid_to_sigma(stacked, hyb, sig, sp))
  M.check('v_output_shape_dtype', o_all.shape == (3, ns, nx, ny) and o_all.dtype == dt,
          info={'shape': o_all.shape, 'dtype': str(o_all.dtype)})
  out = {k: o_all[i] for i, k in enumerate(names_f)}
  cls_out = np.asarray(vi.ConservativeRegridder(hyb, sig)(stacked, sp))
  M.same('v_regridder_class_same_as_function', cls_out, o_all, info=info)
  if case['sub'] % 3 == 1:
    # the pytree call (dict of fields + a scalar that must pass through), no leading axis
    tree = dict(fields)
    tree['scalar'] = 7.0
    o_tree = vi.regrid_hybrid_to_sigma(tree, hyb, sig, sp)
    M.check('v_pytree_scalar_untouched', float(o_tree['scalar']) == 7.0)
    for k in names_f:
      M.close('v_pytree_equals_stacked', np.asarray(o_tree[k]), out[k], TOL64 if f64 else TOL32,
              scale=float(np.abs(fields[k]).max()), info=info)
  tol_ref = TOL64 if f64 else TOL32_REF
  tol_1 = TOL64 if f64 else TOL32
  n_unc = n_part = n_full = n_tiny = 0
  sp64 = sp.astype(np.float64)
  a64, b64 = np.asarray(hyb.a_boundaries, np.float64), np.asarray(hyb.b_boundaries, np.float64)
  loop_cols = {(int(rng.integers(nx)), int(rng.integers(ny))) for _ in range(2)}
  for i in range(nx):
    for j in range(ny):
      hb = (a64 + b64 * sp64[i, j]) / sp64[i, j]            # sigma = pressure / surface pressure
      if not (np.diff(hb) > 0).all():
        M.discard('hybrid bounds not strictly increasing for this surface pressure')
        continue
      O = R.interval_overlap_fast(hb, tb)
      if (i, j) in loop_cols:
        if np.abs(R.interval_overlap(hb, tb) - O).max() > 1e-15:
          raise core.HarnessError('reference overlap implementations disagree')
      W, cov = R.normalise_rows(O)
      ok = cov >= 1e-9
      ov = O[ok].sum(0)                      # source thickness inside the asserted target rows
      n_unc += int((cov == 0).sum())
      n_tiny += int(((cov > 0) & ~ok).sum())
      n_part += int(((cov > 0) & (cov < (tb[1:] - tb[:-1]) * (1 - 1e-9))).sum())
      n_full += int((cov >= (tb[1:] - tb[:-1]) * (1 - 1e-9)).sum())
      fac = _rowfac(np.where(ok, cov, 1.0))
      if (i, j) in loop_cols:
        # the weight matrix itself, called directly for this column
        Wr = np.asarray(vi.conservative_regrid_weights(hb.astype(dt), tb.astype(dt))).astype(np.float64)
        M.check('v_weights_nonnegative', bool((Wr[ok] >= 0).all()), info=info)
        M.close('v_weights_rows_sum_to_one', Wr[ok].sum(1), np.ones(int(ok.sum())), tol_1, scale=1.0, info=info)
        M.close('v_weights_equal_overlap_ref', Wr[ok] / fac[ok, None], W[ok] / fac[ok, None], tol_ref,
                scale=1.0, info=info)
        M.note('floor:v_weights_vs_ref/rowfac' + ('' if f64 else '(f32)'),
               float((np.abs(Wr[ok] - W[ok]).max(1) / fac[ok]).max()) if ok.any() else 0.0)
        M.cover('v_uncovered_rows_in_weights', 'NaN row' if np.isnan(Wr[cov == 0]).any() else
                ('none' if not (cov == 0).any() else 'finite row'))
      W0 = np.where(ok[:, None], W, 0.0)
      for name, fld in fields.items():
        col = fld[:, i, j].astype(np.float64)
        o = out[name][:, i, j].astype(np.float64)
        sc = float(np.abs(col).max())
        want = W0 @ col
        M.close('v_regrid_equals_ref', np.where(ok, o, 0.0) / fac, np.where(ok, want, 0.0) / fac, tol_ref,
                scale=sc, info={**info, 'field': name, 'sp': float(sp64[i, j])})
        if name == 'constant':
          M.close('v_constant_reproduced', o[ok], np.full(int(ok.sum()), col[0]), tol_1, scale=sc, info=info)
        if ok.any():
          M.le('v_output_within_input_range', max(o[ok].max() - col.max(), col.min() - o[ok].min()), 0.0,
               slack=tol_1 * sc, info={**info, 'field': name})
          # thickness-weighted integral over the covered range
          lhs = float((o[ok] * cov[ok]).sum())
          rhs = float((col * ov).sum())
          M.close('v_integral_conserved_over_covered_range', lhs, rhs, tol_1,
                  scale=sc * float(cov[ok].sum()), info={**info, 'field': name})
          if f64:
            M.note('floor:v_regrid_vs_ref/rowfac', float((np.abs(o[ok] - want[ok]) / fac[ok]).max() / sc))
  M.cover('v_rows', 'uncovered (not asserted)', n_unc)
  M.cover('v_rows', 'coverage < 1e-9 (not asserted)', n_tiny)
  M.cover('v_rows', 'partially covered', n_part)
  M.cover('v_rows', 'fully covered', n_full)
  M.cover('v_hybrid', cls)
  M.cover('v_sigma', f"{case['sig']}")
  M.cover('v_surface_pressure', how)
  M.cover('precision', M.env)
  # leading batch axes: (t, level, x, y) with surface pressure (t, x, y)
  if case['sub'] % 3 == 0:
    f2 = np.stack([fields['random'], fields['profile']])
    sp2 = np.stack([sp, sp[::-1, ::-1]])
    o2 = np.asarray(vi.regrid_hybrid_to_sigma(f2, hyb, sig, sp2))
    M.check('v_leading_axes_shape', o2.shape == (2, ns, nx, ny), info={'shape': o2.shape})
    if o2.shape == (2, ns, nx, ny):
      M.close('v_leading_axes_slicewise', o2[0], out['random'], tol_1, scale=amp * 4, info=info)
      o3 = np.asarray(vi.regrid_hybrid_to_sigma(fields['profile'], hyb, sig, sp[::-1, ::-1].copy()))
      M.close('v_leading_axes_slicewise', o2[1], o3, tol_1, scale=amp * 4, info=info)
  if n_full + n_part > 0:
    M.nontrivial_global('v', case['hyb'], case['nsig'], case['sig'], case['sub'], M.env)
  M.sample({'kind': 'vertical', 'hybrid': cls, 'hybrid_layers': nl, 'sigma_layers': ns,
            'surface_pressure_hPa': [float(sp64.min()), float(sp64.max())],
            'rows_uncovered': n_unc, 'rows_partial': n_part}, limit=4)


def _rand_bounds(rng, n, lo, hi):
  w = np.exp(rng.uniform(0, np.log(8.0), n))
  return lo + (hi - lo) * np.concatenate([[0.0], np.cumsum(w) / w.sum()])


def _run_vw(case, M):
  import jax  # pylint: disable=import-outside-toplevel
  from dinosaur import vertical_interpolation as vi  # pylint: disable=import-outside-toplevel
  f64 = M.env.startswith('f64')
  dt = np.float64 if f64 else np.float32
  rng = M.rng()
  tol_ref = TOL64 if f64 else TOL32_REF
  tol_1 = TOL64 if f64 else TOL32
  try:
    raw = vi._interval_overlap  # pylint: disable=protected-access
  except AttributeError:
    raw = None
    M.unavailable('_interval_overlap')
  for k in range(case['n']):
    rel = str(rng.choice(['same', 'nested', 'shifted', 'target_wider', 'source_wider', 'disjoint_part',
                          'pressure_units']))
    ns_, nt_ = int(rng.integers(1, 30)), int(rng.integers(1, 20))
    unit = 1.0
    if rel == 'same':
      sb = _rand_bounds(rng, ns_, 0.0, 1.0)
      tb = sb.copy()
    elif rel == 'nested':
      tb = _rand_bounds(rng, nt_, 0.0, 1.0)
      extra = rng.uniform(0, 1, ns_)
      sb = np.unique(np.concatenate([tb, extra]))
    elif rel == 'shifted':
      sb = _rand_bounds(rng, ns_, 0.0, 1.0)
      tb = _rand_bounds(rng, nt_, 0.0, 1.0)
    elif rel == 'target_wider':
      sb = _rand_bounds(rng, ns_, 0.2, 0.8)
      tb = _rand_bounds(rng, nt_, 0.0, 1.0)
    elif rel == 'source_wider':
      sb = _rand_bounds(rng, ns_, -0.3, 1.4)
      tb = _rand_bounds(rng, nt_, 0.0, 1.0)
    elif rel == 'disjoint_part':
      sb = _rand_bounds(rng, ns_, 0.5, 1.0)
      tb = _rand_bounds(rng, max(nt_, 3), 0.0, 1.0)
    else:
      unit = 1000.0
      sb = _rand_bounds(rng, ns_, 0.0, 1013.0)
      tb = _rand_bounds(rng, nt_, 10.0, 1000.0)
    sb, tb = sb.astype(dt), tb.astype(dt)
    if not ((np.diff(sb) > 0).all() and (np.diff(tb) > 0).all()):
      M.discard('bounds collapsed in float32')
      continue
    sb64, tb64 = sb.astype(np.float64), tb.astype(np.float64)
    O = R.interval_overlap(sb64, tb64)
    if np.abs(O - R.interval_overlap_fast(sb64, tb64)).max() > 1e-15 * unit:
      raise core.HarnessError('reference overlap implementations disagree')
    W, cov = R.normalise_rows(O)
    ok = cov >= 1e-9 * unit
    fac = _rowfac(np.where(ok, cov, unit) / unit)
    info = {'relation': rel, 'source_bounds': sb64, 'target_bounds': tb64}
    Wr = np.asarray(vi.conservative_regrid_weights(sb, tb)).astype(np.float64)
    M.check('v_weights_shape', Wr.shape == (tb.size - 1, sb.size - 1), info=info)
    M.check('v_weights_nonnegative', bool((Wr[ok] >= 0).all()), info=info)
    M.close('v_weights_rows_sum_to_one', Wr[ok].sum(1), np.ones(int(ok.sum())), tol_1, scale=1.0, info=info)
    M.close('v_weights_equal_overlap_ref', Wr[ok] / fac[ok, None], W[ok] / fac[ok, None], tol_ref, scale=1.0,
            info=info)
    if raw is not None:
      M.close('_interval_overlap_equals_ref', np.asarray(jax.jit(raw)(sb, tb)), O, TOL64 if f64 else 1e-6,
              scale=float(max(abs(sb64).max(), abs(tb64).max())), info=info)
    M.cover('vw_relation', rel)
    M.cover('v_rows', 'uncovered (not asserted)', int((cov == 0).sum()))
    M.cover('v_uncovered_rows_in_weights', 'NaN row' if np.isnan(Wr[cov == 0]).any() else
            ('none' if not (cov == 0).any() else 'finite row'))
    if rel != 'same' and ok.any():
      M.nontrivial('vw', k)


def run(case, M):
  if case['kind'] == 'h':
    _run_h(case, M)
  elif case['kind'] == 'v':
    _run_v(case, M)
  elif case['kind'] == 'vw':
    _run_vw(case, M)
  else:
    raise core.HarnessError(f"unknown case kind {case['kind']}")
