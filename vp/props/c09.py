"""C09 — the two spherical-harmonic implementations are observationally equivalent.

Differential monitor: every public operation of `Grid` is executed twice, once with
`RealSphericalHarmonics` and once with `FastSphericalHarmonics` (with tuning options), on inputs
related by the fixed re-indexing of the coefficient layouts

    Real rows [0, +1, -1, +2, -2, ...]   <->   Fast rows [0, (unused), +1, -1, ..., padding]

(gen.real_to_fast / gen.fast_to_real, zero padding of nodal arrays) and the outputs are compared
under the same re-indexing; the Fast-only row and all padding must stay exactly zero.  The same
is done for tendencies / implicit solves / 5-step trajectories of the dry and moist primitive
equations and the layered shallow-water equations (physical amplitudes), and for every
combination of the Fast tuning options against the default Fast result.  See DESIGN.md §3 C09.
"""
from __future__ import annotations

import itertools

import numpy as np

from vp import gen

RULE = ('cases = (a) grid configurations (structured edge list + seeded stream: M, L, node counts '
        'incl. under-resolved, three latitude spacings, offset, radius, Fast options): ALL basis '
        'vectors + dense non-decaying spectra + arbitrary (not band-limited) nodal data go through '
        'every public Grid operation under both implementations; (b) the Fast option matrix '
        '(base_shape_multiple x stacked_fourier_transforms x reverse_einsum_arg_order x '
        'transform_precision) on small grids, each variant against Real and against default Fast; '
        '(c) 8-device meshes where reverse_einsum_arg_order is effective; (d) dynamics: explicit / '
        'implicit tendencies, implicit solve and 5-step trajectories (SIL3 + exponential/diffusion '
        'filters, leapfrog + exponential/Robert-Asselin filters) of dry / moist primitive '
        'equations and shallow water on T10...T31 with physical amplitudes. A case is non-trivial '
        'if it is a distinct configuration, at least one compared output is non-zero, and (grids) '
        'the truncation has >=3 total wavenumbers / (dynamics) the 5 steps changed the state by '
        '>1e-6 relative.')
MIN_NONTRIVIAL = {'quick': 20, 'thorough': 120}
REQUIRED_MONITORS = {'all': [
    'to_nodal_fast_eq_real', 'to_modal_fast_eq_real', 'operator_fast_eq_real', 'mask_fast_eq_real',
    'modal_axes_fast_eq_real', 'integrate_fast_eq_real', 'uv_fast_eq_real',
    'fast_only_row_and_padding_exactly_zero', 'option_variant_eq_default_fast',
    'option_matrix_fast_eq_real', 'tendency_fast_eq_real', 'implicit_inverse_fast_eq_real',
    'trajectory_fast_eq_real', 'trajectory_fast_only_row_and_padding_exactly_zero']}
ASSUMPTIONS = [
    'the re-indexing between the layouts is the documented one (Real m = [0,+1,-1,...], Fast m = '
    '[0,0,+1,-1,...] + zero padding); nodal arrays are compared after cropping the padding',
    'transform_precision hints are no-ops on the CPU backend: "never changes results" is observed '
    'only in that sense',
    'reverse_einsum_arg_order only takes effect under an SPMD mesh; it is exercised on 8 virtual '
    'CPU devices',
    'for inputs carrying the top total wavenumber the latitude recurrences of the padded layout '
    'write into the first padding column (never read back): reported, not asserted']
TOL64, TOL32 = 1e-10, 3e-5
TRAJ64, TRAJ32 = 1e-8, 2e-3
TIMEOUT = {'quick': 10800, 'thorough': 43200}   # watchdog only (turns a hang into inconclusive)

BSM = (None, 1, 2, 4, 8)
STK = (None, True, False)
REV = (None, True, False)
PREC = (None, 'tensorfloat32', 'float32', 'highest')


# ------------------------------------------------------------------------------------ case list
def _grid_structured():
  g = lambda *a, **k: gen.grid_cfg(*a, impl='fast', **k)
  return [
      g(1, 1, 1, 1), g(1, 2, 1, 2), g(2, 2, 3, 2), g(2, 3, 4, 3), g(1, 3, 2, 5, 'equiangular'),
      g(2, 2, 3, 3, 'equiangular_with_poles'), g(1, 2, 4, 3, bsm=8), g(2, 2, 5, 3, bsm=4, stk=True),
      g(8, 9, 15, 9), g(8, 9, 16, 10), g(8, 8, 15, 8, stk=True), g(7, 10, 13, 10, bsm=2),
      g(6, 7, 11, 13, 'equiangular'), g(6, 7, 12, 13, 'equiangular', bsm=8),
      g(6, 7, 11, 13, 'equiangular_with_poles', stk=True),
      g(5, 6, 9, 12, 'equiangular_with_poles', bsm=4, stk=False),
      g(8, 9, 12, 6), g(8, 9, 10, 7, bsm=4, stk=True), g(6, 7, 16, 8, 'equiangular'),
      g(8, 9, 25, 13, offset=0.3, radius=3.0), g(8, 9, 25, 13, offset=-2.0, radius=0.25, bsm=8),
      g(12, 13, 36, 18, 'equiangular', offset=1.0, radius=63.71, bsm=8, stk=True, rev=True, prec='highest'),
      g(12, 13, 36, 18, bsm=1, stk=False, rev=False, prec='float32'),
      g(5, 7, 16, 9, bsm=4, stk=True), g(5, 7, 16, 9, bsm=2, stk=False, rev=True),
      g(3, 4, 8, 4, bsm=8, prec='tensorfloat32'), g(9, 12, 20, 12, bsm=4, radius=7.0),
      gen.with_wavenumbers_cfg(10, 'linear', impl='fast'),
      gen.with_wavenumbers_cfg(10, 'quadratic', impl='fast', bsm=8),
      gen.with_wavenumbers_cfg(7, 'cubic', spacing='equiangular', impl='fast', stk=True),
      gen.factory_cfg('T21', 'fast'), gen.factory_cfg('T21', 'fast', offset=0.1, radius=2.0),
      # longitude node counts at / around the Nyquist limit of the top zonal wavenumber:
      # nlon = 2(M-1) (the top wavenumber IS the Nyquist frequency), 2(M-1)+1, 2M, and nlon = M
      g(9, 10, 16, 10), g(6, 7, 10, 7, bsm=4), g(9, 10, 17, 10), g(8, 9, 16, 12, stk=True), g(7, 8, 7, 8),
  ]


def _dyn_case(eq, N, integ, layers, bsm=None, stk=None, dt_min=None, steps=5, env='f64', tag=''):
  if dt_min is None:
    dt_min = float(min(20.0, max(5.0, round(210.0 / N))))
  nlon = 3 * (N + 1) + 1
  cfg = gen.grid_cfg(N + 1, N + 2, nlon, (nlon + 1) // 2, impl='fast', bsm=bsm, stk=stk)
  cost = 25 + 12 * (N / 21.0) ** 3 * layers / 4 * (1.6 if eq != 'sw' else 0.6)
  return {'id': f'dyn-{eq}-T{N}-{integ}-k{layers}-b{bsm}-s{stk}{tag}' + ('-f32' if env == 'f32' else ''),
          'kind': 'dyn', 'eq': eq, 'N': N, 'grid': cfg, 'integrator': integ, 'layers': layers,
          'dt_min': dt_min, 'steps': steps, 'env': env, 'cost': cost}


def cases(tier, seed):
  out = []
  rng = np.random.default_rng([seed, 909])
  # ---- (a) grids
  cfgs = _grid_structured()
  if tier == 'quick':   # trimmed structured list (the dropped entries run in the thorough tier)
    drop = {(1, 2, 1, 2), (2, 2, 3, 2), (8, 9, 16, 10), (6, 7, 16, 8), (9, 12, 20, 12), (5, 6, 9, 12),
            (12, 13, 36, 18)}
    keep = [c for c in cfgs if (c['M'], c['L'], c['nlon'], c['nlat']) not in drop
            and not (c.get('factory') == 'T21' and c['offset'] == 0.0)]
    keep.append(gen.grid_cfg(12, 13, 36, 18, 'equiangular', offset=1.0, radius=63.71, impl='fast', bsm=8,
                             stk=True, rev=True, prec='highest'))
    cfgs = keep
  if tier == 'thorough':
    cfgs += [gen.factory_cfg('TL31', 'fast'), gen.factory_cfg('T31', 'fast'),
             gen.factory_cfg('T42', 'fast', radius=4.2), gen.factory_cfg('TL47', 'fast', offset=0.05)]
    c = gen.factory_cfg('T42', 'fast', spacing='equiangular')
    c.update(bsm=8, stk=True)
    cfgs.append(c)
  for _ in range(8 if tier == 'quick' else 110):
    cfgs.append(gen.random_grid_cfg(rng, max_M=12 if tier == 'quick' else 24, impl='fast',
                                    resolved=rng.random() < 0.7))
  for i, c in enumerate(cfgs):
    K = c['M'] * c['L']
    cost = 1.5 + 12 * K * (2 * c['M'] * c['nlat'] * (c['L'] + c['nlon'])) / 3e8
    out.append({'id': f'g{i}-{gen.grid_tag(c)}', 'kind': 'grid', 'grid': c, 'env': 'f64', 'cost': cost})
  sub = [c for c in cfgs if c['M'] <= 22 and c['L'] >= 3]
  for i, c in enumerate(sub[::4 if tier == 'quick' else 3]):
    out.append({'id': f'f32-{i}-{gen.grid_tag(c)}', 'kind': 'grid', 'grid': c, 'env': 'f32',
                'cost': 1.5 + 12 * c['M'] * c['L'] * (2 * c['M'] * c['nlat'] * (c['L'] + c['nlon'])) / 3e8})
  # ---- (b) option matrix
  mats = [gen.grid_cfg(5, 7, 16, 9, impl='fast', radius=2.0, offset=0.2)]
  if tier == 'thorough':
    mats += [gen.grid_cfg(8, 9, 25, 13, impl='fast'), gen.grid_cfg(1, 2, 4, 3, impl='fast'),
             gen.grid_cfg(6, 9, 13, 17, 'equiangular', impl='fast'),
             gen.grid_cfg(12, 13, 36, 18, impl='fast', radius=0.3)]
  for i, c in enumerate(mats):
    combos = list(itertools.product(BSM, STK, REV, PREC))
    if tier == 'quick':
      sel = rng.choice(len(combos), 30, replace=False)
      corners = [(8, True, True, 'highest'), (1, False, False, 'float32'), (None, None, None, None),
                 (4, True, None, 'tensorfloat32'), (2, None, True, None)]
      combos = corners + [combos[k] for k in sorted(sel) if combos[k] not in corners]
    out.append({'id': f'matrix{i}-{gen.grid_tag(c)}', 'kind': 'matrix', 'grid': c,
                'combos': [list(x) for x in combos], 'env': 'f64', 'cost': 4 + 0.25 * len(combos)})
  out.append({'id': 'matrix-f32', 'kind': 'matrix', 'grid': mats[0],
              'combos': [[8, True, True, 'highest'], [1, False, False, 'float32'], [None, None, None, None],
                         [4, None, None, 'tensorfloat32'], [2, True, False, 'float32']],
              'env': 'f32', 'cost': 5})
  # ---- (c) meshes (reverse_einsum_arg_order is only effective there)
  meshes = [((1, 2, 2), gen.grid_cfg(12, 13, 36, 18, impl='fast', radius=2.0), [(True, False), (False, True)])]
  if tier == 'thorough':
    meshes += [((1, 4, 2), gen.grid_cfg(9, 10, 28, 14, impl='fast', offset=0.4),
                [(True, True), (False, False), (None, None)]),
               ((2, 2, 2), gen.grid_cfg(16, 17, 48, 24, impl='fast'), [(True, None), (False, True)]),
               ((1, 2, 4), gen.grid_cfg(7, 12, 20, 12, 'equiangular', impl='fast'), [(True, False), (None, True)])]
  for i, (ms, c, rs) in enumerate(meshes):
    out.append({'id': f'mesh{i}-{"x".join(map(str, ms))}-{gen.grid_tag(c)}', 'kind': 'mesh', 'grid': c,
                'mesh': list(ms), 'rev_stk': [list(x) for x in rs], 'env': 'f64x8', 'cost': 10 + 6 * len(rs)})
  # ---- (d) dynamics
  if tier == 'quick':
    dyn = [_dyn_case('dry', 10, 'sil3', 3), _dyn_case('moist', 15, 'leapfrog', 4, bsm=4, stk=True),
           _dyn_case('sw', 21, 'leapfrog', 2, bsm=8), _dyn_case('moist', 12, 'sil3', 3, bsm=8),
           _dyn_case('sw', 10, 'sil3', 1, stk=True)]
    k = int(rng.integers(0, 3))
    dyn.append(_dyn_case(['dry', 'moist', 'sw'][k], int(rng.integers(10, 19)), ['sil3', 'leapfrog'][int(rng.integers(2))],
                         int(rng.integers(2, 5)), bsm=BSM[int(rng.integers(5))], stk=STK[int(rng.integers(3))], tag='-r'))
    dyn.append(_dyn_case('dry', 10, 'sil3', 3, bsm=4, env='f32'))
  else:
    dyn = []
    for eq in ('dry', 'moist', 'sw'):
      for N, integ, bsm, stk in ((10, 'sil3', None, None), (10, 'leapfrog', 8, True), (15, 'sil3', 4, False),
                                 (21, 'leapfrog', None, True), (21, 'sil3', 8, None), (31, 'sil3', 8, True),
                                 (31, 'leapfrog', 2, False)):
        dyn.append(_dyn_case(eq, N, integ, 4 if eq != 'sw' else 2, bsm=bsm, stk=stk))
    for j in range(8):
      dyn.append(_dyn_case(['dry', 'moist', 'sw'][int(rng.integers(3))], int(rng.integers(10, 32)),
                           ['sil3', 'leapfrog'][int(rng.integers(2))], int(rng.integers(1, 7)),
                           bsm=BSM[int(rng.integers(5))], stk=STK[int(rng.integers(3))], tag=f'-r{j}'))
    dyn += [_dyn_case('dry', 10, 'sil3', 3, bsm=4, env='f32'), _dyn_case('moist', 15, 'leapfrog', 4, env='f32'),
            _dyn_case('sw', 21, 'leapfrog', 2, bsm=8, env='f32')]
  out += dyn
  return out


# ------------------------------------------------------------------------------------ helpers
def _real_cfg(cfg):
  c = {k: v for k, v in cfg.items() if k not in ('bsm', 'stk', 'rev', 'prec')}
  c.update(impl='real', bsm=None, stk=None, rev=None, prec=None)
  return c


def _default_fast_cfg(cfg):
  c = dict(cfg)
  c.update(bsm=None, stk=None, rev=None, prec=None)
  return c


def _pad_region(gf, Mw, Lw):
  """Fast-only row (imaginary part of m=0) and every padding row / column."""
  reg = np.zeros(tuple(gf.modal_shape), bool)
  reg[2 * Mw:, :] = True
  reg[:, Lw:] = True
  reg[1, :] = True
  return reg


def _ops(sh, G, x, y, poles):
  """Every modal -> modal operator of grid G (name -> result) on fields x, y (zero-mean y)."""
  d = {'d_dlon': G.d_dlon(x), 'cos_lat_d_dlat': G.cos_lat_d_dlat(x),
       'sec_lat_d_dlat_cos2': G.sec_lat_d_dlat_cos2(x), 'laplacian': G.laplacian(x),
       'inverse_laplacian': G.inverse_laplacian(x), 'clip_wavenumbers[default]': G.clip_wavenumbers(x),
       'clip_wavenumbers[n=2]': G.clip_wavenumbers(x, 2)}
  kc = G.k_cross((x, y))
  d['k_cross[0]'], d['k_cross[1]'] = kc
  gd = G.cos_lat_grad(x)
  d['cos_lat_grad[0,default]'], d['cos_lat_grad[1,default]'] = gd
  d['div_cos_lat[default]'] = G.div_cos_lat((x, y))
  d['curl_cos_lat[default]'] = G.curl_cos_lat((x, y))
  for clip in (False, True):
    g = G.cos_lat_grad(x, clip=clip)
    v = sh.get_cos_lat_vector(y, x, G, clip=clip)
    for c in (0, 1):
      d[f'cos_lat_grad[{c},clip={clip}]'] = g[c]
      d[f'get_cos_lat_vector[{c},clip={clip}]'] = v[c]
    d[f'div_cos_lat[clip={clip}]'] = G.div_cos_lat((x, y), clip=clip)
    d[f'curl_cos_lat[clip={clip}]'] = G.curl_cos_lat((x, y), clip=clip)
  return d


# operators whose padded-layout result may carry the l=L-1 -> l=L coupling in the first padding
# column when the input has top-wavenumber content (reported only)
_SPILLS = ('cos_lat_d_dlat', 'sec_lat_d_dlat_cos2', 'cos_lat_grad[1,clip=False]',
           'get_cos_lat_vector[0,clip=False]', 'get_cos_lat_vector[1,clip=False]',
           'div_cos_lat[clip=False]', 'curl_cos_lat[clip=False]')

_HANDLED_PUBLIC = {
    'asdict', 'construct', 'with_wavenumbers', 'cos_lat', 'sec2_lat', 'laplacian_eigenvalues',
    'latitudes', 'longitudes', 'nodal_axes', 'nodal_mesh', 'nodal_shape', 'nodal_padding',
    'modal_axes', 'modal_mesh', 'modal_shape', 'modal_padding', 'mask', 'quadrature_weights',
    'spherical_harmonics', 'to_nodal', 'to_modal', 'laplacian', 'inverse_laplacian',
    'clip_wavenumbers', 'd_dlon', 'cos_lat_d_dlat', 'sec_lat_d_dlat_cos2', 'cos_lat_grad', 'k_cross',
    'div_cos_lat', 'curl_cos_lat', 'integrate', 'longitude_wavenumbers', 'total_wavenumbers',
    'longitude_nodes', 'latitude_nodes', 'latitude_spacing', 'longitude_offset', 'radius',
    'spherical_harmonics_impl', 'spmd_mesh'}


def _make_mesh(shape):
  import jax  # pylint: disable=import-outside-toplevel
  n = int(np.prod(shape))
  return jax.sharding.Mesh(np.array(jax.devices()[:n]).reshape(shape), ['z', 'x', 'y'])


def _tols(M):
  f64 = M.env.startswith('f64')
  return f64, (TOL64 if f64 else TOL32), (np.float64 if f64 else np.float32)


# ------------------------------------------------------------------------------------ run
def run(case, M):
  kind = case['kind']
  if kind == 'grid':
    _run_grid(case, M)
  elif kind == 'matrix':
    _run_matrix(case, M)
  elif kind == 'mesh':
    _run_mesh(case, M)
  elif kind == 'dyn':
    _run_dyn(case, M)
  else:
    from vp import core  # pylint: disable=import-outside-toplevel
    raise core.HarnessError(f'unknown case kind {kind}')


def _attributes(M, gr, gf, cfg, pad_region, dt):
  """Public attributes of Grid under the re-indexing."""
  Mw, Lw, nlon, nlat = cfg['M'], cfg['L'], cfg['nlon'], cfg['nlat']
  info = {'grid': cfg}
  msr, msf = tuple(gr.modal_shape), tuple(gf.modal_shape)
  nsf = tuple(gf.nodal_shape)
  M.check('shapes_consistent', msr == (2 * Mw - 1, Lw) and msf[0] >= 2 * Mw and msf[1] >= Lw
          and nsf[0] >= nlon and nsf[1] >= nlat and tuple(gr.nodal_shape) == (nlon, nlat)
          and tuple(gf.modal_padding) == (msf[0] - 2 * Mw, msf[1] - Lw)
          and tuple(gf.nodal_padding) == (nsf[0] - nlon, nsf[1] - nlat)
          and tuple(gr.modal_padding) == (0, 0) and tuple(gr.nodal_padding) == (0, 0), info=info)
  bsm = cfg.get('bsm') or 1
  M.check('padded_shape_is_multiple_of_base', msf[0] % (2 * bsm) == 0 and msf[1] % bsm == 0
          and nsf[0] % bsm == 0 and nsf[1] % bsm == 0, info=info)
  mr, lr = (np.asarray(a) for a in gr.modal_axes)
  mf, lf = (np.asarray(a) for a in gf.modal_axes)
  want_m = np.zeros(msf[0], mr.dtype)
  want_m[0] = mr[0]
  want_m[2:2 * Mw] = mr[1:]
  M.same('modal_axes_fast_eq_real', mf, want_m, info=info, check_dtype=False)
  want_l = np.zeros(msf[1], lr.dtype)
  want_l[:Lw] = lr
  M.same('modal_axes_fast_eq_real', lf, want_l, info=info, check_dtype=False)
  maskr, maskf = np.asarray(gr.mask), np.asarray(gf.mask)
  M.same('mask_fast_eq_real', gen.fast_to_real(maskf, gr, gf), maskr, info=info)
  M.check('mask_fast_eq_real', int(maskf.sum()) == int(maskr.sum()) and not maskf[pad_region].any(),
          info={'grid': cfg, 'what': 'Fast-only row and padding masked out'})
  mm_r, mm_f = gr.modal_mesh, gf.modal_mesh
  for a, b in zip(mm_r, mm_f):
    M.same('modal_axes_fast_eq_real', gen.fast_to_real(np.asarray(b), gr, gf), np.asarray(a),
           info={'grid': cfg, 'what': 'modal_mesh'}, check_dtype=False)
  # nodal side: identical after cropping the padding
  pairs = {
      'nodal_axes[0]': (gr.nodal_axes[0], np.asarray(gf.nodal_axes[0])[:nlon]),
      'nodal_axes[1]': (gr.nodal_axes[1], np.asarray(gf.nodal_axes[1])[:nlat]),
      'longitudes': (gr.longitudes, np.asarray(gf.longitudes)[:nlon]),
      'latitudes': (gr.latitudes, np.asarray(gf.latitudes)[:nlat]),
      'cos_lat': (gr.cos_lat, np.asarray(gf.cos_lat)[:nlat]),
      'sec2_lat': (gr.sec2_lat, np.asarray(gf.sec2_lat)[:nlat]),
      'laplacian_eigenvalues': (gr.laplacian_eigenvalues, np.asarray(gf.laplacian_eigenvalues)[:Lw]),
      'quadrature_weights': (gr.quadrature_weights, np.asarray(gf.quadrature_weights)[:nlon, :nlat]),
      'nodal_mesh[0]': (gr.nodal_mesh[0], np.asarray(gf.nodal_mesh[0])[:nlon, :nlat]),
      'nodal_mesh[1]': (gr.nodal_mesh[1], np.asarray(gf.nodal_mesh[1])[:nlon, :nlat]),
  }
  for name, (a, b) in pairs.items():
    a, b = np.asarray(a), np.asarray(b)
    with np.errstate(invalid='ignore'):
      M.close('nodal_attribute_fast_eq_real', b, a, 1e-14, scale=max(1.0, float(np.abs(np.where(np.isfinite(a), a, 0)).max())),
              info={'grid': cfg, 'attribute': name})
  M.zero('quadrature_weights_zero_on_padding', np.asarray(gf.quadrature_weights)[:, nlat:], info=info)
  M.check('scalar_attributes_equal', gr.radius == gf.radius and gr.longitude_offset == gf.longitude_offset
          and gr.spherical_harmonics.modal_dtype == gf.spherical_harmonics.modal_dtype, info=info)
  da, db = gr.asdict(), gf.asdict()
  diff = sorted(k for k in da if da[k] != db.get(k))
  M.check('asdict_differs_only_in_impl', diff == ['spherical_harmonics_impl'] and set(da) == set(db),
          info={'grid': cfg, 'differing_keys': diff})
  public = sorted(n for n in dir(type(gr)) if not n.startswith('_'))
  import re  # pylint: disable=import-outside-toplevel
  for n in public:
    if n not in _HANDLED_PUBLIC and not re.fullmatch(r'TL?\d+', n):
      M.cover('public_Grid_attribute_without_monitor', n)
  M.cover('public_Grid_attributes_seen', 'count', len(public))


def _run_grid(case, M):
  import jax  # pylint: disable=import-outside-toplevel
  import jax.numpy as jnp  # pylint: disable=import-outside-toplevel
  from dinosaur import spherical_harmonic as sh  # pylint: disable=import-outside-toplevel
  cfg = case['grid']
  f64, tol, dt = _tols(M)
  eps = 1e-12 if f64 else 1e-5
  rng = M.rng()
  cfg_r = _real_cfg(cfg)
  gr, gf = gen.make_grid(cfg_r), gen.make_grid(cfg)
  has_opts = any(cfg.get(k) is not None for k in ('bsm', 'stk', 'rev', 'prec'))
  gd = gen.make_grid(_default_fast_cfg(cfg)) if has_opts else None
  Mw, Lw, nlon, nlat, r = cfg['M'], cfg['L'], cfg['nlon'], cfg['nlat'], cfg['radius']
  poles = cfg['spacing'] == 'equiangular_with_poles'
  msf, nsf = tuple(gf.modal_shape), tuple(gf.nodal_shape)
  pad_region = _pad_region(gf, Mw, Lw)
  cid = case['id']
  for nm, G in (('real', gr), ('fast', gf)):
    b = G.spherical_harmonics.basis
    M.watch(f'{nm}:f:{cid}', b.f)
    M.watch(f'{nm}:p:{cid}', b.p)
    M.watch(f'{nm}:w:{cid}', b.w)
    M.watch(f'{nm}:mask:{cid}', G.mask)
    M.watch(f'{nm}:m:{cid}', G.modal_axes[0])
  M.cover('spacing', cfg['spacing'])
  M.cover('fast_options', {k: cfg.get(k) for k in ('bsm', 'stk', 'rev', 'prec')})
  M.cover('layout', 'padded' if (msf != (2 * Mw, Lw) or nsf != (nlon, nlat)) else 'unpadded')
  M.cover('env', M.env)
  _attributes(M, gr, gf, cfg, pad_region, dt)

  # ---- inputs: complete modal basis + dense non-decaying spectra; arbitrary nodal data
  idx = gen.basis_indices(gr)
  K = len(idx)
  nd = 3
  dense = gen.rand_modal(rng, gr, (nd,), dtype=dt)
  dense_y = gen.rand_modal(rng, gr, (nd,), dtype=dt, zero_mean=True)
  n_in = K + nd
  l_of = np.concatenate([np.array([j for (_, j) in idx], int), np.full(nd, Lw - 1)])
  l_of_y = np.concatenate([l_of[:K][::-1], np.full(nd, Lw - 1)])
  adm_all = (l_of <= Lw - 2) & (l_of_y <= Lw - 2)          # admissible inputs (no top wavenumber)
  msr = tuple(gr.modal_shape)

  def modal_inputs(ks):
    """x = basis vector k (or a dense field), y = basis vector K-1-k (or a dense zero-mean field)."""
    x = np.zeros((len(ks),) + msr, dt)
    y = np.zeros((len(ks),) + msr, dt)
    for t, k in enumerate(ks):
      if k < K:
        x[t][idx[k]] = 1
        i2 = idx[K - 1 - k]
        if i2 != (0, 0):
          y[t][i2] = 1
      elif k < n_in:
        x[t] = dense[k - K]
        y[t] = dense_y[k - K]
    return x, y

  nz = 4
  z = rng.standard_normal((nz, nlon, nlat)).astype(dt)     # NOT band-limited
  if nlon * nlat <= 400:
    onehot = np.eye(nlon * nlat, dtype=dt).reshape(-1, nlon, nlat)
    z = np.concatenate([z, onehot])
    M.cover('nodal_inputs', 'noise+complete_nodal_basis')
  else:
    M.cover('nodal_inputs', 'noise')
  z2 = rng.standard_normal(z.shape).astype(dt)

  def bundle_modal(G):
    def f(x, y):
      out = {'to_nodal': G.to_nodal(x), 'ops': _ops(sh, G, x, y, poles)}
      tree = G.to_nodal({'a': x[:2], 'b': (y[:1], 2.5)})
      out['to_nodal(pytree)'] = (tree['a'], tree['b'][0])
      if not poles:
        for clip in (False, True):
          out[f'vor_div_to_uv_nodal[clip={clip}]'] = sh.vor_div_to_uv_nodal(G, y, y[::-1], clip=clip)
        out['vor_div_to_uv_nodal[default]'] = sh.vor_div_to_uv_nodal(G, y, y[::-1])
      return out
    return jax.jit(f)

  def bundle_nodal(G):
    def f(zz, zz2):
      out = {'to_modal': G.to_modal(zz), 'integrate': G.integrate(zz),
             'to_modal(pytree)': G.to_modal({'a': zz[:2], 's': 1.5})['a']}
      if not poles:
        for clip in (False, True):
          out[f'uv_nodal_to_vor_div_modal[clip={clip}]'] = sh.uv_nodal_to_vor_div_modal(G, zz, zz2, clip=clip)
        out['uv_nodal_to_vor_div_modal[default]'] = sh.uv_nodal_to_vor_div_modal(G, zz, zz2)
      return out
    return jax.jit(f)

  grids = [('real', gr), ('fast', gf)] + ([('default_fast', gd)] if gd is not None else [])
  bm = {nm: bundle_modal(G) for nm, G in grids}
  bn = {nm: bundle_nodal(G) for nm, G in grids}
  tonp = lambda t: jax.tree_util.tree_map(np.asarray, t)
  crop = lambda a: a[..., :nlon, :nlat]
  cut = lambda a: np.asarray(a)[..., :2 * Mw, :Lw]
  info = {'grid': cfg}

  def amax(a):
    a = np.asarray(a)
    return float(np.abs(a).max()) if a.size else 0.0

  nonzero = [False]

  def cmp_modal(mon, name, got_f, want_r, tolv=tol, scale=None):
    nonzero[0] = nonzero[0] or amax(want_r) > 0
    M.close(mon, gen.fast_to_real(got_f, gr, gf), want_r, tolv,
            scale=max(amax(want_r) if scale is None else scale, 1e-300), info={'grid': cfg, 'function': name})

  def cmp_nodal(mon, name, got_f, want_r, tolv=tol):
    nonzero[0] = nonzero[0] or amax(want_r) > 0
    M.close(mon, crop(got_f), want_r, tolv, scale=max(amax(want_r), 1e-300),
            info={'grid': cfg, 'function': name})
    if got_f.shape[-2:] != (nlon, nlat):
      rest = np.array(got_f)
      rest[..., :nlon, :nlat] = 0
      M.zero('nodal_padding_exactly_zero', rest, info={'grid': cfg, 'function': name})

  def zero_outside(name, got_f, sel=None):
    a = np.asarray(got_f)[..., pad_region]
    if sel is not None:
      a = a[sel]
    M.zero('fast_only_row_and_padding_exactly_zero', a, info={'grid': cfg, 'function': name})

  def vs_default(o_f, o_d):
    """The options never change results: against the default Fast grid (both cropped)."""
    flat_d = dict(jax.tree_util.tree_flatten_with_path(o_d)[0])
    for path, a in jax.tree_util.tree_flatten_with_path(o_f)[0]:
      b = flat_d[path]
      # classify by the shape of the DEFAULT (unpadded) result: the padded modal and nodal shapes of
      # the variant can coincide (e.g. both (16, 16)), the unpadded ones only when the two crops are
      # the same slices anyway
      if b.ndim >= 2 and b.shape[-2:] == (2 * Mw, Lw):
        a, b = cut(a), cut(b)
      elif b.ndim >= 2 and b.shape[-2:] == (nlon, nlat):
        a, b = crop(a), crop(b)
      M.close('option_variant_eq_default_fast', a, b, eps if f64 else tol, scale=max(amax(b), 1e-300),
              info={'grid': cfg, 'function': jax.tree_util.keystr(path)})

  # ---- nodal inputs
  o_r = tonp(bn['real'](z, z2))
  o_f = tonp(bn['fast'](gen.pad_nodal(z, gf), gen.pad_nodal(z2, gf)))
  cmp_modal('to_modal_fast_eq_real', 'to_modal', o_f['to_modal'], o_r['to_modal'])
  cmp_modal('to_modal_fast_eq_real', 'to_modal(pytree)', o_f['to_modal(pytree)'], o_r['to_modal(pytree)'])
  zero_outside('to_modal', o_f['to_modal'])
  M.zero('to_modal_exact_zero_outside_mask', o_f['to_modal'][..., ~np.asarray(gf.mask)], info=info)
  M.close('integrate_fast_eq_real', o_f['integrate'], o_r['integrate'], tol,
          scale=max(amax(o_r['integrate']), 1e-300), info=info)
  for key in o_r:
    if key.startswith('uv_nodal_to_vor_div_modal'):
      sc = max(amax(o_r[key][0]), amax(o_r[key][1]))
      for c in (0, 1):
        cmp_modal('uv_fast_eq_real', f'{key}[{c}]', o_f[key][c], o_r[key][c], scale=sc)
        if 'clip=False' in key:
          M.cover('padding_nonzero_for_top_wavenumber_input(reported)', key,
                  int((np.asarray(o_f[key][c])[..., pad_region] != 0).sum()))
        else:
          zero_outside(key, o_f[key][c])
      M.cover('operators_compared', key)
  if gd is not None:
    vs_default(o_f, tonp(bn['default_fast'](gen.pad_nodal(z, gd), gen.pad_nodal(z2, gd))))

  # ---- modal inputs, in chunks of fixed shape
  n_ops = 45
  chunk = int(max(8, min(n_in, 3.0e7 // (n_ops * max(msf[0] * msf[1], nsf[0] * nsf[1] // 4)))))
  n_chunks = 0
  for s0 in range(0, n_in, chunk):
    ks = list(range(s0, s0 + chunk))          # indices >= n_in give zero inputs (shape stays fixed)
    valid = np.array([k < n_in for k in ks])
    adm = np.array([k < n_in and bool(adm_all[k]) for k in ks])
    x, y = modal_inputs(ks)
    o_r = tonp(bm['real'](x, y))
    xf, yf = gen.real_to_fast(x, gr, gf), gen.real_to_fast(y, gr, gf)
    o_f = tonp(bm['fast'](xf, yf))
    n_chunks += 1
    cmp_nodal('to_nodal_fast_eq_real', 'to_nodal', o_f['to_nodal'], o_r['to_nodal'])
    for a, b in zip(o_f['to_nodal(pytree)'], o_r['to_nodal(pytree)']):
      cmp_nodal('to_nodal_fast_eq_real', 'to_nodal(pytree)', a, b)
    for name, want in o_r['ops'].items():
      got = o_f['ops'][name]
      cmp_modal('operator_fast_eq_real', name, got, want, tolv=eps if f64 else tol)
      spills = name in _SPILLS
      zero_outside(name, got, sel=adm if spills else None)
      if spills and (valid & ~adm).any():
        M.cover('padding_nonzero_for_top_wavenumber_input(reported)', name,
                int((np.asarray(got)[valid & ~adm][..., pad_region] != 0).sum()))
      if s0 == 0:
        M.cover('operators_compared', name)
    for key in o_r:
      if key.startswith('vor_div_to_uv_nodal'):
        for c in (0, 1):
          cmp_nodal('uv_fast_eq_real', f'{key}[{c}]', o_f[key][c], o_r[key][c])
        if s0 == 0:
          M.cover('operators_compared', key)
    if gd is not None:
      vs_default(o_f, tonp(bm['default_fast'](gen.real_to_fast(x, gr, gd), gen.real_to_fast(y, gr, gd))))
    if s0 + chunk >= n_in:
      # garbage in the unobservable entries of the Fast layout is not observable
      garbage = xf + np.where(np.asarray(gf.mask), 0, rng.standard_normal(xf.shape) * 1e3).astype(dt)
      cmp_nodal('to_nodal_fast_eq_real', 'to_nodal(garbage in Fast-only row / padding / |m|>l)',
                np.asarray(bm['fast'](garbage, yf)['to_nodal']), o_r['to_nodal'])
  if gd is not None:
    M.cover('option_variant_vs_default', 'compared')
  if Lw >= 3 and nonzero[0]:
    M.nontrivial_global('grid', cfg, M.env)
  M.sample({'kind': 'grid', 'grid': cfg, 'basis_vectors': K, 'dense_fields': nd, 'nodal_inputs': int(z.shape[0]),
            'operators': len(o_r['ops']), 'chunks': n_chunks})


def _run_matrix(case, M):
  """Every option combination: eager calls (the einsum kernels are shared between combinations)."""
  cfg0 = case['grid']
  f64, tol, dt = _tols(M)
  rng = M.rng()
  gr = gen.make_grid(_real_cfg(cfg0))
  Mw, Lw, nlon, nlat = cfg0['M'], cfg0['L'], cfg0['nlon'], cfg0['nlat']
  idx = gen.basis_indices(gr)
  E = np.zeros((len(idx),) + tuple(gr.modal_shape), dt)
  for k, (i, j) in enumerate(idx):
    E[k, i, j] = 1
  x = np.concatenate([E, gen.rand_modal(rng, gr, (2,), dtype=dt)])
  z = rng.standard_normal((5, nlon, nlat)).astype(dt)
  ref = {'to_nodal': np.asarray(gr.to_nodal(x)), 'to_modal': np.asarray(gr.to_modal(z)),
         'd_dlon': np.asarray(gr.d_dlon(x)), 'cos_lat_d_dlat': np.asarray(gr.cos_lat_d_dlat(x)),
         'laplacian': np.asarray(gr.laplacian(x)), 'clip_wavenumbers': np.asarray(gr.clip_wavenumbers(x)),
         'integrate': np.asarray(gr.integrate(z))}
  gd = gen.make_grid(_default_fast_cfg(cfg0))
  dflt = {'to_nodal': np.asarray(gd.to_nodal(gen.real_to_fast(x, gr, gd))),
          'to_modal': np.asarray(gd.to_modal(gen.pad_nodal(z, gd)))}
  amax = lambda a: max(float(np.abs(a).max()), 1e-300)
  for bsm, stk, rev, prec in case['combos']:
    cfg = dict(cfg0, bsm=bsm, stk=stk, rev=rev, prec=prec)
    gf = gen.make_grid(cfg)
    info = {'grid': cfg}
    pad_region = _pad_region(gf, Mw, Lw)
    xf = gen.real_to_fast(x, gr, gf)
    got = {'to_nodal': np.asarray(gf.to_nodal(xf)), 'to_modal': np.asarray(gf.to_modal(gen.pad_nodal(z, gf))),
           'd_dlon': np.asarray(gf.d_dlon(xf)), 'cos_lat_d_dlat': np.asarray(gf.cos_lat_d_dlat(xf)),
           'laplacian': np.asarray(gf.laplacian(xf)), 'clip_wavenumbers': np.asarray(gf.clip_wavenumbers(xf)),
           'integrate': np.asarray(gf.integrate(gen.pad_nodal(z, gf)))}
    M.close('option_matrix_fast_eq_real', got['to_nodal'][..., :nlon, :nlat], ref['to_nodal'], tol,
            scale=amax(ref['to_nodal']), info={**info, 'function': 'to_nodal'})
    M.close('option_matrix_fast_eq_real', got['integrate'], ref['integrate'], tol,
            scale=amax(ref['integrate']), info={**info, 'function': 'integrate'})
    for name in ('to_modal', 'd_dlon', 'cos_lat_d_dlat', 'laplacian', 'clip_wavenumbers'):
      M.close('option_matrix_fast_eq_real', gen.fast_to_real(got[name], gr, gf), ref[name], tol,
              scale=amax(ref[name]), info={**info, 'function': name})
      if name != 'cos_lat_d_dlat':
        M.zero('fast_only_row_and_padding_exactly_zero', got[name][..., pad_region],
               info={**info, 'function': name})
    # against the default Fast result (crop both to the unpadded region)
    M.close('option_variant_eq_default_fast', got['to_nodal'][..., :nlon, :nlat],
            dflt['to_nodal'][..., :nlon, :nlat], 1e-12 if f64 else tol, scale=amax(dflt['to_nodal']),
            info={**info, 'function': 'to_nodal'})
    M.close('option_variant_eq_default_fast', got['to_modal'][..., :2 * Mw, :Lw],
            dflt['to_modal'][..., :2 * Mw, :Lw], 1e-12 if f64 else tol, scale=amax(dflt['to_modal']),
            info={**info, 'function': 'to_modal'})
    M.same('mask_fast_eq_real', gen.fast_to_real(np.asarray(gf.mask), gr, gf), np.asarray(gr.mask), info=info)
    M.cover('option_matrix:base_shape_multiple', str(bsm))
    M.cover('option_matrix:stacked_fourier_transforms', str(stk))
    M.cover('option_matrix:reverse_einsum_arg_order', str(rev))
    M.cover('option_matrix:transform_precision', str(prec))
    M.cover('option_matrix:modal_shape', str(tuple(gf.modal_shape)))
    M.nontrivial_global('matrix', {k: cfg0[k] for k in ('M', 'L', 'nlon', 'nlat', 'spacing')},
                        bsm, stk, rev, prec, M.env)
  M.sample({'kind': 'matrix', 'grid': cfg0, 'combinations': len(case['combos'])})


def _run_mesh(case, M):
  """Real (single device) vs Fast on an SPMD mesh, where reverse_einsum_arg_order is effective."""
  import jax  # pylint: disable=import-outside-toplevel
  from dinosaur import spherical_harmonic as sh  # pylint: disable=import-outside-toplevel
  cfg0 = case['grid']
  f64, tol, dt = _tols(M)
  rng = M.rng()
  mesh = _make_mesh(case['mesh'])
  gr = gen.make_grid(_real_cfg(cfg0))
  Mw, Lw, nlon, nlat = cfg0['M'], cfg0['L'], cfg0['nlon'], cfg0['nlat']
  idx = gen.basis_indices(gr)
  E = np.zeros((len(idx),) + tuple(gr.modal_shape), dt)
  for k, (i, j) in enumerate(idx):
    E[k, i, j] = 1
  x = np.concatenate([E, gen.rand_modal(rng, gr, (4,), dtype=dt)])
  nz = 8
  z = rng.standard_normal((nz, nlon, nlat)).astype(dt)

  def bundle(G):
    def f(xx, zz):
      return {'to_nodal': G.to_nodal(xx), 'to_modal': G.to_modal(zz), 'd_dlon': G.d_dlon(xx),
              'cos_lat_d_dlat': G.cos_lat_d_dlat(xx), 'laplacian': G.laplacian(xx),
              'curl_cos_lat': G.curl_cos_lat((xx, xx[::-1])), 'div_cos_lat[clip=False]': G.div_cos_lat((xx, xx[::-1]), clip=False)}
    return jax.jit(f)

  ref = jax.tree_util.tree_map(np.asarray, bundle(gr)(x, z))
  amax = lambda a: max(float(np.abs(a).max()), 1e-300)
  results = {}
  for rev, stk in case['rev_stk']:
    cfg = dict(cfg0, rev=rev, stk=stk)
    gf = gen.make_grid(cfg, mesh=mesh)
    pad_region = _pad_region(gf, Mw, Lw)
    got = jax.tree_util.tree_map(np.asarray, bundle(gf)(gen.real_to_fast(x, gr, gf), gen.pad_nodal(z, gf)))
    info = {'grid': cfg, 'mesh': case['mesh'], 'modal_shape': tuple(gf.modal_shape)}
    M.close('to_nodal_fast_eq_real', got['to_nodal'][..., :nlon, :nlat], ref['to_nodal'], tol,
            scale=amax(ref['to_nodal']), info=info)
    for name in ('to_modal', 'd_dlon', 'cos_lat_d_dlat', 'laplacian', 'curl_cos_lat', 'div_cos_lat[clip=False]'):
      M.close('to_modal_fast_eq_real' if name == 'to_modal' else 'operator_fast_eq_real',
              gen.fast_to_real(got[name], gr, gf), ref[name], tol, scale=amax(ref[name]),
              info={**info, 'function': name})
      if name in ('to_modal', 'd_dlon', 'laplacian', 'curl_cos_lat'):
        M.zero('fast_only_row_and_padding_exactly_zero', got[name][..., pad_region], info={**info, 'function': name})
    M.same('mask_fast_eq_real', gen.fast_to_real(np.asarray(gf.mask), gr, gf), np.asarray(gr.mask), info=info)
    results[(rev, stk)] = got
    M.cover('mesh:reverse_einsum_arg_order x stacked', f'{case["mesh"]}:{rev}:{stk}')
    M.nontrivial_global('mesh', case['mesh'], cfg, M.env)
  keys = list(results)
  for k in keys[1:]:
    for name in ('to_nodal', 'to_modal'):
      a, b = results[keys[0]][name], results[k][name]
      a = a[..., :nlon, :nlat] if name == 'to_nodal' else a[..., :2 * Mw, :Lw]
      b = b[..., :nlon, :nlat] if name == 'to_nodal' else b[..., :2 * Mw, :Lw]
      M.close('option_variant_eq_default_fast', b, a, 1e-12 if f64 else tol, scale=amax(a),
              info={'grid': cfg0, 'mesh': case['mesh'], 'variants': [list(keys[0]), list(k)], 'function': name})
  M.sample({'kind': 'mesh', 'grid': cfg0, 'mesh': case['mesh'], 'variants': case['rev_stk']})


# ------------------------------------------------------------------------------------ dynamics
def _named_leaves(state, prefix=''):
  """[(name, array)] of a State / StateWithTime / shallow-water State or a leapfrog pair of them;
  tracer keys sorted (jit returns dicts with sorted keys)."""
  import dataclasses  # pylint: disable=import-outside-toplevel
  if isinstance(state, (tuple, list)) and not dataclasses.is_dataclass(state):
    out = []
    for t, s in enumerate(state):
      out += _named_leaves(s, f'{prefix}t{t}.')
    return out
  if not dataclasses.is_dataclass(state):
    raise TypeError(f'unexpected state type {type(state)}')
  out = []
  for f in dataclasses.fields(state):
    v = getattr(state, f.name)
    if isinstance(v, dict):
      out += [(f'{prefix}{f.name}.{k}', v[k]) for k in sorted(v)]
    elif v is not None:
      out.append((prefix + f.name, v))
  return sorted(out, key=lambda kv: kv[0])


def _map_modal(state, fn, shape2):
  """Apply fn to every leaf whose trailing two dims equal shape2."""
  import jax  # pylint: disable=import-outside-toplevel
  return jax.tree_util.tree_map(
      lambda a: fn(np.asarray(a)) if np.ndim(a) >= 2 and tuple(np.shape(a)[-2:]) == tuple(shape2) else a, state)


def _run_dyn(case, M):
  import jax  # pylint: disable=import-outside-toplevel
  from vp import core, model  # pylint: disable=import-outside-toplevel
  from dinosaur import scales, time_integration as ti  # pylint: disable=import-outside-toplevel
  f64, tol, dt_ = _tols(M)
  ttol = TRAJ64 if f64 else TRAJ32
  if not f64:
    tol = 3e-4
  rng = M.rng()
  cfg = case['grid']
  cfg_r = _real_cfg(cfg)
  kind, integ, nl, steps = case['eq'], case['integrator'], int(case['layers']), int(case['steps'])
  Mw, Lw = cfg['M'], cfg['L']
  units = scales.units
  info = {k: case[k] for k in ('eq', 'N', 'integrator', 'layers', 'dt_min', 'steps')}
  info['fast_options'] = {k: cfg.get(k) for k in ('bsm', 'stk')}

  if kind == 'sw':
    from dinosaur import shallow_water as sw, layer_coordinates as lc, coordinate_systems as cs  # pylint: disable=import-outside-toplevel
    dens = np.linspace(950.0, 1050.0, nl) if nl > 1 else np.array([1000.0])
    specs = sw.ShallowWaterSpecs.from_si(densities=dens * units.kg / units.m ** 3)
    gr = gen.make_grid(dict(cfg_r, radius=float(specs.radius)))
    gf = gen.make_grid(dict(cfg, radius=float(specs.radius)))
    cr, cf = cs.CoordinateSystem(gr, lc.LayerCoordinates(nl)), cs.CoordinateSystem(gf, lc.LayerCoordinates(nl))
    si = model.phys_state_si(rng, gr, nl, wind=35.0, div_wind=3.0)
    nd = lambda a, u: np.asarray(specs.nondimensionalize(a * u)).astype(dt_)
    pot = model._scaled_field(rng, gr, (nl,), Lw - 2, 1.0, 9.81 * 150.0)  # pylint: disable=protected-access
    st_r = sw.State(vorticity=nd(si['vorticity'], 1 / units.s), divergence=nd(si['divergence'], 1 / units.s),
                    potential=nd(pot, units.m ** 2 / units.s ** 2))
    oro_r = nd(model.orography_si(rng, gr, lmax=5, height=400.0) * 9.81, units.m ** 2 / units.s ** 2)
    ref_pot = np.asarray(specs.nondimensionalize(9.81 * np.linspace(3000.0, 1000.0, nl) * units.m ** 2 / units.s ** 2))
    eq_r = sw.ShallowWaterEquations(cr, specs, oro_r, ref_pot)
    eq_f = sw.ShallowWaterEquations(cf, specs, gen.real_to_fast(oro_r, gr, gf), ref_pot)
  else:
    specs = model.make_specs()
    bnd = gen.sigma_boundaries(rng, nl, uneven=True, ratio=4.0)
    cr = model.make_coords(cfg_r, bnd, specs)
    cf = model.make_coords(cfg, bnd, specs)
    gr, gf = cr.horizontal, cf.horizontal
    tracers = model.EQ_TRACERS[kind]
    st_r = model.to_state(model.phys_state_si(rng, gr, nl, tracers=tracers), specs,
                          with_time=(kind != 'dry'), dtype=dt_)
    oro_r = model.nondim_orography(model.orography_si(rng, gr, lmax=5, height=1500.0), specs, dtype=dt_)
    tref = model.tref_profile(rng, nl, kind='random')
    eq_r = model.make_eq(kind, tref, oro_r, cr, specs)
    eq_f = model.make_eq(kind, tref, gen.real_to_fast(oro_r, gr, gf), cf, specs)
  msr, msf = tuple(gr.modal_shape), tuple(gf.modal_shape)
  pad_region = _pad_region(gf, Mw, Lw)
  to_f = lambda s: _map_modal(s, lambda a: gen.real_to_fast(a, gr, gf), msr)
  to_r = lambda s: _map_modal(s, lambda a: gen.fast_to_real(a, gr, gf), msf)
  st_f = to_f(st_r)
  dt = float(specs.nondimensionalize(case['dt_min'] * units.minute))

  def compare(mon, got_f, want_r, tolv, what, scales_=None):
    """per-leaf relative comparison under the re-indexing; returns worst relative residual."""
    worst = 0.0
    gl, wl = dict(_named_leaves(to_r(got_f))), dict(_named_leaves(want_r))
    if set(gl) != set(wl):
      raise core.HarnessError(f'leaf names differ: {sorted(gl)} vs {sorted(wl)}')
    for n, w in wl.items():
      w, g = np.asarray(w), np.asarray(gl[n])
      sc = float(np.abs(w).max()) if w.size else 0.0
      if scales_ is not None:
        sc = max(sc, scales_.get(n, 0.0))
      if sc == 0.0:
        M.zero(mon + ':zero_leaf', g, info={**info, 'leaf': n, 'what': what})
        continue
      M.close(mon, g, w, tolv, scale=sc, info={**info, 'leaf': n, 'what': what})
      worst = max(worst, float(np.abs(g.astype(np.float64) - w).max()) / sc)
    return worst

  def zeros(mon, got_f, what):
    for n, a in _named_leaves(got_f):
      a = np.asarray(a)
      if a.ndim >= 2 and a.shape[-2:] == msf:
        M.zero(mon, a[..., pad_region], info={**info, 'leaf': n, 'what': what})

  # ---- tendencies and the implicit solve
  worst_t = 0.0
  for name in ('explicit_terms', 'implicit_terms'):
    fr, ff = jax.jit(getattr(eq_r, name)), jax.jit(getattr(eq_f, name))
    tr, tf = fr(st_r), ff(st_f)
    # scale floor: a leaf that vanishes by cancellation is compared on the scale of the state's
    # own tendency magnitude (per leaf kind) -- here simply the leaf's max
    worst_t = max(worst_t, compare('tendency_fast_eq_real', tf, tr, tol, name))
    zeros('fast_only_row_and_padding_exactly_zero', tf, name)
    M.finite('tendency_finite', tf, info=info)
  for eta in (0.5 * dt, -dt):
    ir = jax.jit(lambda s, e=eta: eq_r.implicit_inverse(s, e))(st_r)
    jf = jax.jit(lambda s, e=eta: eq_f.implicit_inverse(s, e))(st_f)
    worst_t = max(worst_t, compare('implicit_inverse_fast_eq_real', jf, ir, tol * 10, f'implicit_inverse(eta={eta:.3g})'))
    zeros('fast_only_row_and_padding_exactly_zero', jf, 'implicit_inverse')
  M.note('floor:tendency_and_solve_rel_' + ('f64' if f64 else 'f32'), worst_t)

  # ---- trajectories
  def build(eq, G):
    if integ == 'sil3':
      step = ti.imex_rk_sil3(eq, dt)
      fl = [ti.exponential_step_filter(G, dt), ti.horizontal_diffusion_step_filter(G, dt, tau=dt * 8.0, order=2)]
    else:
      step = ti.semi_implicit_leapfrog(eq, dt)
      fl = [ti.exponential_leapfrog_step_filter(G, dt), ti.robert_asselin_leapfrog_filter(0.05)]
    return jax.jit(ti.step_with_filters(step, fl))

  step_r, step_f = build(eq_r, gr), build(eq_f, gf)
  if integ == 'leapfrog':
    s_r, s_f = (st_r, st_r), (st_f, st_f)
  else:
    s_r, s_f = st_r, st_f
  norm0 = model.state_norm(st_r)
  scales_ = {n: float(np.abs(np.asarray(v)).max()) for n, v in _named_leaves(s_r) if np.size(v)}
  worst = 0.0
  for k in range(steps):
    s_r, s_f = step_r(s_r), step_f(s_f)
    last = s_r[1] if integ == 'leapfrog' else s_r
    n_now = model.state_norm(last)
    if not np.isfinite(n_now) or n_now > 10 * norm0:
      raise core.Discard('reference (Real) run blew up (CFL), not a property matter')
    worst = max(worst, compare('trajectory_fast_eq_real', s_f, s_r, ttol, f'after step {k + 1}', scales_))
    zeros('trajectory_fast_only_row_and_padding_exactly_zero', s_f, f'after step {k + 1}')
    M.finite('trajectory_finite', s_f, info=info)
  M.note('floor:trajectory_rel_' + ('f64' if f64 else 'f32'), worst)
  moved = 0.0
  last = s_r[1] if integ == 'leapfrog' else s_r
  for (n, a), (_, b) in zip(_named_leaves(last), _named_leaves(st_r)):
    if np.ndim(a) >= 2 and np.abs(b).max() > 0:
      moved = max(moved, float(np.abs(np.asarray(a) - np.asarray(b)).max() / np.abs(b).max()))
  M.cover('dynamics', f'{kind}:{integ}:T{case["N"]}:bsm={cfg.get("bsm")}:stk={cfg.get("stk")}')
  M.cover('dynamics_equation', kind)
  M.cover('dynamics_integrator', integ)
  if moved > 1e-6:
    M.nontrivial_global('dyn', {k: v for k, v in case.items() if k not in ('id', 'cost')})
  M.sample({'kind': 'dyn', **info, 'modal_shape_fast': msf, 'state_change_rel': moved,
            'worst_trajectory_rel_residual': worst, 'worst_tendency_rel_residual': worst_t}, limit=4)
